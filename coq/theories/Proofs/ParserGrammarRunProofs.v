(* Proofs/ParserGrammarRunProofs.v — a safety property of the whole defunctionalised grammar (NOT a
   termination proof): for every call, fuel and state, `run` never decreases pass_index, and a state
   that already carries an error is returned unchanged. *)
From PasfmtVerif Require Import Model.ParserGrammar Proofs.ParserGrammarProofs.
Local Open Scope nat_scope.

Section RunMono.
Variable pass : list nat.
Variable wsnl : list bool.
Notation pstate := (pstate pass).
Notation pidx := (pidx pass).
Notation has_err := (has_err pass).

Definition rg (s s' : pstate) : Prop := (has_err s = true -> s' = s) /\ pidx s <= pidx s'.
Lemma rg_refl s : rg s s.
Proof. split; [reflexivity|lia]. Qed.
Lemma rg_trans s1 s2 s3 : rg s1 s2 -> rg s2 s3 -> rg s1 s3.
Proof.
  intros [A1 A2] [B1 B2]. split; [|lia]. intros H. pose proof (A1 H) as X. subst s2. apply B1, H.
Qed.
Lemma good_rg s s' : good pass s s' -> rg s s'.
Proof. intros G. split; [apply G|apply good_pidx, G]. Qed.
Lemma same_rg s s' : same pass s s' -> rg s s'.
Proof. intros G. apply good_rg, same_good, G. Qed.
Lemma rg_step (f : pstate -> pstate) s e : (forall x, rg x (f x)) -> rg s e -> rg s (f e).
Proof. intros H G. eapply rg_trans; [exact G|apply H]. Qed.
Lemma fail_rg e s : rg s (fail pass e s).
Proof. unfold fail. destruct (has_err s) eqn:E; [apply rg_refl|]. split; [congruence|apply Nat.le_refl]. Qed.

Lemma simple_op_until_good pred op s :
  op_ok pass (fun s => (op s, true)) -> good pass s (simple_op_until pass pred op s).
Proof. intros H. apply op_until_good, H. Qed.
Lemma same_consolidate_prev_keyword s : same pass s (consolidate_prev_keyword pass s).
Proof.
  unfold consolidate_prev_keyword. destruct (ParserGrammar.pidx pass s); [apply same_refl|].
  destruct (nth_error pass n); [|apply same_refl].
  destruct (tt_at pass s n0) as [[]|]; try apply same_refl. apply same_set_tok.
Qed.
Lemma same_consolidate_class_op_in s : same pass s (consolidate_class_op_in pass s).
Proof.
  unfold consolidate_class_op_in. destruct (idx_next pass s); [|apply same_refl].
  destruct (tt_at pass s n) as [[| | |k| | | | | | |]|]; try apply same_refl.
  destruct k; try apply same_refl; apply same_set_tok.
Qed.

Ltac leaf_rg :=
  lazymatch goal with
  | |- rg _ (next_token _ _) => apply good_rg, next_token_good
  | |- rg _ (skip_pair _ _) => apply good_rg, skip_pair_good
  | |- rg _ (parse_expression _ _) => apply good_rg, parse_expression_good
  | |- rg _ (take_until _ _ _) => apply good_rg, take_until_good
  | |- rg _ (parse_parameter_list _ _) => apply good_rg, parse_parameter_list_good
  | |- rg _ (parse_routine_header _ _) => apply good_rg, parse_routine_header_good
  | |- rg _ (p_emit _ _ _ _) => apply good_rg, p_emit_good
  | |- rg _ (fail _ _ _) => apply fail_rg
  | |- rg _ (finish_logical_line _ _) => apply good_rg, finish_logical_line_good
  | |- rg _ (make_unfinished_line _ _) => apply good_rg, make_unfinished_line_good
  | |- rg _ (parse_property_declaration _ _) => apply good_rg, parse_property_declaration_good
  | |- rg _ (take_separators_on_last_line _ _ _) => apply good_rg, take_separators_on_last_line_good
  | |- rg _ (parse_asm_instructions _ _ _) => apply good_rg, parse_asm_instructions_good
  | |- rg _ (skip_token _ _) => apply good_rg, skip_token_good
  | |- rg _ (simple_op_until _ _ _ _) =>
      apply good_rg, simple_op_until_good;
      first [ apply keyword_consolidator_ok | apply parse_exports_op_ok
            | apply (proj1 (proj2 (proj2 (proj2 (proj2 (proj2 (grammar_ops_ok pass)))))))
            | apply (proj2 (proj2 (proj2 (proj2 (proj2 (proj2 (grammar_ops_ok pass))))))) ]
  | |- rg _ (consolidate_current_ident _ _) => apply same_rg, same_upd_cur
  | |- rg _ (consolidate_current_keyword _ _) => apply same_rg, same_upd_cur
  | |- rg _ (consolidate_current_caret_to_type _ _) => apply same_rg, same_upd_cur
  | |- rg _ (set_current_token_type _ _ _) => apply same_rg, same_upd_cur
  | |- rg _ (set_current_decl_kind _ _ _) => apply same_rg, same_upd_cur
  | |- rg _ (set_tok _ _ _ _) => apply same_rg, same_set_tok
  | |- rg _ (set_line_type _ _ _) => apply same_rg, same_set_line_type
  | |- rg _ (p_set_meta _ _ _ _) => apply same_rg, same_p_set_meta
  | |- rg _ (push_ctx _ _ _) => apply same_rg, same_push_ctx
  | |- rg _ (pop_ctx _ _) => apply same_rg, same_pop_ctx
  | |- rg _ (update_statuses _ _ _) => apply same_rg, same_update_statuses
  | |- rg _ (fix_next_eq _ _) => apply same_rg, fix_next_eq_same
  | |- rg _ (consolidate_prev_keyword _ _) => apply same_rg, same_consolidate_prev_keyword
  | |- rg _ (consolidate_class_op_in _ _) => apply same_rg, same_consolidate_class_op_in
  end.

Ltac rgo tac :=
  lazymatch goal with
  | H : rg ?s0 ?v |- rg ?s0 ?v => exact H
  | |- rg ?s ?s => apply rg_refl
  | |- rg ?s0 (let x := ?v in @?b x) =>
      lazymatch type of v with
      | ParserGrammar.pstate _ =>
          let H := fresh "H" in let y := fresh "y" in
          assert (H : rg s0 v) by (rgo tac);
          set (y := v) in *; clearbody y; change (rg s0 (b y)); cbv beta; rgo tac
      | _ => change (rg s0 (b v)); cbv beta; rgo tac
      end
  | |- rg _ (if ?b then _ else _) => destruct b; rgo tac
  | |- rg _ (match ?x with _ => _ end) => destruct x; rgo tac
  | |- rg _ (?f ?e) => apply (rg_step f); [intros; first [leaf_rg|tac]|rgo tac]
  end.

Lemma comment_arm_rg b s : rg s (comment_arm pass b s).
Proof. cbv delta [comment_arm] beta. rgo fail. Qed.
Lemma program_head_arm_rg k s : rg s (program_head_arm pass k s).
Proof.
  unfold program_head_arm. cbv zeta.
  apply (rg_step (finish_logical_line pass)); [intros; leaf_rg|].
  apply (rg_step (simple_op_until pass (after_semicolon pass) (keyword_consolidator pass is_portability))); [intros; leaf_rg|].
  apply (rg_step (next_token pass)); [intros; leaf_rg|].
  destruct (prev_tt pass s); [apply rg_refl|].
  destruct k; first [apply rg_refl | apply same_rg, same_upd_cur
                    | (apply (rg_step (push_ctx pass _)); [intros; leaf_rg|apply same_rg, same_upd_cur])].
Qed.
Lemma statement_prelude_rg s : rg s (fst (statement_prelude pass s)).
Proof.
  unfold statement_prelude. destruct (last_ctx pass s); [|apply rg_refl].
  destruct (ending_ctx pass s); [cbn [fst]; leaf_rg|].
  destruct (at_start pass s); [|apply rg_refl].
  destruct (c_type p) as [| | | | | | | | | | | | | |b|k| | | |]; cbn [fst]; try apply rg_refl; try leaf_rg.
  destruct k; cbn [fst]; first [apply rg_refl|leaf_rg].
Qed.

(* ---------------- the arms, over any callback R that is itself monotone *)
Section ArmsMono.
Variable R : call -> pstate -> pstate.
Hypothesis HR : forall c x, rg x (R c x).
Create HintDb rgdb.
#[local] Hint Resolve HR comment_arm_rg program_head_arm_rg rg_refl : rgdb.
Ltac atac := solve [auto with rgdb].
Ltac arm D := cbv delta [D] beta; rgo atac.

Lemma stmt_block_rg t p l k s : rg s (stmt_block pass R t p l k s).
Proof. unfold stmt_block. apply HR. Qed.
Lemma s_loop_rg s : rg s (s_loop pass R s).
Proof. apply HR. Qed.
#[local] Hint Resolve stmt_block_rg s_loop_rg : rgdb.
Lemma s_other_rg s : rg s (s_other pass R s).
Proof. arm s_other. Qed.
Lemma t_loop_rg s : rg s (t_loop pass R s).
Proof. apply HR. Qed.
#[local] Hint Resolve s_other_rg t_loop_rg : rgdb.
Lemma t_other_rg s : rg s (t_other pass R s).
Proof. arm t_other. Qed.
#[local] Hint Resolve t_other_rg : rgdb.
Lemma label_or_other_rg s : rg s (label_or_other pass R s).
Proof. arm label_or_other. Qed.
#[local] Hint Resolve label_or_other_rg : rgdb.


Lemma arm_with_ctx_rg cx a s : rg s (arm_with_ctx pass wsnl R cx a s).
Proof.
  arm arm_with_ctx.
Qed.
#[local] Hint Resolve arm_with_ctx_rg : rgdb.

Lemma arm_block_rg cx s : rg s (arm_block pass R cx s).
Proof.
  arm arm_block.
Qed.
#[local] Hint Resolve arm_block_rg : rgdb.

Lemma arm_stmt_block_rg cx k s : rg s (arm_stmt_block pass R cx k s).
Proof.
  arm arm_stmt_block.
Qed.
#[local] Hint Resolve arm_stmt_block_rg : rgdb.

Lemma arm_stmt_list_rg t op p s : rg s (arm_stmt_list pass R t op p s).
Proof.
  arm arm_stmt_list.
Qed.
#[local] Hint Resolve arm_stmt_list_rg : rgdb.

Lemma arm_line_section_rg cx s : rg s (arm_line_section pass R cx s).
Proof.
  arm arm_line_section.
Qed.
#[local] Hint Resolve arm_line_section_rg : rgdb.

Lemma arm_comment_lines_rg s : rg s (arm_comment_lines pass R s).
Proof.
  arm arm_comment_lines.
Qed.
#[local] Hint Resolve arm_comment_lines_rg : rgdb.

Lemma sa_directive_rg s : rg s (sa_directive pass R s).
Proof.
  arm sa_directive.
Qed.
#[local] Hint Resolve sa_directive_rg : rgdb.

Lemma sa_comment_rg s : rg s (sa_comment pass R s).
Proof.
  arm sa_comment.
Qed.
#[local] Hint Resolve sa_comment_rg : rgdb.

Lemma sa_program_head_rg k s : rg s (sa_program_head pass R k s).
Proof.
  arm sa_program_head.
Qed.
#[local] Hint Resolve sa_program_head_rg : rgdb.

Lemma sa_lbrack_rg s : rg s (sa_lbrack pass R s).
Proof.
  arm sa_lbrack.
Qed.
#[local] Hint Resolve sa_lbrack_rg : rgdb.

Lemma sa_section_rg k s : rg s (sa_section pass R k s).
Proof.
  arm sa_section.
Qed.
#[local] Hint Resolve sa_section_rg : rgdb.

Lemma sa_begin_rg s : rg s (sa_begin pass R s).
Proof.
  arm sa_begin.
Qed.
#[local] Hint Resolve sa_begin_rg : rgdb.

Lemma sa_end_rg s : rg s (sa_end pass R s).
Proof.
  arm sa_end.
Qed.
#[local] Hint Resolve sa_end_rg : rgdb.

Lemma sa_repeat_rg s : rg s (sa_repeat pass R s).
Proof.
  arm sa_repeat.
Qed.
#[local] Hint Resolve sa_repeat_rg : rgdb.

Lemma sa_try_rg s : rg s (sa_try pass R s).
Proof.
  arm sa_try.
Qed.
#[local] Hint Resolve sa_try_rg : rgdb.

Lemma sa_on_rg s : rg s (sa_on pass R s).
Proof.
  arm sa_on.
Qed.
#[local] Hint Resolve sa_on_rg : rgdb.

Lemma sa_do_rg is_for s : rg s (sa_do pass R is_for s).
Proof.
  arm sa_do.
Qed.
#[local] Hint Resolve sa_do_rg : rgdb.

Lemma sa_if_rg s : rg s (sa_if pass R s).
Proof.
  arm sa_if.
Qed.
#[local] Hint Resolve sa_if_rg : rgdb.

Lemma sa_else_rg s : rg s (sa_else pass R s).
Proof.
  arm sa_else.
Qed.
#[local] Hint Resolve sa_else_rg : rgdb.

Lemma sa_case_rg s : rg s (sa_case pass R s).
Proof.
  arm sa_case.
Qed.
#[local] Hint Resolve sa_case_rg : rgdb.

Lemma sa_uses_rg s : rg s (sa_uses pass R s).
Proof.
  arm sa_uses.
Qed.
#[local] Hint Resolve sa_uses_rg : rgdb.

Lemma sa_contains_rg s : rg s (sa_contains pass R s).
Proof.
  arm sa_contains.
Qed.
#[local] Hint Resolve sa_contains_rg : rgdb.

Lemma sa_exports_rg s : rg s (sa_exports pass R s).
Proof.
  arm sa_exports.
Qed.
#[local] Hint Resolve sa_exports_rg : rgdb.

Lemma sa_class_rg s : rg s (sa_class pass R s).
Proof.
  arm sa_class.
Qed.
#[local] Hint Resolve sa_class_rg : rgdb.

Lemma sa_strict_rg s : rg s (sa_strict pass R s).
Proof.
  arm sa_strict.
Qed.
#[local] Hint Resolve sa_strict_rg : rgdb.

Lemma sa_visibility_rg s : rg s (sa_visibility pass R s).
Proof.
  arm sa_visibility.
Qed.
#[local] Hint Resolve sa_visibility_rg : rgdb.

Lemma sa_decl_rg k s : rg s (sa_decl pass R k s).
Proof.
  arm sa_decl.
Qed.
#[local] Hint Resolve sa_decl_rg : rgdb.

Lemma sa_property_rg s : rg s (sa_property pass R s).
Proof.
  arm sa_property.
Qed.
#[local] Hint Resolve sa_property_rg : rgdb.

Lemma sa_routine_rg s : rg s (sa_routine pass R s).
Proof.
  arm sa_routine.
Qed.
#[local] Hint Resolve sa_routine_rg : rgdb.

Lemma sa_asm_rg s : rg s (sa_asm pass R s).
Proof.
  arm sa_asm.
Qed.
#[local] Hint Resolve sa_asm_rg : rgdb.

Lemma sa_raise_rg s : rg s (sa_raise pass R s).
Proof.
  arm sa_raise.
Qed.
#[local] Hint Resolve sa_raise_rg : rgdb.

Lemma sa_other_rg s : rg s (sa_other pass R s).
Proof.
  arm sa_other.
Qed.
#[local] Hint Resolve sa_other_rg : rgdb.

Lemma arm_structures_rg s : rg s (arm_structures pass R s).
Proof.
  unfold arm_structures. destruct (cur_tt pass s) as [tk|]; [|apply rg_refl].
  destruct (ending_ctx pass s); [leaf_rg|]. destruct (sarm_of tk); auto with rgdb.
Qed.
#[local] Hint Resolve arm_structures_rg : rgdb.

Lemma st_struct_type_body_rg s : rg s (st_struct_type_body pass R s).
Proof.
  arm st_struct_type_body.
Qed.
#[local] Hint Resolve st_struct_type_body_rg : rgdb.

Lemma st_struct_type_rg s : rg s (st_struct_type pass R s).
Proof.
  arm st_struct_type.
Qed.
#[local] Hint Resolve st_struct_type_rg : rgdb.

Lemma st_of_rg s : rg s (st_of pass R s).
Proof.
  arm st_of.
Qed.
#[local] Hint Resolve st_of_rg : rgdb.

Lemma st_var_rg s : rg s (st_var pass R s).
Proof.
  arm st_var.
Qed.
#[local] Hint Resolve st_var_rg : rgdb.

Lemma st_lparen_rg s : rg s (st_lparen pass R s).
Proof.
  arm st_lparen.
Qed.
#[local] Hint Resolve st_lparen_rg : rgdb.

Lemma st_semicolon_rg s : rg s (st_semicolon pass s).
Proof.
  arm st_semicolon.
Qed.
#[local] Hint Resolve st_semicolon_rg : rgdb.

Lemma st_lt_rg s : rg s (st_lt pass R s).
Proof.
  arm st_lt.
Qed.
#[local] Hint Resolve st_lt_rg : rgdb.

Lemma st_colon_rg s : rg s (st_colon pass R s).
Proof.
  arm st_colon.
Qed.
#[local] Hint Resolve st_colon_rg : rgdb.

Lemma st_equal_rg s : rg s (st_equal pass R s).
Proof.
  arm st_equal.
Qed.
#[local] Hint Resolve st_equal_rg : rgdb.

Lemma st_reference_rg s : rg s (st_reference pass R s).
Proof.
  arm st_reference.
Qed.
#[local] Hint Resolve st_reference_rg : rgdb.

Lemma st_in_rg s : rg s (st_in pass R s).
Proof.
  arm st_in.
Qed.
#[local] Hint Resolve st_in_rg : rgdb.

Lemma st_to_rg s : rg s (st_to pass R s).
Proof.
  arm st_to.
Qed.
#[local] Hint Resolve st_to_rg : rgdb.

Lemma st_absolute_rg s : rg s (st_absolute pass R s).
Proof.
  arm st_absolute.
Qed.
#[local] Hint Resolve st_absolute_rg : rgdb.

Lemma st_assign_rg s : rg s (st_assign pass R s).
Proof.
  arm st_assign.
Qed.
#[local] Hint Resolve st_assign_rg : rgdb.

Lemma st_routine_rg s : rg s (st_routine pass R s).
Proof.
  arm st_routine.
Qed.
#[local] Hint Resolve st_routine_rg : rgdb.

Lemma st_begin_rg s : rg s (st_begin pass R s).
Proof.
  arm st_begin.
Qed.
#[local] Hint Resolve st_begin_rg : rgdb.

Lemma st_label_cand_rg s : rg s (st_label_cand pass R s).
Proof.
  arm st_label_cand.
Qed.
#[local] Hint Resolve st_label_cand_rg : rgdb.

Lemma st_other_rg s : rg s (st_other pass R s).
Proof.
  arm st_other.
Qed.
#[local] Hint Resolve st_other_rg : rgdb.

Lemma arm_statement_rg s : rg s (arm_statement pass R s).
Proof.
  unfold arm_statement. destruct (cur_tt pass s) as [tk|]; [|apply rg_refl].
  pose proof (statement_prelude_rg s) as P. destruct (statement_prelude pass s) as [s1 go]. cbn [fst] in P.
  destruct (negb go); [exact P|]. eapply rg_trans; [exact P|]. destruct (starm_of tk); auto with rgdb.
Qed.
#[local] Hint Resolve arm_statement_rg : rgdb.

Lemma arm_if_then_rg s : rg s (arm_if_then pass R s).
Proof.
  arm arm_if_then.
Qed.
#[local] Hint Resolve arm_if_then_rg : rgdb.

Lemma arm_do_rg is_for s : rg s (arm_do pass R is_for s).
Proof.
  arm arm_do.
Qed.
#[local] Hint Resolve arm_do_rg : rgdb.

Lemma arm_case_statement_rg s : rg s (arm_case_statement pass R s).
Proof.
  arm arm_case_statement.
Qed.
#[local] Hint Resolve arm_case_statement_rg : rgdb.

Lemma arm_variant_record_rg s : rg s (arm_variant_record pass R s).
Proof.
  arm arm_variant_record.
Qed.
#[local] Hint Resolve arm_variant_record_rg : rgdb.

Lemma arm_case_arm_rg parent s : rg s (arm_case_arm pass R parent s).
Proof.
  arm arm_case_arm.
Qed.
#[local] Hint Resolve arm_case_arm_rg : rgdb.

Lemma arm_import_clause_rg s : rg s (arm_import_clause pass R s).
Proof.
  arm arm_import_clause.
Qed.
#[local] Hint Resolve arm_import_clause_rg : rgdb.

Lemma arm_parens_rg s : rg s (arm_parens pass R s).
Proof.
  arm arm_parens.
Qed.
#[local] Hint Resolve arm_parens_rg : rgdb.

Lemma arm_parens_loop_rg s : rg s (arm_parens_loop pass R s).
Proof.
  arm arm_parens_loop.
Qed.
#[local] Hint Resolve arm_parens_loop_rg : rgdb.

Lemma arm_variant_fields_rg s : rg s (arm_variant_fields pass R s).
Proof.
  arm arm_variant_fields.
Qed.
#[local] Hint Resolve arm_variant_fields_rg : rgdb.

Lemma arm_anon_rg s : rg s (arm_anon pass R s).
Proof.
  arm arm_anon.
Qed.
#[local] Hint Resolve arm_anon_rg : rgdb.

Lemma arm_anon_loop_rg parent s : rg s (arm_anon_loop pass R parent s).
Proof.
  arm arm_anon_loop.
Qed.
#[local] Hint Resolve arm_anon_loop_rg : rgdb.

Lemma arm_routine_rg s : rg s (arm_routine pass R s).
Proof.
  arm arm_routine.
Qed.
#[local] Hint Resolve arm_routine_rg : rgdb.

Lemma arm_asm_block_rg s : rg s (arm_asm_block pass R s).
Proof.
  arm arm_asm_block.
Qed.
#[local] Hint Resolve arm_asm_block_rg : rgdb.

Lemma arm_begin_end_rg lvl s : rg s (arm_begin_end pass R lvl s).
Proof.
  arm arm_begin_end.
Qed.
#[local] Hint Resolve arm_begin_end_rg : rgdb.

Lemma arm_top_rg s : rg s (arm_top pass R s).
Proof.
  arm arm_top.
Qed.
#[local] Hint Resolve arm_top_rg : rgdb.

End ArmsMono.

(* for every call, fuel and state: an errored state is returned unchanged and pass_index never
   decreases (nothing is said about termination: out of fuel is an error like any other) *)
Theorem run_monotone : forall fuel c s, rg s (run pass wsnl fuel c s).
Proof.
  induction fuel as [|f IH]; intros c s.
  - cbn [run]. destruct (has_err s) eqn:E; [apply rg_refl|apply fail_rg].
  - cbn [run]. destruct (has_err s) eqn:E; [apply rg_refl|].
    destruct c.

    + apply (arm_structures_rg (run pass wsnl f) IH).

    + apply (arm_statement_rg (run pass wsnl f) IH).

    + apply (arm_if_then_rg (run pass wsnl f) IH).

    + apply (arm_do_rg (run pass wsnl f) IH).

    + apply (arm_case_statement_rg (run pass wsnl f) IH).

    + apply (arm_variant_record_rg (run pass wsnl f) IH).

    + apply (arm_case_arm_rg (run pass wsnl f) IH).

    + apply (arm_comment_lines_rg (run pass wsnl f) IH).

    + apply (arm_import_clause_rg (run pass wsnl f) IH).

    + apply (arm_line_section_rg (run pass wsnl f) IH).

    + apply (arm_stmt_block_rg (run pass wsnl f) IH).

    + apply (arm_stmt_list_rg (run pass wsnl f) IH).

    + apply (arm_block_rg (run pass wsnl f) IH).

    + apply (arm_with_ctx_rg (run pass wsnl f) IH).

    + apply (arm_parens_rg (run pass wsnl f) IH).

    + apply (arm_parens_loop_rg (run pass wsnl f) IH).

    + apply (arm_variant_fields_rg (run pass wsnl f) IH).

    + apply (arm_anon_rg (run pass wsnl f) IH).

    + apply (arm_anon_loop_rg (run pass wsnl f) IH).

    + apply (arm_routine_rg (run pass wsnl f) IH).

    + apply (arm_asm_block_rg (run pass wsnl f) IH).

    + apply (arm_begin_end_rg (run pass wsnl f) IH).

    + apply (arm_top_rg (run pass wsnl f) IH).

Qed.

Corollary run_pidx_monotone fuel c s : pidx s <= pidx (run pass wsnl fuel c s).
Proof. apply run_monotone. Qed.
Corollary run_error_unchanged fuel c s : ps_err pass s <> None -> run pass wsnl fuel c s = s.
Proof.
  intros E. apply (proj1 (run_monotone fuel c s)). unfold ParserGrammar.has_err. destruct (ps_err pass s); congruence.
Qed.
End RunMono.
