(* Proofs/MeasureProofs.v — the wrapper's measure of a line is the column the reconstructor reaches.
   For every token whose final counters are what a decision wrote (line start without spaces, or
   continuation without indentation), rendering it moves the column exactly to
   get_token_line_length's value: indentation strings times counters plus content for a line start,
   previous column plus spaces plus content for a continuation, the last line for a multi-line token.
   Hence "fits within wrap_column" as the search sees it is "fits" in the output (C10, C11). *)
From PasfmtVerif Require Import Model.Measure.

Lemma blen_app a b : blen (a ++ b) = blen a + blen b.
Proof. unfold blen. rewrite app_length. lia. Qed.

Lemma blen_cons x a : blen (x :: a) = 1 + blen a.
Proof. unfold blen. cbn [length]. lia. Qed.

Lemma col_after_app a : forall c b, col_after c (a ++ b) = col_after (col_after c a) b.
Proof.
  induction a as [|x a IH]; intros c b; [reflexivity|].
  cbn [app col_after]. destruct (x =? 10); apply IH.
Qed.

Lemma col_after_no_lf b : forall c, no_lf b = true -> col_after c b = c + blen b.
Proof.
  induction b as [|x b IH]; intros c H.
  - unfold blen. cbn. lia.
  - cbn [no_lf forallb] in H. apply andb_true_iff in H. destruct H as [Hx Hb].
    cbn [col_after]. destruct (x =? 10) eqn:E; [discriminate|].
    rewrite IH by exact Hb. rewrite blen_cons. lia.
Qed.

Lemma no_lf_app a b : no_lf (a ++ b) = no_lf a && no_lf b.
Proof. unfold no_lf. apply forallb_app. Qed.

Lemma no_lf_repeat_app n s : no_lf s = true -> no_lf (repeat_app n s) = true.
Proof.
  intros H. induction n as [|n IH]; [reflexivity|].
  cbn [repeat_app]. rewrite no_lf_app, H, IH. reflexivity.
Qed.

Lemma blen_nrepeat n s : blen (nrepeat n s) = n * blen s.
Proof.
  unfold nrepeat, blen. rewrite repeat_app_length. lia.
Qed.

Lemma col_after_nrepeat_no_lf n s c : no_lf s = true -> col_after c (nrepeat n s) = c + n * blen s.
Proof.
  intros H. rewrite col_after_no_lf by (apply no_lf_repeat_app; exact H). rewrite blen_nrepeat. reflexivity.
Qed.

Lemma ends_lf_spec b : ends_lf b = true -> exists x, b = x ++ [10].
Proof.
  unfold ends_lf. destruct (rev b) as [|y r] eqn:E; [discriminate|].
  intros H. apply N.eqb_eq in H. subst y.
  exists (rev r). rewrite <- (rev_involutive b), E. reflexivity.
Qed.

Lemma col_after_ends_lf b c : ends_lf b = true -> col_after c b = 0.
Proof.
  intros H. destruct (ends_lf_spec b H) as [x ->].
  rewrite col_after_app. reflexivity.
Qed.

Lemma repeat_app_ends n (s : bytes) : exists x, repeat_app (S n) s = x ++ s.
Proof.
  induction n as [|n [x IH]].
  - exists []. cbn. rewrite app_nil_r. reflexivity.
  - exists (s ++ x). change (repeat_app (S (S n)) s) with (s ++ repeat_app (S n) s).
    rewrite IH, app_assoc. reflexivity.
Qed.

Lemma col_after_newlines n s c : 0 < n -> ends_lf s = true -> col_after c (nrepeat n s) = 0.
Proof.
  intros Hn Hs. unfold nrepeat.
  destruct (N.to_nat n) as [|k] eqn:E; [lia|].
  destruct (repeat_app_ends k s) as [x ->].
  rewrite col_after_app. apply col_after_ends_lf. exact Hs.
Qed.

(* --- a multi-line content: the column after it is the length of its last line ------------ *)

Definition tail_col (c : N) (ps : list (bytes * bool)) : N :=
  match ps with
  | [] => c
  | [(p, false)] => c + blen p
  | [(_, true)] => 0
  | _ :: tl => match last_opt tl with Some (p, false) => blen p | _ => 0 end
  end.

Lemma last_opt_cons {A} (a : A) l : l <> [] -> last_opt (a :: l) = last_opt l.
Proof. destruct l; [congruence|reflexivity]. Qed.

Lemma col_after_pieces l : forall c, col_after c l = tail_col c (lf_pieces l).
Proof.
  induction l as [|x r IH]; intros c; [reflexivity|].
  cbn [col_after lf_pieces]. destruct (x =? 10) eqn:E.
  - rewrite IH. unfold tail_col.
    destruct (lf_pieces r) as [|[p t] rest]; [reflexivity|].
    destruct rest as [|q rest']; destruct t; cbn [last_opt]; try reflexivity; lia.
  - rewrite IH. unfold tail_col.
    destruct (lf_pieces r) as [|[p t] rest].
    + rewrite blen_cons. unfold blen. cbn [length]. lia.
    + destruct rest as [|q rest']; destruct t; try reflexivity. rewrite blen_cons. lia.
Qed.

(* the last piece is unterminated when the text does not end in LF *)
Lemma lf_pieces_last l : l <> [] -> exists p t, last_opt (lf_pieces l) = Some (p, t) /\
  (t = true <-> ends_lf l = true).
Proof.
  induction l as [|x r IH]; [congruence|]. intros _.
  destruct r as [|y r'].
  - cbn [lf_pieces]. destruct (x =? 10) eqn:E.
    + exists [], true. split; [reflexivity|]. unfold ends_lf. cbn. rewrite E. tauto.
    + exists [x], false. split; [reflexivity|]. unfold ends_lf. cbn. rewrite E. split; discriminate.
  - destruct IH as (p & t & Hl & Ht); [congruence|].
    assert (Hends : ends_lf (x :: y :: r') = ends_lf (y :: r')).
    { unfold ends_lf. change (x :: y :: r') with ([x] ++ (y :: r')). rewrite rev_app_distr.
      destruct (rev (y :: r')) as [|z zs] eqn:Er; [|reflexivity].
      apply (f_equal (@length _)) in Er. rewrite rev_length in Er. discriminate. }
    rewrite Hends.
    remember (y :: r') as r eqn:Hr.
    cbn [lf_pieces]. destruct (x =? 10).
    + exists p, t. split; [|exact Ht].
      rewrite last_opt_cons; [exact Hl|]. intros Hn. rewrite Hn in Hl. discriminate.
    + destruct (lf_pieces r) as [|[p0 t0] rest] eqn:Ep; [discriminate|].
      destruct rest as [|q rest'].
      * cbn [last_opt] in Hl. injection Hl as -> ->. exists (x :: p), t. split; [reflexivity|exact Ht].
      * exists p, t. split; [|exact Ht]. cbn [last_opt] in Hl |- *. exact Hl.
Qed.

Definition not_ends_lf (c : bytes) : bool := negb (ends_lf c).

Lemma col_after_content c0 content :
  not_ends_lf content = true ->
  col_after c0 content = match ml_last_len content with Some l => l | None => c0 + blen content end.
Proof.
  intros Hne. unfold not_ends_lf in Hne. apply negb_true_iff in Hne.
  rewrite col_after_pieces. unfold ml_last_len, tail_col.
  destruct content as [|x r] eqn:Ec.
  { unfold blen. cbn. lia. }
  rewrite <- Ec in *.
  destruct (lf_pieces_last content) as (p & t & Hl & Ht); [rewrite Ec; congruence|].
  assert (Hf : t = false). { destruct t; [|reflexivity]. destruct Ht as [Ht _]. rewrite Ht in Hne; [discriminate|reflexivity]. }
  subst t.
  destruct (lf_pieces content) as [|[p0 t0] rest] eqn:Ep; [discriminate|].
  destruct rest as [|q rest'].
  - cbn [last_opt] in Hl. injection Hl as -> ->. cbn [last_opt].
    (* a single unterminated piece: the content itself *)
    assert (Hp : p = content).
    { clear - Ep. revert p Ep. induction content as [|x r IH]; intros p Ep; [discriminate|].
      cbn [lf_pieces] in Ep. destruct (x =? 10); [destruct (lf_pieces r); discriminate|].
      destruct (lf_pieces r) as [|[p1 t1] rest] eqn:Er.
      - injection Ep as <-. destruct r as [|y r']; [reflexivity|].
        exfalso. cbn [lf_pieces] in Er. destruct (y =? 10); [discriminate|]. destruct (lf_pieces r') as [|[? ?] ?]; discriminate.
      - destruct rest; [|discriminate]. injection Ep as E1 E2. subst p t1. f_equal. apply IH. reflexivity. }
    subst p. reflexivity.
  - cbn [last_opt] in Hl |- *. rewrite Hl. cbn [line_of_piece snd fst]. destruct t0; reflexivity.
Qed.

(* --- one token ------------------------------------------------------------------------------ *)

Lemma tok_content_ok tok :
  (if is_ml_measured (t_ty tok) then last_not_term (t_content tok) else no_lf (t_content tok)) = true ->
  forall c, col_after c (t_content tok) = match ml_measure tok with Some l => l | None => c + blen (t_content tok) end.
Proof.
  intros H c. unfold ml_measure. destruct (is_ml_measured (t_ty tok)).
  - apply col_after_content. unfold not_ends_lf, ends_lf. unfold last_not_term in H.
    destruct (rev (t_content tok)) as [|x r]; [reflexivity|].
    apply andb_true_iff in H. destruct H as [H _]. exact H.
  - apply col_after_no_lf. exact H.
Qed.

Theorem rendered_col_eq_counter_col rs mb col p :
  rs_measurable rs = true -> tok_measurable p = true ->
  (mb = false \/ (0 <? f_nl (snd p)) = true \/ is_eof (t_ty (fst p)) = true) ->
  rendered_col rs mb col p = counter_col rs col p.
Proof.
  destruct p as [tok f]. unfold rs_measurable, tok_measurable, rendered_col, counter_col, emit_ws.
  intros Hrs Hp Hmb. cbn [fst snd] in *.
  apply andb_true_iff in Hrs. destruct Hrs as [Hrs Hc]. apply andb_true_iff in Hrs. destruct Hrs as [Hn Hi].
  apply andb_true_iff in Hp. destruct Hp as [Hp Hcont]. apply andb_true_iff in Hp. destruct Hp as [Hig Hshape].
  apply negb_true_iff in Hig. rewrite Hig.
  assert (Hnls : (if mb && (f_nl f =? 0) && negb (is_eof (t_ty tok)) then 1 else f_nl f) = f_nl f).
  { destruct (mb && (f_nl f =? 0) && negb (is_eof (t_ty tok))) eqn:E; [|reflexivity].
    apply andb_true_iff in E. destruct E as [E E3]. apply andb_true_iff in E. destruct E as [E1 E2].
    apply N.eqb_eq in E2. apply negb_true_iff in E3.
    destruct Hmb as [Hm|[Hm|Hm]]; [congruence| apply N.ltb_lt in Hm; lia | congruence]. }
  rewrite Hnls.
  rewrite !col_after_app, (tok_content_ok tok Hcont).
  destruct (0 <? f_nl f) eqn:Enl.
  - apply N.ltb_lt in Enl. apply N.eqb_eq in Hshape. rewrite Hshape.
    rewrite (col_after_newlines _ _ _ Enl Hn).
    rewrite (col_after_nrepeat_no_lf _ _ _ Hi), (col_after_nrepeat_no_lf _ _ _ Hc).
    change (nrepeat 0 [32]) with (@nil N). cbn [col_after].
    destruct (ml_measure tok); [reflexivity|]. unfold lw_len. lia.
  - apply N.ltb_ge in Enl. assert (f_nl f = 0) as -> by lia.
    apply andb_true_iff in Hshape. destruct Hshape as [H1 H2]. apply N.eqb_eq in H1, H2. rewrite H1, H2.
    change (nrepeat 0 (rs_newline rs)) with (@nil N). change (nrepeat 0 (rs_indent rs)) with (@nil N).
    change (nrepeat 0 (rs_cont rs)) with (@nil N). cbn [col_after].
    rewrite col_after_nrepeat_no_lf by reflexivity.
    destruct (ml_measure tok); [reflexivity|]. unfold blen at 1. cbn [length]. lia.
Qed.

(* --- the whole vector ---------------------------------------------------------------------- *)

Theorem rendered_cols_eq_counter_cols rs l : forall mb col,
  rs_measurable rs = true -> forallb tok_measurable l = true -> breaks_after_sl mb l = true ->
  rendered_cols rs mb col l = counter_cols rs col l.
Proof.
  induction l as [|p r IH]; intros mb col Hrs Hl Hb; [reflexivity|].
  cbn [forallb] in Hl. apply andb_true_iff in Hl. destruct Hl as [Hp Hr].
  cbn [breaks_after_sl] in Hb. apply andb_true_iff in Hb. destruct Hb as [Hb1 Hb2].
  cbn [rendered_cols counter_cols].
  assert (E : rendered_col rs mb col p = counter_col rs col p).
  { apply rendered_col_eq_counter_col; [exact Hrs|exact Hp|].
    destruct mb; [|left; reflexivity]. apply orb_true_iff in Hb1. destruct Hb1 as [H|H]; [right; left|right; right]; exact H. }
  rewrite E. f_equal. apply IH; assumption.
Qed.

(* --- the decision that wrote the counters -------------------------------------------------- *)

Definition zero_start1 (f : fmt) : fmt :=
  if 0 <? f_nl f then mkFmt (f_ignored f) (f_nl f) (f_ind f) (f_cont f) 0 else f.

Lemma clamp12_pos n : 0 < clamp12 n.
Proof. unfold clamp12. destruct (n <? 1) eqn:E; [lia|]. apply N.ltb_ge in E. destruct (2 <? n); lia. Qed.

Lemma counter_col_of_decision rs col tok f d :
  counter_col rs col (tok, zero_start1 (apply_decision f d)) = token_line_length rs col d tok (f_sp f).
Proof.
  unfold counter_col, token_line_length. destruct (ml_measure tok); [reflexivity|].
  destruct d as [first ind cont|]; unfold apply_decision, zero_start1; cbn [f_nl f_ind f_cont f_sp].
  - assert (H : 0 <? (if first then clamp12 (f_nl f) else 1) = true).
    { apply N.ltb_lt. destruct first; [apply clamp12_pos|lia]. }
    rewrite H. cbn [f_nl f_ind f_cont]. rewrite H. reflexivity.
  - change (0 <? 0) with false. cbn [f_nl f_sp]. change (0 <? 0) with false. reflexivity.
Qed.

(* the headline: what get_token_line_length computes for a decision is the column the
   reconstructor reaches after the token, whatever came before on the line *)
Theorem measure_is_rendered_col rs col tok f d :
  rs_measurable rs = true ->
  tok_measurable (tok, zero_start1 (apply_decision f d)) = true ->
  rendered_col rs false col (tok, zero_start1 (apply_decision f d)) = token_line_length rs col d tok (f_sp f).
Proof.
  intros Hrs Hp. rewrite rendered_col_eq_counter_col; [apply counter_col_of_decision|exact Hrs|exact Hp|left; reflexivity].
Qed.

(* fits: a limit the measured length respects is respected by the rendered line *)
Corollary measured_fit_is_rendered_fit rs col tok f d W :
  rs_measurable rs = true ->
  tok_measurable (tok, zero_start1 (apply_decision f d)) = true ->
  token_line_length rs col d tok (f_sp f) <= W ->
  rendered_col rs false col (tok, zero_start1 (apply_decision f d)) <= W.
Proof. intros Hrs Hp H. rewrite measure_is_rendered_col; assumption. Qed.

(* every value of ReconstructionSettings::new is measurable *)
Lemma rs_new_measurable crlf tabs iw cw : rs_measurable (rs_new crlf tabs iw cw) = true.
Proof.
  unfold rs_measurable, rs_new. cbn [rs_newline rs_indent rs_cont].
  assert (H : forall n u, no_lf u = true -> no_lf (nrepeat n u) = true) by (intros; apply no_lf_repeat_app; assumption).
  destruct crlf, tabs; cbn [ends_lf rev app]; rewrite !H by reflexivity; reflexivity.
Qed.

Lemma rs_of_config_measurable crlf tabs tw ci : rs_measurable (rs_of_config crlf tabs tw ci) = true.
Proof. unfold rs_of_config. destruct tabs; apply rs_new_measurable. Qed.

(* non-vacuity: a broken line start and a continuation after it *)
Example measure_example :
  let rs := rs_of_config false false 2 2 in
  let t1 := mkToken [] [70; 111; 111] TT_Identifier in
  let t2 := mkToken [] [40] (TT_Op OK_LParen) in
  let f0 := mkFmt false 0 0 0 1 in
  tok_measurable (t1, zero_start1 (apply_decision f0 (DBreak false 1 1))) = true
  /\ token_line_length rs 0 (DBreak false 1 1) t1 1 = 9
  /\ rendered_col rs false 77 (t1, zero_start1 (apply_decision f0 (DBreak false 1 1))) = 9
  /\ rendered_col rs false 9 (t2, zero_start1 (apply_decision f0 DContinue)) = 11.
Proof. vm_compute. repeat split; reflexivity. Qed.
