(* Proofs/BatchProofs.v — "batch formatting equals formatting each file alone, under any schedule". *)
From PasfmtVerif Require Import Model.Batch Proofs.EncodingProofs Proofs.FileIOProofs.

Notation count := (count_occ Nat.eq_dec).

(* ------------------------------------------------------------------ *)
(* the two functional maps *)

Lemma fs_upd_same fs p v : fs_upd fs p v p = v.
Proof. unfold fs_upd. rewrite Nat.eqb_refl. reflexivity. Qed.

Lemma fs_upd_other fs p v q : q <> p -> fs_upd fs p v q = fs q.
Proof. intros H. unfold fs_upd. apply Nat.eqb_neq in H. rewrite H. reflexivity. Qed.

Lemma upd_same {A} (f : nat -> A) i v : upd f i v i = v.
Proof. unfold upd. rewrite Nat.eqb_refl. reflexivity. Qed.

Lemma upd_other {A} (f : nat -> A) i v j : j <> i -> upd f i v j = f j.
Proof. intros H. unfold upd. apply Nat.eqb_neq in H. rewrite H. reflexivity. Qed.

(* ------------------------------------------------------------------ *)
(* the chunked write through the shared content *)

Lemma file_write_spec p d c :
  (p <= length c)%nat -> file_write p d c = firstn p c ++ d ++ skipn (p + length d) c.
Proof. intros Hp. unfold file_write. rewrite write_all_spec by exact Hp. reflexivity. Qed.

Lemma file_trunc_exact l r : file_trunc (length l) (l ++ r) = l.
Proof.
  unfold file_trunc, set_len. cbn [f_writable f_content].
  rewrite firstn_exact, app_length.
  replace (length l - (length l + length r))%nat with 0%nat by lia.
  rewrite zeros_0. apply app_nil_r.
Qed.

Lemma write_chunks_nobom ob c0 : file_trunc (0 + length ob) (file_write 0 ob c0) = ob.
Proof.
  rewrite file_write_spec by lia. cbn [firstn app Nat.add]. apply file_trunc_exact.
Qed.

Lemma write_chunks_bom b ob c0 :
  file_trunc (0 + length b + length ob) (file_write (0 + length b) ob (file_write 0 b c0))
    = b ++ ob.
Proof.
  rewrite (file_write_spec 0) by lia. cbn [firstn app Nat.add].
  rewrite file_write_spec by (rewrite app_length; lia).
  rewrite firstn_exact. rewrite <- app_length, app_assoc. apply file_trunc_exact.
Qed.

Section BatchProofs.
  Variable legacy_decode : nat -> bytes -> option text.
  Variable legacy_encode : nat -> text -> option bytes.
  Variable format : text -> text.
  Variable cfg : enc.

  Notation lstep := (lstep legacy_decode legacy_encode format cfg).
  Notation process_file := (process_file legacy_decode legacy_encode format cfg).
  Notation run_atomic := (run_atomic legacy_decode legacy_encode format cfg).
  Notation solo_result := (solo_result legacy_decode legacy_encode format cfg).
  Notation bstep := (bstep legacy_decode legacy_encode format cfg).
  Notation brun := (brun legacy_decode legacy_encode format cfg).
  Notation files_mode := (files_mode legacy_decode legacy_encode format).
  Notation files_mode_from := (files_mode_from legacy_decode legacy_encode format).

  (* ---------------------------------------------------------------- *)
  (* the worker buffer *)

  (* With `input_buf.clear()` the outcome for a file does not depend on what the worker's buffer
     held before (i.e. on which files that worker processed earlier). *)
  Theorem clear_makes_history_irrelevant buf1 buf2 fs p :
    process_file true buf1 fs p = process_file true buf2 fs p.
  Proof. reflexivity. Qed.

  (* and then the atomic per-file step is exactly the solo run on that file *)
  Lemma process_file_solo buf fs p :
    let '(_, fs', e) := process_file true buf fs p in
    fs' p = fst (solo_result fs p) /\ (forall q, q <> p -> fs' q = fs q) /\
    e = snd (solo_result fs p).
  Proof.
    unfold Batch.process_file, Batch.solo_result, FileIO.files_mode.
    destruct (fs p) as [c|] eqn:Hp.
    - destruct (files_mode_from [] cfg c) as [[c' o] e]. cbn [fst snd].
      split; [apply fs_upd_same|]. split; [|reflexivity].
      intros q Hq. apply fs_upd_other. exact Hq.
    - cbn [fst snd]. split; [exact Hp|]. split; [reflexivity|reflexivity].
  Qed.

  (* Without the clear, what gets decoded is previous buffer ++ current file. *)
  Theorem no_clear_decodes_concat buf fs p c :
    fs p = Some c ->
    process_file false buf fs p =
      (buf ++ c,
       fs_upd fs p (Some (fst (fst (files_mode_from buf cfg c)))),
       snd (files_mode_from buf cfg c)) /\
    (decode_file legacy_decode cfg (buf ++ c) = None ->
       files_mode_from buf cfg c = (c, [], true)).
  Proof.
    intros Hp. split.
    - unfold Batch.process_file. rewrite Hp.
      destruct (files_mode_from buf cfg c) as [[c' o] e]. reflexivity.
    - apply files_mode_from_decode_error.
  Qed.

  (* ---------------------------------------------------------------- *)
  (* atomic schedules *)

  Lemma solo_result_ext fs1 fs2 p : fs1 p = fs2 p -> solo_result fs1 p = solo_result fs2 p.
  Proof. intros H. unfold Batch.solo_result. rewrite H. reflexivity. Qed.

  Lemma run_atomic_inv : forall sched s,
    NoDup (map snd sched) ->
    let s' := run_atomic true sched s in
    (forall p, In p (map snd sched) -> a_fs s' p = fst (solo_result (a_fs s) p)) /\
    (forall p, ~ In p (map snd sched) -> a_fs s' p = a_fs s p) /\
    (a_err s' = true <->
       a_err s = true \/ exists p, In p (map snd sched) /\ snd (solo_result (a_fs s) p) = true).
  Proof.
    induction sched as [|[w p] r IH]; intros s Hnd.
    { cbn. split; [intros p []|]. split; [reflexivity|].
      split; [intros H; left; exact H|intros [H|[p [[] _]]]; exact H]. }
    cbn [map snd] in Hnd. inversion Hnd as [|x l Hnotin Hnd']; subst x l.
    cbn [Batch.run_atomic].
    pose proof (process_file_solo (a_bufs s w) (a_fs s) p) as Hpf.
    destruct (process_file true (a_bufs s w) (a_fs s) p) as [[buf' fs'] e].
    destruct Hpf as [Hsame [Hother He]].
    set (s1 := mkA fs' (upd (a_bufs s) w buf') (a_err s || e)).
    destruct (IH s1 Hnd') as [I1 [I2 I3]]. cbv zeta in I1, I2, I3.
    cbv zeta. cbn [map snd]. split; [|split].
    - intros q [<-|Hq].
      + rewrite I2 by exact Hnotin. exact Hsame.
      + rewrite I1 by exact Hq. f_equal. apply solo_result_ext. cbn [a_fs s1].
        apply Hother. intros ->. contradiction.
    - intros q Hq. rewrite I2 by (intros H; apply Hq; right; exact H).
      cbn [a_fs s1]. apply Hother. intros ->. apply Hq. left. reflexivity.
    - rewrite I3. cbn [a_err a_fs s1]. rewrite orb_true_iff. split.
      + intros [[H|H]|[q [Hq Hs]]].
        * left. exact H.
        * right. exists p. split; [left; reflexivity|]. rewrite <- He. exact H.
        * right. exists q. split; [right; exact Hq|].
          rewrite <- Hs. f_equal. apply solo_result_ext. symmetry. apply Hother.
          intros ->. contradiction.
      + intros [H|[q [[<-|Hq] Hs]]].
        * left. left. exact H.
        * left. right. rewrite He. exact Hs.
        * right. exists q. split; [exact Hq|].
          rewrite <- Hs. f_equal. apply solo_result_ext. apply Hother.
          intros ->. contradiction.
  Qed.

  (* Atomic granularity: any order, any worker assignment, any initial buffers. *)
  Theorem atomic_batch_eq_solo sched fs0 bufs0 :
    NoDup (map snd sched) ->
    let s := run_atomic true sched (mkA fs0 bufs0 false) in
    (forall p, In p (map snd sched) -> a_fs s p = fst (solo_result fs0 p)) /\
    (forall p, ~ In p (map snd sched) -> a_fs s p = fs0 p) /\
    (a_err s = true <-> exists p, In p (map snd sched) /\ snd (solo_result fs0 p) = true).
  Proof.
    intros Hnd. destruct (run_atomic_inv sched (mkA fs0 bufs0 false) Hnd) as [H1 [H2 H3]].
    cbv zeta in *. cbn [a_fs a_err] in *. split; [exact H1|]. split; [exact H2|].
    rewrite H3. split; [intros [H|H]; [discriminate|exact H]|intros H; right; exact H].
  Qed.

  (* ---------------------------------------------------------------- *)
  (* fine granularity: the local machine of one task *)

  Fixpoint liter (k : nat) (c : option bytes) (ph : phase) : option bytes * phase * bool :=
    match k with
    | O => (c, ph, false)
    | S k' =>
      let '(c1, ph1, e1) := lstep [] c ph in
      let '(c2, ph2, e2) := liter k' c1 ph1 in
      (c2, ph2, e1 || e2)
    end.

  Lemma liter_S k c ph c1 ph1 e1 :
    lstep [] c ph = (c1, ph1, e1) ->
    liter (S k) c ph = (fst (fst (liter k c1 ph1)), snd (fst (liter k c1 ph1)),
                        e1 || snd (liter k c1 ph1)).
  Proof.
    intros H. cbn [liter]. rewrite H. destruct (liter k c1 ph1) as [[c2 ph2] e2]. reflexivity.
  Qed.

  Lemma liter_done k c : liter k c PDone = (c, PDone, false).
  Proof. induction k as [|k IH]; [reflexivity|]. cbn [liter Batch.lstep]. rewrite IH. reflexivity. Qed.

  Lemma liter_add a b c ph :
    liter (a + b) c ph =
      let '(c1, ph1, e1) := liter a c ph in
      let '(c2, ph2, e2) := liter b c1 ph1 in
      (c2, ph2, e1 || e2).
  Proof.
    revert c ph. induction a as [|a IH]; intros c ph.
    - cbn [Nat.add liter]. destruct (liter b c ph) as [[c2 ph2] e2]. reflexivity.
    - cbn [Nat.add liter]. destruct (lstep [] c ph) as [[c1 ph1] e1].
      rewrite IH. destruct (liter a c1 ph1) as [[c2 ph2] e2].
      destruct (liter b c2 ph2) as [[c3 ph3] e3]. rewrite orb_assoc. reflexivity.
  Qed.

  (* four steps (read, <= 2 write_all, set_len) complete a task, and the result is the solo run *)
  Lemma liter4_solo fs p :
    liter 4 (fs p) PStart = (fst (solo_result fs p), PDone, snd (solo_result fs p)).
  Proof.
    unfold Batch.solo_result. destruct (fs p) as [c0|]; [|reflexivity].
    rewrite (files_mode_spec legacy_decode legacy_encode format cfg c0).
    cbn [liter Batch.lstep app].
    destruct (decode_file legacy_decode cfg c0) as [[[bom e] t]|]; [|reflexivity].
    destruct (bytes_eqb t (format t)); [reflexivity|].
    unfold write_bytes.
    destruct (encode_with legacy_encode e (format t)) as [ob|]; [|reflexivity].
    destruct bom as [b|]; cbn [Batch.lstep option_map bom_bytes fst snd orb app].
    - rewrite write_chunks_bom. reflexivity.
    - rewrite write_chunks_nobom. reflexivity.
  Qed.

  Lemma liter_ge4 k (fs : fsys) (p : nat) :
    (4 <= k)%nat -> liter k (fs p) PStart = liter 4 (fs p) PStart.
  Proof.
    intros Hk. replace k with (4 + (k - 4))%nat by lia.
    rewrite liter_add, liter4_solo, liter_done, orb_false_r. reflexivity.
  Qed.

  (* ---------------------------------------------------------------- *)
  (* fine granularity: the global machine *)

  Lemma bstep_spec paths assign j s pj :
    nth_error paths j = Some pj ->
    let s1 := bstep true paths assign j s in
    let r := lstep [] (b_fs s pj) (b_ph s j) in
    b_fs s1 = fs_upd (b_fs s) pj (fst (fst r)) /\
    b_ph s1 = upd (b_ph s) j (snd (fst r)) /\
    b_err s1 = b_err s || snd r.
  Proof.
    intros Hj. cbv zeta. unfold Batch.bstep. rewrite Hj.
    destruct (b_ph s j) as [|pos chunks|] eqn:Hph.
    - destruct (lstep [] (b_fs s pj) PStart) as [[c' ph'] e]. repeat split; reflexivity.
    - destruct chunks as [|d r]; cbn [Batch.lstep]; repeat split; reflexivity.
    - cbn [Batch.lstep]. repeat split; reflexivity.
  Qed.

  Lemma bstep_out_of_range (paths : list nat) assign j s :
    nth_error paths j = None -> bstep true paths assign j s = s.
  Proof. intros Hj. unfold Batch.bstep. rewrite Hj. reflexivity. Qed.

  Lemma nodup_paths_neq (paths : list nat) i j p pj :
    NoDup paths -> nth_error paths i = Some p -> nth_error paths j = Some pj -> i <> j -> p <> pj.
  Proof.
    intros Hnd Hi Hj Hij Heq. subst pj. apply Hij.
    apply (proj1 (NoDup_nth_error paths) Hnd).
    - apply nth_error_Some. rewrite Hi. discriminate.
    - rewrite Hi, Hj. reflexivity.
  Qed.

  Lemma brun_inv paths assign : NoDup paths -> forall sched s,
    let s' := brun true paths assign sched s in
    (forall i p, nth_error paths i = Some p ->
       fst (liter (count sched i) (b_fs s p) (b_ph s i)) = (b_fs s' p, b_ph s' i)) /\
    (forall p, ~ In p paths -> b_fs s' p = b_fs s p) /\
    (b_err s' = true <->
       b_err s = true \/
       exists i p, nth_error paths i = Some p /\
                   snd (liter (count sched i) (b_fs s p) (b_ph s i)) = true).
  Proof.
    intros Hnd. induction sched as [|j r IH]; intros s.
    { cbn. split; [reflexivity|]. split; [reflexivity|].
      split; [intros H; left; exact H|intros [H|[i [p [_ H]]]]; [exact H|discriminate]]. }
    cbv zeta. cbn [Batch.brun].
    destruct (IH (bstep true paths assign j s)) as [I1 [I2 I3]]. cbv zeta in I1, I2, I3.
    destruct (nth_error paths j) as [pj|] eqn:Hj.
    2:{ (* index out of range: the step is a no-op and concerns no task *)
      rewrite (bstep_out_of_range paths assign j s Hj) in *.
      assert (Hc : forall i p, nth_error paths i = Some p -> count (j :: r) i = count r i).
      { intros i p Hi. apply count_occ_cons_neq. intros ->. rewrite Hj in Hi. discriminate. }
      split; [|split].
      - intros i p Hi. rewrite (Hc i p Hi). apply I1. exact Hi.
      - exact I2.
      - rewrite I3. split; intros [H|[i [p [Hi H]]]]; try (left; exact H);
          right; exists i, p; (split; [exact Hi|]).
        + rewrite (Hc i p Hi). exact H.
        + rewrite <- (Hc i p Hi). exact H. }
    destruct (bstep_spec paths assign j s pj Hj) as [Bfs [Bph Berr]]. cbv zeta in Bfs, Bph, Berr.
    destruct (lstep [] (b_fs s pj) (b_ph s j)) as [[c1 ph1] e1] eqn:Hstep.
    cbn [fst snd] in Bfs, Bph, Berr.
    (* the task that moved *)
    assert (Hmoved : forall k,
      liter (S k) (b_fs s pj) (b_ph s j)
      = (fst (fst (liter k c1 ph1)), snd (fst (liter k c1 ph1)), e1 || snd (liter k c1 ph1))).
    { intros k. apply liter_S. exact Hstep. }
    assert (Hs1j : b_fs (bstep true paths assign j s) pj = c1 /\
                   b_ph (bstep true paths assign j s) j = ph1).
    { rewrite Bfs, Bph. split; [apply fs_upd_same|apply upd_same]. }
    destruct Hs1j as [Hs1fs Hs1ph].
    (* the tasks that did not *)
    assert (Hstay : forall i p, nth_error paths i = Some p -> i <> j ->
      b_fs (bstep true paths assign j s) p = b_fs s p /\
      b_ph (bstep true paths assign j s) i = b_ph s i /\
      count (j :: r) i = count r i).
    { intros i p Hi Hij. rewrite Bfs, Bph. split; [|split].
      - apply fs_upd_other. exact (nodup_paths_neq paths i j p pj Hnd Hi Hj Hij).
      - apply upd_other. exact Hij.
      - apply count_occ_cons_neq. intros Heq. apply Hij. symmetry. exact Heq. }
    split; [|split].
    - intros i p Hi. destruct (Nat.eq_dec i j) as [->|Hij].
      + assert (p = pj) by (rewrite Hj in Hi; injection Hi as <-; reflexivity). subst p.
        rewrite count_occ_cons_eq by reflexivity. rewrite Hmoved. cbn [fst].
        rewrite <- surjective_pairing.
        rewrite <- Hs1fs, <- Hs1ph at 1. apply I1. exact Hj.
      + destruct (Hstay i p Hi Hij) as [S1 [S2 S3]].
        rewrite S3, <- S1, <- S2. apply I1. exact Hi.
    - intros p Hp. rewrite I2 by exact Hp. rewrite Bfs. apply fs_upd_other.
      intros ->. apply Hp. apply (nth_error_In paths j Hj).
    - rewrite I3, Berr, orb_true_iff. split.
      + intros [[H|H]|[i [p [Hi H]]]].
        * left. exact H.
        * right. exists j, pj. split; [exact Hj|].
          rewrite count_occ_cons_eq by reflexivity. rewrite Hmoved. cbn [snd].
          rewrite H. reflexivity.
        * right. exists i, p. split; [exact Hi|].
          destruct (Nat.eq_dec i j) as [->|Hij].
          -- assert (p = pj) by (rewrite Hj in Hi; injection Hi as <-; reflexivity). subst p.
             rewrite count_occ_cons_eq by reflexivity. rewrite Hmoved. cbn [snd].
             rewrite Hs1fs, Hs1ph in H. rewrite H. apply orb_true_r.
          -- destruct (Hstay i p Hi Hij) as [S1 [S2 S3]].
             rewrite S3, <- S1, <- S2. exact H.
      + intros [H|[i [p [Hi H]]]].
        * left. left. exact H.
        * destruct (Nat.eq_dec i j) as [->|Hij].
          -- assert (p = pj) by (rewrite Hj in Hi; injection Hi as <-; reflexivity). subst p.
             rewrite count_occ_cons_eq in H by reflexivity. rewrite Hmoved in H. cbn [snd] in H.
             apply orb_true_iff in H. destruct H as [H|H].
             ++ left. right. exact H.
             ++ right. exists j, pj. split; [exact Hj|]. rewrite Hs1fs, Hs1ph. exact H.
          -- right. exists i, p. split; [exact Hi|].
             destruct (Hstay i p Hi Hij) as [S1 [S2 S3]].
             rewrite S1, S2, <- S3. exact H.
  Qed.

  (* Batch formatting = formatting each file alone: for every duplicate-free list of paths, every
     assignment of tasks to workers, every initial content of the workers' buffers and EVERY
     interleaving of the file-system steps of the tasks (a schedule in which every task gets its
     <= 4 steps), each listed path ends up with exactly what the solo run produces, every other
     path is untouched, and the error flag is set iff at least one file fails alone (cannot be
     opened, malformed, or unencodable result).  In particular a failing file never changes any
     other file's result. *)
  Theorem batch_eq_solo paths assign sched fs0 bufs0 :
    NoDup paths ->
    (forall i, (i < length paths)%nat -> (4 <= count sched i)%nat) ->
    let s := brun true paths assign sched (binit fs0 bufs0) in
    (forall p, In p paths -> b_fs s p = fst (solo_result fs0 p)) /\
    (forall p, ~ In p paths -> b_fs s p = fs0 p) /\
    (b_err s = true <-> exists p, In p paths /\ snd (solo_result fs0 p) = true).
  Proof.
    intros Hnd Hcomplete.
    destruct (brun_inv paths assign Hnd sched (binit fs0 bufs0)) as [H1 [H2 H3]].
    cbv zeta in *. cbn [Batch.binit b_fs b_ph b_err] in *.
    assert (Hfin : forall i p, nth_error paths i = Some p ->
              liter (count sched i) (fs0 p) PStart
              = (fst (solo_result fs0 p), PDone, snd (solo_result fs0 p))).
    { intros i p Hi. rewrite liter_ge4; [apply liter4_solo|].
      apply Hcomplete. apply nth_error_Some. rewrite Hi. discriminate. }
    split; [|split].
    - intros p Hp. apply In_nth_error in Hp. destruct Hp as [i Hi].
      pose proof (H1 i p Hi) as H. rewrite (Hfin i p Hi) in H. cbn [fst] in H.
      injection H as H _. symmetry. exact H.
    - exact H2.
    - rewrite H3. split.
      + intros [H|[i [p [Hi H]]]]; [discriminate|].
        exists p. split; [exact (nth_error_In paths i Hi)|].
        rewrite (Hfin i p Hi) in H. exact H.
      + intros [p [Hp H]]. right. apply In_nth_error in Hp. destruct Hp as [i Hi].
        exists i, p. split; [exact Hi|]. rewrite (Hfin i p Hi). exact H.
  Qed.

  (* main.rs: the process exits with SUCCESS iff no file fails alone *)
  Corollary batch_exit_code paths assign sched fs0 bufs0 :
    NoDup paths ->
    (forall i, (i < length paths)%nat -> (4 <= count sched i)%nat) ->
    (exit_code (b_err (brun true paths assign sched (binit fs0 bufs0))) = 0 <->
     forall p, In p paths -> snd (solo_result fs0 p) = false).
  Proof.
    intros Hnd Hcomplete.
    destruct (batch_eq_solo paths assign sched fs0 bufs0 Hnd Hcomplete) as [_ [_ Herr]].
    cbv zeta in Herr. rewrite exit_code_spec. split.
    - intros Hf p Hp. destruct (snd (solo_result fs0 p)) eqn:Es; [|reflexivity].
      assert (Ht : b_err (brun true paths assign sched (binit fs0 bufs0)) = true).
      { apply Herr. exists p. split; [exact Hp|exact Es]. }
      rewrite Ht in Hf. discriminate.
    - intros Hall. destruct (b_err (brun true paths assign sched (binit fs0 bufs0))) eqn:Eb;
        [|reflexivity].
      destruct (proj1 Herr eq_refl) as [p [Hp Hs]]. rewrite (Hall p Hp) in Hs. discriminate.
  Qed.

  (* all tasks have finished at the end of such a schedule *)
  Theorem batch_all_done paths assign sched fs0 bufs0 :
    NoDup paths ->
    (forall i, (i < length paths)%nat -> (4 <= count sched i)%nat) ->
    forall i, (i < length paths)%nat ->
      b_ph (brun true paths assign sched (binit fs0 bufs0)) i = PDone.
  Proof.
    intros Hnd Hcomplete i Hi.
    destruct (brun_inv paths assign Hnd sched (binit fs0 bufs0)) as [H1 _].
    cbv zeta in H1. cbn [Batch.binit b_fs b_ph] in H1.
    destruct (nth_error paths i) as [p|] eqn:Hp.
    - pose proof (H1 i p Hp) as H.
      rewrite liter_ge4 in H by (apply Hcomplete; exact Hi). rewrite liter4_solo in H.
      cbn [fst] in H. injection H as _ H. symmetry. exact H.
    - apply nth_error_None in Hp. lia.
  Qed.
End BatchProofs.

(* ------------------------------------------------------------------ *)
(* witnesses (formatter: delete every space; idempotent) *)

Definition fs_ex : fsys := fun p =>
  match p with
  | 0%nat => Some [97; 32; 98; 32]       (* "a b " *)
  | 1%nat => Some [99; 32; 100]          (* "c d"  *)
  | 2%nat => Some [97; 128]              (* malformed UTF-8 *)
  | _ => None
  end.

(* batch_eq_solo is not vacuous: three files (one malformed) and one missing path, two workers,
   steps interleaved; results = solo results, error flag set, neighbours unaffected *)
Example batch_eq_solo_ex :
  let paths := [0; 1; 2; 7]%nat in
  let sched := [3; 0; 1; 2; 1; 0; 0; 2; 1; 3; 0; 1; 2; 2; 3; 3]%nat in
  NoDup paths /\
  (forall i, (i < length paths)%nat -> (4 <= count sched i)%nat) /\
  let s := brun no_legacy_decode no_legacy_encode drop_spaces Utf8 true paths
                (fun i => Nat.modulo i 2) sched (binit fs_ex (fun _ => [1; 2; 3])) in
  (b_fs s 0%nat, b_fs s 1%nat, b_fs s 2%nat, b_fs s 7%nat, b_err s)
    = (Some [97; 98], Some [99; 100], Some [97; 128], None, true).
Proof.
  split; [|split].
  - repeat constructor; simpl; intuition discriminate.
  - intros i Hi. simpl in Hi.
    destruct i as [|[|[|[|i]]]]; [vm_compute; lia..|lia].
  - vm_compute. reflexivity.
Qed.

(* Without `input_buf.clear()` a worker that formats file 0 and then file 1 would decode
   "a b " ++ "c d" for file 1 and write "abcd" into it. *)
Theorem no_clear_refuted :
  exists sched fs0,
    NoDup (map snd sched) /\
    let run clear := run_atomic no_legacy_decode no_legacy_encode drop_spaces Utf8 clear sched
                       (mkA fs0 (fun _ => []) false) in
    a_fs (run true) 1%nat = fst (solo_result no_legacy_decode no_legacy_encode drop_spaces Utf8 fs0 1%nat) /\
    a_fs (run true) 1%nat = Some [99; 100] /\
    a_fs (run false) 1%nat = Some [97; 98; 99; 100].
Proof.
  exists [(0, 0); (0, 1)]%nat, fs_ex. split.
  - simpl. repeat constructor; simpl; intuition discriminate.
  - repeat split; vm_compute; reflexivity.
Qed.

(* and at the level of one call: the outcome depends on the buffer's history *)
Example no_clear_history_matters :
  process_file no_legacy_decode no_legacy_encode drop_spaces Utf8 false [] fs_ex 1%nat
  <> process_file no_legacy_decode no_legacy_encode drop_spaces Utf8 false [97] fs_ex 1%nat.
Proof. vm_compute. intros H. discriminate. Qed.

(* The same path listed twice (expand_paths does not deduplicate: `pasfmt a.pas a.pas`, or a file
   and its directory): the second task reads the file between the first task's write_all and its
   set_len, i.e. "ab" ++ stale tail "b " = "abb ", and later writes "abb".  Every task completes,
   no error is reported, and the file differs from the solo result "ab" — with an idempotent
   formatter. *)
Theorem duplicates_refuted :
  exists paths sched fs0,
    (forall i, (i < length paths)%nat -> (4 <= count sched i)%nat) /\
    let s := brun no_legacy_decode no_legacy_encode drop_spaces Utf8 true paths (fun i => i) sched
                  (binit fs0 (fun _ => [])) in
    fst (solo_result no_legacy_decode no_legacy_encode drop_spaces Utf8 fs0 0%nat) = Some [97; 98] /\
    b_fs s 0%nat = Some [97; 98; 98] /\
    b_err s = false /\
    b_ph s 0%nat = PDone /\ b_ph s 1%nat = PDone.
Proof.
  exists [0; 0]%nat, [0; 0; 1; 0; 1; 1; 0; 1; 0; 1]%nat, fs_ex. split.
  - intros i Hi. simpl in Hi. destruct i as [|[|i]]; [vm_compute; lia..|lia].
  - repeat split; vm_compute; reflexivity.
Qed.

(* the sequential order (second task starts after the first finished) is harmless for an idempotent
   formatter: it reads the already formatted content and skips the write *)
Example duplicates_sequential_ok :
  let s := brun no_legacy_decode no_legacy_encode drop_spaces Utf8 true [0; 0]%nat (fun i => i)
                [0; 0; 0; 0; 1; 1; 1; 1]%nat (binit fs_ex (fun _ => [])) in
  b_fs s 0%nat = Some [97; 98] /\ b_err s = false.
Proof. split; vm_compute; reflexivity. Qed.
