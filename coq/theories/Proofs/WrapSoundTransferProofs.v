(* Proofs/WrapSoundTransferProofs.v — a state that is sound for one run is sound for every related run (same lines and
   token types, same iteration_max and break_before_begin; any lengths, any indentation widths): every cache entry has
   a fresh search in the other run that returns the same solutions up to lengths.  This is what lets the cache of
   phase 1 be used by phase 2 (whose multi-line lengths differ) and by a run under other widths. *)
From PasfmtVerif Require Import Proofs.WrapWidthFree Proofs.WrapDepthProofs Proofs.WrapSimProofs.
From Coq Require Import Lia.

Lemma Forall2_in_l {A B} (R : A -> B -> Prop) l1 l2 a : Forall2 R l1 l2 -> In a l1 -> exists b, In b l2 /\ R a b.
Proof.
  induction 1 as [|x y r1 r2 Hxy Hr IH]; intros []; [subst; exists y; split; [left; reflexivity|exact Hxy]|].
  destruct (IH H) as (b & Hb & Hab). exists b. split; [right; exact Hb|exact Hab].
Qed.

Theorem sound_transfer WA WB lvsA lvsB fm :
  w_iter WA = w_iter WB -> w_bbb WA = w_bbb WB -> Forall2 view_sim lvsA lvsB -> views_wf lvsA -> views_wf lvsB ->
  (forall k lv, nth_error lvsA k = Some lv -> view_fun lv) -> (forall k lv, nth_error lvsB k = Some lv -> view_fun lv) ->
  forall st, sound WA lvsA fm st -> sound WB lvsB fm st.
Proof.
  intros Hiter Hbbb Hviews HwfA HwfB HfA HfB st [st0 H]. constructor. intros key v Hin.
  destruct (H key v Hin) as (s0 & d & lvA & rA & lc & v' & Hs0 & Hn & Hr & Hg & Hk & Hd & E & Ev).
  pose proof (Forall2_nth_error _ _ _ Hviews (k_line key)) as Hv. rewrite Hn in Hv.
  destruct (nth_error lvsB (k_line key)) as [lvB|] eqn:EnB; [|contradiction].
  destruct Hv as (_ & _ & _ & _ & Hrecs). destruct (Forall2_in_l _ _ _ rA Hrecs Hr) as (rB & HrB & (Hgg & _ & _ & _ & _ & _ & Hkk)).
  assert (Hkids : forall k, In k (lch_lines lc) -> (k_line key < k)%nat).
  { intros k Hk'. destruct (HwfA _ _ Hn) as (_ & Hrl). rewrite Forall_forall in Hrl. exact (Hrl rA Hr lc k Hk Hk'). }
  destruct (solve_children_sim WA WB Hiter lvsA lvsB Hviews fm (length lvsA - k_line key)
              (S_all WA WB Hiter Hbbb lvsA lvsB Hviews HwfA HwfB HfA HfB fm _) (k_line key) lvA Hn ltac:(lia)
              (k_opt key) (fst (opt_base (k_opt key))) (snd (opt_base (k_opt key))) (lch_lines lc) d d s0 sst_init true (k_lll key) (k_lll key) [] []
              Hkids Hd Hd Hs0 (sound_init WB lvsB fm) eq_refl) as (_ & _ & E2).
  rewrite E in E2. destruct (snd (solve_children lvsB (solve_inf WB lvsB fm d) sst_init (k_opt key) _ _ (lch_lines lc) true (k_lll key) [])) as [vB|] eqn:EB; [|discriminate].
  cbn [option_map] in E2. injection E2 as E2.
  exists sst_init, d, lvB, rB, lc, vB. split; [apply sound_init|]. split; [reflexivity|]. split; [exact HrB|]. split; [congruence|]. split; [congruence|].
  split; [rewrite <- (Hlen _ _ Hviews); exact Hd|]. split; [exact EB|congruence].
Qed.

Print Assumptions sound_transfer.
