(* Proofs/FormatVerbatimProofs.v — C07 for the composed model, exact form: the reconstructor's safety net (a line break
   inserted after a `//` comment when the next token's own whitespace has none) never fires in front of an IGNORED token of
   a composed run, because the token vector comes from the lexer: whatever follows a `//` comment in the lexer's output is
   the Eof token or has a CR or LF in its leading whitespace (lex_after_line_comment: a line-kind comment can only come out
   of the `//` rule, which stops in front of the first CR/LF or at the end of the input).
   Hence format_ignored_exact: the glue in front of an ignored token is EXACTLY its own leading whitespace. *)
From Coq Require Import Lia.
From PasfmtVerif Require Import Proofs.LexerProofs Proofs.LexerSpecProofs Proofs.LexerRelayoutProofs.
From PasfmtVerif Require Import Proofs.WrapApplyProofs Proofs.ParserGrammarTypesProofs Proofs.ToggleProofs
  Model.Format Proofs.FormatProofs Proofs.FormatIgnoredProofs Proofs.FormatRescanProofs.

(* ------------------------------------------------------------------ *)
(* 1. only the `//` rule makes a line-kind comment *)
Definition is_lc (ty : RawTokenType) : bool := match ty with RTT_Comment ck => is_line_kind ck | _ => false end.
Definition tres_no_lc (r : tres) : Prop := match r with TOk _ ty => is_lc ty = false | TFuel => True end.

Lemma no_lc_contra r n ty : tres_no_lc r -> r = TOk n ty -> is_lc ty = true -> False.
Proof. intros H -> L. cbn in H. congruence. Qed.

Lemma tshift_no_lc k r : tres_no_lc r -> tres_no_lc (tshift k r).
Proof. destruct r; exact (fun H => H). Qed.

Lemma cdoc_no_lc k nlb l : tres_no_lc (compiler_directive_or_comment k nlb l).
Proof.
  unfold compiler_directive_or_comment. destruct (next_is 36 l).
  - apply tshift_no_lc. unfold compiler_directive.
    destruct (parse_directive_end _ k (tl l)); cbn; try exact I;
      destruct (conditional_directive_kind _); reflexivity.
  - unfold tok. destruct (block_comment k nlb l) as [n ty] eqn:E. cbn [fst snd tres_no_lc].
    destruct ty; try reflexivity. cbn [is_lc]. exact (block_comment_block_kind k nlb l n _ E).
Qed.

Lemma text_literal_no_lc b t : tres_no_lc (tok (text_literal b t)).
Proof.
  unfold tok, text_literal. destruct (_ && _ && _); [destruct (find_sub _ _)|]; reflexivity.
Qed.

Lemma ampersand_no_lc t : tres_no_lc (tok (ampersand t)).
Proof.
  unfold tok, ampersand. destruct (skipn _ t) as [|c r]; [reflexivity|].
  destruct (c =? 36)%N; [reflexivity|]. destruct (c =? 37)%N; [reflexivity|]. destruct (is_digit c); [reflexivity|].
  destruct (is_alpha c || (c =? 95)%N); [reflexivity|]. destruct (128 <=? c)%N; reflexivity.
Qed.

Lemma KEYWORDS_table_no_lc : forallb (fun p => negb (is_lc (snd p))) KEYWORDS_table = true.
Proof. vm_compute. reflexivity. Qed.

Lemma get_word_token_type_no_lc w : is_lc (get_word_token_type w) = false.
Proof.
  unfold get_word_token_type.
  destruct (keyword_lookup_cases KEYWORDS_table w) as [[H _]|H]; [rewrite H; reflexivity|].
  pose proof KEYWORDS_table_no_lc as HT. rewrite forallb_forall in HT. specialize (HT _ H).
  apply negb_true_iff in HT. exact HT.
Qed.

Lemma lex_common_lc st nlb b t n ty :
  lex_common st nlb b t = TOk n ty -> is_lc ty = true ->
  b = 47%N /\ next_is 47 t = true /\ n = S (line_comment_len (tl t)).
Proof.
  unfold lex_common. intros H L.
  assert (Hop : forall m k, op m k = TOk n ty -> False) by (unfold op; intros m k E; injection E as _ <-; discriminate L).
  destruct (b =? 40)%N.
  { destruct (next_is 42 t); [exfalso; eapply no_lc_contra; [apply tshift_no_lc, cdoc_no_lc|exact H|exact L]|].
    destruct (next_is 46 t); exfalso; eapply Hop; exact H. }
  destruct (b =? 123)%N; [exfalso; eapply no_lc_contra; [apply cdoc_no_lc|exact H|exact L]|].
  destruct (b =? 47)%N eqn:B47.
  { destruct (next_is 47 t) eqn:N47; [|exfalso; eapply Hop; exact H].
    apply N.eqb_eq in B47. split; [exact B47|]. split; [reflexivity|].
    unfold tok, line_comment in H. cbn [fst snd tshift] in H. injection H as <- _. reflexivity. }
  destruct (b =? 58)%N; [destruct (next_is 61 t); exfalso; eapply Hop; exact H|].
  destruct (b =? 60)%N; [destruct (next_is 61 t); [|destruct (next_is 62 t)]; exfalso; eapply Hop; exact H|].
  destruct (b =? 62)%N; [destruct (next_is 61 t); exfalso; eapply Hop; exact H|].
  destruct (b =? 46)%N; [destruct (next_is 46 t); [|destruct (next_is 41 t)]; exfalso; eapply Hop; exact H|].
  repeat match type of H with (if ?c then op _ _ else _) = _ => destruct c; [exfalso; eapply Hop; exact H|] end.
  destruct ((b =? 39) || (b =? 35))%N; [exfalso; eapply no_lc_contra; [apply text_literal_no_lc|exact H|exact L]|].
  destruct (b =? 38)%N; [exfalso; eapply no_lc_contra; [apply ampersand_no_lc|exact H|exact L]|].
  destruct (b =? 37)%N; [injection H as _ <-; discriminate L|].
  destruct (b =? 36)%N; [injection H as _ <-; discriminate L|].
  destruct (is_digit b); [injection H as _ <-; discriminate L|].
  destruct (is_alpha b).
  { unfold tok, identifier_or_keyword in H. cbn [fst snd] in H. injection H as _ <-.
    destruct (prev_is_dot st); [discriminate L|]. rewrite get_word_token_type_no_lc in L. discriminate L. }
  destruct (b =? 95)%N; [injection H as _ <-; discriminate L|].
  destruct (128 <=? b)%N; injection H as _ <-; discriminate L.
Qed.

Lemma asm_text_literal_no_lc : forall t, is_lc (snd (asm_text_literal t)) = false.
Proof.
  refine (fix F t := match t with [] => _ | b :: t1 => _ end); [reflexivity|].
  cbn [asm_text_literal]. destruct (b =? 92)%N.
  - destruct t1 as [|x t2]; [reflexivity|]. cbn [snd]. apply F.
  - destruct (b =? 34)%N; [reflexivity|]. destruct ((b =? 10) || (b =? 13))%N; [reflexivity|]. cbn [snd]. apply F.
Qed.

Lemma lex_token_lc st nlb b t n ty a :
  lex_token st nlb b t = Some (n, ty, a) -> is_lc ty = true ->
  b = 47%N /\ next_is 47 t = true /\ n = S (line_comment_len (tl t)).
Proof.
  unfold lex_token. intros H L. destruct (ls_asm st).
  - destruct (b =? 64)%N; [injection H as _ <- _; discriminate L|].
    destruct (b =? 34)%N; [injection H as _ <- _; rewrite asm_text_literal_no_lc in L; discriminate L|].
    destruct (is_digit b).
    { injection H as _ <- _. unfold asm_number_literal in L.
      destruct (_ || _); [discriminate L|]. destruct (_ || _); [discriminate L|]. destruct (_ || _)%N; discriminate L. }
    destruct (is_aAeE b).
    { unfold asm_identifier in H. destruct (eq_ignore_case _ _); [injection H as _ <- _; discriminate L|].
      destruct (eq_ignore_case _ _); injection H as _ <- _; discriminate L. }
    destruct (is_alpha b); [injection H as _ <- _; discriminate L|].
    destruct (lex_common st nlb b t) as [n' ty'|] eqn:E; [|discriminate]. injection H as <- <- _. exact (lex_common_lc _ _ _ _ _ _ E L).
  - destruct (lex_common st nlb b t) as [n' ty'|] eqn:E; [|discriminate]. injection H as <- <- _. exact (lex_common_lc _ _ _ _ _ _ E L).
Qed.

Lemma after_line_comment_eol (t : bytes) : eol_sep (skipn (line_comment_len t) t).
Proof.
  destruct (count_while_longest (fun b => negb (is_eol b)) t) as (_ & _ & H). unfold line_comment_len.
  destruct (skipn _ t) as [|x r]; [exact I|]. cbn [eol_sep]. apply negb_false_iff. exact H.
Qed.

(* ------------------------------------------------------------------ *)
(* 2. in the lexer's output, what follows a `//` comment is Eof or starts on a new line *)
Definition breaks_or_eof (sg : seg) : Prop := has_break (seg_ws sg) = true \/ seg_ty sg = RTT_Eof.

Fixpoint after_lc_ok (prev_lc : bool) (segs : list seg) : Prop :=
  match segs with
  | [] => True
  | sg :: r => (prev_lc = true -> breaks_or_eof sg) /\ after_lc_ok (is_lc (seg_ty sg)) r
  end.

Lemma all_blank_head_eol (ws : bytes) (b x : byte) (t rest : bytes) :
  ws ++ b :: t = x :: rest -> is_eol x = true -> (b <=? 32)%N = false -> has_break ws = true.
Proof.
  intros E Hx Hb. destruct ws as [|w ws'].
  - cbn in E. injection E as -> _. unfold is_eol in Hx. apply orb_true_iff in Hx.
    destruct Hx as [Hx|Hx]; apply N.eqb_eq in Hx; subst x; discriminate Hb.
  - cbn in E. injection E as -> _. unfold has_break, contains_byte. cbn [existsb]. unfold is_eol in Hx.
    apply orb_true_iff in Hx. destruct Hx as [Hx|Hx]; apply N.eqb_eq in Hx; subst x; cbn; rewrite ?orb_true_r; reflexivity.
Qed.

Lemma lex_steps_after_lc : forall st toks l, lex_steps st toks l ->
  forall prev_lc, (prev_lc = true -> eol_sep l) -> after_lc_ok prev_lc (segments toks l).
Proof.
  induction 1 as [st ws Hws|st ws b t n ty a toks Hws Hst Htok Hn Hrest IH]; intros prev_lc Hp.
  - rewrite segments_eof. cbn [after_lc_ok]. split; [|exact I]. intros _. right. reflexivity.
  - rewrite (segments_tok_steps ws b t n ty toks Hn). cbn [after_lc_ok]. split.
    + intros Hl. left. specialize (Hp Hl). cbn [seg_ws fst].
      destruct (ws ++ b :: t) as [|x rest] eqn:E; [destruct ws; discriminate|]. cbn [eol_sep] in Hp.
      exact (all_blank_head_eol ws b x t rest E Hp (proj1 Hst)).
    + cbn [seg_ty snd]. apply IH. intros Hl.
      destruct (lex_token_lc _ _ _ _ _ _ _ Htok Hl) as (_ & N47 & ->).
      destruct t as [|x t']; [discriminate N47|]. cbn [tl skipn]. apply after_line_comment_eol.
Qed.

Theorem lex_after_line_comment s segs : lex_segments s = Some segs -> after_lc_ok false segs.
Proof.
  unfold lex_segments. destruct (lex s) as [toks|] eqn:E; [|discriminate]. intros [= <-].
  apply (lex_steps_after_lc init_state toks s (lex_steps_sound s toks E)). discriminate.
Qed.

Lemma after_lc_ok_nth : forall segs prev i a b, after_lc_ok prev segs ->
  nth_error segs i = Some a -> nth_error segs (S i) = Some b -> is_lc (seg_ty a) = true -> breaks_or_eof b.
Proof.
  induction segs as [|sg r IH]; intros prev i a b H Ha Hb L; [destruct i; discriminate|].
  destruct H as [_ Hr]. destruct i as [|i]; cbn [nth_error] in *.
  - injection Ha as ->. destruct r as [|sg2 r2]; [discriminate|]. injection Hb as ->. exact (proj1 Hr L).
  - exact (IH _ i a b Hr Ha Hb L).
Qed.

(* ------------------------------------------------------------------ *)
(* 3. the final vector inherits it: types keep their lexical class *)
Lemma class_sl_comment ty rty : tt_class_of ty = lex_class_of rty -> is_sl_comment ty = true -> is_lc rty = true.
Proof.
  intros E H. unfold is_sl_comment in H. destruct ty; try discriminate H.
  destruct rty; try discriminate E. cbn in E. injection E as <-. cbn [is_lc].
  match goal with H : CommentKind_is_singleline ?c = true |- _ => destruct c; try discriminate H; reflexivity end.
Qed.

Lemma class_eof ty rty : tt_class_of ty = lex_class_of rty -> rty = RTT_Eof -> is_eof ty = true.
Proof. intros H ->. destruct ty; cbn in *; try discriminate. reflexivity. Qed.

(* the glue of an ignored token in a vector whose predecessor relation is the lexer's *)
Lemma recon_parts_ignored_exact rs : forall l mb i tok f,
  nth_error l i = Some (tok, f) -> f_ignored f = true ->
  (match i with
   | O => mb = false
   | S j => forall p, nth_error l j = Some p -> is_sl_comment (t_ty (fst p)) = true -> has_break (t_ws tok) = true \/ is_eof (t_ty tok) = true
   end) ->
  nth_error (recon_parts rs mb l) i = Some (t_ws tok, t_content tok).
Proof.
  induction l as [|p r IH]; intros mb i tok f H Hi Hprev; [destruct i; discriminate|].
  destruct i as [|i]; cbn [nth_error recon_parts] in *.
  - injection H as ->. subst mb. cbn [emit_ws fst]. rewrite Hi. reflexivity.
  - destruct i as [|i].
    + destruct r as [|q r']; [discriminate|]. cbn [nth_error recon_parts] in *. injection H as ->.
      cbn [emit_ws fst]. rewrite Hi. specialize (Hprev p eq_refl).
      destruct (is_sl_comment (t_ty (fst p))); [|reflexivity].
      destruct (Hprev eq_refl) as [Hb|He]; [rewrite Hb|rewrite He, andb_false_r]; reflexivity.
    + apply (IH _ (S i) tok f H Hi). intros p0 Hp0. apply Hprev. exact Hp0.
Qed.

(* C07, exact *)
Theorem format_ignored_exact alnum cfg s out :
  format_model alnum cfg s = inl out ->
  exists segs parts,
    lex_segments s = Some segs /\ concat (map seg_bytes segs) = s
    /\ length parts = length segs /\ out = flatten_parts parts
    /\ forall i sg, nth_error segs i = Some sg -> nth_error (fm_marks segs) i = Some true ->
         nth_error parts i = Some (seg_ws sg, seg_content sg).
Proof.
  intros H. pose proof H as H0. apply format_model_spec in H. destruct H as (segs & Hl & _ & _ & _ & ->).
  exists segs, (recon_parts (cfg_rs cfg) false (fm_final alnum cfg segs)).
  split; [exact Hl|]. split.
  { unfold lex_segments in Hl. destruct (lex s) as [toks|] eqn:E; [|discriminate]. injection Hl as <-.
    exact (proj1 (proj2 (lex_lossless s toks E))). }
  split; [rewrite recon_parts_length; apply fm_final_length|].
  split; [unfold fm_out, reconstruct; apply recon_is_parts|].
  intros i sg Hs Hm. destruct (fm_final_ignored alnum cfg segs i sg Hs Hm) as (tok & f & Hn & Hw & Hc & Hi).
  rewrite <- Hw, <- Hc. apply (recon_parts_ignored_exact (cfg_rs cfg) _ false i tok f Hn Hi).
  destruct i as [|j]; [reflexivity|]. intros [ptok pf] Hp Hsl. cbn [fst] in Hsl.
  (* the predecessor's lexed kind is a line comment; the lexer's adjacency applies *)
  destruct (format_tokens_kept alnum cfg s _ H0) as (segs' & Hl' & _ & _ & Hk). rewrite Hl in Hl'. injection Hl' as <-.
  destruct (nth_error segs j) as [sgj|] eqn:Ej.
  2:{ apply nth_error_None in Ej. assert (S j < length segs)%nat by (apply nth_error_Some; congruence). lia. }
  destruct (Hk j sgj Ej) as (_ & _ & tokf & ff & _ & _ & _ & Hfj & _ & Hclj & _).
  pose proof (eq_trans (eq_sym Hp) Hfj) as Efj. injection Efj as <- <-.
  pose proof (class_sl_comment _ _ Hclj Hsl) as Hlc.
  destruct (after_lc_ok_nth segs false j sgj sg (lex_after_line_comment s segs Hl) Ej Hs Hlc) as [Hb|He].
  - left. rewrite Hw. exact Hb.
  - right. destruct (Hk (S j) sg Hs) as (_ & _ & tokf2 & ff2 & _ & _ & _ & Hf2 & _ & Hcl2 & _).
    pose proof (eq_trans (eq_sym Hn) Hf2) as Ef2. injection Ef2 as <- <-. exact (class_eof _ _ Hcl2 He).
Qed.

(* non-vacuity and the role of the lexer: `//c` directly followed by an ignored region *)
Example format_ignored_exact_example :
  let s := [47;47;32;99; 10; 123;112;97;115;102;109;116;32;111;102;102;125; 32; 65; 32;32; 59]%N in   (* "// c\n{pasfmt off} A  ;" *)
  match lex_segments s with
  | Some segs => fm_marks segs = [false; true; true; true; true]
                 /\ format_model (fun _ => false) (mkCfg 120 false true false 2 2 false) s = inl s
  | None => False
  end.
Proof. vm_compute. split; reflexivity. Qed.

Print Assumptions lex_after_line_comment.
Print Assumptions format_ignored_exact.
