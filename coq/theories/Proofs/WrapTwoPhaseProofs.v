(* Proofs/WrapTwoPhaseProofs.v — C10 for both phases of the wrapper on files WITH multi-line strings.
   Phase 2 runs on other multi-line lengths (the string stage re-indents the strings with the indentation strings of the
   setting) and on the cache phase 1 left; which lines are reflowed is decided by comparing texts, which depends on the
   setting.  With the reflow sets of the two settings EQUAL (hypothesis) and max_line_length above the bound of both
   phases: the decision events of the whole run agree up to the measured lengths and the final counters agree. *)
From PasfmtVerif Require Import Proofs.WrapWidthFree Proofs.WrapSearchProofs Proofs.WrapSearchDeepProofs Proofs.WrapDepthProofs Proofs.WrapEventsProofs
  Proofs.WrapSimProofs Proofs.WrapUnconstrainedProofs Proofs.WrapWidthIndependence Proofs.WrapFileProofs Proofs.WrapSoundTransferProofs.
From Coq Require Import Lia.

(* ------------------------------------------------------------------ *)
(* transfers between related view lists *)
Lemma Forall2_in_r {A B} (R : A -> B -> Prop) l1 l2 b : Forall2 R l1 l2 -> In b l2 -> exists a, In a l1 /\ R a b.
Proof.
  induction 1 as [|x y r1 r2 Hxy Hr IH]; intros []; [subst; exists x; split; [left; reflexivity|exact Hxy]|].
  destruct (IH H) as (a & Ha & Hab). exists a. split; [right; exact Ha|exact Hab].
Qed.

Lemma view_back lvs lvs' i lv' r' : Forall2 view_sim lvs lvs' -> nth_error lvs' i = Some lv' -> In r' (lv_recs lv') ->
  exists lv r, nth_error lvs i = Some lv /\ In r (lv_recs lv) /\ rec_sim r r' /\ lv_level lv = lv_level lv'.
Proof.
  intros Hv Hi Hr. pose proof (Forall2_nth_error _ _ _ Hv i) as H. rewrite Hi in H.
  destruct (nth_error lvs i) as [lv|]; [|contradiction]. destruct H as (_ & _ & Hl & _ & Hrecs).
  destruct (Forall2_in_r _ _ _ r' Hrecs Hr) as (r & Hin & Hs). exists lv, r. split; [reflexivity|split; [exact Hin|split; [exact Hs|exact Hl]]].
Qed.

Lemma cache_bd_transfer W lvs lvs' m IB CB span st : Forall2 view_sim lvs lvs' ->
  cache_bd W lvs m IB CB span st -> cache_bd W lvs' m IB CB span st.
Proof.
  intros Hv H key v Hin lv' r' lc Hn Hr Hg Hk.
  destruct (view_back lvs lvs' _ lv' r' Hv Hn Hr) as (lv & r & Hn0 & Hr0 & (Hgg & _ & _ & _ & _ & _ & Hkk) & _).
  apply (H key v Hin lv r lc Hn0 Hr0); congruence.
Qed.

Lemma psum_sim span rs rs' : Forall2 rec_sim rs rs' -> psum span rs = psum span rs'.
Proof.
  induction 1 as [|r r' l l' Hr Hl IH]; [reflexivity|].
  change (psum span (r :: l)) with (rspan span r + psum span l). change (psum span (r' :: l')) with (rspan span r' + psum span l').
  rewrite IH. unfold rspan. destruct Hr as (_ & _ & _ & _ & _ & _ & Hk). rewrite Hk. reflexivity.
Qed.

Lemma run_bounds_transfer W lvs lvs' m SW LV IB CB span :
  Forall2 view_sim lvs lvs' -> run_bounds W lvs m SW LV IB CB span ->
  (forall i lv' r', nth_error lvs' i = Some lv' -> In r' (lv_recs lv') -> tr_sp r' + tr_len r' <= m /\ (forall x, tr_ml r' = Some x -> x <= m)) ->
  views_wf lvs' -> (forall k lv, nth_error lvs' k = Some lv -> view_fun lv) ->
  run_bounds W lvs' m SW LV IB CB span.
Proof.
  intros Hv [R1 R2 R3 R4 R5] Hm Hwf Hfun. constructor; [| | |exact Hwf|exact Hfun].
  - intros i lv' r' Hi Hr. destruct (Hm i lv' r' Hi Hr) as (M1 & M2). split; [exact M1|]. split; [exact M2|].
    destruct (view_back lvs lvs' i lv' r' Hv Hi Hr) as (lv & r & Hn0 & Hr0 & (_ & _ & _ & _ & _ & Hstk & _) & _).
    rewrite <- Hstk. exact (proj2 (proj2 (R1 i lv r Hn0 Hr0))).
  - intros i lv' Hi. pose proof (Forall2_nth_error _ _ _ Hv i) as H. rewrite Hi in H. destruct (nth_error lvs i) as [lv|] eqn:E; [|contradiction].
    destruct H as (_ & _ & Hl & _). rewrite <- Hl. exact (R2 i lv E).
  - intros i lv' Hi. pose proof (Forall2_nth_error _ _ _ Hv i) as H. rewrite Hi in H. destruct (nth_error lvs i) as [lv|] eqn:E; [|contradiction].
    destruct H as (_ & _ & _ & _ & Hrecs). rewrite <- (psum_sim span _ _ Hrecs). exact (R3 i lv E).
Qed.

(* reconstruct_solution reads the views only through the token lists *)
Lemma recon_lvs_eq lvsA lvsB : (forall k, gtoks_of lvsA k = gtoks_of lvsB k) -> forall s toks, recon_events lvsA s toks = recon_events lvsB s toks.
Proof.
  intros Hg. apply (solution_ind' (fun s => forall toks, recon_events lvsA s toks = recon_events lvsB s toks)).
  intros i c decs p l IH toks. rewrite !recon_events_eq. generalize true. revert toks.
  induction decs as [|t ds IHd]; intros toks first; [reflexivity|]. destruct toks as [|g toks]; [reflexivity|].
  cbn [recon_go]. f_equal. f_equal.
  - assert (Hk : forall k s', In (k, s') (td_kids t) -> forall toks0, recon_events lvsA s' toks0 = recon_events lvsB s' toks0)
      by (intros k s' Hk; apply (IH t k s'); [left; reflexivity|exact Hk]).
    induction (td_kids t) as [|[k s'] r IHk]; [reflexivity|]. cbn [recon_kids fst snd]. rewrite Hg, (Hk k s' (or_introl eq_refl)). f_equal.
    apply IHk. intros k2 s2 H2. exact (Hk k2 s2 (or_intror H2)).
  - apply IHd. intros t' k s' Ht Hk. apply (IH t' k s'); [right; exact Ht|exact Hk].
Qed.

Lemma gtoks_of_sim lvsA lvsB : Forall2 view_sim lvsA lvsB -> forall k, gtoks_of lvsA k = gtoks_of lvsB k.
Proof.
  intros Hv k. unfold gtoks_of. pose proof (Forall2_nth_error _ _ _ Hv k) as H.
  destruct (nth_error lvsA k), (nth_error lvsB k); try contradiction; [|reflexivity]. exact (proj1 (proj2 (proj2 (proj2 H)))).
Qed.

(* ------------------------------------------------------------------ *)
(* a phase of the wrapper under two settings whose token infos may differ in lengths (same token types) *)
Section GPhase.
Variables WA WB : wsettings.
Hypothesis Hiter : w_iter WA = w_iter WB.
Hypothesis Hbbb : w_bbb WA = w_bbb WB.
Variable lines : list lline.
Variables infosA infosB : list tokinfo.
Hypothesis Hty : map ti_ty infosA = map ti_ty infosB.
Variables mA SWA LVA IBA CBA : N.
Variable spanA : nat -> N.
Variables mB SWB LVB IBB CBB : N.
Variable spanB : nat -> N.

Let lvsA := mk_lviews infosA lines.
Let lvsB := mk_lviews infosB lines.
Let fm := main_fuel WA.
Let k := S (length lines).

Hypothesis RBA : run_bounds WA lvsA mA SWA LVA IBA CBA spanA.
Hypothesis RBB : run_bounds WB lvsB mB SWB LVB IBB CBB spanB.
Hypothesis HtopA : forall i lv fd, nth_error lvsA i = Some lv -> off fd = 0 -> cpre WA mA SWA LVA IBA CBA spanA k i (lv_level lv, 0) fd.
Hypothesis HtopB : forall i lv fd, nth_error lvsB i = Some lv -> off fd = 0 -> cpre WB mB SWB LVB IBB CBB spanB k i (lv_level lv, 0) fd.

Lemma Hviews2 : Forall2 view_sim lvsA lvsB.
Proof. exact (mk_lviews_view_sim infosA infosB lines Hty). Qed.

Lemma Hfm2 : main_fuel WB = fm.
Proof. unfold fm, main_fuel. rewrite Hiter. reflexivity. Qed.

Definition GInv (stA stB : sst) : Prop :=
  sound WA lvsA fm stA /\ cache_bd WA lvsA mA IBA CBA spanA stA /\ sound WB lvsB fm stB /\ cache_bd WB lvsB mB IBB CBB spanB stB
  /\ map ev_erase (Dlog stA) = map ev_erase (Dlog stB).

Lemma cache_bd_same' W lvs m IB CB span st st' : ss_cache st' = ss_cache st -> cache_bd W lvs m IB CB span st -> cache_bd W lvs m IB CB span st'.
Proof. intros E H. unfold cache_bd. rewrite E. exact H. Qed.

Lemma format_top_gindep i lvA lvB stA stB : nth_error lvsA i = Some lvA -> nth_error lvsB i = Some lvB -> GInv stA stB ->
  GInv (format_top WA lvsA (main_fuel WA) k stA lvA) (format_top WB lvsB (main_fuel WB) k stB lvB).
Proof.
  intros HiA HiB (HsA & HcA & HsB & HcB & Hlog). rewrite Hfm2. fold fm. unfold format_top.
  pose proof (Forall2_nth_error _ _ _ Hviews2 i) as Hv. rewrite HiA, HiB in Hv. destruct Hv as (_ & Hlt & Hlvl & Hgt & _).
  rewrite Hlt, Hlvl, Hgt.
  destruct (bid _); [split; [assumption|split; [assumption|split; [assumption|split; assumption]]]|].
  set (fd := match lv_gtoks lvB with g :: _ => if g =? 0 then FD_Continue 0 true else FD_Break | [] => FD_Break end).
  assert (Hoff : off fd = 0) by (subst fd; destruct (lv_gtoks lvB) as [|g ?]; [reflexivity|destruct (g =? 0); reflexivity]).
  assert (Hfd : fd_sim fd fd) by (subst fd; destruct (lv_gtoks lvB) as [|g ?]; [exact I|destruct (g =? 0); [reflexivity|exact I]]).
  pose proof (mk_lviews_length infosA lines) as Hlen. fold lvsA in Hlen.
  pose proof (HtopA i lvA fd HiA Hoff) as PA. rewrite Hlvl in PA.
  destruct (solve_width_independent WA WB lvsA lvsB fm _ _ _ _ _ _ _ _ _ _ _ _ Hiter Hbbb Hviews2 RBA RBB
              i lvA lvB k stA stB (lv_level lvB, 0) fd fd HiA HiB ltac:(rewrite Hlen; unfold k; lia) Hfd HsA HcA HsB HcB
              PA (HtopB i lvB fd HiB Hoff)) as (E & S1 & C1 & S2 & C2).
  pose proof (state_inv_solve (fun st' => Dlog st' = Dlog stA) (fun st0 l o H => H) (fun st0 k0 v H => H) (fun st0 H => H) WA lvsA fm k stA lvA (lv_level lvB, 0) fd eq_refl) as DA.
  pose proof (state_inv_solve (fun st' => Dlog st' = Dlog stB) (fun st0 l o H => H) (fun st0 k0 v H => H) (fun st0 H => H) WB lvsB fm k stB lvB (lv_level lvB, 0) fd eq_refl) as DB.
  destruct (solve WA lvsA fm k stA lvA (lv_level lvB, 0) fd) as [stA1 rA].
  destruct (solve WB lvsB fm k stB lvB (lv_level lvB, 0) fd) as [stB1 rB]. cbn [fst snd] in *.
  destruct rA as [sA|]; destruct rB as [sB|]; try discriminate.
  - cbn [option_map] in E. injection E as E.
    destruct (sst_log_fold (recon_events lvsA sA (lv_gtoks lvB)) stA1) as (LA1 & LA2).
    destruct (sst_log_fold (recon_events lvsB sB (lv_gtoks lvB)) stB1) as (LB1 & LB2).
    split; [eapply sound_same_cache; [exact LA2|exact S1]|]. split; [eapply cache_bd_same'; [exact LA2|exact C1]|].
    split; [eapply sound_same_cache; [exact LB2|exact S2]|]. split; [eapply cache_bd_same'; [exact LB2|exact C2]|].
    unfold Dlog. rewrite LA1, LB1, !filter_app, !filter_rev, !(filter_all _ _ (recon_all_D _ _ _)), !map_app, !map_rev.
    rewrite (recon_lvs_eq lvsA lvsB (gtoks_of_sim _ _ Hviews2) sA), (recon_erase_eq lvsB sA sB _ E).
    fold (Dlog stA1). fold (Dlog stB1). rewrite DA, DB, Hlog. reflexivity.
  - split; [assumption|split; [assumption|split; [assumption|split; [assumption|]]]]. rewrite DA, DB. exact Hlog.
Qed.

Lemma Forall2_indexed {A B} (l1 : list A) (l2 : list B) : length l1 = length l2 ->
  forall s1 s2, Forall2 (fun a b => exists i, nth_error (s1 ++ l1) i = Some a /\ nth_error (s2 ++ l2) i = Some b /\ True) l1 l2 \/ length s1 <> length s2.
Proof.
  revert l2. induction l1 as [|a r IH]; intros [|b r2] Hl s1 s2; try discriminate; [left; constructor|].
  destruct (PeanoNat.Nat.eq_dec (length s1) (length s2)) as [Es|Es]; [left|right; exact Es].
  constructor.
  - exists (length s1). split; [rewrite nth_error_app2, PeanoNat.Nat.sub_diag by lia; reflexivity|]. split; [rewrite Es, nth_error_app2, PeanoNat.Nat.sub_diag by lia; reflexivity|exact I].
  - cbn [length] in Hl. destruct (IH r2 ltac:(lia) (s1 ++ [a]) (s2 ++ [b])) as [H|H]; [|rewrite !app_length in H; cbn in H; lia].
    rewrite <- !app_assoc in H. exact H.
Qed.

Theorem wrap_phase_gindep whichA whichB stA stB :
  (forall i a b, nth_error lvsA i = Some a -> nth_error lvsB i = Some b -> whichA a = whichB b) -> GInv stA stB ->
  GInv (wrap_phase WA infosA lines whichA stA) (wrap_phase WB infosB lines whichB stB).
Proof.
  intros Hw H. unfold wrap_phase. fold lvsA lvsB k.
  assert (Hgen : forall lA lB, Forall2 (fun a b => exists i, nth_error lvsA i = Some a /\ nth_error lvsB i = Some b /\ True) lA lB -> forall sa sb, GInv sa sb ->
            GInv (fold_left (fun st lv => if whichA lv then format_top WA lvsA (main_fuel WA) k st lv else st) lA sa)
                 (fold_left (fun st lv => if whichB lv then format_top WB lvsB (main_fuel WB) k st lv else st) lB sb)).
  { induction 1 as [|a b ra rb (i & Ha & Hb & _) Hr IH]; intros sa sb H0; [exact H0|]. cbn [fold_left]. apply IH.
    rewrite (Hw i a b Ha Hb).
    destruct (whichB b); [exact (format_top_gindep i a b sa sb Ha Hb H0)|exact H0]. }
  apply Hgen; [|exact H].
  destruct (Forall2_indexed lvsA lvsB (Forall2_len _ _ _ Hviews2) [] []) as [Hf|Hf]; [exact Hf|cbn in Hf; congruence].
Qed.
End GPhase.

(* ------------------------------------------------------------------ *)
(* the log only grows *)
Definition log_ext (st0 st : sst) : Prop := exists new, ss_log st = new ++ ss_log st0.

Lemma log_ext_refl st : log_ext st st.
Proof. exists []. reflexivity. Qed.

Lemma log_ext_trans a b c : log_ext a b -> log_ext b c -> log_ext a c.
Proof. intros (n1 & H1) (n2 & H2). exists (n2 ++ n1). rewrite H2, H1, app_assoc. reflexivity. Qed.

Lemma format_top_log_ext W lvs fm d st lv : log_ext st (format_top W lvs fm d st lv).
Proof.
  unfold format_top. destruct (bid _); [apply log_ext_refl|].
  match goal with |- context [solve W lvs fm d st lv ?ws ?fd] =>
    pose proof (state_inv_solve (log_ext st) (fun st0 l o H => match H with ex_intro _ n Hn => ex_intro _ (Ev_S l o :: n) (f_equal (cons (Ev_S l o)) Hn) end)
                  (fun st0 k v H => H) (fun st0 H => H) W lvs fm d st lv ws fd (log_ext_refl st)) as Hs;
    destruct (solve W lvs fm d st lv ws fd) as [st1 r] end.
  cbn [fst] in Hs. destruct r as [s|]; [|exact Hs]. eapply log_ext_trans; [exact Hs|].
  destruct (sst_log_fold (recon_events lvs s (lv_gtoks lv)) st1) as (L1 & _). exists (rev (recon_events lvs s (lv_gtoks lv))). exact L1.
Qed.

Lemma wrap_phase_log_ext W infos lines which st : log_ext st (wrap_phase W infos lines which st).
Proof.
  unfold wrap_phase. generalize (mk_lviews infos lines) at 2 as l. generalize (mk_lviews infos lines) as lvs. intros lvs l. revert st.
  induction l as [|lv r IH]; intros st; [apply log_ext_refl|]. cbn [fold_left]. eapply log_ext_trans; [|apply IH].
  destruct (which lv); [apply format_top_log_ext|apply log_ext_refl].
Qed.

(* ------------------------------------------------------------------ *)
(* the counters of two vectors that differ in token contents only *)
Definition fsim (l l' : list ftoken) : Prop := Forall2 (fun x y : ftoken => snd x = snd y) l l'.

Lemma fsim_refl l : fsim l l.
Proof. induction l; constructor; [reflexivity|assumption]. Qed.
Lemma fsim_sym l l' : fsim l l' -> fsim l' l.
Proof. induction 1; constructor; [symmetry; assumption|assumption]. Qed.
Lemma fsim_trans a b c : fsim a b -> fsim b c -> fsim a c.
Proof. intros H. revert c. induction H as [|x y r1 r2 Hxy Hr IH]; intros c Hc; inversion Hc; subst; constructor; [congruence|apply IH; assumption]. Qed.
Lemma fsim_map l l' : fsim l l' -> map snd l = map snd l'.
Proof. induction 1 as [|x y r1 r2 Hxy Hr IH]; [reflexivity|]. cbn [map]. rewrite Hxy, IH. reflexivity. Qed.

Lemma upd_ftok_fsim g : forall l l' i, fsim l l' -> fsim (upd_ftok i g l) (upd_ftok i g l').
Proof.
  induction l as [|[t f] r IH]; intros l' i H; inversion H as [|? [t' f'] ? r' Hxy Hr]; subst; [destruct i; constructor|].
  cbn [snd] in Hxy. subst f'. destruct i as [|i]; cbn [upd_ftok]; constructor; try reflexivity; [exact Hr|apply IH; exact Hr].
Qed.

Lemma apply_plan_fsim p : forall l l', fsim l l' -> fsim (apply_plan p l) (apply_plan p l').
Proof. unfold apply_plan. induction p as [|pd r IH]; intros l l' H; [exact H|]. cbn [fold_left]. apply IH. apply upd_ftok_fsim. exact H. Qed.

Lemma respace_fsim : forall sp l l', fsim l l' -> fsim (respace sp l) (respace sp l').
Proof.
  intros sp l. revert sp. induction l as [|[t f] r IH]; intros sp l' H; inversion H as [|? [t' f'] ? r' Hxy Hr]; subst; [destruct sp; constructor|].
  cbn [snd] in Hxy. subst f'. destruct sp as [|s ss]; cbn [respace]; [exact H|]. constructor; [reflexivity|apply IH; exact Hr].
Qed.

Lemma upd_ftok_tok_fsim g : forall l i, fsim (upd_ftok_tok i g l) l.
Proof. induction l as [|[t f] r IH]; intros i; [destruct i; constructor|]. destruct i as [|i]; cbn [upd_ftok_tok]; constructor; try reflexivity; [apply fsim_refl|apply IH]. Qed.

Lemma ml_visit_fsim rs acc i : fsim (fst (ml_visit rs acc i)) (fst acc).
Proof.
  unfold ml_visit. destruct (nth_error (fst acc) i) as [[tok f]|]; [|apply fsim_refl]. destruct (f_ignored f); [apply fsim_refl|].
  destruct (is_ml_string (t_ty tok)); [|apply fsim_refl]. destruct (rewrite_ml_token rs (f_ind f) (f_cont f) (t_content tok)) as [c|]; [|apply fsim_refl].
  destruct (bytes_eqb c (t_content tok)); [apply fsim_refl|]. cbn [fst]. apply upd_ftok_tok_fsim.
Qed.

Lemma ml_lines_fsim rs all : forall rest i l acc, fsim (fst (ml_lines rs all rest i l acc)) l.
Proof.
  induction rest as [|ln r IH]; intros i l acc; [apply fsim_refl|]. cbn [ml_lines].
  assert (Hf : forall toks a0, fsim (fst (fold_left (ml_visit rs) toks a0)) (fst a0)).
  { induction toks as [|t ts IHt]; intros a0; [apply fsim_refl|]. cbn [fold_left]. eapply fsim_trans; [apply IHt|apply ml_visit_fsim]. }
  specialize (Hf (ll_toks ln) (l, false)). destruct (fold_left (ml_visit rs) (ll_toks ln) (l, false)) as [l' ch]. cbn [fst] in Hf.
  eapply fsim_trans; [apply IH|exact Hf].
Qed.

(* ------------------------------------------------------------------ *)
(* the pieces of olf_model with format_multiline_strings = true *)
Definition olf_a (W : wsettings) (lines : list lline) (l : list ftoken) : list ftoken :=
  zero_line_starts (apply_plan (plan_of_events (rev (ss_log (wrap_phase1 W (map tokinfo_of l) lines)))) l).
Definition olf_ml (rs : rsettings) (W : wsettings) (lines : list lline) (l : list ftoken) : list ftoken * list nat :=
  ml_lines rs lines lines 0 (olf_a W lines l) [].
(* the lines phase 2 reflows *)
Definition olf_reflow (rs : rsettings) (W : wsettings) (lines : list lline) (l : list ftoken) : list nat :=
  fold_left (fun acc x => insert_unique x acc) (snd (olf_ml rs W lines l)) [].
Definition infos2_of (infos : list tokinfo) (b : list ftoken) : list tokinfo :=
  map (fun pq : tokinfo * ftoken => mkTI (ti_ty (fst pq)) (ti_sp (fst pq)) (ti_len (fst pq)) (ml_measure (fst (snd pq)))) (combine infos b).
(* what phase 2 reads of the tokens: the lengths of phase 1, the multi-line lengths after the string stage *)
Definition olf_infos2 (rs : rsettings) (W : wsettings) (lines : list lline) (l : list ftoken) : list tokinfo :=
  infos2_of (map tokinfo_of l) (fst (olf_ml rs W lines l)).

Definition st_after1 (W : wsettings) (lines : list lline) (l : list ftoken) : sst :=
  sst_log (Ev_Phase 2) (sst_log (Ev_Phase 1) (wrap_phase1 W (map tokinfo_of l) lines)).

Lemma olf_model_true_unfold rs W lines l :
  olf_model rs W true lines l =
  match olf_reflow rs W lines l with
  | [] => (fst (olf_ml rs W lines l), rev (ss_log (st_after1 W lines l)), ss_fuel_err (st_after1 W lines l))
  | reflow =>
      let st2 := wrap_phase2 W (olf_infos2 rs W lines l) lines reflow (st_after1 W lines l) in
      let evs2 := firstn (length (ss_log st2) - length (ss_log (st_after1 W lines l))) (ss_log st2) in
      (respace (map (fun p : ftoken => f_sp (snd p)) l) (apply_plan (plan_of_events (rev evs2)) (fst (olf_ml rs W lines l))),
       rev (ss_log st2), ss_fuel_err st2)
  end.
Proof.
  unfold olf_model, olf_reflow, olf_infos2, olf_ml, olf_a, st_after1, infos2_of.
  destruct (ml_lines rs lines lines 0 _ []) as [b refl]. cbn [fst snd].
  destruct (fold_left (fun acc x => insert_unique x acc) refl []); reflexivity.
Qed.

Lemma infos2_types infos b : length infos = length b -> map ti_ty (infos2_of infos b) = map ti_ty infos.
Proof.
  unfold infos2_of. revert b. induction infos as [|x r IH]; intros [|y b] H; try discriminate; [reflexivity|].
  cbn [combine map fst ti_ty]. f_equal. apply IH. cbn [length] in H. lia.
Qed.

Definition bound_m (lvs : list lview) (m indw contw : N) : N :=
  file_IB lvs * indw + file_CB lvs * contw + m * list_max (span_list lvs 0).

Lemma run_bounds_m_mono W lvs m m' SW LV IB CB span : m <= m' -> run_bounds W lvs m SW LV IB CB span -> run_bounds W lvs m' SW LV IB CB span.
Proof.
  intros Hm [R1 R2 R3 R4 R5]. constructor; try assumption. intros i lv r Hi Hr. destruct (R1 i lv r Hi Hr) as (A & B & C).
  split; [lia|]. split; [intros x Hx; specialize (B x Hx); lia|exact C].
Qed.

Lemma cpre_top_m W lvs0 lvs m i lv fd :
  length lvs0 = length lvs -> nth_error lvs i = Some lv -> lv_level lv <= file_LV lvs0 -> off fd = 0 ->
  bound_m lvs0 m (w_indw W) (w_contw W) <= w_max W ->
  cpre W m (file_SW lvs0) (file_LV lvs0) (file_IB lvs0) (file_CB lvs0) (file_span lvs0) (S (length lvs0)) i (lv_level lv, 0) fd.
Proof.
  intros Hlen Hi Hlv Hoff Hb.
  split; [split; cbn [fst snd]; unfold file_IB, file_CB; lia|].
  rewrite Hoff. unfold Wb, lws_len. cbn [fst snd]. unfold bound_m in Hb.
  pose proof (list_max_nth (span_list lvs0 0) i) as Hs. unfold file_span. nia.
Qed.

Lemma upd_ftok_length g : forall l i, length (upd_ftok i g l) = length l.
Proof. induction l as [|[t f] r IH]; intros [|i]; cbn [upd_ftok length]; try reflexivity. rewrite IH. reflexivity. Qed.

Lemma apply_plan_length p : forall l, length (apply_plan p l) = length l.
Proof. unfold apply_plan. induction p as [|pd r IH]; intros l; [reflexivity|]. cbn [fold_left]. rewrite IH. apply upd_ftok_length. Qed.

(* ------------------------------------------------------------------ *)
Section TwoPhase.
Variables rsA rsB : rsettings.
Variables WA WB : wsettings.
Hypothesis Hiter : w_iter WA = w_iter WB.
Hypothesis Hbbb : w_bbb WA = w_bbb WB.
Variable lines : list lline.
Hypothesis Hp : parents_ok lines = true.
Variable l : list ftoken.
Variables mA mB : N.

Let infos := map tokinfo_of l.
Let lvs := mk_lviews infos lines.
Let infos2A := olf_infos2 rsA WA lines l.
Let infos2B := olf_infos2 rsB WB lines l.

(* the bound covers the lengths of both phases, under each setting *)
Hypothesis HmA1 : file_m lvs <= mA.
Hypothesis HmA2 : file_m (mk_lviews infos2A lines) <= mA.
Hypothesis HbA : bound_m lvs mA (w_indw WA) (w_contw WA) <= w_max WA.
Hypothesis HmB1 : file_m lvs <= mB.
Hypothesis HmB2 : file_m (mk_lviews infos2B lines) <= mB.
Hypothesis HbB : bound_m lvs mB (w_indw WB) (w_contw WB) <= w_max WB.
(* the string stage marks the same lines for reflow under both settings *)
Hypothesis Hreflow : olf_reflow rsA WA lines l = olf_reflow rsB WB lines l.

Let SW := file_SW lvs.
Let LV := file_LV lvs.
Let IB := file_IB lvs.
Let CB := file_CB lvs.
Let span := file_span lvs.

Lemma RB1 W m : file_m lvs <= m -> run_bounds W lvs m SW LV IB CB span.
Proof. intros Hm. exact (run_bounds_m_mono W lvs _ m _ _ _ _ _ Hm (run_bounds_file W infos lines Hp)). Qed.

Lemma Hlenl : length lvs = length lines.
Proof. apply mk_lviews_length. Qed.

Lemma Htop1 W m i lv fd : bound_m lvs m (w_indw W) (w_contw W) <= w_max W -> nth_error lvs i = Some lv -> off fd = 0 ->
  cpre W m SW LV IB CB span (S (length lines)) i (lv_level lv, 0) fd.
Proof.
  intros Hb Hi Hoff. rewrite <- Hlenl. apply (cpre_top_m W lvs lvs m i lv fd eq_refl Hi); [|exact Hoff|exact Hb].
  apply list_max_in. apply in_map. eapply nth_error_In. exact Hi.
Qed.

(* phase 1 *)
Lemma phase1_ginv : GInv WA WB lines infos infos mA IB CB span mB IB CB span (wrap_phase1 WA infos lines) (wrap_phase1 WB infos lines).
Proof.
  apply (wrap_phase_gindep WA WB Hiter Hbbb lines infos infos eq_refl mA SW LV IB CB span mB SW LV IB CB span (RB1 WA mA HmA1) (RB1 WB mB HmB1)
           (fun i lv fd Hi Ho => Htop1 WA mA i lv fd HbA Hi Ho) (fun i lv fd Hi Ho => Htop1 WB mB i lv fd HbB Hi Ho) lv_top lv_top sst_init sst_init).
  - intros i a b Ha Hb. fold lvs in Ha, Hb. congruence.
  - split; [apply sound_init|]. split; [intros key v []|]. split; [apply sound_init|]. split; [intros key v []|reflexivity].
Qed.

Lemma olf_a_eq : olf_a WA lines l = olf_a WB lines l.
Proof.
  unfold olf_a. fold infos. rewrite !plan_of_log. destruct phase1_ginv as (_ & _ & _ & _ & Hd). rewrite Hd. reflexivity.
Qed.

Lemma b_fsim : fsim (fst (olf_ml rsA WA lines l)) (fst (olf_ml rsB WB lines l)).
Proof.
  unfold olf_ml. rewrite olf_a_eq. eapply fsim_trans; [apply ml_lines_fsim|apply fsim_sym; apply ml_lines_fsim].
Qed.

Lemma olf_a_length W : length (olf_a W lines l) = length l.
Proof. unfold olf_a, zero_line_starts. rewrite map_length. apply apply_plan_length. Qed.

Lemma infos2_ty rs W : map ti_ty (olf_infos2 rs W lines l) = map ti_ty infos.
Proof.
  unfold olf_infos2. apply infos2_types. unfold infos. rewrite map_length, <- (olf_a_length W).
  symmetry. exact (Forall2_len _ _ _ (ml_lines_fsim rs lines lines 0 (olf_a W lines l) [])).
Qed.

(* the state phase 1 left is a good starting state for phase 2 under the lengths of phase 2 *)
Lemma phase2_start : GInv WA WB lines infos2A infos2B mA IB CB span mB IB CB span (st_after1 WA lines l) (st_after1 WB lines l).
Proof.
  destruct phase1_ginv as (S1 & C1 & S2 & C2 & Hd). fold lvs in S1, C1, S2, C2.
  pose proof (mk_lviews_view_sim infos infos2A lines (eq_sym (infos2_ty rsA WA))) as VA.
  pose proof (mk_lviews_view_sim infos infos2B lines (eq_sym (infos2_ty rsB WB))) as VB. fold lvs in VA, VB.
  unfold st_after1. fold infos.
  split; [|split; [|split; [|split]]].
  - eapply sound_same_cache; [|exact (sound_transfer WA WA lvs _ _ eq_refl eq_refl VA (mk_lviews_wf infos lines Hp) (mk_lviews_wf infos2A lines Hp)
                                        (mk_lviews_fun infos lines) (mk_lviews_fun infos2A lines) _ S1)]. reflexivity.
  - eapply cache_bd_same'; [|exact (cache_bd_transfer WA lvs _ _ _ _ _ _ VA C1)]. reflexivity.
  - eapply sound_same_cache; [|exact (sound_transfer WB WB lvs _ _ eq_refl eq_refl VB (mk_lviews_wf infos lines Hp) (mk_lviews_wf infos2B lines Hp)
                                        (mk_lviews_fun infos lines) (mk_lviews_fun infos2B lines) _ S2)]. reflexivity.
  - eapply cache_bd_same'; [|exact (cache_bd_transfer WB lvs _ _ _ _ _ _ VB C2)]. reflexivity.
  - unfold Dlog. cbn [sst_log ss_log filter is_D]. exact Hd.
Qed.

Lemma RB2 rs W m : file_m lvs <= m -> file_m (mk_lviews (olf_infos2 rs W lines l) lines) <= m ->
  run_bounds W (mk_lviews (olf_infos2 rs W lines l) lines) m SW LV IB CB span.
Proof.
  intros H1 H2.
  apply (run_bounds_transfer W lvs _ m SW LV IB CB span (mk_lviews_view_sim infos _ lines (eq_sym (infos2_ty rs W))) (RB1 W m H1)).
  - intros i lv' r' Hi Hr. destruct (rb_rec _ _ _ _ _ _ _ _ (run_bounds_file W (olf_infos2 rs W lines l) lines Hp) i lv' r' Hi Hr) as (A & B & _).
    split; [lia|intros x Hx; specialize (B x Hx); lia].
  - exact (mk_lviews_wf _ lines Hp).
  - exact (mk_lviews_fun _ lines).
Qed.

Lemma Htop2 rs W m i lv fd : file_m lvs <= m -> file_m (mk_lviews (olf_infos2 rs W lines l) lines) <= m ->
  bound_m lvs m (w_indw W) (w_contw W) <= w_max W -> nth_error (mk_lviews (olf_infos2 rs W lines l) lines) i = Some lv -> off fd = 0 ->
  cpre W m SW LV IB CB span (S (length lines)) i (lv_level lv, 0) fd.
Proof.
  intros H1 H2 Hb Hi Hoff. rewrite <- Hlenl.
  apply (cpre_top_m W lvs _ m i lv fd (eq_trans Hlenl (eq_sym (mk_lviews_length _ lines))) Hi); [|exact Hoff|exact Hb].
  exact (rb_lvl _ _ _ _ _ _ _ _ (RB2 rs W m H1 H2) i lv Hi).
Qed.

(* both phases: the decision events agree up to the measured lengths, the final counters agree *)
Theorem olf_model_two_phase_indep :
  map snd (fst (fst (olf_model rsA WA true lines l))) = map snd (fst (fst (olf_model rsB WB true lines l)))
  /\ map ev_erase (filter is_D (snd (fst (olf_model rsA WA true lines l)))) = map ev_erase (filter is_D (snd (fst (olf_model rsB WB true lines l)))).
Proof.
  rewrite !olf_model_true_unfold. rewrite <- Hreflow.
  destruct phase2_start as (S1 & C1 & S2 & C2 & Hd).
  destruct (olf_reflow rsA WA lines l) as [|x reflow] eqn:ER.
  - cbn [fst snd]. split; [exact (fsim_map _ _ b_fsim)|]. rewrite !filter_rev, !map_rev. fold (Dlog (st_after1 WA lines l)). fold (Dlog (st_after1 WB lines l)). rewrite Hd. reflexivity.
  - cbn zeta. cbn [fst snd].
    pose proof (wrap_phase_gindep WA WB Hiter Hbbb lines infos2A infos2B (eq_trans (infos2_ty rsA WA) (eq_sym (infos2_ty rsB WB)))
                  mA SW LV IB CB span mB SW LV IB CB span (RB2 rsA WA mA HmA1 HmA2) (RB2 rsB WB mB HmB1 HmB2)
                  (fun i lv fd Hi Ho => Htop2 rsA WA mA i lv fd HmA1 HmA2 HbA Hi Ho) (fun i lv fd Hi Ho => Htop2 rsB WB mB i lv fd HmB1 HmB2 HbB Hi Ho)
                  (fun lv => existsb (Nat.eqb (lv_idx lv)) (x :: reflow)) (fun lv => existsb (Nat.eqb (lv_idx lv)) (x :: reflow))
                  (st_after1 WA lines l) (st_after1 WB lines l)) as HG.
    assert (Hw : forall i a b, nth_error (mk_lviews infos2A lines) i = Some a -> nth_error (mk_lviews infos2B lines) i = Some b ->
              existsb (Nat.eqb (lv_idx a)) (x :: reflow) = existsb (Nat.eqb (lv_idx b)) (x :: reflow)).
    { intros i a b Ha Hb. rewrite (proj1 (mk_lviews_wf infos2A lines Hp i a Ha)), (proj1 (mk_lviews_wf infos2B lines Hp i b Hb)). reflexivity. }
    specialize (HG Hw (conj S1 (conj C1 (conj S2 (conj C2 Hd))))). destruct HG as (_ & _ & _ & _ & Hd2).
    fold infos2A infos2B. unfold wrap_phase2.
    set (st2A := wrap_phase WA infos2A lines _ (st_after1 WA lines l)) in *.
    set (st2B := wrap_phase WB infos2B lines _ (st_after1 WB lines l)) in *.
    destruct (wrap_phase_log_ext WA infos2A lines (fun lv => existsb (Nat.eqb (lv_idx lv)) (x :: reflow)) (st_after1 WA lines l)) as (newA & LA). fold st2A in LA.
    destruct (wrap_phase_log_ext WB infos2B lines (fun lv => existsb (Nat.eqb (lv_idx lv)) (x :: reflow)) (st_after1 WB lines l)) as (newB & LB). fold st2B in LB.
    split.
    + apply fsim_map. apply respace_fsim.
      assert (HnA : firstn (length (ss_log st2A) - length (ss_log (st_after1 WA lines l))) (ss_log st2A) = newA)
        by (rewrite LA, app_length, PeanoNat.Nat.add_sub, firstn_app, PeanoNat.Nat.sub_diag, firstn_all; cbn [firstn]; apply app_nil_r).
      assert (HnB : firstn (length (ss_log st2B) - length (ss_log (st_after1 WB lines l))) (ss_log st2B) = newB)
        by (rewrite LB, app_length, PeanoNat.Nat.add_sub, firstn_app, PeanoNat.Nat.sub_diag, firstn_all; cbn [firstn]; apply app_nil_r).
      rewrite HnA, HnB.
      assert (Hplan : plan_of_events (rev newA) = plan_of_events (rev newB)).
      { unfold Dlog in Hd2, Hd. rewrite LA, LB, !filter_app, !map_app in Hd2. rewrite Hd in Hd2. apply app_inv_tail in Hd2.
        rewrite <- (plan_of_events_filter (rev newA)), <- (plan_of_events_filter (rev newB)), !filter_rev.
        rewrite <- (plan_of_events_erase (rev (filter is_D newA))), <- (plan_of_events_erase (rev (filter is_D newB))), !map_rev, Hd2. reflexivity. }
      rewrite Hplan. apply apply_plan_fsim. exact b_fsim.
    + rewrite !filter_rev, !map_rev. fold (Dlog st2A). fold (Dlog st2B). rewrite Hd2. reflexivity.
Qed.
End TwoPhase.

Print Assumptions olf_model_two_phase_indep.

(* ------------------------------------------------------------------ *)
(* non-vacuity: a multi-line string indented by 3 blanks (the implementation's trace of
     begin
       S := '''
        abc
        def
        ''';
       Foo(S);
     end.
   ): under indentation 2 / continuation 4 and under indentation 4 / continuation 8 the string is re-indented and its
   line (line 1) is reflowed *)
Definition ml2_l : list ftoken :=
  [(mkToken [] [98; 101; 103; 105; 110] (TT_Keyword KK_Begin), mkFmt false 0 0 0 0);
   (mkToken [] [83] TT_Identifier, mkFmt false 1 0 0 1);
   (mkToken [] [58; 61] (TT_Op OK_Assign), mkFmt false 0 0 0 1);
   (mkToken [] [39; 39; 39; 10; 32; 32; 32; 97; 98; 99; 10; 32; 32; 32; 100; 101; 102; 10; 32; 32; 32; 39; 39; 39] (TT_TextLiteral TK_MultiLine), mkFmt false 0 0 0 1);
   (mkToken [] [59] (TT_Op OK_Semicolon), mkFmt false 0 0 0 0);
   (mkToken [] [70; 111; 111] TT_Identifier, mkFmt false 1 0 0 1);
   (mkToken [] [40] (TT_Op OK_LParen), mkFmt false 0 0 0 0);
   (mkToken [] [83] TT_Identifier, mkFmt false 0 0 0 0);
   (mkToken [] [41] (TT_Op OK_RParen), mkFmt false 0 0 0 0);
   (mkToken [] [59] (TT_Op OK_Semicolon), mkFmt false 0 0 0 0);
   (mkToken [] [101; 110; 100] (TT_Keyword KK_End), mkFmt false 1 0 0 1);
   (mkToken [] [46] (TT_Op OK_Dot), mkFmt false 0 0 0 0);
   (mkToken [] [] TT_Eof, mkFmt false 1 0 0 0)].
Definition ml2_lines : list lline :=
  [mkLine LLT_Unknown 0 None [0]%nat;
   mkLine LLT_Assignment 1 None [1; 2; 3; 4]%nat;
   mkLine LLT_Unknown 1 None [5; 6; 7; 8; 9]%nat;
   mkLine LLT_Unknown 0 None [10; 11]%nat;
   mkLine LLT_Eof 0 None [12]%nat].

Definition ml2_rsA : rsettings := mkRS [10] (repeat 32 2) (repeat 32 4).
Definition ml2_rsB : rsettings := mkRS [10] (repeat 32 4) (repeat 32 8).
Definition ml2_WA : wsettings := mkWS 1000000000 200 false 2 4.
Definition ml2_WB : wsettings := mkWS 1000000000 200 false 4 8.

Example ml2_reflow : olf_reflow ml2_rsA ml2_WA ml2_lines ml2_l = [1%nat] /\ olf_reflow ml2_rsB ml2_WB ml2_lines ml2_l = [1%nat].
Proof. vm_compute. split; reflexivity. Qed.

Example ml2_two_phase :
  map snd (fst (fst (olf_model ml2_rsA ml2_WA true ml2_lines ml2_l))) = map snd (fst (fst (olf_model ml2_rsB ml2_WB true ml2_lines ml2_l))).
Proof.
  refine (proj1 (olf_model_two_phase_indep ml2_rsA ml2_rsB ml2_WA ml2_WB eq_refl eq_refl ml2_lines _ ml2_l 100 100 _ _ _ _ _ _ _)).
  - vm_compute. reflexivity.
  - vm_compute. intros H; discriminate.
  - vm_compute. intros H; discriminate.
  - vm_compute. intros H; discriminate.
  - vm_compute. intros H; discriminate.
  - vm_compute. intros H; discriminate.
  - vm_compute. intros H; discriminate.
  - vm_compute. reflexivity.
Qed.

(* the token contents do differ (the string carries the indentation of its setting): only the counters agree *)
Example ml2_contents_differ :
  map fst (fst (fst (olf_model ml2_rsA ml2_WA true ml2_lines ml2_l))) <> map fst (fst (fst (olf_model ml2_rsB ml2_WB true ml2_lines ml2_l))).
Proof. vm_compute. intros H. discriminate. Qed.
