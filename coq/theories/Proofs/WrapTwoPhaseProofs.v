(* Proofs/WrapTwoPhaseProofs.v — C10 for both phases of the wrapper on files WITH multi-line strings.
   Phase 2 runs on other multi-line lengths (the string stage re-indents the strings with the indentation strings of the
   setting) and on the cache phase 1 left; which lines are reflowed is decided by comparing texts, which depends on the
   setting.  With the reflow sets of the two settings EQUAL (hypothesis) and max_line_length above the bound of both
   phases: the decision events of the whole run agree up to the measured lengths and the final counters agree. *)
From PasfmtVerif Require Import Proofs.WrapWidthFree Proofs.WrapSearchProofs Proofs.WrapSearchDeepProofs Proofs.WrapDepthProofs Proofs.WrapEventsProofs
  Proofs.WrapSimProofs Proofs.WrapUnconstrainedProofs Proofs.WrapWidthIndependence Proofs.WrapFileProofs Proofs.WrapSoundTransferProofs.
From Coq Require Import Lia.

(* ------------------------------------------------------------------ *)
(* transfers between related view lists *)
Lemma Forall2_in_r {A B} (R : A -> B -> Prop) l1 l2 b : Forall2 R l1 l2 -> In b l2 -> exists a, In a l1 /\ R a b.
Proof.
  induction 1 as [|x y r1 r2 Hxy Hr IH]; intros []; [subst; exists x; split; [left; reflexivity|exact Hxy]|].
  destruct (IH H) as (a & Ha & Hab). exists a. split; [right; exact Ha|exact Hab].
Qed.

Lemma view_back lvs lvs' i lv' r' : Forall2 view_sim lvs lvs' -> nth_error lvs' i = Some lv' -> In r' (lv_recs lv') ->
  exists lv r, nth_error lvs i = Some lv /\ In r (lv_recs lv) /\ rec_sim r r' /\ lv_level lv = lv_level lv'.
Proof.
  intros Hv Hi Hr. pose proof (Forall2_nth_error _ _ _ Hv i) as H. rewrite Hi in H.
  destruct (nth_error lvs i) as [lv|]; [|contradiction]. destruct H as (_ & _ & Hl & _ & Hrecs).
  destruct (Forall2_in_r _ _ _ r' Hrecs Hr) as (r & Hin & Hs). exists lv, r. split; [reflexivity|split; [exact Hin|split; [exact Hs|exact Hl]]].
Qed.

Lemma cache_bd_transfer W lvs lvs' m IB CB span st : Forall2 view_sim lvs lvs' ->
  cache_bd W lvs m IB CB span st -> cache_bd W lvs' m IB CB span st.
Proof.
  intros Hv H key v Hin lv' r' lc Hn Hr Hg Hk.
  destruct (view_back lvs lvs' _ lv' r' Hv Hn Hr) as (lv & r & Hn0 & Hr0 & (Hgg & _ & _ & _ & _ & _ & Hkk) & _).
  apply (H key v Hin lv r lc Hn0 Hr0); congruence.
Qed.

Lemma psum_sim span rs rs' : Forall2 rec_sim rs rs' -> psum span rs = psum span rs'.
Proof.
  induction 1 as [|r r' l l' Hr Hl IH]; [reflexivity|].
  change (psum span (r :: l)) with (rspan span r + psum span l). change (psum span (r' :: l')) with (rspan span r' + psum span l').
  rewrite IH. unfold rspan. destruct Hr as (_ & _ & _ & _ & _ & _ & Hk). rewrite Hk. reflexivity.
Qed.

Lemma run_bounds_transfer W lvs lvs' m SW LV IB CB span :
  Forall2 view_sim lvs lvs' -> run_bounds W lvs m SW LV IB CB span ->
  (forall i lv' r', nth_error lvs' i = Some lv' -> In r' (lv_recs lv') -> tr_sp r' + tr_len r' <= m /\ (forall x, tr_ml r' = Some x -> x <= m)) ->
  views_wf lvs' -> (forall k lv, nth_error lvs' k = Some lv -> view_fun lv) ->
  run_bounds W lvs' m SW LV IB CB span.
Proof.
  intros Hv [R1 R2 R3 R4 R5] Hm Hwf Hfun. constructor; [| | |exact Hwf|exact Hfun].
  - intros i lv' r' Hi Hr. destruct (Hm i lv' r' Hi Hr) as (M1 & M2). split; [exact M1|]. split; [exact M2|].
    destruct (view_back lvs lvs' i lv' r' Hv Hi Hr) as (lv & r & Hn0 & Hr0 & (_ & _ & _ & _ & _ & Hstk & _) & _).
    rewrite <- Hstk. exact (proj2 (proj2 (R1 i lv r Hn0 Hr0))).
  - intros i lv' Hi. pose proof (Forall2_nth_error _ _ _ Hv i) as H. rewrite Hi in H. destruct (nth_error lvs i) as [lv|] eqn:E; [|contradiction].
    destruct H as (_ & _ & Hl & _). rewrite <- Hl. exact (R2 i lv E).
  - intros i lv' Hi. pose proof (Forall2_nth_error _ _ _ Hv i) as H. rewrite Hi in H. destruct (nth_error lvs i) as [lv|] eqn:E; [|contradiction].
    destruct H as (_ & _ & _ & _ & Hrecs). rewrite <- (psum_sim span _ _ Hrecs). exact (R3 i lv E).
Qed.

(* reconstruct_solution reads the views only through the token lists *)
Lemma recon_lvs_eq lvsA lvsB : (forall k, gtoks_of lvsA k = gtoks_of lvsB k) -> forall s toks, recon_events lvsA s toks = recon_events lvsB s toks.
Proof.
  intros Hg. apply (solution_ind' (fun s => forall toks, recon_events lvsA s toks = recon_events lvsB s toks)).
  intros i c decs p l IH toks. rewrite !recon_events_eq. generalize true. revert toks.
  induction decs as [|t ds IHd]; intros toks first; [reflexivity|]. destruct toks as [|g toks]; [reflexivity|].
  cbn [recon_go]. f_equal. f_equal.
  - assert (Hk : forall k s', In (k, s') (td_kids t) -> forall toks0, recon_events lvsA s' toks0 = recon_events lvsB s' toks0)
      by (intros k s' Hk; apply (IH t k s'); [left; reflexivity|exact Hk]).
    induction (td_kids t) as [|[k s'] r IHk]; [reflexivity|]. cbn [recon_kids fst snd]. rewrite Hg, (Hk k s' (or_introl eq_refl)). f_equal.
    apply IHk. intros k2 s2 H2. exact (Hk k2 s2 (or_intror H2)).
  - apply IHd. intros t' k s' Ht Hk. apply (IH t' k s'); [right; exact Ht|exact Hk].
Qed.

Lemma gtoks_of_sim lvsA lvsB : Forall2 view_sim lvsA lvsB -> forall k, gtoks_of lvsA k = gtoks_of lvsB k.
Proof.
  intros Hv k. unfold gtoks_of. pose proof (Forall2_nth_error _ _ _ Hv k) as H.
  destruct (nth_error lvsA k), (nth_error lvsB k); try contradiction; [|reflexivity]. exact (proj1 (proj2 (proj2 (proj2 H)))).
Qed.

(* ------------------------------------------------------------------ *)
(* a phase of the wrapper under two settings whose token infos may differ in lengths (same token types) *)
Section GPhase.
Variables WA WB : wsettings.
Hypothesis Hiter : w_iter WA = w_iter WB.
Hypothesis Hbbb : w_bbb WA = w_bbb WB.
Variable lines : list lline.
Variables infosA infosB : list tokinfo.
Hypothesis Hty : map ti_ty infosA = map ti_ty infosB.
Variables mA SWA LVA IBA CBA : N.
Variable spanA : nat -> N.
Variables mB SWB LVB IBB CBB : N.
Variable spanB : nat -> N.

Let lvsA := mk_lviews infosA lines.
Let lvsB := mk_lviews infosB lines.
Let fm := main_fuel WA.
Let k := S (length lines).

Hypothesis RBA : run_bounds WA lvsA mA SWA LVA IBA CBA spanA.
Hypothesis RBB : run_bounds WB lvsB mB SWB LVB IBB CBB spanB.
Hypothesis HtopA : forall i lv fd, nth_error lvsA i = Some lv -> off fd = 0 -> cpre WA mA SWA LVA IBA CBA spanA k i (lv_level lv, 0) fd.
Hypothesis HtopB : forall i lv fd, nth_error lvsB i = Some lv -> off fd = 0 -> cpre WB mB SWB LVB IBB CBB spanB k i (lv_level lv, 0) fd.

Lemma Hviews2 : Forall2 view_sim lvsA lvsB.
Proof. exact (mk_lviews_view_sim infosA infosB lines Hty). Qed.

Lemma Hfm2 : main_fuel WB = fm.
Proof. unfold fm, main_fuel. rewrite Hiter. reflexivity. Qed.

Definition GInv (stA stB : sst) : Prop :=
  sound WA lvsA fm stA /\ cache_bd WA lvsA mA IBA CBA spanA stA /\ sound WB lvsB fm stB /\ cache_bd WB lvsB mB IBB CBB spanB stB
  /\ map ev_erase (Dlog stA) = map ev_erase (Dlog stB).

Lemma cache_bd_same' W lvs m IB CB span st st' : ss_cache st' = ss_cache st -> cache_bd W lvs m IB CB span st -> cache_bd W lvs m IB CB span st'.
Proof. intros E H. unfold cache_bd. rewrite E. exact H. Qed.

Lemma format_top_gindep i lvA lvB stA stB : nth_error lvsA i = Some lvA -> nth_error lvsB i = Some lvB -> GInv stA stB ->
  GInv (format_top WA lvsA (main_fuel WA) k stA lvA) (format_top WB lvsB (main_fuel WB) k stB lvB).
Proof.
  intros HiA HiB (HsA & HcA & HsB & HcB & Hlog). rewrite Hfm2. fold fm. unfold format_top.
  pose proof (Forall2_nth_error _ _ _ Hviews2 i) as Hv. rewrite HiA, HiB in Hv. destruct Hv as (_ & Hlt & Hlvl & Hgt & _).
  rewrite Hlt, Hlvl, Hgt.
  destruct (bid _); [split; [assumption|split; [assumption|split; [assumption|split; assumption]]]|].
  set (fd := match lv_gtoks lvB with g :: _ => if g =? 0 then FD_Continue 0 true else FD_Break | [] => FD_Break end).
  assert (Hoff : off fd = 0) by (subst fd; destruct (lv_gtoks lvB) as [|g ?]; [reflexivity|destruct (g =? 0); reflexivity]).
  assert (Hfd : fd_sim fd fd) by (subst fd; destruct (lv_gtoks lvB) as [|g ?]; [exact I|destruct (g =? 0); [reflexivity|exact I]]).
  pose proof (mk_lviews_length infosA lines) as Hlen. fold lvsA in Hlen.
  pose proof (HtopA i lvA fd HiA Hoff) as PA. rewrite Hlvl in PA.
  destruct (solve_width_independent WA WB lvsA lvsB fm _ _ _ _ _ _ _ _ _ _ _ _ Hiter Hbbb Hviews2 RBA RBB
              i lvA lvB k stA stB (lv_level lvB, 0) fd fd HiA HiB ltac:(rewrite Hlen; unfold k; lia) Hfd HsA HcA HsB HcB
              PA (HtopB i lvB fd HiB Hoff)) as (E & S1 & C1 & S2 & C2).
  pose proof (state_inv_solve (fun st' => Dlog st' = Dlog stA) (fun st0 l o H => H) (fun st0 k0 v H => H) (fun st0 H => H) WA lvsA fm k stA lvA (lv_level lvB, 0) fd eq_refl) as DA.
  pose proof (state_inv_solve (fun st' => Dlog st' = Dlog stB) (fun st0 l o H => H) (fun st0 k0 v H => H) (fun st0 H => H) WB lvsB fm k stB lvB (lv_level lvB, 0) fd eq_refl) as DB.
  destruct (solve WA lvsA fm k stA lvA (lv_level lvB, 0) fd) as [stA1 rA].
  destruct (solve WB lvsB fm k stB lvB (lv_level lvB, 0) fd) as [stB1 rB]. cbn [fst snd] in *.
  destruct rA as [sA|]; destruct rB as [sB|]; try discriminate.
  - cbn [option_map] in E. injection E as E.
    destruct (sst_log_fold (recon_events lvsA sA (lv_gtoks lvB)) stA1) as (LA1 & LA2).
    destruct (sst_log_fold (recon_events lvsB sB (lv_gtoks lvB)) stB1) as (LB1 & LB2).
    split; [eapply sound_same_cache; [exact LA2|exact S1]|]. split; [eapply cache_bd_same'; [exact LA2|exact C1]|].
    split; [eapply sound_same_cache; [exact LB2|exact S2]|]. split; [eapply cache_bd_same'; [exact LB2|exact C2]|].
    unfold Dlog. rewrite LA1, LB1, !filter_app, !filter_rev, !(filter_all _ _ (recon_all_D _ _ _)), !map_app, !map_rev.
    rewrite (recon_lvs_eq lvsA lvsB (gtoks_of_sim _ _ Hviews2) sA), (recon_erase_eq lvsB sA sB _ E).
    fold (Dlog stA1). fold (Dlog stB1). rewrite DA, DB, Hlog. reflexivity.
  - split; [assumption|split; [assumption|split; [assumption|split; [assumption|]]]]. rewrite DA, DB. exact Hlog.
Qed.

Lemma Forall2_indexed {A B} (l1 : list A) (l2 : list B) : length l1 = length l2 ->
  forall s1 s2, Forall2 (fun a b => exists i, nth_error (s1 ++ l1) i = Some a /\ nth_error (s2 ++ l2) i = Some b /\ True) l1 l2 \/ length s1 <> length s2.
Proof.
  revert l2. induction l1 as [|a r IH]; intros [|b r2] Hl s1 s2; try discriminate; [left; constructor|].
  destruct (PeanoNat.Nat.eq_dec (length s1) (length s2)) as [Es|Es]; [left|right; exact Es].
  constructor.
  - exists (length s1). split; [rewrite nth_error_app2, PeanoNat.Nat.sub_diag by lia; reflexivity|]. split; [rewrite Es, nth_error_app2, PeanoNat.Nat.sub_diag by lia; reflexivity|exact I].
  - cbn [length] in Hl. destruct (IH r2 ltac:(lia) (s1 ++ [a]) (s2 ++ [b])) as [H|H]; [|rewrite !app_length in H; cbn in H; lia].
    rewrite <- !app_assoc in H. exact H.
Qed.

Theorem wrap_phase_gindep whichA whichB stA stB :
  (forall a b, view_sim a b -> whichA a = whichB b) -> GInv stA stB ->
  GInv (wrap_phase WA infosA lines whichA stA) (wrap_phase WB infosB lines whichB stB).
Proof.
  intros Hw H. unfold wrap_phase. fold lvsA lvsB k.
  assert (Hgen : forall lA lB, Forall2 (fun a b => exists i, nth_error lvsA i = Some a /\ nth_error lvsB i = Some b /\ True) lA lB -> forall sa sb, GInv sa sb ->
            GInv (fold_left (fun st lv => if whichA lv then format_top WA lvsA (main_fuel WA) k st lv else st) lA sa)
                 (fold_left (fun st lv => if whichB lv then format_top WB lvsB (main_fuel WB) k st lv else st) lB sb)).
  { induction 1 as [|a b ra rb (i & Ha & Hb & _) Hr IH]; intros sa sb H0; [exact H0|]. cbn [fold_left]. apply IH.
    pose proof (Forall2_nth_error _ _ _ Hviews2 i) as Hv. rewrite Ha, Hb in Hv. rewrite (Hw a b Hv).
    destruct (whichB b); [exact (format_top_gindep i a b sa sb Ha Hb H0)|exact H0]. }
  apply Hgen; [|exact H].
  destruct (Forall2_indexed lvsA lvsB (Forall2_len _ _ _ Hviews2) [] []) as [Hf|Hf]; [exact Hf|cbn in Hf; congruence].
Qed.
End GPhase.
