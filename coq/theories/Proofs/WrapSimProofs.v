(* Proofs/WrapSimProofs.v — the width-free search (Proofs/WrapWidthFree.v) does not depend on any length.
   Two runs A and B on the same lines and token types whose settings agree on iteration_max and break_before_begin
   but differ arbitrarily in the indentation string lengths and in every token's spaces / content length / multi-line
   length (views related by view_sim) return solutions that are equal up to the recorded lengths (`erase`), from any
   two SOUND states: the child_line_cache of each run may hold any entries that some earlier fresh search of that run
   produced (sound).  The cache key holds a byte length, so a lookup can hit in one run and miss in the other: a hit
   returns what a fresh search returns (solve_children_sim applied to the witness of soundness). *)
From PasfmtVerif Require Import Proofs.WrapWidthFree Proofs.WrapHeapSimProofs Proofs.WrapDepthProofs.
From Coq Require Import Lia.

(* ------------------------------------------------------------------ *)
(* erasure of the recorded lengths *)
Fixpoint erase (s : solution) {struct s} : solution :=
  match s with
  | Sol i c decs p _ =>
      Sol i c ((fix go (ds : list tdec) : list tdec :=
                  match ds with
                  | [] => []
                  | TDec d _ kids :: r =>
                      TDec d 0 ((fix gk (ks : list (nat * solution)) : list (nat * solution) :=
                                   match ks with [] => [] | (k, s') :: kr => (k, erase s') :: gk kr end) kids) :: go r
                  end) decs) p 0
  end.

Definition erase_kids (ks : list (nat * solution)) : list (nat * solution) := map (fun ks1 => (fst ks1, erase (snd ks1))) ks.
Definition erase_dec (t : tdec) : tdec := TDec (td_dec t) 0 (erase_kids (td_kids t)).

Lemma erase_eq i c decs p l : erase (Sol i c decs p l) = Sol i c (map erase_dec decs) p 0.
Proof.
  cbn [erase]. f_equal. induction decs as [|[d lll kids] r IH]; [reflexivity|]. cbn [map]. rewrite IH. f_equal.
  unfold erase_dec. cbn [td_dec td_kids]. f_equal. induction kids as [|[k s'] kr IHk]; [reflexivity|]. cbn [erase_kids map fst snd]. f_equal. exact IHk.
Qed.

Lemma erase_pen s : sol_pen (erase s) = sol_pen s.
Proof. destruct s; reflexivity. Qed.

Lemma erase_decs s : sol_decs (erase s) = map erase_dec (sol_decs s).
Proof. destruct s as [i c decs p l]. rewrite erase_eq. reflexivity. Qed.

Lemma erase_kids_pen kA kB : erase_kids kA = erase_kids kB -> forall x,
  fold_left (fun a (ks : nat * solution) => a + sol_pen (snd ks)) kA x = fold_left (fun a (ks : nat * solution) => a + sol_pen (snd ks)) kB x.
Proof.
  revert kB. induction kA as [|a ra IH]; intros [|b rb] E x; try discriminate; [reflexivity|].
  cbn [erase_kids map] in E. injection E as _ E1 E2. cbn [fold_left]. rewrite <- (erase_pen (snd a)), <- (erase_pen (snd b)), E1. apply IH. exact E2.
Qed.

Definition kid_has_break (ks : nat * solution) : bool := existsb (fun t => td_dec t IS WBreak _) (sol_decs (snd ks)).

Lemma kid_has_break_erase a b : erase (snd a) = erase (snd b) -> kid_has_break a = kid_has_break b.
Proof.
  unfold kid_has_break. intros E. assert (H : map td_dec (sol_decs (snd a)) = map td_dec (sol_decs (snd b))).
  { assert (H' : map td_dec (sol_decs (erase (snd a))) = map td_dec (sol_decs (erase (snd b)))) by (rewrite E; reflexivity).
    rewrite !erase_decs, !map_map in H'. exact H'. }
  revert H. generalize (sol_decs (snd a)) (sol_decs (snd b)). induction l as [|x r IH]; intros [|y r'] H; try discriminate; [reflexivity|].
  cbn [map] in H. injection H as H1 H2. cbn [existsb]. rewrite H1, (IH r' H2). reflexivity.
Qed.

Lemma update_from_children_erase stk nli kA kB d : erase_kids kA = erase_kids kB ->
  update_from_children stk nli kA d = update_from_children stk nli kB d.
Proof.
  intros E. unfold update_from_children. fold kid_has_break.
  assert (H : existsb kid_has_break kA = existsb kid_has_break kB /\ (kA = [] <-> kB = [])).
  { revert kB E. induction kA as [|a ra IH]; intros [|b rb] E; try discriminate; [split; [reflexivity|tauto]|].
    cbn [erase_kids map] in E. injection E as _ E1 E2. destruct (IH rb E2) as (H1 & _). cbn [existsb].
    rewrite (kid_has_break_erase a b E1), H1. split; [reflexivity|split; discriminate]. }
  destruct H as (H1 & H2). rewrite H1. destruct (existsb kid_has_break kB); [reflexivity|].
  destruct kA, kB; try reflexivity; [discriminate (proj1 H2 eq_refl)|discriminate (proj2 H2 eq_refl)].
Qed.

Lemma find_continuations_erase tok toks dA dB : map erase_dec dA = map erase_dec dB -> find_continuations tok toks dA = find_continuations tok toks dB.
Proof.
  intros E. assert (H : map td_dec dA = map td_dec dB).
  { assert (H' : map td_dec (map erase_dec dA) = map td_dec (map erase_dec dB)) by (rewrite E; reflexivity). rewrite !map_map in H'. exact H'. }
  clear E. unfold find_continuations. destruct ((fix pos (l : list N) (k : nat) : option nat := match l with [] => None | x :: r => if x =? tok then Some k else pos r (S k) end) toks 0%nat) as [depth|]; [|reflexivity].
  revert dB H. revert depth. induction dA as [|a ra IH]; intros depth [|b rb] H; try discriminate; [reflexivity|].
  cbn [map] in H. injection H as H1 H2. destruct depth as [|n]; cbn [skipn].
  - rewrite H1. destruct (td_dec b); [reflexivity|]. exact (IH O rb H2).
  - exact (IH n rb H2).
Qed.

(* ------------------------------------------------------------------ *)
(* related records, views, first decisions *)
Definition rec_sim (a b : trec) : Prop :=
  tr_gidx a = tr_gidx b /\ tr_ty a = tr_ty b /\ tr_win a = tr_win b /\ tr_fprev a = tr_fprev b /\ tr_inv a = tr_inv b
  /\ tr_stk a = tr_stk b /\ tr_kids a = tr_kids b.
Definition view_sim (a b : lview) : Prop :=
  lv_idx a = lv_idx b /\ lv_type a = lv_type b /\ lv_level a = lv_level b /\ lv_gtoks a = lv_gtoks b /\ Forall2 rec_sim (lv_recs a) (lv_recs b).
Definition fd_sim (a b : first_decision) : Prop :=
  match a, b with FD_Break, FD_Break => True | FD_Continue _ ca, FD_Continue _ cb => ca = cb | _, _ => False end.

(* the children of a token are a function of the token *)
Definition view_fun (lv : lview) : Prop := forall r r', In r (lv_recs lv) -> In r' (lv_recs lv) -> tr_gidx r = tr_gidx r' -> tr_kids r = tr_kids r'.

Lemma Forall2_nth_error {A B} (R : A -> B -> Prop) l1 l2 : Forall2 R l1 l2 -> forall k,
  match nth_error l1 k, nth_error l2 k with Some a, Some b => R a b | None, None => True | _, _ => False end.
Proof. induction 1 as [|a b r1 r2 Hab H IH]; intros [|k]; cbn [nth_error]; try exact I; [exact Hab|apply IH]. Qed.

(* ------------------------------------------------------------------ *)
(* a sound state: every cache entry was produced by a fresh search of the same run from a sound state *)
Definition opt_base (o : clopt) : (N * N) * N :=
  match o with CO_ContinueAll => ((0, 0), 0) | CO_BreakAll i c x | CO_ContinueThenBreak i c x => ((i, c), x) end.

Section Sound.
Variable W : wsettings.
Variable lvs : list lview.
Variable fm : nat.

Inductive sound : sst -> Prop :=
  | Sound st :
      (forall key v, In (key, v) (ss_cache st) ->
         exists st0 d lv r lc v',
           sound st0 /\ nth_error lvs (k_line key) = Some lv /\ In r (lv_recs lv) /\ tr_gidx r = k_tok key /\ tr_kids r = Some lc
           /\ (length lvs - k_line key <= d)%nat
           /\ snd (solve_children lvs (solve_inf W lvs fm d) st0 (k_opt key) (fst (opt_base (k_opt key))) (snd (opt_base (k_opt key)))
                                  (lch_lines lc) true (k_lll key) []) = Some v'
           /\ erase_kids v' = erase_kids v) ->
      sound st.

Lemma sound_init : sound sst_init.
Proof. constructor. intros key v []. Qed.

Lemma sound_same_cache st st' : ss_cache st' = ss_cache st -> sound st -> sound st'.
Proof. intros E H. destruct H as [st H]. constructor. rewrite E. exact H. Qed.
End Sound.

Lemma clopt_eqb_eq a b : clopt_eqb a b = true -> a = b.
Proof.
  destruct a as [|i c x|i c x], b as [|i' c' x'|i' c' x']; cbn [clopt_eqb]; try discriminate; try reflexivity;
    intros H; apply andb_true_iff in H; destruct H as (H & H3); apply andb_true_iff in H; destruct H as (H1 & H2);
    apply N.eqb_eq in H1, H2, H3; subst; reflexivity.
Qed.

Lemma ckey_eqb_eq a b : ckey_eqb a b = true -> a = b.
Proof.
  destruct a, b. unfold ckey_eqb. cbn. intros H.
  apply andb_true_iff in H; destruct H as (H & H4); apply andb_true_iff in H; destruct H as (H & H3); apply andb_true_iff in H; destruct H as (H1 & H2).
  apply N.eqb_eq in H1, H2. apply PeanoNat.Nat.eqb_eq in H3. apply clopt_eqb_eq in H4. subst. reflexivity.
Qed.

Lemma cache_find_in key : forall c v, cache_find key c = Some v -> In (key, v) c.
Proof.
  induction c as [|[k' v'] r IH]; intros v E; cbn [cache_find] in E; [discriminate|].
  destruct (ckey_eqb key k') eqn:Ek; [injection E as <-; apply ckey_eqb_eq in Ek; subst; left; reflexivity|right; apply IH; exact E].
Qed.

(* ------------------------------------------------------------------ *)
(* child_lines_solutions = a fold of cls_step over cls_options (by unfolding) *)
Definition cls_options (bbb : bool) (lvs : list lview) (stk : cstack) (d : cdata) (nli : N) (ws : N * N) (lc : lchildren) (first_child : lview)
    (starting_continuations : N) : list clopt :=
  let child_starting_ws := (fst ws, snd ws + starting_continuations, 0) in
  let parent_base_ws := (fst ws, snd ws, 1) in
  let parent_indented_ws := (fst ws, snd ws, 0) in
  let must_break_first_child := first_inv_must_break first_child in
  let first_child_token := first_tok_type first_child in
  let BA (w : N * N * N) := CO_BreakAll (fst (fst w)) (snd (fst w)) (snd w) in
  let CTB (w : N * N * N) := CO_ContinueThenBreak (fst (fst w)) (snd (fst w)) (snd w) in
  match lch_ptype lc with
  | Some (TT_Keyword (KK_Begin | KK_Procedure | KK_Function)) =>
      match glc_o (fun t => t IS (CT_CommaElem | CT_AssignRHS)) stk d nli s_bar with
      | Some false => if lch_desc lc <=? 1 then [CO_ContinueAll] else []
      | _ => [BA child_starting_ws]
      end
  | Some (TT_Op OK_LParen) =>
      if existsb (fun k => match nth_error lvs k with Some lv => lv_type lv IS LLT_CaseHeader | None => false end) (lch_lines lc)
      then [BA child_starting_ws]
      else [BA child_starting_ws; CO_ContinueAll]
  | Some (TT_Keyword KK_Else) =>
      match first_child_token with
      | Some (TT_Keyword KK_If) =>
          if must_break_first_child then [BA parent_indented_ws] else [CTB parent_base_ws]
      | Some (TT_Keyword KK_Begin) =>
          if bbb || must_break_first_child then [BA parent_base_ws] else [CTB parent_base_ws]
      | _ => [BA child_starting_ws]
      end
  | Some (TT_Keyword (KK_Then | KK_Do)) =>
      let broken := glc_d (fun t => t IS (CT_ControlFlow | CT_ForLoop)) stk d nli (fun s => s_broken s || s_child s) in
      if first_child_token IS Some (TT_Keyword KK_Begin) then
        if broken IS Some false then
          if bbb || must_break_first_child then [BA parent_base_ws]
          else [BA parent_base_ws; CTB parent_base_ws]
        else [BA parent_base_ws]
      else [BA parent_indented_ws]
  | Some (TT_Op OK_Colon) =>
      if first_child_token IS Some (TT_Keyword KK_Begin) then
        if bbb || must_break_first_child then [BA parent_base_ws]
        else [BA parent_base_ws; CTB parent_base_ws]
      else if (first_child_token IS Some (TT_Op OK_Semicolon)) && (lch_desc lc =? 1) && negb must_break_first_child then [CO_ContinueAll]
      else if lch_desc lc =? 1 then [CO_ContinueAll; BA parent_indented_ws]
      else [BA parent_indented_ws]
  | _ =>
      if glc_d any_ct stk d nli (fun s => s_broken s || s_child s) IS Some true then [BA child_starting_ws] else []
  end.

Definition cls_step (lvs : list lview) (cs : sst -> lview -> N * N -> first_decision -> sst * option solution)
    (line_idx : nat) (gidx : N) (tll : N) (kids : list nat)
    (acc : sst * list (list (nat * solution))) (opt : clopt) : sst * list (list (nat * solution)) :=
  let (st, sols) := acc in
  let key := mkKey tll line_idx gidx opt in
  match cache_find key (ss_cache st) with
  | Some s => (st, sols ++ [s])
  | None =>
      let (st, res) := solve_children lvs cs st opt (fst (opt_base opt)) (snd (opt_base opt)) kids true tll [] in
      match res with
      | Some s => (sst_cache_add key s st, sols ++ [s])
      | None => (st, sols)
      end
  end.

Lemma fold_left_ext_all {A B} (F G : A -> B -> A) : (forall a b, F a b = G a b) -> forall l a, fold_left F l a = fold_left G l a.
Proof. intros H. induction l as [|x r IH]; intros a; [reflexivity|]. cbn [fold_left]. rewrite H. apply IH. Qed.

Lemma cls_unfold W lvs cs st line_idx r gtoks tok_li ws decs d nli tll pc :
  child_lines_solutions W lvs cs st line_idx r gtoks tok_li ws decs d nli tll pc =
  match tr_kids r with
  | None => (st, [[]])
  | Some lc =>
      match match lch_lines lc with k :: _ => nth_error lvs k | [] => None end with
      | None => (st, [[]])
      | Some first_child =>
          fold_left (cls_step lvs cs line_idx (tr_gidx r) tll (lch_lines lc))
                    (cls_options (w_bbb W) lvs (tr_stk r) d nli ws lc first_child
                       (match find_continuations (lch_parent_tok lc) (rev (firstn (N.to_nat tok_li) gtoks)) decs with Some c => c | None => pc end))
                    (st, [])
      end
  end.
Proof.
  unfold child_lines_solutions. destruct (tr_kids r) as [lc|]; [|reflexivity].
  destruct (match lch_lines lc with k :: _ => nth_error lvs k | [] => None end) as [fc|]; [|reflexivity].
  unfold cls_options. apply fold_left_ext_all. intros [st0 sols] opt. unfold cls_step.
  destruct (cache_find _ (ss_cache st0)); [reflexivity|]. destruct opt; reflexivity.
Qed.

Lemma Forall2_len {A B} (R : A -> B -> Prop) l1 l2 : Forall2 R l1 l2 -> length l1 = length l2.
Proof. induction 1 as [|a b r1 r2 H1 H2 IH]; cbn [length]; [reflexivity|rewrite IH; reflexivity]. Qed.

(* ------------------------------------------------------------------ *)
Section Sim.
Variables WA WB : wsettings.
Hypothesis Hiter : w_iter WA = w_iter WB.
Hypothesis Hbbb : w_bbb WA = w_bbb WB.
Variables lvsA lvsB : list lview.
Hypothesis Hviews : Forall2 view_sim lvsA lvsB.
Hypothesis HwfA : views_wf lvsA.
Hypothesis HwfB : views_wf lvsB.
Hypothesis HfunA : forall k lv, nth_error lvsA k = Some lv -> view_fun lv.
Hypothesis HfunB : forall k lv, nth_error lvsB k = Some lv -> view_fun lv.
Variable fm : nat.

Notation soundA := (sound WA lvsA fm).
Notation soundB := (sound WB lvsB fm).
Notation solveA := (solve_inf WA lvsA fm).
Notation solveB := (solve_inf WB lvsB fm).

Definition osim (a b : option solution) : Prop := option_map erase a = option_map erase b.
Definition ksim (a b : list (nat * solution)) : Prop := erase_kids a = erase_kids b.

Lemma Hlen : length lvsA = length lvsB.
Proof. exact (Forall2_len _ _ _ Hviews). Qed.

Definition S_at (n : nat) : Prop :=
  forall i lvA lvB, (length lvsA - i <= n)%nat -> nth_error lvsA i = Some lvA -> nth_error lvsB i = Some lvB ->
  forall dA dB stA stB ws fdA fdB, (length lvsA - i < dA)%nat -> (length lvsA - i < dB)%nat ->
    soundA stA -> soundB stB -> fd_sim fdA fdB ->
    soundA (fst (solveA dA stA lvA ws fdA)) /\ soundB (fst (solveB dB stB lvB ws fdB))
    /\ osim (snd (solveA dA stA lvA ws fdA)) (snd (solveB dB stB lvB ws fdB)).

Section Line.
Variable n : nat.
Hypothesis IH : S_at n.
Variable i : nat.
Variables lvA lvB : lview.
Hypothesis HiA : nth_error lvsA i = Some lvA.
Hypothesis HiB : nth_error lvsB i = Some lvB.
Hypothesis Hrank : (length lvsA - i <= S n)%nat.

Lemma Hi_lt : (i < length lvsA)%nat.
Proof. apply nth_error_Some. rewrite HiA. discriminate. Qed.

Lemma solve_children_sim opt base deind : forall kids dA dB stA stB first lllA lllB accA accB,
  (forall k, In k kids -> (i < k)%nat) -> (length lvsA - i <= dA)%nat -> (length lvsA - i <= dB)%nat ->
  soundA stA -> soundB stB -> ksim accA accB ->
  soundA (fst (solve_children lvsA (solveA dA) stA opt base deind kids first lllA accA))
  /\ soundB (fst (solve_children lvsB (solveB dB) stB opt base deind kids first lllB accB))
  /\ option_map erase_kids (snd (solve_children lvsA (solveA dA) stA opt base deind kids first lllA accA))
     = option_map erase_kids (snd (solve_children lvsB (solveB dB) stB opt base deind kids first lllB accB)).
Proof.
  pose proof Hi_lt as Hlt.
  induction kids as [|k rest IHk]; intros dA dB stA stB first lllA lllB accA accB Hk HdA HdB HsA HsB Hacc; cbn [solve_children].
  - cbn [fst snd option_map]. split; [exact HsA|split; [exact HsB|]]. unfold ksim, erase_kids in *. f_equal. rewrite !map_rev. rewrite Hacc. reflexivity.
  - pose proof (Forall2_nth_error _ _ _ Hviews k) as Hv.
    destruct (nth_error lvsA k) as [lvA'|] eqn:EA; destruct (nth_error lvsB k) as [lvB'|] eqn:EB; try contradiction;
      [|cbn; split; [assumption|split; [assumption|reflexivity]]].
    destruct Hv as (_ & _ & Hlevel & _). rewrite Hlevel.
    assert (Hik : (i < k)%nat) by (apply Hk; left; reflexivity).
    set (fdA := match opt with CO_ContinueAll => FD_Continue lllA false | CO_BreakAll _ _ _ => FD_Break
                               | CO_ContinueThenBreak _ _ _ => if first then FD_Continue lllA true else FD_Break end).
    set (fdB := match opt with CO_ContinueAll => FD_Continue lllB false | CO_BreakAll _ _ _ => FD_Break
                               | CO_ContinueThenBreak _ _ _ => if first then FD_Continue lllB true else FD_Break end).
    assert (Hfd : fd_sim fdA fdB) by (subst fdA fdB; destruct opt; [reflexivity|exact I|destruct first; [reflexivity|exact I]]).
    destruct (IH k lvA' lvB' ltac:(lia) EA EB dA dB stA stB (fst base + lv_level lvB' - deind, snd base) fdA fdB ltac:(lia) ltac:(lia) HsA HsB Hfd)
      as (S1 & S2 & S3).
    destruct (solveA dA stA lvA' (fst base + lv_level lvB' - deind, snd base) fdA) as [stA1 rA].
    destruct (solveB dB stB lvB' (fst base + lv_level lvB' - deind, snd base) fdB) as [stB1 rB].
    cbn [fst snd] in *. unfold osim in S3.
    destruct rA as [sA|]; destruct rB as [sB|]; try discriminate; [|cbn; split; [assumption|split; [assumption|reflexivity]]].
    cbn [option_map] in S3. injection S3 as S3.
    apply IHk; try assumption; [intros k' H'; apply Hk; right; exact H'|].
    unfold ksim, erase_kids in *. cbn [map fst snd]. rewrite S3, Hacc. reflexivity.
Qed.

(* a cache entry of a sound state is what a fresh search returns (up to lengths), in either run *)
Lemma cls_step_sim gidx lc tllA tllB dA dB rA rB :
  In rA (lv_recs lvA) -> In rB (lv_recs lvB) -> tr_gidx rA = gidx -> tr_gidx rB = gidx -> tr_kids rA = Some lc -> tr_kids rB = Some lc ->
  (length lvsA - i <= dA)%nat -> (length lvsA - i <= dB)%nat ->
  forall opt accA accB, soundA (fst accA) -> soundB (fst accB) -> Forall2 ksim (snd accA) (snd accB) ->
  soundA (fst (cls_step lvsA (solveA dA) i gidx tllA (lch_lines lc) accA opt))
  /\ soundB (fst (cls_step lvsB (solveB dB) i gidx tllB (lch_lines lc) accB opt))
  /\ Forall2 ksim (snd (cls_step lvsA (solveA dA) i gidx tllA (lch_lines lc) accA opt))
                  (snd (cls_step lvsB (solveB dB) i gidx tllB (lch_lines lc) accB opt)).
Proof.
  intros HrA HrB HgA HgB HkA HkB HdA HdB opt [stA solsA] [stB solsB] HsA HsB Hsols. cbn [fst snd] in HsA, HsB, Hsols.
  assert (Hkids : forall k, In k (lch_lines lc) -> (i < k)%nat).
  { intros k Hk. destruct (HwfA i lvA HiA) as (_ & Hrl). rewrite Forall_forall in Hrl. exact (Hrl rA HrA lc k HkA Hk). }
  (* what a lookup in a sound state gives: a witness search *)
  assert (WitA : forall v, cache_find (mkKey tllA i gidx opt) (ss_cache stA) = Some v ->
            exists st0 d v', soundA st0 /\ (length lvsA - i <= d)%nat
              /\ snd (solve_children lvsA (solveA d) st0 opt (fst (opt_base opt)) (snd (opt_base opt)) (lch_lines lc) true tllA []) = Some v'
              /\ erase_kids v' = erase_kids v).
  { intros v E. apply cache_find_in in E. destruct HsA as [stA HA]. destruct (HA _ _ E) as (st0 & d & lv0 & r0 & lc0 & v' & H1 & H2 & H3 & H4 & H5 & H6 & H7 & H8).
    cbn [k_line k_tok k_opt k_lll] in *. rewrite HiA in H2. injection H2 as <-.
    assert (lc0 = lc) by (pose proof (HfunA i lvA HiA r0 rA H3 HrA ltac:(congruence)) as Hf; congruence). subst lc0.
    exists st0, d, v'. split; [assumption|split; [assumption|split; assumption]]. }
  assert (WitB : forall v, cache_find (mkKey tllB i gidx opt) (ss_cache stB) = Some v ->
            exists st0 d v', soundB st0 /\ (length lvsA - i <= d)%nat
              /\ snd (solve_children lvsB (solveB d) st0 opt (fst (opt_base opt)) (snd (opt_base opt)) (lch_lines lc) true tllB []) = Some v'
              /\ erase_kids v' = erase_kids v).
  { intros v E. apply cache_find_in in E. destruct HsB as [stB HB]. destruct (HB _ _ E) as (st0 & d & lv0 & r0 & lc0 & v' & H1 & H2 & H3 & H4 & H5 & H6 & H7 & H8).
    cbn [k_line k_tok k_opt k_lll] in *. rewrite HiB in H2. injection H2 as <-.
    assert (lc0 = lc) by (pose proof (HfunB i lvB HiB r0 rB H3 HrB ltac:(congruence)) as Hf; congruence). subst lc0.
    exists st0, d, v'. rewrite Hlen. split; [assumption|split; [assumption|split; assumption]]. }
  (* a new entry keeps the state sound *)
  assert (AddA : forall st0 st1 v, soundA st0 -> soundA st1 ->
            solve_children lvsA (solveA dA) st0 opt (fst (opt_base opt)) (snd (opt_base opt)) (lch_lines lc) true tllA [] = (st1, Some v) ->
            soundA (sst_cache_add (mkKey tllA i gidx opt) v st1)).
  { intros st0 st1 v H0 H1 E. constructor. intros key v' [Hin|Hin].
    - injection Hin as <- <-. exists st0, dA, lvA, rA, lc, v. cbn [k_line k_tok k_opt k_lll]. rewrite E. split; [assumption|]. split; [assumption|]. split; [assumption|]. split; [assumption|]. split; [assumption|]. split; [assumption|split; reflexivity].
    - destruct H1 as [st1 H1]. exact (H1 key v' Hin). }
  assert (AddB : forall st0 st1 v, soundB st0 -> soundB st1 ->
            solve_children lvsB (solveB dB) st0 opt (fst (opt_base opt)) (snd (opt_base opt)) (lch_lines lc) true tllB [] = (st1, Some v) ->
            soundB (sst_cache_add (mkKey tllB i gidx opt) v st1)).
  { intros st0 st1 v H0 H1 E. constructor. intros key v' [Hin|Hin].
    - injection Hin as <- <-. exists st0, dB, lvB, rB, lc, v. cbn [k_line k_tok k_opt k_lll]. rewrite E, <- Hlen. split; [assumption|]. split; [assumption|]. split; [assumption|]. split; [assumption|]. split; [assumption|]. split; [assumption|split; reflexivity].
    - destruct H1 as [st1 H1]. exact (H1 key v' Hin). }
  unfold cls_step.
  destruct (cache_find (mkKey tllA i gidx opt) (ss_cache stA)) as [vA|] eqn:CA;
  destruct (cache_find (mkKey tllB i gidx opt) (ss_cache stB)) as [vB|] eqn:CB.
  - (* hit / hit *)
    destruct (WitA vA eq_refl) as (sa & da & vA' & Hsa & Hda & Ea & EvA). destruct (WitB vB eq_refl) as (sb & db & vB' & Hsb & Hdb & Eb & EvB).
    destruct (solve_children_sim opt (fst (opt_base opt)) (snd (opt_base opt)) (lch_lines lc) da db sa sb true tllA tllB [] [] Hkids Hda Hdb Hsa Hsb eq_refl) as (_ & _ & E).
    rewrite Ea, Eb in E. cbn [option_map] in E. injection E as E. cbn [fst snd]. split; [assumption|split; [assumption|]].
    apply Forall2_app; [exact Hsols|constructor; [unfold ksim; congruence|constructor]].
  - (* hit in A, fresh in B *)
    destruct (WitA vA eq_refl) as (sa & da & vA' & Hsa & Hda & Ea & EvA).
    destruct (solve_children_sim opt (fst (opt_base opt)) (snd (opt_base opt)) (lch_lines lc) da dB sa stB true tllA tllB [] [] Hkids Hda HdB Hsa HsB eq_refl) as (_ & S2 & E).
    rewrite Ea in E. destruct (solve_children lvsB (solveB dB) stB opt _ _ (lch_lines lc) true tllB []) as [stB1 resB] eqn:EB.
    cbn [fst snd option_map] in *. destruct resB as [vB|]; [|discriminate]. injection E as E.
    split; [exact HsA|split; [exact (AddB stB stB1 vB HsB S2 EB)|]]. apply Forall2_app; [exact Hsols|constructor; [unfold ksim; congruence|constructor]].
  - (* fresh in A, hit in B *)
    destruct (WitB vB eq_refl) as (sb & db & vB' & Hsb & Hdb & Eb & EvB).
    destruct (solve_children_sim opt (fst (opt_base opt)) (snd (opt_base opt)) (lch_lines lc) dA db stA sb true tllA tllB [] [] Hkids HdA Hdb HsA Hsb eq_refl) as (S1 & _ & E).
    rewrite Eb in E. destruct (solve_children lvsA (solveA dA) stA opt _ _ (lch_lines lc) true tllA []) as [stA1 resA] eqn:EA.
    cbn [fst snd option_map] in *. destruct resA as [vA|]; [|discriminate]. injection E as E.
    split; [exact (AddA stA stA1 vA HsA S1 EA)|split; [exact HsB|]]. apply Forall2_app; [exact Hsols|constructor; [unfold ksim; congruence|constructor]].
  - (* fresh in both *)
    destruct (solve_children_sim opt (fst (opt_base opt)) (snd (opt_base opt)) (lch_lines lc) dA dB stA stB true tllA tllB [] [] Hkids HdA HdB HsA HsB eq_refl) as (S1 & S2 & E).
    destruct (solve_children lvsA (solveA dA) stA opt _ _ (lch_lines lc) true tllA []) as [stA1 resA] eqn:EA.
    destruct (solve_children lvsB (solveB dB) stB opt _ _ (lch_lines lc) true tllB []) as [stB1 resB] eqn:EB.
    cbn [fst snd option_map] in *. destruct resA as [vA|]; destruct resB as [vB|]; try discriminate; [|split; [assumption|split; assumption]].
    injection E as E. split; [exact (AddA stA stA1 vA HsA S1 EA)|split; [exact (AddB stB stB1 vB HsB S2 EB)|]].
    apply Forall2_app; [exact Hsols|constructor; [exact E|constructor]].
Qed.

Lemma cls_options_sim stk d nli ws lc fcA fcB sc : view_sim fcA fcB ->
  cls_options (w_bbb WA) lvsA stk d nli ws lc fcA sc = cls_options (w_bbb WB) lvsB stk d nli ws lc fcB sc.
Proof.
  intros (_ & _ & _ & _ & Hrecs). unfold cls_options. rewrite Hbbb.
  assert (E1 : first_inv_must_break fcA = first_inv_must_break fcB).
  { unfold first_inv_must_break. destruct Hrecs as [|a b ra rb (_ & _ & _ & _ & Hinv & _) _]; [reflexivity|]. rewrite Hinv. reflexivity. }
  assert (E2 : first_tok_type fcA = first_tok_type fcB).
  { unfold first_tok_type. destruct Hrecs as [|a b ra rb (_ & Hty & _) _]; [reflexivity|]. exact Hty. }
  assert (E3 : forall l, existsb (fun k => match nth_error lvsA k with Some lv => lv_type lv IS LLT_CaseHeader | None => false end) l
                       = existsb (fun k => match nth_error lvsB k with Some lv => lv_type lv IS LLT_CaseHeader | None => false end) l).
  { induction l as [|k r IHl]; [reflexivity|]. cbn [existsb]. rewrite IHl. f_equal.
    pose proof (Forall2_nth_error _ _ _ Hviews k) as Hv. destruct (nth_error lvsA k), (nth_error lvsB k); try contradiction; [|reflexivity].
    destruct Hv as (_ & Hty & _). rewrite Hty. reflexivity. }
  rewrite E1, E2, E3. reflexivity.
Qed.

Lemma cls_sim rA rB gtoks tok_li ws decsA decsB d nli tllA tllB pc dA dB stA stB :
  rec_sim rA rB -> In rA (lv_recs lvA) -> In rB (lv_recs lvB) -> map erase_dec decsA = map erase_dec decsB ->
  (length lvsA - i <= dA)%nat -> (length lvsA - i <= dB)%nat -> soundA stA -> soundB stB ->
  soundA (fst (child_lines_solutions WA lvsA (solveA dA) stA i rA gtoks tok_li ws decsA d nli tllA pc))
  /\ soundB (fst (child_lines_solutions WB lvsB (solveB dB) stB i rB gtoks tok_li ws decsB d nli tllB pc))
  /\ Forall2 ksim (snd (child_lines_solutions WA lvsA (solveA dA) stA i rA gtoks tok_li ws decsA d nli tllA pc))
                   (snd (child_lines_solutions WB lvsB (solveB dB) stB i rB gtoks tok_li ws decsB d nli tllB pc)).
Proof.
  intros (Hg & _ & _ & _ & _ & Hstk & Hkids) HrA HrB Hdecs HdA HdB HsA HsB. rewrite !cls_unfold. rewrite Hkids, Hstk, Hg.
  destruct (tr_kids rB) as [lc|] eqn:EkB; [|cbn; split; [assumption|split; [assumption|constructor; [reflexivity|constructor]]]].
  rewrite (find_continuations_erase _ _ decsA decsB Hdecs).
  assert (Hfc : match (match lch_lines lc with k :: _ => nth_error lvsA k | [] => None end), (match lch_lines lc with k :: _ => nth_error lvsB k | [] => None end) with
                | Some a, Some b => view_sim a b | None, None => True | _, _ => False end).
  { destruct (lch_lines lc) as [|k r]; [exact I|]. exact (Forall2_nth_error _ _ _ Hviews k). }
  destruct (match lch_lines lc with k :: _ => nth_error lvsA k | [] => None end) as [fcA|];
  destruct (match lch_lines lc with k :: _ => nth_error lvsB k | [] => None end) as [fcB|]; try contradiction;
    [|cbn; split; [assumption|split; [assumption|constructor; [reflexivity|constructor]]]].
  rewrite (cls_options_sim (tr_stk rB) d nli ws lc fcA fcB _ Hfc).
  generalize (cls_options (w_bbb WB) lvsB (tr_stk rB) d nli ws lc fcB
               (match find_continuations (lch_parent_tok lc) (rev (firstn (N.to_nat tok_li) gtoks)) decsB with Some c => c | None => pc end)).
  intros options.
  assert (Hgen : forall accA accB, soundA (fst accA) -> soundB (fst accB) -> Forall2 ksim (snd accA) (snd accB) ->
            soundA (fst (fold_left (cls_step lvsA (solveA dA) i (tr_gidx rB) tllA (lch_lines lc)) options accA))
            /\ soundB (fst (fold_left (cls_step lvsB (solveB dB) i (tr_gidx rB) tllB (lch_lines lc)) options accB))
            /\ Forall2 ksim (snd (fold_left (cls_step lvsA (solveA dA) i (tr_gidx rB) tllA (lch_lines lc)) options accA))
                             (snd (fold_left (cls_step lvsB (solveB dB) i (tr_gidx rB) tllB (lch_lines lc)) options accB))).
  { induction options as [|opt options IHo]; intros accA accB H1 H2 H3; cbn [fold_left]; [split; [assumption|split; assumption]|].
    destruct (cls_step_sim (tr_gidx rB) lc tllA tllB dA dB rA rB HrA HrB Hg eq_refl ltac:(congruence) EkB HdA HdB opt accA accB H1 H2 H3) as (S1 & S2 & S3).
    apply IHo; assumption. }
  apply Hgen; [exact HsA|exact HsB|constructor].
Qed.

(* ------------------------------------------------------------------ *)
(* nodes *)
Definition node_sim (a b : node) : Prop :=
  n_ws a = n_ws b /\ map erase_dec (n_decs a) = map erase_dec (n_decs b) /\ n_nli a = n_nli b /\ Forall2 rec_sim (n_rest a) (n_rest b)
  /\ n_data a = n_data b /\ n_pen a = n_pen b /\ incl (n_rest a) (lv_recs lvA) /\ incl (n_rest b) (lv_recs lvB).

Lemma node_sim_ord a a' b b' : node_sim a a' -> node_sim b b' -> node_gt a b = node_gt a' b'.
Proof. intros (_ & _ & H1 & _ & _ & H2 & _) (_ & _ & H3 & _ & _ & H4 & _). unfold node_gt. rewrite H1, H2, H3, H4. reflexivity. Qed.

Hypothesis HidxA : lv_idx lvA = i.
Hypothesis HidxB : lv_idx lvB = i.
Hypothesis Hlv : view_sim lvA lvB.
Variables dA dB : nat.
Hypothesis HdA : (length lvsA - i <= dA)%nat.
Hypothesis HdB : (length lvsA - i <= dB)%nat.

Notation potA := (potential_inf WA lvsA (solveA dA) lvA).
Notation potB := (potential_inf WB lvsB (solveB dB) lvB).

Lemma potential_inf_sim stA stB a b is_break : soundA stA -> soundB stB -> node_sim a b ->
  soundA (fst (potA stA a is_break)) /\ soundB (fst (potB stB b is_break)) /\ Forall2 node_sim (snd (potA stA a is_break)) (snd (potB stB b is_break)).
Proof.
  intros HsA HsB (Hws & Hdecs & Hnli & Hrest & Hdata & Hpen & HinA & HinB). unfold potential_inf.
  destruct Hrest as [|rA rB restA restB Hr Hrest']; [cbn; split; [assumption|split; [assumption|constructor]]|].
  pose proof Hr as (Hg & Hty & Hwin & Hfp & Hinv & Hstk & Hkids).
  destruct Hlv as (_ & Hlt & _ & Hgt & _).
  rewrite HidxA, HidxB, Hlt, Hwin, Hty, Hstk, Hdata, Hnli, Hws, Hgt, Hpen.
  set (d := update_contexts (lv_type lvB) (tr_win rB) (tr_ty rB) (tr_stk rB) (n_nli b) is_break (n_data b)).
  set (cc := get_continuation_count (tr_stk rB) d (n_nli b)).
  set (dec := if is_break then WBreak cc else WContinue).
  assert (HpenEq : decision_penalty_inf lvA rA (n_nli b) is_break = decision_penalty_inf lvB rB (n_nli b) is_break)
    by (unfold decision_penalty_inf; rewrite Hlt, Hfp, Hstk; reflexivity).
  rewrite HpenEq.
  destruct (cls_sim rA rB (lv_gtoks lvB) (n_nli b) (n_ws b) (n_decs a) (n_decs b) d (n_nli b)
              (token_line_length' WA (n_ws b) (n_decs a) dec rA) (token_line_length' WB (n_ws b) (n_decs b) dec rB) cc dA dB stA stB
              Hr (HinA rA (or_introl eq_refl)) (HinB rB (or_introl eq_refl)) Hdecs HdA HdB HsA HsB) as (S1 & S2 & S3).
  destruct (child_lines_solutions WA lvsA (solveA dA) stA i rA _ _ _ _ _ _ _ _) as [stA1 solsA].
  destruct (child_lines_solutions WB lvsB (solveB dB) stB i rB _ _ _ _ _ _ _ _) as [stB1 solsB].
  cbn [fst snd] in *. split; [exact S1|split; [exact S2|]].
  induction S3 as [|kA kB ra rb Hk Hr' IHs]; cbn [map]; constructor; [|exact IHs].
  unfold node_sim. cbn [n_ws n_decs n_nli n_rest n_data n_pen map].
  split; [reflexivity|]. split; [rewrite Hdecs; unfold erase_dec at 1 3; cbn [td_dec td_kids]; rewrite Hk; reflexivity|].
  split; [reflexivity|]. split; [exact Hrest'|]. split; [apply update_from_children_erase; exact Hk|].
  split; [apply erase_kids_pen; exact Hk|]. split; intros x Hx; [apply HinA|apply HinB]; right; exact Hx.
Qed.

Notation bothA := (both_inf WA lvsA (solveA dA) lvA).
Notation bothB := (both_inf WB lvsB (solveB dB) lvB).

Lemma both_inf_sim stA stB a b : soundA stA -> soundB stB -> node_sim a b ->
  soundA (fst (bothA stA a)) /\ soundB (fst (bothB stB b)) /\ Forall2 node_sim (snd (bothA stA a)) (snd (bothB stB b)).
Proof.
  intros HsA HsB Hn. unfold both_inf.
  destruct (potential_inf_sim stA stB a b true HsA HsB Hn) as (A1 & A2 & A3).
  destruct (potA stA a true) as [stA1 la]. destruct (potB stB b true) as [stB1 lb]. cbn [fst snd] in *.
  destruct (potential_inf_sim stA1 stB1 a b false A1 A2 Hn) as (B1 & B2 & B3).
  destruct (potA stA1 a false) as [stA2 la']. destruct (potB stB1 b false) as [stB2 lb']. cbn [fst snd] in *.
  split; [exact B1|split; [exact B2|apply Forall2_app; assumption]].
Qed.

Definition onode_sim (x y : option node) : Prop := match x, y with Some a, Some b => node_sim a b | None, None => True | _, _ => False end.
Definition res_sim (x y : walk_res) : Prop :=
  match x, y with
  | W_push a, W_push b => node_sim a b
  | W_extend la, W_extend lb => Forall2 node_sim la lb
  | W_dead, W_dead => True
  | W_fuel, W_fuel => True
  | _, _ => False
  end.
Definition step_sim (x y : wstep) : Prop :=
  match x, y with
  | WS_stop ra, WS_stop rb => res_sim ra rb
  | WS_forward a ia, WS_forward b ib => node_sim a b /\ onode_sim ia ib
  | WS_restart a, WS_restart b => node_sim a b
  | _, _ => False
  end.

Lemma finish_sim la lb : Forall2 node_sim la lb -> step_sim (finish la) (finish lb).
Proof.
  intros H. unfold finish. destruct H as [|a b ra rb Hab Hr]; [exact (Forall2_nil _)|].
  destruct Hr as [|a2 b2 ra2 rb2 Hab2 Hr2]; [exact Hab|]. cbn. constructor; [exact Hab|constructor; assumption].
Qed.

Lemma kept_sim li la lb : Forall2 node_sim la lb -> forall best ka kb, Forall2 node_sim ka kb ->
  let F := fun (acc : list N * list node) (n : node) =>
             if n_pen n <? best_at (fst acc) li then (upd_at li (fun _ => n_pen n) (fst acc), snd acc ++ [n]) else acc in
  fst (fold_left F la (best, ka)) = fst (fold_left F lb (best, kb)) /\ Forall2 node_sim (snd (fold_left F la (best, ka))) (snd (fold_left F lb (best, kb))).
Proof.
  induction 1 as [|a b ra rb Hab Hr IHl]; intros best ka kb Hk; cbn [fold_left fst snd]; [split; [reflexivity|exact Hk]|].
  pose proof Hab as (H1 & H2 & H3 & H4 & H5 & Hpen & H7). rewrite Hpen. destruct (n_pen b <? best_at best li).
  - apply IHl. apply Forall2_app; [exact Hk|constructor; [exact Hab|constructor]].
  - apply IHl. exact Hk.
Qed.

Notation wsA := (walk_step_inf WA lvsA (solveA dA) lvA).
Notation wsB := (walk_step_inf WB lvsB (solveB dB) lvB).

Lemma walk_step_inf_sim a b ia ib best stA stB : soundA stA -> soundB stB -> node_sim a b -> onode_sim ia ib ->
  soundA (snd (wsA a ia best stA)) /\ soundB (snd (wsB b ib best stB))
  /\ snd (fst (wsA a ia best stA)) = snd (fst (wsB b ib best stB))
  /\ step_sim (fst (fst (wsA a ia best stA))) (fst (fst (wsB b ib best stB))).
Proof.
  intros HsA HsB Hn Hi. pose proof Hn as (Hws & Hdecs & Hnli & Hrest & Hdata & Hpen & HinA & HinB). unfold walk_step_inf.
  destruct (n_rest a) as [|rA restA] eqn:ErA; destruct (n_rest b) as [|rB restB] eqn:ErB; try (inversion Hrest; fail).
  { cbn. split; [assumption|split; [assumption|split; [reflexivity|exact Hn]]]. }
  assert (Hr : rec_sim rA rB) by (inversion Hrest; assumption).
  destruct Hr as (Hg & Hty & Hwin & Hfp & Hinv & Hstk & Hkids). destruct Hlv as (_ & Hlt & _).
  rewrite Hlt, Hwin, Hty, Hinv, Hstk, Hdata, Hnli.
  assert (Hafter : forall la lb ia' ib' sa sb, soundA sa -> soundB sb -> Forall2 node_sim la lb -> onode_sim ia' ib' ->
            let xa := match la with
                      | [n] => (WS_forward n ia', best, sa)
                      | _ => match ia' with
                             | Some ind => let (st, more) := bothA sa ind in (finish (la ++ more), best, st)
                             | None => (finish la, best, sa)
                             end
                      end in
            let xb := match lb with
                      | [n] => (WS_forward n ib', best, sb)
                      | _ => match ib' with
                             | Some ind => let (st, more) := bothB sb ind in (finish (lb ++ more), best, st)
                             | None => (finish lb, best, sb)
                             end
                      end in
            soundA (snd xa) /\ soundB (snd xb) /\ snd (fst xa) = snd (fst xb) /\ step_sim (fst (fst xa)) (fst (fst xb))).
  { intros la lb ia' ib' sa sb Ha Hb Hl Hi'.
    assert (Hgen : let xa := match ia' with
                             | Some ind => let (st, more) := bothA sa ind in (finish (la ++ more), best, st)
                             | None => (finish la, best, sa)
                             end in
                   let xb := match ib' with
                             | Some ind => let (st, more) := bothB sb ind in (finish (lb ++ more), best, st)
                             | None => (finish lb, best, sb)
                             end in
                   soundA (snd xa) /\ soundB (snd xb) /\ snd (fst xa) = snd (fst xb) /\ step_sim (fst (fst xa)) (fst (fst xb))).
    { destruct ia' as [inda|]; destruct ib' as [indb|]; try contradiction.
      - destruct (both_inf_sim sa sb inda indb Ha Hb Hi') as (B1 & B2 & B3).
        destruct (bothA sa inda) as [sa' ma]. destruct (bothB sb indb) as [sb' mb]. cbn [fst snd] in *.
        split; [exact B1|split; [exact B2|split; [reflexivity|apply finish_sim; apply Forall2_app; assumption]]].
      - cbn [fst snd]. split; [exact Ha|split; [exact Hb|split; [reflexivity|apply finish_sim; exact Hl]]]. }
    destruct Hl as [|x y ra rb Hxy Hr']; [exact Hgen|]. destruct Hr' as [|x2 y2 ra2 rb2 Hxy2 Hr2]; [|exact Hgen].
    cbn [fst snd]. split; [exact Ha|split; [exact Hb|split; [reflexivity|split; [exact Hxy|exact Hi']]]]. }
  destruct (get_formatting_requirement (lv_type lvB) (tr_win rB) (tr_ty rB) (tr_inv rB) (tr_stk rB) (n_data b) (n_nli b)).
  - (* Indifferent *)
    destruct (potential_inf_sim stA stB a b false HsA HsB Hn) as (P1 & P2 & P3).
    destruct (potA stA a false) as [sa la]. destruct (potB stB b false) as [sb lb]. cbn [fst snd] in *.
    apply Hafter; try assumption. destruct ia as [x|]; destruct ib as [y|]; try contradiction; [exact Hi|exact Hn].
  - (* Invalid *)
    destruct ia as [inda|]; destruct ib as [indb|]; try contradiction; [|cbn; split; [assumption|split; [assumption|split; [reflexivity|exact I]]]].
    destruct (both_inf_sim stA stB inda indb HsA HsB Hi) as (B1 & B2 & B3).
    destruct (bothA stA inda) as [sa la]. destruct (bothB stB indb) as [sb lb]. cbn [fst snd] in *.
    split; [exact B1|split; [exact B2|split; [reflexivity|apply finish_sim; exact B3]]].
  - (* MustBreak *)
    destruct (potential_inf_sim stA stB a b true HsA HsB Hn) as (P1 & P2 & P3).
    destruct (potA stA a true) as [sa la]. destruct (potB stB b true) as [sb lb]. cbn [fst snd] in *.
    destruct (kept_sim (N.to_nat (n_nli b)) la lb P3 best [] [] (Forall2_nil _)) as (K1 & K2).
    destruct (fold_left _ la (best, [])) as [bestA keptA]. destruct (fold_left _ lb (best, [])) as [bestB keptB]. cbn [fst snd] in *.
    split; [exact P1|split; [exact P2|split; [exact K1|apply finish_sim; exact K2]]].
  - (* MustNotBreak *)
    destruct (potential_inf_sim stA stB a b false HsA HsB Hn) as (P1 & P2 & P3).
    destruct (potA stA a false) as [sa la]. destruct (potB stB b false) as [sb lb]. cbn [fst snd] in *.
    apply Hafter; assumption.
Qed.

Notation walkA := (walk_inf WA lvsA (solveA dA) lvA).
Notation walkB := (walk_inf WB lvsB (solveB dB) lvB).

Lemma node_sim_len a b : node_sim a b -> length (n_rest a) = length (n_rest b).
Proof. intros (_ & _ & _ & H & _). exact (Forall2_len _ _ _ H). Qed.

Lemma walk_inf_sim : forall f1 f2 a b ia ib best stA stB, soundA stA -> soundB stB -> node_sim a b -> onode_sim ia ib ->
  soundA (snd (walkA f1 f2 a ia best stA)) /\ soundB (snd (walkB f1 f2 b ib best stB))
  /\ snd (fst (walkA f1 f2 a ia best stA)) = snd (fst (walkB f1 f2 b ib best stB))
  /\ res_sim (fst (fst (walkA f1 f2 a ia best stA))) (fst (fst (walkB f1 f2 b ib best stB))).
Proof.
  induction f1 as [|f1 IH1]; induction f2 as [|f2 IH2]; intros a b ia ib best stA stB HsA HsB Hn Hi;
    try (cbn; split; [assumption|split; [assumption|split; [reflexivity|exact I]]]).
  - cbn [walk_inf]. destruct (walk_step_inf_sim a b ia ib best stA stB HsA HsB Hn Hi) as (S1 & S2 & S3 & S4).
    destruct (wsA a ia best stA) as [[sa ba] sta]. destruct (wsB b ib best stB) as [[sb bb] stb]. cbn [fst snd] in *. subst bb.
    destruct sa as [ra|na ia'|na]; destruct sb as [rb|nb ib'|nb]; try contradiction; cbn [fst snd].
    + split; [assumption|split; [assumption|split; [reflexivity|exact S4]]].
    + destruct S4 as (Hn' & Hi'). apply IH2; assumption.
    + split; [assumption|split; [assumption|split; [reflexivity|exact I]]].
  - cbn [walk_inf]. destruct (walk_step_inf_sim a b ia ib best stA stB HsA HsB Hn Hi) as (S1 & S2 & S3 & S4).
    destruct (wsA a ia best stA) as [[sa ba] sta]. destruct (wsB b ib best stB) as [[sb bb] stb]. cbn [fst snd] in *. subst bb.
    destruct sa as [ra|na ia'|na]; destruct sb as [rb|nb ib'|nb]; try contradiction; cbn [fst snd].
    + split; [assumption|split; [assumption|split; [reflexivity|exact S4]]].
    + destruct S4 as (Hn' & Hi'). apply IH2; assumption.
    + rewrite (node_sim_len na nb S4). apply IH1; [assumption|assumption|exact S4|exact I].
Qed.

Definition sres_sim (x y : sres) : Prop :=
  match x, y with
  | SR_ok a, SR_ok b => erase a = erase b
  | SR_none, SR_none | SR_limit, SR_limit | SR_fuel, SR_fuel => True
  | _, _ => False
  end.

Lemma solution_of_node_sim a b : node_sim a b -> erase (solution_of_node a) = erase (solution_of_node b).
Proof.
  intros (Hws & Hdecs & _ & _ & _ & Hpen & _). unfold solution_of_node. rewrite !erase_eq, !map_rev, Hdecs, Hws, Hpen. reflexivity.
Qed.

Notation mlA := (main_loop_inf WA lvsA (solveA dA) lvA).
Notation mlB := (main_loop_inf WB lvsB (solveB dB) lvB).

Lemma main_loop_inf_sim : forall fuel hA hB iter best stA stB, soundA stA -> soundB stB -> heap_rel node_sim hA hB ->
  soundA (fst (mlA fuel hA iter best stA)) /\ soundB (fst (mlB fuel hB iter best stB))
  /\ sres_sim (snd (mlA fuel hA iter best stA)) (snd (mlB fuel hB iter best stB)).
Proof.
  induction fuel as [|f IHf]; intros hA hB iter best stA stB HsA HsB Hh; cbn [main_loop_inf].
  - cbn [fst snd]. split; [eapply sound_same_cache; [|exact HsA]; reflexivity|split; [eapply sound_same_cache; [|exact HsB]; reflexivity|exact I]].
  - pose proof (heap_pop_rel node_sim node_sim_ord hA hB Hh) as Hp.
    destruct (heap_pop hA) as [[a hA']|]; destruct (heap_pop hB) as [[b hB']|]; cbn [pop_rel] in Hp; try contradiction.
    2:{ cbn [fst snd]. split; [eapply sound_same_cache; [|exact HsA]; reflexivity|split; [eapply sound_same_cache; [|exact HsB]; reflexivity|exact I]]. }
    destruct Hp as (Hn & Hh'). rewrite Hiter.
    destruct (w_iter WB <? iter).
    { cbn [fst snd]. split; [eapply sound_same_cache; [|exact HsA]; reflexivity|split; [eapply sound_same_cache; [|exact HsB]; reflexivity|exact I]]. }
    pose proof Hn as (Hws & Hdecs & Hnli & Hrest & Hdata & Hpen & HinA & HinB).
    destruct (n_rest a) as [|rA restA] eqn:ErA; destruct (n_rest b) as [|rB restB] eqn:ErB; try (inversion Hrest; fail).
    { cbn [fst snd]. split; [eapply sound_same_cache; [|exact HsA]; reflexivity|split; [eapply sound_same_cache; [|exact HsB]; reflexivity|]].
      apply solution_of_node_sim. exact Hn. }
    rewrite Hnli, Hpen. destruct (best_at best (N.to_nat (N.pred (n_nli b))) <? n_pen b); [apply IHf; assumption|].
    assert (Hl : length (rA :: restA) = length (rB :: restB)) by (rewrite <- ErA, <- ErB; apply node_sim_len; exact Hn).
    rewrite Hl.
    destruct (walk_inf_sim (S (length (rB :: restB))) (S (length (rB :: restB))) a b None None best stA stB HsA HsB Hn I) as (W1 & W2 & W3 & W4).
    destruct (walkA (S (length (rB :: restB))) (S (length (rB :: restB))) a None best stA) as [[ra ba] sa].
    destruct (walkB (S (length (rB :: restB))) (S (length (rB :: restB))) b None best stB) as [[rb bb] sb].
    cbn [fst snd] in *. subst bb.
    destruct ra as [na|la| |]; destruct rb as [nb|lb| |]; try contradiction.
    + apply IHf; try assumption. apply heap_push_rel; [exact node_sim_ord|exact Hh'|exact W4].
    + apply IHf; try assumption. apply heap_extend_rel; [exact node_sim_ord|exact W4|exact Hh'].
    + apply IHf; assumption.
    + cbn [fst snd]. split; [eapply sound_same_cache; [|exact W1]; reflexivity|split; [eapply sound_same_cache; [|exact W2]; reflexivity|exact I]].
Qed.

Lemma fos_inf_sim stA stB ws fdA fdB : soundA stA -> soundB stB -> fd_sim fdA fdB ->
  soundA (fst (find_optimal_solution_inf WA lvsA fm (solveA dA) lvA stA ws fdA))
  /\ soundB (fst (find_optimal_solution_inf WB lvsB fm (solveB dB) lvB stB ws fdB))
  /\ sres_sim (snd (find_optimal_solution_inf WA lvsA fm (solveA dA) lvA stA ws fdA))
               (snd (find_optimal_solution_inf WB lvsB fm (solveB dB) lvB stB ws fdB)).
Proof.
  intros HsA HsB Hfd. unfold find_optimal_solution_inf. pose proof Hlv as (_ & Hlt & _ & _ & Hrecs).
  destruct (lv_recs lvA) as [|rA restA] eqn:ErA; destruct (lv_recs lvB) as [|rB restB] eqn:ErB; try (inversion Hrecs; fail).
  { cbn [fst snd]. split; [assumption|split; [assumption|reflexivity]]. }
  assert (Hr : rec_sim rA rB) by (inversion Hrecs; assumption).
  assert (Hrest : Forall2 rec_sim restA restB) by (inversion Hrecs; assumption).
  pose proof Hr as (Hg & Hty & Hwin & Hfp & Hinv & Hstk & Hkids).
  rewrite Hinv.
  (* the first decision: same kind, same can_break *)
  set (fbA := match fdA with FD_Break => _ | FD_Continue line_length can_break => _ end).
  set (fbB := match fdB with FD_Break => _ | FD_Continue line_length can_break => _ end).
  assert (Hfb : fst (fst fbA) = fst (fst fbB) /\ snd fbA = snd fbB).
  { subst fbA fbB. destruct fdA as [|la ca]; destruct fdB as [|lb cb]; try contradiction; cbn [fd_sim] in Hfd.
    - destruct (bid _); split; reflexivity.
    - subst cb. split; reflexivity. }
  destruct fbA as [[ibA lllA] bcbA]. destruct fbB as [[ibB lllB] bcbB]. cbn [fst snd] in Hfb. destruct Hfb as (<- & <-).
  destruct (bid _ && negb ibA); [cbn [fst snd]; split; [assumption|split; [assumption|exact I]]|].
  assert (HpenEq : decision_penalty_inf lvA rA 0 ibA = decision_penalty_inf lvB rB 0 ibA)
    by (unfold decision_penalty_inf; rewrite Hlt, Hfp, Hstk; reflexivity).
  rewrite HpenEq, HidxA, HidxB.
  destruct (cls_sim rA rB [] 0 ws [TDec (if ibA then WBreak 0 else WContinue) lllA []] [TDec (if ibA then WBreak 0 else WContinue) lllB []]
              (dt_upd 1 (fun s => mkSt (s_broken s) bcbA (s_child s) (s_oepl s) (s_bar s)) PLeaf) 1 lllA lllB 0 dA dB stA stB
              Hr ltac:(rewrite ErA; left; reflexivity) ltac:(rewrite ErB; left; reflexivity) eq_refl HdA HdB HsA HsB) as (S1 & S2 & S3).
  destruct (child_lines_solutions WA lvsA (solveA dA) stA i rA _ _ _ _ _ _ _ _) as [stA1 solsA].
  destruct (child_lines_solutions WB lvsB (solveB dB) stB i rB _ _ _ _ _ _ _ _) as [stB1 solsB].
  cbn [fst snd] in *.
  assert (Hlast : ksim (match last_opt' solsA with Some k => k | None => [] end) (match last_opt' solsB with Some k => k | None => [] end)).
  { unfold last_opt'. assert (Hrev : Forall2 ksim (rev solsA) (rev solsB)).
    { clear -S3. induction S3 as [|x y ra rb Hxy Hr IHr]; [constructor|]. cbn [rev]. apply Forall2_app; [exact IHr|constructor; [exact Hxy|constructor]]. }
    destruct Hrev; [reflexivity|assumption]. }
  cbn [length]. rewrite (Forall2_len _ _ _ Hrest).
  apply main_loop_inf_sim; [exact S1|exact S2|].
  apply heap_extend_rel; [exact node_sim_ord| |apply heap_empty_rel].
  assert (Hnd : node_sim (mkNode ws [TDec (if ibA then WBreak 0 else WContinue) lllA (match last_opt' solsA with Some k => k | None => [] end)] 1 restA
                                 (dt_upd 1 (fun s => mkSt (s_broken s) bcbA (s_child s) (s_oepl s) (s_bar s)) PLeaf) (decision_penalty_inf lvB rB 0 ibA))
                         (mkNode ws [TDec (if ibA then WBreak 0 else WContinue) lllB (match last_opt' solsB with Some k => k | None => [] end)] 1 restB
                                 (dt_upd 1 (fun s => mkSt (s_broken s) bcbA (s_child s) (s_oepl s) (s_bar s)) PLeaf) (decision_penalty_inf lvB rB 0 ibA))).
  { unfold node_sim. cbn [n_ws n_decs n_nli n_rest n_data n_pen map]. split; [reflexivity|]. split; [unfold erase_dec; cbn [td_dec td_kids]; rewrite Hlast; reflexivity|].
    split; [reflexivity|]. split; [exact Hrest|]. split; [reflexivity|]. split; [reflexivity|].
    split; intros x Hx; [rewrite ErA|rewrite ErB]; right; exact Hx. }
  revert Hnd. generalize (match last_opt' solsA with Some k => k | None => [] end) (match last_opt' solsB with Some k => k | None => [] end).
  intros kA kB Hnd. clear -S3 Hnd. induction S3; cbn [map]; [apply Forall2_nil|apply Forall2_cons; assumption].
Qed.
End Line.

Theorem S_all : forall n, S_at n.
Proof.
  induction n as [|n IHn]; intros i lvA lvB Hr HiA HiB dA dB stA stB ws fdA fdB HdA HdB HsA HsB Hfd.
  - assert (i < length lvsA)%nat by (apply nth_error_Some; rewrite HiA; discriminate). lia.
  - destruct dA as [|dA]; [lia|]. destruct dB as [|dB]; [lia|]. cbn [solve_inf].
    pose proof (Forall2_nth_error _ _ _ Hviews i) as Hv. rewrite HiA, HiB in Hv.
    destruct (fos_inf_sim n IHn i lvA lvB HiA HiB Hr (proj1 (HwfA i lvA HiA)) (proj1 (HwfB i lvB HiB)) Hv dA dB ltac:(lia) ltac:(lia) stA stB ws fdA fdB HsA HsB Hfd)
      as (F1 & F2 & F3).
    destruct (find_optimal_solution_inf WA lvsA fm (solveA dA) lvA stA ws fdA) as [sa ra].
    destruct (find_optimal_solution_inf WB lvsB fm (solveB dB) lvB stB ws fdB) as [sb rb].
    cbn [fst snd] in *. split; [exact F1|split; [exact F2|]]. unfold osim.
    destruct ra, rb; cbn [sres_sim] in F3; try contradiction; try reflexivity. cbn [option_map]. rewrite F3. reflexivity.
Qed.
End Sim.

(* the width-free search does not depend on lengths: from sound states, with sufficient depth fuel, the two runs
   return the same solution up to the recorded lengths (same decisions, same continuation counts, same penalty, same
   child solutions), or both none *)
Theorem solve_inf_sim WA WB lvsA lvsB fm :
  w_iter WA = w_iter WB -> w_bbb WA = w_bbb WB ->
  Forall2 view_sim lvsA lvsB -> views_wf lvsA -> views_wf lvsB ->
  (forall k lv, nth_error lvsA k = Some lv -> view_fun lv) -> (forall k lv, nth_error lvsB k = Some lv -> view_fun lv) ->
  forall i lvA lvB dA dB stA stB ws fdA fdB,
    nth_error lvsA i = Some lvA -> nth_error lvsB i = Some lvB ->
    (length lvsA - i < dA)%nat -> (length lvsA - i < dB)%nat ->
    sound WA lvsA fm stA -> sound WB lvsB fm stB -> fd_sim fdA fdB ->
    sound WA lvsA fm (fst (solve_inf WA lvsA fm dA stA lvA ws fdA)) /\ sound WB lvsB fm (fst (solve_inf WB lvsB fm dB stB lvB ws fdB))
    /\ option_map erase (snd (solve_inf WA lvsA fm dA stA lvA ws fdA)) = option_map erase (snd (solve_inf WB lvsB fm dB stB lvB ws fdB)).
Proof.
  intros H1 H2 H3 H4 H5 H6 H7 i lvA lvB dA dB stA stB ws fdA fdB HiA HiB HdA HdB HsA HsB Hfd.
  exact (S_all WA WB H1 H2 lvsA lvsB H3 H4 H5 H6 H7 fm (length lvsA - i) i lvA lvB (le_n _) HiA HiB dA dB stA stB ws fdA fdB HdA HdB HsA HsB Hfd).
Qed.


(* ------------------------------------------------------------------ *)
(* the views the model builds *)
From PasfmtVerif Require Import Proofs.WrapEventsProofs.

Lemma line_types_sim ttA ttB : (forall g, option_map ti_ty (ti_get ttA g) = option_map ti_ty (ti_get ttB g)) ->
  forall toks, line_types ttA toks = line_types ttB toks.
Proof.
  intros Hty. induction toks as [|g r IHt]; [reflexivity|]. cbn [line_types]. specialize (Hty g).
  destruct (ti_get ttA g), (ti_get ttB g); cbn [option_map] in Hty; try discriminate; [|reflexivity]. injection Hty as ->. rewrite IHt. reflexivity.
Qed.

Lemma mk_recs_sim ttA ttB kids li : (forall g, option_map ti_ty (ti_get ttA g) = option_map ti_ty (ti_get ttB g)) ->
  forall toks prevtok win stacks, Forall2 rec_sim (mk_recs ttA toks prevtok win stacks kids li) (mk_recs ttB toks prevtok win stacks kids li).
Proof.
  intros Hty. induction toks as [|g r IHt]; intros prevtok win stacks; cbn [mk_recs]; [constructor|].
  rewrite !(Hty g), !(Hty (g - 1)). constructor; [|apply IHt].
  unfold rec_sim. cbn [tr_gidx tr_ty tr_win tr_fprev tr_inv tr_stk tr_kids]. repeat split.
  destruct (assoc_find (li, g) kids) as [[[pt ls] dc]|]; [|reflexivity]. rewrite (Hty pt). reflexivity.
Qed.

Theorem mk_lviews_view_sim infosA infosB lines : map ti_ty infosA = map ti_ty infosB ->
  Forall2 view_sim (mk_lviews infosA lines) (mk_lviews infosB lines).
Proof.
  intros Hty. unfold mk_lviews.
  assert (Hg : forall g, option_map ti_ty (ti_get (ti_build infosA 0 PLeaf) g) = option_map ti_ty (ti_get (ti_build infosB 0 PLeaf) g)).
  { intros g. rewrite !ti_get_infos, <- !nth_error_map, Hty. reflexivity. }
  generalize (get_line_children (map iline_of lines)) 0%nat. intros kids.
  induction (map iline_of lines) as [|l r IHl]; intros i; [constructor|]. cbn [mk_lviews_from]. constructor; [|apply IHl].
  unfold view_sim, mk_lview. cbn [lv_idx lv_type lv_level lv_gtoks lv_recs]. repeat split.
  rewrite (line_types_sim _ _ Hg). apply mk_recs_sim. exact Hg.
Qed.

Lemma mk_recs_kids_fun tt kids li : forall toks prevtok win stacks r, In r (mk_recs tt toks prevtok win stacks kids li) ->
  tr_kids r = match assoc_find (li, tr_gidx r) kids with
              | Some (pt, ls, dc) => Some (mkLCh pt (option_map ti_ty (ti_get tt pt)) (rev ls) dc)
              | None => None
              end.
Proof.
  induction toks as [|g rest IHt]; intros prevtok win stacks r H; [destruct H|]. cbn [mk_recs] in H. destruct H as [<-|H]; [|exact (IHt _ _ _ r H)].
  cbn [tr_kids tr_gidx]. destruct (assoc_find (li, g) kids) as [[[pt ls] dc]|]; reflexivity.
Qed.

Theorem mk_lviews_fun infos lines : forall k lv, nth_error (mk_lviews infos lines) k = Some lv -> view_fun lv.
Proof.
  unfold mk_lviews. generalize (ti_build infos 0 PLeaf) (get_line_children (map iline_of lines)) 0%nat. intros tt kids.
  induction (map iline_of lines) as [|l r IHl]; intros i k lv H; [destruct k; discriminate|].
  cbn [mk_lviews_from] in H. destruct k as [|k]; cbn [nth_error] in H; [|exact (IHl (S i) k lv H)].
  injection H as <-. intros r1 r2 H1 H2 Hg. cbn [mk_lview lv_recs] in H1, H2.
  rewrite (mk_recs_kids_fun _ _ _ _ _ _ _ r1 H1), (mk_recs_kids_fun _ _ _ _ _ _ _ r2 H2), Hg. reflexivity.
Qed.

(* on the model's own views: same lines, same token types, any lengths, any indentation string lengths *)
Corollary solve_inf_sim_views WA WB infosA infosB lines fm :
  w_iter WA = w_iter WB -> w_bbb WA = w_bbb WB -> parents_ok lines = true -> map ti_ty infosA = map ti_ty infosB ->
  forall i lvA lvB dA dB stA stB ws fdA fdB,
    nth_error (mk_lviews infosA lines) i = Some lvA -> nth_error (mk_lviews infosB lines) i = Some lvB ->
    (length lines - i < dA)%nat -> (length lines - i < dB)%nat ->
    sound WA (mk_lviews infosA lines) fm stA -> sound WB (mk_lviews infosB lines) fm stB -> fd_sim fdA fdB ->
    sound WA (mk_lviews infosA lines) fm (fst (solve_inf WA (mk_lviews infosA lines) fm dA stA lvA ws fdA))
    /\ sound WB (mk_lviews infosB lines) fm (fst (solve_inf WB (mk_lviews infosB lines) fm dB stB lvB ws fdB))
    /\ option_map erase (snd (solve_inf WA (mk_lviews infosA lines) fm dA stA lvA ws fdA))
       = option_map erase (snd (solve_inf WB (mk_lviews infosB lines) fm dB stB lvB ws fdB)).
Proof.
  intros H1 H2 Hp Hty i lvA lvB dA dB stA stB ws fdA fdB HiA HiB HdA HdB HsA HsB Hfd.
  apply (solve_inf_sim WA WB _ _ fm H1 H2 (mk_lviews_view_sim _ _ lines Hty) (mk_lviews_wf infosA lines Hp) (mk_lviews_wf infosB lines Hp)
           (mk_lviews_fun infosA lines) (mk_lviews_fun infosB lines) i lvA lvB dA dB stA stB ws fdA fdB HiA HiB); try assumption;
    rewrite mk_lviews_length; assumption.
Qed.

Print Assumptions solve_inf_sim.
Print Assumptions solve_inf_sim_views.
