(* Proofs/LineConsolidatorsProofs.v — properties of Model/LineConsolidators.v
   (ConditionalDirectiveConsolidator and DeindentPackageDirectives). *)
From PasfmtVerif Require Import Model.LineConsolidators.
From Coq Require Import Arith.

Local Open Scope nat_scope.

(* ================================================================== *)
(* 0. list utilities *)

Lemma strictly_increasing_cons2 a b t :
  strictly_increasing (a :: b :: t) = Nat.ltb a b && strictly_increasing (b :: t).
Proof. reflexivity. Qed.

Lemma strictly_increasing_seq a n : strictly_increasing (seq a n) = true.
Proof.
  revert a; induction n as [|n IH]; intros a; [reflexivity|].
  destruct n as [|n]; [reflexivity|].
  change (seq a (S (S n))) with (a :: S a :: seq (S (S a)) n).
  rewrite strictly_increasing_cons2. apply andb_true_iff. split.
  - apply Nat.ltb_lt. lia.
  - exact (IH (S a)).
Qed.

Fixpoint nondecr_from (prev : nat) (l : list nat) : bool :=
  match l with [] => true | c :: r => Nat.leb prev c && nondecr_from c r end.

Definition nondecreasing (l : list nat) : bool :=
  match l with [] => true | a :: r => nondecr_from a r end.

Lemma strictly_increasing_nondecr a r :
  strictly_increasing (a :: r) = true -> nondecr_from a r = true.
Proof.
  revert a; induction r as [|b r IH]; intros a H; [reflexivity|].
  rewrite strictly_increasing_cons2 in H. apply andb_true_iff in H. destruct H as [Hab Hr].
  apply Nat.ltb_lt in Hab. cbn [nondecr_from]. apply andb_true_iff. split.
  - apply Nat.leb_le. lia.
  - apply IH. exact Hr.
Qed.

Lemma strictly_increasing_nondecreasing l : strictly_increasing l = true -> nondecreasing l = true.
Proof. destruct l as [|a r]; [reflexivity|]. apply strictly_increasing_nondecr. Qed.

Lemma nondecr_from_last prev l : nondecr_from prev l = true -> prev <= last l prev.
Proof.
  revert prev; induction l as [|c r IH]; intros prev H; [simpl; lia|].
  cbn [nondecr_from] in H. apply andb_true_iff in H. destruct H as [Hpc Hr]. apply Nat.leb_le in Hpc.
  specialize (IH c Hr).
  destruct r as [|c' r']; [simpl; lia|].
  change (last (c :: c' :: r') prev) with (last (c' :: r') prev).
  assert (Hl : forall d, last (c' :: r') d = last (c' :: r') c).
  { clear. revert c'. induction r' as [|x r' IH]; intros c' d; [reflexivity|].
    change (last (c' :: x :: r') d) with (last (x :: r') d).
    change (last (c' :: x :: r') c) with (last (x :: r') c). apply IH. }
  rewrite (Hl prev). lia.
Qed.

Lemma last_cons_default (c : nat) r d d' : last (c :: r) d = last (c :: r) d'.
Proof.
  revert c; induction r as [|x r IH]; intros c; [reflexivity|].
  change (last (c :: x :: r) d) with (last (x :: r) d).
  change (last (c :: x :: r) d') with (last (x :: r) d'). apply IH.
Qed.

Lemma last_cons_eq (c : nat) r d : last (c :: r) d = last r c.
Proof.
  destruct r as [|x r]; [reflexivity|].
  change (last (c :: x :: r) d) with (last (x :: r) d). apply last_cons_default.
Qed.

Lemma last_app_cons (a : list nat) c r d : last (a ++ c :: r) d = last r c.
Proof.
  induction a as [|x a IH]; [apply last_cons_eq|].
  simpl app. destruct (a ++ c :: r) eqn:E; [destruct a; discriminate|].
  change (last (x :: n :: l) d) with (last (n :: l) d). exact IH.
Qed.

(* ================================================================== *)
(* 1. gap_step *)

Section Expand.
Variable tys : list TokenType.

Definition added_ok (t : nat) : bool := is_cond_directive_at tys t || is_allowed_token tys t.

Lemma cond_kind_at_dir i k : cond_kind_at tys i = Some k -> is_cond_directive_at tys i = true.
Proof. unfold is_cond_directive_at. intros ->. reflexivity. Qed.

Lemma is_cond_directive_at_lt i : is_cond_directive_at tys i = true -> i < length tys.
Proof.
  unfold is_cond_directive_at, cond_kind_at. destruct (nth_error tys i) eqn:E; [|discriminate].
  intros _. apply nth_error_Some. congruence.
Qed.

Lemma is_allowed_token_lt i : is_allowed_token tys i = true -> i < length tys.
Proof.
  unfold is_allowed_token. destruct (nth_error tys i) eqn:E; [|discriminate].
  intros _. apply nth_error_Some. congruence.
Qed.

Lemma added_ok_lt t : added_ok t = true -> t < length tys.
Proof.
  unfold added_ok. intros H. apply orb_true_iff in H. destruct H as [H|H].
  - apply is_cond_directive_at_lt; exact H.
  - apply is_allowed_token_lt; exact H.
Qed.

Lemma gap_step_nogap st prev cur : cur <= S prev -> gap_step tys st prev cur = Some (st, [], []).
Proof.
  intros H. unfold gap_step. destruct (Nat.ltb (S prev) cur) eqn:E; [|reflexivity].
  apply Nat.ltb_lt in E. lia.
Qed.

Lemma gap_step_spec st prev cur st' gtoks gdirs :
  gap_step tys st prev cur = Some (st', gtoks, gdirs) ->
  gtoks = seq (S prev) (cur - S prev)
  /\ (forall t, In t gtoks -> added_ok t = true)
  /\ (forall d, In d gdirs -> In d gtoks /\ is_cond_directive_at tys d = true)
  /\ (gdirs = [] -> cur <= S prev).
Proof.
  unfold gap_step. destruct (Nat.ltb (S prev) cur) eqn:Egap.
  2:{ intros H. injection H as _ <- <-. apply Nat.ltb_ge in Egap.
      replace (cur - S prev) with 0 by lia.
      split; [reflexivity|]. split; [intros t []|]. split; [intros d []|]. intros _; lia. }
  apply Nat.ltb_lt in Egap.
  destruct (cond_kind_at tys (S prev)) as [bk|] eqn:Eb; [|discriminate].
  destruct (cond_kind_at tys (cur - 1)) as [ek|] eqn:Ee; [|discriminate].
  pose proof (cond_kind_at_dir _ _ Eb) as Hb. pose proof (cond_kind_at_dir _ _ Ee) as He.
  destruct (Nat.eqb (S prev) (cur - 1)) eqn:Esingle.
  - destruct (gap_transition st bk ek true) as [st2|]; [|discriminate].
    apply Nat.eqb_eq in Esingle.
    replace (cur - 1 - S (S prev)) with 0 by lia. replace (cur - S prev) with 1 by lia.
    cbn [seq app forallb].
    intros H. injection H as _ <- <-.
    split; [reflexivity|]. split; [|split].
    + intros t [<-|[]]. unfold added_ok. rewrite Hb. reflexivity.
    + intros d [<-|[]]. split; [left; reflexivity|exact Hb].
    + discriminate.
  - destruct (gap_transition st bk ek false) as [st2|]; [|discriminate].
    apply Nat.eqb_neq in Esingle.
    set (k := cur - 1 - S (S prev)) in *.
    assert (Hge : cur - 1 = S (S prev) + k) by (unfold k; lia).
    destruct (forallb (is_allowed_token tys) (seq (S (S prev)) k)) eqn:Einner; [|discriminate].
    rewrite forallb_forall in Einner.
    intros H. injection H as _ <- <-.
    split; [|split; [|split]].
    + replace (cur - S prev) with (S (S k)) by (unfold k; lia).
      rewrite (seq_S (S k) (S prev)). cbn [seq app]. rewrite Hge.
      replace (S prev + S k) with (S (S prev) + k) by lia. reflexivity.
    + intros t [<-|Ht].
      * unfold added_ok. rewrite Hb. reflexivity.
      * apply in_app_or in Ht. destruct Ht as [Ht|[<-|[]]].
        -- unfold added_ok. rewrite (Einner _ Ht). apply orb_true_r.
        -- unfold added_ok. rewrite He. reflexivity.
    + intros d [<-|[<-|[]]].
      * split; [left; reflexivity|exact Hb].
      * split; [|exact He]. right. apply in_or_app. right. left. reflexivity.
    + discriminate.
Qed.

(* ================================================================== *)
(* 2. expand_go: the tokens it produces are the "gap filling" of the input *)

Fixpoint fill (prev : nat) (rest : list nat) : list nat :=
  match rest with
  | [] => []
  | cur :: r => seq (S prev) (cur - S prev) ++ cur :: fill cur r
  end.

Fixpoint nogap_chain (prev : nat) (l : list nat) : bool :=
  match l with [] => true | c :: r => Nat.leb c (S prev) && nogap_chain c r end.

Lemma fill_incl prev rest : incl rest (fill prev rest).
Proof.
  revert prev; induction rest as [|c r IH]; intros prev t Ht; [destruct Ht|].
  cbn [fill]. apply in_or_app. right. destruct Ht as [<-|Ht]; [left; reflexivity|].
  right. apply IH. exact Ht.
Qed.

Lemma fill_last prev rest : last (fill prev rest) prev = last rest prev.
Proof.
  revert prev; induction rest as [|c r IH]; intros prev; [reflexivity|].
  cbn [fill]. rewrite last_app_cons, last_cons_eq. apply IH.
Qed.

Lemma fill_in prev rest t :
  nondecr_from prev rest = true -> In t (fill prev rest) ->
  In t rest \/ (prev < t < last rest prev).
Proof.
  revert prev; induction rest as [|c r IH]; intros prev Hnd Ht; [destruct Ht|].
  cbn [nondecr_from] in Hnd. apply andb_true_iff in Hnd. destruct Hnd as [Hpc Hr].
  apply Nat.leb_le in Hpc. pose proof (nondecr_from_last _ _ Hr) as Hlast.
  rewrite last_cons_eq.
  cbn [fill] in Ht. apply in_app_or in Ht. destruct Ht as [Ht|[<-|Ht]].
  - apply in_seq in Ht. right. lia.
  - left. left. reflexivity.
  - destruct (IH c Hr Ht) as [H|H]; [left; right; exact H|right; lia].
Qed.

Lemma fill_strict prev rest :
  strictly_increasing (prev :: rest) = true ->
  prev :: fill prev rest = seq prev (last rest prev - prev + 1).
Proof.
  revert prev; induction rest as [|c r IH]; intros prev H.
  - simpl last. replace (prev - prev + 1) with 1 by lia. reflexivity.
  - rewrite strictly_increasing_cons2 in H. apply andb_true_iff in H. destruct H as [Hpc Hr].
    apply Nat.ltb_lt in Hpc.
    pose proof (nondecr_from_last _ _ (strictly_increasing_nondecr _ _ Hr)) as Hlast.
    rewrite last_cons_eq. cbn [fill]. rewrite (IH c Hr).
    replace (last r c - prev + 1) with (S (c - S prev) + (last r c - c + 1)) by lia.
    rewrite (seq_app (S (c - S prev)) (last r c - c + 1) prev). cbn [seq app]. replace (prev + S (c - S prev)) with c by lia. reflexivity.
Qed.

Lemma nogap_chain_seq prev k r :
  nogap_chain prev (seq (S prev) k ++ r) = nogap_chain (prev + k) r.
Proof.
  revert prev; induction k as [|k IH]; intros prev.
  - simpl. rewrite Nat.add_0_r. reflexivity.
  - cbn [seq app nogap_chain]. rewrite Nat.leb_refl, IH. cbn [andb]. f_equal. lia.
Qed.

Lemma fill_nogap prev rest : nondecr_from prev rest = true -> nogap_chain prev (fill prev rest) = true.
Proof.
  revert prev; induction rest as [|c r IH]; intros prev H; [reflexivity|].
  cbn [nondecr_from] in H. apply andb_true_iff in H. destruct H as [Hpc Hr]. apply Nat.leb_le in Hpc.
  cbn [fill]. rewrite nogap_chain_seq. cbn [nogap_chain]. rewrite (IH c Hr), andb_true_r.
  apply Nat.leb_le. lia.
Qed.

Lemma fill_nondecr prev rest : nondecr_from prev rest = true -> nondecr_from prev (fill prev rest) = true.
Proof.
  revert prev; induction rest as [|c r IH]; intros prev H; [reflexivity|].
  cbn [nondecr_from] in H. apply andb_true_iff in H. destruct H as [Hpc Hr]. apply Nat.leb_le in Hpc.
  cbn [fill].
  assert (G : forall k p tl, p + k <= c -> nondecr_from c tl = true ->
                nondecr_from p (seq (S p) k ++ c :: tl) = true).
  { induction k as [|k IHk]; intros p tl Hle Htl.
    - cbn [seq app nondecr_from]. rewrite Htl, andb_true_r. apply Nat.leb_le. lia.
    - cbn [seq app nondecr_from]. rewrite IHk; [|lia|exact Htl]. rewrite andb_true_r. apply Nat.leb_le. lia. }
  apply G; [lia|]. apply IH. exact Hr.
Qed.

Lemma expand_go_ok : forall rest st prev toks dirs stf,
  expand_go tys st prev rest = X_Ok (toks, dirs, stf) ->
  nondecr_from prev rest = true
  /\ toks = fill prev rest
  /\ (forall t, In t toks -> In t rest \/ added_ok t = true)
  /\ (forall d, In d dirs -> In d toks /\ is_cond_directive_at tys d = true /\ prev < d < last rest prev)
  /\ (dirs = [] -> nogap_chain prev rest = true).
Proof.
  induction rest as [|cur rest' IH]; intros st prev toks dirs stf H.
  - cbn [expand_go] in H. injection H as <- <- _.
    split; [reflexivity|]. split; [reflexivity|]. split; [intros t []|]. split; [intros d []|].
    intros _. reflexivity.
  - cbn [expand_go] in H.
    destruct (Nat.ltb cur prev) eqn:Elt; [discriminate|]. apply Nat.ltb_ge in Elt.
    destruct (gap_step tys st prev cur) as [[[st' gtoks] gdirs]|] eqn:Egap; [|discriminate].
    destruct (cstate_is_outside st' || is_allowed_token tys cur); [|discriminate].
    destruct (expand_go tys st' cur rest') as [[[toks' dirs'] stf']| |] eqn:Erec; try discriminate.
    injection H as <- <- <-.
    destruct (gap_step_spec _ _ _ _ _ _ Egap) as (Hgt & Hgok & Hgd & Hgnil).
    destruct (IH _ _ _ _ _ Erec) as (Hnd & Htoks & Hin & Hdirs & Hnil).
    pose proof (nondecr_from_last _ _ Hnd) as Hlast.
    rewrite last_cons_eq.
    split; [|split; [|split; [|split]]].
    + cbn [nondecr_from]. rewrite Hnd, andb_true_r. apply Nat.leb_le. exact Elt.
    + cbn [fill]. rewrite Hgt, Htoks. reflexivity.
    + intros t Ht. apply in_app_or in Ht. destruct Ht as [Ht|[<-|Ht]].
      * right. apply Hgok. exact Ht.
      * left. left. reflexivity.
      * destruct (Hin _ Ht) as [H|H]; [left; right; exact H|right; exact H].
    + intros d Hd. apply in_app_or in Hd. destruct Hd as [Hd|Hd].
      * destruct (Hgd _ Hd) as [Hd1 Hd2]. split; [apply in_or_app; left; exact Hd1|]. split; [exact Hd2|].
        rewrite Hgt in Hd1. apply in_seq in Hd1. lia.
      * destruct (Hdirs _ Hd) as (Hd1 & Hd2 & Hd3).
        split; [apply in_or_app; right; right; exact Hd1|]. split; [exact Hd2|]. lia.
    + intros Hnil'. apply app_eq_nil in Hnil'. destruct Hnil' as [Hg Hd].
      cbn [nogap_chain]. rewrite (Hnil Hd), andb_true_r. apply Nat.leb_le. apply Hgnil. exact Hg.
Qed.

Lemma expand_go_no_panic : forall rest st prev,
  nondecr_from prev rest = true -> expand_go tys st prev rest <> X_Panic.
Proof.
  induction rest as [|cur rest' IH]; intros st prev H; [discriminate|].
  cbn [nondecr_from] in H. apply andb_true_iff in H. destruct H as [Hpc Hr]. apply Nat.leb_le in Hpc.
  cbn [expand_go].
  destruct (Nat.ltb cur prev) eqn:Elt; [apply Nat.ltb_lt in Elt; lia|].
  destruct (gap_step tys st prev cur) as [[[st' gtoks] gdirs]|]; [|discriminate].
  destruct (cstate_is_outside st' || is_allowed_token tys cur); [|discriminate].
  specialize (IH st' cur Hr).
  destruct (expand_go tys st' cur rest') as [[[toks' dirs'] stf']| |]; try discriminate.
  exact (fun _ => IH eq_refl).
Qed.

Lemma expand_go_nogap_dirs : forall rest st prev toks dirs stf,
  nogap_chain prev rest = true ->
  expand_go tys st prev rest = X_Ok (toks, dirs, stf) -> dirs = [].
Proof.
  induction rest as [|cur rest' IH]; intros st prev toks dirs stf Hng H.
  - cbn [expand_go] in H. injection H as _ <- _. reflexivity.
  - cbn [nogap_chain] in Hng. apply andb_true_iff in Hng. destruct Hng as [Hc Hr]. apply Nat.leb_le in Hc.
    cbn [expand_go] in H.
    destruct (Nat.ltb cur prev); [discriminate|].
    rewrite (gap_step_nogap _ _ _ Hc) in H.
    destruct (cstate_is_outside st || is_allowed_token tys cur); [|discriminate].
    destruct (expand_go tys st cur rest') as [[[toks' dirs'] stf']| |] eqn:Erec; try discriminate.
    injection H as _ <- _. cbn [app]. exact (IH _ _ _ _ _ Hr Erec).
Qed.

(* ================================================================== *)
(* 3. expand_line *)

(* either nothing happens, or the loop ran to completion in state Outside with >= 1 directive *)
Lemma expand_line_cases l :
  expand_line tys l = (l, [])
  \/ exists first rest toks dirs,
       ll_toks l = first :: rest
       /\ expand_go tys CS_Outside first rest = X_Ok (toks, dirs, CS_Outside)
       /\ dirs <> []
       /\ Nat.eqb (last rest first - first + 1) (length (ll_toks l)) = false
       /\ expand_line tys l = (set_toks l (first :: toks), dirs).
Proof.
  unfold expand_line, expand_line_chk.
  destruct (ll_toks l) as [|first rest] eqn:Etoks; [left; reflexivity|].
  destruct (Nat.ltb (last rest first) first); [left; reflexivity|].
  destruct (Nat.eqb (last rest first - first + 1) (length (first :: rest))) eqn:Econt; [left; reflexivity|].
  destruct (expand_go tys CS_Outside first rest) as [[[toks dirs] stf]| |] eqn:Ego; try (left; reflexivity).
  destruct dirs as [|d dirs]; [left; reflexivity|].
  destruct stf; try (left; reflexivity).
  right. exists first, rest, toks, (d :: dirs). repeat split; try assumption; try reflexivity. discriminate.
Qed.

Lemma expand_line_chk_total l :
  nondecreasing (ll_toks l) = true -> expand_line_chk tys l = Some (expand_line tys l).
Proof.
  intros Hnd. unfold expand_line.
  destruct (expand_line_chk tys l) as [r|] eqn:E; [reflexivity|exfalso].
  unfold expand_line_chk in E. destruct (ll_toks l) as [|first rest]; [discriminate|].
  cbn [nondecreasing] in Hnd. pose proof (nondecr_from_last _ _ Hnd) as Hlast.
  destruct (Nat.ltb (last rest first) first) eqn:Elt; [apply Nat.ltb_lt in Elt; lia|].
  destruct (Nat.eqb (last rest first - first + 1) (length (first :: rest))); [discriminate|].
  pose proof (expand_go_no_panic rest CS_Outside first Hnd) as Hnp.
  destruct (expand_go tys CS_Outside first rest) as [[[toks dirs] stf]| |]; try discriminate.
  - destruct dirs; [discriminate|]. destruct (cstate_is_outside stf); discriminate.
  - apply Hnp. reflexivity.
Qed.

(* the checked version panics only on a token list with a descent *)
Theorem expand_line_panic_only_unsorted l :
  expand_line_chk tys l = None -> nondecreasing (ll_toks l) = false.
Proof.
  intros H. destruct (nondecreasing (ll_toks l)) eqn:E; [|reflexivity].
  rewrite (expand_line_chk_total l E) in H. discriminate.
Qed.

Definition in_range (toks : list nat) : bool := forallb (fun i => Nat.ltb i (length tys)) toks.

Theorem expand_line_superset l l' dirs :
  expand_line tys l = (l', dirs) ->
  ll_type l' = ll_type l /\ ll_level l' = ll_level l /\ ll_parent l' = ll_parent l
  /\ incl (ll_toks l) (ll_toks l')
  /\ hd 0 (ll_toks l') = hd 0 (ll_toks l)
  /\ last (ll_toks l') 0 = last (ll_toks l) 0
  /\ (ll_toks l' = [] <-> ll_toks l = [])
  /\ (strictly_increasing (ll_toks l) = true -> strictly_increasing (ll_toks l') = true)
  /\ (in_range (ll_toks l) = true -> in_range (ll_toks l') = true)
  /\ (forall t, In t (ll_toks l') ->
        In t (ll_toks l)
        \/ (added_ok t = true /\ hd 0 (ll_toks l) < t < last (ll_toks l) 0))
  /\ (forall d, In d dirs ->
        In d (ll_toks l') /\ is_cond_directive_at tys d = true
        /\ hd 0 (ll_toks l) < d < last (ll_toks l) 0)
  /\ (dirs = [] -> l' = l).
Proof.
  intros H.
  destruct (expand_line_cases l) as [E|(first & rest & toks & ds & Etoks & Ego & Hne & _ & E)];
    rewrite E in H; injection H as <- <-.
  - split; [reflexivity|]. split; [reflexivity|]. split; [reflexivity|]. split; [apply incl_refl|].
    split; [reflexivity|]. split; [reflexivity|]. split; [split; intros Hx; exact Hx|].
    split; [intros Hx; exact Hx|]. split; [intros Hx; exact Hx|].
    split; [intros t Ht; left; exact Ht|]. split; [intros d []|]. intros _. reflexivity.
  - destruct (expand_go_ok _ _ _ _ _ _ Ego) as (Hnd & Hfill & Hin & Hdirs & _).
    pose proof (nondecr_from_last _ _ Hnd) as Hlast.
    rewrite Etoks. cbn [set_toks ll_type ll_level ll_parent ll_toks hd].
    rewrite !last_cons_eq.
    split; [reflexivity|]. split; [reflexivity|]. split; [reflexivity|].
    split; [|split; [|split; [|split; [|split; [|split; [|split; [|split]]]]]]].
    + intros t [<-|Ht]; [left; reflexivity|]. right. rewrite Hfill. apply fill_incl. exact Ht.
    + reflexivity.
    + rewrite Hfill. rewrite <- (fill_last first rest). reflexivity.
    + split; discriminate.
    + intros Hsi. rewrite Hfill, (fill_strict _ _ Hsi). apply strictly_increasing_seq.
    + unfold in_range. intros Hr. cbn [forallb] in *. apply andb_true_iff in Hr. destruct Hr as [Hf Hr].
      rewrite Hf. cbn [andb]. apply forallb_forall. intros t Ht.
      destruct (Hin _ Ht) as [Ht'|Ht'].
      * rewrite forallb_forall in Hr. apply Hr. exact Ht'.
      * apply Nat.ltb_lt. apply added_ok_lt. exact Ht'.
    + intros t [<-|Ht]; [left; left; reflexivity|].
      destruct (Hin _ Ht) as [Ht'|Ht']; [left; right; exact Ht'|].
      rewrite Hfill in Ht. destruct (fill_in _ _ _ Hnd Ht) as [Hr|Hr]; [left; right; exact Hr|].
      right. split; [exact Ht'|exact Hr].
    + intros d Hd. destruct (Hdirs _ Hd) as (Hd1 & Hd2 & Hd3).
      split; [right; exact Hd1|]. split; [exact Hd2|exact Hd3].
    + intros ->. exfalso. apply Hne. reflexivity.
Qed.

(* for a sorted line, an expanded line is the full contiguous range first..last *)
Theorem expand_line_contiguous l l' dirs :
  expand_line tys l = (l', dirs) -> dirs <> [] ->
  strictly_increasing (ll_toks l) = true ->
  ll_toks l' = seq (hd 0 (ll_toks l)) (last (ll_toks l) 0 - hd 0 (ll_toks l) + 1).
Proof.
  intros H Hne Hsi.
  destruct (expand_line_cases l) as [E|(first & rest & toks & ds & Etoks & Ego & _ & _ & E)];
    rewrite E in H; injection H as <- <-.
  - exfalso. apply Hne. reflexivity.
  - destruct (expand_go_ok _ _ _ _ _ _ Ego) as (_ & Hfill & _).
    rewrite Etoks in *. cbn [set_toks ll_toks hd]. rewrite last_cons_eq, Hfill.
    apply fill_strict. exact Hsi.
Qed.

(* a line without gaps (in particular every line produced by a successful expansion) is left alone *)
Lemma expand_line_nogap l :
  (match ll_toks l with [] => true | a :: r => nogap_chain a r end) = true ->
  expand_line tys l = (l, []).
Proof.
  intros Hng.
  destruct (expand_line_cases l) as [E|(first & rest & toks & ds & Etoks & Ego & Hne & _ & E)]; [exact E|].
  exfalso. rewrite Etoks in Hng. apply Hne. exact (expand_go_nogap_dirs _ _ _ _ _ _ Hng Ego).
Qed.

Theorem expand_line_idempotent l :
  expand_line tys (fst (expand_line tys l)) = (fst (expand_line tys l), []).
Proof.
  destruct (expand_line_cases l) as [E|(first & rest & toks & ds & Etoks & Ego & Hne & _ & E)];
    rewrite E; cbn [fst].
  - exact E.
  - apply expand_line_nogap. cbn [set_toks ll_toks].
    destruct (expand_go_ok _ _ _ _ _ _ Ego) as (Hnd & Hfill & _).
    rewrite Hfill. apply fill_nogap. exact Hnd.
Qed.

Lemma expand_line_singleton l t : ll_toks l = [t] -> expand_line tys l = (l, []).
Proof.
  intros E. apply expand_line_nogap. rewrite E. reflexivity.
Qed.

Lemma expand_line_empty l : ll_toks l = [] -> expand_line tys l = (l, []).
Proof.
  intros E. apply expand_line_nogap. rewrite E. reflexivity.
Qed.

End Expand.

(* ================================================================== *)
(* 4. sort / dedup / update utilities *)

Lemma in_insert_by {A} (key : A -> nat) (x y : A) l : In x (insert_by key y l) <-> y = x \/ In x l.
Proof.
  induction l as [|z t IH]; cbn [insert_by].
  - reflexivity.
  - destruct (Nat.leb (key y) (key z)).
    + reflexivity.
    + cbn [In]. rewrite IH. tauto.
Qed.

Lemma in_sort_by {A} (key : A -> nat) (x : A) l : In x (sort_by key l) <-> In x l.
Proof.
  induction l as [|y t IH]; cbn [sort_by]; [reflexivity|].
  rewrite in_insert_by, IH. reflexivity.
Qed.

Lemma dedup_cons2 a b t : dedup (a :: b :: t) = if Nat.eqb a b then dedup (b :: t) else a :: dedup (b :: t).
Proof. reflexivity. Qed.

Lemma in_dedup x l : In x (dedup l) <-> In x l.
Proof.
  induction l as [|a t IH]; [reflexivity|].
  destruct t as [|b t']; [reflexivity|].
  rewrite dedup_cons2. destruct (Nat.eqb a b) eqn:E.
  - apply Nat.eqb_eq in E. subst b. rewrite IH. cbn [In]. tauto.
  - change (In x (a :: dedup (b :: t'))) with (a = x \/ In x (dedup (b :: t'))). rewrite IH.
    reflexivity.
Qed.

Lemma update_nth_length {A} (f : A -> A) l : forall i, length (update_nth i f l) = length l.
Proof.
  induction l as [|x t IH]; intros i; [destruct i; reflexivity|].
  destruct i as [|j]; cbn [update_nth length]; [reflexivity|]. rewrite IH. reflexivity.
Qed.

Lemma Forall2_update_nth {A B} (R : A -> B -> Prop) (f : B -> B) l1 l2 :
  Forall2 R l1 l2 -> forall i,
  (forall a b, nth_error l1 i = Some a -> nth_error l2 i = Some b -> R a b -> R a (f b)) ->
  Forall2 R l1 (update_nth i f l2).
Proof.
  induction 1 as [|a b l1 l2 Hab Hrest IH]; intros i Hi.
  - destruct i; constructor.
  - destruct i as [|j]; cbn [update_nth].
    + constructor; [|exact Hrest]. apply Hi; [reflexivity|reflexivity|exact Hab].
    + constructor; [exact Hab|]. apply IH. intros a' b' Ha' Hb'. apply Hi; assumption.
Qed.

Lemma Forall2_same {A} (R : A -> A -> Prop) l : (forall a, In a l -> R a a) -> Forall2 R l l.
Proof.
  induction l as [|a t IH]; intros H; constructor.
  - apply H. left. reflexivity.
  - apply IH. intros b Hb. apply H. right. exact Hb.
Qed.

Lemma Forall2_map_left {A B C} (R : B -> C -> Prop) (f : A -> B) l l2 :
  Forall2 R (map f l) l2 <-> Forall2 (fun a c => R (f a) c) l l2.
Proof.
  revert l2; induction l as [|a t IH]; intros l2; split; intros H.
  - inversion H. constructor.
  - inversion H. constructor.
  - cbn [map] in H. inversion H as [|? c ? l2' Hac Hrest]; subst. constructor; [exact Hac|]. apply IH. exact Hrest.
  - inversion H as [|? c ? l2' Hac Hrest]; subst. cbn [map]. constructor; [exact Hac|]. apply IH. exact Hrest.
Qed.

Lemma Forall2_impl {A B} (R S : A -> B -> Prop) l1 l2 :
  (forall a b, In a l1 -> In b l2 -> R a b -> S a b) -> Forall2 R l1 l2 -> Forall2 S l1 l2.
Proof.
  intros H F. induction F as [|a b l1 l2 Hab Hrest IH]; constructor.
  - apply H; [left; reflexivity|left; reflexivity|exact Hab].
  - apply IH. intros a' b' Ha' Hb'. apply H; right; assumption.
Qed.

Lemma Forall2_in_left {A B} (R : A -> B -> Prop) l1 l2 a :
  Forall2 R l1 l2 -> In a l1 -> exists b, In b l2 /\ R a b.
Proof.
  induction 1 as [|x y l1 l2 Hxy Hrest IH]; intros Hin; [destruct Hin|].
  destruct Hin as [<-|Hin].
  - exists y. split; [left; reflexivity|exact Hxy].
  - destruct (IH Hin) as (b & Hb & Hr). exists b. split; [right; exact Hb|exact Hr].
Qed.

Lemma Forall2_in_right {A B} (R : A -> B -> Prop) l1 l2 b :
  Forall2 R l1 l2 -> In b l2 -> exists a, In a l1 /\ R a b.
Proof.
  induction 1 as [|x y l1 l2 Hxy Hrest IH]; intros Hin; [destruct Hin|].
  destruct Hin as [<-|Hin].
  - exists x. split; [left; reflexivity|exact Hxy].
  - destruct (IH Hin) as (a & Ha & Hr). exists a. split; [right; exact Ha|exact Hr].
Qed.

Lemma Forall2_nth_error_left {A B} (R : A -> B -> Prop) l1 l2 :
  Forall2 R l1 l2 -> forall i a, nth_error l1 i = Some a -> exists b, nth_error l2 i = Some b /\ R a b.
Proof.
  induction 1 as [|x y l1 l2 Hxy Hrest IH]; intros i a Hi.
  - destruct i; discriminate.
  - destruct i as [|j]; cbn [nth_error] in *.
    + injection Hi as <-. exists y. split; [reflexivity|exact Hxy].
    + apply IH. exact Hi.
Qed.

Lemma Forall2_len {A B} (R : A -> B -> Prop) l1 l2 : Forall2 R l1 l2 -> length l1 = length l2.
Proof. induction 1 as [|x y l1 l2 Hxy Hrest IH]; [reflexivity|]. cbn [length]. rewrite IH. reflexivity. Qed.

Lemma Forall2_map_eq {A B C} (f : A -> C) (g : B -> C) l1 l2 :
  Forall2 (fun a b => g b = f a) l1 l2 -> map g l2 = map f l1.
Proof.
  induction 1 as [|x y l1 l2 Hxy Hrest IH]; [reflexivity|]. cbn [map]. rewrite Hxy, IH. reflexivity.
Qed.

(* ================================================================== *)
(* 5. the search functions *)

Definition search_sound (srch : search_fn) : Prop :=
  forall keys d pos, srch keys d = Some pos -> nth_error keys pos = Some d.

Lemma search_first_sound : search_sound search_first.
Proof.
  intros keys d. induction keys as [|k t IH]; intros pos H; [discriminate|].
  cbn [search_first] in H. destruct (Nat.eqb k d) eqn:E.
  - injection H as <-. apply Nat.eqb_eq in E. subst k. reflexivity.
  - destruct (search_first t d) as [j|]; [|discriminate]. injection H as <-.
    cbn [nth_error]. apply IH. reflexivity.
Qed.

Lemma div2_bounds n : 2 <= n -> 1 <= Nat.div2 n /\ Nat.div2 n < n /\ Nat.div2 n <= n - Nat.div2 n.
Proof.
  intros H. pose proof (Nat.div2_odd n) as E. destruct (Nat.odd n); cbn [Nat.b2n] in E; lia.
Qed.

Lemma bsearch_loop_bound fuel keys d : forall base size b,
  1 <= size -> base + size <= length keys ->
  bsearch_loop fuel keys d base size = Some b -> b < length keys.
Proof.
  induction fuel as [|f IH]; intros base size b Hs Hb H.
  - cbn [bsearch_loop] in H. destruct (Nat.leb size 1); [|discriminate]. injection H as <-. lia.
  - cbn [bsearch_loop] in H. destruct (Nat.leb size 1) eqn:E.
    + injection H as <-. lia.
    + apply Nat.leb_gt in E. destruct (div2_bounds size E) as (H1 & H2 & H3).
      apply IH in H; [exact H|lia|].
      destruct (Nat.ltb d (nth (base + Nat.div2 size) keys 0)); lia.
Qed.

Lemma search_std_sound : search_sound search_std.
Proof.
  intros keys d pos H. unfold search_std in H.
  destruct keys as [|k t]; [discriminate|].
  assert (Hlen : 1 <= length (k :: t)) by (cbn [length]; lia).
  set (keys := k :: t) in *.
  destruct (bsearch_loop (length keys) keys d 0 (length keys)) as [base|] eqn:Eb; [|discriminate].
  destruct (Nat.eqb (nth base keys 0) d) eqn:E; [|discriminate]. injection H as <-.
  apply Nat.eqb_eq in E. rewrite <- E. apply nth_error_nth'.
  apply (bsearch_loop_bound _ keys d 0 (length keys) base Hlen (Nat.le_refl (length keys)) Eb).
Qed.

(* ================================================================== *)
(* 6. the voiding phase *)

Definition vrel (D : list nat) (o c : lline) : Prop :=
  c = o \/ (c = void_line o /\ is_conddir_line o = true /\ In (first_tok_or0 o) D).

Lemma void_line_idem l : void_line (void_line l) = void_line l.
Proof. reflexivity. Qed.

Lemma void_step_length srch order lines d : length (void_step srch order lines d) = length lines.
Proof.
  unfold void_step. destruct (srch _ d) as [pos|]; [|reflexivity].
  destruct (nth_error order pos); [apply update_nth_length|reflexivity].
Qed.

Lemma void_step_rel srch order D orig cur d :
  search_sound srch ->
  (forall i, In i order -> exists o, nth_error orig i = Some o /\ is_conddir_line o = true) ->
  In d D ->
  Forall2 (vrel D) orig cur -> Forall2 (vrel D) orig (void_step srch order cur d).
Proof.
  intros Hs Hord Hd F. unfold void_step.
  destruct (srch (map (line_key cur) order) d) as [pos|] eqn:Es; [|exact F].
  destruct (nth_error order pos) as [i|] eqn:Ei; [|exact F].
  apply Forall2_update_nth; [exact F|]. intros a b Ha Hb Hab.
  apply Hs in Es. rewrite (map_nth_error (line_key cur) _ _ Ei) in Es. injection Es as Ekey.
  unfold line_key in Ekey. rewrite (nth_error_nth _ _ dummy_line Hb) in Ekey.
  destruct (Hord i (nth_error_In _ _ Ei)) as (o & Ho & Hcd). rewrite Ha in Ho. injection Ho as <-.
  destruct Hab as [->|(-> & Hcd' & Hin)].
  - right. split; [reflexivity|]. split; [exact Hcd|]. rewrite Ekey. exact Hd.
  - right. split; [apply void_line_idem|]. split; assumption.
Qed.

Lemma void_phase_rel srch order D orig : forall dirs cur,
  search_sound srch ->
  (forall i, In i order -> exists o, nth_error orig i = Some o /\ is_conddir_line o = true) ->
  incl dirs D ->
  Forall2 (vrel D) orig cur -> Forall2 (vrel D) orig (void_phase srch order dirs cur).
Proof.
  induction dirs as [|d dirs IH]; intros cur Hs Hord Hincl F; [exact F|].
  unfold void_phase. cbn [fold_left]. apply IH; [exact Hs|exact Hord| |].
  - intros x Hx. apply Hincl. right. exact Hx.
  - apply void_step_rel; [exact Hs|exact Hord| |exact F]. apply Hincl. left. reflexivity.
Qed.

Lemma directive_line_order_spec lines i :
  In i (directive_line_order lines) ->
  exists o, nth_error lines i = Some o /\ is_conddir_line o = true.
Proof.
  unfold directive_line_order. rewrite in_sort_by, filter_In, in_seq. intros [[_ Hlt] Hcd].
  exists (nth i lines dummy_line). split; [apply nth_error_nth'; lia|exact Hcd].
Qed.

(* ================================================================== *)
(* 7. conddir_consolidate: the structural theorem *)

Definition all_dirs (tys : list TokenType) (lines : list lline) : list nat :=
  concat (map snd (map (expand_line tys) lines)).

(* how an output line relates to the input line at the same position *)
Definition conddir_rel (tys : list TokenType) (D : list nat) (l c : lline) : Prop :=
  c = fst (expand_line tys l)
  \/ (c = void_line l /\ is_conddir_line l = true /\ In (first_tok_or0 (fst (expand_line tys l))) D).

Theorem conddir_gen_rel srch tys lines :
  search_sound srch ->
  Forall2 (conddir_rel tys (all_dirs tys lines)) lines (conddir_consolidate_gen srch tys lines).
Proof.
  intros Hs. unfold conddir_consolidate_gen, expand_all.
  set (lines1 := map fst (map (expand_line tys) lines)).
  set (D := concat (map snd (map (expand_line tys) lines))).
  assert (F : Forall2 (vrel D) lines1 (void_phase srch (directive_line_order lines1)
                                          (dedup (sort_by (fun d => d) D)) lines1)).
  { apply void_phase_rel.
    - exact Hs.
    - apply directive_line_order_spec.
    - intros x Hx. rewrite in_dedup, in_sort_by in Hx. exact Hx.
    - apply Forall2_same. intros a _. left. reflexivity. }
  unfold lines1 in F at 1. rewrite map_map in F.
  pose proof (proj1 (Forall2_map_left (vrel D) (fun x => fst (expand_line tys x)) lines _) F) as F'.
  refine (Forall2_impl _ _ _ _ _ F'). intros l c _ _ Hr. unfold conddir_rel, all_dirs. fold D.
  destruct (expand_line tys l) as [l' ds] eqn:E. cbn [fst] in *.
  destruct (expand_line_superset tys l l' ds E) as (Hty & Hlv & Hpa & _).
  destruct Hr as [->|(-> & Hcd & Hin)]; [left; reflexivity|right].
  split; [|split; [|exact Hin]].
  - unfold void_line. rewrite Hlv, Hpa. reflexivity.
  - unfold is_conddir_line in *. rewrite <- Hty. exact Hcd.
Qed.

Section ConddirGeneric.
Variable srch : search_fn.
Hypothesis srch_sound : search_sound srch.
Variable tys : list TokenType.

Theorem conddir_gen_length lines : length (conddir_consolidate_gen srch tys lines) = length lines.
Proof. symmetry. exact (Forall2_len _ _ _ (conddir_gen_rel srch tys lines srch_sound)). Qed.

Theorem conddir_gen_parents_unchanged lines :
  map ll_parent (conddir_consolidate_gen srch tys lines) = map ll_parent lines
  /\ map ll_level (conddir_consolidate_gen srch tys lines) = map ll_level lines.
Proof.
  pose proof (conddir_gen_rel srch tys lines srch_sound) as F.
  split; apply Forall2_map_eq; refine (Forall2_impl _ _ _ _ _ F); intros l c _ _ Hr;
    destruct (expand_line tys l) as [l' ds] eqn:E;
    destruct (expand_line_superset tys l l' ds E) as (Hty & Hlv & Hpa & _);
    unfold conddir_rel in Hr; rewrite E in Hr; cbn [fst] in Hr;
    destruct Hr as [->|(-> & _)]; try assumption; reflexivity.
Qed.

(* every output line is the expansion of the input line at the same position (same type, level,
   parent, superset of its tokens), or the input line was a ConditionalDirective line and the
   output line is its voided form *)
Theorem conddir_gen_only_voids_directive_lines lines :
  Forall2 (fun l c => c = fst (expand_line tys l)
                      \/ (ll_type l = LLT_ConditionalDirective /\ c = void_line l))
          lines (conddir_consolidate_gen srch tys lines).
Proof.
  refine (Forall2_impl _ _ _ _ _ (conddir_gen_rel srch tys lines srch_sound)).
  intros l c _ _ [H|(H1 & H2 & _)]; [left; exact H|right]. split; [|exact H1].
  unfold is_conddir_line in H2. destruct (ll_type l); try discriminate. reflexivity.
Qed.

End ConddirGeneric.

(* ================================================================== *)
(* 8. lines_cover (Model/Lines.v) in logical form *)

Lemma existsb_eqb_in i l : existsb (Nat.eqb i) l = true <-> In i l.
Proof.
  rewrite existsb_exists. split.
  - intros (x & Hx & E). apply Nat.eqb_eq in E. subst x. exact Hx.
  - intros H. exists i. split; [exact H|apply Nat.eqb_refl].
Qed.

Lemma count_in_lines_acc i lines : forall acc,
  fold_left (fun acc l => if existsb (Nat.eqb i) (ll_toks l) then S acc else acc) lines acc
  = acc + count_in_lines lines i.
Proof.
  unfold count_in_lines. induction lines as [|l t IH]; intros acc; cbn [fold_left]; [lia|].
  rewrite IH. rewrite (IH (if existsb (Nat.eqb i) (ll_toks l) then 1 else 0)).
  destruct (existsb (Nat.eqb i) (ll_toks l)); lia.
Qed.

Lemma count_in_lines_cons i l t :
  count_in_lines (l :: t) i = (if existsb (Nat.eqb i) (ll_toks l) then 1 else 0) + count_in_lines t i.
Proof.
  unfold count_in_lines at 1. cbn [fold_left]. rewrite count_in_lines_acc.
  destruct (existsb (Nat.eqb i) (ll_toks l)); reflexivity.
Qed.

Lemma count_in_lines_ge1 i lines :
  1 <= count_in_lines lines i <-> exists l, In l lines /\ In i (ll_toks l).
Proof.
  induction lines as [|l t IH].
  - unfold count_in_lines. cbn [fold_left]. split; [lia|intros (l & [] & _)].
  - rewrite count_in_lines_cons. destruct (existsb (Nat.eqb i) (ll_toks l)) eqn:E.
    + split; [intros _|lia]. exists l. split; [left; reflexivity|apply existsb_eqb_in; exact E].
    + cbn [Nat.add]. rewrite IH. split.
      * intros (l' & Hl' & Hi). exists l'. split; [right; exact Hl'|exact Hi].
      * intros (l' & [<-|Hl'] & Hi).
        -- apply existsb_eqb_in in Hi. congruence.
        -- exists l'. split; assumption.
Qed.

Lemma lines_cover_elim tys L :
  lines_cover tys L = true ->
  forallb (line_ok (length tys)) L = true
  /\ forall i, i < length tys -> exists l, In l L /\ In i (ll_toks l).
Proof.
  unfold lines_cover. intros H. apply andb_true_iff in H. destruct H as [H1 H2]. split; [exact H1|].
  intros i Hi. rewrite forallb_forall in H2. specialize (H2 i (proj2 (in_seq _ _ _) (conj (Nat.le_0_l _) Hi))).
  apply andb_true_iff in H2. destruct H2 as [H2 _]. apply Nat.leb_le in H2.
  apply count_in_lines_ge1. exact H2.
Qed.

Lemma lines_cover_intro tys L :
  existsb is_cond_directive tys = true ->
  forallb (line_ok (length tys)) L = true ->
  (forall i, i < length tys -> exists l, In l L /\ In i (ll_toks l)) ->
  lines_cover tys L = true.
Proof.
  intros Hd H1 H2. unfold lines_cover. rewrite H1, Hd. cbn [negb andb].
  apply forallb_forall. intros i Hi. apply in_seq in Hi. rewrite andb_true_r.
  apply Nat.leb_le. apply count_in_lines_ge1. apply H2. lia.
Qed.

Lemma filter_all {A} (p : A -> bool) l : forallb p l = true -> filter p l = l.
Proof.
  induction l as [|a t IH]; [reflexivity|]. cbn [forallb filter]. intros H.
  apply andb_true_iff in H. destruct H as [Ha Ht]. rewrite Ha, (IH Ht). reflexivity.
Qed.

Lemma line_ok_expand tys n l :
  n = length tys -> line_ok n l = true -> line_ok n (fst (expand_line tys l)) = true.
Proof.
  intros -> H. destruct (expand_line tys l) as [l' ds] eqn:E. cbn [fst].
  destruct (expand_line_superset tys l l' ds E) as (_ & _ & _ & _ & _ & _ & Hnil & Hsi & Hrg & _).
  unfold line_ok in *. destruct (ll_toks l) as [|a r] eqn:El; [discriminate|].
  apply andb_true_iff in H. destruct H as [H1 H2].
  destruct (ll_toks l') as [|a' r'] eqn:El'.
  - exfalso. destruct Hnil as [Hnil _]. specialize (Hnil eq_refl). discriminate.
  - rewrite (Hsi H1). cbn [andb]. exact (Hrg H2).
Qed.

(* ================================================================== *)
(* 9. no conditional directive token => the consolidator is the identity *)

Lemma dir_at_existsb tys d : is_cond_directive_at tys d = true -> existsb is_cond_directive tys = true.
Proof.
  unfold is_cond_directive_at, cond_kind_at. destruct (nth_error tys d) as [ty|] eqn:E; [|discriminate].
  intros H. apply existsb_exists. exists ty. split; [exact (nth_error_In _ _ E)|].
  destruct ty; try discriminate. reflexivity.
Qed.

Lemma expand_line_nodir tys l : existsb is_cond_directive tys = false -> expand_line tys l = (l, []).
Proof.
  intros Hnd. destruct (expand_line tys l) as [l' ds] eqn:E.
  destruct (expand_line_superset tys l l' ds E) as (_ & _ & _ & _ & _ & _ & _ & _ & _ & _ & Hd & Hid).
  destruct ds as [|d ds]; [rewrite (Hid eq_refl); reflexivity|exfalso].
  destruct (Hd d (or_introl eq_refl)) as (_ & Hdir & _).
  rewrite (dir_at_existsb _ _ Hdir) in Hnd. discriminate.
Qed.

Lemma expand_all_id tys lines :
  (forall l, In l lines -> expand_line tys l = (l, [])) -> expand_all tys lines = (lines, []).
Proof.
  unfold expand_all. induction lines as [|l t IH]; intros H; [reflexivity|].
  cbn [map concat]. rewrite (H l (or_introl eq_refl)). cbn [fst snd app].
  specialize (IH (fun x Hx => H x (or_intror Hx))). injection IH as IH1 IH2. rewrite IH1, IH2. reflexivity.
Qed.

Lemma conddir_gen_id srch tys lines :
  (forall l, In l lines -> expand_line tys l = (l, [])) -> conddir_consolidate_gen srch tys lines = lines.
Proof.
  intros H. unfold conddir_consolidate_gen. rewrite (expand_all_id _ _ H). reflexivity.
Qed.

Theorem conddir_gen_nodir_id srch tys lines :
  existsb is_cond_directive tys = false -> conddir_consolidate_gen srch tys lines = lines.
Proof. intros H. apply conddir_gen_id. intros l _. apply expand_line_nodir. exact H. Qed.

(* ================================================================== *)
(* 10. C14 preservation: no token is lost *)

Section ConddirCover.
Variable srch : search_fn.
Hypothesis srch_sound : search_sound srch.
Variable tys : list TokenType.

Lemma singleton_line lines l :
  conddir_lines_singleton lines = true -> In l lines -> is_conddir_line l = true ->
  exists t, ll_toks l = [t].
Proof.
  unfold conddir_lines_singleton. rewrite forallb_forall. intros H Hl Hcd. specialize (H l Hl).
  rewrite Hcd in H. cbn [negb orb] in H. destruct (ll_toks l) as [|t [|? ?]]; try discriminate.
  exists t. reflexivity.
Qed.

(* every token that was in some line is, after consolidation, in some line that is not Voided *)
Theorem conddir_gen_no_token_lost lines i :
  conddir_lines_singleton lines = true -> no_voided lines = true ->
  (exists l, In l lines /\ In i (ll_toks l)) ->
  exists c, In c (conddir_consolidate_gen srch tys lines) /\ is_voided_line c = false /\ In i (ll_toks c).
Proof.
  intros Hsing Hnv (l & Hl & Hi).
  pose proof (conddir_gen_rel srch tys lines srch_sound) as F.
  assert (Keep : forall l2, In l2 lines -> In i (ll_toks (fst (expand_line tys l2))) ->
                 (is_conddir_line l2 = true -> In i (ll_toks l2) -> False) ->
                 exists c, In c (conddir_consolidate_gen srch tys lines) /\ is_voided_line c = false /\ In i (ll_toks c)).
  { intros l2 Hl2 Hi2 Hnot. destruct (Forall2_in_left _ _ _ _ F Hl2) as (c & Hc & Hr).
    destruct Hr as [->|(-> & Hcd & Hin)].
    - exists (fst (expand_line tys l2)). split; [exact Hc|]. split; [|exact Hi2].
      destruct (expand_line tys l2) as [l' ds] eqn:E. cbn [fst].
      destruct (expand_line_superset tys l2 l' ds E) as (Hty & _).
      unfold no_voided in Hnv. rewrite forallb_forall in Hnv. specialize (Hnv l2 Hl2).
      unfold is_voided_line in *. rewrite Hty. destruct (ll_type l2); try reflexivity. discriminate.
    - exfalso. destruct (singleton_line _ _ Hsing Hl2 Hcd) as (t & Et).
      rewrite (expand_line_singleton tys l2 t Et) in Hi2. cbn [fst] in Hi2. exact (Hnot Hcd Hi2). }
  destruct (Forall2_in_left _ _ _ _ F Hl) as (c & Hc & Hr).
  destruct Hr as [->|(-> & Hcd & Hin)].
  - (* the line holding i is kept (possibly expanded) *)
    destruct (is_conddir_line l) eqn:Ecd.
    + destruct (singleton_line _ _ Hsing Hl Ecd) as (t & Et).
      exists (fst (expand_line tys l)). split; [exact Hc|].
      rewrite (expand_line_singleton tys l t Et). cbn [fst]. split; [|exact Hi].
      unfold no_voided in Hnv. rewrite forallb_forall in Hnv. specialize (Hnv l Hl).
      apply negb_true_iff in Hnv. exact Hnv.
    + apply (Keep l Hl).
      * destruct (expand_line tys l) as [l' ds] eqn:E. cbn [fst].
        destruct (expand_line_superset tys l l' ds E) as (_ & _ & _ & Hincl & _). apply Hincl. exact Hi.
      * intros Hcd. congruence.
  - (* the line holding i is a voided directive line: i was absorbed by some expanded line *)
    destruct (singleton_line _ _ Hsing Hl Hcd) as (t & Et).
    rewrite (expand_line_singleton tys l t Et) in Hin. cbn [fst] in Hin.
    unfold first_tok_or0 in Hin. rewrite Et in Hin, Hi. cbn [hd] in Hin. destruct Hi as [<-|[]].
    unfold all_dirs in Hin. apply in_concat in Hin. destruct Hin as (ds & Hds & Hin).
    rewrite map_map in Hds. apply in_map_iff in Hds. destruct Hds as (l2 & <- & Hl2).
    destruct (expand_line tys l2) as [l2' ds2] eqn:E2. cbn [snd] in Hin.
    destruct (expand_line_superset tys l2 l2' ds2 E2) as (_ & _ & _ & _ & _ & _ & _ & _ & _ & _ & Hd & _).
    destruct (Hd t Hin) as (Hin' & _).
    apply (Keep l2 Hl2).
    + rewrite E2. exact Hin'.
    + intros Hcd2 _. destruct (singleton_line _ _ Hsing Hl2 Hcd2) as (t2 & Et2).
      rewrite (expand_line_singleton tys l2 t2 Et2) in E2. injection E2 as _ <-. destruct Hin.
Qed.

Theorem conddir_gen_preserves_cover lines :
  lines_cover tys lines = true ->
  conddir_lines_singleton lines = true -> no_voided lines = true ->
  lines_cover_nv tys (conddir_consolidate_gen srch tys lines) = true.
Proof.
  intros Hcov Hsing Hnv. unfold lines_cover_nv.
  destruct (existsb is_cond_directive tys) eqn:Edir.
  2:{ rewrite (conddir_gen_nodir_id srch tys lines Edir). unfold no_voided in Hnv.
      rewrite (filter_all _ _ Hnv). exact Hcov. }
  destruct (lines_cover_elim _ _ Hcov) as [Hok Hall].
  pose proof (conddir_gen_rel srch tys lines srch_sound) as F.
  apply lines_cover_intro; [exact Edir| |].
  - apply forallb_forall. intros c Hc. apply filter_In in Hc. destruct Hc as [Hc Hnvc].
    destruct (Forall2_in_right _ _ _ _ F Hc) as (l & Hl & Hr).
    destruct Hr as [->|(-> & _)]; [|discriminate].
    apply line_ok_expand; [reflexivity|]. rewrite forallb_forall in Hok. apply Hok. exact Hl.
  - intros i Hi. destruct (conddir_gen_no_token_lost lines i Hsing Hnv (Hall i Hi)) as (c & Hc & Hv & Hin).
    exists c. split; [|exact Hin]. apply filter_In. split; [exact Hc|]. rewrite Hv. reflexivity.
Qed.

End ConddirCover.

(* ================================================================== *)
(* 11. idempotence, absence of panics *)

Theorem conddir_gen_idempotent srch tys lines :
  search_sound srch ->
  conddir_consolidate_gen srch tys (conddir_consolidate_gen srch tys lines)
  = conddir_consolidate_gen srch tys lines.
Proof.
  intros Hs. apply conddir_gen_id. intros c Hc.
  destruct (Forall2_in_right _ _ _ _ (conddir_gen_rel srch tys lines Hs) Hc) as (l & _ & Hr).
  destruct Hr as [->|(-> & _)].
  - apply expand_line_idempotent.
  - apply expand_line_empty. reflexivity.
Qed.

Lemma expand_all_chk_total tys lines :
  forallb (fun l => nondecreasing (ll_toks l)) lines = true ->
  expand_all_chk tys lines = Some (expand_all tys lines).
Proof.
  unfold expand_all_chk, expand_all. induction lines as [|l t IH]; intros H; [reflexivity|].
  cbn [forallb] in H. apply andb_true_iff in H. destruct H as [Hl Ht].
  cbn [fold_right map concat]. rewrite (IH Ht), (expand_line_chk_total tys l Hl).
  destruct (expand_line tys l) as [l' d]. reflexivity.
Qed.

(* the debug-build panic (usize underflow) cannot happen on lines whose tokens are non-decreasing *)
Theorem conddir_chk_total tys lines :
  forallb (fun l => nondecreasing (ll_toks l)) lines = true ->
  conddir_consolidate_chk tys lines = Some (conddir_consolidate tys lines).
Proof.
  intros H. unfold conddir_consolidate_chk. rewrite (expand_all_chk_total tys lines H). reflexivity.
Qed.

Corollary conddir_chk_total_cover tys lines :
  lines_cover tys lines = true ->
  conddir_consolidate_chk tys lines = Some (conddir_consolidate tys lines).
Proof.
  intros H. apply conddir_chk_total. destruct (lines_cover_elim _ _ H) as [Hok _].
  apply forallb_forall. intros l Hl. rewrite forallb_forall in Hok. specialize (Hok l Hl).
  unfold line_ok in Hok. destruct (ll_toks l) as [|a r] eqn:E; [discriminate|].
  apply andb_true_iff in Hok. destruct Hok as [Hsi _]. apply strictly_increasing_nondecreasing. exact Hsi.
Qed.

(* ================================================================== *)
(* 12. the statements for the two concrete models *)

Theorem conddir_length tys lines : length (conddir_consolidate tys lines) = length lines.
Proof. apply conddir_gen_length. exact search_first_sound. Qed.

Theorem conddir_parents_unchanged tys lines :
  map ll_parent (conddir_consolidate tys lines) = map ll_parent lines
  /\ map ll_level (conddir_consolidate tys lines) = map ll_level lines.
Proof. apply conddir_gen_parents_unchanged. exact search_first_sound. Qed.

Theorem conddir_only_voids_directive_lines tys lines :
  Forall2 (fun l c => c = fst (expand_line tys l)
                      \/ (ll_type l = LLT_ConditionalDirective /\ c = void_line l))
          lines (conddir_consolidate tys lines).
Proof. apply conddir_gen_only_voids_directive_lines. exact search_first_sound. Qed.

Theorem conddir_no_token_lost tys lines i :
  conddir_lines_singleton lines = true -> no_voided lines = true ->
  (exists l, In l lines /\ In i (ll_toks l)) ->
  exists c, In c (conddir_consolidate tys lines) /\ is_voided_line c = false /\ In i (ll_toks c).
Proof. apply conddir_gen_no_token_lost. exact search_first_sound. Qed.

Theorem conddir_preserves_cover tys lines :
  lines_cover tys lines = true ->
  conddir_lines_singleton lines = true -> no_voided lines = true ->
  lines_cover_nv tys (conddir_consolidate tys lines) = true.
Proof. apply conddir_gen_preserves_cover. exact search_first_sound. Qed.

Theorem conddir_idempotent tys lines :
  conddir_consolidate tys (conddir_consolidate tys lines) = conddir_consolidate tys lines.
Proof. apply conddir_gen_idempotent. exact search_first_sound. Qed.

Theorem conddir_std_length tys lines : length (conddir_consolidate_std tys lines) = length lines.
Proof. apply conddir_gen_length. exact search_std_sound. Qed.

Theorem conddir_std_parents_unchanged tys lines :
  map ll_parent (conddir_consolidate_std tys lines) = map ll_parent lines
  /\ map ll_level (conddir_consolidate_std tys lines) = map ll_level lines.
Proof. apply conddir_gen_parents_unchanged. exact search_std_sound. Qed.

Theorem conddir_std_only_voids_directive_lines tys lines :
  Forall2 (fun l c => c = fst (expand_line tys l)
                      \/ (ll_type l = LLT_ConditionalDirective /\ c = void_line l))
          lines (conddir_consolidate_std tys lines).
Proof. apply conddir_gen_only_voids_directive_lines. exact search_std_sound. Qed.

Theorem conddir_std_preserves_cover tys lines :
  lines_cover tys lines = true ->
  conddir_lines_singleton lines = true -> no_voided lines = true ->
  lines_cover_nv tys (conddir_consolidate_std tys lines) = true.
Proof. apply conddir_gen_preserves_cover. exact search_std_sound. Qed.

Theorem conddir_std_idempotent tys lines :
  conddir_consolidate_std tys (conddir_consolidate_std tys lines) = conddir_consolidate_std tys lines.
Proof. apply conddir_gen_idempotent. exact search_std_sound. Qed.

(* ================================================================== *)
(* 13. DeindentPackageDirectives *)

Lemma deindent_line_fields l :
  ll_type (deindent_line l) = ll_type l /\ ll_parent (deindent_line l) = ll_parent l
  /\ ll_toks (deindent_line l) = ll_toks l
  /\ ll_level (deindent_line l) = if is_directive_line l then 0%N else ll_level l.
Proof. unfold deindent_line. destruct (is_directive_line l); repeat split; reflexivity. Qed.

Lemma deindent_line_idem l : deindent_line (deindent_line l) = deindent_line l.
Proof.
  unfold deindent_line. destruct (is_directive_line l) eqn:E.
  - unfold is_directive_line in *. cbn [ll_type ll_parent ll_toks]. rewrite E. reflexivity.
  - rewrite E. reflexivity.
Qed.

(* nothing but the level of CompilerDirective / ConditionalDirective lines changes, and only when
   the first token that is neither comment nor directive is the keyword `package` *)
Theorem deindent_only_levels tys lines :
  length (deindent_package tys lines) = length lines
  /\ map ll_type (deindent_package tys lines) = map ll_type lines
  /\ map ll_parent (deindent_package tys lines) = map ll_parent lines
  /\ map ll_toks (deindent_package tys lines) = map ll_toks lines
  /\ map ll_level (deindent_package tys lines)
     = map (fun l => if is_package_file tys && is_directive_line l then 0%N else ll_level l) lines
  /\ (first_real_ty tys <> Some (TT_Keyword KK_Package) -> deindent_package tys lines = lines).
Proof.
  unfold deindent_package. destruct (is_package_file tys) eqn:Ep.
  - split; [apply map_length|].
    split; [rewrite map_map; apply map_ext; intros l; apply deindent_line_fields|].
    split; [rewrite map_map; apply map_ext; intros l; apply deindent_line_fields|].
    split; [rewrite map_map; apply map_ext; intros l; apply deindent_line_fields|].
    split; [rewrite map_map; apply map_ext; intros l; apply deindent_line_fields|].
    intros Hne. exfalso. unfold is_package_file in Ep.
    destruct (first_real_ty tys) as [[| |k| | | | | | |]|]; try discriminate.
    destruct k; try discriminate. apply Hne. reflexivity.
  - repeat split; reflexivity.
Qed.

Theorem deindent_idempotent tys lines :
  deindent_package tys (deindent_package tys lines) = deindent_package tys lines.
Proof.
  unfold deindent_package. destruct (is_package_file tys); [|reflexivity].
  rewrite map_map. apply map_ext. intros l. apply deindent_line_idem.
Qed.

(* the C14 predicates only read tokens, parents and types, so they are untouched *)
Lemma count_in_lines_toks_ext i a b : map ll_toks a = map ll_toks b -> count_in_lines a i = count_in_lines b i.
Proof.
  revert b; induction a as [|x a IH]; intros b H; destruct b as [|y b]; try discriminate; [reflexivity|].
  cbn [map] in H. injection H as Hxy Hab. rewrite !count_in_lines_cons, Hxy, (IH b Hab). reflexivity.
Qed.

Lemma lines_cover_toks_ext tys a b : map ll_toks a = map ll_toks b -> lines_cover tys a = lines_cover tys b.
Proof.
  intros H. unfold lines_cover. f_equal.
  - assert (G : forallb (line_ok (length tys)) a
                = forallb (fun t => match t with [] => false
                                     | _ :: _ => strictly_increasing t && forallb (fun i => Nat.ltb i (length tys)) t end)
                          (map ll_toks a)).
    { clear. induction a as [|x a IH]; [reflexivity|]. cbn [map forallb]. rewrite IH. reflexivity. }
    assert (G' : forallb (line_ok (length tys)) b
                = forallb (fun t => match t with [] => false
                                     | _ :: _ => strictly_increasing t && forallb (fun i => Nat.ltb i (length tys)) t end)
                          (map ll_toks b)).
    { clear. induction b as [|x b IH]; [reflexivity|]. cbn [map forallb]. rewrite IH. reflexivity. }
    rewrite G, G', H. reflexivity.
  - induction (seq 0 (length tys)) as [|i s IHs]; [reflexivity|]. cbn [forallb].
    rewrite (count_in_lines_toks_ext i a b H), IHs. reflexivity.
Qed.

Theorem deindent_preserves_cover tys lines :
  lines_cover tys (deindent_package tys lines) = lines_cover tys lines
  /\ lines_cover_nv tys (deindent_package tys lines) = lines_cover_nv tys lines.
Proof.
  unfold deindent_package. destruct (is_package_file tys); [|split; reflexivity].
  split.
  - apply lines_cover_toks_ext. rewrite map_map. apply map_ext. intros l. apply deindent_line_fields.
  - unfold lines_cover_nv. apply lines_cover_toks_ext.
    induction lines as [|l t IH]; [reflexivity|]. cbn [map filter].
    destruct (deindent_line_fields l) as (Hty & _ & Htk & _).
    assert (Hv : is_voided_line (deindent_line l) = is_voided_line l)
      by (unfold is_voided_line; rewrite Hty; reflexivity).
    rewrite Hv. destruct (negb (is_voided_line l)); [|exact IH].
    cbn [map]. rewrite Htk, IH. reflexivity.
Qed.

(* ================================================================== *)
(* 14. the real binary search against the first-match model *)

(* What the binary search needs from the key list, for the one directive d it looks for: "greater
   than d" is closed to the right, "less than d" is closed to the left.  True for a sorted list;
   also true for the list of CURRENT keys during the voiding loop (see kinv_closed), although that
   list is no longer sorted once a line in the middle has been voided (its key drops to 0). *)
Definition cmp_closed (keys : list nat) (d : nat) : Prop :=
  forall i j, i <= j -> j < length keys ->
    (d < nth i keys 0 -> d < nth j keys 0) /\ (nth j keys 0 < d -> nth i keys 0 < d).

Definition at_most_one (keys : list nat) (d : nat) : Prop :=
  forall i j, i < length keys -> j < length keys -> nth i keys 0 = d -> nth j keys 0 = d -> i = j.

Lemma bsearch_loop_inv keys d : cmp_closed keys d -> forall fuel base size,
  1 <= size -> size <= fuel -> base + size <= length keys ->
  (base = 0 \/ nth base keys 0 <= d) ->
  (forall j, base + size <= j -> j < length keys -> d < nth j keys 0) ->
  exists b, bsearch_loop fuel keys d base size = Some b /\ b < length keys
            /\ (b = 0 \/ nth b keys 0 <= d)
            /\ (forall j, b < j -> j < length keys -> d < nth j keys 0).
Proof.
  intros Hc. induction fuel as [|f IH]; intros base size H1 Hf Hb Hlo Hhi; [lia|].
  cbn [bsearch_loop]. destruct (Nat.leb size 1) eqn:E.
  - apply Nat.leb_le in E. exists base. split; [reflexivity|]. split; [lia|]. split; [exact Hlo|].
    intros j Hj1 Hj2. apply Hhi; lia.
  - apply Nat.leb_gt in E. destruct (div2_bounds size E) as (Hh1 & Hh2 & Hh3). cbv zeta.
    destruct (Nat.ltb d (nth (base + Nat.div2 size) keys 0)) eqn:Ecmp.
    + apply Nat.ltb_lt in Ecmp. apply IH; [lia|lia|lia|exact Hlo|].
      intros j Hj1 Hj2. destruct (Hc (base + Nat.div2 size) j) as [Hup _]; [lia|exact Hj2|].
      apply Hup. exact Ecmp.
    + apply Nat.ltb_ge in Ecmp. apply IH; [lia|lia|lia|right; exact Ecmp|].
      intros j Hj1 Hj2. apply Hhi; lia.
Qed.

Lemma search_first_spec keys d :
  match search_first keys d with
  | Some i => i < length keys /\ nth i keys 0 = d /\ forall j, j < i -> nth j keys 0 <> d
  | None => forall j, j < length keys -> nth j keys 0 <> d
  end.
Proof.
  induction keys as [|k t IH]; cbn [search_first].
  - intros j Hj. cbn [length] in Hj. lia.
  - destruct (Nat.eqb k d) eqn:E.
    + apply Nat.eqb_eq in E. split; [cbn [length]; lia|]. split; [exact E|]. intros j Hj. lia.
    + apply Nat.eqb_neq in E. destruct (search_first t d) as [i|].
      * destruct IH as (H1 & H2 & H3). split; [cbn [length]; lia|]. split; [exact H2|].
        intros [|j] Hj; [exact E|]. cbn [nth]. apply H3. lia.
      * intros [|j] Hj; [exact E|]. cbn [nth]. apply IH. cbn [length] in Hj. lia.
Qed.

(* with "sorted enough" keys and at most one match, the real search returns the first match *)
Theorem search_std_eq_first keys d :
  cmp_closed keys d -> at_most_one keys d -> search_std keys d = search_first keys d.
Proof.
  intros Hc Hu. pose proof (search_first_spec keys d) as Hf.
  destruct (search_first keys d) as [i|].
  - destruct Hf as (Hi & Hki & _). unfold search_std.
    destruct keys as [|k t]; [cbn [length] in Hi; lia|].
    assert (Hlen : 1 <= length (k :: t)) by (cbn [length]; lia).
    set (keys := k :: t) in *.
    destruct (bsearch_loop_inv keys d Hc (length keys) 0 (length keys) Hlen (Nat.le_refl _)
                (Nat.le_refl _) (or_introl eq_refl)) as (b & Eb & Hb & Hlo & Hhi).
    { intros j Hj1 Hj2. lia. }
    rewrite Eb.
    assert (Hib : i = b).
    { destruct (Nat.lt_trichotomy i b) as [Hlt|[Heq|Hgt]].
      - destruct Hlo as [->|Hle]; [lia|].
        destruct (Nat.eq_dec (nth b keys 0) d) as [Heq|Hne]; [apply Hu; assumption|].
        exfalso. destruct (Hc i b) as [_ Hdn]; [lia|exact Hb|].
        assert (Hlt' : nth b keys 0 < d) by lia. specialize (Hdn Hlt'). lia.
      - exact Heq.
      - specialize (Hhi i Hgt Hi). lia. }
    subst b. rewrite Hki, Nat.eqb_refl. reflexivity.
  - destruct (search_std keys d) as [b|] eqn:Es; [|reflexivity]. exfalso.
    apply search_std_sound in Es. apply (Hf b).
    + apply nth_error_Some. congruence.
    + exact (nth_error_nth _ _ 0 Es).
Qed.

(* without uniqueness the real search returns the LAST match of a sorted list, the model the first;
   e.g. keys [3;3] *)
Example search_std_last_first_differ :
  search_std [3; 3] 3 = Some 1 /\ search_first [3; 3] 3 = Some 0.
Proof. split; reflexivity. Qed.

(* ---- sortedness facts ---- *)

Fixpoint sortedP (l : list nat) : Prop :=
  match l with [] => True | a :: t => (forall y, In y t -> a <= y) /\ sortedP t end.
Fixpoint sortedS (l : list nat) : Prop :=
  match l with [] => True | a :: t => (forall y, In y t -> a < y) /\ sortedS t end.

Lemma insert_by_sortedP {A} (key : A -> nat) x l :
  sortedP (map key l) -> sortedP (map key (insert_by key x l)).
Proof.
  induction l as [|y t IH]; intros H.
  - cbn. split; [intros ? []|exact I].
  - cbn [insert_by]. destruct (Nat.leb (key x) (key y)) eqn:E.
    + apply Nat.leb_le in E. cbn [map sortedP]. split; [|exact H].
      cbn [map sortedP] in H. destruct H as [H1 _].
      intros z [<-|Hz]; [exact E|]. specialize (H1 z Hz). lia.
    + apply Nat.leb_gt in E. cbn [map sortedP] in *. destruct H as [H1 H2]. split; [|apply IH; exact H2].
      intros z Hz. apply in_map_iff in Hz. destruct Hz as (w & <- & Hw).
      apply in_insert_by in Hw. destruct Hw as [<-|Hw]; [lia|]. apply H1. apply in_map. exact Hw.
Qed.

Lemma sort_by_sortedP {A} (key : A -> nat) l : sortedP (map key (sort_by key l)).
Proof.
  induction l as [|x t IH]; [exact I|]. cbn [sort_by]. apply insert_by_sortedP. exact IH.
Qed.

Lemma sortedP_nth l : sortedP l -> forall i j, i <= j -> j < length l -> nth i l 0 <= nth j l 0.
Proof.
  induction l as [|a t IH]; intros H i j Hij Hj; [cbn [length] in Hj; lia|].
  cbn [sortedP] in H. destruct H as [H1 H2]. cbn [length] in Hj.
  destruct i as [|i], j as [|j]; cbn [nth]; try lia.
  - apply H1. apply nth_In. lia.
  - apply IH; [exact H2|lia|lia].
Qed.

Lemma dedup_sortedS l : sortedP l -> sortedS (dedup l).
Proof.
  induction l as [|a t IH]; intros H; [exact I|].
  destruct t as [|b t'].
  - cbn. split; [intros ? []|exact I].
  - cbn [sortedP] in H. destruct H as [H1 H2]. specialize (IH H2).
    rewrite dedup_cons2. destruct (Nat.eqb a b) eqn:E; [exact IH|].
    apply Nat.eqb_neq in E. cbn [sortedS]. split; [|exact IH].
    intros y Hy. rewrite in_dedup in Hy.
    pose proof (H1 b (or_introl eq_refl)) as Hab.
    destruct Hy as [<-|Hy]; [lia|].
    cbn [sortedP] in H2. destruct H2 as [H3 _]. specialize (H3 y Hy). lia.
Qed.

Lemma NoDup_insert_by {A} (key : A -> nat) x l : ~ In x l -> NoDup l -> NoDup (insert_by key x l).
Proof.
  induction l as [|y t IH]; intros Hx Hnd.
  - cbn. constructor; [exact Hx|constructor].
  - cbn [insert_by]. destruct (Nat.leb (key x) (key y)).
    + constructor; assumption.
    + inversion Hnd as [|? ? Hy Ht]; subst. constructor.
      * rewrite in_insert_by. intros [->|Hin]; [apply Hx; left; reflexivity|exact (Hy Hin)].
      * apply IH; [|exact Ht]. intros Hin. apply Hx. right. exact Hin.
Qed.

Lemma NoDup_sort_by {A} (key : A -> nat) l : NoDup l -> NoDup (sort_by key l).
Proof.
  induction l as [|x t IH]; intros H; [constructor|].
  inversion H as [|? ? Hx Ht]; subst. cbn [sort_by]. apply NoDup_insert_by.
  - rewrite in_sort_by. exact Hx.
  - apply IH. exact Ht.
Qed.

Lemma nodup_nat_NoDup l : nodup_nat l = true -> NoDup l.
Proof.
  induction l as [|a t IH]; intros H; [constructor|].
  cbn [nodup_nat] in H. apply andb_true_iff in H. destruct H as [H1 H2]. constructor; [|apply IH; exact H2].
  intros Hin. apply existsb_eqb_in in Hin. rewrite Hin in H1. discriminate.
Qed.

Lemma nodup_map_filter_nth {A} (f : A -> nat) (p : A -> bool) l :
  NoDup (map f (filter p l)) ->
  forall i1 i2 a b, nth_error l i1 = Some a -> nth_error l i2 = Some b ->
  p a = true -> p b = true -> f a = f b -> i1 = i2.
Proof.
  induction l as [|x t IH]; intros Hnd i1 i2 a b H1 H2 Pa Pb Hf.
  - destruct i1; discriminate.
  - assert (Hin : forall j c, nth_error t j = Some c -> p c = true -> In (f c) (map f (filter p t))).
    { intros j c Hj Hc. apply in_map. apply filter_In. split; [exact (nth_error_In _ _ Hj)|exact Hc]. }
    assert (Hnd' : NoDup (map f (filter p t))).
    { cbn [filter] in Hnd. destruct (p x); [|exact Hnd]. cbn [map] in Hnd. inversion Hnd; assumption. }
    destruct i1 as [|i1], i2 as [|i2]; cbn [nth_error] in H1, H2.
    + reflexivity.
    + injection H1 as <-. exfalso. cbn [filter] in Hnd. rewrite Pa in Hnd. cbn [map] in Hnd.
      inversion Hnd as [|? ? Hnot _]; subst. apply Hnot. rewrite Hf. exact (Hin _ _ H2 Pb).
    + injection H2 as <-. exfalso. cbn [filter] in Hnd. rewrite Pb in Hnd. cbn [map] in Hnd.
      inversion Hnd as [|? ? Hnot _]; subst. apply Hnot. rewrite <- Hf. exact (Hin _ _ H1 Pa).
    + f_equal. exact (IH Hnd' _ _ _ _ H1 H2 Pa Pb Hf).
Qed.

Lemma nth_update_nth_other {A} (f : A -> A) (d : A) l : forall i j,
  j <> i -> nth j (update_nth i f l) d = nth j l d.
Proof.
  induction l as [|x t IH]; intros i j Hne; [destruct i; reflexivity|].
  destruct i as [|i], j as [|j]; cbn [update_nth nth]; try reflexivity; try lia.
  apply IH. lia.
Qed.

Lemma nth_update_nth_same {A} (f : A -> A) (d : A) l : forall i,
  i < length l -> nth i (update_nth i f l) d = f (nth i l d).
Proof.
  induction l as [|x t IH]; intros i Hi; [cbn [length] in Hi; lia|].
  destruct i as [|i]; cbn [update_nth nth]; [reflexivity|]. apply IH. cbn [length] in Hi. lia.
Qed.

Lemma line_key_update_same cur i : line_key (update_nth i void_line cur) i = 0.
Proof.
  unfold line_key. destruct (Nat.ltb i (length cur)) eqn:E.
  - apply Nat.ltb_lt in E. rewrite (nth_update_nth_same _ _ _ _ E). reflexivity.
  - apply Nat.ltb_ge in E. rewrite nth_overflow; [reflexivity|]. rewrite update_nth_length. exact E.
Qed.

Lemma line_key_update_other cur i j : j <> i -> line_key (update_nth i void_line cur) j = line_key cur j.
Proof. intros H. unfold line_key. rewrite (nth_update_nth_other _ _ _ _ _ H). reflexivity. Qed.

Section StdEqFirst.
Variable lines1 : list lline.
Hypothesis Huniq : unique_first_tokens lines1 = true.

Definition kinv (cur : list lline) (rem : list nat) : Prop :=
  forall j, In j (directive_line_order lines1) ->
    line_key cur j = line_key lines1 j
    \/ (line_key cur j = 0 /\ forall d, In d rem -> line_key lines1 j < d).

Lemma keys_nth cur p :
  p < length (directive_line_order lines1) ->
  nth p (map (line_key cur) (directive_line_order lines1)) 0
  = line_key cur (nth p (directive_line_order lines1) 0).
Proof.
  intros H. rewrite (nth_indep _ 0 (line_key cur 0)) by (rewrite map_length; exact H). apply map_nth.
Qed.

Lemma okeys_sorted p q :
  p <= q -> q < length (directive_line_order lines1) ->
  line_key lines1 (nth p (directive_line_order lines1) 0)
  <= line_key lines1 (nth q (directive_line_order lines1) 0).
Proof.
  intros Hpq Hq. rewrite <- !keys_nth by lia.
  apply sortedP_nth; [|exact Hpq|rewrite map_length; exact Hq].
  unfold directive_line_order. apply sort_by_sortedP.
Qed.

Lemma order_NoDup : NoDup (directive_line_order lines1).
Proof. unfold directive_line_order. apply NoDup_sort_by. apply NoDup_filter. apply seq_NoDup. Qed.

Lemma okeys_unique p q :
  p < length (directive_line_order lines1) -> q < length (directive_line_order lines1) ->
  line_key lines1 (nth p (directive_line_order lines1) 0)
  = line_key lines1 (nth q (directive_line_order lines1) 0) ->
  1 <= line_key lines1 (nth p (directive_line_order lines1) 0) ->
  p = q.
Proof.
  intros Hp Hq Heq Hpos.
  set (j1 := nth p (directive_line_order lines1) 0) in *.
  set (j2 := nth q (directive_line_order lines1) 0) in *.
  destruct (directive_line_order_spec lines1 j1 (nth_In _ _ Hp)) as (o1 & Ho1 & Hc1).
  destruct (directive_line_order_spec lines1 j2 (nth_In _ _ Hq)) as (o2 & Ho2 & Hc2).
  unfold line_key in Heq, Hpos.
  rewrite (nth_error_nth _ _ dummy_line Ho1) in Heq, Hpos. rewrite (nth_error_nth _ _ dummy_line Ho2) in Heq.
  assert (Hj : j1 = j2).
  { unfold unique_first_tokens in Huniq. apply nodup_nat_NoDup in Huniq.
    apply (nodup_map_filter_nth _ _ _ Huniq j1 j2 o1 o2 Ho1 Ho2); [| |exact Heq].
    - rewrite Hc1. unfold first_tok_or0 in Hpos. destruct (ll_toks o1); [cbn [hd] in Hpos; lia|reflexivity].
    - rewrite Hc2. unfold first_tok_or0 in Hpos, Heq. rewrite Heq in Hpos.
      destruct (ll_toks o2); [cbn [hd] in Hpos; lia|reflexivity]. }
  apply (proj1 (NoDup_nth _ 0) order_NoDup); [exact Hp|exact Hq|exact Hj].
Qed.

Lemma kinv_closed cur d rem :
  1 <= d -> kinv cur (d :: rem) ->
  cmp_closed (map (line_key cur) (directive_line_order lines1)) d
  /\ at_most_one (map (line_key cur) (directive_line_order lines1)) d.
Proof.
  intros Hd Hk. split.
  - intros i j Hij Hj. rewrite map_length in Hj. rewrite !keys_nth by lia.
    pose proof (okeys_sorted i j Hij Hj) as Hs.
    assert (Hi : i < length (directive_line_order lines1)) by lia.
    destruct (Hk _ (nth_In _ 0 Hi)) as [Ei|[Ei Li]];
    destruct (Hk _ (nth_In _ 0 Hj)) as [Ej|[Ej Lj]]; rewrite Ei, Ej.
    + split; lia.
    + specialize (Lj d (or_introl eq_refl)). split; lia.
    + split; lia.
    + split; lia.
  - intros i j Hi Hj Ei Ej. rewrite map_length in Hi, Hj. rewrite keys_nth in Ei, Ej by lia.
    destruct (Hk _ (nth_In _ 0 Hi)) as [Ei'|[Ei' _]]; [|lia].
    destruct (Hk _ (nth_In _ 0 Hj)) as [Ej'|[Ej' _]]; [|lia].
    apply okeys_unique; [exact Hi|exact Hj|lia|lia].
Qed.

Lemma kinv_step cur d rem :
  1 <= d -> (forall d', In d' rem -> d < d') -> kinv cur (d :: rem) ->
  kinv (void_step search_first (directive_line_order lines1) cur d) rem.
Proof.
  intros Hd Hlt Hk.
  assert (Hweak : kinv cur rem).
  { intros j Hj. destruct (Hk j Hj) as [E|[E L]]; [left; exact E|right].
    split; [exact E|]. intros d' Hd'. apply L. right. exact Hd'. }
  unfold void_step.
  destruct (search_first (map (line_key cur) (directive_line_order lines1)) d) as [pos|] eqn:Es; [|exact Hweak].
  destruct (nth_error (directive_line_order lines1) pos) as [i|] eqn:Ei; [|exact Hweak].
  apply search_first_sound in Es. rewrite (map_nth_error (line_key cur) _ _ Ei) in Es. injection Es as Ekey.
  intros j Hj. destruct (Nat.eq_dec j i) as [->|Hne].
  - right. split; [apply line_key_update_same|].
    destruct (Hk i Hj) as [E|[E L]].
    + intros d' Hd'. specialize (Hlt d' Hd'). lia.
    + intros d' Hd'. apply L. right. exact Hd'.
  - rewrite (line_key_update_other _ _ _ Hne). exact (Hweak j Hj).
Qed.

Lemma void_phase_std_eq_first : forall dirs cur,
  sortedS dirs -> (forall d, In d dirs -> 1 <= d) -> kinv cur dirs ->
  void_phase search_std (directive_line_order lines1) dirs cur
  = void_phase search_first (directive_line_order lines1) dirs cur.
Proof.
  induction dirs as [|d rem IH]; intros cur Hs Hpos Hk; [reflexivity|].
  cbn [sortedS] in Hs. destruct Hs as [Hlt Hs'].
  pose proof (Hpos d (or_introl eq_refl)) as Hd.
  destruct (kinv_closed cur d rem Hd Hk) as [Hc Hu].
  unfold void_phase. cbn [fold_left].
  assert (Estep : void_step search_std (directive_line_order lines1) cur d
                  = void_step search_first (directive_line_order lines1) cur d).
  { unfold void_step. rewrite (search_std_eq_first _ _ Hc Hu). reflexivity. }
  rewrite Estep. apply IH; [exact Hs'| |].
  - intros d' Hd'. apply Hpos. right. exact Hd'.
  - apply kinv_step; assumption.
Qed.

End StdEqFirst.

Lemma unique_first_tokens_expand tys lines :
  unique_first_tokens (map (fun l => fst (expand_line tys l)) lines) = unique_first_tokens lines.
Proof.
  unfold unique_first_tokens. f_equal.
  induction lines as [|l t IH]; [reflexivity|]. cbn [map filter].
  destruct (expand_line tys l) as [l' ds] eqn:E. cbn [fst].
  destruct (expand_line_superset tys l l' ds E) as (Hty & _ & _ & _ & Hhd & _ & Hnil & _).
  assert (Hp : is_conddir_line l' && negb (match ll_toks l' with [] => true | _ :: _ => false end)
               = is_conddir_line l && negb (match ll_toks l with [] => true | _ :: _ => false end)).
  { unfold is_conddir_line. rewrite Hty. f_equal. f_equal.
    destruct (ll_toks l') as [|a r], (ll_toks l) as [|a0 r0]; try reflexivity.
    - destruct Hnil as [Hnil _]. specialize (Hnil eq_refl). discriminate.
    - destruct Hnil as [_ Hnil]. specialize (Hnil eq_refl). discriminate. }
  rewrite Hp. destruct (is_conddir_line l && negb _); [|exact IH].
  cbn [map]. unfold first_tok_or0 at 1 3. rewrite Hhd, IH. reflexivity.
Qed.

(* When no two non-empty ConditionalDirective lines start with the same token, the first-match
   model and the model with the toolchain's binary search are the same function. *)
Theorem conddir_std_eq_first tys lines :
  unique_first_tokens lines = true ->
  conddir_consolidate_std tys lines = conddir_consolidate tys lines.
Proof.
  intros Hu. unfold conddir_consolidate_std, conddir_consolidate, conddir_consolidate_gen, expand_all.
  rewrite map_map. set (lines1 := map (fun l => fst (expand_line tys l)) lines).
  apply void_phase_std_eq_first.
  - unfold lines1. rewrite unique_first_tokens_expand. exact Hu.
  - apply dedup_sortedS. rewrite <- (map_id (sort_by (fun d => d) _)). apply sort_by_sortedP.
  - intros d Hd. rewrite in_dedup, in_sort_by in Hd. apply in_concat in Hd. destruct Hd as (ds & Hds & Hd).
    rewrite map_map in Hds. apply in_map_iff in Hds. destruct Hds as (l & <- & _).
    destruct (expand_line tys l) as [l' ds] eqn:E. cbn [snd] in Hd.
    destruct (expand_line_superset tys l l' ds E) as (_ & _ & _ & _ & _ & _ & _ & _ & _ & _ & Hdd & _).
    destruct (Hdd d Hd) as (_ & _ & Hrange). lia.
  - intros j _. left. reflexivity.
Qed.

(* ================================================================== *)
(* 15. parents_ok (Model/Lines.v) is preserved when no child hangs off a directive line *)

Definition parents_not_conddir (lines : list lline) : bool :=
  forallb (fun l => match ll_parent l with
                    | None => true
                    | Some (pl, _) => match nth_error lines pl with
                                      | Some p => negb (is_conddir_line p)
                                      | None => true
                                      end
                    end) lines.

Definition prel (l c : lline) : Prop :=
  ll_parent c = ll_parent l /\ (is_conddir_line l = false -> incl (ll_toks l) (ll_toks c)).

Lemma parents_ok_from_rel all all' : Forall2 prel all all' ->
  forall rest rest', Forall2 prel rest rest' -> forall i,
  (forall l, In l rest -> forall pl pt p, ll_parent l = Some (pl, pt) -> nth_error all pl = Some p ->
                          is_conddir_line p = false) ->
  parents_ok_from all i rest = true -> parents_ok_from all' i rest' = true.
Proof.
  intros Fall. induction 1 as [|l c rest rest' Hlc Hrest IH]; intros i Hnc H; [reflexivity|].
  cbn [parents_ok_from] in *. apply andb_true_iff in H. destruct H as [H1 H2].
  apply andb_true_iff. split.
  - destruct Hlc as [Hpar _]. rewrite Hpar. destruct (ll_parent l) as [[pl pt]|] eqn:Ep; [|reflexivity].
    apply andb_true_iff in H1. destruct H1 as [Hlt Hp]. rewrite Hlt. cbn [andb].
    destruct (nth_error all pl) as [p|] eqn:Enth; [|discriminate].
    destruct (Forall2_nth_error_left _ _ _ Fall _ _ Enth) as (p' & Ep' & _ & Hincl). rewrite Ep'.
    apply existsb_eqb_in. apply Hincl.
    + exact (Hnc l (or_introl eq_refl) pl pt p Ep Enth).
    + apply existsb_eqb_in. exact Hp.
  - apply IH; [|exact H2]. intros l0 Hl0. apply Hnc. right. exact Hl0.
Qed.

Theorem conddir_gen_preserves_parents_ok srch tys lines :
  search_sound srch ->
  parents_ok lines = true -> parents_not_conddir lines = true ->
  parents_ok (conddir_consolidate_gen srch tys lines) = true.
Proof.
  intros Hs Hp Hnc. unfold parents_ok in *.
  assert (F : Forall2 prel lines (conddir_consolidate_gen srch tys lines)).
  { refine (Forall2_impl _ _ _ _ _ (conddir_gen_rel srch tys lines Hs)). intros l c _ _ Hr.
    destruct (expand_line tys l) as [l' ds] eqn:E.
    destruct (expand_line_superset tys l l' ds E) as (_ & _ & Hpa & Hincl & _).
    unfold conddir_rel in Hr. rewrite E in Hr. cbn [fst] in Hr.
    destruct Hr as [->|(-> & Hcd & _)].
    - split; [exact Hpa|intros _; exact Hincl].
    - split; [reflexivity|]. intros Hcd'. congruence. }
  apply (parents_ok_from_rel _ _ F _ _ F 0); [|exact Hp].
  intros l Hl pl pt p Ep Enth. unfold parents_not_conddir in Hnc. rewrite forallb_forall in Hnc.
  specialize (Hnc l Hl). rewrite Ep, Enth in Hnc. apply negb_true_iff in Hnc. exact Hnc.
Qed.

Theorem conddir_preserves_parents_ok tys lines :
  parents_ok lines = true -> parents_not_conddir lines = true ->
  parents_ok (conddir_consolidate tys lines) = true.
Proof. apply conddir_gen_preserves_parents_ok. exact search_first_sound. Qed.

(* ================================================================== *)
(* 16. eof_line_ok (Model/Lines.v) is preserved *)

Definition is_eof_line (l : lline) : bool := match ll_type l with LLT_Eof => true | _ => false end.

Lemma filter_Forall2_same {A} (p : A -> bool) l1 l2 :
  Forall2 (fun a b => (p a = true -> b = a) /\ (p a = false -> p b = false)) l1 l2 ->
  filter p l2 = filter p l1.
Proof.
  induction 1 as [|a b l1 l2 [H1 H2] Hrest IH]; [reflexivity|]. cbn [filter].
  destruct (p a) eqn:E.
  - rewrite (H1 eq_refl), E, IH. reflexivity.
  - rewrite (H2 eq_refl), IH. reflexivity.
Qed.

Lemma added_ok_not_eof tys t : added_ok tys t = true -> nth_error tys t <> Some TT_Eof.
Proof.
  unfold added_ok, is_cond_directive_at, cond_kind_at, is_allowed_token. intros H E. rewrite E in H.
  discriminate.
Qed.

Theorem conddir_gen_preserves_eof_line_ok srch tys lines :
  search_sound srch ->
  eof_line_ok tys lines = true -> eof_line_ok tys (conddir_consolidate_gen srch tys lines) = true.
Proof.
  intros Hs H. pose proof (conddir_gen_rel srch tys lines Hs) as F.
  unfold eof_line_ok in *. apply andb_true_iff in H. destruct H as [H1 H2].
  fold is_eof_line in *.
  destruct (filter is_eof_line lines) as [|e [|e2 rest]] eqn:Ef; try discriminate.
  destruct (ll_toks e) as [|ei [|ei2 erest]] eqn:Ee; try discriminate.
  apply andb_true_iff in H1. destruct H1 as [Hlast Hty].
  apply Nat.eqb_eq in Hlast.
  assert (Heof : nth_error tys ei = Some TT_Eof).
  { destruct (nth_error tys ei) as [[]|]; try discriminate. reflexivity. }
  assert (Hfil : filter is_eof_line (conddir_consolidate_gen srch tys lines) = filter is_eof_line lines).
  { apply filter_Forall2_same. refine (Forall2_impl _ _ _ _ _ F). intros l c Hl _ Hr. split.
    - intros Hle. assert (Hin : In l (filter is_eof_line lines)) by (apply filter_In; split; assumption).
      rewrite Ef in Hin. destruct Hin as [<-|[]].
      destruct Hr as [->|(_ & Hcd & _)].
      + rewrite (expand_line_singleton tys e ei Ee). reflexivity.
      + unfold is_eof_line in Hle. unfold is_conddir_line in Hcd. destruct (ll_type e); discriminate.
    - intros Hle. destruct Hr as [->|(-> & _)]; [|reflexivity].
      destruct (expand_line tys l) as [l' ds] eqn:E. cbn [fst].
      destruct (expand_line_superset tys l l' ds E) as (Hty' & _). unfold is_eof_line in *. rewrite Hty'. exact Hle. }
  apply andb_true_iff. split.
  - rewrite Hfil, Ef, Ee. apply andb_true_iff. split; [apply Nat.eqb_eq; exact Hlast|exact Hty].
  - apply forallb_forall. intros c Hc.
    destruct (Forall2_in_right _ _ _ _ F Hc) as (l & Hl & Hr).
    rewrite forallb_forall in H2. specialize (H2 l Hl).
    destruct Hr as [->|(-> & _)]; [|reflexivity].
    destruct (expand_line tys l) as [l' ds] eqn:E. cbn [fst].
    destruct (expand_line_superset tys l l' ds E) as (Hty' & _ & _ & _ & _ & _ & _ & _ & _ & Hadd & _).
    rewrite Hty'. destruct (ll_type l); try reflexivity;
      (apply negb_true_iff; apply negb_true_iff in H2;
       destruct (existsb (fun i => Nat.eqb (S i) (length tys)) (ll_toks l')) eqn:Ex; [exfalso|reflexivity];
       apply existsb_exists in Ex; destruct Ex as (t & Ht & Et); apply Nat.eqb_eq in Et;
       destruct (Hadd t Ht) as [Hold|[Hok _]];
       [ assert (Hx : existsb (fun i => Nat.eqb (S i) (length tys)) (ll_toks l) = true)
           by (apply existsb_exists; exists t; split; [exact Hold|apply Nat.eqb_eq; exact Et]);
         congruence
       | apply (added_ok_not_eof tys t Hok); assert (t = ei) by lia; subst t; exact Heof ]).
Qed.

Theorem conddir_preserves_eof_line_ok tys lines :
  eof_line_ok tys lines = true -> eof_line_ok tys (conddir_consolidate tys lines) = true.
Proof. apply conddir_gen_preserves_eof_line_ok. exact search_first_sound. Qed.

(* ================================================================== *)
(* 17. examples (inputs and expected outputs are the harness' LINES parsed / conddir / deindent
       blocks for the quoted sources) *)

(* Foo {$ifdef A} Bar {$else} Baz {$endif} ; *)
Definition ex1_tys : list TokenType :=
  [TT_Identifier; TT_ConditionalDirective CDK_Ifdef; TT_Identifier; TT_ConditionalDirective CDK_Else;
   TT_Identifier; TT_ConditionalDirective CDK_Endif; TT_Op OK_Semicolon; TT_Eof].
Definition ex1_parsed : list lline :=
  [mkLine LLT_Unknown 0%N None [0;2;6];
   mkLine LLT_Eof 0%N None [7];
   mkLine LLT_Unknown 0%N None [0;4;6];
   mkLine LLT_ConditionalDirective 0%N None [1];
   mkLine LLT_ConditionalDirective 0%N None [3];
   mkLine LLT_ConditionalDirective 0%N None [5]].
Definition ex1_conddir : list lline :=
  [mkLine LLT_Unknown 0%N None [0;1;2;3;4;5;6];
   mkLine LLT_Eof 0%N None [7];
   mkLine LLT_Unknown 0%N None [0;1;2;3;4;5;6];
   mkLine LLT_Voided 0%N None [];
   mkLine LLT_Voided 0%N None [];
   mkLine LLT_Voided 0%N None []].

Example ex1_expand_pass1 :
  expand_line ex1_tys (mkLine LLT_Unknown 0%N None [0;2;6])
  = (mkLine LLT_Unknown 0%N None [0;1;2;3;4;5;6], [1;3;5]).
Proof. reflexivity. Qed.
Example ex1_expand_pass2 :
  expand_line ex1_tys (mkLine LLT_Unknown 0%N None [0;4;6])
  = (mkLine LLT_Unknown 0%N None [0;1;2;3;4;5;6], [1;3;5]).
Proof. reflexivity. Qed.
Example ex1_consolidate : conddir_consolidate ex1_tys ex1_parsed = ex1_conddir.
Proof. reflexivity. Qed.
Example ex1_consolidate_std : conddir_consolidate_std ex1_tys ex1_parsed = ex1_conddir.
Proof. reflexivity. Qed.
Example ex1_consolidate_chk : conddir_consolidate_chk ex1_tys ex1_parsed = Some ex1_conddir.
Proof. reflexivity. Qed.
(* hypotheses of conddir_preserves_cover / conddir_std_eq_first hold, and so does the conclusion *)
Example ex1_hyps :
  lines_cover ex1_tys ex1_parsed = true /\ conddir_lines_singleton ex1_parsed = true
  /\ no_voided ex1_parsed = true /\ unique_first_tokens ex1_parsed = true
  /\ eof_line_ok ex1_tys ex1_parsed = true
  /\ forallb (fun l => nondecreasing (ll_toks l)) ex1_parsed = true
  /\ lines_cover_nv ex1_tys ex1_conddir = true.
Proof. repeat split; reflexivity. Qed.
Example ex1_contiguous_hyps :
  snd (expand_line ex1_tys (mkLine LLT_Unknown 0%N None [0;2;6])) <> []
  /\ strictly_increasing [0;2;6] = true.
Proof. split; [discriminate|reflexivity]. Qed.

(* if A then
   A := {$ifdef A} B1 {$else} B2 {$endif} + C ;      (child lines keep parent and level) *)
Definition ex2_tys : list TokenType :=
  [TT_Keyword KK_If; TT_Identifier; TT_Keyword KK_Then; TT_Identifier; TT_Op OK_Assign;
   TT_ConditionalDirective CDK_Ifdef; TT_Identifier; TT_ConditionalDirective CDK_Else; TT_Identifier;
   TT_ConditionalDirective CDK_Endif; TT_Op OK_Plus; TT_Identifier; TT_Op OK_Semicolon; TT_Eof].
Definition ex2_parsed : list lline :=
  [mkLine LLT_Unknown 0%N None [0;1;2];
   mkLine LLT_Assignment 1%N (Some (0,2)) [3;4;6;10;11;12];
   mkLine LLT_Eof 0%N None [13];
   mkLine LLT_Assignment 1%N (Some (0,2)) [3;4;8;10;11;12];
   mkLine LLT_ConditionalDirective 0%N None [5];
   mkLine LLT_ConditionalDirective 0%N None [7];
   mkLine LLT_ConditionalDirective 0%N None [9]].
Definition ex2_conddir : list lline :=
  [mkLine LLT_Unknown 0%N None [0;1;2];
   mkLine LLT_Assignment 1%N (Some (0,2)) [3;4;5;6;7;8;9;10;11;12];
   mkLine LLT_Eof 0%N None [13];
   mkLine LLT_Assignment 1%N (Some (0,2)) [3;4;5;6;7;8;9;10;11;12];
   mkLine LLT_Voided 0%N None [];
   mkLine LLT_Voided 0%N None [];
   mkLine LLT_Voided 0%N None []].
Example ex2_consolidate :
  conddir_consolidate ex2_tys ex2_parsed = ex2_conddir
  /\ conddir_consolidate_std ex2_tys ex2_parsed = ex2_conddir.
Proof. split; reflexivity. Qed.
Example ex2_parents_hyps :
  parents_ok ex2_parsed = true /\ parents_not_conddir ex2_parsed = true /\ parents_ok ex2_conddir = true.
Proof. repeat split; reflexivity. Qed.

(* ignored: A := B {$ifdef} + B {$endif} ;  -- `+` after the {$ifdef} is not an allowed token *)
Example ex3_ignored :
  let tys := [TT_Identifier; TT_Op OK_Assign; TT_Identifier; TT_ConditionalDirective CDK_Ifdef;
              TT_Op OK_Plus; TT_Identifier; TT_ConditionalDirective CDK_Endif; TT_Op OK_Semicolon; TT_Eof] in
  let lines := [mkLine LLT_Assignment 0%N None [0;1;2;4;5;7];
                mkLine LLT_Eof 0%N None [8];
                mkLine LLT_ConditionalDirective 0%N None [3];
                mkLine LLT_ConditionalDirective 0%N None [6]] in
  conddir_consolidate tys lines = lines.
Proof. reflexivity. Qed.

(* ignored: nested directives  A := {$ifdef X} {$ifdef Y} B {$endif} {$endif} ; *)
Example ex4_nested_ignored :
  let tys := [TT_Identifier; TT_Op OK_Assign; TT_ConditionalDirective CDK_Ifdef;
              TT_ConditionalDirective CDK_Ifdef; TT_Identifier; TT_ConditionalDirective CDK_Endif;
              TT_ConditionalDirective CDK_Endif; TT_Op OK_Semicolon; TT_Eof] in
  let lines := [mkLine LLT_Assignment 0%N None [0;1;4;7];
                mkLine LLT_Eof 0%N None [8];
                mkLine LLT_ConditionalDirective 0%N None [2];
                mkLine LLT_ConditionalDirective 1%N None [3];
                mkLine LLT_ConditionalDirective 1%N None [5];
                mkLine LLT_ConditionalDirective 0%N None [6]] in
  conddir_consolidate tys lines = lines.
Proof. reflexivity. Qed.

(* package Foo; {$IFDEF I} {$ALIGN 8} {$IMAGEBASE $400000} {$DEFINE RELEASE} {$ENDIF I}
   {$IMPLICITBUILD ON} end. *)
Definition ex5_tys : list TokenType :=
  [TT_Keyword KK_Package; TT_Identifier; TT_Op OK_Semicolon; TT_ConditionalDirective CDK_Ifdef;
   TT_CompilerDirective; TT_CompilerDirective; TT_CompilerDirective; TT_ConditionalDirective CDK_Endif;
   TT_CompilerDirective; TT_Keyword KK_End; TT_Op OK_Dot; TT_Eof].
Definition ex5_lines : list lline :=
  [mkLine LLT_Unknown 0%N None [0;1;2];
   mkLine LLT_Unknown 0%N None [9;10];
   mkLine LLT_Eof 0%N None [11];
   mkLine LLT_ConditionalDirective 0%N None [3];
   mkLine LLT_CompilerDirective 1%N None [4];
   mkLine LLT_CompilerDirective 1%N None [5];
   mkLine LLT_CompilerDirective 1%N None [6];
   mkLine LLT_ConditionalDirective 0%N None [7];
   mkLine LLT_CompilerDirective 0%N None [8]].
Example ex5_deindent :
  deindent_package ex5_tys (conddir_consolidate ex5_tys ex5_lines)
  = [mkLine LLT_Unknown 0%N None [0;1;2];
     mkLine LLT_Unknown 0%N None [9;10];
     mkLine LLT_Eof 0%N None [11];
     mkLine LLT_ConditionalDirective 0%N None [3];
     mkLine LLT_CompilerDirective 0%N None [4];
     mkLine LLT_CompilerDirective 0%N None [5];
     mkLine LLT_CompilerDirective 0%N None [6];
     mkLine LLT_ConditionalDirective 0%N None [7];
     mkLine LLT_CompilerDirective 0%N None [8]].
Proof. reflexivity. Qed.
(* `program` instead of `package`: untouched; comments/directives before `package` are skipped *)
Example ex5_program_untouched :
  deindent_package (TT_Keyword KK_Program :: tl ex5_tys) ex5_lines = ex5_lines.
Proof. reflexivity. Qed.
Example ex5_leading_comment :
  is_package_file (TT_Comment CoK_IndividualLine :: TT_ConditionalDirective CDK_Ifdef :: ex5_tys) = true
  /\ is_package_file [TT_Comment CoK_IndividualLine; TT_Eof] = false
  /\ is_package_file [] = false.
Proof. repeat split; reflexivity. Qed.

(* ---- corner cases of expand_line ---- *)

(* debug-build panic: tokens [0;2;1], window (2,1) is reached because the gap before 2 is fine *)
Example ex_panic_reached :
  expand_line_chk [TT_Identifier; TT_ConditionalDirective CDK_Ifdef; TT_Identifier]
                  (mkLine LLT_Unknown 0%N None [0;2;1]) = None
  /\ nondecreasing [0;2;1] = false.
Proof. split; reflexivity. Qed.
(* ... but an earlier `return vec![]` wins: the gap 1..4 of [0;5;3] is not a directive pattern *)
Example ex_panic_not_reached :
  let l := mkLine LLT_Unknown 0%N None [0;5;3] in
  expand_line_chk [TT_Identifier; TT_Identifier; TT_Identifier; TT_Identifier; TT_Identifier; TT_Identifier] l
  = Some (l, []).
Proof. reflexivity. Qed.
(* last < first panics before anything else *)
Example ex_panic_first : expand_line_chk [] (mkLine LLT_Unknown 0%N None [5;3]) = None.
Proof. reflexivity. Qed.
(* duplicates are not an error: [0;0;3;5] with {$ifdef} {$else} at 1,2 and {$endif} at 4 *)
Example ex_duplicates :
  expand_line [TT_Identifier; TT_ConditionalDirective CDK_Ifdef; TT_ConditionalDirective CDK_Else;
               TT_Identifier; TT_ConditionalDirective CDK_Endif; TT_Op OK_Semicolon]
              (mkLine LLT_Unknown 0%N None [0;0;3;5])
  = (mkLine LLT_Unknown 0%N None [0;0;1;2;3;4;5], [1;2;4]).
Proof. reflexivity. Qed.
(* an {$ifdef}{$endif} pair with nothing between them inside one gap is NOT a recognised pattern *)
Example ex_empty_branch_ignored :
  let l := mkLine LLT_Unknown 0%N None [0;3] in
  expand_line [TT_Identifier; TT_ConditionalDirective CDK_Ifdef; TT_ConditionalDirective CDK_Endif; TT_Identifier] l
  = (l, []).
Proof. reflexivity. Qed.
(* the contiguity shortcut is only a length comparison: [0;0;2] counts as "sequential" *)
Example ex_contiguity_shortcut :
  let l := mkLine LLT_Unknown 0%N None [0;0;2] in
  expand_line [TT_Identifier; TT_ConditionalDirective CDK_Ifdef; TT_Identifier] l = (l, []).
Proof. reflexivity. Qed.
(* the first token of the line is never checked, the token after {$endif} neither *)
Example ex_first_token_unchecked :
  expand_line [TT_Op OK_LParen; TT_ConditionalDirective CDK_Ifdef; TT_Identifier;
               TT_ConditionalDirective CDK_Endif; TT_Op OK_RParen]
              (mkLine LLT_Unknown 0%N None [0;2;4])
  = (mkLine LLT_Unknown 0%N None [0;1;2;3;4], [1;3]).
Proof. reflexivity. Qed.

(* ---- the side conditions are needed ---- *)

(* A ConditionalDirective line holding MORE than its directive is voided as a whole as soon as its
   first token is absorbed elsewhere: token 5 disappears from all non-voided lines. *)
Example cover_needs_singleton_refuted :
  let tys := [TT_Identifier; TT_ConditionalDirective CDK_Ifdef; TT_Identifier;
              TT_ConditionalDirective CDK_Endif; TT_Op OK_Semicolon; TT_Identifier; TT_Eof] in
  let lines := [mkLine LLT_Assignment 0%N None [0;2;4];
                mkLine LLT_ConditionalDirective 0%N None [1;5];
                mkLine LLT_ConditionalDirective 0%N None [3];
                mkLine LLT_Eof 0%N None [6]] in
  lines_cover tys lines = true /\ no_voided lines = true /\ unique_first_tokens lines = true
  /\ conddir_lines_singleton lines = false
  /\ conddir_consolidate tys lines
     = [mkLine LLT_Assignment 0%N None [0;1;2;3;4];
        mkLine LLT_Voided 0%N None [];
        mkLine LLT_Voided 0%N None [];
        mkLine LLT_Eof 0%N None [6]]
  /\ lines_cover_nv tys (conddir_consolidate tys lines) = false.
Proof. repeat split; reflexivity. Qed.

(* Two ConditionalDirective lines starting with the same token: exactly one is voided; the real
   binary search (this toolchain) takes the last of the equal keys, the first-match model the first *)
Example duplicate_keys_std_vs_first :
  let tys := [TT_Identifier; TT_ConditionalDirective CDK_Ifdef; TT_Identifier;
              TT_ConditionalDirective CDK_Endif; TT_Op OK_Semicolon; TT_Eof] in
  let lines := [mkLine LLT_Assignment 0%N None [0;2;4];
                mkLine LLT_ConditionalDirective 0%N None [1];
                mkLine LLT_ConditionalDirective 1%N None [1];
                mkLine LLT_ConditionalDirective 0%N None [3];
                mkLine LLT_Eof 0%N None [5]] in
  unique_first_tokens lines = false
  /\ map ll_type (conddir_consolidate tys lines)
     = [LLT_Assignment; LLT_Voided; LLT_ConditionalDirective; LLT_Voided; LLT_Eof]
  /\ map ll_type (conddir_consolidate_std tys lines)
     = [LLT_Assignment; LLT_ConditionalDirective; LLT_Voided; LLT_Voided; LLT_Eof].
Proof. repeat split; reflexivity. Qed.

(* The key list seen by the binary search is NOT sorted once a line in the middle has been voided:
   directive lines with first tokens 1,2,5,7; tokens 5 and 7 are absorbed; when 7 is searched the
   keys are [1;2;0;7].  The search still succeeds (cmp_closed holds, see kinv_closed). *)
Example keys_unsorted_during_voiding :
  search_std [1;2;0;7] 7 = Some 3 /\ search_first [1;2;0;7] 7 = Some 3
  /\ cmp_closed [1;2;0;7] 7 /\ at_most_one [1;2;0;7] 7.
Proof.
  split; [reflexivity|]. split; [reflexivity|]. split.
  - intros i j Hij Hj. cbn [length] in Hj.
    destruct i as [|[|[|[|i]]]], j as [|[|[|[|j]]]]; cbn [nth]; lia.
  - intros i j Hi Hj Ei Ej. cbn [length] in Hi, Hj.
    destruct i as [|[|[|[|i]]]], j as [|[|[|[|j]]]]; cbn [nth] in Ei, Ej; lia.
Qed.
Example keys_unsorted_during_voiding_lines :
  let tys := [TT_Identifier; TT_ConditionalDirective CDK_Ifdef; TT_ConditionalDirective CDK_Endif;
              TT_Identifier; TT_Op OK_Assign; TT_ConditionalDirective CDK_Ifdef; TT_Identifier;
              TT_ConditionalDirective CDK_Endif; TT_Op OK_Semicolon; TT_Eof] in
  let lines := [mkLine LLT_Unknown 0%N None [0];
                mkLine LLT_Assignment 0%N None [3;4;6;8];
                mkLine LLT_ConditionalDirective 0%N None [1];
                mkLine LLT_ConditionalDirective 0%N None [2];
                mkLine LLT_ConditionalDirective 0%N None [5];
                mkLine LLT_ConditionalDirective 0%N None [7];
                mkLine LLT_Eof 0%N None [9]] in
  conddir_consolidate_std tys lines
  = [mkLine LLT_Unknown 0%N None [0];
     mkLine LLT_Assignment 0%N None [3;4;5;6;7;8];
     mkLine LLT_ConditionalDirective 0%N None [1];
     mkLine LLT_ConditionalDirective 0%N None [2];
     mkLine LLT_Voided 0%N None [];
     mkLine LLT_Voided 0%N None [];
     mkLine LLT_Eof 0%N None [9]]
  /\ conddir_consolidate tys lines = conddir_consolidate_std tys lines.
Proof. split; reflexivity. Qed.

Print Assumptions expand_line_superset.
Print Assumptions expand_line_contiguous.
Print Assumptions expand_line_panic_only_unsorted.
Print Assumptions conddir_gen_rel.
Print Assumptions conddir_preserves_cover.
Print Assumptions conddir_no_token_lost.
Print Assumptions conddir_only_voids_directive_lines.
Print Assumptions conddir_length.
Print Assumptions conddir_parents_unchanged.
Print Assumptions conddir_idempotent.
Print Assumptions conddir_chk_total_cover.
Print Assumptions conddir_std_eq_first.
Print Assumptions conddir_std_preserves_cover.
Print Assumptions conddir_preserves_parents_ok.
Print Assumptions conddir_preserves_eof_line_ok.
Print Assumptions deindent_only_levels.
Print Assumptions deindent_idempotent.
Print Assumptions deindent_preserves_cover.
