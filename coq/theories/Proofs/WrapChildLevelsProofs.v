(* Proofs/WrapChildLevelsProofs.v — the whitespace child lines are searched with (H-W1 of C05 for child lines).
   A child line k of a parent searched at whitespace pw = (indentations, continuations) is searched at
       (i + level(k) - x, c)        where (i, c, x) is what the ChildLineOption carries,
   and the ChildLineOption is one of (WrapLevelsProofs.option_ws)
       BreakAll(child_starting_ws)        (i, c, x) = (fst pw, snd pw + sc, 0)   sc = the continuations of the parent token
       BreakAll(parent_base_ws) / ContinueThenBreak(parent_base_ws)
                                          (i, c, x) = (fst pw, snd pw, 1)
       BreakAll(parent_indented_ws)       (i, c, x) = (fst pw, snd pw, 0)
       ContinueAll                        (i, c, x) = (0, 0, 0)                  (every child line continues; no break is made with it)
   for EVERY child solution of every solution `solve` returns and of everything the cache holds, at every nesting depth
   (sol_wsd), and a child line's first decision, when it is a break, adds no continuation (kid_first0).
     solve_wsd:              the invariant on `solve` (cache_w is the cache invariant; the key of an entry carries the option);
     recon_events_wsd:       the decision events of a solved line: the break before the first token of a line carries a whitespace
                             that is reachable (ws_reach): (level, 0) for the top-level line the search started with, the formula
                             above from the parent's whitespace for a child line;
     wrap_phase_wsd:         the same for the log of a whole phase. *)
From PasfmtVerif Require Import Model.WrapSearch Model.WrapFormat Proofs.WrapSearchProofs Proofs.WrapSearchDeepProofs Proofs.WrapDepthProofs
  Proofs.WrapEventsProofs Proofs.WrapKidsProofs Proofs.WrapSimProofs Proofs.FormatEofProofs Proofs.WrapLevelsProofs Proofs.WrapNoBreakProofs.
From Coq Require Import Lia.

(* ------------------------------------------------------------------ *)
(* an invariant of the state together with an invariant of the nodes, through the search of one line *)
Section StNodeInv.
Variable W : wsettings.
Variable lvs : list lview.
Variable fm : nat.
Variable cs : sst -> lview -> N * N -> first_decision -> sst * option solution.
Variable lv : lview.
Variable C : sst -> Prop.
Variable P : node -> Prop.
Hypothesis Hpot : forall st nd b, C st -> P nd -> C (fst (potential W lvs cs lv st nd b)) /\ Forall P (snd (potential W lvs cs lv st nd b)).

Hypothesis Herr : forall st, C st -> C (sst_err st).
Hypothesis Hlog : forall e st, C st -> C (sst_log e st).

Notation potential' := (potential W lvs cs lv).
Notation both' := (both W lvs cs lv).
Notation walk_step' := (walk_step W lvs cs lv).
Notation walk' := (walk W lvs cs lv).

Lemma both_CP st ind : C st -> P ind -> C (fst (both' st ind)) /\ Forall P (snd (both' st ind)).
Proof.
  intros Hst Hind. unfold both.
  destruct (Hpot st ind true Hst Hind) as (A1 & A2). destruct (potential' st ind true) as [st1 a]. cbn [fst snd] in *.
  destruct (Hpot st1 ind false A1 Hind) as (B1 & B2). destruct (potential' st1 ind false) as [st2 b]. cbn [fst snd] in *.
  split; [exact B1|apply Forall_app; split; assumption].
Qed.

Lemma walk_step_CP nd indiff best st :
  C st -> P nd -> oP P indiff -> C (snd (walk_step' nd indiff best st)) /\ step_P P (fst (fst (walk_step' nd indiff best st))).
Proof.
  intros Hst Hnd Hind. unfold walk_step.
  destruct (if w_max W <? last_line_length_of nd then indiff else None) as [ind|] eqn:Eover.
  { assert (Hi : P ind) by (destruct (w_max W <? last_line_length_of nd); [subst indiff; exact Hind|discriminate]).
    destruct (both_CP st ind Hst Hi) as (B1 & B2). destruct (both' st ind) as [st' succ]. cbn [fst snd] in *.
    split; [exact B1|apply finish_P; exact B2]. }
  destruct (n_rest nd) as [|r rest] eqn:Hrest; [cbn; split; [exact Hst|exact Hnd]|].
  assert (Hafter : forall succ indiff' st', C st' -> Forall P succ -> oP P indiff' ->
            let res := match succ with
                       | [n] => (WS_forward n indiff', best, st')
                       | _ => match indiff' with
                              | Some ind => let (st'', more) := both' st' ind in (finish (succ ++ more), best, st'')
                              | None => (finish succ, best, st')
                              end
                       end in
            C (snd res) /\ step_P P (fst (fst res))).
  { intros succ indiff' st' Hc Hs Hi.
    assert (Hgen : let res := match indiff' with
                              | Some ind => let (st'', more) := both' st' ind in (finish (succ ++ more), best, st'')
                              | None => (finish succ, best, st')
                              end in C (snd res) /\ step_P P (fst (fst res))).
    { destruct indiff' as [ind|]; [|cbn; split; [exact Hc|apply finish_P; exact Hs]].
      destruct (both_CP st' ind Hc Hi) as (B1 & B2). destruct (both' st' ind) as [st'' more]. cbn [fst snd] in *.
      split; [exact B1|apply finish_P; apply Forall_app; split; assumption]. }
    destruct succ as [|n [|m l]]; try exact Hgen. cbn. split; [exact Hc|split; [inversion Hs; assumption|exact Hi]]. }
  destruct (get_formatting_requirement (lv_type lv) (tr_win r) (tr_ty r) (tr_inv r) (tr_stk r) (n_data nd) (n_nli nd)).
  - destruct (Hpot st nd false Hst Hnd) as (P1 & P2). destruct (potential' st nd false) as [st' succ]. cbn [fst snd] in *.
    apply Hafter; [exact P1|exact P2|]. destruct indiff as [ind|]; [exact Hind|exact Hnd].
  - destruct indiff as [ind|]; [|cbn; split; [exact Hst|exact I]].
    destruct (both_CP st ind Hst Hind) as (B1 & B2). destruct (both' st ind) as [st' succ]. cbn [fst snd] in *.
    split; [exact B1|apply finish_P; exact B2].
  - destruct (Hpot st nd true Hst Hnd) as (P1 & P2). destruct (potential' st nd true) as [st' sols]. cbn [fst snd] in *.
    pose proof (kept_P P (N.to_nat (n_nli nd)) sols P2 best [] (Forall_nil _)) as Hk.
    destruct (fold_left _ sols (best, [])) as [best' kept]. cbn [fst snd] in *.
    split; [exact P1|apply finish_P; exact Hk].
  - destruct (Hpot st nd false Hst Hnd) as (P1 & P2). destruct (potential' st nd false) as [st' succ]. cbn [fst snd] in *.
    apply Hafter; [exact P1|exact P2|exact Hind].
Qed.

Lemma walk_CP : forall f1 f2 nd indiff best st,
  C st -> P nd -> oP P indiff -> C (snd (walk' f1 f2 nd indiff best st)) /\ res_P P (fst (fst (walk' f1 f2 nd indiff best st))).
Proof.
  induction f1 as [|f1 IH1]; induction f2 as [|f2 IH2]; intros nd indiff best st Hst Hnd Hind; try (cbn; split; [exact Hst|exact I]).
  - cbn [walk]. destruct (walk_step_CP nd indiff best st Hst Hnd Hind) as (S1 & S2).
    destruct (walk_step' nd indiff best st) as [[s best'] st']. cbn [fst snd] in *.
    destruct s as [r|n i|n]; cbn [fst snd]; [split; assumption| |split; [exact S1|exact I]]. destruct S2 as (Hn & Hi). apply IH2; assumption.
  - cbn [walk]. destruct (walk_step_CP nd indiff best st Hst Hnd Hind) as (S1 & S2).
    destruct (walk_step' nd indiff best st) as [[s best'] st']. cbn [fst snd] in *.
    destruct s as [r|n i|n]; cbn [fst snd]; [split; assumption| |].
    + destruct S2 as (Hn & Hi). apply IH2; assumption.
    + apply IH1; [exact S1|exact S2|exact I].
Qed.

Lemma main_loop_CP : forall fuel h iter best st,
  C st -> heap_all P h ->
  C (fst (main_loop W lvs cs lv fuel h iter best st))
  /\ (forall s, snd (main_loop W lvs cs lv fuel h iter best st) = SR_ok s -> exists nd, P nd /\ s = solution_of_node nd).
Proof.
  induction fuel as [|f IH]; intros h iter best st Hst Hh; cbn [main_loop]; [cbn; split; [first [exact Hst|exact (Herr st Hst)|exact (Hlog _ st Hst)]|discriminate]|].
  destruct (heap_pop h) as [[nd h']|] eqn:Epop; [|cbn; split; [first [exact Hst|exact (Herr st Hst)|exact (Hlog _ st Hst)]|discriminate]].
  destruct (heap_pop_all P h nd h' Hh Epop) as (Hnd & Hh').
  destruct (w_iter W <? iter); [cbn; split; [first [exact Hst|exact (Herr st Hst)|exact (Hlog _ st Hst)]|discriminate]|].
  destruct (n_rest nd) as [|r rest] eqn:Hrest.
  - cbn [fst snd]. split; [exact (Hlog _ st Hst)|]. intros s E. injection E as <-. exists nd. split; [exact Hnd|reflexivity].
  - destruct (best_at best (N.to_nat (N.pred (n_nli nd))) <? n_pen nd); [apply IH; assumption|].
    destruct (walk_CP (S (length (r :: rest))) (S (length (r :: rest))) nd None best st Hst Hnd I) as (W1 & W2).
    destruct (walk' (S (length (r :: rest))) (S (length (r :: rest))) nd None best st) as [[res best'] st''].
    cbn [fst snd] in *. destruct res as [n|l| |].
    + apply IH; [exact W1|apply heap_push_all; assumption].
    + apply IH; [exact W1|apply heap_extend_all; assumption].
    + apply IH; assumption.
    + cbn. split; [first [exact W1|exact (Herr _ W1)]|discriminate].
Qed.
End StNodeInv.

(* ------------------------------------------------------------------ *)
Section ChildWs.
Variable W : wsettings.
Variable lvs : list lview.
Variable fm : nat.

(* the whitespace a child line is searched with under an option *)
Definition opt_ws (opt : clopt) (lv : lview) : N * N :=
  (fst (fst (opt_base opt)) + lv_level lv - snd (opt_base opt), snd (fst (opt_base opt))).

(* when the first decision of a solution is a break it adds no continuation *)
Definition sol_first0 (s : solution) : Prop := forall t ds c, sol_decs s = t :: ds -> td_dec t = WBreak c -> c = 0.

Definition kid_under (opt : clopt) (ks : nat * solution) : Prop :=
  exists lvk, nth_error lvs (fst ks) = Some lvk /\ sol_ws (snd ks) = opt_ws opt lvk /\ sol_first0 (snd ks).

(* pw: the whitespace of the parent line *)
Definition kid_at (pw : N * N) (ks : nat * solution) : Prop := exists opt sc, option_ws pw sc opt /\ kid_under opt ks.

Inductive sol_wsd : solution -> Prop :=
  | SWD s : (forall t k s', In t (sol_decs s) -> In (k, s') (td_kids t) -> kid_at (sol_ws s) (k, s') /\ sol_wsd s') -> sol_wsd s.

Definition kids_under (opt : clopt) (v : list (nat * solution)) : Prop := forall k s', In (k, s') v -> kid_under opt (k, s') /\ sol_wsd s'.
Definition kids_at (pw : N * N) (v : list (nat * solution)) : Prop := forall k s', In (k, s') v -> kid_at pw (k, s') /\ sol_wsd s'.
(* the key of a cache entry carries the option its child lines were searched with *)
Definition cache_w (st : sst) : Prop := forall key v, In (key, v) (ss_cache st) -> kids_under (k_opt key) v.
Definition node_w (pw : N * N) (nd : node) : Prop := n_ws nd = pw /\ forall t, In t (n_decs nd) -> kids_at pw (td_kids t).

Lemma kids_at_nil pw : kids_at pw [].
Proof. intros k s' []. Qed.

Lemma kids_under_at pw sc opt v : option_ws pw sc opt -> kids_under opt v -> kids_at pw v.
Proof. intros Ho Hv k s' H. destruct (Hv k s' H) as (A & B). split; [exists opt, sc; split; assumption|exact B]. Qed.

Variable cs : sst -> lview -> N * N -> first_decision -> sst * option solution.
Hypothesis Hcs : forall st lv' ws fd, cache_w st ->
  cache_w (fst (cs st lv' ws fd)) /\ (forall s, snd (cs st lv' ws fd) = Some s -> sol_wsd s /\ sol_ws s = ws /\ sol_first0 s).

Lemma solve_children_w opt : forall kids st first lll acc,
  cache_w st -> kids_under opt acc ->
  cache_w (fst (solve_children lvs cs st opt (fst (opt_base opt)) (snd (opt_base opt)) kids first lll acc))
  /\ (forall l, snd (solve_children lvs cs st opt (fst (opt_base opt)) (snd (opt_base opt)) kids first lll acc) = Some l -> kids_under opt l).
Proof.
  induction kids as [|k rest IH]; intros st first lll acc Hst Hacc; cbn [solve_children].
  - cbn [fst snd]. split; [exact Hst|]. intros l E. injection E as <-. intros k s' H. apply in_rev in H. exact (Hacc k s' H).
  - destruct (nth_error lvs k) as [lvk|] eqn:Ek; [|cbn; split; [exact Hst|discriminate]].
    match goal with |- context [cs st lvk ?ws ?fd] => destruct (Hcs st lvk ws fd Hst) as (Hc1 & Hc2); destruct (cs st lvk ws fd) as [st1 r] end.
    cbn [fst snd] in *. destruct r as [s|]; [|cbn; split; [exact Hc1|discriminate]].
    apply IH; [exact Hc1|]. intros k2 s2 [H|H]; [|exact (Hacc k2 s2 H)]. injection H as <- <-.
    destruct (Hc2 s eq_refl) as (A & B & B'). split; [|exact A]. exists lvk. cbn [fst snd]. split; [exact Ek|]. split; [exact B|exact B'].
Qed.

Lemma cache_find_w key : forall c v, (forall k' v', In (k', v') c -> kids_under (k_opt k') v') -> cache_find key c = Some v -> kids_under (k_opt key) v.
Proof. intros c v Hc E. apply cache_find_in in E. exact (Hc key v E). Qed.

Lemma cls_w st line_idx r gtoks tok_li ws decs d nli tll pc :
  cache_w st ->
  cache_w (fst (child_lines_solutions W lvs cs st line_idx r gtoks tok_li ws decs d nli tll pc))
  /\ Forall (kids_at ws) (snd (child_lines_solutions W lvs cs st line_idx r gtoks tok_li ws decs d nli tll pc)).
Proof.
  intros Hst. rewrite cls_unfold.
  destruct (tr_kids r) as [lc|]; [|cbn; split; [exact Hst|constructor; [apply kids_at_nil|constructor]]].
  destruct (match lch_lines lc with k :: _ => nth_error lvs k | [] => None end) as [fc|]; [|cbn; split; [exact Hst|constructor; [apply kids_at_nil|constructor]]].
  match goal with |- context [cls_options ?a ?b ?c ?dd ?e ?f ?g ?h ?sc] => pose proof (cls_options_ws a b c dd e f g h sc) as Hopts; revert Hopts; generalize (cls_options a b c dd e f g h sc); generalize sc end.
  intros sc options Hopts.
  assert (Hfold : forall acc, cache_w (fst acc) -> Forall (kids_at ws) (snd acc) ->
            cache_w (fst (fold_left (cls_step lvs cs line_idx (tr_gidx r) tll (lch_lines lc)) options acc))
            /\ Forall (kids_at ws) (snd (fold_left (cls_step lvs cs line_idx (tr_gidx r) tll (lch_lines lc)) options acc))).
  { induction Hopts as [|opt options Ho Hos IH]; intros [st0 sols] H1 H2; cbn [fold_left]; [split; assumption|]. cbn [fst snd] in H1, H2.
    assert (Hstep : cache_w (fst (cls_step lvs cs line_idx (tr_gidx r) tll (lch_lines lc) (st0, sols) opt))
                    /\ Forall (kids_at ws) (snd (cls_step lvs cs line_idx (tr_gidx r) tll (lch_lines lc) (st0, sols) opt))).
    { unfold cls_step. destruct (cache_find _ (ss_cache st0)) as [v|] eqn:Ec.
      - cbn [fst snd]. split; [exact H1|]. apply Forall_app. split; [exact H2|]. constructor; [|constructor].
        apply (kids_under_at ws sc opt v Ho). exact (cache_find_w _ _ v H1 Ec).
      - destruct (solve_children_w opt (lch_lines lc) st0 true tll [] H1 (fun k s' (H : In (k, s') []) => match H with end)) as (S1 & S2).
        destruct (solve_children lvs cs st0 opt (fst (opt_base opt)) (snd (opt_base opt)) (lch_lines lc) true tll []) as [st1 res]. cbn [fst snd] in *.
        destruct res as [v|]; cbn [fst snd]; [|split; assumption]. split.
        + intros key v' [H|H]; [injection H as <- <-; cbn [k_opt]; exact (S2 v eq_refl)|exact (S1 key v' H)].
        + apply Forall_app. split; [exact H2|]. constructor; [|constructor]. exact (kids_under_at ws sc opt v Ho (S2 v eq_refl)). }
    destruct (cls_step lvs cs line_idx (tr_gidx r) tll (lch_lines lc) (st0, sols) opt) as [st1 sols1]. apply IH; [exact (proj1 Hstep)|exact (proj2 Hstep)]. }
  apply Hfold; [exact Hst|constructor].
Qed.

Variable lv : lview.

Lemma potential_w pw st nd b : cache_w st -> node_w pw nd ->
  cache_w (fst (potential W lvs cs lv st nd b)) /\ Forall (node_w pw) (snd (potential W lvs cs lv st nd b)).
Proof.
  intros Hst (Hws & Hnd). unfold potential. destruct (n_rest nd) as [|r rest]; [cbn; split; [exact Hst|constructor]|].
  match goal with |- context [child_lines_solutions W lvs cs st ?a ?b0 ?c ?d ?e ?f ?g ?h ?i ?j] =>
    destruct (cls_w st a b0 c d e f g h i j Hst) as (H1 & H2);
    destruct (child_lines_solutions W lvs cs st a b0 c d e f g h i j) as [st' sols] end.
  cbn [fst snd] in *. split; [exact H1|].
  apply Forall_forall. intros n Hn. apply in_map_iff in Hn. destruct Hn as (kids & <- & Hk).
  split; [exact Hws|]. cbn [n_decs]. intros t [<-|Ht]; [cbn [td_kids]; rewrite Forall_forall in H2; rewrite <- Hws; exact (H2 kids Hk)|exact (Hnd t Ht)].
Qed.

Lemma fos_w st ws first : cache_w st ->
  cache_w (fst (find_optimal_solution W lvs fm cs lv st ws first))
  /\ (forall s, snd (find_optimal_solution W lvs fm cs lv st ws first) = SR_ok s ->
        sol_ws s = ws /\ forall t, In t (sol_decs s) -> kids_at ws (td_kids t)).
Proof.
  intros Hst. unfold find_optimal_solution. destruct (lv_recs lv) as [|r rest].
  - cbn. split; [exact Hst|]. intros s E. injection E as <-. split; [destruct ws; reflexivity|intros t []].
  - destruct (match first with FD_Break => _ | FD_Continue line_length can_break => _ end) as [[is_break lll] bcb].
    destruct (_ && negb is_break); [cbn; split; [exact Hst|discriminate]|].
    match goal with |- context [child_lines_solutions W lvs cs st ?a ?b ?c ?d ?e ?f ?g ?h ?i ?j] =>
      destruct (cls_w st a b c d e f g h i j Hst) as (H1 & H2);
      destruct (child_lines_solutions W lvs cs st a b c d e f g h i j) as [st1 sols] end.
    cbn [fst snd] in *.
    match goal with |- context [main_loop W lvs cs lv fm ?h ?i ?b st1] =>
      destruct (main_loop_CP W lvs cs lv cache_w (node_w ws) (fun st0 nd b0 => potential_w ws st0 nd b0) (fun st0 H => H) (fun e st0 H => H) fm h i b st1 H1) as (M1 & M2) end.
    + apply heap_extend_all; [exact I|]. apply Forall_forall. intros n Hn. apply in_map_iff in Hn. destruct Hn as (k & <- & _).
      split; [reflexivity|]. cbn [n_decs]. intros t [<-|[]]. cbn [td_kids]. unfold last_opt'. destruct (rev sols) as [|kk rr] eqn:Er; [apply kids_at_nil|].
      rewrite Forall_forall in H2. apply H2. apply in_rev. rewrite Er. left; reflexivity.
    + split; [exact M1|]. intros s E. destruct (M2 s E) as (nd & (Hws & Hnd) & ->). unfold solution_of_node. cbn [sol_ws sol_decs].
      split; [rewrite <- Hws; destruct (n_ws nd); reflexivity|]. intros t Ht. apply in_rev in Ht. exact (Hnd t Ht).
Qed.
End ChildWs.

(* every solution `solve` returns, and everything it caches: each child solution, at every depth, starts at the whitespace of its option *)
Theorem solve_wsd W lvs fm : forall depth st lv ws first, cache_w lvs st ->
  cache_w lvs (fst (solve W lvs fm depth st lv ws first))
  /\ (forall s, snd (solve W lvs fm depth st lv ws first) = Some s -> sol_wsd lvs s /\ sol_ws s = ws /\ sol_first0 s).
Proof.
  induction depth as [|k IH]; intros st lv ws first Hst; [cbn; split; [exact Hst|discriminate]|].
  pose proof (solve_ok W lvs fm (S k) st lv ws first) as Hok. cbn [solve] in *.
  destruct (fos_w W lvs fm (solve W lvs fm k) (fun st0 lv' ws0 fd H => IH st0 lv' ws0 fd H) lv st ws first Hst) as (F1 & F2).
  destruct (find_optimal_solution W lvs fm (solve W lvs fm k) lv st ws first) as [st1 res]. cbn [fst snd] in *.
  split; [exact F1|]. intros s E. destruct res as [s1| | |]; try discriminate. injection E as <-. destruct (F2 s1 eq_refl) as (A & B).
  split; [|split; [exact A|]].
  - constructor. rewrite A. intros t k' s' Ht Hk. exact (B t Ht k' s' Hk).
  - intros t ds c Hd Ht. specialize (Hok st1 s1 eq_refl). destruct (lv_recs lv) as [|r rest]; [rewrite Hok in Hd; discriminate|].
    destruct Hok as (_ & post & Hp). rewrite Hd in Hp. cbn [map] in Hp. injection Hp as Hp _. rewrite Ht in Hp. symmetry in Hp. exact (first_dec_cont _ _ c Hp).
Qed.

Lemma cache_w_init lvs : cache_w lvs sst_init.
Proof. intros key v []. Qed.


(* ------------------------------------------------------------------ *)
(* the decision events *)
Section EvW.
Variable lvs : list lview.

(* the whitespaces a search can be started with: (level, 0) by format_line, an option's whitespace below such a search *)
Inductive ws_reach : N * N -> Prop :=
  | WR_top lv : In lv lvs -> ws_reach (lv_level lv, 0)
  | WR_kid pw opt sc lvk : ws_reach pw -> option_ws pw sc opt -> In lvk lvs -> ws_reach (opt_ws opt lvk).

(* the whitespace of the search of line lv: format_line's, or the one of a ChildLineOption under a parent searched at pw *)
Definition line_ws (lv : lview) (w : N * N) : Prop :=
  w = (lv_level lv, 0) \/ exists pw opt sc, ws_reach pw /\ option_ws pw sc opt /\ w = opt_ws opt lv.

Definition ev_w (e : event) : Prop :=
  match e with
  | Ev_D t (Some (true, ind, cont)) _ _ => exists k lv, nth_error lvs k = Some lv /\ hd_error (lv_gtoks lv) = Some t /\ line_ws lv (ind, cont)
  | _ => True
  end.

Lemma sol_wsd_ind'' (P : solution -> Prop) :
  (forall s, (forall t k s', In t (sol_decs s) -> In (k, s') (td_kids t) -> kid_at lvs (sol_ws s) (k, s') /\ sol_wsd lvs s' /\ P s') -> P s) ->
  forall s, sol_wsd lvs s -> P s.
Proof.
  intros Hstep. refine (fix F s (H : sol_wsd lvs s) {struct H} : P s := _).
  destruct H as [s Hk]. apply Hstep. intros t k s' H1 H2. destruct (Hk t k s' H1 H2) as (a & b). split; [exact a|]. split; [exact b|exact (F s' b)].
Qed.

Definition sol_evs_w (s : solution) : Prop :=
  forall k lv, nth_error lvs k = Some lv -> ws_reach (sol_ws s) -> sol_first0 s -> line_ws lv (sol_ws s) -> Forall ev_w (recon_events lvs s (lv_gtoks lv)).

Lemma recon_go_w ind cont : ws_reach (ind, cont) -> forall ds toks first,
  (first = true -> (exists k lv, nth_error lvs k = Some lv /\ hd_error (lv_gtoks lv) = hd_error toks /\ line_ws lv (ind, cont))
                   /\ forall t ds' c, ds = t :: ds' -> td_dec t = WBreak c -> c = 0) ->
  (forall t k s', In t ds -> In (k, s') (td_kids t) -> kid_at lvs (ind, cont) (k, s') /\ sol_evs_w s') ->
  Forall ev_w (recon_go lvs ind cont ds toks first).
Proof.
  intros Hreach. induction ds as [|t ds IH]; intros toks first Hfirst Hkids; [constructor|].
  destruct toks as [|g toks']; [constructor|]. cbn [recon_go]. constructor; [|apply Forall_app; split].
  - destruct (td_dec t) as [c|] eqn:Ed; [|exact I]. destruct first; [|exact I]. cbn [ev_w].
    destruct (Hfirst eq_refl) as ((k & lv & Hk & Hh & Hw) & Hc). rewrite (Hc t ds c eq_refl Ed), N.add_0_r. exists k, lv. split; [exact Hk|]. split; [exact Hh|exact Hw].
  - assert (Hk : forall k s', In (k, s') (td_kids t) -> kid_at lvs (ind, cont) (k, s') /\ sol_evs_w s')
      by (intros k s' H; apply (Hkids t k s'); [left; reflexivity|exact H]).
    clear Hkids IH Hfirst. induction (td_kids t) as [|[k s'] kr IHk]; [constructor|]. cbn [recon_kids fst snd]. apply Forall_app. split.
    + destruct (Hk k s' (or_introl eq_refl)) as ((opt & sc & Ho & lvk & Hn & Hws & Hf0) & Hev). cbn [fst snd] in *. unfold gtoks_of. rewrite Hn.
      apply (Hev k lvk Hn); [rewrite Hws; exact (WR_kid (ind, cont) opt sc lvk Hreach Ho (nth_error_In _ _ Hn))|exact Hf0|].
      right. exists (ind, cont), opt, sc. split; [exact Hreach|]. split; [exact Ho|exact Hws].
    + apply IHk. intros k2 s2 H. apply Hk. right; exact H.
  - apply IH; [discriminate|]. intros t0 k s' H1 H2. apply (Hkids t0 k s'); [right; exact H1|exact H2].
Qed.

Theorem recon_events_w : forall s, sol_wsd lvs s -> sol_evs_w s.
Proof.
  apply (sol_wsd_ind'' sol_evs_w). intros [ind cont decs p l] Hkids k lv Hk Hreach Hf0 Hw. cbn [sol_ws sol_decs] in *.
  rewrite recon_events_eq. apply recon_go_w; [exact Hreach| |].
  - intros _. split; [exists k, lv; split; [exact Hk|]; split; [reflexivity|exact Hw]|]. intros t ds' c Hd Ht. exact (Hf0 t ds' c Hd Ht).
  - intros t k' s' H1 H2. destruct (Hkids t k' s' H1 H2) as (A & _ & C). split; [exact A|exact C].
Qed.

Definition st_w (st : sst) : Prop := cache_w lvs st /\ Forall ev_w (Dlog st).

Lemma format_top_w W fm depth st k lv : nth_error lvs k = Some lv -> st_w st -> st_w (format_top W lvs fm depth st lv).
Proof.
  intros Hk (Hc & Hl). unfold format_top. destruct (bid _); [split; assumption|].
  match goal with |- context [solve W lvs fm depth st lv ?ws ?fd] =>
    pose proof (solve_wsd W lvs fm depth st lv ws fd Hc) as (S1 & S2);
    pose proof (state_inv_solve (fun st' => Dlog st' = Dlog st) (fun st0 l o H => H) (fun st0 k0 v H => H) (fun st0 H => H) W lvs fm depth st lv ws fd eq_refl) as S3;
    destruct (solve W lvs fm depth st lv ws fd) as [st1 r] eqn:Es end.
  cbn [fst snd] in *. destruct r as [s|]; [|split; [exact S1|rewrite S3; exact Hl]].
  destruct (sst_log_fold (recon_events lvs s (lv_gtoks lv)) st1) as (L1 & L2).
  split.
  - intros key v H. apply (S1 key v). rewrite <- L2. exact H.
  - unfold Dlog. rewrite L1, filter_app. apply Forall_app; split; [|fold (Dlog st1); rewrite S3; exact Hl].
    apply Forall_forall. intros e He. apply filter_In in He. destruct He as (He & _). apply in_rev in He.
    destruct (S2 s eq_refl) as (A & B & B').
    assert (Hall : Forall ev_w (recon_events lvs s (lv_gtoks lv))).
    { apply (recon_events_w s A k lv Hk); [rewrite B; exact (WR_top lv (nth_error_In _ _ Hk))|exact B'|left; exact B]. }
    rewrite Forall_forall in Hall. exact (Hall e He).
Qed.
End EvW.

Theorem wrap_phase_w W infos lines which st :
  st_w (mk_lviews infos lines) st -> st_w (mk_lviews infos lines) (wrap_phase W infos lines which st).
Proof.
  intros Hst. unfold wrap_phase. set (lvs := mk_lviews infos lines) in *.
  assert (Hgen : forall l i st0, (forall j lv, nth_error l j = Some lv -> nth_error lvs (i + j) = Some lv) -> st_w lvs st0 ->
            st_w lvs (fold_left (fun st1 lv => if which lv then format_top W lvs (main_fuel W) (S (length lines)) st1 lv else st1) l st0)).
  { induction l as [|lv r IH]; intros i st0 Hin H0; [exact H0|]. cbn [fold_left]. apply (IH (S i)).
    - intros j lv' H'. replace (S i + j)%nat with (i + S j)%nat by lia. apply Hin. exact H'.
    - destruct (which lv); [|exact H0]. apply (format_top_w lvs W _ _ st0 i lv); [|exact H0].
      specialize (Hin O lv eq_refl). rewrite PeanoNat.Nat.add_0_r in Hin. exact Hin. }
  apply (Hgen lvs O); [intros j lv H; exact H|exact Hst].
Qed.

(* the final vector of phase 1: ANY token whose last decision is the break before the first token of a line — top-level or child *)
From PasfmtVerif Require Import Proofs.WrapReadsProofs.

Theorem olf_phase1_any_line_start rs W lines l t tok f ds ind cont :
  let lvs := mk_lviews (map tokinfo_of l) lines in
  nth_error (fst (fst (olf_model rs W false lines l))) t = Some (tok, f) ->
  decs_for t (olf_plan1 W lines l) = ds ++ [DBreak true ind cont] ->
  f_ind f = ind /\ f_cont f = cont /\ f_sp f = 0 /\ 1 <= f_nl f <= 2
  /\ exists k lv, nth_error lvs k = Some lv /\ hd_error (lv_gtoks lv) = Some (N.of_nat t) /\ line_ws lvs lv (ind, cont).
Proof.
  intros lvs Hn Hd. unfold olf_model in Hn. cbn [fst] in Hn. fold (olf_plan1 W lines l) in Hn.
  pose proof (last_in_decs t _ ds _ Hd) as Hin. unfold olf_plan1 in Hin.
  destruct (plan_of_events_in t _ _ Hin) as (tk & dd & lll & fs & Hev & Htk & Hdd).
  destruct dd as [[[fb i0] c0]|]; [|discriminate]. injection Hdd as <- <- <-.
  pose proof (wrap_phase_w W (map tokinfo_of l) lines lv_top sst_init (conj (cache_w_init _) (Forall_nil _))) as (_ & Hall).
  fold (wrap_phase1 W (map tokinfo_of l) lines) in Hall. rewrite Forall_forall in Hall.
  assert (Hev' : In (Ev_D tk (Some (true, ind, cont)) lll fs) (Dlog (wrap_phase1 W (map tokinfo_of l) lines)))
    by (unfold Dlog; apply filter_In; split; [apply in_rev; exact Hev|reflexivity]).
  destruct (Hall _ Hev') as (k & lv & Hk & Hh & Hw). fold lvs in Hk, Hw.
  assert (Htk' : tk = N.of_nat t) by (rewrite <- Htk, Nnat.N2Nat.id; reflexivity). rewrite Htk' in Hh.
  rewrite zero_line_starts_nth', apply_plan_nth in Hn. destruct (nth_error l t) as [[tok0 f0]|]; [|discriminate].
  cbn [option_map fst snd] in Hn. rewrite Hd in Hn. pose proof (apply_last_break ds ind cont f0) as (A1 & A2 & A3). cbv zeta in A1, A2, A3.
  replace (0 <? f_nl (fold_left apply_decision (ds ++ [DBreak true ind cont]) f0)) with true in Hn by (symmetry; apply N.ltb_lt; lia).
  injection Hn as _ <-. cbn [f_ind f_cont f_sp f_nl]. split; [exact A1|]. split; [exact A2|]. split; [reflexivity|]. split; [exact A3|].
  exists k, lv. split; [exact Hk|]. split; [exact Hh|exact Hw].
Qed.


(* ------------------------------------------------------------------ *)
(* what the FirstDecision of format_line gives: a solved top-level line starts with the event
     Ev_D g None ..            (Continue)   when g is token 0 (FirstDecision::Continue {0, can_break: true}) or the token's
                                            invariant is MustNotBreak (token 0, an inline comment ...),
     Ev_D g (Some (true, level, 0)) ..      otherwise *)
Lemma format_top_calls W lvs fm depth st lv :
  format_top W lvs fm depth st lv =
  if lv_type lv IS LLT_AsmInstruction then st
  else let (st1, r) := solve W lvs fm depth st lv (lv_level lv, 0) (top_first lv) in
       match r with Some s => fold_left (fun st e => sst_log e st) (recon_events lvs s (lv_gtoks lv)) st1 | None => st1 end.
Proof. reflexivity. Qed.

Theorem top_line_first_event W lvs fm depth st lv g gs r rs st1 s :
  lv_gtoks lv = g :: gs -> lv_recs lv = r :: rs ->
  solve W lvs fm depth st lv (lv_level lv, 0) (top_first lv) = (st1, Some s) ->
  exists lll rest,
    recon_events lvs s (lv_gtoks lv) =
    Ev_D g (if (g =? 0) || (tr_inv r IS Some DR_MustNotBreak) then None else Some (true, lv_level lv, 0)) lll true :: rest.
Proof.
  intros Hg Hr E. pose proof (solve_ok W lvs fm depth st lv _ _ st1 s E) as Hok. pose proof (solve_ws W lvs fm depth st lv _ _ st1 s E) as Hws.
  rewrite Hr in Hok. destruct Hok as (_ & post & Hp). destruct s as [ind cont decs p l]. cbn [sol_ws sol_decs] in *. injection Hws as -> ->.
  rewrite recon_events_eq, Hg. destruct decs as [|t ds]; [discriminate|]. cbn [map] in Hp. injection Hp as Hp _. cbn [recon_go].
  exists (td_lll t). eexists. f_equal. rewrite Hp. unfold top_first. rewrite Hg. unfold first_dec, bid.
  destruct (g =? 0); cbn [orb]; [reflexivity|]. destruct (tr_inv r) as [[]|]; reflexivity.
Qed.

(* ------------------------------------------------------------------ *)
(* non-vacuity: the implementation's trace (tools/trace2coq.py kid kid.pas 30,0,1,0,2,2,0) of
     begin
       Foo(procedure
         begin
           X := 1;
         end);
     end.
   at max_line_length 30: line 1 (`Foo(...);`, level 1) is a top-level line, line 2 (`X := 1;`, level 1) is a child line of
   token 4 (`begin`); the implementation logs  WD 1 B 1 1 0  and  WD 5 B 1 2 1. *)
From PasfmtVerif Require Import Proofs.WrapTwoPhaseProofs.
Definition kid_l : list ftoken :=
  [(mkToken [] [98; 101; 103; 105; 110] (TT_Keyword KK_Begin), mkFmt false 0 0 0 0);
   (mkToken [] [70; 111; 111] TT_Identifier, mkFmt false 1 0 0 1);
   (mkToken [] [40] (TT_Op OK_LParen), mkFmt false 0 0 0 0);
   (mkToken [] [112; 114; 111; 99; 101; 100; 117; 114; 101] (TT_Keyword KK_Procedure), mkFmt false 0 0 0 0);
   (mkToken [] [98; 101; 103; 105; 110] (TT_Keyword KK_Begin), mkFmt false 1 0 0 1);
   (mkToken [] [88] TT_Identifier, mkFmt false 1 0 0 1);
   (mkToken [] [58; 61] (TT_Op OK_Assign), mkFmt false 0 0 0 1);
   (mkToken [] [49] (TT_NumberLiteral NK_Decimal), mkFmt false 0 0 0 1);
   (mkToken [] [59] (TT_Op OK_Semicolon), mkFmt false 0 0 0 0);
   (mkToken [] [101; 110; 100] (TT_Keyword KK_End), mkFmt false 1 0 0 1);
   (mkToken [] [41] (TT_Op OK_RParen), mkFmt false 0 0 0 0);
   (mkToken [] [59] (TT_Op OK_Semicolon), mkFmt false 0 0 0 0);
   (mkToken [] [101; 110; 100] (TT_Keyword KK_End), mkFmt false 1 0 0 1);
   (mkToken [] [46] (TT_Op OK_Dot), mkFmt false 0 0 0 0);
   (mkToken [] [] TT_Eof, mkFmt false 1 0 0 0)].

Definition kid_lines : list lline :=
  [mkLine LLT_Unknown 0 None [0]%nat;
   mkLine LLT_Unknown 1 None [1; 2; 3; 4; 9; 10; 11]%nat;
   mkLine LLT_Assignment 1 (Some (1, 4)%nat) [5; 6; 7; 8]%nat;
   mkLine LLT_Unknown 0 None [12; 13]%nat;
   mkLine LLT_Eof 0 None [14]%nat].
Definition kid_W : wsettings := mkWS 30 20000 false 2 4.

Example kid_model_final :
  map (fun p : ftoken => (f_nl (snd p), f_ind (snd p), f_cont (snd p), f_sp (snd p))) (fst (fst (olf_model ml2_rsA kid_W false kid_lines kid_l))) =
  [(0, 0, 0, 0); (1, 1, 0, 0); (0, 0, 0, 0); (1, 1, 1, 0); (1, 1, 1, 0); (1, 2, 1, 0); (0, 0, 0, 1); (0, 0, 0, 1); (0, 0, 0, 0); (1, 1, 1, 0);
   (1, 1, 0, 0); (0, 0, 0, 0); (1, 0, 0, 0); (0, 0, 0, 0); (1, 0, 0, 0)].
Proof. vm_compute. reflexivity. Qed.

Lemma kid_starts_top_1 : starts_top kid_lines 1 1.
Proof.
  intros k ln Hk Hh. do 5 (destruct k as [|k]; [injection Hk as <-; cbn in Hh; try discriminate; repeat split; discriminate|]). destruct k; discriminate.
Qed.

(* the top-level line 1: its first token (token 1) is at level 1, no continuation — by the theorem, both settings of format_multiline_strings *)
Example kid_top_line fms tok f :
  nth_error (fst (fst (olf_model ml2_rsA kid_W fms kid_lines kid_l))) 1 = Some (tok, f) ->
  f_ind f = 1 /\ f_cont f = 0 /\ f_sp f = 0 /\ 1 <= f_nl f <= 2.
Proof.
  intros H. apply (olf_line_starts ml2_rsA kid_W fms kid_lines kid_l 1 tok f [] 1 0 1 H); [|exact kid_starts_top_1].
  destruct fms; vm_compute; reflexivity.
Qed.

(* the child line 2: its first token (token 5) is at the whitespace of BreakAll(child_starting_ws) under the parent's (1, 0):
   (1 + level 1 - 0, 0 + 1 continuation of the parent token) = (2, 1) *)
Example kid_child_line tok f :
  nth_error (fst (fst (olf_model ml2_rsA kid_W false kid_lines kid_l))) 5 = Some (tok, f) ->
  f_ind f = 2 /\ f_cont f = 1 /\ f_sp f = 0 /\ 1 <= f_nl f <= 2
  /\ exists k lv, nth_error (mk_lviews (map tokinfo_of kid_l) kid_lines) k = Some lv /\ hd_error (lv_gtoks lv) = Some 5
                  /\ line_ws (mk_lviews (map tokinfo_of kid_l) kid_lines) lv (2, 1).
Proof.
  intros H. apply (olf_phase1_any_line_start ml2_rsA kid_W kid_lines kid_l 5 tok f [] 2 1 H). vm_compute. reflexivity.
Qed.

Example kid_child_option : option_ws (1, 0) 1 (CO_BreakAll 1 1 0)
  /\ match nth_error (mk_lviews (map tokinfo_of kid_l) kid_lines) 2 with Some lv => opt_ws (CO_BreakAll 1 1 0) lv = (2, 1) | None => False end.
Proof. split; [right; left; reflexivity|vm_compute; reflexivity]. Qed.

(* both phases with a reflow: WrapTwoPhaseProofs.ml2 (a multi-line string is re-indented, line 1 is reflowed by phase 2);
   token 1 is decided twice, both times with the break (level 1, 0) *)
Lemma ml2_starts_top_1 : starts_top ml2_lines 1 1.
Proof.
  intros k ln Hk Hh. do 5 (destruct k as [|k]; [injection Hk as <-; cbn in Hh; try discriminate; repeat split; discriminate|]). destruct k; discriminate.
Qed.

Example ml2_reflowed_line tok f :
  nth_error (fst (fst (olf_model ml2_rsA ml2_WA true ml2_lines ml2_l))) 1 = Some (tok, f) ->
  f_ind f = 1 /\ f_cont f = 0 /\ f_sp f = 0 /\ 1 <= f_nl f <= 2.
Proof.
  intros H. apply (olf_line_starts ml2_rsA ml2_WA true ml2_lines ml2_l 1 tok f [DBreak true 1 0] 1 0 1 H); [|exact ml2_starts_top_1].
  vm_compute. reflexivity.
Qed.

Example ml2_token1_exists : nth_error (fst (fst (olf_model ml2_rsA ml2_WA true ml2_lines ml2_l))) 1 <> None
  /\ nth_error (fst (fst (olf_model ml2_rsA kid_W false kid_lines kid_l))) 5 <> None.
Proof. split; vm_compute; discriminate. Qed.

(* ------------------------------------------------------------------ *)
(* why "last decision": lines overlap across conditional directives.  The implementation's trace of the seed
     {$ifdef A} {$else} foo( {$endif} procedure a; begin end {$ifdef A} {$else} ); {$endif}      (second half of seed 144)
   token 25 (`procedure`) is the first token of the top-level line 6 (RoutineHeader, level 0) and the third token of the top-level
   line 13 (`foo ( procedure a ; begin end ) ;` of the other branch).  Line 6 decides  WD 25 B 1 0 0  (first token: level 0, no
   continuation), line 13 decides later  WD 25 B 0 0 1  — the last decision wins and the token ends with one continuation.
   So H-W1 without the condition on the last decision is false; the unit `levels` reports this seed. *)
Definition ov_l : list ftoken :=
  [(mkToken [] [47; 47; 32; 73; 110; 32; 116; 104; 105; 115; 32; 102; 111; 114; 109; 44; 32; 116; 104; 101; 32; 112; 97; 115; 115; 32; 116; 104; 97; 116; 32; 105; 115] (TT_Comment CoK_IndividualLine), mkFmt false 0 0 0 0);
   (mkToken [] [47; 47; 32; 116; 104; 101; 32; 114; 111; 117; 116; 105; 110; 101; 32; 100; 101; 99; 108; 97; 114; 97; 116; 105; 111; 110; 32; 119; 105; 110; 115; 46] (TT_Comment CoK_IndividualLine), mkFmt false 1 0 0 1);
   (mkToken [] [123; 36; 73; 70; 68; 69; 70; 32; 65; 125] (TT_ConditionalDirective CDK_Ifdef), mkFmt false 1 0 0 1);
   (mkToken [] [102; 111; 111] TT_Identifier, mkFmt false 1 0 0 1);
   (mkToken [] [40] (TT_Op OK_LParen), mkFmt false 0 0 0 0);
   (mkToken [] [123; 36; 69; 76; 83; 69; 125] (TT_ConditionalDirective CDK_Else), mkFmt false 1 0 0 0);
   (mkToken [] [123; 36; 69; 78; 68; 73; 70; 125] (TT_ConditionalDirective CDK_Endif), mkFmt false 1 0 0 1);
   (mkToken [] [112; 114; 111; 99; 101; 100; 117; 114; 101] (TT_Keyword KK_Procedure), mkFmt false 1 0 0 1);
   (mkToken [] [97] TT_Identifier, mkFmt false 0 0 0 1);
   (mkToken [] [59] (TT_Op OK_Semicolon), mkFmt false 0 0 0 0);
   (mkToken [] [98; 101; 103; 105; 110] (TT_Keyword KK_Begin), mkFmt false 1 0 0 1);
   (mkToken [] [101; 110; 100] (TT_Keyword KK_End), mkFmt false 1 0 0 1);
   (mkToken [] [123; 36; 73; 70; 68; 69; 70; 32; 65; 125] (TT_ConditionalDirective CDK_Ifdef), mkFmt false 1 0 0 1);
   (mkToken [] [41] (TT_Op OK_RParen), mkFmt false 1 0 0 0);
   (mkToken [] [59] (TT_Op OK_Semicolon), mkFmt false 0 0 0 0);
   (mkToken [] [123; 36; 69; 76; 83; 69; 125] (TT_ConditionalDirective CDK_Else), mkFmt false 1 0 0 1);
   (mkToken [] [123; 36; 69; 78; 68; 73; 70; 125] (TT_ConditionalDirective CDK_Endif), mkFmt false 1 0 0 1);
   (mkToken [] [47; 47; 32; 73; 110; 32; 116; 104; 105; 115; 32; 102; 111; 114; 109; 44; 32; 116; 104; 101; 32; 112; 97; 115; 115; 32; 116; 104; 97; 116; 32; 105; 115] (TT_Comment CoK_IndividualLine), mkFmt false 2 0 0 1);
   (mkToken [] [47; 47; 32; 116; 104; 101; 32; 40; 105; 110; 118; 97; 108; 105; 100; 41; 32; 97; 110; 111; 110; 121; 109; 111; 117; 115; 32; 114; 111; 117; 116; 105; 110; 101] (TT_Comment CoK_IndividualLine), mkFmt false 1 0 0 1);
   (mkToken [] [47; 47; 32; 100; 101; 99; 108; 97; 114; 97; 116; 105; 111; 110; 32; 119; 105; 110; 115; 46] (TT_Comment CoK_IndividualLine), mkFmt false 1 0 0 1);
   (mkToken [] [123; 36; 73; 70; 68; 69; 70; 32; 65; 125] (TT_ConditionalDirective CDK_Ifdef), mkFmt false 1 0 0 1);
   (mkToken [] [123; 36; 69; 76; 83; 69; 125] (TT_ConditionalDirective CDK_Else), mkFmt false 1 0 0 1);
   (mkToken [] [102; 111; 111] TT_Identifier, mkFmt false 1 0 0 1);
   (mkToken [] [40] (TT_Op OK_LParen), mkFmt false 0 0 0 0);
   (mkToken [] [123; 36; 69; 78; 68; 73; 70; 125] (TT_ConditionalDirective CDK_Endif), mkFmt false 1 0 0 0);
   (mkToken [] [112; 114; 111; 99; 101; 100; 117; 114; 101] (TT_Keyword KK_Procedure), mkFmt false 1 0 0 1);
   (mkToken [] [97] TT_Identifier, mkFmt false 0 0 0 1);
   (mkToken [] [59] (TT_Op OK_Semicolon), mkFmt false 0 0 0 0);
   (mkToken [] [98; 101; 103; 105; 110] (TT_Keyword KK_Begin), mkFmt false 1 0 0 1);
   (mkToken [] [101; 110; 100] (TT_Keyword KK_End), mkFmt false 0 0 0 1);
   (mkToken [] [123; 36; 73; 70; 68; 69; 70; 32; 65; 125] (TT_ConditionalDirective CDK_Ifdef), mkFmt false 1 0 0 1);
   (mkToken [] [123; 36; 69; 76; 83; 69; 125] (TT_ConditionalDirective CDK_Else), mkFmt false 1 0 0 1);
   (mkToken [] [41] (TT_Op OK_RParen), mkFmt false 1 0 0 0);
   (mkToken [] [59] (TT_Op OK_Semicolon), mkFmt false 0 0 0 0);
   (mkToken [] [123; 36; 69; 78; 68; 73; 70; 125] (TT_ConditionalDirective CDK_Endif), mkFmt false 1 0 0 1);
   (mkToken [] [] TT_Eof, mkFmt false 1 0 0 0)].

Definition ov_lines : list lline :=
  [mkLine LLT_Unknown 0 None [0]%nat;
   mkLine LLT_Unknown 0 None [1]%nat;
   mkLine LLT_Unknown 0 None [3; 4; 7; 8; 9; 10; 11; 13; 14]%nat;
   mkLine LLT_Unknown 0 None [17]%nat;
   mkLine LLT_Unknown 0 None [18]%nat;
   mkLine LLT_Unknown 0 None [19]%nat;
   mkLine LLT_RoutineHeader 0 None [25; 26; 27]%nat;
   mkLine LLT_Unknown 0 None [28]%nat;
   mkLine LLT_Unknown 0 None [29]%nat;
   mkLine LLT_Eof 0 None [35]%nat;
   mkLine LLT_RoutineHeader 0 None [7; 8; 9]%nat;
   mkLine LLT_Unknown 0 None [10]%nat;
   mkLine LLT_Unknown 0 None [11]%nat;
   mkLine LLT_Unknown 0 None [22; 23; 25; 26; 27; 28; 29; 32; 33]%nat;
   mkLine LLT_ConditionalDirective 0 None [2]%nat;
   mkLine LLT_ConditionalDirective 0 None [5]%nat;
   mkLine LLT_ConditionalDirective 0 None [6]%nat;
   mkLine LLT_ConditionalDirective 0 None [12]%nat;
   mkLine LLT_ConditionalDirective 0 None [15]%nat;
   mkLine LLT_ConditionalDirective 0 None [16]%nat;
   mkLine LLT_ConditionalDirective 0 None [20]%nat;
   mkLine LLT_ConditionalDirective 0 None [21]%nat;
   mkLine LLT_ConditionalDirective 0 None [24]%nat;
   mkLine LLT_ConditionalDirective 0 None [30]%nat;
   mkLine LLT_ConditionalDirective 0 None [31]%nat;
   mkLine LLT_ConditionalDirective 0 None [34]%nat].

Definition ov_W : wsettings := mkWS 30 20000 false 2 4.

Lemma ov_starts_top_25 : starts_top ov_lines 25 0.
Proof.
  intros k ln Hk Hh. do 26 (destruct k as [|k]; [injection Hk as <-; cbn in Hh; try discriminate; repeat split; discriminate|]). destruct k; discriminate.
Qed.

Example levels_without_last_decision_refuted :
  starts_top ov_lines 25 0
  /\ decs_for 25 (olf_plan1 ov_W ov_lines ov_l) = [DBreak true 0 0; DBreak false 0 1]
  /\ option_map (fun p : ftoken => (f_nl (snd p), f_ind (snd p), f_cont (snd p), f_sp (snd p))) (nth_error (fst (fst (olf_model ml2_rsA ov_W false ov_lines ov_l))) 25)
     = Some (1, 0, 1, 0).
Proof. split; [exact ov_starts_top_25|]. split; vm_compute; reflexivity. Qed.

Print Assumptions solve_wsd.
Print Assumptions olf_phase1_any_line_start.
Print Assumptions top_line_first_event.
Print Assumptions kid_child_line.
