(* The C01 invariant through the formatting stages, for ANY sequence of admissible stage kinds. *)
From Coq Require Import String.
From PasfmtVerif Require Import Model.Pipeline Model.Reconstruct Proofs.ReconstructProofs Proofs.RewritersProofs.

(* One formatting step of each kind, as a relation on the token vector.
   FCounters: arbitrary new counters (covers TokenSpacing, EofNewline and any plan of the wrapper).
   FWrap: arbitrary counters, and a non-ignored multi-line string may be replaced by a text with the
   same non-blank bytes (Proofs/MLStringProofs.v shows try_rewrite_string is such a replacement). *)
Definition counters_only (p q : ftoken) : Prop :=
  fst q = fst p /\ f_ignored (snd q) = f_ignored (snd p).

Definition wrap_tok (p q : ftoken) : Prop :=
  counters_only p q
  \/ (t_ty (fst q) = t_ty (fst p) /\ f_ignored (snd q) = f_ignored (snd p) /\ f_ignored (snd p) = false
      /\ is_ml_string (t_ty (fst p)) = true
      /\ strip (t_content (fst q)) = strip (t_content (fst p))
      /\ t_ws (fst q) = [] /\ no80 (t_content (fst q))).

Definition step (k : fkind) (l l' : list ftoken) : Prop :=
  match k with
  | FCounters => Forall2 counters_only l l'
  | FLower => l' = lowercase_keywords l
  | FComment => exists alnum, l' = comment_formatter alnum l
  | FWrap => Forall2 wrap_tok l l'
  end.

Inductive chain : list fkind -> list ftoken -> list ftoken -> Prop :=
  | chain_nil l : chain [] l l
  | chain_cons k ks l l' l'' : step k l l' -> chain ks l' l'' -> chain (k :: ks) l l''.

Lemma counters_only_c01 p q : counters_only p q -> c01_rel p q.
Proof.
  destruct p as [tok f], q as [tok' f']. unfold counters_only. cbn [fst snd]. intros [-> I].
  apply c01_rel_fmt, I.
Qed.

Lemma wrap_tok_c01 p q : wrap_tok p q -> c01_rel p q.
Proof.
  intros [H|(H1 & H2 & H3 & H4 & H5 & H6 & H7)]; [apply counters_only_c01, H|].
  unfold c01_rel. split; [exact H1|]. split; [exact H2|]. split; [rewrite H5; reflexivity|].
  split.
  - intros _. split; [unfold all_blank; rewrite H6; reflexivity|exact H7].
  - rewrite H3. discriminate.
Qed.

Lemma Forall2_map_rel {A} (R : A -> A -> Prop) (f : A -> A) l : (forall x, R x (f x)) -> Forall2 R l (map f l).
Proof. intros H. induction l; constructor; auto. Qed.

Lemma Forall2_impl {A B} (R S : A -> B -> Prop) l l' : (forall x y, R x y -> S x y) -> Forall2 R l l' -> Forall2 S l l'.
Proof. intros H. induction 1; constructor; auto. Qed.

Lemma step_c01 k l l' : step k l l' -> Forall2 c01_rel l l'.
Proof.
  destruct k; cbn [step].
  - apply Forall2_impl, counters_only_c01.
  - intros ->. apply Forall2_map_rel, lowercase_tok_rel.
  - intros [alnum ->]. apply Forall2_map_rel, comment_tok_rel.
  - apply Forall2_impl, wrap_tok_c01.
Qed.

Lemma Forall2_c01_trans l1 l2 l3 : Forall2 c01_rel l1 l2 -> Forall2 c01_rel l2 l3 -> Forall2 c01_rel l1 l3.
Proof.
  intros H. revert l3. induction H as [|a b l l' Hab Hl IH]; intros l3 H3; inversion H3; subst; constructor.
  - eapply c01_rel_trans; eassumption.
  - apply IH. assumption.
Qed.

Lemma Forall2_c01_refl l : Forall2 c01_rel l l.
Proof. induction l; constructor; auto using c01_rel_refl. Qed.

Lemma chain_c01 ks l l' : chain ks l l' -> Forall2 c01_rel l l'.
Proof.
  induction 1 as [l|k ks l l' l'' Hs Hc IH]; [apply Forall2_c01_refl|].
  eapply Forall2_c01_trans; [eapply step_c01, Hs|exact IH].
Qed.

Definition contents_nonblank (l : list ftoken) : bytes := concat (map (fun p => strip (t_content (fst p))) l).

Lemma c01_contents l l' :
  Forall2 c01_rel l l' -> Forall tok_ok l ->
  Forall tok_ok l' /\ fold_case (contents_nonblank l') = fold_case (contents_nonblank l).
Proof.
  induction 1 as [|p q l l' (_ & _ & H3 & H4 & _) Hl IH]; intros Hok; [split; [constructor|reflexivity]|].
  inversion Hok as [|? ? Hp Hr]; subst. destruct (IH Hr) as [IH1 IH2]. split.
  - constructor; auto.
  - unfold contents_nonblank in *. cbn [map concat]. rewrite !fold_case_app, H3, IH2. reflexivity.
Qed.

(* C01 for the formatting half of the pipeline: any admissible chain, any settings, then reconstruct *)
Theorem chain_reconstruct_nonblank ks rs l l' :
  chain ks l l' -> Forall tok_ok l -> rs_wf rs ->
  fold_case (strip (reconstruct rs l')) = fold_case (contents_nonblank l).
Proof.
  intros Hc Hok Hrs. destruct (c01_contents _ _ (chain_c01 _ _ _ Hc) Hok) as [Hok' Hf].
  unfold reconstruct. rewrite recon_strip by assumption. exact Hf.
Qed.

(* ignored tokens pass through every stage untouched (needed by C07) *)
Lemma chain_ignored_untouched ks l l' :
  chain ks l l' -> Forall2 (fun p q => f_ignored (snd p) = true -> fst q = fst p /\ f_ignored (snd q) = true) l l'.
Proof.
  intros Hc. apply chain_c01 in Hc. induction Hc as [|p q l l' (H1 & H2 & H3 & H4 & H5) Hl IH]; constructor; [|exact IH].
  intros I. split; [apply H5, I|congruence].
Qed.

(* the generated stage list has the admissible shape *)
Lemma generated_pipeline_shape :
  pipeline_shape pipeline = Some [FCounters; FLower; FComment; FCounters; FWrap].
Proof. vm_compute. reflexivity. Qed.

Lemma generated_pipeline_order : order_ok pipeline = true.
Proof. vm_compute. reflexivity. Qed.

Lemma inventory_set_content : strings_eqb inv_set_content expected_set_content = true.
Proof. vm_compute. reflexivity. Qed.

Lemma inventory_no_token_remover : inv_token_remover_impls = [].
Proof. reflexivity. Qed.

Lemma inventory_leading_whitespace_reads : strings_eqb inv_leading_whitespace_reads expected_leading_whitespace_reads = true.
Proof. vm_compute. reflexivity. Qed.

Lemma inventory_max_line_length : strings_eqb inv_max_line_length_uses expected_max_line_length_uses = true.
Proof. vm_compute. reflexivity. Qed.

Lemma inventory_shared_state : strings_eqb inv_shared_state expected_shared_state = true.
Proof. vm_compute. reflexivity. Qed.

Lemma inventory_env_reads : strings_eqb inv_env_reads expected_env_reads = true.
Proof. vm_compute. reflexivity. Qed.

Lemma inventory_kernel_mutations : strings_eqb inv_kernel_mutations expected_kernel_mutations = true.
Proof. vm_compute. reflexivity. Qed.

Lemma generated_rewriters_before_wrapper : rewriters_before_wrapper pipeline = true.
Proof. vm_compute. reflexivity. Qed.
