(* Proofs/ParserGrammarCoverProofs.v — C14_final_lines_cover for the grammar model, as a theorem about
   parse_file_with: every token of the file is in some final logical line, under the hypotheses that
   remain (no model error; every pass consumed — refuted in general, see ParserGrammarConsumedProofs).
   Needs one more invariant of `run` (relation AL): every attributed directive index was pushed into
   a line of the pass, and lines only grow. *)
From Coq Require Import Sorted.
From PasfmtVerif Require Import Model.ParserGrammar Model.DirectiveTree Proofs.DirectiveTreeProofs Proofs.ParserKernelProofs
  Proofs.ParserGrammarProofs Proofs.ParserGrammarTypesProofs.
Local Open Scope nat_scope.

Lemma in_concat_upd_nth_mono (lines : list (list nat)) j t i :
  In i (concat lines) -> In i (concat (upd_nth j (fun l => l ++ [t]) lines)).
Proof.
  revert j. induction lines as [|a r IH]; intros [|j] H; cbn in *; try exact H.
  - apply in_app_or in H. apply in_or_app. destruct H as [H|H]; [left; apply in_or_app; left; exact H|right; exact H].
  - apply in_app_or in H. apply in_or_app. destruct H as [H|H]; [left; exact H|right; apply IH, H].
Qed.
Lemma in_concat_upd_nth_push (lines : list (list nat)) j t :
  j < length lines -> In t (concat (upd_nth j (fun l => l ++ [t]) lines)).
Proof.
  revert j. induction lines as [|a r IH]; intros [|j] H; cbn in *; try lia.
  - apply in_or_app. left. apply in_or_app. right. left. reflexivity.
  - apply in_or_app. right. apply IH. lia.
Qed.
Lemma k_step_lines_mono pass st e i : In i (concat (k_lines st)) -> In i (concat (k_lines (k_step pass st e))).
Proof.
  intros H. destruct e; cbn [k_step]; try exact H.
  - destruct (nth_error pass (k_pi st)); cbn [k_lines]; [apply in_concat_upd_nth_mono, H|exact H].
  - cbn [k_lines]. rewrite concat_app. apply in_or_app. left. exact H.
  - cbn [k_lines]. rewrite concat_app. apply in_or_app. left. exact H.
Qed.
Lemma k_run_refs_ok pass evs : refs_ok (k_run pass evs).
Proof.
  destruct (cover_fold pass evs k_init [] (inv_refs _ _ (Inv_init pass)) ltac:(intros ? ? H; cbn in H; lia)) as [H _]. exact H.
Qed.

Section Cover.
Variable pass : list nat.
Notation pstate := (pstate pass).

Definition lines_of (s : pstate) : list nat := concat (k_lines (kst pass s)).
(* attributed directives were pushed; lines only grow *)
Definition AL (s s' : pstate) : Prop :=
  (forall i, In i (ps_attr pass s') -> In i (ps_attr pass s) \/ In i (lines_of s'))
  /\ (forall i, In i (lines_of s) -> In i (lines_of s')).
Lemma AL_refl s : AL s s. Proof. split; auto. Qed.
Lemma AL_trans s1 s2 s3 : AL s1 s2 -> AL s2 s3 -> AL s1 s3.
Proof.
  intros [A1 A2] [B1 B2]. split; [|auto]. intros i Hi. destruct (B1 i Hi) as [H|H]; [|right; exact H].
  destruct (A1 i H) as [H'|H']; [left; exact H'|right; apply B2, H'].
Qed.
Lemma AL_step (f : pstate -> pstate) s e : (forall x, AL x (f x)) -> AL s e -> AL s (f e).
Proof. intros H G. eapply AL_trans; [exact G|apply H]. Qed.
Definition keeps3 (s s' : pstate) : Prop := ps_attr pass s' = ps_attr pass s /\ kst pass s' = kst pass s.
Lemma keeps3_AL s s' : keeps3 s s' -> AL s s'.
Proof. intros [A B]. unfold AL, lines_of. rewrite A, B. split; auto. Qed.
Lemma guard_keeps3 f s : keeps3 s (f s) -> keeps3 s (guard pass f s).
Proof. intros H. unfold guard. destruct (has_err pass s); [split; reflexivity|exact H]. Qed.
Lemma kst_top_lt (s : pstate) : k_top (kst pass s) < length (k_lines (kst pass s)).
Proof.
  rewrite state_is_kernel_run. destruct (k_run_refs_ok pass (pass_events pass s)) as (F & _ & Hne).
  unfold k_top. destruct (k_cur (k_run pass (pass_events pass s))) as [|a r]; [contradiction|]. exact (Forall_inv F).
Qed.
Lemma in_top_push (st : kstate) t : k_top st < length (k_lines st) -> In t (concat (upd_nth (k_top st) (fun l => l ++ [t]) (k_lines st))).
Proof. apply in_concat_upd_nth_push. Qed.

Lemma kst_p_emit e m s : has_err pass s = false -> kst pass (p_emit pass e m s) = k_step pass (kst pass s) e.
Proof. intros E. unfold p_emit, guard. rewrite E. unfold kst. cbn [ps_core set_core]. apply kst_emit. Qed.
Lemma attr_p_emit e m s : ps_attr pass (p_emit pass e m s) = ps_attr pass s.
Proof. unfold p_emit, guard. destruct (has_err pass s); reflexivity. Qed.
Lemma p_emit_AL e m s : AL s (p_emit pass e m s).
Proof.
  unfold p_emit, guard. destruct (has_err pass s); [apply AL_refl|]. split; [intros i Hi; left; exact Hi|].
  intros i Hi. unfold lines_of, kst in *. cbn. rewrite kst_emit. apply k_step_lines_mono, Hi.
Qed.
Lemma p_set_meta_AL i f s : AL s (p_set_meta pass i f s).
Proof. apply keeps3_AL, guard_keeps3. split; [reflexivity|]. unfold kst. cbn. apply kst_set_meta. Qed.
Lemma set_line_type_AL t s : AL s (set_line_type pass t s). Proof. apply p_set_meta_AL. Qed.
Lemma push_ctx_AL c s : AL s (push_ctx pass c s). Proof. apply keeps3_AL, guard_keeps3. split; reflexivity. Qed.
Lemma pop_ctx_AL s : AL s (pop_ctx pass s). Proof. apply keeps3_AL, guard_keeps3. split; reflexivity. Qed.
Lemma update_statuses_AL k s : AL s (update_statuses pass k s). Proof. apply keeps3_AL, guard_keeps3. split; reflexivity. Qed.
Lemma fail_AL e s : AL s (fail pass e s).
Proof. apply keeps3_AL. unfold fail. destruct (has_err pass s); split; reflexivity. Qed.
Lemma set_unfinished_AL u b s : AL s (set_unfinished pass u b s). Proof. apply keeps3_AL. split; reflexivity. Qed.
Lemma set_tok_AL i t s : AL s (set_tok pass i t s). Proof. apply keeps3_AL, guard_keeps3. split; reflexivity. Qed.
Lemma upd_cur_AL f s : AL s (upd_cur pass f s).
Proof. unfold upd_cur. destruct (idx0 pass s); [|apply AL_refl]. destruct (bind _ f); [apply set_tok_AL|apply AL_refl]. Qed.
Lemma consolidate_current_ident_AL s : AL s (consolidate_current_ident pass s). Proof. apply upd_cur_AL. Qed.
Lemma consolidate_current_keyword_AL s : AL s (consolidate_current_keyword pass s). Proof. apply upd_cur_AL. Qed.
Lemma set_current_decl_kind_AL d s : AL s (set_current_decl_kind pass d s). Proof. apply upd_cur_AL. Qed.
Lemma set_current_token_type_AL t s : AL s (set_current_token_type pass t s). Proof. apply upd_cur_AL. Qed.
Lemma caret_AL s : AL s (consolidate_current_caret_to_type pass s). Proof. apply upd_cur_AL. Qed.
Lemma consolidate_prev_keyword_AL s : AL s (consolidate_prev_keyword pass s).
Proof.
  unfold consolidate_prev_keyword. destruct (pidx pass s); [apply AL_refl|]. destruct (nth_error pass n); [|apply AL_refl].
  destruct (tt_at pass s n0) as [[]|]; try apply AL_refl. apply set_tok_AL.
Qed.
Lemma consolidate_class_op_in_AL s : AL s (consolidate_class_op_in pass s).
Proof.
  unfold consolidate_class_op_in. destruct (idx_next pass s); [|apply AL_refl].
  destruct (tt_at pass s n) as [[| | |k| | | | | | |]|]; try apply AL_refl. destruct k; try apply AL_refl; apply set_tok_AL.
Qed.
Lemma fix_next_eq_AL s : AL s (fix_next_eq pass s).
Proof.
  unfold fix_next_eq. generalize (skipn (S (pidx pass s)) pass). induction l as [|i r IH]; cbn [fix_next_eq_go]; [apply AL_refl|].
  destruct (tt_at pass s i) as [[o| |k|k|k|k|k| |k| |]|]; try exact IH; try apply AL_refl.
  destruct o as [| | | | | | | |e| |c| |c| | | | | |c| | |]; try exact IH; try apply AL_refl. destruct e; [apply AL_refl|apply set_tok_AL].
Qed.
Lemma portability_go_AL : forall li s, AL s (portability_go pass li s).
Proof.
  assert (P : forall s n, AL s match tt_at pass s n with
              | Some (RTT_IdentifierOrKeyword ((KK_Deprecated | KK_Experimental | KK_Platform | KK_Library) as d)) =>
                  set_tok pass n (RTT_Keyword d) s
              | _ => s end).
  { intros s n. destruct (tt_at pass s n) as [[o| |k|k|k|k|k| |k| |]|]; try apply AL_refl. destruct k; try apply AL_refl; apply set_tok_AL. }
  induction li as [|p IH]; intros s; cbn [portability_go].
  - destruct (nth_error (cur_toks pass s) 0); [|apply AL_refl].
    repeat match goal with |- AL _ (if ?b then _ else _) => destruct b; [apply AL_refl|] end. apply P.
  - destruct (nth_error (cur_toks pass s) (S p)); [|apply AL_refl].
    repeat match goal with |- AL _ (if ?b then _ else _) => destruct b; [apply AL_refl|] end.
    eapply AL_trans; [apply P|apply IH].
Qed.
Lemma consolidate_portability_directives_AL s : AL s (consolidate_portability_directives pass s).
Proof.
  unfold consolidate_portability_directives. destruct (negb _); [apply AL_refl|].
  destruct (length (cur_toks pass s)); [apply fail_AL|]. cbv zeta.
  destruct (o_semicolon _); [|apply portability_go_AL]. destruct (skip_trailing_comments pass s n); [apply AL_refl|apply portability_go_AL].
Qed.
Lemma skip_token_AL s : AL s (skip_token pass s). Proof. apply p_emit_AL. Qed.
Create HintDb aldb.
#[local] Hint Resolve AL_refl p_emit_AL set_tok_AL consolidate_current_ident_AL consolidate_current_keyword_AL set_current_decl_kind_AL
  set_current_token_type_AL caret_AL consolidate_prev_keyword_AL consolidate_class_op_in_AL fix_next_eq_AL
  consolidate_portability_directives_AL set_line_type_AL p_set_meta_AL push_ctx_AL pop_ctx_AL update_statuses_AL fail_AL
  set_unfinished_AL skip_token_AL : aldb.

Ltac ctt :=
  subst;
  repeat match goal with
         | H1 : ?a = Some _, H2 : ?a = Some _ |- _ => rewrite H1 in H2; injection H2; clear H2; intros; subst
         end;
  auto with rtdb.
Ltac alo :=
  lazymatch goal with
  | H : AL ?s0 ?v |- AL ?s0 ?v => exact H
  | |- AL ?s ?s => apply AL_refl
  | |- AL ?s0 (let x := ?v in @?b x) =>
      lazymatch type of v with
      | ParserGrammar.pstate _ =>
          let H := fresh "H" in let y := fresh "y" in
          assert (H : AL s0 v) by alo;
          set (y := v) in *; clearbody y; change (AL s0 (b y)); cbv beta; alo
      | _ => change (AL s0 (b v)); cbv beta; alo
      end
  | |- AL _ (if ?b then _ else _) => destruct b eqn:?; alo
  | |- AL _ (match ?x with _ => _ end) => destruct x eqn:?; alo
  | |- AL _ (?f ?e) => apply (AL_step f); [intros; solve [auto with aldb]|alo]
  end.

(* next_token *)
Lemma next_token_body_AL s : has_err pass s = false -> AL s (next_token_body pass s).
Proof.
  intros E. unfold next_token_body.
  set (s1 := match cur_index pass s, cur_tt pass s with
             | Some i, Some RTT_CompilerDirective => if existsb (Nat.eqb i) (ps_attr pass s) then s else set_attr pass (i :: ps_attr pass s) s
             | _, _ => s end).
  assert (K1 : kst pass s1 = kst pass s /\ has_err pass s1 = false
               /\ (forall j, In j (ps_attr pass s1) -> In j (ps_attr pass s) \/ cur_index pass s = Some j)).
  { subst s1. destruct (cur_index pass s) as [i|]; [|repeat split; auto].
    destruct (cur_tt pass s) as [[]|]; try (repeat split; auto; fail).
    destruct (existsb _ _); repeat split; auto. intros j [<-|Hj]; auto. }
  destruct K1 as (Ks & Es & As).
  set (s2 := track_levels pass s1).
  assert (K2 : kst pass s2 = kst pass s1 /\ has_err pass s2 = false /\ ps_attr pass s2 = ps_attr pass s1).
  { subst s2. unfold track_levels. destruct (cur_tt pass s1) as [[[]| | | | | | | | | |]|]; repeat split; exact Es. }
  destruct K2 as (Ks2 & Es2 & As2).
  split.
  - intros j Hj. rewrite attr_p_emit, As2 in Hj. destruct (As j Hj) as [H|H]; [left; exact H|right].
    unfold lines_of. rewrite (kst_p_emit KT lm0 s2 Es2), Ks2, Ks.
    unfold cur_index, pidx in H. cbn [k_step]. rewrite H. cbn [k_lines].
    apply in_top_push. apply kst_top_lt.
  - intros j Hj. unfold lines_of in *. rewrite (kst_p_emit KT lm0 s2 Es2), Ks2, Ks. apply k_step_lines_mono, Hj.
Qed.
Lemma next_token_go_AL : forall fuel s, AL s (next_token_go pass fuel s).
Proof.
  induction fuel as [|f IH]; intros s; cbn [next_token_go]; [apply fail_AL|].
  destruct (has_err pass s) eqn:E; [apply AL_refl|].
  destruct (is_inline_comment _); [eapply AL_trans; [apply next_token_body_AL, E|apply IH]|apply next_token_body_AL, E].
Qed.
Lemma next_token_AL s : AL s (next_token pass s). Proof. apply next_token_go_AL. Qed.
#[local] Hint Resolve next_token_AL : aldb.

(* finish_logical_line *)
Lemma inline_comments_go_AL : forall fuel s, AL s (inline_comments_go pass fuel s).
Proof.
  induction fuel as [|f IH]; intros s; cbn [inline_comments_go]; [apply fail_AL|].
  destruct (has_err pass s); [apply AL_refl|]. destruct (cur_index pass s); [|apply AL_refl].
  destruct (is_inline_comment _); [|apply AL_refl]. eapply AL_trans; [apply p_emit_AL|apply IH].
Qed.
Lemma fold_set_meta_AL (g : nat -> lmeta -> lmeta) : forall l s,
  AL s (fold_left (fun s r => p_set_meta pass r (g r) s) l s).
Proof. induction l as [|r l IH]; intros s; cbn [fold_left]; [apply AL_refl|]. eapply AL_trans; [apply p_set_meta_AL|apply IH]. Qed.
Lemma finish_logical_line_AL s : AL s (finish_logical_line pass s).
Proof.
  unfold finish_logical_line, guard. destruct (has_err pass s); [apply AL_refl|].
  destruct (at_start pass s); [apply set_line_type_AL|].
  set (s1 := consolidate_portability_directives pass s).
  set (s2 := inline_comments_go pass (remaining pass s1 + 2) s1).
  assert (M2 : AL s s2) by (eapply AL_trans; [apply consolidate_portability_directives_AL|apply inline_comments_go_AL]).
  destruct (get_context_level pass s2) as [parent lvl].
  apply AL_step; [intros; apply p_emit_AL|]. apply AL_step; [intros; apply p_set_meta_AL|].
  apply AL_step; [intros; apply set_unfinished_AL|].
  destruct (ps_cur_unfinished pass s2); [exact M2|].
  apply AL_step; [intros; apply set_unfinished_AL|]. eapply AL_trans; [exact M2|].
  apply (fold_set_meta_AL (fun _ m => mkLM (lm_parent m) lvl (lm_type m))).
Qed.
#[local] Hint Resolve finish_logical_line_AL : aldb.
Lemma make_unfinished_line_AL s : AL s (make_unfinished_line pass s).
Proof. unfold make_unfinished_line, guard. destruct (has_err pass s); [apply AL_refl|]. alo. Qed.
#[local] Hint Resolve make_unfinished_line_AL : aldb.

(* skip_pair, op_until *)
Lemma skip_pair_go_AL : forall fuel p b g chev s, AL s (skip_pair_go pass fuel p b g chev s).
Proof.
  induction fuel as [|f IH]; intros p b g chev s; cbn [skip_pair_go]; [apply fail_AL|].
  destruct (has_err pass s); [apply AL_refl|].
  match goal with |- AL _ (if ?c then _ else _) => destruct c end; [|apply AL_refl].
  eapply AL_trans; [apply next_token_AL|apply IH].
Qed.
Lemma skip_pair_AL s : AL s (skip_pair pass s).
Proof. unfold skip_pair. cbv zeta. eapply AL_trans; [apply next_token_AL|apply skip_pair_go_AL]. Qed.
#[local] Hint Resolve skip_pair_AL : aldb.
Lemma op_until_go_AL pred op : (forall x, AL x (fst (op x))) -> forall fuel s, AL s (op_until_go pass fuel pred op s).
Proof.
  intros Hop. induction fuel as [|f IH]; intros s; cbn [op_until_go]; [apply fail_AL|].
  destruct (has_err pass s); [apply AL_refl|]. destruct (cur_tt pass s); [|apply AL_refl].
  destruct (pred s); [apply AL_refl|]. destruct (is_ending pass s); [apply AL_refl|].
  pose proof (Hop s) as G. destruct (op s) as [s1 cont]. cbn [fst] in G.
  destruct cont; [eapply AL_trans; [exact G|apply IH]|exact G].
Qed.
Lemma op_until_AL pred op s : (forall x, AL x (fst (op x))) -> AL s (op_until pass pred op s).
Proof. intros H. apply op_until_go_AL, H. Qed.
Lemma simple_op_until_AL pred op s : (forall x, AL x (op x)) -> AL s (simple_op_until pass pred op s).
Proof. intros H. apply op_until_AL. intros x. cbn. apply H. Qed.
Lemma take_until_AL pred s : AL s (take_until pass pred s).
Proof. apply simple_op_until_AL. intros; apply next_token_AL. Qed.
#[local] Hint Resolve simple_op_until_AL take_until_AL : aldb.

(* parse_expression *)
Lemma parse_expression_go_AL : forall fuel s, AL s (parse_expression_go pass fuel s).
Proof.
  induction fuel as [|f IH]; intros s; cbn [parse_expression_go]; [apply fail_AL|].
  destruct (has_err pass s); [apply AL_refl|].
  assert (K : forall e, AL s e -> AL s (parse_expression_go pass f e)) by (intros e G; eapply AL_trans; [exact G|apply IH]).
  destruct (cur_tt pass s) as [[o| |k|k|k|k|k| |k| |]|]; try apply AL_refl;
    try (cbn [is_operator]; first [apply AL_refl|apply K; alo]; fail).
  - cbn [is_operator].
    assert (KO : AL s (parse_expression_go pass f
                   (match cur_tt pass (next_token pass s) with
                    | Some (RTT_IdentifierOrKeyword _) => next_token pass (consolidate_current_ident pass (next_token pass s))
                    | Some (RTT_Identifier | RTT_TextLiteral _ | RTT_NumberLiteral _) => next_token pass (next_token pass s)
                    | _ => next_token pass s end))) by (apply K; alo).
    destruct o as [| | | | | | | |e| |c| |c| | | | | |c| | |]; try exact KO; try apply AL_refl; try (apply K; alo); alo.
  - destruct (is_operator (RTT_Keyword k)); [|apply AL_refl]. apply K; alo.
Qed.
Lemma parse_expression_AL s : AL s (parse_expression pass s).
Proof.
  assert (K : forall e, AL s e -> AL s (parse_expression_go pass (remaining pass e + 2) e))
    by (intros e G; eapply AL_trans; [exact G|apply parse_expression_go_AL]).
  unfold parse_expression.
  destruct (cur_tt pass s) as [[o| |k|k|k|k|k| |k| |]|]; try (apply K; alo).
  - destruct o as [| | | | | | | |e| |c| |c| | | | | |c| | |]; try (apply K; alo); apply AL_refl.
  - destruct (is_operator (RTT_Keyword k)); [apply K; alo|apply AL_refl].
Qed.
#[local] Hint Resolve parse_expression_AL : aldb.

(* parse_parameter_list, parse_routine_header *)
Lemma param_window_AL s : AL s (param_window pass s).
Proof. unfold param_window. cbv zeta. alo. Qed.
#[local] Hint Resolve param_window_AL : aldb.
Lemma parameter_list_go_AL : forall fuel p0 consumed s, AL s (parameter_list_go pass fuel p0 consumed s).
Proof.
  induction fuel as [|f IH]; intros p0 consumed s; cbn [parameter_list_go]; [apply fail_AL|].
  destruct (has_err pass s); [apply AL_refl|].
  match goal with |- AL _ (if ?c then _ else _) => destruct c end; [apply AL_refl|].
  destruct (cur_tt pass s) as [t|]; [|apply AL_refl]. cbv zeta.
  eapply AL_trans; [|apply IH]. apply AL_step; [intros; apply next_token_AL|]. apply AL_step; [intros; apply param_window_AL|].
  destruct t as [o| |k|k|k|k|k| |k| |]; try apply AL_refl. destruct o; try apply AL_refl; apply fix_next_eq_AL.
Qed.
Lemma parse_parameter_list_AL s : AL s (parse_parameter_list pass s).
Proof. apply parameter_list_go_AL. Qed.
#[local] Hint Resolve parse_parameter_list_AL : aldb.
Lemma routine_header_op_AL s : AL s (fst (routine_header_op pass s)).
Proof.
  unfold routine_header_op. cbv zeta.
  match goal with |- context [if ?b then (_, true) else _] => destruct b end; [cbn [fst]; alo|].
  destruct (cur_tt pass s) as [t|] eqn:Ct; [|cbn [fst]; alo].
  destruct t as [o| |k|k|k|k|k| |k| |]; try (cbn [fst]; alo; fail).
  - destruct o as [| | | | | | | |e| |c| |c| | | | | |c| | |]; try (cbn [fst]; alo; fail); destruct c; cbn [fst]; alo.
  - repeat match goal with |- context [if ?b then _ else _] => destruct b end; cbn [fst]; alo.
  - repeat match goal with |- context [if ?b then _ else _] => destruct b end; cbn [fst]; alo.
Qed.
Lemma parse_routine_header_AL s : AL s (parse_routine_header pass s).
Proof.
  unfold parse_routine_header. eapply AL_trans; [|apply take_until_AL].
  eapply AL_trans; [apply next_token_AL|]. apply op_until_AL, routine_header_op_AL.
Qed.
#[local] Hint Resolve parse_routine_header_AL : aldb.

(* the simple ops *)
Lemma keyword_consolidator_AL p s : AL s (keyword_consolidator pass p s).
Proof. unfold keyword_consolidator. alo. Qed.
Lemma parse_exports_op_AL s : AL s (parse_exports_op pass s).
Proof. unfold parse_exports_op. alo. Qed.
Lemma enum_op_AL s : AL s (enum_op pass s).
Proof. unfold enum_op. alo. Qed.
Lemma import_op_AL s : AL s (import_op pass s).
Proof. unfold import_op. alo. Qed.
Lemma property_op_AL s : AL s (property_op pass s).
Proof. unfold property_op. cbv zeta. alo. Qed.
#[local] Hint Resolve keyword_consolidator_AL parse_exports_op_AL enum_op_AL import_op_AL property_op_AL : aldb.
Lemma parse_property_declaration_AL s : AL s (parse_property_declaration pass s).
Proof. cbv delta [parse_property_declaration] beta. alo. Qed.
#[local] Hint Resolve parse_property_declaration_AL : aldb.

(* asm, separators *)
Lemma add_asm_instruction_line_AL s : AL s (add_asm_instruction_line pass s).
Proof. unfold add_asm_instruction_line. alo. Qed.
#[local] Hint Resolve add_asm_instruction_line_AL : aldb.
Lemma asm_instructions_go_AL wsnl : forall fuel s, AL s (asm_instructions_go pass wsnl fuel s).
Proof.
  induction fuel as [|f IH]; intros s; cbn [asm_instructions_go]; [apply fail_AL|].
  destruct (has_err pass s); [apply AL_refl|]. destruct (idx0 pass s) as [i|]; [|apply AL_refl].
  assert (K : forall e, AL s e -> AL s (asm_instructions_go pass wsnl f e)) by (intros e G; eapply AL_trans; [exact G|apply IH]).
  assert (D : AL s (if nth i wsnl false then asm_instructions_go pass wsnl f (next_token pass (add_asm_instruction_line pass s))
                    else asm_instructions_go pass wsnl f (next_token pass s))) by (destruct (nth i wsnl false); apply K; alo).
  destruct (tt_at pass s i) as [[o| |k|k|k|k|k| |k| |]|]; try exact D; try apply AL_refl.
  - destruct o; try exact D. apply K; alo.
  - destruct k; try exact D; apply AL_refl.
Qed.
Lemma parse_asm_instructions_AL wsnl s : AL s (parse_asm_instructions pass wsnl s).
Proof. unfold parse_asm_instructions. eapply AL_trans; [apply asm_instructions_go_AL|apply add_asm_instruction_line_AL]. Qed.
#[local] Hint Resolve parse_asm_instructions_AL : aldb.
Lemma take_separators_on_last_line_AL lvl s : AL s (take_separators_on_last_line pass lvl s).
Proof.
  unfold take_separators_on_last_line, guard. destruct (has_err pass s); [apply AL_refl|].
  destruct (negb _); [apply AL_refl|]. alo.
Qed.
#[local] Hint Resolve take_separators_on_last_line_AL : aldb.
Lemma comment_arm_AL b s : AL s (comment_arm pass b s).
Proof. cbv delta [comment_arm] beta. alo. Qed.
Lemma program_head_arm_AL k s : AL s (program_head_arm pass k s).
Proof. cbv delta [program_head_arm] beta. alo. Qed.
Lemma statement_prelude_AL s : AL s (fst (statement_prelude pass s)).
Proof.
  unfold statement_prelude. destruct (last_ctx pass s); [|apply AL_refl].
  destruct (ending_ctx pass s); [cbn [fst]; apply update_statuses_AL|].
  destruct (at_start pass s); [|apply AL_refl].
  destruct (c_type p) as [| | | | | | | | | | | | | |b|k| | | |]; cbn [fst]; try apply AL_refl; try apply set_line_type_AL.
  destruct k; cbn [fst]; first [apply AL_refl|apply set_line_type_AL].
Qed.
#[local] Hint Resolve comment_arm_AL program_head_arm_AL : aldb.


Section ArmsAL.
Variable wsnl : list bool.
Variable R : call -> pstate -> pstate.
Hypothesis HR : forall c x, AL x (R c x).
#[local] Hint Resolve HR : aldb.
Ltac arm D := cbv delta [D] beta; alo.
Lemma stmt_block_AL t p l k s : AL s (stmt_block pass R t p l k s).
Proof. unfold stmt_block. apply HR. Qed.
Lemma s_loop_AL s : AL s (s_loop pass R s). Proof. apply HR. Qed.
Lemma t_loop_AL s : AL s (t_loop pass R s). Proof. apply HR. Qed.
#[local] Hint Resolve stmt_block_AL s_loop_AL t_loop_AL : aldb.
Lemma s_other_AL s : AL s (s_other pass R s). Proof. arm s_other. Qed.
Lemma t_other_AL s : AL s (t_other pass R s). Proof. arm t_other. Qed.
#[local] Hint Resolve s_other_AL t_other_AL : aldb.
Lemma label_or_other_AL s : AL s (label_or_other pass R s). Proof. arm label_or_other. Qed.
#[local] Hint Resolve label_or_other_AL : aldb.

Lemma arm_with_ctx_AL cx a s : AL s (arm_with_ctx pass wsnl R cx a s).
Proof.
  arm arm_with_ctx.
Qed.
#[local] Hint Resolve arm_with_ctx_AL : aldb.

Lemma arm_block_AL cx s : AL s (arm_block pass R cx s).
Proof.
  arm arm_block.
Qed.
#[local] Hint Resolve arm_block_AL : aldb.

Lemma arm_stmt_block_AL cx k s : AL s (arm_stmt_block pass R cx k s).
Proof.
  arm arm_stmt_block.
Qed.
#[local] Hint Resolve arm_stmt_block_AL : aldb.

Lemma arm_stmt_list_AL t op p s : AL s (arm_stmt_list pass R t op p s).
Proof.
  arm arm_stmt_list.
Qed.
#[local] Hint Resolve arm_stmt_list_AL : aldb.

Lemma arm_line_section_AL cx s : AL s (arm_line_section pass R cx s).
Proof.
  arm arm_line_section.
Qed.
#[local] Hint Resolve arm_line_section_AL : aldb.

Lemma arm_comment_lines_AL s : AL s (arm_comment_lines pass R s).
Proof.
  arm arm_comment_lines.
Qed.
#[local] Hint Resolve arm_comment_lines_AL : aldb.

Lemma sa_directive_AL s : AL s (sa_directive pass R s).
Proof.
  arm sa_directive.
Qed.
#[local] Hint Resolve sa_directive_AL : aldb.

Lemma sa_comment_AL s : AL s (sa_comment pass R s).
Proof.
  arm sa_comment.
Qed.
#[local] Hint Resolve sa_comment_AL : aldb.

Lemma sa_program_head_AL k s : AL s (sa_program_head pass R k s).
Proof.
  arm sa_program_head.
Qed.
#[local] Hint Resolve sa_program_head_AL : aldb.

Lemma sa_lbrack_AL s : AL s (sa_lbrack pass R s).
Proof.
  arm sa_lbrack.
Qed.
#[local] Hint Resolve sa_lbrack_AL : aldb.

Lemma sa_section_AL k s : AL s (sa_section pass R k s).
Proof.
  arm sa_section.
Qed.
#[local] Hint Resolve sa_section_AL : aldb.

Lemma sa_begin_AL s : AL s (sa_begin pass R s).
Proof.
  arm sa_begin.
Qed.
#[local] Hint Resolve sa_begin_AL : aldb.

Lemma sa_end_AL s : AL s (sa_end pass R s).
Proof.
  arm sa_end.
Qed.
#[local] Hint Resolve sa_end_AL : aldb.

Lemma sa_repeat_AL s : AL s (sa_repeat pass R s).
Proof.
  arm sa_repeat.
Qed.
#[local] Hint Resolve sa_repeat_AL : aldb.

Lemma sa_try_AL s : AL s (sa_try pass R s).
Proof.
  arm sa_try.
Qed.
#[local] Hint Resolve sa_try_AL : aldb.

Lemma sa_on_AL s : AL s (sa_on pass R s).
Proof.
  arm sa_on.
Qed.
#[local] Hint Resolve sa_on_AL : aldb.

Lemma sa_do_AL is_for s : AL s (sa_do pass R is_for s).
Proof.
  arm sa_do.
Qed.
#[local] Hint Resolve sa_do_AL : aldb.

Lemma sa_if_AL s : AL s (sa_if pass R s).
Proof.
  arm sa_if.
Qed.
#[local] Hint Resolve sa_if_AL : aldb.

Lemma sa_else_AL s : AL s (sa_else pass R s).
Proof.
  arm sa_else.
Qed.
#[local] Hint Resolve sa_else_AL : aldb.

Lemma sa_case_AL s : AL s (sa_case pass R s).
Proof.
  arm sa_case.
Qed.
#[local] Hint Resolve sa_case_AL : aldb.

Lemma sa_uses_AL s : AL s (sa_uses pass R s).
Proof.
  arm sa_uses.
Qed.
#[local] Hint Resolve sa_uses_AL : aldb.

Lemma sa_contains_AL s : AL s (sa_contains pass R s).
Proof.
  arm sa_contains.
Qed.
#[local] Hint Resolve sa_contains_AL : aldb.

Lemma sa_exports_AL s : AL s (sa_exports pass R s).
Proof.
  arm sa_exports.
Qed.
#[local] Hint Resolve sa_exports_AL : aldb.

Lemma sa_class_AL s : AL s (sa_class pass R s).
Proof.
  arm sa_class.
Qed.
#[local] Hint Resolve sa_class_AL : aldb.

Lemma sa_strict_AL s : AL s (sa_strict pass R s).
Proof.
  arm sa_strict.
Qed.
#[local] Hint Resolve sa_strict_AL : aldb.

Lemma sa_visibility_AL s : AL s (sa_visibility pass R s).
Proof.
  arm sa_visibility.
Qed.
#[local] Hint Resolve sa_visibility_AL : aldb.

Lemma sa_decl_AL k s : AL s (sa_decl pass R k s).
Proof.
  arm sa_decl.
Qed.
#[local] Hint Resolve sa_decl_AL : aldb.

Lemma sa_property_AL s : AL s (sa_property pass R s).
Proof.
  arm sa_property.
Qed.
#[local] Hint Resolve sa_property_AL : aldb.

Lemma sa_routine_AL s : AL s (sa_routine pass R s).
Proof.
  arm sa_routine.
Qed.
#[local] Hint Resolve sa_routine_AL : aldb.

Lemma sa_asm_AL s : AL s (sa_asm pass R s).
Proof.
  arm sa_asm.
Qed.
#[local] Hint Resolve sa_asm_AL : aldb.

Lemma sa_raise_AL s : AL s (sa_raise pass R s).
Proof.
  arm sa_raise.
Qed.
#[local] Hint Resolve sa_raise_AL : aldb.

Lemma sa_other_AL s : AL s (sa_other pass R s).
Proof.
  arm sa_other.
Qed.
#[local] Hint Resolve sa_other_AL : aldb.

Lemma arm_structures_AL s : AL s (arm_structures pass R s).
Proof.
  unfold arm_structures. destruct (cur_tt pass s) as [tk|]; [|apply AL_refl].
  destruct (ending_ctx pass s); [apply update_statuses_AL|]. destruct (sarm_of tk); auto with aldb.
Qed.
#[local] Hint Resolve arm_structures_AL : aldb.

Lemma st_struct_type_body_AL s : AL s (st_struct_type_body pass R s).
Proof.
  arm st_struct_type_body.
Qed.
#[local] Hint Resolve st_struct_type_body_AL : aldb.

Lemma st_struct_type_AL s : AL s (st_struct_type pass R s).
Proof.
  arm st_struct_type.
Qed.
#[local] Hint Resolve st_struct_type_AL : aldb.

Lemma st_of_AL s : AL s (st_of pass R s).
Proof.
  arm st_of.
Qed.
#[local] Hint Resolve st_of_AL : aldb.

Lemma st_var_AL s : AL s (st_var pass R s).
Proof.
  arm st_var.
Qed.
#[local] Hint Resolve st_var_AL : aldb.

Lemma st_lparen_AL s : AL s (st_lparen pass R s).
Proof.
  arm st_lparen.
Qed.
#[local] Hint Resolve st_lparen_AL : aldb.

Lemma st_semicolon_AL s : AL s (st_semicolon pass s).
Proof.
  arm st_semicolon.
Qed.
#[local] Hint Resolve st_semicolon_AL : aldb.

Lemma st_lt_AL s : AL s (st_lt pass R s).
Proof.
  arm st_lt.
Qed.
#[local] Hint Resolve st_lt_AL : aldb.

Lemma st_colon_AL s : AL s (st_colon pass R s).
Proof.
  arm st_colon.
Qed.
#[local] Hint Resolve st_colon_AL : aldb.

Lemma st_equal_AL s : AL s (st_equal pass R s).
Proof.
  arm st_equal.
Qed.
#[local] Hint Resolve st_equal_AL : aldb.

Lemma st_reference_AL s : AL s (st_reference pass R s).
Proof.
  arm st_reference.
Qed.
#[local] Hint Resolve st_reference_AL : aldb.

Lemma st_in_AL s : AL s (st_in pass R s).
Proof.
  arm st_in.
Qed.
#[local] Hint Resolve st_in_AL : aldb.

Lemma st_to_AL s : AL s (st_to pass R s).
Proof.
  arm st_to.
Qed.
#[local] Hint Resolve st_to_AL : aldb.

Lemma st_absolute_AL s : AL s (st_absolute pass R s).
Proof.
  arm st_absolute.
Qed.
#[local] Hint Resolve st_absolute_AL : aldb.

Lemma st_assign_AL s : AL s (st_assign pass R s).
Proof.
  arm st_assign.
Qed.
#[local] Hint Resolve st_assign_AL : aldb.

Lemma st_routine_AL s : AL s (st_routine pass R s).
Proof.
  arm st_routine.
Qed.
#[local] Hint Resolve st_routine_AL : aldb.

Lemma st_begin_AL s : AL s (st_begin pass R s).
Proof.
  arm st_begin.
Qed.
#[local] Hint Resolve st_begin_AL : aldb.

Lemma st_label_cand_AL s : AL s (st_label_cand pass R s).
Proof.
  arm st_label_cand.
Qed.
#[local] Hint Resolve st_label_cand_AL : aldb.

Lemma st_other_AL s : AL s (st_other pass R s).
Proof.
  arm st_other.
Qed.
#[local] Hint Resolve st_other_AL : aldb.

Lemma arm_statement_AL s : AL s (arm_statement pass R s).
Proof.
  unfold arm_statement. destruct (cur_tt pass s) as [tk|]; [|apply AL_refl].
  pose proof (statement_prelude_AL s) as P. destruct (statement_prelude pass s) as [s1 go]. cbn [fst] in P.
  destruct (negb go); [exact P|]. eapply AL_trans; [exact P|]. destruct (starm_of tk); auto with aldb.
Qed.
#[local] Hint Resolve arm_statement_AL : aldb.

Lemma arm_if_then_AL s : AL s (arm_if_then pass R s).
Proof.
  arm arm_if_then.
Qed.
#[local] Hint Resolve arm_if_then_AL : aldb.

Lemma arm_do_AL is_for s : AL s (arm_do pass R is_for s).
Proof.
  arm arm_do.
Qed.
#[local] Hint Resolve arm_do_AL : aldb.

Lemma arm_case_statement_AL s : AL s (arm_case_statement pass R s).
Proof.
  arm arm_case_statement.
Qed.
#[local] Hint Resolve arm_case_statement_AL : aldb.

Lemma arm_variant_record_AL s : AL s (arm_variant_record pass R s).
Proof.
  arm arm_variant_record.
Qed.
#[local] Hint Resolve arm_variant_record_AL : aldb.

Lemma arm_case_arm_AL parent s : AL s (arm_case_arm pass R parent s).
Proof.
  arm arm_case_arm.
Qed.
#[local] Hint Resolve arm_case_arm_AL : aldb.

Lemma arm_import_clause_AL s : AL s (arm_import_clause pass R s).
Proof.
  arm arm_import_clause.
Qed.
#[local] Hint Resolve arm_import_clause_AL : aldb.

Lemma arm_parens_AL s : AL s (arm_parens pass R s).
Proof.
  arm arm_parens.
Qed.
#[local] Hint Resolve arm_parens_AL : aldb.

Lemma arm_parens_loop_AL s : AL s (arm_parens_loop pass R s).
Proof.
  arm arm_parens_loop.
Qed.
#[local] Hint Resolve arm_parens_loop_AL : aldb.

Lemma arm_variant_fields_AL s : AL s (arm_variant_fields pass R s).
Proof.
  arm arm_variant_fields.
Qed.
#[local] Hint Resolve arm_variant_fields_AL : aldb.

Lemma arm_anon_AL s : AL s (arm_anon pass R s).
Proof.
  arm arm_anon.
Qed.
#[local] Hint Resolve arm_anon_AL : aldb.

Lemma arm_anon_loop_AL parent s : AL s (arm_anon_loop pass R parent s).
Proof.
  arm arm_anon_loop.
Qed.
#[local] Hint Resolve arm_anon_loop_AL : aldb.

Lemma arm_routine_AL s : AL s (arm_routine pass R s).
Proof.
  arm arm_routine.
Qed.
#[local] Hint Resolve arm_routine_AL : aldb.

Lemma arm_asm_block_AL s : AL s (arm_asm_block pass R s).
Proof.
  arm arm_asm_block.
Qed.
#[local] Hint Resolve arm_asm_block_AL : aldb.

Lemma arm_begin_end_AL lvl s : AL s (arm_begin_end pass R lvl s).
Proof.
  arm arm_begin_end.
Qed.
#[local] Hint Resolve arm_begin_end_AL : aldb.

Lemma arm_top_AL s : AL s (arm_top pass R s).
Proof.
  arm arm_top.
Qed.
#[local] Hint Resolve arm_top_AL : aldb.

End ArmsAL.

Theorem run_AL wsnl : forall fuel c s, AL s (run pass wsnl fuel c s).
Proof.
  induction fuel as [|f IH]; intros c s.
  - cbn [run]. destruct (has_err pass s); [apply AL_refl|apply fail_AL].
  - cbn [run]. destruct (has_err pass s); [apply AL_refl|].
    destruct c.

    + apply (arm_structures_AL (run pass wsnl f) IH).

    + apply (arm_statement_AL (run pass wsnl f) IH).

    + apply (arm_if_then_AL (run pass wsnl f) IH).

    + apply (arm_do_AL (run pass wsnl f) IH).

    + apply (arm_case_statement_AL (run pass wsnl f) IH).

    + apply (arm_variant_record_AL (run pass wsnl f) IH).

    + apply (arm_case_arm_AL (run pass wsnl f) IH).

    + apply (arm_comment_lines_AL (run pass wsnl f) IH).

    + apply (arm_import_clause_AL (run pass wsnl f) IH).

    + apply (arm_line_section_AL (run pass wsnl f) IH).

    + apply (arm_stmt_block_AL (run pass wsnl f) IH).

    + apply (arm_stmt_list_AL (run pass wsnl f) IH).

    + apply (arm_block_AL (run pass wsnl f) IH).

    + apply (arm_with_ctx_AL wsnl (run pass wsnl f) IH).

    + apply (arm_parens_AL (run pass wsnl f) IH).

    + apply (arm_parens_loop_AL (run pass wsnl f) IH).

    + apply (arm_variant_fields_AL (run pass wsnl f) IH).

    + apply (arm_anon_AL (run pass wsnl f) IH).

    + apply (arm_anon_loop_AL (run pass wsnl f) IH).

    + apply (arm_routine_AL (run pass wsnl f) IH).

    + apply (arm_asm_block_AL (run pass wsnl f) IH).

    + apply (arm_begin_end_AL (run pass wsnl f) IH).

    + apply (arm_top_AL (run pass wsnl f) IH).

Qed.

End Cover.

(* ================================================================== *)
(* consequences for one pass *)
Lemma parse_pass_attr pass wsnl toks attr i :
  In i (ps_attr pass (parse_pass pass wsnl toks attr)) ->
  In i attr \/ In i (concat (map ll_toks (pass_lines pass (parse_pass pass wsnl toks attr)))).
Proof.
  intros H. rewrite pass_lines_toks.
  destruct (run_AL pass wsnl (run_fuel pass) C_top (ps_init pass toks attr)) as [A _]. exact (A i H).
Qed.

(* ---------------- consolidate_pass_lines keeps every line and adds every non-empty pass line (up to
   the remapped parent) *)
Lemma lline_eqb_toks a b : lline_eqb a b = true -> ll_toks a = ll_toks b.
Proof. unfold lline_eqb. intros H. apply andb_true_iff in H. destruct H as [_ H]. apply nat_list_eqb_eq, H. Qed.
Lemma index_of_line_some l : forall acc k j, index_of_line l acc k = Some j -> exists a, In a acc /\ lline_eqb l a = true.
Proof.
  induction acc as [|a r IH]; intros k j H; cbn in H; [discriminate|].
  destruct (lline_eqb l a) eqn:E; [exists a; split; [left; reflexivity|exact E]|].
  destruct (IH _ _ H) as (b & Hb & Eb). exists b. split; [right; exact Hb|exact Eb].
Qed.
Lemma consolidate_step_spec acc mapped line :
  let st' := consolidate_step (acc, mapped) line in
  (forall l, In l acc -> In l (fst st')) /\
  (ll_toks line <> [] -> exists l', In l' (fst st') /\ ll_toks l' = ll_toks line).
Proof.
  cbn [consolidate_step]. destruct (ll_toks line) as [|x r] eqn:Et; cbn [fst].
  - split; [auto|intros H; contradiction].
  - match goal with |- context [index_of_line ?l' acc 0] => set (line' := l') end.
    destruct (index_of_line line' acc 0) as [j|] eqn:Ei; cbn [fst].
    + split; [auto|intros _]. destruct (index_of_line_some _ _ _ _ Ei) as (a & Ha & Ea).
      exists a. split; [exact Ha|]. rewrite <- (lline_eqb_toks _ _ Ea). reflexivity.
    + split; [intros l Hl; apply in_or_app; left; exact Hl|intros _].
      exists line'. split; [apply in_or_app; right; left; reflexivity|reflexivity].
Qed.
Lemma consolidate_fold_spec : forall pl acc mapped,
  let st' := fold_left consolidate_step pl (acc, mapped) in
  (forall l, In l acc -> In l (fst st')) /\
  (forall line, In line pl -> ll_toks line <> [] -> exists l', In l' (fst st') /\ ll_toks l' = ll_toks line).
Proof.
  induction pl as [|a r IH]; intros acc mapped; cbn [fold_left].
  - split; [auto|intros line []].
  - destruct (consolidate_step (acc, mapped) a) as [acc1 mapped1] eqn:E.
    pose proof (consolidate_step_spec acc mapped a) as S. rewrite E in S. cbn [fst] in S. destruct S as [S1 S2].
    destruct (IH acc1 mapped1) as [I1 I2]. split.
    + intros l Hl. apply I1, S1, Hl.
    + intros line [<-|Hl] Hne; [|apply I2; assumption].
      destruct (S2 Hne) as (l' & Hl' & Et). exists l'. split; [apply I1, Hl'|exact Et].
Qed.
Lemma consolidate_pass_lines_spec acc pl :
  (forall l, In l acc -> In l (consolidate_pass_lines acc pl)) /\
  (forall line, In line pl -> ll_toks line <> [] -> exists l', In l' (consolidate_pass_lines acc pl) /\ ll_toks l' = ll_toks line).
Proof. unfold consolidate_pass_lines. apply consolidate_fold_spec. Qed.
Lemma consolidate_covers acc pl t :
  In t (concat (map ll_toks pl)) -> exists l, In l (consolidate_pass_lines acc pl) /\ In t (ll_toks l).
Proof.
  intros H. apply in_concat in H. destruct H as (x & Hx & Ht). apply in_map_iff in Hx. destruct Hx as (line & <- & Hl).
  destruct (proj2 (consolidate_pass_lines_spec acc pl) line Hl) as (l' & Hl' & Et); [intros E; rewrite E in Ht; contradiction|].
  exists l'. split; [exact Hl'|rewrite Et; exact Ht].
Qed.

(* ---------------- the directive lines *)
Definition is_directive_type (t : RawTokenType) : bool :=
  match t with RTT_CompilerDirective | RTT_ConditionalDirective _ => true | _ => false end.
Lemma directive_lines_spec : forall toks k attr level i t,
  nth_error toks i = Some t -> is_directive_type t = true -> ~ In (k + i) attr ->
  exists l, In l (directive_lines toks k attr level) /\ ll_toks l = [k + i].
Proof.
  induction toks as [|a r IH]; intros k attr level i t Hi Ht Ha; [destruct i; discriminate|].
  cbn [directive_lines]. destruct i as [|i].
  - cbn in Hi. injection Hi as ->. rewrite Nat.add_0_r in *.
    destruct (existsb (Nat.eqb k) attr) eqn:E.
    { exfalso. apply existsb_exists in E. destruct E as (x & Hx & Ex). apply Nat.eqb_eq in Ex. subst x. exact (Ha Hx). }
    destruct t; try discriminate.
    + destruct k0; cbn; eexists; (split; [left; reflexivity|reflexivity]).
    + eexists; split; [left; reflexivity|reflexivity].
  - cbn in Hi. replace (k + S i) with (S k + i) in * by lia.
    assert (R : forall lvl, exists l, In l (directive_lines r (S k) attr lvl) /\ ll_toks l = [S k + i]) by (intros; eapply IH; eassumption).
    destruct (existsb (Nat.eqb k) attr); [apply R|].
    destruct a; try apply R.
    + destruct (ConditionalDirectiveKind_is_if k0); [destruct (R (level + 1)%N) as (l & Hl & El); exists l; split; [right; exact Hl|exact El]|].
      destruct (ConditionalDirectiveKind_is_end k0); [destruct (R (N.pred level)) as (l & Hl & El); exists l; split; [right; exact Hl|exact El]|].
      destruct (ConditionalDirectiveKind_is_else k0); [destruct (R level) as (l & Hl & El); exists l; split; [right; exact Hl|exact El]|apply R].
    + destruct (R level) as (l & Hl & El); exists l; split; [right; exact Hl|exact El].
Qed.

(* ---------------- parse_passes *)
Lemma parse_passes_log wsnl : forall passes toks attr acc log,
  let r := parse_passes wsnl passes toks attr acc log in
  let r0 := parse_passes wsnl passes toks attr acc [] in
  r_passes r = rev log ++ r_passes r0 /\ r_lines r = r_lines r0 /\ r_toks r = r_toks r0 /\ r_err r = r_err r0.
Proof.
  induction passes as [|pass rest IH]; intros toks attr acc log; cbn [parse_passes].
  - cbn. rewrite app_nil_r. auto.
  - destruct (ps_err pass (parse_pass pass wsnl toks attr)).
    + cbn. auto.
    + match goal with |- context [parse_passes wsnl rest ?t ?a ?c (?pr :: log)] =>
        destruct (IH t a c (pr :: log)) as (A1 & A2 & A3 & A4); destruct (IH t a c [pr]) as (B1 & B2 & B3 & B4) end.
      cbv zeta in *. rewrite A1, A2, A3, A4, B1, B2, B3, B4. cbn [rev app]. rewrite <- app_assoc. auto.
Qed.

(* a pass is consumed: its event log advanced pass_index to the end (first side condition) *)
Definition pass_consumed (pass : list nat) (pr : pass_result) : Prop := length pass <= adv_count (pr_events pr).

Section ParseFileCover.
Variable wsnl : list bool.
Variable toks0 : list RawTokenType.

Definition covered_in (lines : list lline) (t : nat) : Prop := exists l, In l lines /\ In t (ll_toks l).
Definition is_cd0 (t : nat) : Prop := nth_error toks0 t = Some RTT_CompilerDirective.

Lemma parse_passes_cover : forall passes toks attr acc,
  let r := parse_passes wsnl passes toks attr acc [] in
  retypes toks0 toks ->
  (forall j, In j attr -> covered_in acc j) ->
  r_err r = None ->
  Forall2 pass_consumed passes (r_passes r) ->
  (forall l, In l acc -> In l (r_lines r))
  /\ (forall p t, In p passes -> In t p -> covered_in (r_lines r) t \/ is_cd0 t)
  /\ (forall i t, nth_error toks0 i = Some t -> is_directive_type t = true -> covered_in (r_lines r) i).
Proof.
  induction passes as [|pass rest IH]; intros toks attr acc r Hr Hattr Herr Hc; subst r; cbn [parse_passes] in *.
  - cbn [r_lines r_passes] in *. pose proof (consolidate_pass_lines_spec acc (directive_lines toks 0 attr 0%N)) as [S1 S2].
    split; [exact S1|]. split; [intros p t []|].
    intros i t Hi Ht.
    destruct (in_dec Nat.eq_dec i attr) as [Hin|Hnin].
    + destruct (Hattr i Hin) as (l & Hl & Hil). exists l. split; [apply S1, Hl|exact Hil].
    + destruct (retypes_nth _ _ _ _ Hr Hi) as (t' & Ht' & Hrt).
      assert (Hd : is_directive_type t' = true).
      { destruct t; try discriminate; apply retype_ok_fixed in Hrt; cbn in Hrt; subst t'; reflexivity. }
      destruct (directive_lines_spec toks 0 attr 0%N i t' Ht' Hd Hnin) as (l & Hl & El). cbn [Nat.add] in El.
      destruct (S2 l Hl) as (l' & Hl' & Et); [rewrite El; discriminate|].
      exists l'. split; [exact Hl'|rewrite Et, El; left; reflexivity].
  - set (s := parse_pass pass wsnl toks attr) in *.
    destruct (ps_err pass s) eqn:Es; [cbn [r_err] in Herr; discriminate|].
    match type of Herr with r_err (parse_passes wsnl rest ?t ?a ?c ?lg) = None =>
      destruct (parse_passes_log wsnl rest t a c lg) as (L1 & L2 & L3 & L4);
      set (toks1 := t) in *; set (attr1 := a) in *; set (acc1 := c) in * end.
    cbv zeta in L1, L2, L3, L4. rewrite L2. rewrite L4 in Herr. rewrite L1 in Hc. cbn [rev app] in Hc.
    inversion Hc as [|? pr ? ? Hc1 Hc2]; subst.
    pose proof (consolidate_pass_lines_spec acc (pass_lines pass s)) as [S1 S2].
    assert (Hr1 : retypes toks0 toks1).
    { eapply retypes_trans; [exact Hr|]. eapply retypes_trans; [apply parse_pass_retype_ok|apply cement_retypes]. }
    assert (Hattr1 : forall j, In j attr1 -> covered_in acc1 j).
    { intros j Hj. destruct (parse_pass_attr pass wsnl toks attr j Hj) as [H|H].
      - destruct (Hattr j H) as (l & Hl & Hil). exists l. split; [apply S1, Hl|exact Hil].
      - apply consolidate_covers, H. }
    destruct (IH toks1 attr1 acc1 Hr1 Hattr1 Herr Hc2) as (I1 & I2 & I3).
    split; [intros l Hl; apply I1, S1, Hl|]. split; [|exact I3].
    intros p t [<-|Hp] Ht; [|apply (I2 p t Hp Ht)].
    apply In_nth_error in Ht. destruct Ht as [k Hk].
    unfold pass_consumed in Hc1. cbn [pr_events] in Hc1. rewrite <- pidx_adv_count in Hc1.
    destruct (parse_pass_cover pass wsnl toks attr Hc1 k t Hk) as [H|H].
    + left. destruct (consolidate_covers acc _ _ H) as (l & Hl & Hil). exists l. split; [apply I1, Hl|exact Hil].
    + right. pose proof (parse_pass_skips_directives pass wsnl toks attr k t H Hk) as Hcd.
      destruct (retypes_nth_rev _ _ _ _ Hr Hcd) as (a & Ha & Hra). apply retype_ok_to_compdir in Hra. subst a. exact Ha.
Qed.
End ParseFileCover.

(* C14_final_lines_cover for the grammar model: with the passes of the directive tree, if the model
   ends without error and every pass was consumed, every token of the file is in a final line.
   (The skip side condition is discharged; "consumed" is the hypothesis that remains — it holds
   whenever the top-level loop of each pass ends with no current token, ParserGrammarConsumedProofs.) *)
Theorem parse_file_lines_cover toks wsnl :
  let r := parse_file_with toks wsnl (all_passes toks) in
  r_err r = None ->
  Forall2 pass_consumed (all_passes toks) (r_passes r) ->
  forall i, i < length toks -> exists l, In l (r_lines r) /\ In i (ll_toks l).
Proof.
  intros r Herr Hc i Hi. subst r. unfold parse_file_with in *.
  destruct (parse_passes_cover wsnl toks (all_passes toks) toks [] [] (retypes_refl toks) ltac:(intros j []) Herr Hc) as (_ & C2 & C3).
  destruct (nth_error toks i) as [t|] eqn:Et; [|apply nth_error_None in Et; lia].
  destruct (is_directive_type t) eqn:Ed; [exact (C3 i t Et Ed)|].
  assert (Hnd : nondir toks i).
  { exists t. split; [exact Et|]. destruct t; try reflexivity; discriminate. }
  destruct (passes_cover toks i Hnd) as (p & Hp & Hip).
  destruct (C2 p i Hp Hip) as [H|H]; [exact H|].
  unfold is_cd0 in H. rewrite Et in H. injection H as ->. discriminate.
Qed.

(* the same as a statement about the model that computes its own passes *)
Corollary parse_file_model_lines_cover toks wsnl :
  let r := parse_file_model toks wsnl in
  r_err r = None -> Forall2 pass_consumed (all_passes toks) (r_passes r) ->
  forall i, i < length toks -> exists l, In l (r_lines r) /\ In i (ll_toks l).
Proof. apply parse_file_lines_cover. Qed.

Example parse_file_lines_cover_example :
  let toks := [RTT_ConditionalDirective CDK_Ifdef; RTT_Identifier; RTT_Op OK_Semicolon; RTT_ConditionalDirective CDK_Else;
               RTT_CompilerDirective; RTT_ConditionalDirective CDK_Endif; RTT_Eof] in
  let r := parse_file_model toks (repeat false 7) in
  r_err r = None /\ Forall2 pass_consumed (all_passes toks) (r_passes r)
  /\ map ll_toks (r_lines r) = [[1; 2]; [6]; [0]; [3]; [4]; [5]].
Proof.
  vm_compute. split; [reflexivity|]. split; [|reflexivity].
  repeat (constructor; [unfold pass_consumed; cbn; lia|]). constructor.
Qed.
