(* Proofs/LexerCrlfProofs.v — the lexer link of C09 clause 3: turning every LF of a file into CR LF does not change the way the lexer
   cuts it, when no token text contains a LF or a CR and every block comment and directive has its closing delimiter.

   lex_crlf: lex_segments s = Some segs -> crlf_link_hyp segs -> lex_segments (lf_to_crlf s) = Some (map crlf_seg segs)
   (the conclusion is FormatCrlfProofs.lex_crlf_commutes; crlf_link_hyp is decidable on the scan of the LF text).

   Why it is not an instance of LexerRelayoutProofs.lex_relayout: that theorem asks for a separator after every token, and here two
   tokens may touch (`x:=1`).  What is used instead: every scanning primitive of the lexer stops at the first CR or LF it meets and
   cannot tell one from the other (sections 1–3: the value of every sub-lexer on  p ++ t1  and  p ++ t2  is the same when p has no
   line break and t1, t2 both start with one, or are both empty), so a token that ends before the first line break that follows it is
   cut in the same way when that line break changes from LF to CR LF — whatever stands between the token and the line break.  Block
   comments and directives look for their closing delimiter across line breaks; when they are terminated they are determined by
   their own bytes (LexerRelayoutProofs.lex_token_closed_on_right); an unterminated block comment is followed by blanks only
   (lex_token_open_comment_rest), which stay blanks (lex_token_stable_q).  For an unterminated DIRECTIVE the stability theorem
   asks for the very same continuation, so it is excluded by the hypothesis (on the streams the link held there too). *)
From PasfmtVerif Require Import Model.Lexer Proofs.LexerProofs Proofs.LexerSpecProofs Proofs.LexerRelayoutProofs Proofs.FmtDataProofs.
From Coq Require Import Arith Lia.

(* ------------------------------------------------------------------ *)
(* 1. texts without a line break, continuations that start with one *)
Definition eolf (p : bytes) : Prop := forallb (fun b => negb (is_eol b)) p = true.
Definition eolh (t1 t2 : bytes) : Prop :=
  match t1, t2 with
  | [], [] => True
  | a :: _, b :: _ => is_eol a = true /\ is_eol b = true
  | _, _ => False
  end.

Lemma is_eol_cases b : is_eol b = true -> b = 10 \/ b = 13.
Proof. unfold is_eol. intros H. apply orb_true_iff in H. destruct H as [H|H]; apply N.eqb_eq in H; auto. Qed.

Lemma eolf_cons a p : eolf (a :: p) <-> is_eol a = false /\ eolf p.
Proof. unfold eolf. cbn [forallb]. rewrite andb_true_iff, negb_true_iff. tauto. Qed.

Lemma eolf_app p q : eolf (p ++ q) <-> eolf p /\ eolf q.
Proof. unfold eolf. rewrite forallb_app, andb_true_iff. tauto. Qed.

Lemma eolf_skipn n p : eolf p -> eolf (skipn n p).
Proof. intros H. rewrite <- (firstn_skipn n p) in H. apply eolf_app in H. tauto. Qed.

Lemma eolf_firstn n p : eolf p -> eolf (firstn n p).
Proof. intros H. rewrite <- (firstn_skipn n p) in H. apply eolf_app in H. tauto. Qed.

(* a byte class that contains neither CR nor LF *)
Definition noeol (f : byte -> bool) : Prop := f 10 = false /\ f 13 = false.

Lemma noeol_head f (t1 t2 : bytes) : noeol f -> eolh t1 t2 -> count_while f t1 = O /\ count_while f t2 = O.
Proof.
  intros [F1 F2] H. destruct t1 as [|a t1], t2 as [|b t2]; cbn in H; try contradiction; [split; reflexivity|].
  destruct H as [Ha Hb]. cbn [count_while].
  destruct (is_eol_cases _ Ha) as [-> | ->], (is_eol_cases _ Hb) as [-> | ->]; rewrite ?F1, ?F2; split; reflexivity.
Qed.

Lemma count_while_eolh f (p t1 t2 : bytes) : noeol f -> eolh t1 t2 ->
  count_while f (p ++ t1) = count_while f (p ++ t2) /\ (count_while f (p ++ t1) <= length p)%nat.
Proof.
  intros Hf H. induction p as [|a p IH]; cbn [app count_while length].
  - destruct (noeol_head f t1 t2 Hf H) as [-> ->]. split; [reflexivity|lia].
  - destruct (f a); [|split; [reflexivity|lia]]. destruct IH as [-> IH]. split; [reflexivity|lia].
Qed.

Lemma next_is_eolh c (p t1 t2 : bytes) : is_eol c = false -> eolh t1 t2 -> next_is c (p ++ t1) = next_is c (p ++ t2).
Proof.
  intros Hc H. destruct p as [|a p]; [|reflexivity]. cbn [app].
  destruct t1 as [|a t1], t2 as [|b t2]; cbn in H; try contradiction; [reflexivity|]. destruct H as [Ha Hb]. cbn [next_is].
  assert (G : forall x, is_eol x = true -> (x =? c) = false).
  { intros x Hx. apply N.eqb_neq. intros ->. rewrite Hx in Hc. discriminate. }
  rewrite (G a Ha), (G b Hb). reflexivity.
Qed.

(* under next_is c the head lies in p *)
Lemma next_is_in_p c (p t1 t2 : bytes) : is_eol c = false -> eolh t1 t2 -> next_is c (p ++ t1) = true -> exists p', p = c :: p'.
Proof.
  intros Hc H Hn. destruct p as [|a p].
  - cbn [app] in Hn. destruct t1 as [|a t1], t2 as [|b t2]; cbn in H; try contradiction; [discriminate Hn|].
    cbn [next_is] in Hn. apply N.eqb_eq in Hn. subst a. destruct H as [Ha _]. rewrite Ha in Hc. discriminate.
  - cbn [app next_is] in Hn. apply N.eqb_eq in Hn. subst a. exists p. reflexivity.
Qed.

Lemma is_prefix_eolh (pat : bytes) : eolf pat -> forall (p t1 t2 : bytes), eolh t1 t2 -> is_prefix pat (p ++ t1) = is_prefix pat (p ++ t2).
Proof.
  induction pat as [|c pat IH]; intros Hpat p t1 t2 H; [reflexivity|]. apply eolf_cons in Hpat. destruct Hpat as [Hc Hpat].
  destruct p as [|a p]; cbn [app].
  - destruct t1 as [|a t1], t2 as [|b t2]; cbn in H; try contradiction; [reflexivity|]. destruct H as [Ha Hb]. cbn [is_prefix].
    assert (G : forall x, is_eol x = true -> (c =? x) = false).
    { intros x Hx. apply N.eqb_neq. intros ->. rewrite Hx in Hc. discriminate. }
    rewrite (G a Ha), (G b Hb). reflexivity.
  - cbn [is_prefix]. rewrite (IH Hpat p t1 t2 H). reflexivity.
Qed.

Lemma ident_end_eolh (p t1 t2 : bytes) : eolh t1 t2 ->
  ident_end_generic (p ++ t1) = ident_end_generic (p ++ t2) /\ (ident_end_generic (p ++ t1) <= length p)%nat.
Proof.
  intros H. induction p as [|a p IH]; cbn [app length].
  - destruct t1 as [|a t1], t2 as [|b t2]; cbn in H; try contradiction; [split; [reflexivity|cbn; lia]|]. destruct H as [Ha Hb].
    cbn [ident_end_generic].
    assert (G : forall x, is_eol x = true -> is_ident_ascii x = false /\ (128 <=? x) = false).
    { intros x Hx. destruct (is_eol_cases _ Hx) as [-> | ->]; split; reflexivity. }
    destruct (G a Ha) as [-> ->], (G b Hb) as [-> ->]. cbn. split; [reflexivity|lia].
  - cbn [ident_end_generic]. destruct IH as [E L].
    assert (U : is_u3000_at (a :: p ++ t1) = is_u3000_at (a :: p ++ t2)).
    { unfold is_u3000_at. exact (is_prefix_eolh [227; 128; 128] eq_refl (a :: p) t1 t2 H). }
    rewrite U, E. destruct (is_ident_ascii a); [split; [reflexivity|lia]|].
    destruct ((128 <=? a) && negb (is_u3000_at (a :: p ++ t2))); split; try reflexivity; lia.
Qed.

Lemma tl_step_eol s a b : is_eol a = true -> is_eol b = true -> exists k, tl_step s a = TStop k /\ tl_step s b = TStop k.
Proof.
  intros Ha Hb. destruct (is_eol_cases _ Ha) as [-> | ->], (is_eol_cases _ Hb) as [-> | ->]; destruct s; eexists; split; reflexivity.
Qed.

Lemma tl_run_eolh (p t1 t2 : bytes) : eolh t1 t2 -> forall s,
  tl_run s (p ++ t1) = tl_run s (p ++ t2) /\ (fst (tl_run s (p ++ t1)) <= length p)%nat.
Proof.
  intros H. induction p as [|a p IH]; intros s; cbn [app length].
  - destruct t1 as [|a t1], t2 as [|b t2]; cbn in H; try contradiction; [split; [reflexivity|cbn; lia]|]. destruct H as [Ha Hb].
    cbn [tl_run]. destruct (tl_step_eol s a b Ha Hb) as (k & -> & ->). split; [reflexivity|cbn; lia].
  - cbn [tl_run]. destruct (tl_step s a) as [s'|k]; [|split; [reflexivity|cbn; lia]].
    destruct (IH s') as [-> L]. split; [reflexivity|cbn [fst]; lia].
Qed.

(* ------------------------------------------------------------------ *)
(* 2. the sub-lexers *)
Lemma skipn_app_p {A} n (p t : list A) : (n <= length p)%nat -> skipn n (p ++ t) = skipn n p ++ t.
Proof. intros H. rewrite skipn_app. replace (n - length p)%nat with O by lia. reflexivity. Qed.

Lemma firstn_app_p {A} n (p t : list A) : (n <= length p)%nat -> firstn n (p ++ t) = firstn n p.
Proof. intros H. rewrite firstn_app. replace (n - length p)%nat with O by lia. cbn. apply app_nil_r. Qed.

Lemma noeol_dec : noeol is_dec. Proof. split; reflexivity. Qed.
Lemma noeol_hex : noeol is_hex. Proof. split; reflexivity. Qed.
Lemma noeol_bin : noeol is_bin. Proof. split; reflexivity. Qed.
Lemma noeol_ident : noeol is_ident_ascii. Proof. split; reflexivity. Qed.
Lemma noeol_asm_ident : noeol is_asm_ident. Proof. split; reflexivity. Qed.
Lemma noeol_cont : noeol is_cont. Proof. split; reflexivity. Qed.
Lemma noeol_eq c : is_eol c = false -> noeol (fun b => b =? c).
Proof.
  intros H. split; apply N.eqb_neq; intros <-; discriminate H.
Qed.
Lemma noeol_line : noeol (fun b => negb (is_eol b)). Proof. split; reflexivity. Qed.

Lemma cfd_eolh (p t1 t2 : bytes) : eolh t1 t2 ->
  count_full_decimal (p ++ t1) = count_full_decimal (p ++ t2) /\ (count_full_decimal (p ++ t1) <= length p)%nat.
Proof.
  intros H. unfold count_full_decimal, count_decimal. rewrite (next_is_eolh 95 p t1 t2 eq_refl H).
  destruct (next_is 95 (p ++ t2)); [split; [reflexivity|lia]|]. exact (count_while_eolh is_dec p t1 t2 noeol_dec H).
Qed.

Definition dn2 (r1 : bytes) : nat :=
  if next_is 46 r1 then let f := count_full_decimal (tl r1) in if Nat.eqb f O then O else S f else O.
Definition dn3 (r2 : bytes) : nat :=
  if next_is 101 r2 || next_is 69 r2 then
    let r3 := tl r2 in
    if next_is 43 r3 || next_is 45 r3 then S (S (count_full_decimal (tl r3))) else S (count_full_decimal r3)
  else O.
Lemma dec_number_literal_eq (l : bytes) :
  dec_number_literal l = (count_decimal l + dn2 (skipn (count_decimal l) l) + dn3 (skipn (dn2 (skipn (count_decimal l) l)) (skipn (count_decimal l) l)))%nat.
Proof. reflexivity. Qed.

Lemma dn2_eolh (p t1 t2 : bytes) : eolh t1 t2 -> dn2 (p ++ t1) = dn2 (p ++ t2) /\ (dn2 (p ++ t1) <= length p)%nat.
Proof.
  intros H. unfold dn2. rewrite (next_is_eolh 46 p t1 t2 eq_refl H).
  destruct (next_is 46 (p ++ t2)) eqn:E46; [|split; [reflexivity|lia]].
  rewrite <- (next_is_eolh 46 p t1 t2 eq_refl H) in E46. destruct (next_is_in_p 46 p t1 t2 eq_refl H E46) as [p' ->]. cbn [app tl length].
  destruct (cfd_eolh p' t1 t2 H) as [Ec Lc]. cbv zeta. rewrite <- Ec.
  match goal with |- context [Nat.eqb ?x O] => destruct (Nat.eqb x O) end; split; try reflexivity; blia.
Qed.

Lemma dn3_eolh (p t1 t2 : bytes) : eolh t1 t2 -> dn3 (p ++ t1) = dn3 (p ++ t2).
Proof.
  intros H. unfold dn3. rewrite (next_is_eolh 101 p t1 t2 eq_refl H), (next_is_eolh 69 p t1 t2 eq_refl H).
  destruct (next_is 101 (p ++ t2) || next_is 69 (p ++ t2)) eqn:Ee; [|reflexivity].
  assert (Hp2 : exists c p', p = c :: p').
  { apply orb_true_iff in Ee. destruct Ee as [Ee|Ee].
    - rewrite <- (next_is_eolh 101 p t1 t2 eq_refl H) in Ee. destruct (next_is_in_p 101 p t1 t2 eq_refl H Ee) as [p' E]. eauto.
    - rewrite <- (next_is_eolh 69 p t1 t2 eq_refl H) in Ee. destruct (next_is_in_p 69 p t1 t2 eq_refl H Ee) as [p' E]. eauto. }
  destruct Hp2 as (c & p' & ->). cbn [app tl]. cbv zeta.
  rewrite (next_is_eolh 43 p' t1 t2 eq_refl H), (next_is_eolh 45 p' t1 t2 eq_refl H).
  destruct (next_is 43 (p' ++ t2) || next_is 45 (p' ++ t2)) eqn:Es.
  - assert (Hp3 : exists c' p3, p' = c' :: p3).
    { apply orb_true_iff in Es. destruct Es as [Es|Es].
      - rewrite <- (next_is_eolh 43 p' t1 t2 eq_refl H) in Es. destruct (next_is_in_p 43 p' t1 t2 eq_refl H Es) as [p3 E]. eauto.
      - rewrite <- (next_is_eolh 45 p' t1 t2 eq_refl H) in Es. destruct (next_is_in_p 45 p' t1 t2 eq_refl H Es) as [p3 E]. eauto. }
    destruct Hp3 as (c' & p3 & ->). cbn [app tl]. rewrite (proj1 (cfd_eolh p3 t1 t2 H)). reflexivity.
  - rewrite (proj1 (cfd_eolh p' t1 t2 H)). reflexivity.
Qed.

Lemma dec_number_literal_eolh (p t1 t2 : bytes) : eolh t1 t2 -> dec_number_literal (p ++ t1) = dec_number_literal (p ++ t2).
Proof.
  intros H. rewrite !dec_number_literal_eq. unfold count_decimal.
  destruct (count_while_eolh is_dec p t1 t2 noeol_dec H) as [E1 L1]. rewrite <- E1.
  rewrite !(skipn_app_p _ p) by exact L1.
  destruct (dn2_eolh (skipn (count_while is_dec (p ++ t1)) p) t1 t2 H) as [E2 L2]. rewrite <- E2.
  rewrite !(skipn_app_p _ (skipn (count_while is_dec (p ++ t1)) p)) by exact L2.
  rewrite (dn3_eolh _ t1 t2 H). reflexivity.
Qed.

Lemma unicode_identifier_eolh (p t1 t2 : bytes) : eolh t1 t2 -> unicode_identifier (p ++ t1) = unicode_identifier (p ++ t2).
Proof.
  intros H. unfold unicode_identifier, find_identifier_end.
  destruct (count_while_eolh is_cont p t1 t2 noeol_cont H) as [E L]. rewrite <- E.
  rewrite !(skipn_app_p _ p) by exact L. rewrite (proj1 (ident_end_eolh _ t1 t2 H)). reflexivity.
Qed.

Lemma line_comment_len_eolh (p t1 t2 : bytes) : eolh t1 t2 -> line_comment_len (p ++ t1) = line_comment_len (p ++ t2).
Proof. intros H. exact (proj1 (count_while_eolh _ p t1 t2 noeol_line H)). Qed.

(* the opener test of a multi-line literal: a line break directly after the quotes *)
Lemma eol_next_eolh (p t1 t2 : bytes) : eolf p -> eolh t1 t2 ->
  (next_is 13 (p ++ t1) || next_is 10 (p ++ t1)) = (next_is 13 (p ++ t2) || next_is 10 (p ++ t2))
  /\ ((next_is 13 (p ++ t1) || next_is 10 (p ++ t1)) = true -> p = [] /\ t1 <> []).
Proof.
  intros Hp H. destruct p as [|a p]; cbn [app].
  - destruct t1 as [|a t1], t2 as [|b t2]; cbn in H; try contradiction; [split; [reflexivity|discriminate]|]. destruct H as [Ha Hb].
    cbn [next_is]. destruct (is_eol_cases _ Ha) as [-> | ->], (is_eol_cases _ Hb) as [-> | ->]; (split; [reflexivity|]); intros _; split; (reflexivity || discriminate).
  - apply eolf_cons in Hp. destruct Hp as [Ha _]. cbn [next_is]. unfold is_eol in Ha. apply orb_false_iff in Ha. destruct Ha as [A1 A2].
    rewrite A1, A2. split; [reflexivity|discriminate].
Qed.

Lemma text_literal_eolh b (p t1 t2 : bytes) : eolf p -> eolh t1 t2 ->
  (fst (text_literal b (p ++ t1)) <= length p)%nat -> text_literal b (p ++ t2) = text_literal b (p ++ t1).
Proof.
  intros Hp H. unfold text_literal.
  destruct (count_while_eolh (fun c => c =? 39) p t1 t2 (noeol_eq 39 eq_refl) H) as [Eq Lq]. bnorm. rewrite <- Eq.
  set (q := if b =? 39 then S (count_while (fun c : N => c =? 39) (p ++ t1)) else O).
  assert (Lq' : (q - 1 <= length p)%nat) by (subst q; destruct (b =? 39); lia).
  rewrite !(skipn_app_p (q - 1) p) by exact Lq'. set (pb := skipn (q - 1) p).
  destruct (eol_next_eolh pb t1 t2 (eolf_skipn _ _ Hp) H) as [En Hn]. rewrite <- En.
  destruct (Nat.leb 3 q && Nat.odd q && (next_is 13 (pb ++ t1) || next_is 10 (pb ++ t1))) eqn:C.
  - intros Hb. exfalso. apply andb_true_iff in C. destruct C as [C1 C3]. apply andb_true_iff in C1. destruct C1 as [C1 _].
    apply Nat.leb_le in C1. destruct (Hn C3) as [Epb Ht1].
    assert (Hlen : (length p <= q - 1)%nat).
    { subst pb. assert (L : length (skipn (q - 1) p) = O) by (rewrite Epb; reflexivity). rewrite skipn_length in L. lia. }
    rewrite Epb in Hb. cbn [app] in Hb.
    destruct (find_sub (repeat 39 q) t1); cbn [fst] in Hb; [lia|].
    rewrite app_length in Hb. destruct t1; [contradiction Ht1; reflexivity|cbn in Hb; lia].
  - intros _. rewrite (proj1 (tl_run_eolh p t1 t2 H _)). reflexivity.
Qed.

Lemma asm_text_literal_eolh : forall n (p t1 t2 : bytes), (length p <= n)%nat -> eolf p -> eolh t1 t2 ->
  (fst (asm_text_literal (p ++ t1)) <= length p)%nat -> asm_text_literal (p ++ t2) = asm_text_literal (p ++ t1).
Proof.
  induction n as [|n IH]; intros p t1 t2 Hn Hp H Hb.
  - destruct p; [|cbn in Hn; lia]. cbn [app] in *.
    destruct t1 as [|a t1], t2 as [|b t2]; cbn in H; try contradiction; [reflexivity|]. destruct H as [Ha Hb'].
    cbn [asm_text_literal]. destruct (is_eol_cases _ Ha) as [-> | ->], (is_eol_cases _ Hb') as [-> | ->]; reflexivity.
  - destruct p as [|a p].
    + apply (IH [] t1 t2); [cbn; lia|exact Hp|exact H|exact Hb].
    + apply eolf_cons in Hp. destruct Hp as [Ha Hp]. cbn [app length] in *. cbn [asm_text_literal] in *.
      destruct (a =? 92) eqn:E92.
      * destruct p as [|c p]; cbn [app] in *.
        -- destruct t1 as [|x t1], t2 as [|y t2]; cbn in H; try contradiction; [reflexivity|]. cbn [fst length] in Hb. lia.
        -- apply eolf_cons in Hp. destruct Hp as [_ Hp]. cbn [fst length] in Hb.
           rewrite (IH p t1 t2); [reflexivity|cbn in Hn; lia|exact Hp|exact H|lia].
      * destruct (a =? 34); [reflexivity|]. unfold is_eol in Ha. rewrite Ha in *. cbn [fst] in Hb.
        rewrite (IH p t1 t2); [reflexivity|cbn in Hn; lia|exact Hp|exact H|lia].
Qed.

Lemma asm_number_literal_eolh first (p t1 t2 : bytes) : eolh t1 t2 -> asm_number_literal first (p ++ t1) = asm_number_literal first (p ++ t2).
Proof.
  intros H. unfold asm_number_literal, count_hex.
  destruct (count_while_eolh is_hex p t1 t2 noeol_hex H) as [E L]. rewrite <- E. set (n := count_while is_hex (p ++ t1)) in *.
  rewrite !(skipn_app_p n p) by exact L.
  rewrite (next_is_eolh 79 _ t1 t2 eq_refl H), (next_is_eolh 111 _ t1 t2 eq_refl H), (next_is_eolh 72 _ t1 t2 eq_refl H), (next_is_eolh 104 _ t1 t2 eq_refl H).
  assert (Hnth : nth n (first :: p ++ t1) 0 = nth n (first :: p ++ t2) 0).
  { change (first :: p ++ t1) with ((first :: p) ++ t1). change (first :: p ++ t2) with ((first :: p) ++ t2).
    rewrite !app_nth1 by (cbn [length]; blia). reflexivity. }
  rewrite Hnth. reflexivity.
Qed.

Lemma ampersand_eolh (p t1 t2 : bytes) : eolh t1 t2 -> ampersand (p ++ t1) = ampersand (p ++ t2).
Proof.
  intros H. unfold ampersand, count_hex, count_binary, find_identifier_end.
  destruct (count_while_eolh (fun b => b =? 38) p t1 t2 (noeol_eq 38 eq_refl) H) as [E L]. bnorm. rewrite <- E.
  set (k := count_while (fun b : N => b =? 38) (p ++ t1)) in *. rewrite !(skipn_app_p k p) by exact L.
  destruct (skipn k p) as [|c r]; cbn [app].
  - destruct t1 as [|a t1], t2 as [|b t2]; cbn in H; try contradiction; [reflexivity|]. destruct H as [Ha Hb].
    destruct (is_eol_cases _ Ha) as [-> | ->], (is_eol_cases _ Hb) as [-> | ->]; reflexivity.
  - bnorm. brw (proj1 (count_while_eolh is_hex r t1 t2 noeol_hex H)). brw (proj1 (count_while_eolh is_bin r t1 t2 noeol_bin H)).
    brw (dec_number_literal_eolh r t1 t2 H). brw (proj1 (ident_end_eolh r t1 t2 H)). brw (unicode_identifier_eolh r t1 t2 H). reflexivity.
Qed.

(* ------------------------------------------------------------------ *)
(* 3. one token that is neither a block comment nor a directive *)
Lemma lex_common_eolh st nlb b (p t1 t2 : bytes) n ty :
  eolf p -> eolh t1 t2 ->
  (b =? 123) = false -> ((b =? 40) && next_is 42 (p ++ t1)) = false ->
  lex_common st nlb b (p ++ t1) = TOk n ty -> (n <= length p)%nat ->
  lex_common st nlb b (p ++ t2) = TOk n ty.
Proof.
  intros Hp Hh Hb123 Hcd H Hn.
  pose proof (next_is_eolh 42 p t1 t2 eq_refl Hh) as N42. pose proof (next_is_eolh 46 p t1 t2 eq_refl Hh) as N46.
  pose proof (next_is_eolh 47 p t1 t2 eq_refl Hh) as N47. pose proof (next_is_eolh 61 p t1 t2 eq_refl Hh) as N61.
  pose proof (next_is_eolh 62 p t1 t2 eq_refl Hh) as N62. pose proof (next_is_eolh 41 p t1 t2 eq_refl Hh) as N41.
  unfold lex_common in *. rewrite <- ?N42, <- ?N46, <- ?N47, <- ?N61, <- ?N62, <- ?N41.
  destruct (b =? 40). { cbn [andb] in Hcd. rewrite Hcd in *. exact H. }
  rewrite Hb123 in *.
  destruct (b =? 47).
  { destruct (next_is 47 (p ++ t1)) eqn:E47; [|exact H].
    destruct (next_is_in_p 47 p t1 t2 eq_refl Hh E47) as [p' ->]. cbn [app tl] in *.
    unfold line_comment, tok, tshift in *. cbn [fst snd] in *. rewrite <- (line_comment_len_eolh p' t1 t2 Hh). exact H. }
  destruct (b =? 58); [exact H|]. destruct (b =? 60); [exact H|]. destruct (b =? 62); [exact H|]. destruct (b =? 46); [exact H|].
  destruct (b =? 43); [exact H|]. destruct (b =? 45); [exact H|]. destruct (b =? 42); [exact H|]. destruct (b =? 44); [exact H|].
  destruct (b =? 59); [exact H|]. destruct (b =? 61); [exact H|]. destruct (b =? 94); [exact H|]. destruct (b =? 64); [exact H|].
  destruct (b =? 91); [exact H|]. destruct (b =? 93); [exact H|]. destruct (b =? 41); [exact H|].
  destruct ((b =? 39) || (b =? 35)).
  { unfold tok in *. injection H as H1 H2. rewrite (text_literal_eolh b p t1 t2 Hp Hh) by (rewrite H1; exact Hn). rewrite H1, H2. reflexivity. }
  destruct (b =? 38). { rewrite <- (ampersand_eolh p t1 t2 Hh). exact H. }
  destruct (b =? 37). { unfold count_binary in *. rewrite <- (proj1 (count_while_eolh is_bin p t1 t2 noeol_bin Hh)). exact H. }
  destruct (b =? 36). { unfold count_hex in *. rewrite <- (proj1 (count_while_eolh is_hex p t1 t2 noeol_hex Hh)). exact H. }
  destruct (is_digit b). { rewrite <- (dec_number_literal_eolh p t1 t2 Hh). exact H. }
  destruct (ident_end_eolh p t1 t2 Hh) as [Ei Li].
  destruct (is_alpha b).
  { unfold identifier_or_keyword, tok, find_identifier_end in *. cbn [fst snd] in *. rewrite <- Ei.
    rewrite firstn_app_p by exact Li. rewrite firstn_app_p in H by exact Li. exact H. }
  destruct (b =? 95). { unfold find_identifier_end in *. rewrite <- Ei. exact H. }
  destruct (128 <=? b). { rewrite <- (unicode_identifier_eolh p t1 t2 Hh). exact H. }
  exact H.
Qed.

Lemma lex_token_eolh st nlb b (p t1 t2 : bytes) n ty a :
  eolf p -> eolh t1 t2 ->
  (b =? 123) = false -> ((b =? 40) && next_is 42 (p ++ t1)) = false ->
  lex_token st nlb b (p ++ t1) = Some (n, ty, a) -> (n <= length p)%nat ->
  lex_token st nlb b (p ++ t2) = Some (n, ty, a).
Proof.
  intros Hp Hh Hb123 Hcd H Hn. unfold lex_token in *.
  assert (Hc : forall n0 ty0, lex_common st nlb b (p ++ t1) = TOk n0 ty0 -> (n0 <= length p)%nat -> lex_common st nlb b (p ++ t2) = TOk n0 ty0)
    by (intros n0 ty0 E L; exact (lex_common_eolh st nlb b p t1 t2 n0 ty0 Hp Hh Hb123 Hcd E L)).
  destruct (ident_end_eolh p t1 t2 Hh) as [Ei Li].
  destruct (ls_asm st).
  - destruct (b =? 64). { unfold asm_label in *. rewrite <- (proj1 (count_while_eolh is_asm_ident p t1 t2 noeol_asm_ident Hh)). exact H. }
    destruct (b =? 34).
    { cbv zeta in *. injection H as H1 H2 H3.
      rewrite (asm_text_literal_eolh (length p) p t1 t2 (le_n _) Hp Hh) by (rewrite H1; exact Hn). rewrite H1, H2, H3. reflexivity. }
    destruct (is_digit b). { cbv zeta in *. rewrite <- (asm_number_literal_eolh b p t1 t2 Hh). exact H. }
    destruct (is_aAeE b).
    { unfold asm_identifier, find_identifier_end in *. rewrite <- Ei. rewrite firstn_app_p by exact Li. rewrite firstn_app_p in H by exact Li. exact H. }
    destruct (is_alpha b). { unfold find_identifier_end in *. rewrite <- Ei. exact H. }
    destruct (lex_common st nlb b (p ++ t1)) as [n0 ty0|] eqn:E; [|discriminate H]. injection H as -> -> <-.
    rewrite (Hc n ty eq_refl Hn). reflexivity.
  - destruct (lex_common st nlb b (p ++ t1)) as [n0 ty0|] eqn:E; [|discriminate H]. injection H as -> -> <-.
    rewrite (Hc n ty eq_refl Hn). reflexivity.
Qed.

(* ------------------------------------------------------------------ *)
(* 4. the file *)
Lemma lf_to_crlf_app (x y : bytes) : lf_to_crlf (x ++ y) = lf_to_crlf x ++ lf_to_crlf y.
Proof. unfold lf_to_crlf. apply flat_map_app. Qed.

Lemma lf_to_crlf_eolf (p : bytes) : eolf p -> lf_to_crlf p = p.
Proof.
  induction p as [|a p IH]; intros H; [reflexivity|]. apply eolf_cons in H. destruct H as [Ha Hp]. rewrite lf_to_crlf_cons, (IH Hp).
  unfold is_eol in Ha. apply orb_false_iff in Ha. destruct Ha as [-> _]. reflexivity.
Qed.

(* a text is a part without line break followed by nothing or by a line break *)
Lemma eol_split (x : bytes) : exists p t1 : bytes, x = p ++ t1 /\ eolf p /\ eolh t1 (lf_to_crlf t1).
Proof.
  induction x as [|a x (p & t1 & E & Hp & Hh)]; [exists [], []; repeat split|].
  destruct (is_eol a) eqn:Ea.
  - exists [], (a :: x). split; [reflexivity|]. split; [reflexivity|]. rewrite lf_to_crlf_cons.
    destruct (is_eol_cases _ Ea) as [-> | ->]; cbn; split; reflexivity.
  - exists (a :: p), t1. split; [rewrite E; reflexivity|]. split; [apply eolf_cons; split; assumption|exact Hh].
Qed.

Lemma contains10_crlf (ws : bytes) : contains_byte 10 (lf_to_crlf ws) = contains_byte 10 ws.
Proof.
  unfold contains_byte. induction ws as [|a ws IH]; [reflexivity|]. rewrite lf_to_crlf_cons. cbn [existsb]. rewrite existsb_app, IH.
  destruct (a =? 10) eqn:E; cbn [existsb]; [apply N.eqb_eq in E; subst a; reflexivity|rewrite orb_false_r; reflexivity].
Qed.

Lemma all_blank_crlf : forall n (ws : bytes), (length ws <= n)%nat -> all_blank ws -> all_blank (lf_to_crlf ws).
Proof.
  unfold all_blank. induction n as [|n IH]; intros ws Hn H; [destruct ws; [reflexivity|cbn in Hn; lia]|].
  destruct ws as [|a t]; [reflexivity|]. cbn [length] in Hn. rewrite strip_unfold in H. rewrite lf_to_crlf_cons.
  destruct (a <=? 32) eqn:Ea.
  - destruct (a =? 10) eqn:E10; cbn [app]; rewrite !strip_unfold; cbn [N.leb]; [|rewrite Ea]; apply IH; (lia || exact H).
  - assert (E10 : (a =? 10) = false) by (apply N.eqb_neq; intros ->; discriminate Ea). rewrite E10. cbn [app].
    destruct t as [|b [|c t']]; try discriminate H.
    destruct ((a =? 227) && (b =? 128) && (c =? 128)) eqn:E3; [|discriminate H].
    pose proof E3 as E3'. apply andb_true_iff in E3'. destruct E3' as [E3' Ec]. apply andb_true_iff in E3'. destruct E3' as [_ Eb].
    assert (Eb10 : (b =? 10) = false) by (apply N.eqb_eq in Eb; subst b; reflexivity).
    assert (Ec10 : (c =? 10) = false) by (apply N.eqb_eq in Ec; subst c; reflexivity).
    rewrite !lf_to_crlf_cons, Eb10, Ec10. cbn [app]. rewrite strip_unfold, Ea, E3.
    apply IH; [cbn [length] in Hn; lia|exact H].
Qed.

(* an unterminated block comment runs to the end of the text, trailing blanks excepted *)
Lemma cdoc_open_comment_rest k nlb (q x : bytes) ck :
  compiler_directive_or_comment k nlb (q ++ x) = TOk (length q) (RTT_Comment ck) ->
  find_block_comment_end k q = None -> all_ws x = true.
Proof.
  unfold compiler_directive_or_comment. intros H Hq. destruct (next_is 36 (q ++ x)).
  - exfalso. apply tshift_inv in H. destruct H as (n' & H & _). unfold compiler_directive in H. cbv zeta in H.
    match type of H with context [parse_directive_end ?a ?b ?c] => destruct (parse_directive_end a b c) end; try discriminate H;
      injection H as _ Hty;
      match type of Hty with directive_token_type ?c = _ => destruct (directive_token_type_cases c) as [[k' E]|E]; rewrite E in Hty; discriminate Hty end.
  - apply tok_inv in H. unfold block_comment in H. rewrite find_block_comment_end_eq in H, Hq.
    destruct (find_sub (block_close k) (q ++ x)) as [i|] eqn:E; cbn [option_map] in H.
    + exfalso. injection H as Hi _. pose proof (find_sub_stable (block_close k) q x [] i E ltac:(blia)) as E'. rewrite app_nil_r in E'.
      rewrite E' in Hq. discriminate Hq.
    + injection H as Hi _. destruct (trimmed_len_spec (q ++ x)) as (_ & S1 & _). rewrite Hi, skipn_app_exact in S1. exact S1.
Qed.

Lemma lex_token_open_comment_rest st nlb b (q x : bytes) ck a :
  lex_token st nlb b (q ++ x) = Some (length q, RTT_Comment ck, a) ->
  (b = 123 \/ (b = 40 /\ exists q1, q = 42 :: q1)) ->
  comment_unterminated b q = true -> all_ws x = true.
Proof.
  intros H Hb Hu. unfold comment_unterminated, comment_body in Hu. destruct Hb as [-> |[-> [q1 ->]]].
  - change (123 =? 123) with true in Hu. cbn [fst snd] in Hu.
    assert (C : forall t, lex_common st nlb 123 t = compiler_directive_or_comment BCK_Brace nlb t) by reflexivity.
    destruct (find_block_comment_end BCK_Brace q) eqn:Eq; [discriminate Hu|].
    unfold lex_token in H. destruct (ls_asm st); cbn in H; rewrite C in H;
      (destruct (compiler_directive_or_comment BCK_Brace nlb (q ++ x)) as [n0 ty0|] eqn:E; [|discriminate H]);
      injection H as -> -> _; exact (cdoc_open_comment_rest BCK_Brace nlb q x ck E Eq).
  - change (40 =? 123) with false in Hu. cbn [fst snd tl] in Hu.
    assert (C : forall t, lex_common st nlb 40 (42 :: t) = tshift 1 (compiler_directive_or_comment BCK_ParenStar nlb t)) by reflexivity.
    destruct (find_block_comment_end BCK_ParenStar q1) eqn:Eq; [discriminate Hu|].
    cbn [app length] in H. unfold lex_token in H. destruct (ls_asm st); cbn in H; rewrite C in H;
      (destruct (compiler_directive_or_comment BCK_ParenStar nlb (q1 ++ x)) as [n0 ty0|] eqn:E; [|discriminate H]);
      cbn [tshift] in H; injection H as Hn -> _; assert (n0 = length q1) by blia; subst n0;
      exact (cdoc_open_comment_rest BCK_ParenStar nlb q1 x ck E Eq).
Qed.

Lemma all_ws_all_blank (x : bytes) : all_ws x = true -> all_blank x.
Proof.
  unfold all_ws. intros H. apply Nat.eqb_eq in H. pose proof (count_ws_strip x) as S. rewrite H, firstn_all in S. exact S.
Qed.

Lemma all_ws_crlf (x : bytes) : all_ws x = true -> all_ws (lf_to_crlf x) = true.
Proof. intros H. apply all_blank_all_ws, (all_blank_crlf (length x)); [lia|apply all_ws_all_blank, H]. Qed.

(* what the theorem asks of a token: no line break in its text; a directive is terminated (a block comment may be open: then only
   blanks follow it) *)
Definition cdoc_start (b : byte) (q : bytes) : bool := (b =? 123) || ((b =? 40) && next_is 42 q).
Definition seg_crlf_ok (sg : seg) : Prop :=
  match sg with
  | (_, [], _) => True
  | (_, b :: q, ty) =>
      eolf (b :: q)
      /\ (cdoc_start b q = true ->
          closed_on_right b q ty \/ exists ck, ty = RTT_Comment ck /\ is_line_kind ck = false /\ comment_unterminated b q = true)
  end.
Definition crlf_seg3 (sg : seg) : seg := match sg with (ws, c, ty) => (lf_to_crlf ws, c, ty) end.

Lemma lex_token_paren st nlb (tt : bytes) n ty a : lex_token st nlb 40 tt = Some (n, ty, a) -> lex_common st nlb 40 tt = TOk n ty.
Proof.
  unfold lex_token. remember (lex_common st nlb 40 tt) as L eqn:EL. clear EL.
  destruct (ls_asm st); cbn; destruct L as [n0 ty0|]; try discriminate; intros H; injection H as -> -> _; reflexivity.
Qed.

Lemma crlf_steps : forall st toks l, lex_steps st toks l ->
  Forall seg_crlf_ok (segments toks l) ->
  lex_steps st (map seg_lens (map crlf_seg3 (segments toks l))) (lf_to_crlf l)
  /\ segments (map seg_lens (map crlf_seg3 (segments toks l))) (lf_to_crlf l) = map crlf_seg3 (segments toks l).
Proof.
  induction 1 as [st ws Hws|st ws b t n ty a toks Hws Hst Htok Hn Hrest IH]; intros Hok.
  - cbn [segments map crlf_seg3 seg_lens]. rewrite firstn_all. cbn [firstn length].
    split; [apply ls_eof, (all_blank_crlf (length ws)); [lia|exact Hws]|]. cbn [segments]. rewrite firstn_all. reflexivity.
  - (* the pieces of the first token *)
    assert (Es : segments ((length ws, S n, ty) :: toks) (ws ++ b :: t) = (ws, b :: firstn n t, ty) :: segments toks (skipn n t)).
    { cbn [segments]. rewrite firstn_app_exact, skipn_app_exact. cbn [firstn]. f_equal.
      rewrite skipn_app. rewrite skipn_all2 by lia. cbn [app]. replace (length ws + S n - length ws)%nat with (S n) by lia. reflexivity. }
    rewrite Es in *. inversion Hok as [|sg r Hsg Hr]; subst. destruct (IH Hr) as [IH1 IH2]. clear IH.
    cbn [seg_crlf_ok] in Hsg. destruct Hsg as [Hc Hcl].
    set (q := firstn n t) in *. set (x := skipn n t) in *.
    assert (Et : t = q ++ x) by (subst q x; symmetry; apply firstn_skipn).
    assert (Lq : length q = n) by (subst q; apply firstn_length_le, Hn).
    apply eolf_cons in Hc. destruct Hc as [Hb Hq].
    assert (E10 : (b =? 10) = false) by (unfold is_eol in Hb; apply orb_false_iff in Hb; tauto).
    assert (El : lf_to_crlf (ws ++ b :: t) = lf_to_crlf ws ++ b :: q ++ lf_to_crlf x).
    { rewrite lf_to_crlf_app, lf_to_crlf_cons, E10, Et, lf_to_crlf_app, (lf_to_crlf_eolf q Hq). reflexivity. }
    (* the token of the CRLF text *)
    assert (Ht2 : lex_token st (contains_byte 10 (lf_to_crlf ws) || ls_first st) b (q ++ lf_to_crlf x) = Some (n, ty, a)
                  /\ tok_start b (q ++ lf_to_crlf x)).
    { rewrite contains10_crlf. rewrite Et in Htok, Hst.
      destruct (cdoc_start b q) eqn:Ecd.
      - split.
        + assert (Hbq : b = 123 \/ (b = 40 /\ exists q1, q = 42 :: q1)).
          { unfold cdoc_start in Ecd. apply orb_true_iff in Ecd. destruct Ecd as [E|E]; [left; apply N.eqb_eq, E|right].
            apply andb_true_iff in E. destruct E as [E1 E2]. split; [apply N.eqb_eq, E1|].
            destruct q as [|c q1]; [discriminate E2|]. cbn [next_is] in E2. apply N.eqb_eq in E2. subst c. exists q1. reflexivity. }
          rewrite <- Lq in Htok |- *. destruct (Hcl eq_refl) as [Hclosed|(ck & -> & Hk & Hu)].
          * exact (lex_token_closed_on_right _ _ b q x _ ty a Htok Hbq Hclosed).
          * pose proof (lex_token_open_comment_rest _ _ b q x ck a Htok Hbq Hu) as Hx.
            apply (lex_token_stable_q _ _ b q x _ _ a Htok). cbn [sep_ok]. rewrite Hk.
            split; [apply all_ws_sep_start, all_ws_crlf, Hx|intros _; apply all_ws_crlf, Hx].
        + destruct Hst as [S1 S2]. split; [exact S1|].
          destruct (eol_split x) as (p' & t1 & Ex & Hp' & Hh). rewrite Ex, lf_to_crlf_app, (lf_to_crlf_eolf p' Hp').
          rewrite Ex in S2. unfold is_u3000_at in *.
          change (b :: q ++ p' ++ lf_to_crlf t1) with ((b :: q) ++ p' ++ lf_to_crlf t1). change (b :: q ++ p' ++ t1) with ((b :: q) ++ p' ++ t1) in S2.
          rewrite app_assoc in *. rewrite <- (is_prefix_eolh [227; 128; 128] eq_refl _ t1 (lf_to_crlf t1) Hh). exact S2.
      - destruct (eol_split x) as (p' & t1 & Ex & Hp' & Hh). rewrite Ex, lf_to_crlf_app, (lf_to_crlf_eolf p' Hp').
        rewrite Ex in Htok, Hst. rewrite app_assoc in *.
        assert (HP : eolf (q ++ p')) by (apply eolf_app; split; assumption).
        unfold cdoc_start in Ecd. apply orb_false_iff in Ecd. destruct Ecd as [E123 E40].
        assert (E40' : (b =? 40) && next_is 42 ((q ++ p') ++ t1) = false).
        { destruct (b =? 40) eqn:E40b; [|reflexivity]. cbn [andb] in *.
          destruct (next_is 42 ((q ++ p') ++ t1)) eqn:E42; [|reflexivity].
          (* the star, if any, is the head of q: a token that starts with paren-star is at least that long *)
          destruct q as [|c q1]; [|cbn [app next_is] in E42, E40; rewrite E42 in E40; discriminate E40].
          exfalso. cbn [app] in *.
          (* paren-star lexes as a comment or directive of length >= 1 after the paren, but n = 0 *)
          cbn [length] in Lq. subst n.
          assert (Hlen : forall tt, next_is 42 tt = true -> forall n0 ty0, lex_common st (contains_byte 10 ws || ls_first st) 40 tt = TOk n0 ty0 -> (1 <= n0)%nat).
          { intros tt Htt n0 ty0 Hl. unfold lex_common in Hl. cbn [N.eqb Pos.eqb] in Hl. rewrite Htt in Hl.
            apply tshift_inv in Hl. destruct Hl as (n' & _ & ->). lia. }
          apply N.eqb_eq in E40b. subst b.
          pose proof (lex_token_paren _ _ _ _ _ _ Htok) as El0. pose proof (Hlen _ E42 _ _ El0). lia. }
        split.
        + apply (lex_token_eolh st _ b (q ++ p') t1 (lf_to_crlf t1) n ty a HP Hh E123 E40' Htok). rewrite app_length. lia.
        + destruct Hst as [S1 S2]. split; [exact S1|]. unfold is_u3000_at in *.
          change (b :: (q ++ p') ++ lf_to_crlf t1) with ((b :: q ++ p') ++ lf_to_crlf t1). change (b :: (q ++ p') ++ t1) with ((b :: q ++ p') ++ t1) in S2.
          rewrite <- (is_prefix_eolh [227; 128; 128] eq_refl _ t1 (lf_to_crlf t1) Hh). exact S2. }
    destruct Ht2 as [Ht2 Hst2].
    assert (Esk : skipn n (q ++ lf_to_crlf x) = lf_to_crlf x) by (rewrite <- Lq; apply skipn_app_exact).
    assert (Efn : firstn n (q ++ lf_to_crlf x) = q) by (rewrite <- Lq; apply firstn_app_exact).
    cbn [map crlf_seg3 seg_lens length]. rewrite Lq. rewrite El. split.
    + apply (ls_tok st (lf_to_crlf ws) b (q ++ lf_to_crlf x) n ty a); [apply (all_blank_crlf (length ws)); [lia|exact Hws]|exact Hst2|exact Ht2| |].
      * rewrite app_length. lia.
      * rewrite Esk. exact IH1.
    + cbn [segments]. rewrite firstn_app_exact, skipn_app_exact. cbn [firstn]. rewrite Efn. f_equal.
      rewrite skipn_app, skipn_all2 by lia. cbn [app]. replace (length (lf_to_crlf ws) + S n - length (lf_to_crlf ws))%nat with (S n) by lia.
      cbn [skipn]. rewrite Esk. exact IH2.
Qed.

(* the lexer link of C09 clause 3 *)
Theorem lex_crlf s segs :
  lex_segments s = Some segs -> Forall seg_crlf_ok segs ->
  lex_segments (lf_to_crlf s) = Some (map crlf_seg3 segs).
Proof.
  unfold lex_segments. destruct (lex s) as [toks|] eqn:E; [|discriminate]. cbn [option_map]. intros H Hok. injection H as <-.
  pose proof (lex_steps_sound s toks E) as Hs. destruct (crlf_steps _ _ _ Hs Hok) as [S1 S2].
  rewrite lex_is_lex_from, (lex_from_steps _ _ _ S1). cbn [option_map]. rewrite S2. reflexivity.
Qed.

(* the hypothesis as a boolean *)
Definition closed_on_rightb (b : byte) (q : bytes) (ty : RawTokenType) : bool :=
  match ty with
  | RTT_Comment ck => negb (is_line_kind ck) && negb (comment_unterminated b q)
  | RTT_ConditionalDirective _ | RTT_CompilerDirective => dir_content_terminated b q
  | _ => false
  end.

Lemma closed_on_rightb_ok b q ty : closed_on_rightb b q ty = true -> closed_on_right b q ty.
Proof.
  unfold closed_on_rightb, closed_on_right. destruct ty; try discriminate; try (intros H; exact H).
  intros H. apply andb_true_iff in H. destruct H as [H1 H2]. apply negb_true_iff in H1, H2. split; assumption.
Qed.

Definition open_commentb (b : byte) (q : bytes) (ty : RawTokenType) : bool :=
  match ty with RTT_Comment ck => negb (is_line_kind ck) && comment_unterminated b q | _ => false end.

Definition seg_crlf_okb (sg : seg) : bool :=
  match sg with
  | (_, [], _) => true
  | (_, b :: q, ty) =>
      forallb (fun x => negb (is_eol x)) (b :: q) && (negb (cdoc_start b q) || closed_on_rightb b q ty || open_commentb b q ty)
  end.

Lemma seg_crlf_okb_ok sg : seg_crlf_okb sg = true -> seg_crlf_ok sg.
Proof.
  destruct sg as [[ws [|b q]] ty]; [intros _; exact I|]. unfold seg_crlf_okb, seg_crlf_ok. intros H.
  apply andb_true_iff in H. destruct H as [H1 H2]. split; [exact H1|]. intros Hc. rewrite Hc in H2. cbn [negb orb] in H2.
  apply orb_true_iff in H2. destruct H2 as [H2|H2]; [left; apply closed_on_rightb_ok, H2|right].
  unfold open_commentb in H2. destruct ty; try discriminate H2. apply andb_true_iff in H2. destruct H2 as [A B]. apply negb_true_iff in A.
  eexists. split; [reflexivity|]. split; assumption.
Qed.

Lemma segs_crlf_okb_ok segs : forallb seg_crlf_okb segs = true -> Forall seg_crlf_ok segs.
Proof. intros H. apply Forall_forall. intros sg Hin. rewrite forallb_forall in H. apply seg_crlf_okb_ok, H, Hin. Qed.

(* non-vacuity: adjacent tokens, a trailing comment, a terminated brace comment, a directive; two lines *)
Example lex_crlf_example :
  let s := [120; 58; 61; 49; 59; 47; 47; 99; 10; 123; 36; 73; 70; 68; 69; 70; 32; 65; 125; 32; 123; 99; 125; 121; 40; 41; 59; 10]%N in
  match lex_segments s with
  | Some segs => forallb seg_crlf_okb segs = true /\ lex_segments (lf_to_crlf s) = Some (map crlf_seg3 segs) /\ length segs = 12%nat
  | None => False
  end.
Proof.
  intros s. destruct (lex_segments s) as [segs|] eqn:E; [|vm_compute in E; discriminate].
  assert (Hb : forallb seg_crlf_okb segs = true) by (vm_compute in E; injection E as <-; vm_compute; reflexivity).
  split; [exact Hb|]. split; [exact (lex_crlf s segs E (segs_crlf_okb_ok segs Hb))|]. vm_compute in E. injection E as <-. reflexivity.
Qed.

Print Assumptions lex_crlf.
