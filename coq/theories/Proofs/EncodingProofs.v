(* Proofs/EncodingProofs.v — codec round trips and the "same encoding, same BOM" property of
   decode_file / write (orchestrator/src/file_formatter.rs). *)
From PasfmtVerif Require Import Model.Encoding.

(* N.div / N.modulo are zified to Z.quot / Z.rem; let lia see their defining equations *)
Ltac Zify.zify_post_hook ::= Z.to_euclidean_division_equations.

(* ------------------------------------------------------------------ *)
(* small tactics *)

Ltac b2p_in H :=
  repeat (progress rewrite ?andb_true_iff, ?andb_false_iff, ?orb_true_iff, ?orb_false_iff,
            ?N.ltb_lt, ?N.ltb_ge, ?N.leb_le, ?N.leb_gt, ?N.eqb_eq, ?N.eqb_neq in H).

Ltac b2p :=
  repeat match goal with
  | H : _ = true |- _ => progress b2p_in H
  | H : _ = false |- _ => progress b2p_in H
  | H : _ \/ _ |- _ => progress b2p_in H
  | H : _ /\ _ |- _ => progress b2p_in H
  end.

(* decide a boolean built from comparisons by lia, rewrite with it, reduce the exposed match *)
Ltac bdec b v :=
  let E := fresh "E" in
  assert (E : b = v) by (destruct b eqn:?; [try reflexivity | try reflexivity]; b2p; lia);
  rewrite E; clear E; cbv beta match.

Ltac case_if :=
  match goal with |- context[if ?b then _ else _] => destruct b eqn:? end.

Lemma ocons_Some c o t : ocons c o = Some t -> exists t', o = Some t' /\ t = c :: t'.
Proof.
  destruct o as [l|]; simpl; intros H; [|discriminate].
  injection H as <-. exists l. split; reflexivity.
Qed.

Lemma text_ok_cons c t : text_ok (c :: t) <-> scalar_ok c = true /\ text_ok t.
Proof.
  unfold text_ok. split.
  - intros H. inversion H; subst. split; assumption.
  - intros [Hc Ht]. constructor; assumption.
Qed.

(* ------------------------------------------------------------------ *)
(* UTF-8: decode after encode *)

Lemma utf8_decode_cons b0 r0 :
  utf8_decode (b0 :: r0) =
    if b0 <? 128 then ocons b0 (utf8_decode r0)
    else if (194 <=? b0) && (b0 <=? 223) then
      match r0 with
      | b1 :: r1 =>
        if is_cont b1 then ocons ((b0 - 192) * 64 + (b1 - 128)) (utf8_decode r1) else None
      | [] => None
      end
    else if (224 <=? b0) && (b0 <=? 239) then
      match r0 with
      | b1 :: b2 :: r2 =>
        let c := (b0 - 224) * 4096 + (b1 - 128) * 64 + (b2 - 128) in
        if is_cont b1 && is_cont b2 && (2048 <=? c) && scalar_ok c
        then ocons c (utf8_decode r2) else None
      | _ => None
      end
    else if (240 <=? b0) && (b0 <=? 244) then
      match r0 with
      | b1 :: b2 :: b3 :: r3 =>
        let c := (b0 - 240) * 262144 + (b1 - 128) * 4096 + (b2 - 128) * 64 + (b3 - 128) in
        if is_cont b1 && is_cont b2 && is_cont b3 && (65536 <=? c) && (c <=? 1114111)
        then ocons c (utf8_decode r3) else None
      | _ => None
      end
    else None.
Proof. reflexivity. Qed.

Lemma utf8_decode_encode_char c r :
  scalar_ok c = true ->
  utf8_decode (utf8_encode_char c ++ r) = ocons c (utf8_decode r).
Proof.
  intros Hc. unfold scalar_ok in Hc. unfold utf8_encode_char.
  destruct (c <? 128) eqn:E1.
  { cbn [app]. rewrite utf8_decode_cons, E1. reflexivity. }
  destruct (c <? 2048) eqn:E2.
  { cbn [app]. rewrite utf8_decode_cons. unfold is_cont. b2p.
    bdec (192 + c / 64 <? 128) false.
    bdec ((194 <=? 192 + c / 64) && (192 + c / 64 <=? 223)) true.
    bdec ((128 <=? 128 + c mod 64) && (128 + c mod 64 <=? 191)) true.
    f_equal. lia. }
  destruct (c <? 65536) eqn:E3.
  { cbn [app]. rewrite utf8_decode_cons. cbv zeta. unfold is_cont, scalar_ok. b2p.
    bdec (224 + c / 4096 <? 128) false.
    bdec ((194 <=? 224 + c / 4096) && (224 + c / 4096 <=? 223)) false.
    bdec ((224 <=? 224 + c / 4096) && (224 + c / 4096 <=? 239)) true.
    assert (Hv : (224 + c / 4096 - 224) * 4096 + (128 + (c / 64) mod 64 - 128) * 64
                 + (128 + c mod 64 - 128) = c) by lia.
    rewrite Hv.
    bdec ((128 <=? 128 + (c / 64) mod 64) && (128 + (c / 64) mod 64 <=? 191)) true.
    bdec ((128 <=? 128 + c mod 64) && (128 + c mod 64 <=? 191)) true.
    bdec (2048 <=? c) true.
    bdec ((c <? 55296) || (57343 <? c) && (c <=? 1114111)) true.
    reflexivity. }
  cbn [app]. rewrite utf8_decode_cons. cbv zeta. unfold is_cont. b2p.
  bdec (240 + c / 262144 <? 128) false.
  bdec ((194 <=? 240 + c / 262144) && (240 + c / 262144 <=? 223)) false.
  bdec ((224 <=? 240 + c / 262144) && (240 + c / 262144 <=? 239)) false.
  bdec ((240 <=? 240 + c / 262144) && (240 + c / 262144 <=? 244)) true.
  assert (Hv : (240 + c / 262144 - 240) * 262144 + (128 + (c / 4096) mod 64 - 128) * 4096
               + (128 + (c / 64) mod 64 - 128) * 64 + (128 + c mod 64 - 128) = c) by lia.
  rewrite Hv.
  bdec ((128 <=? 128 + (c / 4096) mod 64) && (128 + (c / 4096) mod 64 <=? 191)) true.
  bdec ((128 <=? 128 + (c / 64) mod 64) && (128 + (c / 64) mod 64 <=? 191)) true.
  bdec ((128 <=? 128 + c mod 64) && (128 + c mod 64 <=? 191)) true.
  bdec (65536 <=? c) true.
  bdec (c <=? 1114111) true.
  reflexivity.
Qed.

Theorem utf8_decode_encode t : text_ok t -> utf8_decode (utf8_encode t) = Some t.
Proof.
  induction t as [|c t IH]; intros Hok; [reflexivity|].
  apply text_ok_cons in Hok. destruct Hok as [Hc Ht].
  unfold utf8_encode. cbn [flat_map]. fold (utf8_encode t).
  rewrite utf8_decode_encode_char by exact Hc. rewrite IH by exact Ht. reflexivity.
Qed.

Example utf8_decode_encode_ex :
  text_ok [65; 233; 8364; 128512; 12288] /\
  utf8_encode [65; 233; 8364; 128512; 12288]
    = [65; 195; 169; 226; 130; 172; 240; 159; 152; 128; 227; 128; 128].
Proof. split; [repeat constructor|reflexivity]. Qed.

(* ------------------------------------------------------------------ *)
(* UTF-8: encode after decode (canonicity), and decoded text is scalar_ok *)

Lemma utf8_enc1 b0 : b0 < 128 -> utf8_encode_char b0 = [b0] /\ scalar_ok b0 = true.
Proof.
  intros H. unfold utf8_encode_char, scalar_ok.
  bdec (b0 <? 128) true. bdec (b0 <? 55296) true. split; reflexivity.
Qed.

Lemma utf8_enc2 b0 b1 :
  194 <= b0 -> b0 <= 223 -> 128 <= b1 -> b1 <= 191 ->
  utf8_encode_char ((b0 - 192) * 64 + (b1 - 128)) = [b0; b1] /\
  scalar_ok ((b0 - 192) * 64 + (b1 - 128)) = true.
Proof.
  intros H1 H2 H3 H4. unfold utf8_encode_char, scalar_ok.
  set (c := (b0 - 192) * 64 + (b1 - 128)).
  assert (Hc : 128 <= c /\ c < 2048) by (subst c; lia).
  bdec (c <? 128) false. bdec (c <? 2048) true. bdec (c <? 55296) true.
  split; [|reflexivity]. subst c. f_equal; [lia|f_equal; lia].
Qed.

Lemma utf8_enc3 b0 b1 b2 :
  224 <= b0 -> b0 <= 239 -> 128 <= b1 -> b1 <= 191 -> 128 <= b2 -> b2 <= 191 ->
  2048 <= (b0 - 224) * 4096 + (b1 - 128) * 64 + (b2 - 128) ->
  utf8_encode_char ((b0 - 224) * 4096 + (b1 - 128) * 64 + (b2 - 128)) = [b0; b1; b2].
Proof.
  intros H1 H2 H3 H4 H5 H6 H7. unfold utf8_encode_char.
  set (c := (b0 - 224) * 4096 + (b1 - 128) * 64 + (b2 - 128)) in *.
  assert (Hc : c < 65536) by (subst c; lia).
  bdec (c <? 128) false. bdec (c <? 2048) false. bdec (c <? 65536) true.
  subst c. f_equal; [lia|f_equal; [lia|f_equal; lia]].
Qed.

Lemma utf8_enc4 b0 b1 b2 b3 :
  240 <= b0 -> b0 <= 244 -> 128 <= b1 -> b1 <= 191 -> 128 <= b2 -> b2 <= 191 ->
  128 <= b3 -> b3 <= 191 ->
  65536 <= (b0 - 240) * 262144 + (b1 - 128) * 4096 + (b2 - 128) * 64 + (b3 - 128) ->
  utf8_encode_char ((b0 - 240) * 262144 + (b1 - 128) * 4096 + (b2 - 128) * 64 + (b3 - 128))
    = [b0; b1; b2; b3].
Proof.
  intros H1 H2 H3 H4 H5 H6 H7 H8 H9. unfold utf8_encode_char.
  set (c := (b0 - 240) * 262144 + (b1 - 128) * 4096 + (b2 - 128) * 64 + (b3 - 128)) in *.
  bdec (c <? 128) false. bdec (c <? 2048) false. bdec (c <? 65536) false.
  subst c. f_equal; [lia|f_equal; [lia|f_equal; [lia|f_equal; lia]]].
Qed.

Lemma utf8_decode_sound_len n : forall b t,
  (length b <= n)%nat -> utf8_decode b = Some t -> utf8_encode t = b /\ text_ok t.
Proof.
  induction n as [|n IH]; intros b t Hlen H.
  { destruct b as [|b0 r0]; [|simpl in Hlen; lia].
    simpl in H. injection H as <-. split; [reflexivity|constructor]. }
  destruct b as [|b0 r0].
  { simpl in H. injection H as <-. split; [reflexivity|constructor]. }
  cbn [utf8_decode] in H. simpl in Hlen.
  destruct (b0 <? 128) eqn:E1.
  { apply ocons_Some in H. destruct H as [t' [Hd ->]].
    destruct (IH r0 t') as [He Hok]; [lia|exact Hd|].
    b2p. destruct (utf8_enc1 b0) as [Hc Hs]; [lia|].
    split; [|apply text_ok_cons; split; assumption].
    unfold utf8_encode in *. cbn [flat_map]. rewrite Hc, He. reflexivity. }
  destruct ((194 <=? b0) && (b0 <=? 223)) eqn:E2.
  { destruct r0 as [|b1 r1]; [discriminate|].
    unfold is_cont in H.
    destruct ((128 <=? b1) && (b1 <=? 191)) eqn:E3; [|discriminate].
    apply ocons_Some in H. destruct H as [t' [Hd ->]].
    simpl in Hlen. destruct (IH r1 t') as [He Hok]; [lia|exact Hd|].
    b2p. destruct (utf8_enc2 b0 b1) as [Hc Hs]; [lia|lia|lia|lia|].
    split; [|apply text_ok_cons; split; assumption].
    unfold utf8_encode in *. cbn [flat_map]. rewrite Hc, He. reflexivity. }
  destruct ((224 <=? b0) && (b0 <=? 239)) eqn:E3.
  { destruct r0 as [|b1 [|b2 r2]]; [discriminate|discriminate|].
    cbv zeta in H. unfold is_cont in H.
    match type of H with (if ?c then _ else _) = _ => destruct c eqn:E4; [|discriminate] end.
    apply ocons_Some in H. destruct H as [t' [Hd ->]].
    simpl in Hlen. destruct (IH r2 t') as [He Hok]; [lia|exact Hd|].
    apply andb_true_iff in E4. destruct E4 as [E4 Hs].
    b2p. pose proof (utf8_enc3 b0 b1 b2) as Hc.
    split; [|apply text_ok_cons; split; assumption].
    unfold utf8_encode in *. cbn [flat_map]. rewrite Hc, He by lia. reflexivity. }
  destruct ((240 <=? b0) && (b0 <=? 244)) eqn:E4; [|discriminate].
  destruct r0 as [|b1 [|b2 [|b3 r3]]]; [discriminate|discriminate|discriminate|].
  cbv zeta in H. unfold is_cont in H.
  match type of H with (if ?c then _ else _) = _ => destruct c eqn:E5; [|discriminate] end.
  apply ocons_Some in H. destruct H as [t' [Hd ->]].
  simpl in Hlen. destruct (IH r3 t') as [He Hok]; [lia|exact Hd|].
  b2p. pose proof (utf8_enc4 b0 b1 b2 b3) as Hc.
  split.
  - unfold utf8_encode in *. cbn [flat_map]. rewrite Hc, He by lia. reflexivity.
  - apply text_ok_cons. split; [|exact Hok]. unfold scalar_ok.
    match goal with |- (?x <? 55296) || ((57343 <? ?x) && (?x <=? 1114111)) = true =>
      bdec (57343 <? x) true; bdec (x <=? 1114111) true end.
    apply orb_true_r.
Qed.

(* UTF-8 has no non-canonical valid forms: whatever decodes re-encodes to the same bytes *)
Theorem utf8_encode_decode b t : utf8_decode b = Some t -> utf8_encode t = b.
Proof. intros H. exact (proj1 (utf8_decode_sound_len (length b) b t (le_n _) H)). Qed.

Theorem utf8_decode_text_ok b t : utf8_decode b = Some t -> text_ok t.
Proof. intros H. exact (proj2 (utf8_decode_sound_len (length b) b t (le_n _) H)). Qed.

Example utf8_encode_decode_ex : utf8_decode [65; 195; 169; 226; 130; 172] = Some [65; 233; 8364].
Proof. reflexivity. Qed.

(* strictness witnesses: overlong, surrogate, > 10FFFF, truncated, stray continuation, F5 lead *)
Example utf8_decode_strict :
  utf8_decode [192; 128] = None /\ utf8_decode [224; 128; 128] = None /\
  utf8_decode [240; 128; 128; 128] = None /\ utf8_decode [237; 160; 128] = None /\
  utf8_decode [244; 144; 128; 128] = None /\ utf8_decode [226; 130] = None /\
  utf8_decode [128] = None /\ utf8_decode [245; 128; 128; 128] = None /\
  utf8_decode [65; 255] = None.
Proof. repeat split; reflexivity. Qed.

(* ------------------------------------------------------------------ *)
(* UTF-16 *)

Definition unit_ok (u : N) : Prop := u < 65536.

Lemma utf16_units_char_range c :
  scalar_ok c = true -> Forall unit_ok (utf16_units_char c).
Proof.
  intros Hc. unfold scalar_ok in Hc. unfold utf16_units_char, unit_ok.
  destruct (c <? 65536) eqn:E; b2p.
  - constructor; [lia|constructor].
  - constructor; [lia|constructor; [lia|constructor]].
Qed.

(* every code unit produced for valid text fits a u16, so u / 256 is its high byte *)
Lemma utf16_units_range t : text_ok t -> Forall unit_ok (utf16_units t).
Proof.
  induction t as [|c t IH]; intros Hok; [constructor|].
  apply text_ok_cons in Hok. destruct Hok as [Hc Ht].
  unfold utf16_units. cbn [flat_map]. apply Forall_app. split.
  - apply utf16_units_char_range. exact Hc.
  - apply IH. exact Ht.
Qed.

Lemma utf16_scalars_units_char c r :
  scalar_ok c = true ->
  utf16_scalars (utf16_units_char c ++ r) = ocons c (utf16_scalars r).
Proof.
  intros Hc. unfold scalar_ok in Hc. unfold utf16_units_char.
  destruct (c <? 65536) eqn:E; cbn [app utf16_scalars]; unfold is_high, is_low; b2p.
  - bdec ((55296 <=? c) && (c <=? 56319)) false.
    bdec ((56320 <=? c) && (c <=? 57343)) false. reflexivity.
  - bdec ((55296 <=? 55296 + (c - 65536) / 1024) && (55296 + (c - 65536) / 1024 <=? 56319)) true.
    bdec ((56320 <=? 56320 + (c - 65536) mod 1024) && (56320 + (c - 65536) mod 1024 <=? 57343)) true.
    f_equal. lia.
Qed.

Lemma utf16_scalars_units t : text_ok t -> utf16_scalars (utf16_units t) = Some t.
Proof.
  induction t as [|c t IH]; intros Hok; [reflexivity|].
  apply text_ok_cons in Hok. destruct Hok as [Hc Ht].
  unfold utf16_units. cbn [flat_map]. fold (utf16_units t).
  rewrite utf16_scalars_units_char by exact Hc. rewrite IH by exact Ht. reflexivity.
Qed.

Definition u16_bytes (le : bool) : N -> bytes := if le then u16_le else u16_be.

Lemma units_of_bytes_encode le us :
  Forall unit_ok us -> units_of_bytes le (flat_map (u16_bytes le) us) = Some us.
Proof.
  induction 1 as [|u us Hu Hus IH]; [reflexivity|].
  unfold unit_ok in Hu.
  cbn [flat_map]. destruct le; unfold u16_bytes, u16_le, u16_be in *;
    cbn [app units_of_bytes]; rewrite IH.
  - bdec ((u mod 256 <? 256) && (u / 256 <? 256)) true. cbn [ocons]. f_equal. f_equal. lia.
  - bdec ((u / 256 <? 256) && (u mod 256 <? 256)) true. cbn [ocons]. f_equal. f_equal. lia.
Qed.

Lemma utf16_decode_encode le t :
  text_ok t -> utf16_decode le (encode_utf16 (u16_bytes le) t) = Some t.
Proof.
  intros Hok. unfold utf16_decode, encode_utf16.
  rewrite units_of_bytes_encode by (apply utf16_units_range; exact Hok).
  apply utf16_scalars_units. exact Hok.
Qed.

Theorem utf16le_decode_encode t : text_ok t -> utf16le_decode (encode_utf16le t) = Some t.
Proof. exact (utf16_decode_encode true t). Qed.

Theorem utf16be_decode_encode t : text_ok t -> utf16be_decode (encode_utf16be t) = Some t.
Proof. exact (utf16_decode_encode false t). Qed.

Example utf16_decode_encode_ex :
  text_ok [65; 233; 8364; 128512] /\
  encode_utf16le [65; 233; 8364; 128512] = [65; 0; 233; 0; 172; 32; 61; 216; 0; 222] /\
  encode_utf16be [65; 233; 8364; 128512] = [0; 65; 0; 233; 32; 172; 216; 61; 222; 0].
Proof. split; [repeat constructor|split; reflexivity]. Qed.

(* the other direction *)

Lemma units_of_bytes_sound_len le n : forall b us,
  (length b <= n)%nat -> units_of_bytes le b = Some us ->
  flat_map (u16_bytes le) us = b /\ Forall unit_ok us.
Proof.
  induction n as [|n IH]; intros b us Hlen H.
  { destruct b as [|a r]; [|simpl in Hlen; lia].
    simpl in H. injection H as <-. split; [reflexivity|constructor]. }
  destruct b as [|a [|b' r]].
  - simpl in H. injection H as <-. split; [reflexivity|constructor].
  - discriminate.
  - cbn [units_of_bytes] in H.
    destruct ((a <? 256) && (b' <? 256)) eqn:E; [|discriminate].
    apply ocons_Some in H. destruct H as [us' [Hd ->]].
    simpl in Hlen. destruct (IH r us') as [He Hok]; [lia|exact Hd|].
    b2p. split.
    + cbn [flat_map]. rewrite He.
      destruct le; unfold u16_bytes, u16_le, u16_be; cbn [app];
        (f_equal; [lia|f_equal; lia]).
    + constructor; [|exact Hok]. unfold unit_ok. destruct le; lia.
Qed.

(* version that carries unit_ok, which units_of_bytes guarantees *)
Lemma utf16_scalars_sound_len n : forall us t,
  (length us <= n)%nat -> Forall unit_ok us -> utf16_scalars us = Some t ->
  utf16_units t = us /\ text_ok t.
Proof.
  induction n as [|n IH]; intros us t Hlen Hu H.
  { destruct us as [|u r]; [|simpl in Hlen; lia].
    simpl in H. injection H as <-. split; [reflexivity|constructor]. }
  destruct us as [|u r].
  { simpl in H. injection H as <-. split; [reflexivity|constructor]. }
  cbn [utf16_scalars] in H. simpl in Hlen. unfold is_high, is_low in H.
  inversion Hu as [|u0 r0 Hu1 Hu2]; subst u0 r0. unfold unit_ok in Hu1.
  destruct ((55296 <=? u) && (u <=? 56319)) eqn:E1.
  { destruct r as [|v r']; [discriminate|].
    destruct ((56320 <=? v) && (v <=? 57343)) eqn:E2; [|discriminate].
    apply ocons_Some in H. destruct H as [t' [Hd ->]].
    inversion Hu2 as [|v0 r0 Hv1 Hv2]; subst v0 r0.
    simpl in Hlen. destruct (IH r' t') as [He Hok]; [lia|exact Hv2|exact Hd|].
    b2p. set (c := 65536 + (u - 55296) * 1024 + (v - 56320)).
    assert (Hc : 65536 <= c /\ c <= 1114111) by (subst c; lia).
    split.
    - unfold utf16_units in *. cbn [flat_map]. rewrite He. unfold utf16_units_char.
      bdec (c <? 65536) false. cbn [app]. subst c. f_equal; [lia|f_equal; lia].
    - apply text_ok_cons. split; [|exact Hok]. unfold scalar_ok.
      bdec (57343 <? c) true. bdec (c <=? 1114111) true. apply orb_true_r. }
  destruct ((56320 <=? u) && (u <=? 57343)) eqn:E2; [discriminate|].
  apply ocons_Some in H. destruct H as [t' [Hd ->]].
  destruct (IH r t') as [He Hok]; [lia|exact Hu2|exact Hd|].
  b2p. split.
  - unfold utf16_units in *. cbn [flat_map]. rewrite He. unfold utf16_units_char.
    bdec (u <? 65536) true. reflexivity.
  - apply text_ok_cons. split; [|exact Hok]. unfold scalar_ok.
    destruct (u <? 55296) eqn:E3; [reflexivity|]. b2p.
    bdec (57343 <? u) true. bdec (u <=? 1114111) true. reflexivity.
Qed.

Lemma utf16_encode_decode le b t :
  utf16_decode le b = Some t -> encode_utf16 (u16_bytes le) t = b /\ text_ok t.
Proof.
  unfold utf16_decode, encode_utf16. intros H.
  destruct (units_of_bytes le b) as [us|] eqn:Hu; [|discriminate].
  destruct (units_of_bytes_sound_len le (length b) b us (le_n _) Hu) as [Hb Hok].
  destruct (utf16_scalars_sound_len (length us) us t (le_n _) Hok H) as [Hus Ht].
  rewrite Hus. split; assumption.
Qed.

Theorem utf16le_encode_decode b t : utf16le_decode b = Some t -> encode_utf16le t = b.
Proof. intros H. exact (proj1 (utf16_encode_decode true b t H)). Qed.

Theorem utf16be_encode_decode b t : utf16be_decode b = Some t -> encode_utf16be t = b.
Proof. intros H. exact (proj1 (utf16_encode_decode false b t H)). Qed.

Theorem utf16_decode_text_ok le b t : utf16_decode le b = Some t -> text_ok t.
Proof. intros H. exact (proj2 (utf16_encode_decode le b t H)). Qed.

Example utf16_encode_decode_ex :
  utf16le_decode [65; 0; 61; 216; 0; 222] = Some [65; 128512] /\
  utf16be_decode [0; 65; 216; 61; 222; 0] = Some [65; 128512].
Proof. split; reflexivity. Qed.

(* malformed UTF-16: odd length, lone high, lone low, reversed pair, high at the end *)
Example utf16_decode_strict :
  utf16le_decode [65] = None /\ utf16le_decode [65; 0; 66] = None /\
  utf16be_decode [216; 0; 0; 65] = None /\ utf16be_decode [220; 0] = None /\
  utf16be_decode [220; 0; 216; 0] = None /\ utf16le_decode [0; 216] = None.
Proof. repeat split; reflexivity. Qed.

(* ------------------------------------------------------------------ *)
(* for_bom *)

Lemma for_bom_cases buf e n :
  for_bom buf = Some (e, n) ->
  (e = Utf8 /\ n = 3%nat /\ firstn n buf = bom_utf8) \/
  (e = Utf16le /\ n = 2%nat /\ firstn n buf = bom_utf16le) \/
  (e = Utf16be /\ n = 2%nat /\ firstn n buf = bom_utf16be).
Proof.
  unfold for_bom. intros H.
  destruct (is_prefix bom_utf8 buf) eqn:E1.
  { injection H as <- <-. left. apply is_prefix_spec in E1. destruct E1 as [r ->].
    repeat split; reflexivity. }
  destruct (is_prefix bom_utf16le buf) eqn:E2.
  { injection H as <- <-. right. left. apply is_prefix_spec in E2. destruct E2 as [r ->].
    repeat split; reflexivity. }
  destruct (is_prefix bom_utf16be buf) eqn:E3; [|discriminate].
  injection H as <- <-. right. right. apply is_prefix_spec in E3. destruct E3 as [r ->].
  repeat split; reflexivity.
Qed.

Lemma for_bom_is_utf buf e n : for_bom buf = Some (e, n) -> is_utf e = true.
Proof.
  intros H. destruct (for_bom_cases buf e n H) as [[-> _]|[[-> _]|[-> _]]]; reflexivity.
Qed.

Lemma for_bom_None buf :
  for_bom buf = None <->
  is_prefix bom_utf8 buf = false /\ is_prefix bom_utf16le buf = false /\
  is_prefix bom_utf16be buf = false.
Proof.
  unfold for_bom.
  destruct (is_prefix bom_utf8 buf); [split; [discriminate|intros [H _]; discriminate]|].
  destruct (is_prefix bom_utf16le buf); [split; [discriminate|intros [_ [H _]]; discriminate]|].
  destruct (is_prefix bom_utf16be buf); [split; [discriminate|intros [_ [_ H]]; discriminate]|].
  split; intros _; repeat split; reflexivity.
Qed.

(* ------------------------------------------------------------------ *)
(* decode_file / write *)

Section FileCodec.
  Variable legacy_decode : nat -> bytes -> option text.
  Variable legacy_encode : nat -> text -> option bytes.
  (* the formatter, abstract in this unit *)
  Variable format : text -> text.

  Notation decode_with := (decode_with legacy_decode).
  Notation decode_file := (decode_file legacy_decode).
  Notation encode_with := (encode_with legacy_encode).
  Notation write_bytes := (write_bytes legacy_encode).

  Lemma select_encoding_split cfg buf e bom body :
    select_encoding cfg buf = (e, bom, body) -> buf = bom_bytes bom ++ body.
  Proof.
    unfold select_encoding. destruct (for_bom buf) as [[e' n]|]; intros H; injection H as <- <- <-.
    - simpl. symmetry. apply firstn_skipn.
    - reflexivity.
  Qed.

  Lemma decode_file_inv cfg buf bom e t :
    decode_file cfg buf = Some (bom, e, t) ->
    exists body, select_encoding cfg buf = (e, bom, body) /\ decode_with e body = Some t.
  Proof.
    unfold decode_file. destruct (select_encoding cfg buf) as [[e' bom'] body] eqn:Hs.
    destruct (decode_with e' body) as [t'|] eqn:Hd; intros H; [|discriminate].
    injection H as <- <- <-. exists body. split; [reflexivity|exact Hd].
  Qed.

  (* A BOM overrides the configured encoding; without one the configured encoding is used. *)
  Theorem bom_decides_encoding cfg buf bom e t :
    decode_file cfg buf = Some (bom, e, t) ->
    match for_bom buf with
    | Some (e', n) => e = e' /\ bom = Some (firstn n buf) /\ decode_with e' (skipn n buf) = Some t
    | None => e = cfg /\ bom = None /\ decode_with cfg buf = Some t
    end.
  Proof.
    intros H. apply decode_file_inv in H. destruct H as [body [Hs Hd]].
    unfold select_encoding in Hs. destruct (for_bom buf) as [[e' n]|].
    - injection Hs as <- <- <-. repeat split. exact Hd.
    - injection Hs as <- <- <-. repeat split. exact Hd.
  Qed.

  (* hence with a BOM present the configured encoding is irrelevant *)
  Theorem bom_overrides_config cfg1 cfg2 buf :
    for_bom buf <> None -> decode_file cfg1 buf = decode_file cfg2 buf.
  Proof.
    intros H. unfold decode_file, select_encoding.
    destruct (for_bom buf) as [[e n]|]; [reflexivity|contradiction].
  Qed.

  (* The BOM recorded by decode_file is exactly the sniffed one (one of the three), it is a prefix
     of the input, and `write` emits it again in front of the encoded text; when no BOM was found
     none is emitted (the output is just the encoded text). *)
  Theorem bom_preserved cfg buf bom e t t' out :
    decode_file cfg buf = Some (bom, e, t) ->
    write_bytes e bom t' = Some out ->
    (forall b, bom = Some b ->
       (b = bom_utf8 \/ b = bom_utf16le \/ b = bom_utf16be) /\
       is_prefix b buf = true /\ is_prefix b out = true) /\
    (bom = None -> for_bom buf = None /\ encode_with e t' = Some out) /\
    (bom <> None <-> for_bom buf <> None).
  Proof.
    intros Hd Hw. pose proof (bom_decides_encoding _ _ _ _ _ Hd) as Hb.
    unfold write_bytes in Hw. destruct (encode_with e t') as [ob|] eqn:He; [|discriminate].
    injection Hw as <-.
    destruct (for_bom buf) as [[e' n]|] eqn:Hf.
    - destruct Hb as [-> [-> _]]. split; [|split].
      + intros b Hb. injection Hb as <-.
        split; [|split].
        * destruct (for_bom_cases _ _ _ Hf) as [[_ [_ H]]|[[_ [_ H]]|[_ [_ H]]]]; rewrite H; tauto.
        * apply is_prefix_spec. exists (skipn n buf). symmetry. apply firstn_skipn.
        * apply is_prefix_spec. exists ob. reflexivity.
      + discriminate.
      + split; intros _; discriminate.
    - destruct Hb as [-> [-> _]]. split; [|split].
      + discriminate.
      + intros _. split; reflexivity.
      + split; intros H; contradiction H; reflexivity.
  Qed.

  (* The bytes written = bom ++ encode enc (format (decode enc body)), where buf = bom ++ body. *)
  Theorem bytes_written_spec cfg buf bom e t :
    decode_file cfg buf = Some (bom, e, t) ->
    exists body,
      buf = bom_bytes bom ++ body /\
      decode_with e body = Some t /\
      write_bytes e bom (format t) =
        match encode_with e (format t) with
        | Some ob => Some (bom_bytes bom ++ ob)
        | None => None
        end.
  Proof.
    intros H. apply decode_file_inv in H. destruct H as [body [Hs Hd]].
    exists body. split; [exact (select_encoding_split _ _ _ _ _ Hs)|].
    split; [exact Hd|reflexivity].
  Qed.

  (* Malformed input (in the encoding selected by BOM / configuration) is rejected. *)
  Theorem malformed_rejected cfg buf e bom body :
    select_encoding cfg buf = (e, bom, body) ->
    decode_with e body = None ->
    decode_file cfg buf = None.
  Proof. intros Hs Hd. unfold decode_file. rewrite Hs, Hd. reflexivity. Qed.

  (* and conversely decode_file only fails for that reason *)
  Theorem rejected_only_if_malformed cfg buf :
    decode_file cfg buf = None ->
    exists e bom body, select_encoding cfg buf = (e, bom, body) /\ decode_with e body = None.
  Proof.
    unfold decode_file. destruct (select_encoding cfg buf) as [[e bom] body].
    destruct (decode_with e body) eqn:Hd; intros H; [discriminate|].
    exists e, bom, body. split; [reflexivity|exact Hd].
  Qed.

  (* the UTF codecs are canonical: encode (decode body) = body *)
  Lemma utf_canonical e body t :
    is_utf e = true -> decode_with e body = Some t -> encode_with e t = Some body.
  Proof.
    destruct e as [| | |id]; simpl; intros Hu H; try discriminate.
    - rewrite (utf8_encode_decode _ _ H). reflexivity.
    - rewrite (utf16le_encode_decode _ _ H). reflexivity.
    - rewrite (utf16be_encode_decode _ _ H). reflexivity.
  Qed.

  (* the UTF encoders cannot fail *)
  Lemma utf_encode_total e t : is_utf e = true -> exists ob, encode_with e t = Some ob.
  Proof. destruct e; simpl; intros H; try discriminate; eexists; reflexivity. Qed.

  (* what decode_file accepts in a UTF encoding is valid text *)
  Lemma utf_decode_text_ok e body t :
    is_utf e = true -> decode_with e body = Some t -> text_ok t.
  Proof.
    destruct e as [| | |id]; simpl; intros Hu H; try discriminate.
    - exact (utf8_decode_text_ok _ _ H).
    - exact (utf16_decode_text_ok true _ _ H).
    - exact (utf16_decode_text_ok false _ _ H).
  Qed.

  (* For UTF-8/16 input accepted by decode_file, writing the decoded text back unchanged reproduces
     the original bytes exactly. *)
  Theorem utf_roundtrip_same_text cfg buf bom e t :
    decode_file cfg buf = Some (bom, e, t) -> is_utf e = true ->
    write_bytes e bom t = Some buf.
  Proof.
    intros H Hu. apply decode_file_inv in H. destruct H as [body [Hs Hd]].
    unfold write_bytes. rewrite (utf_canonical e body t Hu Hd).
    rewrite (select_encoding_split _ _ _ _ _ Hs). reflexivity.
  Qed.

  Theorem utf_roundtrip_identity cfg buf bom e t :
    decode_file cfg buf = Some (bom, e, t) -> is_utf e = true ->
    format t = t ->
    write_bytes e bom (format t) = Some buf.
  Proof. intros H Hu Hf. rewrite Hf. exact (utf_roundtrip_same_text _ _ _ _ _ H Hu). Qed.

  (* with a BOM the encoding is always a UTF one, whatever was configured *)
  Corollary bom_roundtrip_identity cfg buf bom e t :
    decode_file cfg buf = Some (bom, e, t) -> bom <> None ->
    format t = t ->
    write_bytes e bom (format t) = Some buf.
  Proof.
    intros H Hb Hf. apply (utf_roundtrip_identity cfg buf bom e t H); [|exact Hf].
    pose proof (bom_decides_encoding _ _ _ _ _ H) as Hd.
    destruct (for_bom buf) as [[e' n]|] eqn:Hfb.
    - destruct Hd as [-> _]. exact (for_bom_is_utf _ _ _ Hfb).
    - destruct Hd as [_ [-> _]]. contradiction Hb. reflexivity.
  Qed.
End FileCodec.

(* ------------------------------------------------------------------ *)
(* non-vacuity: concrete instances (no legacy codec: everything legacy is rejected) *)

Definition no_legacy_decode : nat -> bytes -> option text := fun _ _ => None.
Definition no_legacy_encode : nat -> text -> option bytes := fun _ _ => None.

(* UTF-16LE BOM + "A" + U+1F600, configured encoding is a legacy code page *)
Example decode_file_ex_bom :
  decode_file no_legacy_decode (Legacy 0) [255; 254; 65; 0; 61; 216; 0; 222]
    = Some (Some [255; 254], Utf16le, [65; 128512]).
Proof. reflexivity. Qed.

Example write_bytes_ex_bom :
  write_bytes no_legacy_encode Utf16le (Some [255; 254]) [65; 128512]
    = Some [255; 254; 65; 0; 61; 216; 0; 222].
Proof. reflexivity. Qed.

(* no BOM: the configured encoding is used *)
Example decode_file_ex_nobom :
  decode_file no_legacy_decode Utf8 [65; 195; 169] = Some (None, Utf8, [65; 233]) /\
  decode_file no_legacy_decode Utf16be [0; 65; 0; 233] = Some (None, Utf16be, [65; 233]).
Proof. split; reflexivity. Qed.

(* malformed_rejected is not vacuous: UTF-8 BOM followed by a lone continuation byte *)
Example malformed_rejected_ex :
  select_encoding (Legacy 0) [239; 187; 191; 128] = (Utf8, Some [239; 187; 191], [128]) /\
  decode_with no_legacy_decode Utf8 [128] = None /\
  decode_file no_legacy_decode (Legacy 0) [239; 187; 191; 128] = None.
Proof. repeat split; reflexivity. Qed.

(* a text starting with U+FEFF after a UTF-8 BOM keeps both *)
Example double_bom_ex :
  decode_file no_legacy_decode Utf8 [239; 187; 191; 239; 187; 191; 65]
    = Some (Some [239; 187; 191], Utf8, [65279; 65]) /\
  write_bytes no_legacy_encode Utf8 (Some [239; 187; 191]) [65279; 65]
    = Some [239; 187; 191; 239; 187; 191; 65].
Proof. split; reflexivity. Qed.

(* A configured single-byte code page never sees a file starting with FF FE / FE FF / EF BB BF as
   such: the BOM wins (file_formatter.rs / front-end docs: "a detected BOM will override"). *)
Example bom_beats_legacy_ex :
  for_bom [255; 254; 65; 0] = Some (Utf16le, 2%nat) /\
  decode_file no_legacy_decode (Legacy 1252) [255; 254; 65; 0] = Some (Some [255; 254], Utf16le, [65]).
Proof. split; reflexivity. Qed.
