(* Proofs/SpacingProofs.v — properties of Model/Spacing.v (core/src/rules/token_spacing.rs) *)
From PasfmtVerif Require Import Model.Spacing.

(* ================================================================== *)
(* 1. structure of `rule`                                              *)

Ltac unfold_rule :=
  cbv beta iota delta [rule space_operator one_space_either_side one_space_before
                       max_one_either_side spaces_before spaces_after binary_op_spacing fst snd].

(* destruct every variable that is still the scrutinee of a match *)
Ltac split_matches :=
  repeat (match goal with
          | |- context [match ?x with _ => _ end] => is_var x; destruct x
          end; cbv beta iota).

(* case analysis on the current token first (then on its operator kind), so that only the matches
   that the selected arm really performs are split *)
Ltac rule_cases cur :=
  destruct cur as [op| |kw|tk|nk|cdk| |ck| |];
  [destruct op as [ | | | | | | | |ek| |chk| |chk| | | | | |cak| | | ];
   try (destruct chk); try (destruct cak)
  | | | | | | |destruct ck| | ];
  unfold_rule; split_matches.

(* the before-component never depends on the next token *)
Lemma rule_fst_next_none prev cur next pr :
  fst (rule prev cur next pr) = fst (rule prev cur None pr).
Proof. rule_cases cur; reflexivity. Qed.

Lemma rule_fst_next_irrelevant prev cur next next' pr :
  fst (rule prev cur next pr) = fst (rule prev cur next' pr).
Proof. rewrite (rule_fst_next_none _ _ next), (rule_fst_next_none _ _ next'). reflexivity. Qed.

(* the after-component never depends on the previous token *)
Lemma rule_snd_prev_none prev cur next pr :
  snd (rule prev cur next pr) = snd (rule None cur next pr).
Proof. rule_cases cur; reflexivity. Qed.

Lemma rule_snd_prev_irrelevant prev prev' cur next pr :
  snd (rule prev cur next pr) = snd (rule prev' cur next pr).
Proof. rewrite (rule_snd_prev_none prev), (rule_snd_prev_none prev'). reflexivity. Qed.

(* every constant the rule writes is 0 or 1 *)
Definition action_le1b (a : action) : bool :=
  match a with SetTo n => n <=? 1 | _ => true end.

Definition action_le1 (a : action) : Prop :=
  match a with SetTo n => n <= 1 | _ => True end.

Lemma action_le1b_sound a : action_le1b a = true -> action_le1 a.
Proof. destruct a as [|n|]; cbn; [trivial|apply N.leb_le|trivial]. Qed.

Lemma rule_fst_le1 prev cur next pr : action_le1 (fst (rule prev cur next pr)).
Proof.
  rewrite (rule_fst_next_none prev cur next pr). apply action_le1b_sound.
  rule_cases cur; reflexivity.
Qed.

Lemma rule_snd_le1 prev cur next pr : action_le1 (snd (rule prev cur next pr)).
Proof.
  rewrite (rule_snd_prev_none prev cur next pr). apply action_le1b_sound.
  rule_cases cur; reflexivity.
Qed.

(* ================================================================== *)
(* 2. action algebra: everything gap_fn does, on the level of two actions and the Eof flag *)

Definition gap_act (b a : action) (eof : bool) (o : N) : N :=
  apply_action b (if eof then o else apply_action a o).

Definition keeps_act (b a : action) (eof : bool) : bool :=
  match b with
  | Keep => eof || match a with Keep => true | _ => false end
  | _ => false
  end.

Definition reads_act (b a : action) (eof : bool) : bool :=
  match b with
  | SetTo _ => false
  | _ => eof || match a with SetTo _ => false | _ => true end
  end.

Lemma gap_fn_act tl tr pr o :
  gap_fn tl tr pr o = gap_act (before_of tl tr pr) (after_of tl tr pr) (is_eof tr) o.
Proof. reflexivity. Qed.

Lemma keeps_orig_act tl tr pr :
  keeps_orig tl tr pr = keeps_act (before_of tl tr pr) (after_of tl tr pr) (is_eof tr).
Proof. reflexivity. Qed.

Lemma reads_orig_act tl tr pr :
  reads_orig tl tr pr = reads_act (before_of tl tr pr) (after_of tl tr pr) (is_eof tr).
Proof. reflexivity. Qed.

Ltac act_cases b a e :=
  destruct b as [|nb|]; destruct a as [|na|]; destruct e;
  cbn [gap_act apply_action keeps_act reads_act action_le1 orb]; intros;
  try discriminate; try reflexivity; try lia.

Lemma gap_act_keeps b a e o : keeps_act b a e = true -> gap_act b a e o = o.
Proof. act_cases b a e. Qed.

Lemma gap_act_min1 b a e o :
  keeps_act b a e = false -> gap_act b a e o = gap_act b a e (N.min 1 o).
Proof. act_cases b a e. Qed.

Lemma gap_act_le1 b a e o :
  action_le1 b -> action_le1 a -> keeps_act b a e = false -> gap_act b a e o <= 1.
Proof. act_cases b a e. Qed.

Lemma gap_act_idem b a e o : gap_act b a e (gap_act b a e o) = gap_act b a e o.
Proof. act_cases b a e. Qed.

Lemma gap_act_not_read b a e o1 o2 :
  reads_act b a e = false -> gap_act b a e o1 = gap_act b a e o2.
Proof. act_cases b a e. Qed.

(* reads_act is exact: where it is true, 0 and 1 give different results *)
Lemma gap_act_read_exact b a e : reads_act b a e = true -> gap_act b a e 0 <> gap_act b a e 1.
Proof. act_cases b a e; vm_compute; discriminate. Qed.

Lemma keeps_reads b a e : keeps_act b a e = true -> reads_act b a e = true.
Proof. act_cases b a e. Qed.

(* a zero result is either an original zero that was read, or a zero forced whatever the input *)
Lemma gap_act_zero b a e o :
  gap_act b a e o = 0 -> (o = 0 /\ reads_act b a e = true) \/ gap_act b a e 1 = 0.
Proof.
  destruct b as [|nb|]; destruct a as [|na|]; destruct e;
    cbn [gap_act apply_action reads_act orb]; intros H;
    try (right; exact H); try (right; lia); left; (split; [lia|reflexivity]).
Qed.

(* when are two original counts indistinguishable for a pair *)
Definition orig_equiv_act (b a : action) (e : bool) (o1 o2 : N) : Prop :=
  if keeps_act b a e then o1 = o2
  else if reads_act b a e then N.min 1 o1 = N.min 1 o2
  else True.

Lemma gap_act_equiv b a e o1 o2 :
  orig_equiv_act b a e o1 o2 -> gap_act b a e o1 = gap_act b a e o2.
Proof.
  unfold orig_equiv_act. destruct (keeps_act b a e) eqn:Ek.
  - intros ->. reflexivity.
  - destruct (reads_act b a e) eqn:Er.
    + intros H. rewrite (gap_act_min1 b a e o1 Ek), (gap_act_min1 b a e o2 Ek), H. reflexivity.
    + intros _. apply gap_act_not_read. exact Er.
Qed.

(* ================================================================== *)
(* 3. the loop in closed form *)

Lemma set_sp_set_sp f n m : set_sp (set_sp f n) m = set_sp f m.
Proof. reflexivity. Qed.

Lemma f_sp_set_sp f n : f_sp (set_sp f n) = n.
Proof. reflexivity. Qed.

Lemma spacing_go_cons prev pr pend p r :
  spacing_go prev pr pend (p :: r) =
  (fst p, set_sp (snd p)
            (apply_action (fst (rule prev (ty_of p) (head_ty r) pr))
               (if is_eof (ty_of p) then f_sp (snd p) else apply_action pend (f_sp (snd p)))))
    :: spacing_go (Some (ty_of p)) (next_prev_real pr (ty_of p))
         (snd (rule prev (ty_of p) (head_ty r) pr)) r.
Proof. reflexivity. Qed.

Lemma spacing_go_closed r : forall prev pr pend p,
  spacing_go prev pr pend (p :: r) =
  (fst p, set_sp (snd p)
            (apply_action (fst (rule prev (ty_of p) (head_ty r) pr))
               (if is_eof (ty_of p) then f_sp (snd p) else apply_action pend (f_sp (snd p)))))
    :: gaps pr (ty_of p) r.
Proof.
  induction r as [|q r IH]; intros prev pr pend p.
  - reflexivity.
  - rewrite spacing_go_cons. f_equal. rewrite IH. cbn [gaps]. f_equal.
    unfold gap_fn, before_of, after_of. cbn [head_ty].
    rewrite (rule_fst_next_irrelevant (Some (ty_of p)) (ty_of q) (head_ty r) None).
    rewrite (rule_snd_prev_irrelevant prev None (ty_of p)).
    reflexivity.
Qed.

(* TokenSpacing::format in closed form: token 0 gets 0, every later token gets gap_fn of its pair *)
Theorem spacing_closed_form p r :
  token_spacing (p :: r) = (fst p, set_sp (snd p) 0) :: gaps None (ty_of p) r.
Proof. unfold token_spacing. rewrite spacing_go_closed. reflexivity. Qed.

Lemma token_spacing_nil : token_spacing [] = [].
Proof. reflexivity. Qed.

(* ---------- only f_sp changes ---------- *)

(* q is p with (possibly) another f_sp *)
Definition same_but_sp (q p : ftoken) : Prop :=
  fst q = fst p /\ exists n, snd q = set_sp (snd p) n.

Lemma gaps_only_sp r : forall pr tl, Forall2 same_but_sp (gaps pr tl r) r.
Proof.
  induction r as [|q r IH]; intros pr tl; cbn [gaps]; constructor.
  - split; [reflexivity|eexists; reflexivity].
  - apply IH.
Qed.

Theorem spacing_only_sp l : Forall2 same_but_sp (token_spacing l) l.
Proof.
  destruct l as [|p r]; [constructor|]. rewrite spacing_closed_form. constructor.
  - split; [reflexivity|eexists; reflexivity].
  - apply gaps_only_sp.
Qed.

Definition fmt_nosp (f : fmt) : bool * N * N * N := (f_ignored f, f_nl f, f_ind f, f_cont f).

(* tokens (whitespace, content, type), ignored flag, newlines, indentations, continuations and the
   number of tokens are all preserved *)
Corollary spacing_preserves l :
  map fst (token_spacing l) = map fst l /\
  map (fun p => fmt_nosp (snd p)) (token_spacing l) = map (fun p => fmt_nosp (snd p)) l /\
  types (token_spacing l) = types l /\
  length (token_spacing l) = length l.
Proof.
  pose proof (spacing_only_sp l) as H. induction H as [|q p l' l Hqp _ IH].
  - repeat split.
  - destruct Hqp as [Hf [n Hs]]. destruct IH as (I1 & I2 & I3 & I4).
    unfold types in *. cbn [map length]. unfold ty_of at 1 3. rewrite Hf, Hs, I1, I2, I3, I4.
    repeat split.
Qed.

(* ---------- locality ---------- *)

Lemma gaps_nth i : forall p r pr tl fl tr fr,
  nth_error (p :: r) i = Some (tl, fl) ->
  nth_error (p :: r) (S i) = Some (tr, fr) ->
  nth_error (gaps pr (ty_of p) r) i =
  Some (tr, set_sp fr (gap_fn (t_ty tl) (t_ty tr)
                         (fold_left next_prev_real (firstn i (types (p :: r))) pr) (f_sp fr))).
Proof.
  induction i as [|i IH]; intros p r pr tl fl tr fr Hl Hr.
  - cbn in Hl. injection Hl as ->. destruct r as [|q r]; [discriminate|].
    cbn in Hr. injection Hr as ->. reflexivity.
  - destruct r as [|q r]; [destruct i; discriminate|].
    change (nth_error (q :: r) i = Some (tl, fl)) in Hl.
    change (nth_error (q :: r) (S i) = Some (tr, fr)) in Hr.
    cbn [gaps nth_error]. rewrite (IH q r _ tl fl tr fr Hl Hr). reflexivity.
Qed.

(* the count in front of token i+1 depends on the types of tokens i, i+1, on the previous real
   token type seen from token i, and on the original count of token i+1 — on nothing else *)
Theorem spacing_gap_local l i tl fl tr fr :
  nth_error l i = Some (tl, fl) ->
  nth_error l (S i) = Some (tr, fr) ->
  nth_error (token_spacing l) (S i) =
  Some (tr, set_sp fr (gap_fn (t_ty tl) (t_ty tr) (prev_real_at l i) (f_sp fr))).
Proof.
  intros Hl Hr. destruct l as [|p r]; [destruct i; discriminate|].
  rewrite spacing_closed_form. cbn [nth_error]. unfold prev_real_at.
  exact (gaps_nth i p r None tl fl tr fr Hl Hr).
Qed.

Theorem spacing_first_zero l p :
  nth_error l 0 = Some p -> nth_error (token_spacing l) 0 = Some (fst p, set_sp (snd p) 0).
Proof.
  destruct l as [|q r]; [discriminate|]. cbn. intros H. injection H as ->. reflexivity.
Qed.

(* prev_real_at is what the Rust closure computes: the last non comment/directive type among
   tokens 0..i-1 *)
Definition is_real (t : TokenType) : bool := negb (TokenType_is_comment_or_directive t).

Lemma fold_prev_real tys : forall pr,
  fold_left next_prev_real tys pr =
  match find is_real (rev tys) with Some t => Some t | None => pr end.
Proof.
  induction tys as [|t tys IH]; intros pr; [reflexivity|].
  cbn [fold_left rev]. rewrite IH.
  assert (Hfind : forall l1 l2, find is_real (l1 ++ l2) =
                    match find is_real l1 with Some x => Some x | None => find is_real l2 end).
  { intros l1 l2. induction l1 as [|x l1 IHl]; [reflexivity|]. cbn [app find].
    destruct (is_real x); [reflexivity|exact IHl]. }
  rewrite Hfind. destruct (find is_real (rev tys)) as [x|]; [reflexivity|].
  cbn [find]. unfold next_prev_real, is_real.
  destruct (TokenType_is_comment_or_directive t); reflexivity.
Qed.

Theorem prev_real_at_spec l i :
  prev_real_at l i = find is_real (rev (firstn i (types l))).
Proof.
  unfold prev_real_at. rewrite fold_prev_real.
  destruct (find is_real (rev (firstn i (types l)))); reflexivity.
Qed.

(* ================================================================== *)
(* 4. pointwise properties of gap_fn *)

(* the exception: gap_fn hands back the original count unchanged *)
Theorem gap_keeps_orig tl tr pr o : keeps_orig tl tr pr = true -> gap_fn tl tr pr o = o.
Proof. rewrite keeps_orig_act, gap_fn_act. apply gap_act_keeps. Qed.

(* outside the exception only min(1, orig) matters *)
Theorem gap_depends_on_min1 tl tr pr o :
  keeps_orig tl tr pr = false -> gap_fn tl tr pr o = gap_fn tl tr pr (N.min 1 o).
Proof. rewrite keeps_orig_act, !gap_fn_act. apply gap_act_min1. Qed.

Theorem gap_le_1 tl tr pr o : keeps_orig tl tr pr = false -> gap_fn tl tr pr o <= 1.
Proof.
  rewrite keeps_orig_act, gap_fn_act. apply gap_act_le1.
  - apply rule_fst_le1.
  - apply rule_snd_le1.
Qed.

Theorem gap_idem tl tr pr o : gap_fn tl tr pr (gap_fn tl tr pr o) = gap_fn tl tr pr o.
Proof. rewrite !gap_fn_act. apply gap_act_idem. Qed.

(* the leak class: where reads_orig is false the original layout is invisible *)
Theorem gap_not_read tl tr pr o1 o2 :
  reads_orig tl tr pr = false -> gap_fn tl tr pr o1 = gap_fn tl tr pr o2.
Proof. rewrite reads_orig_act, !gap_fn_act. apply gap_act_not_read. Qed.

(* ... and only there *)
Theorem gap_read_exact tl tr pr :
  reads_orig tl tr pr = true -> gap_fn tl tr pr 0 <> gap_fn tl tr pr 1.
Proof. rewrite reads_orig_act, !gap_fn_act. apply gap_act_read_exact. Qed.

Theorem keeps_orig_reads_orig tl tr pr : keeps_orig tl tr pr = true -> reads_orig tl tr pr = true.
Proof. rewrite keeps_orig_act, reads_orig_act. apply keeps_reads. Qed.

Theorem gap_zero_cases tl tr pr o :
  gap_fn tl tr pr o = 0 ->
  (o = 0 /\ reads_orig tl tr pr = true) \/ gap_fn tl tr pr 1 = 0.
Proof. rewrite reads_orig_act, !gap_fn_act. apply gap_act_zero. Qed.

(* two original counts that the pair cannot tell apart *)
Definition orig_equiv (tl tr : TokenType) (pr : option TokenType) (o1 o2 : N) : Prop :=
  if keeps_orig tl tr pr then o1 = o2
  else if reads_orig tl tr pr then N.min 1 o1 = N.min 1 o2
  else True.

Theorem gap_equiv tl tr pr o1 o2 :
  orig_equiv tl tr pr o1 o2 -> gap_fn tl tr pr o1 = gap_fn tl tr pr o2.
Proof.
  unfold orig_equiv. rewrite keeps_orig_act, reads_orig_act, !gap_fn_act. apply gap_act_equiv.
Qed.

(* ================================================================== *)
(* 5. reflection over the generated enumerations *)

Definition all_optTT : list (option TokenType) := None :: map Some all_TokenType.

Lemma in_all_optTT (x : option TokenType) : In x all_optTT.
Proof.
  destruct x as [t|]; [right; apply in_map; apply TokenType_in_all|left; reflexivity].
Qed.

Definition forall3b (P : TokenType -> TokenType -> option TokenType -> bool) : bool :=
  forallb (fun tl => forallb (fun tr => forallb (fun pr => P tl tr pr) all_optTT) all_TokenType)
    all_TokenType.

Lemma forall3b_sound P : forall3b P = true -> forall tl tr pr, P tl tr pr = true.
Proof.
  intros H tl tr pr. unfold forall3b in H.
  pose proof (TokenType_forallb _ H tl) as H1. cbv beta in H1.
  pose proof (TokenType_forallb _ H1 tr) as H2. cbv beta in H2.
  rewrite forallb_forall in H2. apply H2. apply in_all_optTT.
Qed.

Definition forall2b (P : TokenType -> TokenType -> bool) : bool :=
  forallb (fun tl => forallb (fun tr => P tl tr) all_TokenType) all_TokenType.

Lemma forall2b_sound P : forall2b P = true -> forall tl tr, P tl tr = true.
Proof.
  intros H tl tr. unfold forall2b in H.
  pose proof (TokenType_forallb _ H tl) as H1. cbv beta in H1.
  exact (TokenType_forallb _ H1 tr).
Qed.

(* ---------- the exception class, explicitly ---------- *)

Definition keeps_check (tl tr : TokenType) (pr : option TokenType) : bool :=
  Bool.eqb (keeps_orig tl tr pr) (keeps_orig_spec tl tr pr).

Lemma keeps_check_all : forall3b keeps_check = true.
Proof. vm_cast_no_check (eq_refl true). Qed.

(* gap_fn returns orig itself exactly when the left token is a `//` comment that follows code on its
   line (InlineLine) and the right token's own rule keeps: Identifier, `^` (type), `[`, `(`, or a
   unary `+`/`-` (unary as decided by the previous real token before the comment) *)
Theorem keeps_orig_char tl tr pr : keeps_orig tl tr pr = keeps_orig_spec tl tr pr.
Proof. apply eqb_prop. exact (forall3b_sound keeps_check keeps_check_all tl tr pr). Qed.

(* ---------- the leak class, explicitly ---------- *)

Definition reads_check (tl tr : TokenType) (pr : option TokenType) : bool :=
  Bool.eqb (reads_orig tl tr pr) (reads_orig_spec tl tr pr).

Lemma reads_check_all : forall3b reads_check = true.
Proof. vm_cast_no_check (eq_refl true). Qed.

(* the original count is read exactly when
   - the right token is Eof, or
   - the left token is an InlineLine comment, a text/number literal, Unknown (or Eof) and the right
     token is Identifier, a text/number literal, Unknown, `^` (type), `[` or `(`, or
   - the left token is an InlineLine comment and the right token is a unary `+`/`-`. *)
Theorem reads_orig_char tl tr pr : reads_orig tl tr pr = reads_orig_spec tl tr pr.
Proof. apply eqb_prop. exact (forall3b_sound reads_check reads_check_all tl tr pr). Qed.

(* ---------- separation ---------- *)

(* sanity of glue_safe: two word-like tokens (identifier, keyword, number) never glue; a token can
   always be written directly in front of Eof *)
Definition glue_word_check (tl tr : TokenType) : bool :=
  if starts_wordish tl && starts_wordish tr then negb (glue_safe tl tr) else true.

Lemma glue_word_check_all : forall2b glue_word_check = true.
Proof. vm_cast_no_check (eq_refl true). Qed.

Theorem glue_safe_words tl tr :
  starts_wordish tl = true -> starts_wordish tr = true -> glue_safe tl tr = false.
Proof.
  intros Hl Hr. pose proof (forall2b_sound glue_word_check glue_word_check_all tl tr) as H.
  unfold glue_word_check in H. rewrite Hl, Hr in H. cbn [andb] in H.
  apply negb_true_iff in H. exact H.
Qed.

Example glue_safe_operator_pairs :
  map (fun p => glue_safe (TT_Op (fst p)) (TT_Op (snd p)))
    [(OK_Colon, OK_Equal EK_Comp); (OK_LessThan ChK_Comp, OK_Equal EK_Comp);
     (OK_LessThan ChK_Generic, OK_GreaterThan ChK_Generic); (OK_GreaterThan ChK_Generic, OK_Equal EK_Decl);
     (OK_Dot, OK_Dot); (OK_LParen, OK_Star); (OK_Slash, OK_Slash); (OK_LParen, OK_Dot);
     (OK_RParen, OK_Dot); (OK_GreaterThan ChK_Generic, OK_GreaterThan ChK_Generic); (OK_DotDot, OK_Dot)]
  = [false; false; false; false; false; false; false; false; true; true; true].
Proof. reflexivity. Qed.

(* zero forced by the rule although the source had a blank *)
Definition forced_zero (tl tr : TokenType) (pr : option TokenType) : bool :=
  gap_fn tl tr pr 1 =? 0.

Definition tt_pair_eqb (p q : TokenType * TokenType) : bool :=
  TokenType_eqb (fst p) (fst q) && TokenType_eqb (snd p) (snd q).

Definition mem_pair (p : TokenType * TokenType) (l : list (TokenType * TokenType)) : bool :=
  existsb (tt_pair_eqb p) l.

Lemma mem_pair_In p l : mem_pair p l = true -> In p l.
Proof.
  unfold mem_pair. rewrite existsb_exists. intros [q [Hq He]].
  unfold tt_pair_eqb in He. apply andb_true_iff in He. destruct He as [E1 E2].
  apply TokenType_eqb_eq in E1, E2. destruct p as [p1 p2], q as [q1 q2]. cbn in E1, E2.
  subst. exact Hq.
Qed.

(* pairs (left, right) — left neither a `//` comment nor Eof — that the rule can glue (for some
   previous real token) although glue_safe does not vouch for them *)
Definition sep_bad (tl tr : TokenType) : bool :=
  negb (is_sl_comment tl) && negb (is_eof tl) && negb (glue_safe tl tr)
  && existsb (fun pr => forced_zero tl tr pr) all_optTT.

Definition spacing_glue_exceptions : list (TokenType * TokenType) :=
  Eval vm_compute in
    filter (fun p => sep_bad (fst p) (snd p)) (list_prod all_TokenType all_TokenType).

(* the list, spelled out *)
Lemma spacing_glue_exceptions_eq :
  spacing_glue_exceptions =
  [ (* `<` `>` with nothing between: "<>" is NotEqual *)
    (TT_Op (OK_LessThan ChK_Generic), TT_Op (OK_GreaterThan ChK_Generic));
    (TT_Op (OK_LessThan ChK_Comp), TT_Op (OK_GreaterThan ChK_Generic));
    (* `(` then `.)` / `.` / `..`: "(." is LBrack *)
    (TT_Op OK_LParen, TT_Op OK_RBrack);
    (TT_Op OK_LParen, TT_Op OK_Dot);
    (TT_Op OK_LParen, TT_Op OK_DotDot);
    (* `.` then `.)` / `)` / `.` / `..`: ".)" is RBrack, ".." is DotDot *)
    (TT_Op OK_Dot, TT_Op OK_RBrack);
    (TT_Op OK_Dot, TT_Op OK_RParen);
    (TT_Op OK_Dot, TT_Op OK_Dot);
    (TT_Op OK_Dot, TT_Op OK_DotDot);
    (* `.` then a number: "1 . 5" becomes the single literal "1.5" *)
    (TT_Op OK_Dot, TT_NumberLiteral NK_Decimal);
    (TT_Op OK_Dot, TT_NumberLiteral NK_Octal);
    (TT_Op OK_Dot, TT_NumberLiteral NK_Hex);
    (TT_Op OK_Dot, TT_NumberLiteral NK_Binary);
    (* an unterminated text literal followed by an operator that wants no blank before it *)
    (TT_TextLiteral TK_Unterminated, TT_Op OK_Comma);
    (TT_TextLiteral TK_Unterminated, TT_Op OK_Semicolon);
    (TT_TextLiteral TK_Unterminated, TT_Op OK_Colon);
    (TT_TextLiteral TK_Unterminated, TT_Op (OK_LessThan ChK_Generic));
    (TT_TextLiteral TK_Unterminated, TT_Op (OK_GreaterThan ChK_Generic));
    (TT_TextLiteral TK_Unterminated, TT_Op OK_RBrack);
    (TT_TextLiteral TK_Unterminated, TT_Op OK_RParen);
    (TT_TextLiteral TK_Unterminated, TT_Op (OK_Caret CaK_Deref));
    (TT_TextLiteral TK_Unterminated, TT_Op OK_Dot);
    (TT_TextLiteral TK_Unterminated, TT_Op OK_DotDot) ].
Proof. reflexivity. Qed.

(* nested ifs, not ||: vm_compute is call-by-value and must not search the list on every triple *)
Definition sep_check (tl tr : TokenType) (pr : option TokenType) : bool :=
  if forced_zero tl tr pr then
    if is_sl_comment tl then true
    else if is_eof tl then true
    else if glue_safe tl tr then true
    else mem_pair (tl, tr) spacing_glue_exceptions
  else true.

Lemma sep_check_all : forall3b sep_check = true.
Proof. vm_cast_no_check (eq_refl true). Qed.

(* whenever the rule forces zero blanks between two tokens (left not a `//` comment, after which the
   reconstructor breaks the line anyway, and not Eof), gluing them is safe for the lexer, or the
   pair is one of the 23 listed exceptions *)
Theorem gap_forced_zero_separates tl tr pr :
  is_sl_comment tl = false -> is_eof tl = false ->
  gap_fn tl tr pr 1 = 0 ->
  glue_safe tl tr = true \/ In (tl, tr) spacing_glue_exceptions.
Proof.
  intros Hc He Hz.
  pose proof (forall3b_sound sep_check sep_check_all tl tr pr) as H.
  unfold sep_check, forced_zero in H. rewrite Hc, He, Hz in H.
  rewrite N.eqb_refl in H.
  destruct (glue_safe tl tr); [left; reflexivity|right; apply mem_pair_In; exact H].
Qed.

(* the exceptions are real: each one is forced to zero for every previous real token *)
Definition exc_check (p : TokenType * TokenType) : bool :=
  forallb (fun pr => forced_zero (fst p) (snd p) pr) all_optTT && negb (glue_safe (fst p) (snd p)).

Lemma exceptions_are_forced : forallb exc_check spacing_glue_exceptions = true.
Proof. vm_cast_no_check (eq_refl true). Qed.

Theorem spacing_separates tl tr pr o :
  is_sl_comment tl = false -> is_eof tl = false ->
  gap_fn tl tr pr o = 0 ->
  glue_safe tl tr = true
  \/ (o = 0 /\ reads_orig tl tr pr = true)
  \/ In (tl, tr) spacing_glue_exceptions.
Proof.
  intros Hc He Hz. destruct (gap_zero_cases tl tr pr o Hz) as [H|H].
  - right; left; exact H.
  - destruct (gap_forced_zero_separates tl tr pr Hc He H) as [H'|H'];
      [left; exact H'|right; right; exact H'].
Qed.

(* ================================================================== *)
(* 6. list-level theorems *)

Lemma set_sp_same f : set_sp f (f_sp f) = f.
Proof. destruct f; reflexivity. Qed.

(* outside the exception every count after token 0 is at most 1 (token 0: spacing_first_zero) *)
Theorem spacing_le_1 l i tl fl tr fr :
  nth_error l i = Some (tl, fl) ->
  nth_error l (S i) = Some (tr, fr) ->
  keeps_orig (t_ty tl) (t_ty tr) (prev_real_at l i) = false ->
  exists f', nth_error (token_spacing l) (S i) = Some (tr, f') /\ f_sp f' <= 1.
Proof.
  intros Hl Hr Hk. eexists. split; [exact (spacing_gap_local l i tl fl tr fr Hl Hr)|].
  rewrite f_sp_set_sp. apply gap_le_1. exact Hk.
Qed.

(* inside the exception the token is left exactly as it was *)
Theorem spacing_keeps l i tl fl tr fr :
  nth_error l i = Some (tl, fl) ->
  nth_error l (S i) = Some (tr, fr) ->
  keeps_orig (t_ty tl) (t_ty tr) (prev_real_at l i) = true ->
  nth_error (token_spacing l) (S i) = Some (tr, fr).
Proof.
  intros Hl Hr Hk. rewrite (spacing_gap_local l i tl fl tr fr Hl Hr).
  rewrite (gap_keeps_orig _ _ _ _ Hk), set_sp_same. reflexivity.
Qed.

(* ---------- idempotence (unconditional) ---------- *)

Lemma gaps_idem r : forall pr tl, gaps pr tl (gaps pr tl r) = gaps pr tl r.
Proof.
  induction r as [|q r IH]; intros pr tl; [reflexivity|].
  cbn [gaps]. unfold ty_of at 1 2. cbn [fst snd].
  rewrite f_sp_set_sp, set_sp_set_sp, gap_idem. f_equal. apply IH.
Qed.

Theorem spacing_idempotent l : token_spacing (token_spacing l) = token_spacing l.
Proof.
  destruct l as [|p r]; [reflexivity|].
  rewrite (spacing_closed_form p r). rewrite spacing_closed_form.
  change (ty_of (fst p, set_sp (snd p) 0)) with (ty_of p). cbn [fst snd].
  rewrite set_sp_set_sp, gaps_idem. reflexivity.
Qed.

(* ---------- independence of the original layout ---------- *)

(* r1, r2: same tokens, same flags/newlines/indentations/continuations, and original counts that
   agree as far as the pair can see: exactly at keeps_orig positions, up to min 1 at the other
   reads_orig positions, not at all elsewhere *)
Fixpoint sp_similar (pr : option TokenType) (tl : TokenType) (r1 r2 : list ftoken) : Prop :=
  match r1, r2 with
  | [], [] => True
  | p1 :: r1', p2 :: r2' =>
      fst p1 = fst p2 /\ fmt_nosp (snd p1) = fmt_nosp (snd p2) /\
      orig_equiv tl (ty_of p1) pr (f_sp (snd p1)) (f_sp (snd p2)) /\
      sp_similar (next_prev_real pr tl) (ty_of p1) r1' r2'
  | _, _ => False
  end.

(* the count of the first token is arbitrary *)
Definition layout_similar (l1 l2 : list ftoken) : Prop :=
  match l1, l2 with
  | [], [] => True
  | p1 :: r1, p2 :: r2 =>
      fst p1 = fst p2 /\ fmt_nosp (snd p1) = fmt_nosp (snd p2) /\ sp_similar None (ty_of p1) r1 r2
  | _, _ => False
  end.

Lemma set_sp_ext f1 f2 n : fmt_nosp f1 = fmt_nosp f2 -> set_sp f1 n = set_sp f2 n.
Proof.
  unfold fmt_nosp, set_sp. intros H. injection H as H1 H2 H3 H4. rewrite H1, H2, H3, H4. reflexivity.
Qed.

Lemma gaps_similar r1 : forall r2 pr tl, sp_similar pr tl r1 r2 -> gaps pr tl r1 = gaps pr tl r2.
Proof.
  induction r1 as [|p1 r1 IH]; intros r2 pr tl H; destruct r2 as [|p2 r2]; cbn [sp_similar] in H;
    try contradiction; [reflexivity|].
  destruct H as (Hf & Hn & Ho & Hs). cbn [gaps].
  assert (Hty : ty_of p2 = ty_of p1) by (unfold ty_of; rewrite Hf; reflexivity).
  rewrite Hty, <- Hf, (gap_equiv _ _ _ _ _ Ho), (set_sp_ext _ _ _ Hn), (IH r2 _ _ Hs).
  reflexivity.
Qed.

Theorem spacing_layout_free l1 l2 : layout_similar l1 l2 -> token_spacing l1 = token_spacing l2.
Proof.
  destruct l1 as [|p1 r1], l2 as [|p2 r2]; cbn [layout_similar]; try contradiction; [reflexivity|].
  intros (Hf & Hn & Hs). rewrite !spacing_closed_form.
  assert (Hty : ty_of p2 = ty_of p1) by (unfold ty_of; rewrite Hf; reflexivity).
  rewrite Hty, <- Hf, (set_sp_ext _ _ _ Hn), (gaps_similar _ _ _ _ Hs). reflexivity.
Qed.

(* ---------- separation, on lists ---------- *)

Theorem spacing_separates_list l i tl fl tr fr f' :
  nth_error l i = Some (tl, fl) ->
  nth_error l (S i) = Some (tr, fr) ->
  is_sl_comment (t_ty tl) = false -> is_eof (t_ty tl) = false ->
  nth_error (token_spacing l) (S i) = Some (tr, f') -> f_sp f' = 0 ->
  glue_safe (t_ty tl) (t_ty tr) = true
  \/ (f_sp fr = 0 /\ reads_orig (t_ty tl) (t_ty tr) (prev_real_at l i) = true)
  \/ In (t_ty tl, t_ty tr) spacing_glue_exceptions.
Proof.
  intros Hl Hr Hc He Hn Hz. rewrite (spacing_gap_local l i tl fl tr fr Hl Hr) in Hn.
  injection Hn as Hn. subst f'. rewrite f_sp_set_sp in Hz.
  exact (spacing_separates _ _ _ _ Hc He Hz).
Qed.

(* ================================================================== *)
(* 7. examples (non-vacuity) and refutations of the unconditioned statements *)

Definition mk (nl sp : N) (ty : TokenType) : ftoken := (mkToken [] [] ty, mkFmt false nl 0 0 sp).

(*   x   :=  1 // c
          y  ;  <eof>          (counts deliberately irregular) *)
Definition ex_l : list ftoken :=
  [ mk 0 4 TT_Identifier; mk 0 3 (TT_Op OK_Assign); mk 0 2 (TT_NumberLiteral NK_Decimal);
    mk 0 0 (TT_Comment CoK_InlineLine); mk 1 5 TT_Identifier; mk 0 2 (TT_Op OK_Semicolon);
    mk 0 1 TT_Eof ].

Example ex_l_spacing :
  map (fun p => f_sp (snd p)) (token_spacing ex_l) = [0; 1; 1; 1; 5; 0; 1].
Proof. vm_compute. reflexivity. Qed.

Example ex_gap_local :
  nth_error (token_spacing ex_l) 2 =
  Some (mkToken [] [] (TT_NumberLiteral NK_Decimal),
        set_sp (mkFmt false 0 0 0 2)
          (gap_fn (TT_Op OK_Assign) (TT_NumberLiteral NK_Decimal) (Some TT_Identifier) 2)).
Proof. exact (spacing_gap_local ex_l 1 _ _ _ _ eq_refl eq_refl). Qed.

Example ex_prev_real : prev_real_at ex_l 4 = Some (TT_NumberLiteral NK_Decimal).
Proof. reflexivity. Qed.

(* hypotheses of gap_depends_on_min1 / gap_le_1 / spacing_le_1 are satisfiable ... *)
Example ex_not_keeps : keeps_orig (TT_Op OK_Assign) (TT_NumberLiteral NK_Decimal) (Some TT_Identifier) = false.
Proof. reflexivity. Qed.

(* ... and so are those of gap_keeps_orig / spacing_keeps *)
Example ex_keeps :
  keeps_orig (TT_Comment CoK_InlineLine) TT_Identifier (Some (TT_NumberLiteral NK_Decimal)) = true.
Proof. reflexivity. Qed.

(* without the side condition the bound and the min-1 dependence are false *)
Theorem gap_le_1_refuted : exists tl tr pr o, ~ gap_fn tl tr pr o <= 1.
Proof.
  exists (TT_Comment CoK_InlineLine), TT_Identifier, None, 5. vm_compute. intros H. apply H. reflexivity.
Qed.

Theorem gap_depends_on_min1_refuted :
  exists tl tr pr o, gap_fn tl tr pr o <> gap_fn tl tr pr (N.min 1 o).
Proof. exists (TT_Comment CoK_InlineLine), TT_Identifier, None, 5. vm_compute. discriminate. Qed.

(* the original count leaks through literals: 'a'[1] versus 'a' [1] *)
Theorem layout_leak_witness :
  gap_fn (TT_TextLiteral TK_SingleLine) (TT_Op OK_LBrack) None 0
  <> gap_fn (TT_TextLiteral TK_SingleLine) (TT_Op OK_LBrack) None 1.
Proof. vm_compute. discriminate. Qed.

Example ex_not_read : reads_orig TT_Identifier (TT_Op OK_Plus) None = false.
Proof. reflexivity. Qed.

Example ex_read : reads_orig (TT_NumberLiteral NK_Decimal) (TT_NumberLiteral NK_Decimal) None = true.
Proof. reflexivity. Qed.

(* a differently laid out copy of ex_l: other counts everywhere they are not read, 7 instead of 2
   spaces before Eof (read, but only up to min 1), the same 5 after the `//` comment (kept) *)
Definition ex_l' : list ftoken :=
  [ mk 0 0 TT_Identifier; mk 0 0 (TT_Op OK_Assign); mk 0 9 (TT_NumberLiteral NK_Decimal);
    mk 0 7 (TT_Comment CoK_InlineLine); mk 1 5 TT_Identifier; mk 0 0 (TT_Op OK_Semicolon);
    mk 0 7 TT_Eof ].

Example ex_layout_similar : layout_similar ex_l ex_l'.
Proof. vm_compute. repeat split. Qed.

Example ex_layout_free : token_spacing ex_l = token_spacing ex_l'.
Proof. exact (spacing_layout_free ex_l ex_l' ex_layout_similar). Qed.

(* separation: hypotheses satisfiable with a safe pair, and an exception really occurs *)
Example ex_separates_safe :
  gap_fn TT_Identifier (TT_Op OK_LParen) None 3 = 0 /\ glue_safe TT_Identifier (TT_Op OK_LParen) = true.
Proof. split; reflexivity. Qed.

(* "1 . 5" : both gaps are forced to 0 and the three tokens become the literal 1.5 *)
Example ex_separates_exception :
  gap_fn (TT_Op OK_Dot) (TT_NumberLiteral NK_Decimal) (Some (TT_NumberLiteral NK_Decimal)) 1 = 0
  /\ glue_safe (TT_Op OK_Dot) (TT_NumberLiteral NK_Decimal) = false
  /\ In (TT_Op OK_Dot, TT_NumberLiteral NK_Decimal) spacing_glue_exceptions.
Proof. split; [reflexivity|split; [reflexivity|]]. vm_compute. tauto. Qed.

(* literals on consecutive lines: orig = 0 is read, nothing separates them if the lines are joined *)
Example ex_literal_pair_glued :
  gap_fn (TT_TextLiteral TK_SingleLine) (TT_TextLiteral TK_SingleLine) None 0 = 0
  /\ glue_safe (TT_TextLiteral TK_SingleLine) (TT_TextLiteral TK_SingleLine) = false.
Proof. split; reflexivity. Qed.

Print Assumptions spacing_closed_form.
Print Assumptions spacing_only_sp.
Print Assumptions spacing_gap_local.
Print Assumptions keeps_orig_char.
Print Assumptions reads_orig_char.
Print Assumptions spacing_le_1.
Print Assumptions spacing_separates.
Print Assumptions spacing_idempotent.
Print Assumptions spacing_layout_free.
