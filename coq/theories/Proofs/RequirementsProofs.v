(* Proofs/RequirementsProofs.v — properties of Model/Requirements.v
   (core/src/rules/optimising_line_formatter/requirements.rs: get_formatting_invariant) *)
From PasfmtVerif Require Import Model.Requirements.
Local Open Scope nat_scope.

(* ================================================================== *)
(* 1. reflection over (option TokenType) x (option TokenType) x bool *)

Definition all_optTT : list (option TokenType) := None :: map Some all_TokenType.

Lemma in_all_optTT (x : option TokenType) : In x all_optTT.
Proof.
  destruct x as [t|]; [right; apply in_map; apply TokenType_in_all|left; reflexivity].
Qed.

Definition forall_pcb (P : option TokenType -> option TokenType -> bool -> bool) : bool :=
  forallb (fun p => forallb (fun c => P p c true && P p c false) all_optTT) all_optTT.

Lemma forall_pcb_sound P : forall_pcb P = true -> forall p c b, P p c b = true.
Proof.
  intros H p c b. unfold forall_pcb in H. rewrite forallb_forall in H.
  specialize (H p (in_all_optTT p)). rewrite forallb_forall in H.
  specialize (H c (in_all_optTT c)). apply andb_true_iff in H. destruct H as [Ht Hf].
  destruct b; assumption.
Qed.

Definition dr_eqb (a b : DecisionRequirement) : bool :=
  match a, b with
  | DR_Indifferent, DR_Indifferent | DR_Invalid, DR_Invalid
  | DR_MustBreak, DR_MustBreak | DR_MustNotBreak, DR_MustNotBreak => true
  | _, _ => false
  end.

Definition odr_eqb (a b : option DecisionRequirement) : bool :=
  match a, b with
  | None, None => true
  | Some x, Some y => dr_eqb x y
  | _, _ => false
  end.

Lemma odr_eqb_eq a b : odr_eqb a b = true -> a = b.
Proof. destruct a as [[]|], b as [[]|]; cbn; intros H; try discriminate; reflexivity. Qed.

(* ================================================================== *)
(* 2. the readable characterisation *)

(* previous token after which the line cannot go on: a `//` comment (either kind), a block comment
   that spans several lines, a text literal that runs to the end of its line *)
Definition ends_its_line (p : TokenType) : bool :=
  match p with
  | TT_Comment (CoK_InlineLine | CoK_IndividualLine | CoK_MultilineBlock) => true
  | TT_TextLiteral TK_Unterminated => true
  | _ => false
  end.

(* current token that must start a line: a comment that stood on its own line in the source
   (the Individual kinds), a block comment spanning several lines, a multi-line string literal *)
Definition starts_its_line (c : option TokenType) : bool :=
  match c with
  | Some (TT_Comment (CoK_IndividualLine | CoK_IndividualBlock | CoK_MultilineBlock)) => true
  | Some (TT_TextLiteral TK_MultiLine) => true
  | _ => false
  end.

(* current token that must stay on the line of its predecessor: a comment that followed code on its
   source line *)
Definition trails_its_line (c : option TokenType) : bool :=
  match c with
  | Some (TT_Comment (CoK_InlineLine | CoK_InlineBlock)) => true
  | _ => false
  end.

Definition is_cond_directive (p : TokenType) : bool :=
  match p with TT_ConditionalDirective _ => true | _ => false end.

Definition invariant_spec (prev cur : option TokenType) (cd_outside : bool)
  : option DecisionRequirement :=
  match prev with
  | None => Some DR_MustNotBreak                          (* first token of the file *)
  | Some p =>
      if trails_its_line cur then Some DR_MustNotBreak
      else if starts_its_line cur || ends_its_line p || (is_cond_directive p && cd_outside)
      then Some DR_MustBreak
      else None
  end.

Definition spec_check (p c : option TokenType) (b : bool) : bool :=
  odr_eqb (formatting_invariant p c b) (invariant_spec p c b).

Lemma spec_check_all : forall_pcb spec_check = true.
Proof. vm_cast_no_check (eq_refl true). Qed.

Theorem formatting_invariant_char prev cur cd :
  formatting_invariant prev cur cd = invariant_spec prev cur cd.
Proof. apply odr_eqb_eq. exact (forall_pcb_sound spec_check spec_check_all prev cur cd). Qed.

(* the same, as two equivalences and a range statement *)
Theorem must_not_break_iff prev cur cd :
  formatting_invariant prev cur cd = Some DR_MustNotBreak
  <-> prev = None \/ trails_its_line cur = true.
Proof.
  rewrite formatting_invariant_char. unfold invariant_spec.
  destruct prev as [p|]; [|split; [left; reflexivity|reflexivity]].
  destruct (trails_its_line cur).
  - split; [right; reflexivity|reflexivity].
  - destruct (starts_its_line cur || ends_its_line p || (is_cond_directive p && cd));
      split; try discriminate; intros [H|H]; discriminate.
Qed.

Theorem must_break_iff prev cur cd :
  formatting_invariant prev cur cd = Some DR_MustBreak
  <-> exists p, prev = Some p /\ trails_its_line cur = false
        /\ (starts_its_line cur = true \/ ends_its_line p = true
            \/ (is_cond_directive p = true /\ cd = true)).
Proof.
  rewrite formatting_invariant_char. unfold invariant_spec.
  destruct prev as [p|]; [|split; [discriminate|intros (q & H & _); discriminate]].
  split.
  - intros H. exists p. split; [reflexivity|].
    destruct (trails_its_line cur); [discriminate|]. split; [reflexivity|].
    destruct (starts_its_line cur); [left; reflexivity|].
    destruct (ends_its_line p); [right; left; reflexivity|].
    destruct (is_cond_directive p), cd; cbn in H; try discriminate.
    right; right; split; reflexivity.
  - intros (q & Hq & Ht & Hor). injection Hq as <-. rewrite Ht.
    destruct Hor as [H|[H|[H1 H2]]]; [rewrite H|rewrite H|rewrite H1, H2]; cbn;
      rewrite ?orb_true_r; reflexivity.
Qed.

Theorem free_iff prev cur cd :
  formatting_invariant prev cur cd = None
  <-> exists p, prev = Some p /\ trails_its_line cur = false /\ starts_its_line cur = false
        /\ ends_its_line p = false /\ (is_cond_directive p = false \/ cd = false).
Proof.
  rewrite formatting_invariant_char. unfold invariant_spec.
  destruct prev as [p|]; [|split; [discriminate|intros (q & H & _); discriminate]].
  split.
  - intros H. exists p. split; [reflexivity|].
    destruct (trails_its_line cur); [discriminate|]. split; [reflexivity|].
    destruct (starts_its_line cur); [discriminate|]. split; [reflexivity|].
    destruct (ends_its_line p); [discriminate|]. split; [reflexivity|].
    destruct (is_cond_directive p); [|left; reflexivity].
    destruct cd; [discriminate|right; reflexivity].
  - intros (q & Hq & Ht & Hs & He & Hc). injection Hq as <-. rewrite Ht, Hs, He. cbn [orb].
    destruct Hc as [-> | ->]; [reflexivity|rewrite andb_false_r; reflexivity].
Qed.

(* Indifferent and Invalid are never returned *)
Theorem invariant_range prev cur cd :
  formatting_invariant prev cur cd = None
  \/ formatting_invariant prev cur cd = Some DR_MustBreak
  \/ formatting_invariant prev cur cd = Some DR_MustNotBreak.
Proof.
  rewrite formatting_invariant_char. unfold invariant_spec.
  destruct prev as [p|]; [|right; right; reflexivity].
  destruct (trails_its_line cur); [right; right; reflexivity|].
  destruct (starts_its_line cur || ends_its_line p || (is_cond_directive p && cd));
    [right; left; reflexivity|left; reflexivity].
Qed.

(* the guard is only read behind a conditional directive *)
Theorem cd_flag_irrelevant prev cur cd cd' :
  (forall p, prev = Some p -> is_cond_directive p = false) ->
  formatting_invariant prev cur cd = formatting_invariant prev cur cd'.
Proof.
  intros H. rewrite !formatting_invariant_char. unfold invariant_spec.
  destruct prev as [p|]; [|reflexivity]. rewrite (H p eq_refl). cbn [andb]. reflexivity.
Qed.

(* more guard, more obligations: switching the guard on can only turn None into MustBreak *)
Theorem cd_flag_monotone prev cur :
  formatting_invariant prev cur true = formatting_invariant prev cur false
  \/ (formatting_invariant prev cur false = None
      /\ formatting_invariant prev cur true = Some DR_MustBreak).
Proof.
  rewrite !formatting_invariant_char. unfold invariant_spec.
  destruct prev as [p|]; [|left; reflexivity].
  destruct (trails_its_line cur); [left; reflexivity|].
  destruct (starts_its_line cur); cbn [orb]; [left; reflexivity|].
  destruct (ends_its_line p); cbn [orb]; [left; reflexivity|].
  destruct (is_cond_directive p); cbn [andb]; [right; split; reflexivity|left; reflexivity].
Qed.

(* ================================================================== *)
(* 3. after a `//` comment *)

(* After a `//` comment (InlineLine or IndividualLine) the invariant is MustBreak for EVERY current
   token — Eof and "no token" included — with one exception: a current token typed as a trailing
   comment (InlineLine / InlineBlock), see line_comment_then_trailing_comment below. *)
Theorem break_after_line_comment p cur cd :
  is_sl_comment p = true -> trails_its_line cur = false ->
  formatting_invariant (Some p) cur cd = Some DR_MustBreak.
Proof.
  intros Hp Hc. apply must_break_iff. exists p. repeat split; [exact Hc|].
  destruct (starts_its_line cur); [left; reflexivity|right; left].
  destruct p as [| | | | | | |ck| |]; try discriminate. destruct ck; try discriminate; reflexivity.
Qed.

(* the same for the other tokens that end their line *)
Theorem break_after_line_ender p cur cd :
  ends_its_line p = true -> trails_its_line cur = false ->
  formatting_invariant (Some p) cur cd = Some DR_MustBreak.
Proof.
  intros Hp Hc. apply must_break_iff. exists p. repeat split; [exact Hc|]. right; left. exact Hp.
Qed.

Lemma sl_comment_ends_line p : is_sl_comment p = true -> ends_its_line p = true.
Proof. destruct p as [| | | | | | |ck| |]; try discriminate. destruct ck; try discriminate; reflexivity. Qed.

(* PRIORITY: arm 2 (current token is a trailing comment => MustNotBreak) is tried before arm 4
   (previous token ends its line => MustBreak).  For (`//` comment, trailing comment) the function
   answers MustNotBreak.  The lexer types a comment that follows a `//` comment as an Individual kind (it
   starts a source line), so the pair does not come out of the lexer; nothing in this function
   excludes it. *)
Theorem line_comment_then_trailing_comment p cur cd :
  trails_its_line cur = true ->
  formatting_invariant (Some p) cur cd = Some DR_MustNotBreak.
Proof. intros Hc. apply must_not_break_iff. right. exact Hc. Qed.

Example ex_line_comment_then_trailing_comment :
  formatting_invariant (Some (TT_Comment CoK_InlineLine)) (Some (TT_Comment CoK_InlineBlock)) true
  = Some DR_MustNotBreak.
Proof. reflexivity. Qed.

(* ================================================================== *)
(* 4. conflicts and priorities *)

(* what the MustNotBreak arms (1, 2) match, and what the MustBreak arms (3, 4, 5) match *)
Definition wants_no_break (prev cur : option TokenType) : bool :=
  match prev with None => true | Some _ => trails_its_line cur end.

Definition wants_break (prev cur : option TokenType) (cd : bool) : bool :=
  starts_its_line cur
  || match prev with
     | Some p => ends_its_line p || (is_cond_directive p && cd)
     | None => false
     end.

(* the arms are not disjoint; the MustNotBreak arms come first and win *)
Theorem no_break_wins prev cur cd :
  wants_no_break prev cur = true -> formatting_invariant prev cur cd = Some DR_MustNotBreak.
Proof.
  intros H. apply must_not_break_iff. destruct prev as [p|]; [right; exact H|left; reflexivity].
Qed.

Theorem break_otherwise prev cur cd :
  wants_no_break prev cur = false -> wants_break prev cur cd = true ->
  formatting_invariant prev cur cd = Some DR_MustBreak.
Proof.
  rewrite formatting_invariant_char. unfold wants_no_break, wants_break, invariant_spec.
  destruct prev as [p|]; [|discriminate]. intros -> H.
  rewrite <- orb_assoc. rewrite H. reflexivity.
Qed.

Theorem free_otherwise prev cur cd :
  wants_no_break prev cur = false -> wants_break prev cur cd = false ->
  formatting_invariant prev cur cd = None.
Proof.
  rewrite formatting_invariant_char. unfold wants_no_break, wants_break, invariant_spec.
  destruct prev as [p|]; [|discriminate]. intros -> H.
  rewrite <- orb_assoc. rewrite H. reflexivity.
Qed.

(* exactly where the two groups overlap: (a) the first token of the file is a token that would start
   its line; (b) a trailing comment after a token that ends its line or after a conditional
   directive of another line.  trails_its_line and starts_its_line themselves are disjoint. *)
Theorem conflict_iff prev cur cd :
  wants_no_break prev cur && wants_break prev cur cd = true
  <-> (prev = None /\ starts_its_line cur = true)
      \/ (exists p, prev = Some p /\ trails_its_line cur = true
            /\ (ends_its_line p = true \/ (is_cond_directive p = true /\ cd = true))).
Proof.
  unfold wants_no_break, wants_break. destruct prev as [p|].
  - assert (Hd : trails_its_line cur = true -> starts_its_line cur = false).
    { destruct cur as [[| | | | | | |ck| |]|]; try discriminate. destruct ck; try discriminate; reflexivity. }
    split.
    + intros H. apply andb_true_iff in H. destruct H as [Ht Hb]. right. exists p.
      rewrite (Hd Ht) in Hb. cbn [orb] in Hb. repeat split; [exact Ht|].
      apply orb_true_iff in Hb. destruct Hb as [Hb|Hb]; [left; exact Hb|right].
      apply andb_true_iff in Hb. exact Hb.
    + intros [[H _]|(q & Hq & Ht & Hb)]; [discriminate|]. injection Hq as <-. rewrite Ht. cbn [andb].
      destruct Hb as [Hb|[Hb1 Hb2]]; [rewrite Hb|rewrite Hb1, Hb2]; cbn [andb orb];
        repeat rewrite orb_true_r; reflexivity.
  - cbn [andb]. rewrite orb_false_r. split.
    + intros H. left. split; [reflexivity|exact H].
    + intros [[_ H]|(q & Hq & _)]; [exact H|discriminate].
Qed.

Lemma trails_starts_disjoint cur : trails_its_line cur && starts_its_line cur = false.
Proof. destruct cur as [[| | | | | | |ck| |]|]; try reflexivity. destruct ck; reflexivity. Qed.

(* the first token of the file never breaks, even if it is an own-line comment or a multi-line
   string *)
Theorem first_token_of_file cur cd : formatting_invariant None cur cd = Some DR_MustNotBreak.
Proof. reflexivity. Qed.

(* ================================================================== *)
(* 5. the accessors and the guard *)

Theorem get_formatting_invariant_unfold types line_tokens li ti :
  nth_error line_tokens li = Some ti ->
  get_formatting_invariant types line_tokens li =
  formatting_invariant (match ti with O => None | S q => nth_error types q end)
                       (nth_error types ti) (cd_outside_line line_tokens li).
Proof.
  intros H. unfold get_formatting_invariant, prev_token_type_for_line_index,
    token_type_for_line_index. rewrite H. reflexivity.
Qed.

(* a line_index past the end of the line: MustNotBreak (prev = None) *)
Theorem get_formatting_invariant_no_token types line_tokens li :
  nth_error line_tokens li = None ->
  get_formatting_invariant types line_tokens li = Some DR_MustNotBreak.
Proof.
  intros H. unfold get_formatting_invariant, prev_token_type_for_line_index. rewrite H. reflexivity.
Qed.

(* for the first token of a line the conditional directive in front of it is never "in the line" *)
Theorem cd_outside_first ti r : cd_outside_line (ti :: r) 0 = true.
Proof. reflexivity. Qed.

Theorem cd_outside_later line_tokens k x ti :
  nth_error line_tokens k = Some x -> nth_error line_tokens (S k) = Some ti ->
  cd_outside_line line_tokens (S k) = negb (ti =? S x).
Proof. intros H1 H2. unfold cd_outside_line. rewrite H1, H2. reflexivity. Qed.

(* consequence: the first token of a logical line that directly follows a conditional directive in
   the file must break, unless it is a trailing comment *)
Theorem first_of_line_after_directive types ti r q k :
  ti = S q -> nth_error types q = Some (TT_ConditionalDirective k) ->
  trails_its_line (nth_error types ti) = false ->
  get_formatting_invariant types (ti :: r) 0 = Some DR_MustBreak.
Proof.
  intros -> Hq Ht. rewrite (get_formatting_invariant_unfold types (S q :: r) 0 (S q) eq_refl).
  rewrite Hq. apply must_break_iff. eexists. repeat split; [exact Ht|].
  right; right. split; reflexivity.
Qed.

(* map_can_break applied to an invariant (requirements.rs line 31) *)
Theorem invariant_map_can_break prev cur cd r can_break :
  formatting_invariant prev cur cd = Some r ->
  map_can_break r can_break =
  match r, can_break with DR_MustBreak, false => DR_Invalid | _, _ => r end.
Proof.
  intros H. destruct (invariant_range prev cur cd) as [E|[E|E]]; rewrite E in H;
    [discriminate| |]; injection H as <-; destruct can_break; reflexivity.
Qed.

(* ================================================================== *)
(* 6. the layout checker *)

Lemma plan_go_spec l : forall prev,
  plan_go prev l = true <->
  (forall i ty brk cd, nth_error l i = Some (ty, brk, cd) ->
     respects (formatting_invariant
                 (match i with O => prev | S j => option_map (fun x => fst (fst x)) (nth_error l j) end)
                 (Some ty) cd) brk = true).
Proof.
  induction l as [|[[ty0 brk0] cd0] r IH]; intros prev.
  - split; [intros _ i ty brk cd H; destruct i; discriminate|reflexivity].
  - cbn [plan_go]. rewrite andb_true_iff, IH. split.
    + intros [H0 Hr] i ty brk cd Hi. destruct i as [|i].
      * cbn in Hi. injection Hi as <- <- <-. exact H0.
      * cbn [nth_error] in Hi. specialize (Hr i ty brk cd Hi).
        destruct i as [|i]; [exact Hr|]. exact Hr.
    + intros H. split.
      * exact (H 0 ty0 brk0 cd0 eq_refl).
      * intros i ty brk cd Hi. specialize (H (S i) ty brk cd Hi).
        destruct i as [|i]; exact H.
Qed.

(* plan_respects_invariants_flags l holds iff every token's break flag agrees with the invariant
   computed from the token before it in the file *)
Theorem plan_respects_flags_spec l :
  plan_respects_invariants_flags l = true <->
  (forall i ty brk cd, nth_error l i = Some (ty, brk, cd) ->
     respects (formatting_invariant
                 (match i with O => None | S j => option_map (fun x => fst (fst x)) (nth_error l j) end)
                 (Some ty) cd) brk = true).
Proof. apply plan_go_spec. Qed.

Theorem plan_respects_spec cd l :
  plan_respects_invariants cd l = true <->
  (forall i ty brk, nth_error l i = Some (ty, brk) ->
     respects (formatting_invariant
                 (match i with O => None | S j => option_map fst (nth_error l j) end)
                 (Some ty) cd) brk = true).
Proof.
  unfold plan_respects_invariants. rewrite plan_go_spec. split.
  - intros H i ty brk Hi.
    specialize (H i ty brk cd). rewrite nth_error_map, Hi in H. specialize (H eq_refl).
    destruct i as [|i]; [exact H|]. rewrite nth_error_map in H.
    destruct (nth_error l i) as [[a b]|]; exact H.
  - intros H i ty brk cd' Hi. rewrite nth_error_map in Hi.
    destruct (nth_error l i) as [[a b]|] eqn:E; [|discriminate]. cbn in Hi. injection Hi as <- <- <-.
    specialize (H i a b E). destruct i as [|i]; [exact H|]. rewrite nth_error_map.
    destruct (nth_error l i) as [[a' b']|]; exact H.
Qed.

Lemma respects_cd_monotone prev cur brk :
  respects (formatting_invariant prev cur true) brk = true ->
  respects (formatting_invariant prev cur false) brk = true.
Proof.
  destruct (cd_flag_monotone prev cur) as [->|[-> _]]; [trivial|reflexivity].
Qed.

Lemma plan_go_cd_monotone l : forall prev,
  plan_go prev (map (fun p => (fst p, snd p, true)) l) = true ->
  plan_go prev (map (fun p => (fst p, snd p, false)) l) = true.
Proof.
  induction l as [|[ty brk] r IH]; intros prev; [reflexivity|]. cbn [map plan_go fst snd].
  rewrite !andb_true_iff. intros [H1 H2]. split; [apply respects_cd_monotone; exact H1|apply IH; exact H2].
Qed.

(* the check with the guard on is the stronger one *)
Theorem plan_respects_cd_monotone l :
  plan_respects_invariants true l = true -> plan_respects_invariants false l = true.
Proof. apply plan_go_cd_monotone. Qed.

Lemma plan_violations_nil cd l : forall i prev,
  plan_violations cd i prev l = [] <-> plan_go prev (map (fun p => (fst p, snd p, cd)) l) = true.
Proof.
  induction l as [|[ty brk] r IH]; intros i prev; [split; reflexivity|].
  cbn [plan_violations map plan_go fst snd]. rewrite andb_true_iff, <- (IH (S i) (Some ty)).
  destruct (respects (formatting_invariant prev (Some ty) cd) brk); cbn [app].
  - split; [intros H; split; [reflexivity|exact H]|intros [_ H]; exact H].
  - split; [discriminate|intros [H _]; discriminate].
Qed.

Theorem plan_violations_nil_iff cd l :
  plan_violations cd 0 None l = [] <-> plan_respects_invariants cd l = true.
Proof. apply plan_violations_nil. Qed.

(* what an accepted layout guarantees *)

(* no break before the first token *)
Theorem plan_first_token cd ty brk r :
  plan_respects_invariants cd ((ty, brk) :: r) = true -> brk = false.
Proof.
  intros H. rewrite plan_respects_spec in H. specialize (H 0 ty brk eq_refl).
  cbn in H. apply negb_true_iff in H. exact H.
Qed.

(* whatever follows a `//` comment is on a new line — code is never absorbed into the comment —
   unless it is typed as a trailing comment *)
Theorem plan_break_after_line_comment cd l i p bp ty brk :
  plan_respects_invariants cd l = true ->
  nth_error l i = Some (p, bp) -> nth_error l (S i) = Some (ty, brk) ->
  is_sl_comment p = true -> trails_its_line (Some ty) = false ->
  brk = true.
Proof.
  intros H Hp Hc Hsl Ht. rewrite plan_respects_spec in H. specialize (H (S i) ty brk Hc).
  cbv beta iota in H. rewrite Hp in H. cbn [option_map fst] in H.
  rewrite (break_after_line_comment p (Some ty) cd Hsl Ht) in H. exact H.
Qed.

(* a trailing comment stays on the line of its predecessor *)
Theorem plan_trailing_comment_stays cd l i ty brk :
  plan_respects_invariants cd l = true ->
  nth_error l i = Some (ty, brk) -> trails_its_line (Some ty) = true -> brk = false.
Proof.
  intros H Hc Ht. rewrite plan_respects_spec in H. specialize (H i ty brk Hc).
  assert (E : forall prev, formatting_invariant prev (Some ty) cd = Some DR_MustNotBreak).
  { intros prev. apply must_not_break_iff. right. exact Ht. }
  rewrite E in H. apply negb_true_iff in H. exact H.
Qed.

(* own-line comments and multi-line strings start a line (except as the first token of the file) *)
Theorem plan_own_line_token_breaks cd l i ty brk :
  plan_respects_invariants cd l = true ->
  nth_error l (S i) = Some (ty, brk) -> starts_its_line (Some ty) = true -> brk = true.
Proof.
  intros H Hc Hs. rewrite plan_respects_spec in H. specialize (H (S i) ty brk Hc).
  cbv beta iota in H. destruct (nth_error l i) as [[p bp]|] eqn:Ep.
  - cbn [option_map fst] in H.
    assert (E : formatting_invariant (Some p) (Some ty) cd = Some DR_MustBreak).
    { apply must_break_iff. exists p. repeat split; [|left; exact Hs].
      pose proof (trails_starts_disjoint (Some ty)) as D. rewrite Hs, andb_true_r in D. exact D. }
    rewrite E in H. exact H.
  - apply nth_error_None in Ep.
    assert (S i < length l) by (apply nth_error_Some; rewrite Hc; discriminate). lia.
Qed.

(* ---------- the line-aware checker ---------- *)

Lemma flat_map_nil {A B : Type} (f : A -> list B) l :
  flat_map f l = [] <-> (forall x, In x l -> f x = []).
Proof.
  induction l as [|a r IH]; cbn [flat_map].
  - split; [intros _ x []|reflexivity].
  - split.
    + intros H. apply app_eq_nil in H. destruct H as [Ha Hr]. intros x [<-|Hx]; [exact Ha|].
      apply IH; assumption.
    + intros H. rewrite (H a (or_introl eq_refl)). cbn [app]. apply IH. intros x Hx. apply H.
      right. exact Hx.
Qed.

(* lines_respect_invariants holds iff, for every logical line and every line_index, the break flag
   of that token agrees with get_formatting_invariant(line_index, line) *)
Theorem lines_respect_spec types brks lines :
  lines_respect_invariants types brks lines = true <->
  (forall line li ti, In line lines -> nth_error line li = Some ti ->
     respects (get_formatting_invariant types line li) (nth ti brks false) = true).
Proof.
  unfold lines_respect_invariants.
  assert (E : (match lines_violations types brks lines with [] => true | _ => false end) = true
              <-> lines_violations types brks lines = []).
  { destruct (lines_violations types brks lines); split; try reflexivity; discriminate. }
  rewrite E. unfold lines_violations. rewrite flat_map_nil. split.
  - intros H line li ti Hl Hi. specialize (H line Hl). unfold line_violations in H.
    rewrite flat_map_nil in H. specialize (H li).
    assert (Hin : In li (seq 0 (length line))).
    { apply in_seq. split; [lia|]. cbn. apply nth_error_Some. rewrite Hi. discriminate. }
    specialize (H Hin). rewrite Hi in H.
    destruct (respects (get_formatting_invariant types line li) (nth ti brks false));
      [reflexivity|discriminate].
  - intros H line Hl. unfold line_violations. rewrite flat_map_nil. intros li _.
    destruct (nth_error line li) as [ti|] eqn:Hi; [|reflexivity].
    rewrite (H line li ti Hl Hi). reflexivity.
Qed.

(* ================================================================== *)
(* 7. examples (non-vacuity) *)

(*   x := 1; // c
     {own}
     y;            token types and break flags as the formatter leaves them *)
Definition ex_plan : list (TokenType * bool) :=
  [ (TT_Identifier, false); (TT_Op OK_Assign, false); (TT_NumberLiteral NK_Decimal, false);
    (TT_Op OK_Semicolon, false); (TT_Comment CoK_InlineLine, false);
    (TT_Comment CoK_IndividualBlock, true); (TT_Identifier, true); (TT_Op OK_Semicolon, false);
    (TT_Eof, true) ].

Example ex_plan_ok : plan_respects_invariants true ex_plan = true.
Proof. reflexivity. Qed.

(* a bad layout of the same tokens: a break in front of the trailing `//` comment (position 4,
   MustNotBreak) and none after it (position 5, MustBreak) *)
Definition ex_plan_bad : list (TokenType * bool) :=
  [ (TT_Identifier, false); (TT_Op OK_Assign, false); (TT_NumberLiteral NK_Decimal, false);
    (TT_Op OK_Semicolon, false); (TT_Comment CoK_InlineLine, true);
    (TT_Comment CoK_IndividualBlock, false); (TT_Identifier, false); (TT_Op OK_Semicolon, false);
    (TT_Eof, false) ].

Example ex_plan_bad_violations : plan_violations false 0 None ex_plan_bad = [4; 5].
Proof. reflexivity. Qed.

Example ex_break_after_line_comment_hyp :
  is_sl_comment (TT_Comment CoK_InlineLine) = true /\ trails_its_line (Some TT_Eof) = false
  /\ formatting_invariant (Some (TT_Comment CoK_InlineLine)) (Some TT_Eof) false = Some DR_MustBreak.
Proof. repeat split. Qed.

Example ex_plan_break_after_line_comment_hyp :
  nth_error ex_plan 4 = Some (TT_Comment CoK_InlineLine, false)
  /\ nth_error ex_plan 5 = Some (TT_Comment CoK_IndividualBlock, true)
  /\ trails_its_line (Some (TT_Comment CoK_IndividualBlock)) = false.
Proof. repeat split. Qed.

Example ex_conflict_first_token :
  wants_no_break None (Some (TT_Comment CoK_IndividualLine))
  && wants_break None (Some (TT_Comment CoK_IndividualLine)) false = true
  /\ formatting_invariant None (Some (TT_Comment CoK_IndividualLine)) false = Some DR_MustNotBreak.
Proof. split; reflexivity. Qed.

Example ex_free :
  formatting_invariant (Some TT_Identifier) (Some (TT_Op OK_Plus)) true = None.
Proof. reflexivity. Qed.

Example ex_cd_flag_matters :
  formatting_invariant (Some (TT_ConditionalDirective CDK_Endif)) (Some TT_Identifier) true
    = Some DR_MustBreak
  /\ formatting_invariant (Some (TT_ConditionalDirective CDK_Endif)) (Some TT_Identifier) false = None.
Proof. split; reflexivity. Qed.

(* A({$ifdef X} B {$endif}, C): one logical line [0..8]; `B` (token 3) follows the directive inside the
   line: free.  With the directive in another line (line = [0;1;3;...]) it must break. *)
Definition ex_types : list TokenType :=
  [ TT_Identifier; TT_Op OK_LParen; TT_ConditionalDirective CDK_Ifdef; TT_Identifier;
    TT_ConditionalDirective CDK_Endif; TT_Op OK_Comma; TT_Identifier; TT_Op OK_RParen; TT_Eof ].

Example ex_directive_in_line :
  get_formatting_invariant ex_types [0; 1; 2; 3; 4; 5; 6; 7] 3 = None.
Proof. reflexivity. Qed.

Example ex_directive_outside_line :
  get_formatting_invariant ex_types [0; 1; 3; 5; 6; 7] 2 = Some DR_MustBreak.
Proof. reflexivity. Qed.

Example ex_first_of_line_after_directive_hyp :
  nth_error ex_types 2 = Some (TT_ConditionalDirective CDK_Ifdef)
  /\ trails_its_line (nth_error ex_types 3) = false
  /\ get_formatting_invariant ex_types [3] 0 = Some DR_MustBreak.
Proof. repeat split. Qed.

Example ex_lines_respect :
  lines_respect_invariants ex_types [false; false; false; false; false; false; false; false; true]
    [[0; 1; 2; 3; 4; 5; 6; 7]; [8]] = true.
Proof. reflexivity. Qed.

Example ex_cd_flag_irrelevant_hyp :
  forall p, Some TT_Identifier = Some p -> is_cond_directive p = false.
Proof. intros p H. injection H as <-. reflexivity. Qed.

Print Assumptions formatting_invariant_char.
Print Assumptions must_break_iff.
Print Assumptions must_not_break_iff.
Print Assumptions break_after_line_comment.
Print Assumptions conflict_iff.
Print Assumptions plan_respects_spec.
Print Assumptions plan_break_after_line_comment.
Print Assumptions lines_respect_spec.

Example ex_cd_outside_later_hyp :
  nth_error [0; 1; 3; 5] 1 = Some 1 /\ nth_error [0; 1; 3; 5] 2 = Some 3
  /\ cd_outside_line [0; 1; 3; 5] 2 = true /\ cd_outside_line [0; 1; 3; 5] 1 = false.
Proof. repeat split. Qed.

Example ex_no_token_hyp :
  nth_error [0; 1] 2 = None /\ get_formatting_invariant ex_types [0; 1] 2 = Some DR_MustNotBreak.
Proof. split; reflexivity. Qed.

Example ex_map_can_break_hyp :
  formatting_invariant (Some (TT_Comment CoK_InlineLine)) (Some TT_Identifier) false = Some DR_MustBreak
  /\ map_can_break DR_MustBreak false = DR_Invalid.
Proof. split; reflexivity. Qed.

Example ex_plan_own_line_hyp :
  nth_error ex_plan 5 = Some (TT_Comment CoK_IndividualBlock, true)
  /\ starts_its_line (Some (TT_Comment CoK_IndividualBlock)) = true.
Proof. split; reflexivity. Qed.

Example ex_plan_trailing_hyp :
  nth_error ex_plan 4 = Some (TT_Comment CoK_InlineLine, false)
  /\ trails_its_line (Some (TT_Comment CoK_InlineLine)) = true.
Proof. split; reflexivity. Qed.
