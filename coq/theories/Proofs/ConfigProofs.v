From Coq Require Import String.
From PasfmtVerif Require Import Model.Config.

(* ancestors-or-self of a directory, deepest first, as reversed component lists *)
Fixpoint suffixes {A} (l : list A) : list (list A) :=
  match l with [] => [[]] | _ :: t => l :: suffixes t end.

Lemma find_config_rev_spec has_file r :
  match find_config_rev has_file r with
  | Some d => exists up, In up (suffixes r) /\ d = rev up /\ has_file d = true
              /\ (forall up', In up' (suffixes r) -> (length up < length up')%nat -> has_file (rev up') = false)
  | None => forall up, In up (suffixes r) -> has_file (rev up) = false
  end.
Proof.
  induction r as [|c up IH]; cbn [find_config_rev].
  - destruct (has_file (rev [])) eqn:E.
    + exists []. repeat split; auto. cbn. auto. intros up' [<-|[]] H. cbn in H. lia.
    + intros up [<-|[]]. exact E.
  - destruct (has_file (rev (c :: up))) eqn:E.
    + exists (c :: up). repeat split; auto.
      * cbn. auto.
      * intros up' Hin Hlen. exfalso.
        assert (Hl : forall (l : list string) x, In x (suffixes l) -> (length x <= length l)%nat).
        { induction l as [|a l IHl]; cbn; intros x [<-|H]; cbn; try lia; try contradiction. specialize (IHl x H). lia. }
        apply Hl in Hin. lia.
    + destruct (find_config_rev has_file up) as [d|] eqn:F.
      * destruct IH as (u & Hin & -> & Hd & Hmin). exists u. repeat split; auto.
        -- cbn. right. exact Hin.
        -- intros up' [<-|Hin'] Hlen; [exact E|]. apply Hmin; assumption.
      * intros x [<-|Hin]; [exact E|apply IH, Hin].
Qed.

(* find_config_file returns the DEEPEST ancestor-or-self directory that contains pasfmt.toml, and
   None iff none does *)
Theorem find_config_nearest has_file d :
  match find_config_file has_file d with
  | Some f => exists up, In up (suffixes (rev d)) /\ f = rev up /\ has_file f = true
              /\ (forall up', In up' (suffixes (rev d)) -> (length up < length up')%nat -> has_file (rev up') = false)
  | None => forall up, In up (suffixes (rev d)) -> has_file (rev up) = false
  end.
Proof. unfold find_config_file. apply find_config_rev_spec. Qed.

(* the search makes at most depth + 1 probes *)
Theorem find_config_probes has_file d : (1 <= probes_rev has_file (rev d) <= S (length d))%nat.
Proof.
  rewrite <- (rev_length d). generalize (rev d). intros r.
  induction r as [|c up IH]; cbn [probes_rev length]; destruct (has_file _); lia.
Qed.

Section Layering.
  Variable key value : Type.
  Variable key_eqb : key -> key -> bool.
  Hypothesis key_eqb_spec : forall a b, key_eqb a b = true <-> a = b.

  Lemma key_eqb_refl a : key_eqb a a = true.
  Proof. apply key_eqb_spec. reflexivity. Qed.

  (* precedence: a -C override beats the file, the file beats the defaults *)
  Theorem effective_override defaults file ovs k v pre post :
    ovs = pre ++ (k, v) :: post -> (forall v', ~ In (k, v') post) ->
    effective key value key_eqb defaults file ovs k = v.
  Proof.
    intros -> Hpost. unfold effective, last_override.
    rewrite rev_app_distr. cbn [rev]. rewrite <- app_assoc. cbn [app].
    assert (L : forall l rest, (forall v', ~ In (k, v') l) -> lookup key value key_eqb k (rev l ++ rest) = lookup key value key_eqb k rest).
    { induction l as [|[k' v'] l IHl]; intros rest H; [reflexivity|].
      cbn [rev]. rewrite <- app_assoc. rewrite IHl by (intros x Hx; apply (H x); right; exact Hx).
      cbn [app lookup]. destruct (key_eqb k k') eqn:E; [|reflexivity].
      apply key_eqb_spec in E. subst k'. exfalso. apply (H v'). left. reflexivity. }
    rewrite L by exact Hpost. cbn [lookup]. rewrite key_eqb_refl. reflexivity.
  Qed.

  Lemma lookup_none k l : (forall v, ~ In (k, v) l) -> lookup key value key_eqb k l = None.
  Proof.
    induction l as [|[k' v'] l IH]; intros H; [reflexivity|]. cbn [lookup].
    destruct (key_eqb k k') eqn:E.
    - apply key_eqb_spec in E. subst k'. exfalso. apply (H v'). left. reflexivity.
    - apply IH. intros v Hv. apply (H v). right. exact Hv.
  Qed.

  Theorem effective_file defaults f ovs k v :
    (forall v', ~ In (k, v') ovs) -> lookup key value key_eqb k f = Some v ->
    effective key value key_eqb defaults (Some f) ovs k = v.
  Proof.
    intros Ho Hf. unfold effective, last_override.
    rewrite lookup_none by (intros x Hx; apply (Ho x), in_rev; exact Hx). rewrite Hf. reflexivity.
  Qed.

  Theorem effective_default defaults file ovs k :
    (forall v', ~ In (k, v') ovs) ->
    (match file with Some f => lookup key value key_eqb k f = None | None => True end) ->
    effective key value key_eqb defaults file ovs k = defaults k.
  Proof.
    intros Ho Hf. unfold effective, last_override.
    rewrite lookup_none by (intros x Hx; apply (Ho x), in_rev; exact Hx).
    destruct file as [f|]; [rewrite Hf|]; reflexivity.
  Qed.

End Layering.

(* mode defaults: stdin => stdout, paths => files; files + stdin is rejected *)
Theorem mode_defaults : effective_mode None true = MStdout /\ effective_mode None false = MFiles.
Proof. split; reflexivity. Qed.

Theorem files_with_stdin_rejected explicit : validate explicit true = false <-> explicit = Some MFiles.
Proof.
  unfold validate, effective_mode. destruct explicit as [[| |]|]; cbn; split; intros H; try reflexivity; try discriminate.
Qed.

Theorem option_file_wins has_file p cwd : config_source has_file true (Some p) cwd = FromOption p.
Proof. reflexivity. Qed.

Theorem missing_option_file_is_error has_file p cwd : config_source has_file false (Some p) cwd = MissingOptionFile.
Proof. reflexivity. Qed.

Example nearest_example :
  find_config_file (fun d => match d with ["a"%string] => true | ["a"; "b"; "c"]%string => true | _ => false end)
                   ["a"; "b"; "c"; "d"]%string = Some ["a"; "b"; "c"]%string.
Proof. reflexivity. Qed.
