(* Proofs/CursorProofs.v — theorems about Model/Cursor.v (cursor tracking, C15) *)
From PasfmtVerif Require Import Model.Cursor Proofs.ReconstructProofs.

(* ------------------------------------------------------------------ *)
(* lengths *)

Lemma blen_nil : blen [] = 0. Proof. reflexivity. Qed.

Lemma blen_cons b l : blen (b :: l) = 1 + blen l.
Proof. unfold blen. cbn [length]. lia. Qed.

Lemma blen_app a b : blen (a ++ b) = blen a + blen b.
Proof. unfold blen. rewrite app_length. lia. Qed.

Lemma blen_nrepeat n s : blen (nrepeat n s) = n * blen s.
Proof. unfold blen, nrepeat. rewrite repeat_app_length. lia. Qed.

Lemma blen_firstn_skipn k l : blen (firstn k l) + blen (skipn k l) = blen l.
Proof. rewrite <- blen_app, firstn_skipn. reflexivity. Qed.

(* ------------------------------------------------------------------ *)
(* narrowing casts are the identity on small values *)

Lemma u16_small n : n < 65536 -> u16 n = n.
Proof. intros H. unfold u16. apply N.mod_small, H. Qed.

Lemma u32_small n : n < 4294967296 -> u32 n = n.
Proof. intros H. unfold u32. apply N.mod_small, H. Qed.

Lemma u32_le n : u32 n <= n.
Proof. unfold u32. apply N.mod_le. discriminate. Qed.

Lemma u32z_small z : (0 <= z < 4294967296)%Z -> u32z z = Z.to_N z.
Proof. intros H. unfold u32z. rewrite Z.mod_small by exact H. reflexivity. Qed.

Lemma u32z_of_N n : n < 4294967296 -> u32z (Z.of_N n) = n.
Proof. intros H. rewrite u32z_small by lia. apply N2Z.id. Qed.

(* ------------------------------------------------------------------ *)
(* LF searching *)

Lemma rfind_lf_lt l p : rfind_lf l = Some p -> p + 1 <= blen l.
Proof.
  revert p. induction l as [|b t IH]; intros p H; cbn [rfind_lf] in H; [discriminate|].
  rewrite blen_cons. destruct (rfind_lf t) as [q|].
  - injection H as <-. specialize (IH q eq_refl). lia.
  - destruct (b =? 10); [injection H as <-; lia|discriminate].
Qed.

Lemma count_lf_le l : count_lf l <= blen l.
Proof.
  induction l as [|b t IH]; [cbn; lia|]. cbn [count_lf]. rewrite blen_cons.
  destruct (b =? 10); lia.
Qed.

Lemma first_line_len_le l : first_line_len l <= blen l.
Proof.
  induction l as [|b t IH]; [cbn; lia|]. cbn [first_line_len]. rewrite blen_cons.
  destruct (b =? 10); lia.
Qed.

Lemma rfind_lf_none_count l : rfind_lf l = None -> count_lf l = 0.
Proof.
  induction l as [|b t IH]; [reflexivity|]. cbn [rfind_lf count_lf].
  destruct (rfind_lf t) as [q|]; [discriminate|]. destruct (b =? 10); [discriminate|].
  intros _. rewrite IH by reflexivity. reflexivity.
Qed.

(* ------------------------------------------------------------------ *)
(* character boundaries: str::is_char_boundary and the downward search of commit 06ea4f6 *)

Lemma is_char_boundary_0 l : is_char_boundary l 0 = true.
Proof. reflexivity. Qed.

(* Rust: is_char_boundary(len) = true, is_char_boundary(i) = false for i > len *)
Lemma is_char_boundary_len (l : list N) : is_char_boundary l (length l) = true.
Proof.
  unfold is_char_boundary. destruct (length l) as [|n] eqn:E; [reflexivity|]. rewrite <- E.
  destruct (nth_error l (length l)) as [b|] eqn:En.
  - assert (H : nth_error l (length l) <> None) by congruence. apply nth_error_Some in H. lia.
  - apply Nat.eqb_refl.
Qed.

Lemma is_char_boundary_beyond (l : list N) k : (length l < k)%nat -> is_char_boundary l k = false.
Proof.
  intros H. unfold is_char_boundary. destruct k as [|k']; [lia|].
  destruct (nth_error l (S k')) as [b|] eqn:En.
  - assert (H' : nth_error l (S k') <> None) by congruence. apply nth_error_Some in H'. lia.
  - apply Nat.eqb_neq. lia.
Qed.

(* the loop ends on a boundary at or below its start; it never has to decrement 0 *)
Lemma floor_char_boundary_spec (l : list N) k :
  (floor_char_boundary l k <= k)%nat /\ is_char_boundary l (floor_char_boundary l k) = true.
Proof.
  induction k as [|k IH]; cbn [floor_char_boundary].
  - rewrite is_char_boundary_0. split; [lia|reflexivity].
  - destruct (is_char_boundary l (S k)) eqn:E; [split; [lia|exact E]|].
    destruct IH as [IH1 IH2]. split; [lia|exact IH2].
Qed.

Lemma floor_char_boundary_id (l : list N) k :
  is_char_boundary l k = true -> floor_char_boundary l k = k.
Proof. intros H. destruct k; cbn [floor_char_boundary]; rewrite H; reflexivity. Qed.

(* every `offset -= 1` of the loop yields a non-negative value *)
Lemma floor_subs_nonneg (l : list N) k : Forall (fun z => (0 <= z)%Z) (floor_subs l k).
Proof.
  induction k as [|k IH]; cbn [floor_subs].
  - rewrite is_char_boundary_0. constructor.
  - destruct (is_char_boundary l (S k)); [constructor|]. constructor; [cbv beta; lia|exact IH].
Qed.

(* nothing between the result and the start is a boundary: the result is the GREATEST boundary
   <= k (Rust's str::floor_char_boundary) *)
Lemma floor_char_boundary_greatest (l : list N) k j :
  (floor_char_boundary l k < j <= k)%nat -> is_char_boundary l j = false.
Proof.
  induction k as [|k IH]; cbn [floor_char_boundary]; [rewrite is_char_boundary_0; lia|].
  destruct (is_char_boundary l (S k)) eqn:E; [lia|]. intros H.
  destruct (Nat.eq_dec j (S k)) as [->|Hne]; [exact E|]. apply IH. lia.
Qed.

(* ------------------------------------------------------------------ *)
(* ws_len versus the whitespace reconstruct really emits *)

(* the safety net of `reconstruct` fires in front of this token (Model/Reconstruct.emit_ws) *)
Definition net_fires (mb : bool) (p : ftoken) : bool :=
  let (tok, f) := p in
  if f_ignored f then mb && negb (has_break (t_ws tok)) && negb (is_eof (t_ty tok))
  else mb && (f_nl f =? 0) && negb (is_eof (t_ty tok)).

(* no safety-net newline anywhere in l (mb = the token before l was a `//` comment).  Since
   commit 65fa795 no theorem below needs it any more; kept for reference. *)
Fixpoint net_free (mb : bool) (l : list ftoken) : bool :=
  match l with
  | [] => true
  | p :: r => negb (net_fires mb p) && net_free (is_sl_comment (t_ty (fst p))) r
  end.

Lemma net_fires_false_mb p : net_fires false p = false.
Proof. destruct p as [tok f]. unfold net_fires. destruct (f_ignored f); reflexivity. Qed.

(* the condition inlined in Model/Reconstruct.emit_ws is `must_break && lacks_line_break` *)
Lemma net_fires_lacks mb p : net_fires mb p = mb && lacks_line_break p.
Proof.
  destruct p as [tok f]. unfold net_fires, lacks_line_break.
  destruct (is_eof (t_ty tok)), (f_ignored f), mb; cbn [andb negb]; try reflexivity;
    rewrite ?andb_true_r, ?andb_false_r; reflexivity.
Qed.

Lemma ws_len_unfold_fmt rs tok f :
  f_ignored f = false ->
  ws_len rs (tok, f) =
  f_sp f + f_cont f * blen (rs_cont rs) + f_ind f * blen (rs_indent rs) + f_nl f * nl_len rs.
Proof. intros H. unfold ws_len, nonbreaking_ws_len. rewrite H. reflexivity. Qed.

(* the whitespace proper: what ws_len measures *)
Definition ws_part (rs : rsettings) (p : ftoken) : bytes :=
  let (tok, f) := p in
  if f_ignored f then t_ws tok
  else nrepeat (f_nl f) (rs_newline rs) ++ nrepeat (f_ind f) (rs_indent rs)
       ++ nrepeat (f_cont f) (rs_cont rs) ++ nrepeat (f_sp f) [32].
(* the added line break: what net_len measures *)
Definition net_part (rs : rsettings) (mb : bool) (p : ftoken) : bytes :=
  if mb && lacks_line_break p then rs_newline rs else [].

(* reconstruct as refactored by 65fa795 (push the newline, then the whitespace) is the
   emit_ws of Model/Reconstruct.v *)
Lemma emit_ws_split rs mb p : emit_ws rs mb p = net_part rs mb p ++ ws_part rs p.
Proof.
  unfold net_part. rewrite <- net_fires_lacks.
  destruct p as [tok f]. unfold emit_ws, net_fires, ws_part. destruct (f_ignored f); [reflexivity|].
  destruct (mb && (f_nl f =? 0) && negb (is_eof (t_ty tok))) eqn:E; [|reflexivity].
  apply andb_true_iff in E. destruct E as [E _]. apply andb_true_iff in E. destruct E as [_ E].
  apply N.eqb_eq in E. rewrite E.
  change (nrepeat 1 (rs_newline rs)) with (rs_newline rs ++ []).
  change (nrepeat 0 (rs_newline rs)) with (@nil N).
  rewrite app_nil_r. reflexivity.
Qed.

Lemma ws_part_len rs p : blen (ws_part rs p) = ws_len rs p.
Proof.
  destruct p as [tok f]. unfold ws_part. destruct (f_ignored f) eqn:Hi.
  - unfold ws_len. rewrite Hi. reflexivity.
  - rewrite ws_len_unfold_fmt by exact Hi. rewrite !blen_app, !blen_nrepeat. unfold nl_len.
    change (blen [32]) with 1. lia.
Qed.

Lemma net_part_len rs mb p : blen (net_part rs mb p) = net_len rs mb p.
Proof. unfold net_part, net_len, nl_len. destruct (mb && lacks_line_break p); reflexivity. Qed.

(* unconditional: the emitted whitespace is the (possibly empty) added line break plus ws_len *)
Lemma emit_ws_len rs mb p : blen (emit_ws rs mb p) = net_len rs mb p + ws_len rs p.
Proof. rewrite emit_ws_split, blen_app, net_part_len, ws_part_len. reflexivity. Qed.

Lemma emit_ws_len_no_net rs mb p :
  net_fires mb p = false -> blen (emit_ws rs mb p) = ws_len rs p.
Proof. intros H. rewrite emit_ws_len. unfold net_len. rewrite <- net_fires_lacks, H. lia. Qed.

Lemma emit_ws_len_net rs mb p :
  net_fires mb p = true -> blen (emit_ws rs mb p) = ws_len rs p + nl_len rs.
Proof. intros H. rewrite emit_ws_len. unfold net_len. rewrite <- net_fires_lacks, H. lia. Qed.

Lemma ws_len_le_emit rs mb p : ws_len rs p <= blen (emit_ws rs mb p).
Proof. rewrite emit_ws_len. lia. Qed.

(* ------------------------------------------------------------------ *)
(* offset_for_token *)

Lemma offset_from_cons rs mb p r i :
  offset_from rs mb (p :: r) i =
  net_len rs mb p + ws_len rs p +
  match i with O => 0 | S j => blen (t_content (fst p)) + offset_from rs (is_sl_comment (t_ty (fst p))) r j end.
Proof. reflexivity. Qed.

Lemma mb_after_cons mb q l : mb_after mb (q :: l) = mb_after (is_sl_comment (t_ty (fst q))) l.
Proof.
  unfold mb_after. cbn [rev]. destruct (rev l) as [|a t] eqn:E; reflexivity.
Qed.

(* the general form, for any initial must_break *)
Lemma offset_for_token_correct_gen rs toks : forall mb i p,
  nth_error toks i = Some p ->
  exists pre post,
    recon rs mb toks = pre ++ t_content (fst p) ++ post /\
    blen pre = offset_from rs mb toks i /\
    pre = recon rs mb (firstn i toks) ++ emit_ws rs (mb_after mb (firstn i toks)) p /\
    post = recon rs (is_sl_comment (t_ty (fst p))) (skipn (S i) toks).
Proof.
  induction toks as [|q r IH]; intros mb i p Hn; [destruct i; discriminate|].
  destruct i as [|j].
  - cbn [nth_error] in Hn. injection Hn as <-.
    exists (emit_ws rs mb q), (recon rs (is_sl_comment (t_ty (fst q))) r).
    repeat split. rewrite offset_from_cons, emit_ws_len. lia.
  - cbn [nth_error] in Hn.
    destruct (IH (is_sl_comment (t_ty (fst q))) j p Hn) as (pre & post & Hrec & Hlen & Hpre & Hpost).
    exists (emit_ws rs mb q ++ t_content (fst q) ++ pre), post.
    split; [|split; [|split]].
    + cbn [recon]. rewrite Hrec. rewrite <- !app_assoc. reflexivity.
    + rewrite !blen_app, Hlen, offset_from_cons, emit_ws_len. lia.
    + rewrite Hpre. cbn [firstn recon]. rewrite mb_after_cons, <- !app_assoc. reflexivity.
    + exact Hpost.
Qed.

(* offset_for_token rs toks i is the byte offset at which the content of token i starts in the
   output of reconstruct — unconditionally since commit 65fa795 (F10 repaired: the safety-net
   line break is counted). *)
Theorem offset_for_token_correct rs toks i p :
  nth_error toks i = Some p ->
  exists pre post,
    recon rs false toks = pre ++ t_content (fst p) ++ post /\
    blen pre = offset_for_token rs toks i /\
    pre = recon rs false (firstn i toks) ++ emit_ws rs (mb_after false (firstn i toks)) p /\
    post = recon rs (is_sl_comment (t_ty (fst p))) (skipn (S i) toks).
Proof. apply offset_for_token_correct_gen. Qed.

Lemma offset_for_token_le rs toks i p :
  nth_error toks i = Some p ->
  offset_for_token rs toks i + blen (t_content (fst p)) <= blen (recon rs false toks).
Proof.
  intros Hn. destruct (offset_for_token_correct rs toks i p Hn) as (pre & post & Hrec & Hlen & _).
  rewrite Hrec, !blen_app, Hlen. lia.
Qed.

(* the offset ends with the token's own (added line break and) whitespace *)
Lemma offset_from_ge_ws rs toks : forall mb i p,
  nth_error toks i = Some p ->
  net_len rs (mb_after mb (firstn i toks)) p + ws_len rs p <= offset_from rs mb toks i.
Proof.
  induction toks as [|q r IH]; intros mb i p Hn; [destruct i; discriminate|].
  rewrite offset_from_cons. destruct i as [|j]; cbn [nth_error] in Hn.
  - injection Hn as <-. cbn [firstn]. unfold mb_after. cbn [rev]. lia.
  - cbn [firstn]. rewrite mb_after_cons. specialize (IH (is_sl_comment (t_ty (fst q))) j p Hn). lia.
Qed.

Lemma offset_ge_ws_len rs toks i p :
  nth_error toks i = Some p -> ws_len rs p <= offset_for_token rs toks i.
Proof. intros Hn. pose proof (offset_from_ge_ws rs toks false i p Hn). unfold offset_for_token. lia. Qed.

(* for an index past the end the loop runs through: the length of the whole output *)
Lemma offset_from_past rs toks : forall mb i,
  (length toks <= i)%nat -> offset_from rs mb toks i = blen (recon rs mb toks).
Proof.
  induction toks as [|q r IH]; intros mb i Hi; [reflexivity|].
  cbn [length] in Hi. destruct i as [|j]; [lia|].
  rewrite offset_from_cons. cbn [recon]. rewrite !blen_app, emit_ws_len, IH by lia. lia.
Qed.

Lemma offset_for_token_past rs toks i :
  (length toks <= i)%nat -> offset_for_token rs toks i = blen (recon rs false toks).
Proof. apply offset_from_past. Qed.

(* F10 regression: a `//` comment followed by a token with no line break recorded; the added
   line break is now part of the offset *)
Example offset_for_token_net_fixed_example :
  exists rs toks i p,
    nth_error toks i = Some p /\ net_free false (firstn (S i) toks) = false /\
    recon rs false toks = [47;47;10;32;97] /\ offset_for_token rs toks i = 4.
Proof.
  exists (mkRS [10] [32;32] [32;32]),
    [(mkToken [] [47;47] (TT_Comment CoK_IndividualLine), mkFmt false 0 0 0 0);
     (mkToken [] [97] TT_Identifier, mkFmt false 0 0 0 1)],
    1%nat, (mkToken [] [97] TT_Identifier, mkFmt false 0 0 0 1).
  repeat split; reflexivity.
Qed.

(* ------------------------------------------------------------------ *)
(* relocate: which branch *)

Lemma last_opt_none {A} (l : list A) : last_opt l = None -> l = [].
Proof.
  unfold last_opt. destruct (rev l) as [|a t] eqn:E; [|discriminate]. intros _.
  rewrite <- (rev_involutive l), E. reflexivity.
Qed.

Lemma last_opt_app {A} (l : list A) a : last_opt (l ++ [a]) = Some a.
Proof. unfold last_opt. rewrite rev_app_distr. reflexivity. Qed.

Lemma relocate_in_range rs toks idx pos p :
  nth_error toks idx = Some p -> relocate rs toks idx pos = Some (relocate_at rs toks idx p pos).
Proof. intros H. unfold relocate, relocate_target. rewrite H. reflexivity. Qed.

Lemma relocate_out_of_range rs toks idx pos p :
  (length toks <= idx)%nat -> last_opt toks = Some p ->
  relocate rs toks idx pos =
  Some (relocate_at rs toks idx p (PContent (u32 (blen (t_content (fst p)))))).
Proof.
  intros Hi Hl. unfold relocate, relocate_target.
  apply nth_error_None in Hi. rewrite Hi, Hl. reflexivity.
Qed.

(* the early `return` happens exactly for an empty token list *)
Lemma relocate_none_iff rs toks idx pos : relocate rs toks idx pos = None <-> toks = [].
Proof.
  split.
  - unfold relocate, relocate_target. destruct (nth_error toks idx); [discriminate|].
    destruct (last_opt toks) eqn:E; [discriminate|]. intros _. apply last_opt_none, E.
  - intros ->. unfold relocate, relocate_target. destruct idx; reflexivity.
Qed.

(* ------------------------------------------------------------------ *)
(* arithmetic facts used by the branches *)

Lemma nonbreaking_le_ws_len rs p : fst (nonbreaking_ws_len rs p) <= ws_len rs p.
Proof.
  destruct p as [tok f]. unfold ws_len. destruct (f_ignored f) eqn:Hi; [|lia].
  unfold nonbreaking_ws_len. rewrite Hi. destruct (rfind_lf (t_ws tok)); cbn [fst]; lia.
Qed.

Lemma lines_back_le nl nla : lines_back nl nla <= nl.
Proof. unfold lines_back. destruct ((nl <=? nla) && (1 <? nl)); lia. Qed.

Lemma lines_back_le_nla nl nla : lines_back nl nla <= nla.
Proof. unfold lines_back. destruct ((nl <=? nla) && (1 <? nl)); lia. Qed.

(* the u16 decrement `lines_back -= 1` is only executed on a positive value *)
Lemma lines_back_decrement_safe nl nla :
  (nl <=? nla) && (1 <? nl) = true -> 1 <= N.min nla nl.
Proof.
  intros H. apply andb_true_iff in H. destruct H as [H1 H2].
  apply N.leb_le in H1. apply N.ltb_lt in H2. lia.
Qed.

Lemma clamp_bounds x lo hi : lo <= hi -> lo <= clamp x lo hi <= hi.
Proof.
  intros H. unfold clamp. destruct (x <? lo) eqn:E1; [lia|]. apply N.ltb_ge in E1.
  destruct (hi <? x) eqn:E2; [lia|]. apply N.ltb_ge in E2. lia.
Qed.

Lemma clamp_id x lo hi : lo <= x <= hi -> clamp x lo hi = x.
Proof.
  intros [H1 H2]. unfold clamp.
  assert (E1 : (x <? lo) = false) by (apply N.ltb_ge; lia).
  assert (E2 : (hi <? x) = false) by (apply N.ltb_ge; lia).
  rewrite E1, E2. reflexivity.
Qed.

(* ------------------------------------------------------------------ *)
(* PContent *)

(* A cursor inside token idx stays at the same offset inside the same token, as long as the
   offset still exists in the final content and is a character boundary of it (both are true when
   the token's text is unchanged and the cursor was on a character boundary of the input). *)
Theorem relocate_content_same_offset rs toks idx p off :
  nth_error toks idx = Some p ->
  off <= blen (t_content (fst p)) ->
  is_char_boundary (t_content (fst p)) (N.to_nat off) = true ->
  relocate rs toks idx (PContent off) = Some (Z.of_N (offset_for_token rs toks idx + off)).
Proof.
  intros Hn Ho Hb. rewrite (relocate_in_range _ _ _ _ _ Hn). unfold relocate_at.
  rewrite N.min_l by exact Ho. rewrite floor_char_boundary_id by exact Hb. f_equal. lia.
Qed.

Example relocate_content_same_offset_ex :
  let rs := mkRS [10] [32;32] [32;32] in
  let p := (mkToken [] [98;97;114] TT_Identifier, mkFmt false 1 1 0 0) in
  let toks := [(mkToken [] [97] TT_Identifier, mkFmt false 0 0 0 0); p] in
  nth_error toks 1 = Some p /\ 2 <= blen (t_content (fst p)) /\
  is_char_boundary (t_content (fst p)) (N.to_nat 2) = true /\
  relocate rs toks 1 (PContent 2) = Some 6%Z /\ recon rs false toks = [97;10;32;32;98;97;114].
Proof. vm_compute. repeat split; congruence. Qed.

(* the general PContent value: the greatest character boundary of the new content that is
   <= min(offset, len) *)
Lemma relocate_content_value rs toks idx p off :
  nth_error toks idx = Some p ->
  exists k, relocate rs toks idx (PContent off)
            = Some (Z.of_N (offset_for_token rs toks idx) + Z.of_nat k)%Z
            /\ k = floor_char_boundary (t_content (fst p)) (N.to_nat (N.min off (blen (t_content (fst p)))))
            /\ (k <= N.to_nat off)%nat /\ (k <= length (t_content (fst p)))%nat
            /\ is_char_boundary (t_content (fst p)) k = true.
Proof.
  intros Hn. eexists. rewrite (relocate_in_range _ _ _ _ _ Hn). unfold relocate_at.
  split; [reflexivity|]. split; [reflexivity|].
  destruct (floor_char_boundary_spec (t_content (fst p)) (N.to_nat (N.min off (blen (t_content (fst p))))))
    as [H1 H2].
  unfold blen in *. repeat split; try lia. exact H2.
Qed.

(* ------------------------------------------------------------------ *)
(* PMultiline *)

(* with the clamp `offset_from_end.min(content_len)` the result stays inside the token: it never
   goes below offset_for_token (F20 repaired), whatever reverse_col / newlines_after are *)
Theorem multiline_no_underflow rs toks idx p rc nla :
  (Z.of_N (offset_for_token rs toks idx)
   <= relocate_at rs toks idx p (PMultiline rc nla)
   <= Z.of_N (offset_for_token rs toks idx + blen (t_content (fst p))))%Z.
Proof.
  unfold relocate_at.
  match goal with |- context [floor_char_boundary ?l ?k] =>
    destruct (floor_char_boundary_spec l k) as [H1 _] end.
  unfold blen in *. lia.
Qed.

(* NEW (F9 repaired): a Content or MultilineContent cursor lands on a character boundary of the
   token's NEW content — for any content whatsoever, no UTF-8 validity needed *)
Theorem relocate_char_boundary rs toks idx p pos :
  nth_error toks idx = Some p ->
  match pos with PWhitespace _ _ => False | _ => True end ->
  exists k, relocate rs toks idx pos = Some (Z.of_N (offset_for_token rs toks idx) + Z.of_nat k)%Z
            /\ (k <= length (t_content (fst p)))%nat
            /\ is_char_boundary (t_content (fst p)) k = true.
Proof.
  intros Hn Hpos. rewrite (relocate_in_range _ _ _ _ _ Hn).
  destruct pos as [off|rc nla|col nla]; [| |contradiction]; unfold relocate_at;
    match goal with |- context [floor_char_boundary ?l ?k] =>
      destruct (floor_char_boundary_spec l k) as [H1 H2]; exists (floor_char_boundary l k) end;
    (split; [reflexivity|]); (split; [unfold blen in *; lia|exact H2]).
Qed.

(* ------------------------------------------------------------------ *)
(* PWhitespace *)

(* Branch 1 (cursor on a blank line that still exists): the result is
   new_token_offset + kept_len - ws_len(token).
   The subtraction cannot go negative, because offset_for_token(idx) already contains
   ws_len(token idx) as its last summand — for ignored and non-ignored tokens alike. *)
(* the boundary search of commit c3b0c3f: back only grows, and never beyond the length of the
   verbatim whitespace; `leading_ws.len() - back` is never negative *)
Lemma nonbreaking_le_ws_ignored rs p :
  f_ignored (snd p) = true -> fst (nonbreaking_ws_len rs p) <= blen (t_ws (fst p)).
Proof.
  intros Hi. pose proof (nonbreaking_le_ws_len rs p) as H. destruct p as [tok f]. cbn [snd fst] in *.
  unfold ws_len in H. rewrite Hi in H. exact H.
Qed.

Lemma ws_back_adjust_bounds rs p back0 :
  (0 <= back0 <= Z.of_N (fst (nonbreaking_ws_len rs p)))%Z ->
  (back0 <= ws_back_adjust p back0 <= Z.of_N (ws_len rs p))%Z.
Proof.
  intros Hb. pose proof (nonbreaking_le_ws_len rs p) as Hnb. unfold ws_back_adjust.
  destruct (f_ignored (snd p)) eqn:Hi; [|lia].
  pose proof (nonbreaking_le_ws_ignored rs p Hi) as Hle.
  assert (Hws : ws_len rs p = blen (t_ws (fst p))).
  { destruct p as [tok f]. cbn [snd fst] in *. unfold ws_len. rewrite Hi. reflexivity. }
  match goal with |- context [floor_char_boundary ?l ?k] =>
    destruct (floor_char_boundary_spec l k) as [H1 _] end.
  unfold blen in *. lia.
Qed.

Lemma ws_back_subs_nonneg rs p back0 :
  (0 <= back0 <= Z.of_N (fst (nonbreaking_ws_len rs p)))%Z ->
  Forall (fun z => (0 <= z)%Z) (ws_back_subs p back0).
Proof.
  intros Hb. unfold ws_back_subs. destruct (f_ignored (snd p)) eqn:Hi; [|constructor].
  pose proof (nonbreaking_le_ws_ignored rs p Hi) as Hle.
  constructor; [cbv beta; lia|apply floor_subs_nonneg].
Qed.

Theorem whitespace_no_underflow rs toks idx p col nla :
  nth_error toks idx = Some p ->
  Forall (fun z => (0 <= z)%Z) (relocate_subs rs toks idx p (PWhitespace col nla)).
Proof.
  intros Hn. pose proof (offset_ge_ws_len rs toks idx p Hn) as Hge.
  unfold relocate_subs. destruct (0 <? N.min nla (f_nl (snd p))).
  - constructor; [cbv beta; lia|constructor].
  - pose proof (ws_back_adjust_bounds rs p) as Hadj. pose proof (ws_back_subs_nonneg rs p) as Hsub.
    destruct (nonbreaking_ws_len rs p) as [wl bf]. cbn [fst] in *.
    set (cws := if bf then 0 else col_for_token_end_post_fmt rs toks idx).
    pose proof (clamp_bounds col cws (cws + wl) ltac:(lia)) as Hc.
    set (d := (Z.of_N (cws + wl) - Z.of_N (clamp col cws (cws + wl)))%Z) in *.
    assert (Hd : (0 <= d <= Z.of_N wl)%Z) by (unfold d; lia).
    specialize (Hadj d Hd). specialize (Hsub d Hd).
    constructor; [cbv beta; lia|]. apply Forall_app. split; [exact Hsub|].
    constructor; [cbv beta; lia|constructor].
Qed.

(* every usize subtraction of the match arm is non-negative, for every TokPos *)
Theorem relocate_no_underflow rs toks idx p pos :
  nth_error toks idx = Some p ->
  Forall (fun z => (0 <= z)%Z) (relocate_subs rs toks idx p pos).
Proof.
  intros Hn. destruct pos as [off|rc nla|col nla].
  - apply floor_subs_nonneg.
  - unfold relocate_subs. constructor; [cbv beta; lia|apply floor_subs_nonneg].
  - apply whitespace_no_underflow, Hn.
Qed.

(* in the out-of-range branch tok_pos has been replaced by Content: only the boundary search *)
Lemma relocate_no_underflow_out_of_range rs toks idx p n :
  Forall (fun z => (0 <= z)%Z) (relocate_subs rs toks idx p (PContent n)).
Proof. apply floor_subs_nonneg. Qed.

(* Branch 1 stays at or before the token start iff this holds.  Since commit 014530d it holds
   for EVERY token (ws_back_ok_all); before, it failed for ignored tokens whose line breaks are
   not spelled like the configured newline (finding F22). *)
Definition ws_back_ok (rs : rsettings) (p : ftoken) (nla : N) : Prop :=
  kept_len rs p nla <= ws_len rs p.

Lemma whitespace_back_iff rs toks idx p col nla :
  0 < N.min nla (f_nl (snd p)) ->
  (relocate_at rs toks idx p (PWhitespace col nla) <= Z.of_N (offset_for_token rs toks idx))%Z
  <-> ws_back_ok rs p nla.
Proof.
  intros Hlb. apply N.ltb_lt in Hlb. unfold relocate_at, ws_back_ok. rewrite Hlb. lia.
Qed.

(* formatted tokens: kept_len = nl_len * kept_breaks <= nl_len * newlines_before <= ws_len *)
Lemma ws_back_ok_formatted rs p nla : f_ignored (snd p) = false -> ws_back_ok rs p nla.
Proof.
  destruct p as [tok f]. cbn [snd]. intros Hi. unfold ws_back_ok, kept_len. cbn [snd]. rewrite Hi.
  rewrite ws_len_unfold_fmt by exact Hi.
  pose proof (lines_back_le (f_nl f) nla).
  assert (nl_len rs * (f_nl f - lines_back (f_nl f) nla) <= f_nl f * nl_len rs).
  { rewrite (N.mul_comm (f_nl f)). apply N.mul_le_mono_l. lia. }
  lia.
Qed.

(* ignored tokens: every LF position of ws is < |ws|, so "just past an LF of ws" is <= |ws| *)
Lemma lf_positions_bound l : forall i, Forall (fun pos => i <= pos /\ pos < i + blen l) (lf_positions_from i l).
Proof.
  induction l as [|b t IH]; intros i; [constructor|]. cbn [lf_positions_from]. rewrite blen_cons.
  specialize (IH (i + 1)).
  assert (IH' : Forall (fun pos => i <= pos /\ pos < i + (1 + blen t)) (lf_positions_from (i + 1) t)).
  { eapply Forall_impl; [|exact IH]. cbv beta. intros a Ha. lia. }
  destruct (b =? 10); [constructor; [lia|exact IH']|exact IH'].
Qed.

Lemma last_opt_in {A} (l : list A) a : last_opt l = Some a -> In a l.
Proof.
  unfold last_opt. destruct (rev l) as [|x t] eqn:E; [discriminate|]. intros H. injection H as ->.
  apply in_rev. rewrite E. left. reflexivity.
Qed.

Lemma kept_len_ignored_le ws k : kept_len_ignored ws k <= blen ws.
Proof.
  unfold kept_len_ignored. destruct (last_opt (firstn k (lf_positions_from 0 ws))) as [pos|] eqn:E; [|lia].
  apply last_opt_in in E. apply (In_nth_error) in E. destruct E as [n En].
  pose proof (lf_positions_bound ws 0) as Hall. rewrite Forall_forall in Hall.
  assert (Hin : In pos (lf_positions_from 0 ws)).
  { apply nth_error_In in En. revert En. generalize (lf_positions_from 0 ws). intros l.
    revert l. induction k as [|k IHk]; intros [|x l]; cbn [firstn]; try contradiction.
    intros [->|H]; [left; reflexivity|right; apply IHk, H]. }
  specialize (Hall pos Hin). cbv beta in Hall. lia.
Qed.

Lemma In_firstn {A} (a : A) k : forall l, In a (firstn k l) -> In a l.
Proof.
  induction k as [|k IHk]; intros [|x l]; cbn [firstn]; try contradiction.
  intros [->|H]; [left; reflexivity|right; apply IHk, H].
Qed.

(* every reported position really holds an LF *)
Lemma lf_positions_nth (l : list N) : forall i,
  Forall (fun pos => i <= pos /\ nth_error l (N.to_nat (pos - i)) = Some 10) (lf_positions_from i l).
Proof.
  induction l as [|b t IH]; intros i; [constructor|]. cbn [lf_positions_from].
  assert (IH' : Forall (fun pos => i <= pos /\ nth_error (b :: t) (N.to_nat (pos - i)) = Some 10)
                       (lf_positions_from (i + 1) t)).
  { eapply Forall_impl; [|exact (IH (i + 1))]. cbv beta. intros a [Ha1 Ha2]. split; [lia|].
    replace (N.to_nat (a - i)) with (S (N.to_nat (a - (i + 1)))) by lia. exact Ha2. }
  destruct (b =? 10) eqn:E; [|exact IH']. apply N.eqb_eq in E. subst b.
  constructor; [|exact IH']. split; [lia|]. rewrite N.sub_diag. reflexivity.
Qed.

(* kept_len of an ignored token is 0 or the offset just past an LF of its whitespace *)
Lemma kept_len_ignored_cases (ws : list N) k :
  kept_len_ignored ws k = 0 \/
  exists pos, kept_len_ignored ws k = pos + 1 /\ nth_error ws (N.to_nat pos) = Some 10.
Proof.
  unfold kept_len_ignored. destruct (last_opt (firstn k (lf_positions_from 0 ws))) as [pos|] eqn:E; [|left; reflexivity].
  right. exists pos. split; [reflexivity|].
  apply last_opt_in, In_firstn in E.
  pose proof (lf_positions_nth ws 0) as Hall. rewrite Forall_forall in Hall.
  destruct (Hall pos E) as [_ H]. rewrite N.sub_0_r in H. exact H.
Qed.

Lemma ws_back_ok_ignored rs p nla : f_ignored (snd p) = true -> ws_back_ok rs p nla.
Proof.
  destruct p as [tok f]. cbn [snd]. intros Hi. unfold ws_back_ok, kept_len, ws_len. cbn [snd fst].
  rewrite Hi. apply kept_len_ignored_le.
Qed.

Theorem ws_back_ok_all rs p nla : ws_back_ok rs p nla.
Proof.
  destruct (f_ignored (snd p)) eqn:Hi; [apply ws_back_ok_ignored|apply ws_back_ok_formatted]; exact Hi.
Qed.

(* kept for compatibility with earlier statements (the hypotheses are no longer needed) *)
Lemma ws_back_ok_ignored_lf rs p nla :
  f_ignored (snd p) = true -> nl_len rs <= 1 -> f_nl (snd p) <= count_lf (t_ws (fst p)) ->
  ws_back_ok rs p nla.
Proof. intros _ _ _. apply ws_back_ok_all. Qed.

Lemma ws_back_ok_ignored_general rs p nla :
  f_ignored (snd p) = true -> nl_len rs * f_nl (snd p) <= blen (t_ws (fst p)) ->
  ws_back_ok rs p nla.
Proof. intros _ _. apply ws_back_ok_all. Qed.

(* where exactly the cursor goes for a formatted token: to the start of the line that is
   lines_back lines above the token *)
Lemma whitespace_blank_line_position rs toks idx tok f col nla :
  f_ignored f = false -> 0 < N.min nla (f_nl f) ->
  relocate_at rs toks idx (tok, f) (PWhitespace col nla) =
  (Z.of_N (offset_for_token rs toks idx)
   - Z.of_N (f_sp f + f_cont f * blen (rs_cont rs) + f_ind f * blen (rs_indent rs))
   - Z.of_N (nl_len rs * lines_back (f_nl f) nla))%Z.
Proof.
  intros Hi Hlb. apply N.ltb_lt in Hlb. unfold relocate_at, kept_len. cbn [snd fst]. rewrite Hlb, Hi.
  rewrite ws_len_unfold_fmt by exact Hi.
  pose proof (lines_back_le (f_nl f) nla) as Hle.
  rewrite N.mul_sub_distr_l. rewrite (N.mul_comm (f_nl f) (nl_len rs)).
  assert (nl_len rs * lines_back (f_nl f) nla <= nl_len rs * f_nl f) by (apply N.mul_le_mono_l; lia).
  lia.
Qed.

(* … and for an ignored token: into the token's own (verbatim) whitespace, just past its
   kept_breaks-th LF, whatever the configured newline string is *)
Lemma whitespace_ignored_position rs toks idx tok f col nla :
  f_ignored f = true -> 0 < N.min nla (f_nl f) ->
  relocate_at rs toks idx (tok, f) (PWhitespace col nla) =
  (Z.of_N (offset_for_token rs toks idx) - Z.of_N (blen (t_ws tok))
   + Z.of_N (kept_len_ignored (t_ws tok) (N.to_nat (f_nl f - lines_back (f_nl f) nla))))%Z.
Proof.
  intros Hi Hlb. apply N.ltb_lt in Hlb. unfold relocate_at, kept_len, ws_len. cbn [snd fst].
  rewrite Hlb, Hi. lia.
Qed.

(* Branch 2 (same line as the token): inside the whitespace in front of the token; for a
   formatted token inside its non-breaking part *)
Lemma whitespace_same_line_bounds rs toks idx p col nla :
  N.min nla (f_nl (snd p)) = 0 ->
  (Z.of_N (offset_for_token rs toks idx) - Z.of_N (ws_len rs p)
   <= relocate_at rs toks idx p (PWhitespace col nla)
   <= Z.of_N (offset_for_token rs toks idx))%Z.
Proof.
  intros Hlb. unfold relocate_at. rewrite Hlb. change (0 <? 0) with false. cbv iota.
  pose proof (ws_back_adjust_bounds rs p) as Hadj.
  destruct (nonbreaking_ws_len rs p) as [wl bf]. cbn [fst] in *.
  set (cws := if bf then 0 else col_for_token_end_post_fmt rs toks idx).
  pose proof (clamp_bounds col cws (cws + wl) ltac:(lia)) as Hc.
  specialize (Hadj (Z.of_N (cws + wl) - Z.of_N (clamp col cws (cws + wl)))%Z ltac:(lia)). lia.
Qed.

Lemma whitespace_same_line_bounds_formatted rs toks idx p col nla :
  N.min nla (f_nl (snd p)) = 0 -> f_ignored (snd p) = false ->
  (Z.of_N (offset_for_token rs toks idx) - Z.of_N (fst (nonbreaking_ws_len rs p))
   <= relocate_at rs toks idx p (PWhitespace col nla)
   <= Z.of_N (offset_for_token rs toks idx))%Z.
Proof.
  intros Hlb Hi. unfold relocate_at, ws_back_adjust. rewrite Hlb, Hi. change (0 <? 0) with false. cbv iota.
  destruct (nonbreaking_ws_len rs p) as [wl bf]. cbn [fst].
  set (cws := if bf then 0 else col_for_token_end_post_fmt rs toks idx).
  pose proof (clamp_bounds col cws (cws + wl) ltac:(lia)). lia.
Qed.

(* the column is kept when it lies inside the new whitespace (and, for verbatim whitespace, is a
   character boundary of it) *)
Lemma whitespace_same_line_column rs toks idx p col nla :
  N.min nla (f_nl (snd p)) = 0 ->
  let wl := fst (nonbreaking_ws_len rs p) in
  let cws := if snd (nonbreaking_ws_len rs p) then 0 else col_for_token_end_post_fmt rs toks idx in
  cws <= col <= cws + wl ->
  (f_ignored (snd p) = true ->
   is_char_boundary (t_ws (fst p)) (N.to_nat (blen (t_ws (fst p)) - (cws + wl - col))) = true) ->
  relocate_at rs toks idx p (PWhitespace col nla) =
  (Z.of_N (offset_for_token rs toks idx) - Z.of_N wl + (Z.of_N col - Z.of_N cws))%Z.
Proof.
  intros Hlb. unfold relocate_at. rewrite Hlb. change (0 <? 0) with false. cbv iota.
  pose proof (nonbreaking_le_ws_ignored rs p) as Hle.
  destruct (nonbreaking_ws_len rs p) as [wl bf]. cbn [fst snd] in *. intros Hc Hb.
  rewrite clamp_id by exact Hc. unfold ws_back_adjust. destruct (f_ignored (snd p)); [|lia].
  specialize (Hle eq_refl). specialize (Hb eq_refl).
  set (cws := if bf then 0 else col_for_token_end_post_fmt rs toks idx) in *.
  replace (Z.to_nat (Z.of_N (blen (t_ws (fst p))) - (Z.of_N (cws + wl) - Z.of_N col)))
    with (N.to_nat (blen (t_ws (fst p)) - (cws + wl - col))) by lia.
  rewrite floor_char_boundary_id by exact Hb. lia.
Qed.

(* ------------------------------------------------------------------ *)
(* bounds *)

(* The former hypothesis of the bounds theorem; it now always holds (pos_ok_always). *)
Definition pos_ok (rs : rsettings) (p : ftoken) (pos : tokpos) : Prop :=
  match pos with
  | PWhitespace _ nla => 0 < N.min nla (f_nl (snd p)) -> ws_back_ok rs p nla
  | _ => True
  end.

Lemma pos_ok_always rs p pos : pos_ok rs p pos.
Proof. destruct pos; cbn [pos_ok]; auto using ws_back_ok_all. Qed.

(* every relocated cursor of an in-range token index lies within the output: for every TokPos,
   every token (ignored or not, whatever f_nl is), every setting; safety net or not *)
Theorem relocate_in_bounds rs toks idx pos p :
  nth_error toks idx = Some p ->
  exists z, relocate rs toks idx pos = Some z /\
            (0 <= z <= Z.of_N (blen (recon rs false toks)))%Z.
Proof.
  intros Hn. rewrite (relocate_in_range _ _ _ _ _ Hn). eexists; split; [reflexivity|].
  pose proof (offset_for_token_le rs toks idx p Hn) as Hle.
  destruct pos as [off|rc nla|col nla].
  - unfold relocate_at.
    destruct (floor_char_boundary_spec (t_content (fst p)) (N.to_nat (N.min off (blen (t_content (fst p))))))
      as [H1 _].
    unfold blen in *. lia.
  - pose proof (multiline_no_underflow rs toks idx p rc nla). lia.
  - pose proof (whitespace_no_underflow rs toks idx p col nla Hn) as Hsubs.
    destruct (N.eq_dec (N.min nla (f_nl (snd p))) 0) as [Hz|Hnz].
    + pose proof (whitespace_same_line_bounds rs toks idx p col nla Hz) as Hb.
      pose proof (offset_ge_ws_len rs toks idx p Hn). lia.
    + assert (Hpos : 0 < N.min nla (f_nl (snd p))) by lia.
      pose proof (proj2 (whitespace_back_iff rs toks idx p col nla Hpos) (ws_back_ok_all rs p nla)) as Hup.
      split; [|lia].
      unfold relocate_subs in Hsubs. unfold relocate_at.
      apply N.ltb_lt in Hpos. rewrite Hpos in *. inversion Hsubs as [|z l Hz _]; subst. exact Hz.
Qed.

(* sharper: a whitespace cursor never moves past the start of its token, a content cursor never
   leaves its token *)
Theorem relocate_within_token rs toks idx pos p :
  nth_error toks idx = Some p ->
  exists z, relocate rs toks idx pos = Some z /\
    match pos with
    | PWhitespace _ _ =>
        (Z.of_N (offset_for_token rs toks idx) - Z.of_N (ws_len rs p) <= z
         <= Z.of_N (offset_for_token rs toks idx))%Z
    | _ =>
        (Z.of_N (offset_for_token rs toks idx) <= z
         <= Z.of_N (offset_for_token rs toks idx + blen (t_content (fst p))))%Z
    end.
Proof.
  intros Hn. rewrite (relocate_in_range _ _ _ _ _ Hn). eexists; split; [reflexivity|].
  destruct pos as [off|rc nla|col nla].
  - unfold relocate_at.
    destruct (floor_char_boundary_spec (t_content (fst p)) (N.to_nat (N.min off (blen (t_content (fst p))))))
      as [H1 _].
    unfold blen in *. lia.
  - apply multiline_no_underflow.
  - destruct (N.eq_dec (N.min nla (f_nl (snd p))) 0) as [Hz|Hnz].
    + pose proof (whitespace_same_line_bounds rs toks idx p col nla Hz) as Hb. lia.
    + assert (Hpos : 0 < N.min nla (f_nl (snd p))) by lia.
      pose proof (proj2 (whitespace_back_iff rs toks idx p col nla Hpos) (ws_back_ok_all rs p nla)) as Hup.
      split; [|exact Hup]. unfold relocate_at. apply N.ltb_lt in Hpos. rewrite Hpos. lia.
Qed.

(* kept under their old names *)
Corollary relocate_in_bounds_content rs toks idx off p :
  nth_error toks idx = Some p ->
  exists z, relocate rs toks idx (PContent off) = Some z /\
            (0 <= z <= Z.of_N (blen (recon rs false toks)))%Z.
Proof. apply relocate_in_bounds. Qed.

Corollary relocate_in_bounds_multiline rs toks idx rc nla p :
  nth_error toks idx = Some p ->
  exists z, relocate rs toks idx (PMultiline rc nla) = Some z /\
            (0 <= z <= Z.of_N (blen (recon rs false toks)))%Z.
Proof. apply relocate_in_bounds. Qed.

Corollary relocate_in_bounds_formatted rs toks idx pos p :
  nth_error toks idx = Some p -> f_ignored (snd p) = false ->
  exists z, relocate rs toks idx pos = Some z /\
            (0 <= z <= Z.of_N (blen (recon rs false toks)))%Z.
Proof. intros Hn _. apply (relocate_in_bounds _ _ _ _ p Hn). Qed.

Example relocate_in_bounds_ex :
  let rs := mkRS [13;10] [32;32] [32;32] in
  let p := (mkToken [] [98] TT_Identifier, mkFmt false 2 1 0 0) in
  let toks := [(mkToken [] [97] TT_Identifier, mkFmt false 0 0 0 0); p] in
  nth_error toks 1 = Some p /\
  relocate rs toks 1 (PWhitespace 0 1) = Some 3%Z /\ blen (recon rs false toks) = 8.
Proof. cbv zeta. repeat split; reflexivity. Qed.

(* ------------------------------------------------------------------ *)
(* cursor beyond the last token *)

(* tok_idx stays out of range, so offset_for_token runs through the whole list — its value is the
   length of the output — and then the Content{len} offset adds the last content a second time. *)
Theorem relocate_past_end rs toks idx pos p :
  (length toks <= idx)%nat -> last_opt toks = Some p ->
  relocate rs toks idx pos =
  Some (Z.of_N (blen (recon rs false toks))
        + Z.of_nat (floor_char_boundary (t_content (fst p))
                      (N.to_nat (u32 (blen (t_content (fst p)))))))%Z.
Proof.
  intros Hi Hl. rewrite (relocate_out_of_range _ _ _ _ _ Hi Hl). unfold relocate_at.
  rewrite offset_for_token_past by exact Hi.
  rewrite N.min_l by apply u32_le. reflexivity.
Qed.

(* in practice the last token is Eof, whose content is empty: the cursor goes to the end of the
   output — unconditionally since commit 65fa795 *)
Corollary relocate_past_end_eof rs toks idx pos p :
  (length toks <= idx)%nat -> last_opt toks = Some p -> t_content (fst p) = [] ->
  relocate rs toks idx pos = Some (Z.of_N (blen (recon rs false toks))).
Proof.
  intros Hi Hl Hc. rewrite (relocate_past_end _ _ _ _ _ Hi Hl), Hc. cbn. f_equal. lia.
Qed.

Corollary relocate_past_end_in_bounds rs toks idx pos p :
  (length toks <= idx)%nat -> last_opt toks = Some p -> t_content (fst p) = [] ->
  exists z, relocate rs toks idx pos = Some z /\ (0 <= z <= Z.of_N (blen (recon rs false toks)))%Z.
Proof.
  intros Hi Hl Hc. rewrite (relocate_past_end_eof _ _ _ _ _ Hi Hl Hc). eexists; split; [reflexivity|]. lia.
Qed.

Example relocate_past_end_ex :
  let rs := mkRS [10] [32;32] [32;32] in
  let p := (mkToken [] [] TT_Eof, mkFmt false 1 0 0 0) in
  let toks := [(mkToken [] [97] TT_Identifier, mkFmt false 0 0 0 0); p] in
  (length toks <= 2)%nat /\ last_opt toks = Some p /\ t_content (fst p) = [] /\
  relocate rs toks 2 (PWhitespace 3 4) = Some 2%Z.
Proof. cbv zeta. repeat split; reflexivity. Qed.

(* Latent quirk (not reachable through the formatter, where the last token is always Eof with
   empty content): if the last token had content, a cursor past the end would be placed beyond
   the end of the output, because that content is counted twice. *)
Example relocate_past_end_nonempty_last_refuted :
  exists rs toks idx pos z,
    (length toks <= idx)%nat /\
    relocate rs toks idx pos = Some z /\ (Z.of_N (blen (recon rs false toks)) < z)%Z.
Proof.
  exists (mkRS [10] [32;32] [32;32]), [(mkToken [] [97] TT_Identifier, mkFmt false 0 0 0 0)],
    1%nat, (PContent 0), 2%Z.
  repeat split; reflexivity.
Qed.

(* ------------------------------------------------------------------ *)
(* Finding F22 (repaired by commit 014530d): a blank-line cursor in front of an ignored
   (`pasfmt off`) token used the CONFIGURED newline length although the whitespace is emitted
   verbatim.  With line_ending=crlf and LF text the cursor was reported beyond the end of the
   output (input "// pasfmt off" LF LF LF LF LF LF: cursors 14..18 -> 15,17,19,21,23 in a 19-byte
   result); with LF configured and CRLF text it landed between a CR and its LF.
   The repaired code measures the token's own line breaks.  The old witnesses are kept as
   regression lemmas: they now stay in bounds, in fact in place (confirmed with vh trace on the
   rebuilt harness). *)
Definition crlf_rs : rsettings := rs_of_config true false 2 2.
Definition crlf_raw : list rtok :=
  [([], [47;47;32;112;97;115;102;109;116;32;111;102;102], RTT_Comment CoK_IndividualLine);
   ([10;10;10;10;10;10], [], RTT_Eof)].
Definition crlf_final : list ftoken :=
  [(mkToken [] [47;47;32;112;97;115;102;109;116;32;111;102;102] (TT_Comment CoK_IndividualLine),
    mkFmt true 0 0 0 0);
   (mkToken [10;10;10;10;10;10] [] TT_Eof, mkFmt true 6 0 0 0)].

Theorem whitespace_ignored_crlf_in_bounds_example :
  exists rs raw final c idx pos p z,
    rs_newline rs = [13; 10] /\
    process_cursor raw c = (idx, pos) /\ nth_error final idx = Some p /\
    f_ignored (snd p) = true /\ f_nl (snd p) = count_lf (t_ws (fst p)) /\
    recon rs false final = concat (map r_str raw) /\        (* the text is unchanged *)
    track_cursor rs raw final c = Some z /\
    (0 <= z <= Z.of_N (blen (recon rs false final)))%Z /\    (* inside the output *)
    z = Z.of_N c.                                            (* and where it was *)
Proof.
  exists crlf_rs, crlf_raw, crlf_final, 18, 1%nat, (PWhitespace 0 1),
    (mkToken [10;10;10;10;10;10] [] TT_Eof, mkFmt true 6 0 0 0), 18%Z.
  repeat split; try reflexivity; vm_compute; congruence.
Qed.

Example whitespace_ignored_crlf_all_cursors :
  map (track_cursor_u32 crlf_rs crlf_raw crlf_final) [13;14;15;16;17;18;19;20]
  = [13;14;15;16;17;18;19;19] /\ blen (recon crlf_rs false crlf_final) = 19.
Proof. vm_compute. split; reflexivity. Qed.

(* the mirror image (LF configured, CRLF in the ignored region): the cursor at the start of the
   last blank line (input offset 6, col 0, one LF after it) stays there *)
Example whitespace_ignored_lf_config_crlf_text :
  let rs := rs_of_config false false 2 2 in
  let final := [(mkToken [] [47;47] (TT_Comment CoK_IndividualLine), mkFmt true 0 0 0 0);
                (mkToken [13;10;13;10;13;10] [] TT_Eof, mkFmt true 3 0 0 0)] in
  relocate rs final 1 (PWhitespace 0 1) = Some 6%Z.
Proof. reflexivity. Qed.

(* General form: in UNCHANGED verbatim whitespace a cursor at the start of a blank line (right
   after an LF, with at least one more LF before the token) stays exactly where it was — for
   every configured newline string, CR LF or LF spelling of the text, and column. *)
Lemma lf_positions_app a : forall i b,
  lf_positions_from i (a ++ b) = lf_positions_from i a ++ lf_positions_from (i + blen a) b.
Proof.
  induction a as [|x a IH]; intros i b.
  - cbn [app lf_positions_from]. rewrite blen_nil, N.add_0_r. reflexivity.
  - cbn [app lf_positions_from]. rewrite IH, blen_cons.
    replace (i + 1 + blen a) with (i + (1 + blen a)) by lia.
    destruct (x =? 10); reflexivity.
Qed.

Lemma lf_positions_length l : forall i, N.of_nat (length (lf_positions_from i l)) = count_lf l.
Proof.
  induction l as [|b t IH]; intros i; [reflexivity|]. cbn [lf_positions_from count_lf].
  destruct (b =? 10); [cbn [length]; rewrite <- (IH (i + 1)); lia|rewrite IH; lia].
Qed.

Lemma kept_len_ignored_after_lf a b :
  kept_len_ignored (a ++ 10 :: b) (N.to_nat (count_lf a + 1)) = blen a + 1.
Proof.
  unfold kept_len_ignored. rewrite lf_positions_app. cbn [lf_positions_from].
  change (10 =? 10) with true. cbv iota.
  pose proof (lf_positions_length a 0) as Hl.
  replace (N.to_nat (count_lf a + 1)) with (length (lf_positions_from 0 a ++ [0 + blen a]))
    by (rewrite app_length; cbn [length]; lia).
  replace (lf_positions_from 0 a ++ (0 + blen a) :: lf_positions_from (0 + blen a + 1) b)
    with ((lf_positions_from 0 a ++ [0 + blen a]) ++ lf_positions_from (0 + blen a + 1) b)
    by (rewrite <- app_assoc; reflexivity).
  rewrite firstn_app, Nat.sub_diag, firstn_all. cbn [firstn]. rewrite app_nil_r, last_opt_app. lia.
Qed.

Lemma count_lf_app a b : count_lf (a ++ b) = count_lf a + count_lf b.
Proof. induction a as [|x a IH]; cbn [app count_lf]; [lia|]. rewrite IH. lia. Qed.

Theorem whitespace_ignored_same_position rs toks idx tok f a b col :
  nth_error toks idx = Some (tok, f) -> f_ignored f = true ->
  t_ws tok = a ++ 10 :: b -> 0 < count_lf b ->
  f_nl f = count_lf (t_ws tok) ->              (* FormattingData::from, below the u16 cap *)
  relocate rs toks idx (PWhitespace col (count_lf b))
  = Some (Z.of_N (offset_for_token rs toks idx) - Z.of_N (blen (t_ws tok)) + Z.of_N (blen a + 1))%Z.
Proof.
  intros Hn Hi Hws Hb Hnl. rewrite (relocate_in_range _ _ _ _ _ Hn).
  assert (Hcnt : f_nl f = count_lf a + 1 + count_lf b).
  { rewrite Hnl, Hws, count_lf_app. cbn [count_lf]. change (10 =? 10) with true. cbv iota. lia. }
  rewrite whitespace_ignored_position; [|exact Hi|lia].
  unfold lines_back.
  assert (E : (f_nl f <=? count_lf b) = false) by (apply N.leb_gt; lia). rewrite E. cbn [andb].
  replace (f_nl f - N.min (count_lf b) (f_nl f)) with (count_lf a + 1) by lia.
  rewrite Hws, kept_len_ignored_after_lf. reflexivity.
Qed.

Example whitespace_ignored_same_position_ex :
  let tok := mkToken [10;10;10;10;10;10] [] TT_Eof in
  let f := mkFmt true 6 0 0 0 in
  nth_error crlf_final 1 = Some (tok, f) /\ f_ignored f = true /\
  t_ws tok = [10;10;10;10] ++ 10 :: [10] /\ 0 < count_lf [10] /\ f_nl f = count_lf (t_ws tok) /\
  relocate crlf_rs crlf_final 1 (PWhitespace 0 (count_lf [10])) = Some 18%Z.
Proof. cbv zeta. repeat split; reflexivity. Qed.

(* ------------------------------------------------------------------ *)
(* multi-line tokens: reverse_col / newlines_after round trip *)

Lemma nsum_app a b : nsum (a ++ b) = nsum a + nsum b.
Proof. induction a as [|x a IH]; cbn [app nsum]; [lia|]. rewrite IH. lia. Qed.

Lemma nsum_rev l : nsum (rev l) = nsum l.
Proof. induction l as [|x l IH]; [reflexivity|]. cbn [rev]. rewrite nsum_app, IH. cbn [nsum]. lia. Qed.

(* shape of split('\n'): first piece, then one piece per LF; the pieces and separators add up *)
Lemma split_lf_shape l :
  exists s r, split_lf l = s :: r /\ blen s = first_line_len l /\
              N.of_nat (length r) = count_lf l /\
              blen l = blen s + nsum (map (fun x => blen x + 1) r).
Proof.
  induction l as [|b t (s & r & Hs & Hf & Hc & Hl)].
  - exists [], []. repeat split.
  - cbn [split_lf first_line_len count_lf]. rewrite Hs. destruct (b =? 10).
    + exists [], (s :: r). repeat split.
      * cbn [length]. lia.
      * cbn [map nsum]. rewrite blen_cons, Hl, blen_nil. lia.
    + exists (b :: s), r. repeat split.
      * rewrite blen_cons. lia.
      * lia.
      * rewrite !blen_cons. lia.
Qed.

(* prepending text only changes the pieces before the last count_lf l ones *)
Lemma split_lf_app_tail a l s r :
  split_lf l = s :: r -> exists s1 pre, split_lf (a ++ l) = (s1 :: pre) ++ r.
Proof.
  intros Hs. induction a as [|b a (s1 & pre & IH)].
  - exists s, []. exact Hs.
  - cbn [app split_lf]. rewrite IH. destruct (b =? 10).
    + exists [], (s1 :: pre). reflexivity.
    + exists (b :: s1), pre. reflexivity.
Qed.

(* measured on the same content, offset_from_end recovers the distance to the end exactly *)
Lemma offset_from_end_exact a l :
  offset_from_end (a ++ l) (first_line_len l) (count_lf l) = blen l.
Proof.
  destruct (split_lf_shape l) as (s & r & Hs & Hf & Hc & Hl).
  destruct (split_lf_app_tail a l s r Hs) as (s1 & pre & Happ).
  unfold offset_from_end. rewrite Happ, rev_app_distr.
  assert (Hn : N.to_nat (count_lf l) = length (rev r)) by (rewrite rev_length; lia).
  rewrite Hn, firstn_app, Nat.sub_diag, firstn_all. cbn [firstn]. rewrite app_nil_r.
  rewrite map_rev, nsum_rev. lia.
Qed.

(* A cursor at byte k (a character boundary) of a multi-line token whose content is unchanged
   comes back at byte k of that token — provided neither quantity was truncated by `as u16`. *)
Theorem multiline_same_offset rs toks idx p k :
  nth_error toks idx = Some p ->
  let after := skipn k (t_content (fst p)) in
  (k <= length (t_content (fst p)))%nat ->
  is_char_boundary (t_content (fst p)) k = true ->
  first_line_len after < 65536 -> count_lf after < 65536 ->
  relocate rs toks idx (PMultiline (u16 (first_line_len after)) (u16 (count_lf after)))
  = Some (Z.of_N (offset_for_token rs toks idx + N.of_nat k)).
Proof.
  intros Hn after Hk Hb H1 H2. rewrite (relocate_in_range _ _ _ _ _ Hn). unfold relocate_at.
  rewrite !u16_small by assumption.
  assert (Hofe : offset_from_end (t_content (fst p)) (first_line_len after) (count_lf after) = blen after).
  { rewrite <- (firstn_skipn k (t_content (fst p))) at 1. apply offset_from_end_exact. }
  rewrite Hofe.
  pose proof (blen_firstn_skipn k (t_content (fst p))) as Hsum. fold after in Hsum.
  assert (Hfk : blen (firstn k (t_content (fst p))) = N.of_nat k)
    by (unfold blen; rewrite firstn_length_le by exact Hk; reflexivity).
  replace (Z.to_nat (Z.of_N (blen (t_content (fst p))) - Z.of_N (N.min (blen after) (blen (t_content (fst p))))))
    with k by lia.
  rewrite floor_char_boundary_id by exact Hb. f_equal. lia.
Qed.

(* the same, stated on what process_cursors computes for a raw multi-line token *)
Theorem multiline_roundtrip rs raw ridx t tp toks idx p :
  is_multiline_raw (r_ty t) = true ->
  (0 <= tp <= Z.of_N (blen (r_content t)))%Z ->
  is_char_boundary (r_content t) (Z.to_nat tp) = true ->
  nth_error toks idx = Some p -> t_content (fst p) = r_content t ->
  blen (r_content t) < 65536 ->
  relocate rs toks idx (tokpos_of raw ridx t tp)
  = Some (Z.of_N (offset_for_token rs toks idx) + tp)%Z.
Proof.
  intros Hm Htp Hb Hn Hc Hsmall. unfold tokpos_of.
  assert (E : (0 <=? tp)%Z = true) by (apply Z.leb_le; lia). rewrite E, Hm, <- Hc.
  assert (Hk : (Z.to_nat tp <= length (t_content (fst p)))%nat) by (rewrite Hc; unfold blen in Htp; lia).
  pose proof (first_line_len_le (skipn (Z.to_nat tp) (t_content (fst p)))) as H1.
  pose proof (count_lf_le (skipn (Z.to_nat tp) (t_content (fst p)))) as H2.
  pose proof (blen_firstn_skipn (Z.to_nat tp) (t_content (fst p))) as H3. rewrite Hc in H3 at 3.
  rewrite <- Hc in Hb.
  rewrite (multiline_same_offset rs toks idx p (Z.to_nat tp) Hn Hk Hb) by lia.
  f_equal. lia.
Qed.

Example multiline_roundtrip_ex :
  let rs := mkRS [10] [32;32] [32;32] in
  let t : rtok := ([32], [39;39;39;10;97;10;39;39;39], RTT_TextLiteral TK_MultiLine) in
  let p := (mkToken [] [39;39;39;10;97;10;39;39;39] (TT_TextLiteral TK_MultiLine), mkFmt false 0 0 0 1) in
  is_multiline_raw (r_ty t) = true /\ nth_error [p] 0 = Some p /\
  is_char_boundary (r_content t) (Z.to_nat 5) = true /\
  tokpos_of [t] 0 t 5 = PMultiline 0 1 /\ relocate rs [p] 0 (tokpos_of [t] 0 t 5) = Some 6%Z.
Proof. repeat split; reflexivity. Qed.

(* F19: when the line after the cursor is 65 536 bytes long, `reverse_col as u16` is 0 and the
   cursor at the START of an unchanged token is reported at its END. *)
Lemma first_line_len_repeat n : first_line_len (repeat 97 n) = N.of_nat n.
Proof. induction n as [|n IH]; [reflexivity|]. cbn [repeat first_line_len]. change (97 =? 10) with false. cbv iota. rewrite IH. lia. Qed.

Lemma count_lf_repeat n : count_lf (repeat 97 n) = 0.
Proof. induction n as [|n IH]; [reflexivity|]. cbn [repeat count_lf]. change (97 =? 10) with false. cbv iota. rewrite IH. reflexivity. Qed.

Theorem multiline_u16_truncation_refuted :
  exists rs p,
    let after := skipn 0 (t_content (fst p)) in
    nth_error [p] 0 = Some p /\ first_line_len after = 65536 /\
    relocate rs [p] 0 (PMultiline (u16 (first_line_len after)) (u16 (count_lf after)))
    = Some 65536%Z /\ offset_for_token rs [p] 0 = 0.
Proof.
  pose (n := N.to_nat 65536). assert (Hn : N.of_nat n = 65536) by apply N2Nat.id. clearbody n.
  exists (mkRS [10] [32;32] [32;32]),
    (mkToken [] (repeat 97 n) (TT_Comment CoK_MultilineBlock), mkFmt false 0 0 0 0).
  cbv zeta. cbn [skipn fst t_content nth_error].
  rewrite first_line_len_repeat, count_lf_repeat, Hn.
  split; [reflexivity|]. split; [reflexivity|]. split; [|reflexivity].
  unfold relocate, relocate_target. cbn [nth_error]. unfold relocate_at.
  cbn [fst t_content offset_for_token]. change (u16 65536) with 0. change (u16 0) with 0.
  unfold offset_from_end. change (N.to_nat 0) with 0%nat. cbn [firstn map nsum].
  unfold blen. rewrite repeat_length, Hn.
  pose proof (is_char_boundary_len (repeat 97 n)) as Hb. rewrite repeat_length in Hb.
  change (N.min (0 + 0) 65536) with 0. change (Z.of_N 0) with 0%Z. rewrite Z.sub_0_r.
  replace (Z.to_nat (Z.of_N 65536)) with n by (rewrite <- Hn; lia).
  rewrite floor_char_boundary_id by exact Hb. replace (Z.of_nat n) with 65536%Z by lia. reflexivity.
Qed.

(* ------------------------------------------------------------------ *)
(* process_cursors *)

Definition raw_len (toks : list rtok) : N := nsum (map (fun t => blen (r_str t)) toks).

(* the search: the cursor is decomposed as (text of the tokens before idx) + ws + tok_pos, with
   -|ws| <= tok_pos <= |content| *)
Lemma find_cursor_spec toks : forall i0 rem idx t tp,
  (0 <= rem)%Z -> find_cursor toks i0 rem = Some (idx, t, tp) ->
  exists pre post,
    toks = pre ++ t :: post /\ idx = (i0 + length pre)%nat /\
    rem = (Z.of_N (raw_len pre) + Z.of_N (blen (r_ws t)) + tp)%Z /\
    (- Z.of_N (blen (r_ws t)) <= tp <= Z.of_N (blen (r_content t)))%Z /\
    (pre <> [] -> - Z.of_N (blen (r_ws t)) < tp)%Z.
Proof.
  induction toks as [|q r IH]; intros i0 rem idx t tp Hrem Hf; [discriminate|].
  cbn [find_cursor] in Hf. unfold r_str in Hf. rewrite blen_app in Hf.
  destruct (rem <=? Z.of_N (blen (r_ws q) + blen (r_content q)))%Z eqn:E.
  - apply Z.leb_le in E. injection Hf as <- <- <-. exists [], r.
    repeat split; try (cbn; lia). intros H; congruence.
  - apply Z.leb_gt in E.
    assert (Hrem' : (0 <= rem - Z.of_N (blen (r_ws q) + blen (r_content q)))%Z) by lia.
    destruct (IH (S i0) _ idx t tp Hrem' Hf) as (pre & post & -> & -> & Hr & Hb & Hs).
    exists (q :: pre), post. unfold raw_len in *. cbn [map nsum length]. unfold r_str at 1.
    rewrite blen_app. repeat split; try lia.
    intros _. destruct pre as [|q' pre'].
    + cbn [map nsum] in Hr. lia.
    + apply Hs. discriminate.
Qed.

Lemma find_cursor_past toks : forall i0 rem,
  (Z.of_N (raw_len toks) < rem)%Z -> find_cursor toks i0 rem = None.
Proof.
  induction toks as [|q r IH]; intros i0 rem H; [reflexivity|].
  unfold raw_len in H. cbn [map nsum] in H. fold (raw_len r) in H. cbn [find_cursor].
  assert (E : (rem <=? Z.of_N (blen (r_str q)))%Z = false) by (apply Z.leb_gt; lia).
  rewrite E. apply IH. lia.
Qed.

Lemma find_cursor_found toks : forall i0 rem,
  toks <> [] -> (rem <= Z.of_N (raw_len toks))%Z -> find_cursor toks i0 rem <> None.
Proof.
  induction toks as [|q r IH]; intros i0 rem Hne H; [congruence|].
  unfold raw_len in H. cbn [map nsum] in H. fold (raw_len r) in H. cbn [find_cursor].
  destruct (rem <=? Z.of_N (blen (r_str q)))%Z eqn:E; [discriminate|]. apply Z.leb_gt in E.
  destruct r as [|q' r']; [cbn in H; lia|]. apply IH; [discriminate|lia].
Qed.

Theorem process_cursor_idx toks c : (fst (process_cursor toks c) <= length toks)%nat.
Proof.
  unfold process_cursor. destruct (find_cursor toks 0 (Z.of_N c)) as [[[idx t] tp]|] eqn:E; [|cbn; lia].
  destruct (find_cursor_spec toks 0 _ idx t tp (N2Z.is_nonneg c) E) as (pre & post & -> & -> & _).
  cbn [fst]. rewrite app_length. cbn [length]. lia.
Qed.

Theorem process_cursor_past_end toks c :
  raw_len toks < c -> process_cursor toks c = (length toks, PContent 0).
Proof. intros H. unfold process_cursor. rewrite find_cursor_past by lia. reflexivity. Qed.

(* a cursor inside the content of an ordinary token: Content{offset} with the true offset *)
Lemma raw_len_cons q l : raw_len (q :: l) = blen (r_ws q) + blen (r_content q) + raw_len l.
Proof. unfold raw_len. cbn [map nsum]. unfold r_str at 1. rewrite blen_app. reflexivity. Qed.

Lemma raw_len_app a b : raw_len (a ++ b) = raw_len a + raw_len b.
Proof. unfold raw_len. rewrite map_app, nsum_app. reflexivity. Qed.

Lemma decomp_unique pre : forall pre' t post t' post' off tp,
  pre ++ t :: post = pre' ++ t' :: post' ->
  (Z.of_N (raw_len pre + blen (r_ws t) + off) = Z.of_N (raw_len pre') + Z.of_N (blen (r_ws t')) + tp)%Z ->
  0 < off <= blen (r_content t) ->
  (- Z.of_N (blen (r_ws t')) <= tp <= Z.of_N (blen (r_content t')))%Z ->
  (pre' <> [] -> - Z.of_N (blen (r_ws t')) < tp)%Z ->
  pre' = pre /\ t' = t.
Proof.
  induction pre as [|q pre IH]; intros pre' t post t' post' off tp Heq Hr Ho Hb Hs.
  - destruct pre' as [|q' pre'']; cbn [app] in Heq.
    + injection Heq as <- _. split; reflexivity.
    + injection Heq as <- _. specialize (Hs ltac:(discriminate)).
      rewrite raw_len_cons in Hr. change (raw_len []) with 0 in Hr. lia.
  - destruct pre' as [|q' pre'']; cbn [app] in Heq.
    + injection Heq as -> _. rewrite raw_len_cons in Hr. change (raw_len []) with 0 in Hr. lia.
    + injection Heq as <- Heq. rewrite !raw_len_cons in Hr.
      destruct (IH pre'' t post t' post' off tp Heq) as [-> ->]; try assumption; try lia.
      * intros Hne. apply Hs. discriminate.
      * split; reflexivity.
Qed.

Theorem process_cursor_content pre t post off :
  is_multiline_raw (r_ty t) = false ->
  0 < off <= blen (r_content t) -> blen (r_content t) < 4294967296 ->
  process_cursor (pre ++ t :: post) (raw_len pre + blen (r_ws t) + off)
  = (length pre, PContent off).
Proof.
  intros Hm Hoff Hsmall. unfold process_cursor.
  destruct (find_cursor (pre ++ t :: post) 0 (Z.of_N (raw_len pre + blen (r_ws t) + off)))
    as [[[idx t'] tp]|] eqn:E.
  - destruct (find_cursor_spec _ 0 _ idx t' tp (N2Z.is_nonneg _) E)
      as (pre' & post' & Heq & -> & Hr & Hb & Hs).
    destruct (decomp_unique pre pre' t post t' post' off tp Heq Hr Hoff Hb Hs) as [-> ->].
    cbn [Nat.add]. f_equal. unfold tokpos_of.
    assert (Htp : tp = Z.of_N off) by lia. subst tp.
    assert (E0 : (0 <=? Z.of_N off)%Z = true) by (apply Z.leb_le; lia).
    rewrite E0, Hm. f_equal. apply u32z_of_N. lia.
  - exfalso. revert E. apply find_cursor_found.
    + destruct pre; discriminate.
    + rewrite raw_len_app, raw_len_cons. lia.
Qed.

Example process_cursor_content_ex :
  let t : rtok := ([32], [98;97;114], RTT_Identifier) in
  let pre : list rtok := [([], [97], RTT_Identifier)] in
  process_cursor (pre ++ t :: []) (raw_len pre + blen (r_ws t) + 2) = (1%nat, PContent 2).
Proof. reflexivity. Qed.

(* ------------------------------------------------------------------ *)
(* end to end *)

(* a cursor beyond the end of the input goes to the end of the output *)
Theorem track_cursor_past_end rs raw final c p :
  raw_len raw < c -> (length final <= length raw)%nat ->
  last_opt final = Some p -> t_content (fst p) = [] ->
  track_cursor rs raw final c = Some (Z.of_N (blen (recon rs false final))).
Proof.
  intros Hc Hlen Hl Hcont. unfold track_cursor. rewrite process_cursor_past_end by exact Hc.
  apply (relocate_past_end_eof _ _ _ _ p); assumption.
Qed.

(* a cursor inside an ordinary token keeps its offset inside that token *)
Theorem track_cursor_content_same_offset rs pre t post final p off :
  is_multiline_raw (r_ty t) = false ->
  0 < off <= blen (r_content t) -> blen (r_content t) < 4294967296 ->
  nth_error final (length pre) = Some p ->
  off <= blen (t_content (fst p)) ->
  is_char_boundary (t_content (fst p)) (N.to_nat off) = true ->
  track_cursor rs (pre ++ t :: post) final (raw_len pre + blen (r_ws t) + off)
  = Some (Z.of_N (offset_for_token rs final (length pre) + off)).
Proof.
  intros Hm Hoff Hs Hn Ho Hb. unfold track_cursor.
  rewrite process_cursor_content by assumption.
  apply (relocate_content_same_offset _ _ _ p); assumption.
Qed.

(* ------------------------------------------------------------------ *)
(* process_cursors slices strings: panic freedom *)

Definition raw_text (toks : list rtok) : bytes := concat (map r_str toks).

(* the byte at the cursor (if any) does not continue a UTF-8 sequence: str::is_char_boundary *)
Definition input_boundary (inp : bytes) (c : N) : Prop :=
  forall b, nth_error inp (N.to_nat c) = Some b -> is_cont b = false.

Lemma raw_text_app a b : raw_text (a ++ b) = raw_text a ++ raw_text b.
Proof. unfold raw_text. rewrite map_app, concat_app. reflexivity. Qed.

Lemma raw_text_len l : blen (raw_text l) = raw_len l.
Proof.
  induction l as [|q l IH]; [reflexivity|].
  unfold raw_text, raw_len in *. cbn [map concat nsum]. rewrite blen_app, IH. reflexivity.
Qed.

Lemma nth_error_skip {A} (a l : list A) k : nth_error (a ++ l) (length a + k) = nth_error l k.
Proof. rewrite nth_error_app2 by lia. f_equal. lia. Qed.

Lemma is_char_boundary_of_byte (l : list N) k :
  (k <= length l)%nat ->
  (forall b : N, nth_error l k = Some b -> is_cont b = false) ->
  is_char_boundary l k = true.
Proof.
  intros Hk Hb. unfold is_char_boundary. destruct k as [|k']; [reflexivity|].
  destruct (nth_error l (S k')) as [b|] eqn:E.
  - rewrite (Hb b eq_refl). reflexivity.
  - apply nth_error_None in E. apply Nat.eqb_eq. lia.
Qed.

(* A cursor on a character boundary of the input never makes process_cursors panic. *)
Theorem process_cursor_ok_boundary toks c :
  input_boundary (raw_text toks) c -> process_cursor_ok toks c = true.
Proof.
  intros Hb. unfold process_cursor_ok.
  destruct (find_cursor toks 0 (Z.of_N c)) as [[[idx t] tp]|] eqn:E; [|reflexivity].
  destruct (find_cursor_spec toks 0 _ idx t tp (N2Z.is_nonneg c) E)
    as (pre & post & -> & _ & Hr & Hbd & _).
  unfold input_boundary in Hb. rewrite raw_text_app in Hb.
  change (raw_text (t :: post)) with (r_str t ++ raw_text post) in Hb. unfold r_str in Hb.
  pose proof (raw_text_len pre) as Hlen. unfold blen in Hlen, Hr, Hbd.
  destruct (0 <=? tp)%Z eqn:E0.
  - apply Z.leb_le in E0. destruct (is_multiline_raw (r_ty t)); [|reflexivity].
    apply is_char_boundary_of_byte; [lia|]. intros b Hnth. apply Hb.
    replace (N.to_nat c) with (length (raw_text pre) + (length (r_ws t) + Z.to_nat tp))%nat by lia.
    rewrite nth_error_skip, <- app_assoc, nth_error_skip.
    rewrite nth_error_app1; [exact Hnth|]. apply nth_error_Some. congruence.
  - apply Z.leb_gt in E0. apply is_char_boundary_of_byte; [unfold blen; lia|].
    intros b Hnth. apply Hb.
    replace (N.to_nat c)
      with (length (raw_text pre) + Z.to_nat (Z.max 0 (Z.of_N (blen (r_ws t)) + tp)))%nat
      by (unfold blen; lia).
    rewrite nth_error_skip, <- app_assoc.
    rewrite nth_error_app1; [exact Hnth|]. apply nth_error_Some. congruence.
Qed.

Example process_cursor_ok_boundary_ex :
  let toks : list rtok := [([], [39;39;39;10;195;169;10;39;39;39], RTT_TextLiteral TK_MultiLine); ([], [], RTT_Eof)] in
  input_boundary (raw_text toks) 4 /\ process_cursor_ok toks 4 = true.
Proof. split; [|reflexivity]. intros b H. vm_compute in H. injection H as <-. reflexivity. Qed.

(* GENUINE FINDING: `--cursor` accepts any byte offset, and an offset inside a multi-byte
   character of a multi-line string / block comment (or of U+3000 leading whitespace) makes
   process_cursors panic in every build (`byte index 5 is not a char boundary`,
   reconstructor.rs:145; str::split_at for whitespace).  Witnesses confirmed with vh trace. *)
Theorem process_cursor_not_boundary_panics_refuted :
  (exists toks c, c <= raw_len toks /\ process_cursor_ok toks c = false /\
     toks = [([], [39;39;39;10;195;169;10;39;39;39], RTT_TextLiteral TK_MultiLine); ([], [], RTT_Eof)])
  /\ (exists toks c, c <= raw_len toks /\ process_cursor_ok toks c = false /\
     toks = [([], [123;195;169;10;125], RTT_Comment CoK_MultilineBlock); ([], [], RTT_Eof)])
  /\ (exists toks c, c <= raw_len toks /\ process_cursor_ok toks c = false /\
     toks = [([227;128;128], [97], RTT_Identifier); ([], [], RTT_Eof)]).
Proof.
  split; [|split].
  - eexists _, 5. split; [|split; [|reflexivity]]; [vm_compute; discriminate|reflexivity].
  - eexists _, 2. split; [|split; [|reflexivity]]; [vm_compute; discriminate|reflexivity].
  - eexists _, 1. split; [|split; [|reflexivity]]; [vm_compute; discriminate|reflexivity].
Qed.

(* ------------------------------------------------------------------ *)
(* narrowing: for tokens shorter than 65 536 bytes `as u16` is the identity *)

Lemma tokpos_of_multiline_exact toks idx t tp :
  is_multiline_raw (r_ty t) = true -> (0 <= tp)%Z -> blen (r_content t) < 65536 ->
  let after := skipn (Z.to_nat tp) (r_content t) in
  tokpos_of toks idx t tp = PMultiline (first_line_len after) (count_lf after).
Proof.
  intros Hm Htp Hs after. unfold tokpos_of.
  assert (E : (0 <=? tp)%Z = true) by (apply Z.leb_le; exact Htp). rewrite E, Hm. fold after.
  pose proof (first_line_len_le after). pose proof (count_lf_le after).
  pose proof (blen_firstn_skipn (Z.to_nat tp) (r_content t)) as H3. fold after in H3.
  rewrite !u16_small by lia. reflexivity.
Qed.

Lemma tokpos_of_content_exact toks idx t tp :
  is_multiline_raw (r_ty t) = false -> (0 <= tp < 4294967296)%Z ->
  tokpos_of toks idx t tp = PContent (Z.to_N tp).
Proof.
  intros Hm Htp. unfold tokpos_of.
  assert (E : (0 <=? tp)%Z = true) by (apply Z.leb_le; lia). rewrite E, Hm, u32z_small by exact Htp.
  reflexivity.
Qed.

(* newlines_after of a whitespace position is exact when the whitespace is short *)
Lemma tokpos_of_whitespace_nla toks idx t tp :
  (tp < 0)%Z -> blen (r_ws t) < 65536 ->
  exists col, tokpos_of toks idx t tp
    = PWhitespace col (count_lf (skipn (Z.to_nat (Z.max 0 (Z.of_N (blen (r_ws t)) + tp))) (r_ws t))).
Proof.
  intros Htp Hs. unfold tokpos_of.
  assert (E : (0 <=? tp)%Z = false) by (apply Z.leb_gt; exact Htp). rewrite E.
  set (k := Z.to_nat (Z.max 0 (Z.of_N (blen (r_ws t)) + tp))).
  pose proof (count_lf_le (skipn k (r_ws t))). pose proof (blen_firstn_skipn k (r_ws t)).
  rewrite (u16_small (count_lf (skipn k (r_ws t)))) by lia. eexists. reflexivity.
Qed.

(* ------------------------------------------------------------------ *)
(* end to end: bounds *)

(* Unconditional in the cursor, the raw tokens, the formatting data and the settings: the only
   assumptions are that there is a token and that the last token (Eof) has no content. *)
Theorem track_cursor_in_bounds rs raw final c :
  final <> [] ->
  (forall p, last_opt final = Some p -> t_content (fst p) = []) ->
  exists z, track_cursor rs raw final c = Some z /\
            (0 <= z <= Z.of_N (blen (recon rs false final)))%Z.
Proof.
  intros Hne Hlast. unfold track_cursor. destruct (process_cursor raw c) as [idx pos] eqn:Ep.
  destruct (nth_error final idx) as [p|] eqn:En.
  - apply (relocate_in_bounds rs final idx pos p En).
  - apply nth_error_None in En. destruct (last_opt final) as [p|] eqn:El.
    + apply (relocate_past_end_in_bounds rs final idx pos p En El). apply Hlast. reflexivity.
    + apply last_opt_none in El. contradiction.
Qed.

(* the wrapped u32 value that is actually stored equals the mathematical one when the output is
   shorter than 4 GiB: no wrap-around *)
Corollary track_cursor_u32_in_bounds rs raw final c :
  final <> [] ->
  (forall p, last_opt final = Some p -> t_content (fst p) = []) ->
  blen (recon rs false final) < 4294967296 ->
  track_cursor_u32 rs raw final c <= blen (recon rs false final) /\
  track_cursor rs raw final c = Some (Z.of_N (track_cursor_u32 rs raw final c)).
Proof.
  intros Hne Hlast Hsmall. destruct (track_cursor_in_bounds rs raw final c Hne Hlast) as (z & Hz & Hb).
  unfold track_cursor_u32. rewrite Hz. rewrite u32z_small by lia. split; [lia|].
  rewrite Z2N.id by lia. reflexivity.
Qed.

(* special cases kept under their old names and statements *)
Corollary track_cursor_in_bounds_formatted rs raw final c :
  final <> [] ->
  (forall p, last_opt final = Some p -> t_content (fst p) = []) ->
  Forall (fun p => f_ignored (snd p) = false) final ->
  exists z, track_cursor rs raw final c = Some z /\
            (0 <= z <= Z.of_N (blen (recon rs false final)))%Z.
Proof. intros Hne Hlast _. apply track_cursor_in_bounds; assumption. Qed.

Corollary track_cursor_in_bounds_lf rs raw final c :
  final <> [] ->
  (forall p, last_opt final = Some p -> t_content (fst p) = []) ->
  nl_len rs <= 1 ->
  Forall (fun p => f_ignored (snd p) = true -> f_nl (snd p) <= count_lf (t_ws (fst p))) final ->
  exists z, track_cursor rs raw final c = Some z /\
            (0 <= z <= Z.of_N (blen (recon rs false final)))%Z.
Proof. intros Hne Hlast _ _. apply track_cursor_in_bounds; assumption. Qed.

(* what FormattingData::from guarantees for ignored tokens; NOT needed for the bounds (they hold
   for any f_nl), stated for reference and used by whitespace_ignored_same_position *)
Definition ignored_nl_ok (toks : list ftoken) : Prop :=
  Forall (fun p => f_ignored (snd p) = true ->
                   f_nl (snd p) = N.min 65535 (count_lf (t_ws (fst p)))) toks.

Corollary track_cursor_in_bounds_ignored_nl_ok rs raw final c :
  final <> [] ->
  (forall p, last_opt final = Some p -> t_content (fst p) = []) ->
  ignored_nl_ok final ->
  exists z, track_cursor rs raw final c = Some z /\
            (0 <= z <= Z.of_N (blen (recon rs false final)))%Z.
Proof. intros Hne Hlast _. apply track_cursor_in_bounds; assumption. Qed.

Example track_cursor_in_bounds_ex :
  let rs := rs_of_config false false 2 2 in
  let raw : list rtok := [([], [97], RTT_Identifier); ([10;10;10], [], RTT_Eof)] in
  let final : list ftoken := [(mkToken [] [97] TT_Identifier, mkFmt false 0 0 0 0);
                              (mkToken [10;10;10] [] TT_Eof, mkFmt false 1 0 0 0)] in
  final <> [] /\ (forall p, last_opt final = Some p -> t_content (fst p) = []) /\
  Forall (fun p => f_ignored (snd p) = false) final /\
  map (track_cursor rs raw final) [0;1;2;3;4;5] = [Some 0; Some 1; Some 1; Some 1; Some 2; Some 2]%Z.
Proof.
  cbv zeta. split; [discriminate|]. split; [|split; [|reflexivity]].
  - intros p H. injection H as <-. reflexivity.
  - repeat constructor.
Qed.

Example track_cursor_past_end_ex :
  let rs := rs_of_config false false 2 2 in
  let raw : list rtok := [([], [97], RTT_Identifier); ([10;10;10], [], RTT_Eof)] in
  let p := (mkToken [10;10;10] [] TT_Eof, mkFmt false 1 0 0 0) in
  let final : list ftoken := [(mkToken [] [97] TT_Identifier, mkFmt false 0 0 0 0); p] in
  raw_len raw < 7 /\ (length final <= length raw)%nat /\ last_opt final = Some p /\
  t_content (fst p) = [] /\
  track_cursor rs raw final 7 = Some 2%Z.
Proof. cbv zeta. repeat split; reflexivity. Qed.

Example track_cursor_content_same_offset_ex :
  let rs := rs_of_config false false 2 2 in
  let t : rtok := ([32;32;32], [98;97;114], RTT_Identifier) in
  let pre : list rtok := [([], [97], RTT_Identifier)] in
  let p := (mkToken [32;32;32] [98;97;114] TT_Identifier, mkFmt false 0 0 0 1) in
  let final : list ftoken := [(mkToken [] [97] TT_Identifier, mkFmt false 0 0 0 0); p] in
  is_multiline_raw (r_ty t) = false /\ 0 < 2 <= blen (r_content t) /\
  nth_error final (length pre) = Some p /\ 2 <= blen (t_content (fst p)) /\
  is_char_boundary (t_content (fst p)) (N.to_nat 2) = true /\
  track_cursor rs (pre ++ t :: []) final (raw_len pre + blen (r_ws t) + 2) = Some 4%Z.
Proof. cbv zeta. repeat split; try reflexivity; vm_compute; congruence. Qed.

Example ws_back_ok_ignored_lf_ex :
  let rs := rs_of_config false false 2 2 in
  let p := (mkToken [10;10;10] [] TT_Eof, mkFmt true 3 0 0 0) in
  f_ignored (snd p) = true /\ nl_len rs <= 1 /\ f_nl (snd p) <= count_lf (t_ws (fst p)).
Proof. cbv zeta. repeat split; vm_compute; congruence. Qed.

Example whitespace_no_underflow_ex :
  let p := (mkToken [10;10;10;10;10;10] [] TT_Eof, mkFmt true 6 0 0 0) in
  nth_error crlf_final 1 = Some p /\
  relocate_subs crlf_rs crlf_final 1 p (PWhitespace 0 1) = [18%Z].
Proof. split; reflexivity. Qed.

Example multiline_same_offset_ex :
  let rs := rs_of_config false false 2 2 in
  let p := (mkToken [] [123;97;10;98;10;125] (TT_Comment CoK_MultilineBlock), mkFmt false 1 1 0 0) in
  let toks := [(mkToken [] [97] TT_Identifier, mkFmt false 0 0 0 0); p] in
  let after := skipn 3 (t_content (fst p)) in
  nth_error toks 1 = Some p /\ (3 <= length (t_content (fst p)))%nat /\
  is_char_boundary (t_content (fst p)) 3 = true /\
  first_line_len after < 65536 /\ count_lf after < 65536 /\
  relocate rs toks 1 (PMultiline (u16 (first_line_len after)) (u16 (count_lf after))) = Some 7%Z /\
  offset_for_token rs toks 1 = 4.
Proof. cbv zeta. repeat split; try reflexivity; vm_compute; (congruence || lia). Qed.

Example offset_for_token_correct_ex :
  let rs := rs_of_config true false 2 2 in
  let p := (mkToken [] [98] TT_Identifier, mkFmt false 1 1 0 0) in
  let toks := [(mkToken [] [47;47] (TT_Comment CoK_IndividualLine), mkFmt false 0 0 0 0); p;
               (mkToken [] [] TT_Eof, mkFmt false 1 0 0 0)] in
  nth_error toks 1 = Some p /\
  offset_for_token rs toks 1 = 6 /\ recon rs false toks = [47;47;13;10;32;32;98;13;10].
Proof. cbv zeta. repeat split; reflexivity. Qed.

(* harness-confirmed (vh trace on the repaired tree, LF configuration, "// pasfmt off" CRLF CRLF
   CRLF): cursors at line starts (15, 17) stay; before the repair they went to 14 and 15 *)
Example whitespace_ignored_lf_config_crlf_text_real :
  let rs := rs_of_config false false 2 2 in
  let c := [47;47;32;112;97;115;102;109;116;32;111;102;102] in
  let raw : list rtok := [([], c, RTT_Comment CoK_IndividualLine); ([13;10;13;10;13;10], [], RTT_Eof)] in
  let final : list ftoken := [(mkToken [] c (TT_Comment CoK_IndividualLine), mkFmt true 0 0 0 0);
                              (mkToken [13;10;13;10;13;10] [] TT_Eof, mkFmt true 3 0 0 0)] in
  recon rs false final = raw_text raw /\
  map (track_cursor_u32 rs raw final) [13;14;15;16;17;18;19;20] = [13;15;15;15;17;17;19;19].
Proof. split; reflexivity. Qed.

(* ------------------------------------------------------------------ *)
(* the relocated cursor is a character boundary of the OUTPUT *)

(* l does not begin with a UTF-8 continuation byte (true for every valid UTF-8 string) *)
Definition starts_ok (l : list N) : Prop := forall b, nth_error l 0 = Some b -> is_cont b = false.
(* l contains no continuation byte at all (true for ASCII strings) *)
Definition no_cont (l : list N) : Prop := Forall (fun b => is_cont b = false) l.
(* k <= |l| and the byte at k, if any, starts a character *)
Definition boundary_at (l : list N) (k : nat) : Prop :=
  (k <= length l)%nat /\ forall b, nth_error l k = Some b -> is_cont b = false.

Lemma boundary_at_is (l : list N) k : boundary_at l k -> is_char_boundary l k = true.
Proof. intros [H1 H2]. apply is_char_boundary_of_byte; assumption. Qed.

Lemma is_char_boundary_byte (l : list N) k b :
  (0 < k)%nat -> is_char_boundary l k = true -> nth_error l k = Some b -> is_cont b = false.
Proof.
  intros Hk Hb Hn. unfold is_char_boundary in Hb. destruct k as [|k']; [lia|].
  rewrite Hn in Hb. apply negb_true_iff in Hb. exact Hb.
Qed.

Lemma boundary_at_skip (A B : list N) k : boundary_at B k -> boundary_at (A ++ B) (length A + k).
Proof.
  intros [H1 H2]. split; [rewrite app_length; lia|]. intros b. rewrite nth_error_skip. apply H2.
Qed.

Lemma boundary_at_app_in (A B : list N) k :
  (k < length A)%nat -> (forall b, nth_error A k = Some b -> is_cont b = false) ->
  boundary_at (A ++ B) k.
Proof.
  intros Hk H. split; [rewrite app_length; lia|]. intros b. rewrite nth_error_app1 by exact Hk. apply H.
Qed.

Lemma boundary_at_app_end (A B : list N) : starts_ok B -> boundary_at (A ++ B) (length A).
Proof.
  intros H. replace (length A) with (length A + 0)%nat by lia. apply boundary_at_skip.
  split; [lia|exact H].
Qed.

Lemma starts_ok_nil : starts_ok []. Proof. intros b H. discriminate. Qed.

Lemma starts_ok_app (A B : list N) : starts_ok A -> starts_ok B -> starts_ok (A ++ B).
Proof. destruct A as [|a A']; intros HA HB; [exact HB|exact HA]. Qed.

Lemma starts_ok_repeat_app n (s : list N) : starts_ok s -> starts_ok (repeat_app n s).
Proof. intros H. induction n as [|n IH]; cbn [repeat_app]; [apply starts_ok_nil|apply starts_ok_app; assumption]. Qed.

Lemma no_cont_starts_ok (l : list N) : no_cont l -> starts_ok l.
Proof. intros H b Hb. destruct l as [|a t]; [discriminate|]. injection Hb as <-. inversion H; assumption. Qed.

Lemma no_cont_app (A B : list N) : no_cont A -> no_cont B -> no_cont (A ++ B).
Proof. intros HA HB. apply Forall_app. split; assumption. Qed.

Lemma no_cont_repeat_app n (s : list N) : no_cont s -> no_cont (repeat_app n s).
Proof. apply Forall_repeat_app. Qed.

Lemma no_cont_nth (l : list N) k b : no_cont l -> nth_error l k = Some b -> is_cont b = false.
Proof. intros H Hn. unfold no_cont in H. rewrite Forall_forall in H. apply H. exact (nth_error_In _ _ Hn). Qed.

(* what the pieces of the output must satisfy; every valid UTF-8 string satisfies starts_ok *)
Definition rs_starts_ok (rs : rsettings) : Prop :=
  starts_ok (rs_newline rs) /\ starts_ok (rs_indent rs) /\ starts_ok (rs_cont rs).
Definition tok_starts_ok (p : ftoken) : Prop :=
  starts_ok (t_ws (fst p)) /\ starts_ok (t_content (fst p)).
Definition pieces_ok (rs : rsettings) (toks : list ftoken) : Prop :=
  rs_starts_ok rs /\ Forall tok_starts_ok toks.
(* the newline / indentation / continuation strings are ASCII (rs_of_config always is) *)
Definition rs_no_cont (rs : rsettings) : Prop :=
  no_cont (rs_newline rs) /\ no_cont (rs_indent rs) /\ no_cont (rs_cont rs).

Lemma rs_no_cont_starts_ok rs : rs_no_cont rs -> rs_starts_ok rs.
Proof. intros (H1 & H2 & H3). repeat split; apply no_cont_starts_ok; assumption. Qed.

Lemma rs_of_config_no_cont crlf tabs tw ci : rs_no_cont (rs_of_config crlf tabs tw ci).
Proof.
  unfold rs_of_config, rs_new, rs_no_cont.
  destruct tabs; cbn [rs_newline rs_indent rs_cont]; repeat split;
    try (destruct crlf; repeat constructor);
    unfold nrepeat; apply no_cont_repeat_app; repeat constructor.
Qed.

Lemma starts_ok_emit_ws rs mb p : rs_starts_ok rs -> starts_ok (t_ws (fst p)) -> starts_ok (emit_ws rs mb p).
Proof.
  intros (H1 & H2 & H3) Hw. destruct p as [tok f]. cbn [fst] in Hw. unfold emit_ws.
  assert (H32 : starts_ok [32]) by (intros b Hb; injection Hb as <-; reflexivity).
  destruct (f_ignored f).
  - apply starts_ok_app; [|exact Hw]. destruct (_ && _ && _); [exact H1|apply starts_ok_nil].
  - unfold nrepeat. repeat apply starts_ok_app; apply starts_ok_repeat_app; assumption.
Qed.

Lemma no_cont_emit_ws rs mb p :
  rs_no_cont rs -> (f_ignored (snd p) = true -> no_cont (t_ws (fst p))) -> no_cont (emit_ws rs mb p).
Proof.
  intros (H1 & H2 & H3) Hw. destruct p as [tok f]. cbn [fst snd] in Hw. unfold emit_ws.
  assert (H32 : no_cont [32]) by (repeat constructor).
  destruct (f_ignored f).
  - apply no_cont_app; [|apply Hw; reflexivity]. destruct (_ && _ && _); [exact H1|constructor].
  - unfold nrepeat. repeat apply no_cont_app; apply no_cont_repeat_app; assumption.
Qed.

Lemma recon_starts_ok rs l : rs_starts_ok rs -> Forall tok_starts_ok l -> forall mb, starts_ok (recon rs mb l).
Proof.
  intros Hrs Hl. induction Hl as [|p r [Hw Hc] Hr IH]; intros mb; [apply starts_ok_nil|].
  cbn [recon]. apply starts_ok_app; [apply starts_ok_emit_ws; assumption|].
  apply starts_ok_app; [exact Hc|apply IH].
Qed.

Lemma Forall_skipn' {A} (P : A -> Prop) n (l : list A) : Forall P l -> Forall P (skipn n l).
Proof. intros H. rewrite <- (firstn_skipn n l) in H. apply Forall_app in H. apply H. Qed.

Lemma net_free_firstn l : forall mb n, net_free mb l = true -> net_free mb (firstn n l) = true.
Proof.
  induction l as [|p r IH]; intros mb n H; [destruct n; reflexivity|].
  destruct n as [|n]; [reflexivity|]. cbn [firstn net_free] in *.
  apply andb_true_iff in H. destruct H as [H1 H2]. rewrite H1. cbn [andb]. apply IH, H2.
Qed.

Lemma net_free_at toks : forall mb idx p,
  nth_error toks idx = Some p -> net_free mb (firstn (S idx) toks) = true ->
  net_fires (mb_after mb (firstn idx toks)) p = false.
Proof.
  induction toks as [|q r IH]; intros mb idx p Hn Hf; [destruct idx; discriminate|].
  cbn [firstn net_free] in Hf. apply andb_true_iff in Hf. destruct Hf as [Hq Hr].
  destruct idx as [|j]; cbn [nth_error] in Hn.
  - injection Hn as <-. cbn [firstn]. apply negb_true_iff in Hq. exact Hq.
  - cbn [firstn]. rewrite mb_after_cons. apply (IH _ j p Hn Hr).
Qed.

(* l has no continuation byte directly after an LF.  True for every valid UTF-8 string (a
   continuation byte only follows a byte >= 0x80): cont_preceded_after_lf_ok. *)
Definition after_lf_ok (l : list N) : Prop :=
  forall i b, nth_error l i = Some 10 -> nth_error l (S i) = Some b -> is_cont b = false.

Definition cont_preceded (l : list N) : Prop :=
  forall i b, nth_error l (S i) = Some b -> is_cont b = true ->
              exists a, nth_error l i = Some a /\ 128 <= a.

Lemma cont_preceded_after_lf_ok l : cont_preceded l -> after_lf_ok l.
Proof.
  intros H i b H10 Hb. destruct (is_cont b) eqn:E; [|reflexivity].
  destruct (H i b Hb E) as (a & Ha & Hge). rewrite H10 in Ha. injection Ha as <-. lia.
Qed.

Lemma no_cont_after_lf_ok l : no_cont l -> after_lf_ok l.
Proof. intros H i b _ Hb. exact (no_cont_nth _ _ _ H Hb). Qed.

Lemma ws_part_ignored rs p : f_ignored (snd p) = true -> ws_part rs p = t_ws (fst p).
Proof. destruct p as [tok f]. cbn [snd fst]. intros Hi. unfold ws_part. rewrite Hi. reflexivity. Qed.

Lemma no_cont_ws_part rs p : rs_no_cont rs -> f_ignored (snd p) = false -> no_cont (ws_part rs p).
Proof.
  intros (H1 & H2 & H3) Hi. destruct p as [tok f]. cbn [snd] in Hi. unfold ws_part. rewrite Hi.
  assert (H32 : no_cont [32]) by (repeat constructor).
  unfold nrepeat. repeat apply no_cont_app; apply no_cont_repeat_app; assumption.
Qed.

(* where a whitespace cursor in front of an IGNORED token lands: at offset i of the token's
   verbatim whitespace, where the byte at i (if i > 0) starts a character *)
Lemma whitespace_ignored_landing rs toks idx p col nla :
  f_ignored (snd p) = true -> after_lf_ok (t_ws (fst p)) ->
  exists i, relocate_at rs toks idx p (PWhitespace col nla)
            = (Z.of_N (offset_for_token rs toks idx) - Z.of_N (blen (t_ws (fst p))) + Z.of_nat i)%Z
            /\ (i <= length (t_ws (fst p)))%nat
            /\ forall b, (0 < i)%nat -> nth_error (t_ws (fst p)) i = Some b -> is_cont b = false.
Proof.
  intros Hi Hlf. unfold relocate_at.
  assert (Hws : ws_len rs p = blen (t_ws (fst p))).
  { destruct p as [tok f]. cbn [snd fst] in *. unfold ws_len. rewrite Hi. reflexivity. }
  destruct (0 <? N.min nla (f_nl (snd p))).
  - unfold kept_len. rewrite Hi, Hws.
    set (k := N.to_nat (f_nl (snd p) - lines_back (f_nl (snd p)) nla)).
    pose proof (kept_len_ignored_le (t_ws (fst p)) k) as Hle.
    exists (N.to_nat (kept_len_ignored (t_ws (fst p)) k)). split; [lia|]. split; [unfold blen in Hle; lia|].
    intros b Hpos Hb. destruct (kept_len_ignored_cases (t_ws (fst p)) k) as [H0|(pos & Hk & H10)].
    + rewrite H0 in Hpos. cbn in Hpos. lia.
    + rewrite Hk in Hb. replace (N.to_nat (pos + 1)) with (S (N.to_nat pos)) in Hb by lia.
      exact (Hlf _ _ H10 Hb).
  - pose proof (nonbreaking_le_ws_ignored rs p Hi) as Hle.
    destruct (nonbreaking_ws_len rs p) as [wl bf]. cbn [fst] in Hle.
    set (cws := if bf then 0 else col_for_token_end_post_fmt rs toks idx).
    pose proof (clamp_bounds col cws (cws + wl) ltac:(lia)) as Hc.
    unfold ws_back_adjust. rewrite Hi.
    set (i0 := (Z.of_N (blen (t_ws (fst p))) - (Z.of_N (cws + wl) - Z.of_N (clamp col cws (cws + wl))))%Z).
    destruct (floor_char_boundary_spec (t_ws (fst p)) (Z.to_nat i0)) as [H1 H2].
    exists (floor_char_boundary (t_ws (fst p)) (Z.to_nat i0)). split; [lia|].
    split; [unfold i0, blen in *; lia|].
    intros b Hpos Hb. exact (is_char_boundary_byte (t_ws (fst p)) _ b Hpos H2 Hb).
Qed.

(* NEW: a relocated cursor is a character boundary of the output.
   Content / MultilineContent positions: always, given that no piece of the output starts with a
   continuation byte (all pieces are valid UTF-8).
   Whitespace positions: for formatted tokens when the settings' strings are ASCII; for ignored
   tokens (verbatim whitespace, possibly with U+3000) when no continuation byte directly follows
   an LF in that whitespace (after_lf_ok — implied by valid UTF-8).
   No "no safety net" proviso since commit 65fa795: a whitespace cursor in front of a token that
   receives the added line break lands after that line break. *)
Theorem relocate_on_char_boundary rs toks idx pos p z :
  nth_error toks idx = Some p ->
  pieces_ok rs toks ->
  match pos with
  | PWhitespace _ _ => rs_no_cont rs /\ (f_ignored (snd p) = true -> after_lf_ok (t_ws (fst p)))
  | _ => True
  end ->
  relocate rs toks idx pos = Some z ->
  is_char_boundary (recon rs false toks) (Z.to_nat z) = true.
Proof.
  intros Hn [Hrs Hall] Hpos Hz.
  destruct (offset_for_token_correct rs toks idx p Hn) as (pre & post & Hrec & Hlen & Hpre & Hpost).
  assert (Hp : tok_starts_ok p).
  { rewrite Forall_forall in Hall. apply Hall. exact (nth_error_In _ _ Hn). }
  destruct Hp as [Hpw Hpc].
  assert (Hpost_ok : starts_ok post).
  { rewrite Hpost. apply recon_starts_ok; [exact Hrs|apply Forall_skipn', Hall]. }
  apply boundary_at_is. rewrite Hrec.
  destruct pos as [off|rc nla|col nla].
  1,2: (match type of Hz with relocate _ _ _ ?q = _ =>
      destruct (relocate_char_boundary rs toks idx p q Hn I) as (k & Hk & Hle & Hb) end;
    rewrite Hk in Hz; injection Hz as <-;
    replace (Z.to_nat (Z.of_N (offset_for_token rs toks idx) + Z.of_nat k)) with (length pre + k)%nat
      by (unfold blen in Hlen; lia);
    apply boundary_at_skip;
    destruct (Nat.eq_dec k (length (t_content (fst p)))) as [->|Hne];
    [apply boundary_at_app_end, Hpost_ok|];
    apply boundary_at_app_in; [lia|]; intros b Hb';
    destruct k as [|k']; [apply Hpc, Hb'|apply (is_char_boundary_byte (t_content (fst p)) (S k') b); [lia|exact Hb|exact Hb']]).
  (* whitespace: the output is pre0 ++ (added line break) ++ W ++ content ++ post, |W| = ws_len,
     and the cursor lands inside W *)
  destruct Hpos as [Hrsn Hign].
  rewrite emit_ws_split in Hpre.
  set (NP := net_part rs (mb_after false (firstn idx toks)) p) in *.
  set (W := ws_part rs p) in *.
  assert (HWlen : blen W = ws_len rs p) by apply ws_part_len.
  set (pre0 := recon rs false (firstn idx toks)) in *.
  assert (Hpre' : pre = (pre0 ++ NP) ++ W) by (rewrite Hpre, <- app_assoc; reflexivity).
  rewrite Hpre', <- app_assoc.
  assert (Hsum : blen (pre0 ++ NP) + blen W = offset_for_token rs toks idx)
    by (rewrite <- Hlen, Hpre'; symmetry; apply blen_app).
  rewrite (relocate_in_range _ _ _ _ _ Hn) in Hz.
  assert (Hzeq : relocate_at rs toks idx p (PWhitespace col nla) = z) by congruence.
  clear Hz. subst z.
  destruct (f_ignored (snd p)) eqn:Hi.
  - (* verbatim whitespace *)
    destruct (whitespace_ignored_landing rs toks idx p col nla Hi (Hign eq_refl)) as (i & Hrel & Hile & Hbyte).
    assert (HW : W = t_ws (fst p)) by (apply ws_part_ignored; exact Hi).
    assert (Hws : ws_len rs p = blen (t_ws (fst p))) by (rewrite <- HWlen, HW; reflexivity).
    rewrite Hrel.
    replace (Z.to_nat (Z.of_N (offset_for_token rs toks idx) - Z.of_N (blen (t_ws (fst p))) + Z.of_nat i))
      with (length (pre0 ++ NP) + i)%nat by (unfold blen in *; lia).
    apply boundary_at_skip. rewrite HW.
    destruct (Nat.eq_dec i (length (t_ws (fst p)))) as [->|Hne].
    + apply boundary_at_app_end. apply starts_ok_app; assumption.
    + apply boundary_at_app_in; [lia|]. intros b Hb. destruct i as [|i']; [apply Hpw, Hb|].
      apply (Hbyte b); [lia|exact Hb].
  - (* emitted (ASCII) whitespace *)
    destruct (relocate_within_token rs toks idx (PWhitespace col nla) p Hn) as (z' & Hz' & Hlo & Hhi).
    rewrite (relocate_in_range _ _ _ _ _ Hn) in Hz'.
    assert (Hzeq : relocate_at rs toks idx p (PWhitespace col nla) = z') by congruence.
    clear Hz'. subst z'.
    set (z := relocate_at rs toks idx p (PWhitespace col nla)) in *.
    assert (HE : no_cont W) by (apply no_cont_ws_part; assumption).
    replace (Z.to_nat z) with (length (pre0 ++ NP) + Z.to_nat (z - Z.of_N (blen (pre0 ++ NP))))%nat
      by (unfold blen in *; lia).
    apply boundary_at_skip.
    set (j := Z.to_nat (z - Z.of_N (blen (pre0 ++ NP)))).
    assert (Hj : (j <= length W)%nat) by (unfold j, blen in *; lia).
    destruct (Nat.eq_dec j (length W)) as [->|Hne].
    + apply boundary_at_app_end. apply starts_ok_app; assumption.
    + apply boundary_at_app_in; [lia|]. intros b Hb. exact (no_cont_nth _ _ _ HE Hb).
Qed.

Theorem relocate_on_char_boundary_content rs toks idx pos p z :
  nth_error toks idx = Some p ->
  pieces_ok rs toks ->
  match pos with PWhitespace _ _ => False | _ => True end ->
  relocate rs toks idx pos = Some z ->
  is_char_boundary (recon rs false toks) (Z.to_nat z) = true.
Proof.
  intros Hn Hp Hpos Hz. apply (relocate_on_char_boundary rs toks idx pos p z Hn Hp); [|exact Hz].
  destruct pos; [exact I|exact I|contradiction].
Qed.

(* end to end, for every cursor (found, in whitespace, or past the end) *)
Theorem track_cursor_on_char_boundary rs raw final c z :
  final <> [] ->
  (forall p, last_opt final = Some p -> t_content (fst p) = []) ->
  pieces_ok rs final -> rs_no_cont rs ->
  Forall (fun p => f_ignored (snd p) = true -> after_lf_ok (t_ws (fst p))) final ->
  track_cursor rs raw final c = Some z ->
  is_char_boundary (recon rs false final) (Z.to_nat z) = true.
Proof.
  intros Hne Hlast Hp Hrs Hws. unfold track_cursor.
  destruct (process_cursor raw c) as [idx pos]. intros Hz.
  destruct (nth_error final idx) as [p|] eqn:En.
  - apply (relocate_on_char_boundary rs final idx pos p z En Hp); [|exact Hz].
    destruct pos; try exact I. split; [exact Hrs|].
    rewrite Forall_forall in Hws. apply Hws. exact (nth_error_In _ _ En).
  - apply nth_error_None in En. destruct (last_opt final) as [p|] eqn:El.
    + rewrite (relocate_past_end_eof rs final idx pos p En El (Hlast p eq_refl)) in Hz.
      injection Hz as <-. unfold blen.
      replace (Z.to_nat (Z.of_N (N.of_nat (length (recon rs false final))))) with (length (recon rs false final)) by lia.
      apply is_char_boundary_len.
    + apply last_opt_none in El. contradiction.
Qed.

(* the same for Content / MultilineContent cursors only, with no assumption on the whitespace *)
Theorem track_cursor_on_char_boundary_content rs raw final c idx pos z :
  pieces_ok rs final ->
  process_cursor raw c = (idx, pos) -> (idx < length final)%nat ->
  match pos with PWhitespace _ _ => False | _ => True end ->
  track_cursor rs raw final c = Some z ->
  is_char_boundary (recon rs false final) (Z.to_nat z) = true.
Proof.
  intros Hp Hpc Hidx Hpos. unfold track_cursor. rewrite Hpc. intros Hz.
  destruct (nth_error final idx) as [p|] eqn:En; [|apply nth_error_None in En; lia].
  exact (relocate_on_char_boundary_content rs final idx pos p z En Hp Hpos Hz).
Qed.

(* F9 regression: `a; //é` with --cursor 7 (the end of the comment).  The comment becomes `// é`
   (a space is inserted); byte arithmetic on the old text gave 7 = the middle of `é`; the
   repaired code reports 6, a character boundary (confirmed with vh trace). *)
Definition f9_rs : rsettings := rs_of_config false false 2 2.
Definition f9_raw : list rtok :=
  [([], [97], RTT_Identifier); ([], [59], RTT_Op OK_Semicolon);
   ([32], [47;47;195;169], RTT_Comment CoK_InlineLine); ([], [], RTT_Eof)].
Definition f9_final : list ftoken :=
  [(mkToken [] [97] TT_Identifier, mkFmt false 0 0 0 0);
   (mkToken [] [59] (TT_Op OK_Semicolon), mkFmt false 0 0 0 0);
   (mkToken [] [47;47;32;195;169] (TT_Comment CoK_InlineLine), mkFmt false 0 0 0 1);
   (mkToken [] [] TT_Eof, mkFmt false 1 0 0 0)].

Example cursor_mid_char_fixed_example :
  recon f9_rs false f9_final = [97;59;32;47;47;32;195;169;10] /\
  track_cursor f9_rs f9_raw f9_final 7 = Some 6%Z /\
  is_char_boundary (recon f9_rs false f9_final) 6 = true /\
  is_char_boundary (recon f9_rs false f9_final) 7 = false /\      (* where it used to land *)
  (* the hypotheses of track_cursor_on_char_boundary hold for this instance *)
  pieces_ok f9_rs f9_final /\ rs_no_cont f9_rs /\
  map (track_cursor_u32 f9_rs f9_raw f9_final) [0;1;2;3;4;5;6;7;8] = [0;1;2;3;4;5;6;6;9].
Proof.
  repeat split; try reflexivity; try apply rs_of_config_no_cont.
  - apply rs_no_cont_starts_ok, rs_of_config_no_cont.
  - apply rs_no_cont_starts_ok, rs_of_config_no_cont.
  - apply rs_no_cont_starts_ok, rs_of_config_no_cont.
  - repeat constructor; intros b Hb; try discriminate; injection Hb as <-; reflexivity.
Qed.

(* Regression (third site of the F9 class, repaired by commit c3b0c3f): a whitespace cursor in
   VERBATIM non-ASCII whitespace.  Input `a  ;<U+3000><U+3000>// pasfmt off` LF `b;` LF, cursor
   7 = between the two U+3000.  `a  ;` becomes `a;`, the ignored comment keeps its 6 bytes of
   whitespace; the column arithmetic of the same-line branch (col 7, clamped to [2, 8]) gave output
   byte 7 = the last byte of the second U+3000; the repaired code steps back to 5, the boundary
   between the two blanks (vh trace on a harness built from c3b0c3f: cursors 4,7,10 -> 2,5,8). *)
Definition u3000_raw : list rtok :=
  [([], [97], RTT_Identifier); ([32;32], [59], RTT_Op OK_Semicolon);
   ([227;128;128;227;128;128], [47;47;32;112;97;115;102;109;116;32;111;102;102], RTT_Comment CoK_InlineLine);
   ([10], [98], RTT_Identifier); ([], [59], RTT_Op OK_Semicolon); ([10], [], RTT_Eof)].
Definition u3000_final : list ftoken :=
  [(mkToken [] [97] TT_Identifier, mkFmt false 0 0 0 0);
   (mkToken [32;32] [59] (TT_Op OK_Semicolon), mkFmt false 0 0 0 0);
   (mkToken [227;128;128;227;128;128] [47;47;32;112;97;115;102;109;116;32;111;102;102]
      (TT_Comment CoK_InlineLine), mkFmt true 0 0 0 1);
   (mkToken [10] [98] TT_Identifier, mkFmt true 1 0 0 0);
   (mkToken [] [59] (TT_Op OK_Semicolon), mkFmt true 0 0 0 0);
   (mkToken [10] [] TT_Eof, mkFmt true 1 0 0 0)].

Theorem whitespace_verbatim_mid_char_fixed_example :
  exists rs raw final c idx col nla z,
    input_boundary (raw_text raw) c /\                 (* the cursor is on a character boundary *)
    process_cursor raw c = (idx, PWhitespace col nla) /\
    pieces_ok rs final /\ rs_no_cont rs /\
    Forall (fun p => f_ignored (snd p) = true -> after_lf_ok (t_ws (fst p))) final /\
    track_cursor rs raw final c = Some z /\ z = 5%Z /\
    is_char_boundary (recon rs false final) (Z.to_nat z) = true /\
    is_char_boundary (recon rs false final) 7 = false /\           (* where it used to land *)
    map (track_cursor_u32 rs raw final) [4;7;10] = [2;5;8].
Proof.
  exists f9_rs, u3000_raw, u3000_final, 7, 2%nat, 7, 0, 5%Z.
  repeat split; try reflexivity; try apply rs_of_config_no_cont;
    try (apply rs_no_cont_starts_ok, rs_of_config_no_cont).
  - intros b Hb. vm_compute in Hb. injection Hb as <-. reflexivity.
  - repeat constructor; intros b Hb; try discriminate; injection Hb as <-; reflexivity.
  - repeat constructor; intros _ i b H10 Hb; cbn [fst t_ws] in *;
      repeat (destruct i as [|i]; cbn [nth_error] in *; try discriminate).
Qed.

(* F10 regression (repaired by commit 65fa795).  Input `a; // c` CR `// y` LF `b;`, default
   settings, line_ending=lf.  The first comment ends at a lone CR; the second comment has no line
   break recorded (newlines_before = 0), so reconstruct adds one: output `a; // c` LF ` // y` LF
   `b;` LF.  offset_for_token now counts the added byte: cursors 3,8,9,14,15,16,100 map to
   3,9,10,15,16,17,17 (before: 8 -> 8 and 100 -> 16).  Confirmed with vh trace on a harness built
   from 65fa795. *)
Definition f10_rs : rsettings := rs_of_config false false 2 2.
Definition f10_raw : list rtok :=
  [([], [97], RTT_Identifier); ([], [59], RTT_Op OK_Semicolon);
   ([32], [47;47;32;99], RTT_Comment CoK_InlineLine); ([13], [47;47;32;121], RTT_Comment CoK_InlineLine);
   ([10], [98], RTT_Identifier); ([], [59], RTT_Op OK_Semicolon); ([], [], RTT_Eof)].
Definition f10_final : list ftoken :=
  [(mkToken [] [97] TT_Identifier, mkFmt false 0 0 0 0);
   (mkToken [] [59] (TT_Op OK_Semicolon), mkFmt false 0 0 0 0);
   (mkToken [32] [47;47;32;99] (TT_Comment CoK_InlineLine), mkFmt false 0 0 0 1);
   (mkToken [13] [47;47;32;121] (TT_Comment CoK_InlineLine), mkFmt false 0 0 0 1);
   (mkToken [10] [98] TT_Identifier, mkFmt false 1 0 0 0);
   (mkToken [] [59] (TT_Op OK_Semicolon), mkFmt false 0 0 0 0);
   (mkToken [] [] TT_Eof, mkFmt false 1 0 0 0)].

Example cursor_safety_net_fixed_example :
  recon f10_rs false f10_final = [97;59;32;47;47;32;99;10;32;47;47;32;121;10;98;59;10] /\
  net_free false f10_final = false /\                       (* the safety net does fire *)
  map (track_cursor_u32 f10_rs f10_raw f10_final) [3;8;9;14;15;16;100] = [3;9;10;15;16;17;17] /\
  offset_for_token f10_rs f10_final 3 = 9 /\
  track_cursor f10_rs f10_raw f10_final 100 = Some (Z.of_N (blen (recon f10_rs false f10_final))).
Proof. repeat split; reflexivity. Qed.

(* A cursor in the blanks in front of a token that receives the added line break (`a; // c` CR
   `   // y`, cursors 8..10; vh trace: 7..12 -> 7,9,9,9,9,10) lands after that line break, at the
   token start: in bounds, on a boundary.
   The column arithmetic (col_for_token_end_post_fmt, break_found = false) treats the token as
   if it were still on the comment's line — consistently with the input, where a lone CR is not
   a line break for rfind('\n') either — and the clamp keeps the result inside the token's own
   whitespace. *)
Example whitespace_before_safety_net_example :
  let raw : list rtok :=
    [([], [97], RTT_Identifier); ([], [59], RTT_Op OK_Semicolon);
     ([32], [47;47;32;99], RTT_Comment CoK_InlineLine);
     ([13;32;32;32], [47;47;32;121], RTT_Comment CoK_InlineLine); ([], [], RTT_Eof)] in
  let final : list ftoken :=
    [(mkToken [] [97] TT_Identifier, mkFmt false 0 0 0 0);
     (mkToken [] [59] (TT_Op OK_Semicolon), mkFmt false 0 0 0 0);
     (mkToken [32] [47;47;32;99] (TT_Comment CoK_InlineLine), mkFmt false 0 0 0 1);
     (mkToken [13;32;32;32] [47;47;32;121] (TT_Comment CoK_InlineLine), mkFmt false 0 0 0 1);
     (mkToken [] [] TT_Eof, mkFmt false 1 0 0 0)] in
  recon f10_rs false final = [97;59;32;47;47;32;99;10;32;47;47;32;121;10] /\
  map (track_cursor_u32 f10_rs raw final) [7;8;9;10;11;12] = [7;9;9;9;9;10].
Proof. split; reflexivity. Qed.

Print Assumptions offset_for_token_correct.
Print Assumptions relocate_in_bounds.
Print Assumptions relocate_content_same_offset.
Print Assumptions relocate_past_end.
Print Assumptions multiline_no_underflow.
Print Assumptions multiline_same_offset.
Print Assumptions multiline_roundtrip.
Print Assumptions whitespace_no_underflow.
Print Assumptions relocate_no_underflow.
Print Assumptions whitespace_ignored_crlf_in_bounds_example.
Print Assumptions whitespace_ignored_same_position.
Print Assumptions relocate_within_token.
Print Assumptions ws_back_ok_all.
Print Assumptions multiline_u16_truncation_refuted.
Print Assumptions process_cursor_ok_boundary.
Print Assumptions process_cursor_not_boundary_panics_refuted.
Print Assumptions track_cursor_in_bounds.
Print Assumptions track_cursor_past_end.
Print Assumptions track_cursor_content_same_offset.
Print Assumptions relocate_char_boundary.
Print Assumptions relocate_on_char_boundary.
Print Assumptions track_cursor_on_char_boundary.
Print Assumptions track_cursor_on_char_boundary_content.
Print Assumptions cursor_mid_char_fixed_example.
Print Assumptions whitespace_verbatim_mid_char_fixed_example.
Print Assumptions whitespace_ignored_landing.
Print Assumptions emit_ws_split.
Print Assumptions cursor_safety_net_fixed_example.
