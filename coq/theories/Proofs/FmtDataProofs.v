(* Proofs/FmtDataProofs.v — properties of fmt_of_ws (Model/FmtData.v, core/src/lang.rs:
   impl From<(&str, bool)> for FormattingData):
   - the input's line-ending convention does not matter (C09, FormattingData level)
   - the whitespace emitted by the reconstructor reads back as the counters that produced it (C03)
   - which blank strings are indistinguishable (relayout) *)
From PasfmtVerif Require Import Model.FmtData Model.Reconstruct Proofs.ReconstructProofs.

(* ------------------------------------------------------------------ *)
(* 0. basic facts about the pieces of fmt_of_ws *)

Definition last_line (ws : bytes) : bytes := trim_end_cr (after_last_lf ws).

Lemma fmt_of_ws_unfold ws ign :
  fmt_of_ws ws ign = mkFmt ign (u16_sat (count_lf ws)) 0 0 (u16_sat (N.of_nat (ws_prefix_len (last_line ws)))).
Proof. reflexivity. Qed.

Definition has_lf (l : bytes) : bool := contains_byte 10 l.
Definition has_cr (l : bytes) : bool := contains_byte 13 l.

Lemma contains_byte_cons b a t : contains_byte b (a :: t) = (b =? a) || contains_byte b t.
Proof. reflexivity. Qed.

Lemma contains_byte_app b x y : contains_byte b (x ++ y) = contains_byte b x || contains_byte b y.
Proof. apply existsb_app. Qed.

Lemma contains_byte_rev b l : contains_byte b (rev l) = contains_byte b l.
Proof.
  induction l as [|a t IH]; [reflexivity|]. cbn [rev]. rewrite contains_byte_app, IH.
  cbn [contains_byte existsb]. rewrite orb_false_r. apply orb_comm.
Qed.

Lemma take_until_lf_cons a t : take_until_lf (a :: t) = if a =? 10 then [] else a :: take_until_lf t.
Proof. reflexivity. Qed.

Lemma take_until_lf_app x y :
  take_until_lf (x ++ y) = if has_lf x then take_until_lf x else x ++ take_until_lf y.
Proof.
  induction x as [|a t IH]; [reflexivity|].
  rewrite <- app_comm_cons, !take_until_lf_cons. unfold has_lf. rewrite contains_byte_cons.
  rewrite (N.eqb_sym 10 a). destruct (a =? 10); [reflexivity|].
  cbn [orb]. rewrite IH. unfold has_lf. destruct (contains_byte 10 t); reflexivity.
Qed.

Lemma take_until_lf_none l : has_lf l = false -> take_until_lf l = l.
Proof.
  intros H. rewrite <- (app_nil_r l) at 1. rewrite take_until_lf_app, H. cbn [take_until_lf].
  apply app_nil_r.
Qed.

Lemma after_last_lf_none l : has_lf l = false -> after_last_lf l = l.
Proof.
  intros H. unfold after_last_lf. rewrite take_until_lf_none; [apply rev_involutive|].
  unfold has_lf. rewrite contains_byte_rev. exact H.
Qed.

(* everything up to and including an LF is irrelevant *)
Lemma after_last_lf_app_lf x y : after_last_lf (x ++ 10 :: y) = after_last_lf y.
Proof.
  unfold after_last_lf. rewrite rev_app_distr. cbn [rev]. rewrite <- app_assoc. cbn [app].
  rewrite take_until_lf_app.
  destruct (has_lf (rev y)) eqn:E; [reflexivity|].
  rewrite take_until_lf_cons. change (10 =? 10) with true. cbv iota.
  rewrite app_nil_r, take_until_lf_none by exact E. reflexivity.
Qed.

(* forward characterisation *)
Lemma after_last_lf_cons a t :
  after_last_lf (a :: t) = if has_lf t then after_last_lf t else if a =? 10 then t else a :: t.
Proof.
  destruct (has_lf t) eqn:E.
  - unfold after_last_lf. cbn [rev]. rewrite take_until_lf_app. unfold has_lf.
    rewrite contains_byte_rev. unfold has_lf in E. rewrite E. reflexivity.
  - destruct (a =? 10) eqn:Ea.
    + apply N.eqb_eq in Ea. subst a. rewrite (after_last_lf_app_lf [] t : after_last_lf (10 :: t) = _). apply after_last_lf_none, E.
    + apply after_last_lf_none. unfold has_lf. rewrite contains_byte_cons, (N.eqb_sym 10 a), Ea. exact E.
Qed.

Lemma after_last_lf_no_lf l : has_lf (after_last_lf l) = false.
Proof.
  induction l as [|a t IH]; [reflexivity|]. rewrite after_last_lf_cons.
  destruct (has_lf t) eqn:E; [exact IH|].
  destruct (a =? 10) eqn:Ea; [exact E|].
  unfold has_lf. rewrite contains_byte_cons, (N.eqb_sym 10 a), Ea. exact E.
Qed.

Lemma after_last_lf_suffix l : exists x, l = x ++ after_last_lf l.
Proof.
  induction l as [|a t [x IH]]; [exists []; reflexivity|]. rewrite after_last_lf_cons.
  destruct (has_lf t); [exists (a :: x); cbn [app]; f_equal; exact IH|].
  destruct (a =? 10); [exists [a]; reflexivity|exists []; reflexivity].
Qed.

Lemma forallb_after_last_lf (p : byte -> bool) l : forallb p l = true -> forallb p (after_last_lf l) = true.
Proof.
  intros H. destruct (after_last_lf_suffix l) as [x E]. rewrite E, forallb_app in H.
  apply andb_true_iff in H. apply H.
Qed.

Lemma count_lf_app x y : count_lf (x ++ y) = count_lf x + count_lf y.
Proof. unfold count_lf. rewrite filter_app, app_length. lia. Qed.

Lemma count_lf_cons a t : count_lf (a :: t) = (if a =? 10 then 1 else 0) + count_lf t.
Proof.
  unfold count_lf. cbn [filter]. rewrite (N.eqb_sym 10 a). destruct (a =? 10); cbn [length]; lia.
Qed.

Lemma count_lf_zero_iff l : count_lf l = 0 <-> has_lf l = false.
Proof.
  induction l as [|a t IH]; [split; reflexivity|].
  rewrite count_lf_cons. unfold has_lf in *. rewrite contains_byte_cons, (N.eqb_sym 10 a).
  destruct (a =? 10); cbn [orb]; [split; [lia|discriminate]|]. rewrite <- IH. lia.
Qed.

Lemma count_lf_repeat n s : count_lf (repeat_app n s) = N.of_nat n * count_lf s.
Proof.
  induction n as [|n IH]; [reflexivity|]. cbn [repeat_app]. rewrite count_lf_app, IH. lia.
Qed.

Lemma trim_end_cr_none l : has_cr l = false -> trim_end_cr l = l.
Proof.
  intros H. unfold trim_end_cr.
  assert (E : drop_trailing_cr_rev (rev l) = rev l).
  { assert (Hr : has_cr (rev l) = false) by (unfold has_cr; rewrite contains_byte_rev; exact H).
    destruct (rev l) as [|b r]; [reflexivity|]. unfold has_cr in Hr. rewrite contains_byte_cons in Hr.
    apply orb_false_iff in Hr as [Hb _]. cbn [drop_trailing_cr_rev]. rewrite (N.eqb_sym b 13), Hb. reflexivity. }
  rewrite E. apply rev_involutive.
Qed.

(* spaces and tabs *)
Definition is_sp_tab (b : byte) : bool := (b =? 32) || (b =? 9).

Lemma is_sp_tab_cases b : is_sp_tab b = true -> b = 32 \/ b = 9.
Proof. unfold is_sp_tab. intros H. apply orb_true_iff in H as [H|H]; apply N.eqb_eq in H; auto. Qed.

Lemma ws_prefix_len_ws a t :
  ((9 <=? a) && (a <=? 13)) || (a =? 32) = true -> ws_prefix_len (a :: t) = S (ws_prefix_len t).
Proof. intros H. cbn [ws_prefix_len]. rewrite H. reflexivity. Qed.

Lemma ws_prefix_len_sp_tab l : forallb is_sp_tab l = true -> ws_prefix_len l = length l.
Proof.
  induction l as [|a t IH]; [reflexivity|]. cbn [forallb]. intros H. apply andb_true_iff in H as [Ha Ht].
  destruct (is_sp_tab_cases a Ha) as [-> | ->]; rewrite ws_prefix_len_ws by reflexivity;
    cbn [length]; f_equal; apply IH, Ht.
Qed.

Lemma sp_tab_no_lf l : forallb is_sp_tab l = true -> has_lf l = false.
Proof.
  induction l as [|a t IH]; [reflexivity|]. cbn [forallb]. intros H. apply andb_true_iff in H as [Ha Ht].
  unfold has_lf. rewrite contains_byte_cons. fold (has_lf t). rewrite (IH Ht).
  destruct (is_sp_tab_cases a Ha) as [-> | ->]; reflexivity.
Qed.

Lemma sp_tab_no_cr l : forallb is_sp_tab l = true -> has_cr l = false.
Proof.
  induction l as [|a t IH]; [reflexivity|]. cbn [forallb]. intros H. apply andb_true_iff in H as [Ha Ht].
  unfold has_cr. rewrite contains_byte_cons. fold (has_cr t). rewrite (IH Ht).
  destruct (is_sp_tab_cases a Ha) as [-> | ->]; reflexivity.
Qed.

Lemma last_line_sp_tab l : forallb is_sp_tab l = true -> last_line l = l.
Proof.
  intros H. unfold last_line. rewrite after_last_lf_none by (apply sp_tab_no_lf, H).
  apply trim_end_cr_none, sp_tab_no_cr, H.
Qed.

(* ================================================================== *)
(* 1. line endings of the input do not matter *)

Definition lf_to_crlf (ws : bytes) : bytes := flat_map (fun b => if b =? 10 then [13; 10] else [b]) ws.

Lemma lf_to_crlf_cons a t : lf_to_crlf (a :: t) = (if a =? 10 then [13; 10] else [a]) ++ lf_to_crlf t.
Proof. reflexivity. Qed.

Lemma count_lf_lf_to_crlf ws : count_lf (lf_to_crlf ws) = count_lf ws.
Proof.
  induction ws as [|a t IH]; [reflexivity|]. rewrite lf_to_crlf_cons, count_lf_app, IH, count_lf_cons.
  destruct (a =? 10) eqn:E; [reflexivity|].
  rewrite count_lf_cons, E. reflexivity.
Qed.

Lemma has_lf_lf_to_crlf ws : has_lf (lf_to_crlf ws) = has_lf ws.
Proof.
  pose proof (count_lf_zero_iff (lf_to_crlf ws)) as H1. pose proof (count_lf_zero_iff ws) as H2.
  rewrite count_lf_lf_to_crlf in H1.
  destruct (has_lf (lf_to_crlf ws)), (has_lf ws); try reflexivity.
  - destruct H2 as [_ H2]. specialize (H2 eq_refl). apply H1 in H2. discriminate.
  - destruct H1 as [_ H1]. specialize (H1 eq_refl). apply H2 in H1. discriminate.
Qed.

Lemma lf_to_crlf_no_lf ws : has_lf ws = false -> lf_to_crlf ws = ws.
Proof.
  induction ws as [|a t IH]; [reflexivity|]. unfold has_lf. rewrite contains_byte_cons, (N.eqb_sym 10 a).
  intros H. apply orb_false_iff in H as [Ha Ht]. rewrite lf_to_crlf_cons, Ha. cbn [app]. f_equal. apply IH, Ht.
Qed.

(* the part after the last LF is literally the same *)
Lemma after_last_lf_lf_to_crlf ws : after_last_lf (lf_to_crlf ws) = after_last_lf ws.
Proof.
  induction ws as [|a t IH]; [reflexivity|]. rewrite lf_to_crlf_cons, (after_last_lf_cons a t).
  destruct (a =? 10) eqn:Ea.
  - change ([13; 10] ++ lf_to_crlf t) with ([13] ++ 10 :: lf_to_crlf t).
    rewrite after_last_lf_app_lf, IH.
    destruct (has_lf t) eqn:E; [reflexivity|]. apply after_last_lf_none, E.
  - cbn [app]. rewrite after_last_lf_cons, has_lf_lf_to_crlf, IH, Ea.
    destruct (has_lf t) eqn:E; [reflexivity|]. rewrite lf_to_crlf_no_lf by exact E. reflexivity.
Qed.

(* A1, strongest form: for EVERY ws (the absence of CR is not needed) *)
Theorem fmt_of_ws_crlf_any ws ign : fmt_of_ws (lf_to_crlf ws) ign = fmt_of_ws ws ign.
Proof.
  rewrite !fmt_of_ws_unfold. unfold last_line.
  rewrite count_lf_lf_to_crlf, after_last_lf_lf_to_crlf. reflexivity.
Qed.

(* A1 as requested *)
Theorem fmt_of_ws_crlf ws ign :
  contains_byte 13 ws = false -> fmt_of_ws (lf_to_crlf ws) ign = fmt_of_ws ws ign.
Proof. intros _. apply fmt_of_ws_crlf_any. Qed.

(* the converse direction: dropping the CR of every CR LF pair *)
Fixpoint crlf_to_lf (l : bytes) : bytes :=
  match l with
  | [] => []
  | a :: t =>
      match t with
      | b :: _ => if (a =? 13) && (b =? 10) then crlf_to_lf t else a :: crlf_to_lf t
      | [] => [a]
      end
  end.

Lemma crlf_to_lf_cons2 a b t :
  crlf_to_lf (a :: b :: t) = if (a =? 13) && (b =? 10) then crlf_to_lf (b :: t) else a :: crlf_to_lf (b :: t).
Proof. reflexivity. Qed.

Lemma crlf_to_lf_cons_not_cr a t : (a =? 13) = false -> crlf_to_lf (a :: t) = a :: crlf_to_lf t.
Proof. intros H. destruct t as [|b t]; [reflexivity|]. rewrite crlf_to_lf_cons2, H. reflexivity. Qed.

Lemma count_lf_crlf_to_lf l : count_lf (crlf_to_lf l) = count_lf l.
Proof.
  induction l as [|a t IH]; [reflexivity|]. destruct t as [|b t]; [reflexivity|].
  rewrite crlf_to_lf_cons2. destruct ((a =? 13) && (b =? 10)) eqn:E.
  - rewrite IH. apply andb_true_iff in E as [E _]. apply N.eqb_eq in E. subst a.
    rewrite (count_lf_cons 13). change (13 =? 10) with false. cbv iota. lia.
  - rewrite (count_lf_cons a (crlf_to_lf _)), IH, (count_lf_cons a (b :: t)). reflexivity.
Qed.

Lemma has_lf_crlf_to_lf l : has_lf (crlf_to_lf l) = has_lf l.
Proof.
  pose proof (count_lf_zero_iff (crlf_to_lf l)) as H1. pose proof (count_lf_zero_iff l) as H2.
  rewrite count_lf_crlf_to_lf in H1.
  destruct (has_lf (crlf_to_lf l)), (has_lf l); try reflexivity.
  - destruct H2 as [_ H2]. specialize (H2 eq_refl). apply H1 in H2. discriminate.
  - destruct H1 as [_ H1]. specialize (H1 eq_refl). apply H2 in H1. discriminate.
Qed.

Lemma crlf_to_lf_no_lf l : has_lf l = false -> crlf_to_lf l = l.
Proof.
  induction l as [|a t IH]; [reflexivity|]. destruct t as [|b t]; [reflexivity|].
  unfold has_lf. rewrite !contains_byte_cons. intros H.
  apply orb_false_iff in H as [Ha H]. pose proof H as Ht. apply orb_false_iff in H as [Hb _].
  rewrite crlf_to_lf_cons2, (N.eqb_sym b 10), Hb, andb_false_r. f_equal. apply IH.
  unfold has_lf. rewrite contains_byte_cons. exact Ht.
Qed.

Lemma after_last_lf_crlf_to_lf l : after_last_lf (crlf_to_lf l) = after_last_lf l.
Proof.
  induction l as [|a t IH]; [reflexivity|]. destruct t as [|b t]; [reflexivity|].
  rewrite crlf_to_lf_cons2. destruct ((a =? 13) && (b =? 10)) eqn:E.
  - rewrite IH. apply andb_true_iff in E as [_ E]. apply N.eqb_eq in E. subst b.
    rewrite (after_last_lf_cons a (10 :: t)). unfold has_lf at 1. rewrite contains_byte_cons.
    change (10 =? 10) with true. reflexivity.
  - rewrite (after_last_lf_cons a (crlf_to_lf (b :: t))), has_lf_crlf_to_lf, IH,
      (after_last_lf_cons a (b :: t)).
    destruct (has_lf (b :: t)) eqn:Eh; [reflexivity|]. rewrite crlf_to_lf_no_lf by exact Eh. reflexivity.
Qed.

(* removing the CR of every CR LF pair never changes the data, for EVERY ws *)
Theorem fmt_of_ws_crlf_to_lf ws ign : fmt_of_ws (crlf_to_lf ws) ign = fmt_of_ws ws ign.
Proof.
  rewrite !fmt_of_ws_unfold. unfold last_line.
  rewrite count_lf_crlf_to_lf, after_last_lf_crlf_to_lf. reflexivity.
Qed.

(* every CR is immediately followed by LF *)
Fixpoint cr_before_lf (l : bytes) : bool :=
  match l with
  | [] => true
  | a :: t =>
      (if a =? 13 then match t with b :: _ => b =? 10 | [] => false end else true) && cr_before_lf t
  end.

Definition remove_cr (l : bytes) : bytes := filter (fun b => negb (b =? 13)) l.

Lemma crlf_to_lf_is_remove_cr l : cr_before_lf l = true -> crlf_to_lf l = remove_cr l.
Proof.
  induction l as [|a t IH]; [reflexivity|]. cbn [cr_before_lf]. intros H.
  apply andb_true_iff in H as [Ha Ht]. specialize (IH Ht).
  destruct t as [|b t].
  - destruct (a =? 13) eqn:E; [discriminate|]. unfold remove_cr. cbn [crlf_to_lf filter]. rewrite E. reflexivity.
  - rewrite crlf_to_lf_cons2. unfold remove_cr. cbn [filter]. fold (remove_cr (b :: t)).
    destruct (a =? 13) eqn:E.
    + rewrite Ha. cbn [andb negb]. exact IH.
    + cbn [andb negb]. f_equal. exact IH.
Qed.

(* the general statement asked for: when every CR is followed by LF, removing all CRs is harmless *)
Theorem fmt_of_ws_remove_cr ws ign :
  cr_before_lf ws = true -> fmt_of_ws (remove_cr ws) ign = fmt_of_ws ws ign.
Proof. intros H. rewrite <- (crlf_to_lf_is_remove_cr ws H). apply fmt_of_ws_crlf_to_lf. Qed.

(* lf_to_crlf and crlf_to_lf are inverse on every string *)
Lemma lf_to_crlf_head_not_lf ws : match lf_to_crlf ws with b :: _ => (b =? 10) = false | [] => True end.
Proof.
  destruct ws as [|a t]; [exact I|]. rewrite lf_to_crlf_cons. destruct (a =? 10) eqn:E; [reflexivity|exact E].
Qed.

Theorem crlf_to_lf_lf_to_crlf ws : crlf_to_lf (lf_to_crlf ws) = ws.
Proof.
  induction ws as [|a t IH]; [reflexivity|]. rewrite lf_to_crlf_cons.
  destruct (a =? 10) eqn:E.
  - apply N.eqb_eq in E. subst a. cbn [app]. rewrite crlf_to_lf_cons2. cbn [andb].
    change (13 =? 13) with true. change (10 =? 10) with true. cbn [andb].
    rewrite crlf_to_lf_cons_not_cr by reflexivity. rewrite IH. reflexivity.
  - cbn [app]. pose proof (lf_to_crlf_head_not_lf t) as Hh.
    destruct (lf_to_crlf t) as [|b r] eqn:El.
    + cbn [crlf_to_lf]. destruct t as [|a' t']; [reflexivity|].
      rewrite lf_to_crlf_cons in El. destruct (a' =? 10); discriminate.
    + rewrite crlf_to_lf_cons2, Hh, andb_false_r. rewrite IH. reflexivity.
Qed.

(* ================================================================== *)
(* 2. the emitted whitespace reads back as the counters *)

Definition nl_str (crlf : bool) : bytes := if crlf then [13; 10] else [10].
Definition unit_str (tabs : bool) : bytes := if tabs then [9] else [32].

Lemma count_lf_nl_str crlf : count_lf (nl_str crlf) = 1.
Proof. destruct crlf; reflexivity. Qed.

Lemma after_last_lf_nls crlf n w : after_last_lf (repeat_app n (nl_str crlf) ++ w) = after_last_lf w.
Proof.
  induction n as [|n IH]; [reflexivity|]. cbn [repeat_app]. rewrite <- app_assoc.
  destruct crlf.
  - change (nl_str true ++ repeat_app n (nl_str true) ++ w) with ([13] ++ 10 :: repeat_app n (nl_str true) ++ w).
    rewrite after_last_lf_app_lf. exact IH.
  - change (nl_str false ++ repeat_app n (nl_str false) ++ w) with ([] ++ 10 :: repeat_app n (nl_str false) ++ w).
    rewrite after_last_lf_app_lf. exact IH.
Qed.

(* line breaks followed by any run of spaces/tabs *)
Theorem fmt_of_nls_then_blanks crlf (nl : N) (w : bytes) ign :
  forallb is_sp_tab w = true ->
  fmt_of_ws (nrepeat nl (nl_str crlf) ++ w) ign
  = mkFmt ign (u16_sat nl) 0 0 (u16_sat (N.of_nat (length w))).
Proof.
  intros Hw. rewrite fmt_of_ws_unfold. unfold last_line, nrepeat.
  rewrite after_last_lf_nls, count_lf_app, count_lf_repeat, count_lf_nl_str, N2Nat.id.
  fold (last_line w). rewrite last_line_sp_tab by exact Hw.
  rewrite ws_prefix_len_sp_tab by exact Hw.
  assert (E : count_lf w = 0) by (apply count_lf_zero_iff, sp_tab_no_lf, Hw).
  rewrite E. f_equal. f_equal. lia.
Qed.

Lemma forallb_repeat_app' {A} (p : A -> bool) n (s : list A) :
  forallb p s = true -> forallb p (repeat_app n s) = true.
Proof. intros H. induction n as [|n IH]; [reflexivity|]. cbn [repeat_app]. rewrite forallb_app, H, IH. reflexivity. Qed.

Lemma unit_str_sp_tab tabs : forallb is_sp_tab (unit_str tabs) = true.
Proof. destruct tabs; reflexivity. Qed.

Lemma nrepeat_length {A} (n : N) (s : list A) : N.of_nat (length (nrepeat n s)) = n * N.of_nat (length s).
Proof. unfold nrepeat. rewrite repeat_app_length. lia. Qed.

(* A2 in the shape asked for: nl line breaks, then k indentation/space characters *)
Theorem fmt_of_emitted_ws_sat crlf tabs (nl k : N) ign :
  fmt_of_ws (nrepeat nl (nl_str crlf) ++ nrepeat k (unit_str tabs)) ign
  = mkFmt ign (u16_sat nl) 0 0 (u16_sat k).
Proof.
  rewrite fmt_of_nls_then_blanks by (apply forallb_repeat_app', unit_str_sp_tab).
  rewrite nrepeat_length. destruct tabs; cbn [unit_str length]; f_equal; f_equal; lia.
Qed.

Theorem fmt_of_emitted_ws crlf tabs (nl k : N) ign :
  nl <= 65535 -> k <= 65535 ->
  fmt_of_ws (nrepeat nl (nl_str crlf) ++ nrepeat k (unit_str tabs)) ign = mkFmt ign nl 0 0 k.
Proof.
  intros Hn Hk. rewrite fmt_of_emitted_ws_sat. unfold u16_sat. rewrite !N.min_r by assumption. reflexivity.
Qed.

Corollary fmt_of_emitted_ws_nl crlf tabs (nl k : N) ign :
  nl <= 65535 ->
  f_nl (fmt_of_ws (nrepeat nl (nl_str crlf) ++ nrepeat k (unit_str tabs)) ign) = nl
  /\ N.min 1 (f_sp (fmt_of_ws (nrepeat nl (nl_str crlf) ++ nrepeat k (unit_str tabs)) ign)) = N.min 1 k.
Proof.
  intros Hn. rewrite fmt_of_emitted_ws_sat. cbn [f_nl f_sp]. unfold u16_sat. split; lia.
Qed.

(* The same, directly on emit_ws with the settings the front end builds: the whitespace written for
   a non-ignored token reads back as (line breaks, 0, 0, total number of blank characters). *)
Definition emitted_nls (mb : bool) (tok : token) (f : fmt) : N :=
  if mb && (f_nl f =? 0) && negb (is_eof (t_ty tok)) then 1 else f_nl f.

Lemma emit_ws_rs_new crlf tabs iw cw mb tok f :
  f_ignored f = false ->
  emit_ws (rs_new crlf tabs iw cw) mb (tok, f)
  = nrepeat (emitted_nls mb tok f) (nl_str crlf)
    ++ (nrepeat (f_ind f) (nrepeat iw (unit_str tabs)) ++ nrepeat (f_cont f) (nrepeat cw (unit_str tabs))
        ++ nrepeat (f_sp f) [32]).
Proof. intros Hi. unfold emit_ws. rewrite Hi. reflexivity. Qed.

Theorem fmt_of_emit_ws crlf tabs iw cw mb tok f ign :
  f_ignored f = false ->
  fmt_of_ws (emit_ws (rs_new crlf tabs iw cw) mb (tok, f)) ign
  = mkFmt ign (u16_sat (emitted_nls mb tok f)) 0 0
          (u16_sat (f_ind f * iw + f_cont f * cw + f_sp f)).
Proof.
  intros Hi. rewrite emit_ws_rs_new by exact Hi.
  rewrite fmt_of_nls_then_blanks.
  - rewrite !app_length, !Nat2N.inj_add, !nrepeat_length.
    destruct tabs; cbn [unit_str length]; f_equal; f_equal; lia.
  - rewrite !forallb_app. unfold nrepeat.
    rewrite !forallb_repeat_app'; try reflexivity; apply forallb_repeat_app', unit_str_sp_tab.
Qed.

(* idempotence-relevant consequences: the line-break count is reproduced exactly (u16 range), and
   "is there at least one blank character" is reproduced exactly *)
Corollary fmt_of_emit_ws_nl crlf tabs iw cw tok f ign :
  f_ignored f = false -> f_nl f <= 65535 ->
  f_nl (fmt_of_ws (emit_ws (rs_new crlf tabs iw cw) false (tok, f)) ign) = f_nl f.
Proof.
  intros Hi Hn. rewrite fmt_of_emit_ws by exact Hi. cbn [f_nl]. unfold emitted_nls. cbn [andb].
  unfold u16_sat. lia.
Qed.

Corollary fmt_of_emit_ws_sp crlf tabs iw cw mb tok f ign :
  f_ignored f = false ->
  N.min 1 (f_sp (fmt_of_ws (emit_ws (rs_new crlf tabs iw cw) mb (tok, f)) ign))
  = N.min 1 (f_ind f * iw + f_cont f * cw + f_sp f).
Proof. intros Hi. rewrite fmt_of_emit_ws by exact Hi. cbn [f_sp]. unfold u16_sat. lia. Qed.

(* the line-ending setting of the run that wrote the text does not influence the data read back *)
Corollary fmt_of_emit_ws_newline_indep tabs iw cw mb tok f ign :
  f_ignored f = false ->
  fmt_of_ws (emit_ws (rs_new true tabs iw cw) mb (tok, f)) ign
  = fmt_of_ws (emit_ws (rs_new false tabs iw cw) mb (tok, f)) ign.
Proof. intros Hi. rewrite !fmt_of_emit_ws by exact Hi. reflexivity. Qed.

(* ================================================================== *)
(* 3. relayout: which blank strings give the same data *)

(* f_nl = 0 exactly when there is no LF (no bound needed: min 65535 n = 0 iff n = 0) *)
Theorem fmt_of_ws_nl_zero_iff ws ign : f_nl (fmt_of_ws ws ign) = 0 <-> contains_byte 10 ws = false.
Proof.
  rewrite fmt_of_ws_unfold. cbn [f_nl]. fold (has_lf ws). rewrite <- count_lf_zero_iff.
  unfold u16_sat. lia.
Qed.

Theorem fmt_of_ws_nl_exact ws ign : count_lf ws <= 65535 -> f_nl (fmt_of_ws ws ign) = count_lf ws.
Proof. intros H. rewrite fmt_of_ws_unfold. cbn [f_nl]. unfold u16_sat. lia. Qed.

(* by definition the data depends on two numbers only *)
Theorem fmt_of_ws_relayout_gen a b ign :
  u16_sat (count_lf a) = u16_sat (count_lf b) ->
  ws_prefix_len (last_line a) = ws_prefix_len (last_line b) ->
  fmt_of_ws a ign = fmt_of_ws b ign.
Proof. intros H1 H2. rewrite !fmt_of_ws_unfold, H1, H2. reflexivity. Qed.

(* layout strings: spaces, tabs, LF, and CR only in front of LF *)
Definition layout_byte (b : byte) : bool := is_sp_tab b || (b =? 10) || (b =? 13).
Definition layout_ws (l : bytes) : Prop := forallb layout_byte l = true /\ cr_before_lf l = true.

Lemma cr_before_lf_tail a t : cr_before_lf (a :: t) = true -> cr_before_lf t = true.
Proof. cbn [cr_before_lf]. intros H. apply andb_true_iff in H. apply H. Qed.

Lemma cr_before_lf_no_lf_no_cr l : cr_before_lf l = true -> has_lf l = false -> has_cr l = false.
Proof.
  induction l as [|a t IH]; [reflexivity|]. intros Hc Hl.
  unfold has_lf in Hl. rewrite contains_byte_cons in Hl. apply orb_false_iff in Hl as [Ha Ht].
  unfold has_cr. rewrite contains_byte_cons. fold (has_cr t).
  rewrite (IH (cr_before_lf_tail a t Hc) Ht), orb_false_r.
  cbn [cr_before_lf] in Hc. apply andb_true_iff in Hc as [Hc _].
  rewrite (N.eqb_sym 13 a). destruct (a =? 13); [|reflexivity].
  destruct t as [|b t]; [discriminate|]. apply N.eqb_eq in Hc. subst b.
  unfold has_lf in Ht. rewrite contains_byte_cons in Ht. discriminate.
Qed.

Lemma cr_before_lf_after_last l : cr_before_lf l = true -> has_cr (after_last_lf l) = false.
Proof.
  induction l as [|a t IH]; [reflexivity|]. intros Hc. rewrite after_last_lf_cons.
  pose proof (cr_before_lf_tail a t Hc) as Hct.
  destruct (has_lf t) eqn:E; [exact (IH Hct)|].
  pose proof (cr_before_lf_no_lf_no_cr t Hct E) as Hcr.
  destruct (a =? 10) eqn:Ea; [exact Hcr|].
  apply cr_before_lf_no_lf_no_cr; [exact Hc|].
  unfold has_lf. rewrite contains_byte_cons, (N.eqb_sym 10 a), Ea. exact E.
Qed.

Lemma layout_after_last_sp_tab l : layout_ws l -> forallb is_sp_tab (after_last_lf l) = true.
Proof.
  intros [Hb Hc].
  pose proof (forallb_after_last_lf layout_byte l Hb) as H1.
  pose proof (after_last_lf_no_lf l) as H2. pose proof (cr_before_lf_after_last l Hc) as H3.
  induction (after_last_lf l) as [|a t IH]; [reflexivity|].
  cbn [forallb] in *. apply andb_true_iff in H1 as [Ha Ht].
  unfold has_lf in H2. rewrite contains_byte_cons in H2. apply orb_false_iff in H2 as [H2a H2t].
  unfold has_cr in H3. rewrite contains_byte_cons in H3. apply orb_false_iff in H3 as [H3a H3t].
  rewrite (IH Ht H2t H3t), andb_true_r.
  unfold layout_byte in Ha. rewrite (N.eqb_sym a 10), (N.eqb_sym a 13), H2a, H3a, !orb_false_r in Ha. exact Ha.
Qed.

(* the data of a layout string: number of LFs, and number of characters after the last LF *)
Theorem fmt_of_layout_ws ws ign :
  layout_ws ws ->
  fmt_of_ws ws ign = mkFmt ign (u16_sat (count_lf ws)) 0 0 (u16_sat (N.of_nat (length (after_last_lf ws)))).
Proof.
  intros H. pose proof (layout_after_last_sp_tab ws H) as Hs.
  rewrite fmt_of_ws_unfold. unfold last_line.
  rewrite trim_end_cr_none by (apply sp_tab_no_cr, Hs).
  rewrite ws_prefix_len_sp_tab by exact Hs. reflexivity.
Qed.

(* A3 *)
Theorem fmt_of_ws_relayout a b ign :
  layout_ws a -> layout_ws b ->
  u16_sat (count_lf a) = u16_sat (count_lf b) ->
  ws_prefix_len (last_line a) = ws_prefix_len (last_line b) ->
  fmt_of_ws a ign = fmt_of_ws b ign.
Proof. intros _ _. apply fmt_of_ws_relayout_gen. Qed.

(* and the converse, inside the u16 range: two layout strings give the same data exactly when they
   have the same number of LFs and the same number of characters after the last LF *)
Theorem fmt_of_ws_relayout_iff a b ign :
  layout_ws a -> layout_ws b ->
  count_lf a <= 65535 -> count_lf b <= 65535 ->
  N.of_nat (length (after_last_lf a)) <= 65535 -> N.of_nat (length (after_last_lf b)) <= 65535 ->
  (fmt_of_ws a ign = fmt_of_ws b ign
   <-> count_lf a = count_lf b /\ length (after_last_lf a) = length (after_last_lf b)).
Proof.
  intros Ha Hb Ca Cb La Lb. rewrite (fmt_of_layout_ws a ign Ha), (fmt_of_layout_ws b ign Hb).
  unfold u16_sat. split.
  - intros H. injection H as H1 H2. lia.
  - intros [H1 H2]. rewrite H1, H2. reflexivity.
Qed.

(* ================================================================== *)
(* examples (non-vacuity) *)

(* LF LF SP SP *)
Example ex_crlf_1 :
  contains_byte 13 [10; 10; 32; 32] = false /\
  lf_to_crlf [10; 10; 32; 32] = [13; 10; 13; 10; 32; 32] /\
  fmt_of_ws [13; 10; 13; 10; 32; 32] false = mkFmt false 2 0 0 2 /\
  fmt_of_ws [10; 10; 32; 32] false = mkFmt false 2 0 0 2.
Proof. repeat split. Qed.

Example ex_crlf_inst : fmt_of_ws (lf_to_crlf [32; 10; 9; 10; 32; 9]) true = fmt_of_ws [32; 10; 9; 10; 32; 9] true.
Proof. apply fmt_of_ws_crlf. reflexivity. Qed.

(* mixed endings, a lone CR at the very end is trimmed, a lone CR in the middle of the last line stops the count *)
Example ex_remove_cr :
  cr_before_lf [32; 13; 10; 10; 9; 13; 10; 32; 32] = true /\
  remove_cr [32; 13; 10; 10; 9; 13; 10; 32; 32] = [32; 10; 10; 9; 10; 32; 32] /\
  fmt_of_ws [32; 13; 10; 10; 9; 13; 10; 32; 32] false = mkFmt false 3 0 0 2.
Proof. repeat split. Qed.

Example ex_lone_cr_counts :
  fmt_of_ws [10; 32; 13] false = mkFmt false 1 0 0 1 /\        (* trailing CR trimmed *)
  fmt_of_ws [10; 32; 13; 32] false = mkFmt false 1 0 0 3 /\    (* CR is White_Space: counted *)
  fmt_of_ws [10; 32; 12; 32] false = mkFmt false 1 0 0 3 /\    (* FF is White_Space *)
  fmt_of_ws [10; 32; 1; 32] false = mkFmt false 1 0 0 1.       (* U+0001 is a lexer blank but not White_Space *)
Proof. repeat split. Qed.

Example ex_emitted :
  fmt_of_ws (nrepeat 2 (nl_str true) ++ nrepeat 3 (unit_str true)) false = mkFmt false 2 0 0 3 /\
  nrepeat 2 (nl_str true) ++ nrepeat 3 (unit_str true) = [13; 10; 13; 10; 9; 9; 9].
Proof. split; [apply fmt_of_emitted_ws; lia|reflexivity]. Qed.

Example ex_emit_ws :
  let tok := mkToken [] [120] TT_Identifier in
  let f := mkFmt false 1 2 1 0 in
  emit_ws (rs_new false false 2 4) false (tok, f) = [10; 32; 32; 32; 32; 32; 32; 32; 32] /\
  fmt_of_ws (emit_ws (rs_new false false 2 4) false (tok, f)) false = mkFmt false 1 0 0 8.
Proof. split; reflexivity. Qed.

Example ex_layout :
  layout_ws [32; 13; 10; 9; 32] /\ layout_ws [10; 32; 32] /\
  fmt_of_ws [32; 13; 10; 9; 32] false = fmt_of_ws [10; 32; 32] false.
Proof.
  assert (H1 : layout_ws [32; 13; 10; 9; 32]) by (split; reflexivity).
  assert (H2 : layout_ws [10; 32; 32]) by (split; reflexivity).
  split; [exact H1|]. split; [exact H2|].
  apply fmt_of_ws_relayout; try assumption; reflexivity.
Qed.

(* saturation: beyond the u16 range the round trip is lossy (65536 spaces read back as 65535) *)
Example ex_saturation :
  u16_sat 65536 = 65535 /\
  forall ign, fmt_of_ws (nrepeat 0 (nl_str false) ++ nrepeat 65536 (unit_str false)) ign = mkFmt ign 0 0 0 65535.
Proof. split; [reflexivity|]. intros ign. rewrite fmt_of_emitted_ws_sat. reflexivity. Qed.

Print Assumptions fmt_of_ws_crlf_any.
Print Assumptions fmt_of_ws_crlf.
Print Assumptions fmt_of_ws_crlf_to_lf.
Print Assumptions fmt_of_ws_remove_cr.
Print Assumptions crlf_to_lf_lf_to_crlf.
Print Assumptions fmt_of_emitted_ws.
Print Assumptions fmt_of_emit_ws.
Print Assumptions fmt_of_ws_nl_zero_iff.
Print Assumptions fmt_of_layout_ws.
Print Assumptions fmt_of_ws_relayout_iff.
