(* Proofs/FormatCrlfProofs.v — C09, clause 3, for the composed model: an input whose line breaks are CRLF formats like the same input
   with LF line breaks.

   format_crlf_input: if the lexer cuts `lf_to_crlf s` into the tokens of `s` with each leading whitespace CRLF-ed
   (lex_crlf_commutes: same contents, same raw kinds — this is the LEXER link, a hypothesis here, see below) and the run ignores no
   token, then  format_model alnum cfg (lf_to_crlf s) = format_model alnum cfg s  (outputs and errors alike).
   Everything behind the lexer is proved: the parser reads of the whitespace only "contains CR or LF" (seg_wsnl), the asm ignorer
   likewise (starts_line), FormattingData::from gives the same counters (FmtDataProofs.fmt_of_ws_crlf_any), no later stage reads the
   whitespace text except the reconstructor for ignored tokens (FormatWsProofs).
   Exactly what is missing for an unconditional statement: lex_crlf_commutes from "no token of lex s has a LF in its content".
   LexerRelayoutProofs proves re-scanning only for files in which every gap satisfies the separator condition (for ordinary tokens: a
   NON-EMPTY blank, gaps_ok); an unchanged empty gap between two adjacent tokens (`Foo(`) is outside its relayout relation, so it does
   not apply to CRLF-ing an arbitrary file.  The condition is decidable per input (lex_crlf_commutesb) and holds in the examples. *)
From Coq Require Import Lia.
From PasfmtVerif Require Import Model.Format Proofs.FormatProofs Proofs.FormatTotalProofs Proofs.FormatIgnoredProofs Proofs.FormatWsProofs
  Proofs.FmtDataProofs Proofs.WrapApplyProofs Proofs.ToggleProofs Proofs.GenericsProofs.

Definition crlf_seg (sg : seg) : seg := (lf_to_crlf (seg_ws sg), seg_content sg, seg_ty sg).
Definition lex_crlf_commutes (s : bytes) (segs : list seg) : Prop := lex_segments (lf_to_crlf s) = Some (map crlf_seg segs).

(* ------------------------------------------------------------------ *)
(* the two things read of the whitespace text *)
Lemma contains10_crlf ws : contains_byte 10 (lf_to_crlf ws) = contains_byte 10 ws.
Proof.
  induction ws as [|a t IH]; [reflexivity|]. rewrite lf_to_crlf_cons. unfold contains_byte in *. rewrite existsb_app, IH. cbn [existsb].
  destruct (N.eqb_spec a 10) as [->|Hn]; [reflexivity|]. cbn [existsb]. rewrite orb_false_r. reflexivity.
Qed.

Lemma has_break_crlf ws : has_break (lf_to_crlf ws) = has_break ws.
Proof.
  unfold has_break. rewrite contains10_crlf. destruct (contains_byte 10 ws) eqn:E; [reflexivity|]. cbn [orb].
  rewrite lf_to_crlf_no_lf; [reflexivity|]. exact E.
Qed.

(* a token vector with CRLF-ed whitespace *)
Definition tok_crlf (a b : token) : Prop := tok_sim a b /\ t_ws b = lf_to_crlf (t_ws a).

Lemma toggle_marks_sim : forall toks toks' b, Forall2 tok_sim toks toks' -> toggle_marks b toks' = toggle_marks b toks.
Proof.
  intros toks toks' b H. revert b. induction H as [|x y r r' (Ht & Hc) _ IH]; intros b; [reflexivity|].
  cbn [toggle_marks]. rewrite Ht, Hc, IH. reflexivity.
Qed.

Lemma Forall2_length {A B} {R : A -> B -> Prop} {l l'} : Forall2 R l l' -> length l = length l'.
Proof. induction 1; cbn; congruence. Qed.

Lemma Forall2_impl {A B} (R S : A -> B -> Prop) l l' : (forall x y, R x y -> S x y) -> Forall2 R l l' -> Forall2 S l l'.
Proof. intros H. induction 1; constructor; auto. Qed.

Definition tok_line_sim (a b : token) : Prop := t_ty b = t_ty a /\ starts_line b = starts_line a.

Lemma asm_fwd_sim : forall l l' prev, Forall2 (fun x y : token * bool => tok_line_sim (fst x) (fst y) /\ snd y = snd x) l l' -> asm_fwd prev l' = asm_fwd prev l.
Proof.
  intros l l' prev H. revert prev. induction H as [|[a m] [b m'] r r' ((Ht & Hs) & Hm) _ IH]; intros prev; [reflexivity|].
  cbn [fst snd] in *. subst m'. cbn [asm_fwd]. unfold is_cond_dir_tok. rewrite Ht, Hs, IH. reflexivity.
Qed.

Lemma asm_bwd_sim : forall l l', Forall2 (fun x y : token * bool => tok_line_sim (fst x) (fst y) /\ snd y = snd x) l l' -> asm_bwd l' = asm_bwd l.
Proof.
  induction 1 as [|[a m] [b m'] r r' ((Ht & Hs) & Hm) Hr IH]; [reflexivity|]. cbn [fst snd] in *. subst m'.
  cbn [asm_bwd]. rewrite IH. unfold is_cond_dir_tok. rewrite Ht.
  destruct Hr as [|[a2 m2] [b2 m2'] r2 r2' ((Ht2 & Hs2) & Hm2) _]; [reflexivity|]. cbn [fst snd] in *. rewrite Hs2. reflexivity.
Qed.

Lemma combine_sim {B} (toks toks' : list token) (ms : list B) :
  Forall2 tok_line_sim toks toks' -> Forall2 (fun x y : token * B => tok_line_sim (fst x) (fst y) /\ snd y = snd x) (combine toks ms) (combine toks' ms).
Proof.
  intros H. revert ms. induction H as [|a b r r' Hab _ IH]; intros [|m ms]; cbn [combine]; try constructor; [split; [exact Hab|reflexivity]|apply IH].
Qed.

Lemma asm_marks_sim toks toks' lines : Forall2 tok_line_sim toks toks' -> asm_marks toks' lines = asm_marks toks lines.
Proof.
  intros H. unfold asm_marks, asm_base. rewrite <- (Forall2_length H).
  rewrite (asm_fwd_sim _ _ false (combine_sim toks toks' _ H)). apply asm_bwd_sim, combine_sim, H.
Qed.

(* ------------------------------------------------------------------ *)
(* the run on the CRLF-ed tokens *)
Section Crlf.
Variable segs : list seg.
Let segs' := map crlf_seg segs.

Lemma crlf_tys : map seg_ty segs' = map seg_ty segs.
Proof. unfold segs'. rewrite map_map. reflexivity. Qed.

Lemma crlf_wsnl : map seg_wsnl segs' = map seg_wsnl segs.
Proof. unfold segs'. rewrite map_map. apply map_ext. intros sg. unfold seg_wsnl, crlf_seg, seg_ws. cbn [fst]. apply has_break_crlf. Qed.

Lemma crlf_parse : fm_parse segs' = fm_parse segs.
Proof. unfold fm_parse. rewrite crlf_tys, crlf_wsnl. reflexivity. Qed.

Lemma tokens_of_crlf tys : Forall2 tok_crlf (tokens_of segs tys) (tokens_of segs' tys).
Proof.
  unfold tokens_of, segs'. revert tys. induction segs as [|sg r IH]; intros [|ty tys]; cbn [map combine]; try constructor; [|apply IH].
  cbn [fst snd]. split; [split; reflexivity|reflexivity].
Qed.

Lemma crlf_toks0 : Forall2 tok_crlf (fm_toks0 segs) (fm_toks0 segs').
Proof. unfold fm_toks0. rewrite crlf_parse. apply tokens_of_crlf. Qed.

Lemma crlf_map_ty a b : Forall2 tok_crlf a b -> map t_ty b = map t_ty a.
Proof. induction 1 as [|x y r r' ((Ht & _) & _) _ IH]; [reflexivity|]. cbn [map]. rewrite Ht, IH. reflexivity. Qed.

Lemma retype_crlf a b tys : Forall2 tok_crlf a b -> Forall2 tok_crlf (Format.retype a tys) (Format.retype b tys).
Proof.
  unfold Format.retype. intros H. revert tys. induction H as [|x y r r' ((Ht & Hc) & Hw) _ IH]; intros [|ty tys]; cbn [combine map]; try constructor; [|apply IH].
  cbn [fst snd set_ty]. split; [split; cbn; [reflexivity|exact Hc]|cbn; exact Hw].
Qed.

Lemma crlf_toks : Forall2 tok_crlf (fm_toks segs) (fm_toks segs').
Proof. unfold fm_toks. rewrite (crlf_map_ty _ _ crlf_toks0). apply retype_crlf, crlf_toks0. Qed.

Lemma crlf_fm_tys : fm_tys segs' = fm_tys segs.
Proof. unfold fm_tys. apply crlf_map_ty, crlf_toks. Qed.

Lemma crlf_lines0 : fm_lines0 segs' = fm_lines0 segs.
Proof. unfold fm_lines0, fm_lines_cd. rewrite crlf_fm_tys, crlf_parse. reflexivity. Qed.

Lemma crlf_sim : Forall2 tok_sim (fm_toks segs) (fm_toks segs').
Proof. eapply Forall2_impl; [|exact crlf_toks]. intros a b H. exact (proj1 H). Qed.

Lemma crlf_line_sim : Forall2 tok_line_sim (fm_toks segs) (fm_toks segs').
Proof.
  eapply Forall2_impl; [|exact crlf_toks]. intros a b ((Ht & _) & Hw). split; [exact Ht|].
  unfold starts_line. rewrite Hw. fold (has_break (lf_to_crlf (t_ws a))). fold (has_break (t_ws a)). apply has_break_crlf.
Qed.

Lemma crlf_marks : fm_marks segs' = fm_marks segs.
Proof.
  unfold fm_marks. rewrite crlf_lines0, (toggle_marks_sim _ _ false crlf_sim), (asm_marks_sim _ _ _ crlf_line_sim).
  f_equal. f_equal. pose proof (Forall2_length crlf_toks0) as Hlen. revert Hlen. generalize (fm_toks0 segs) (fm_toks0 segs'). clear.
  induction l as [|a l IH]; intros [|b l'] H; cbn in *; try discriminate; [reflexivity|]. f_equal. apply IH. congruence.
Qed.

Lemma crlf_lines : fm_lines segs' = fm_lines segs.
Proof. unfold fm_lines. rewrite crlf_marks, crlf_lines0. reflexivity. Qed.

Lemma crlf_l0 : ws_sim (fm_l0 segs) (fm_l0 segs').
Proof.
  unfold fm_l0. rewrite crlf_marks. pose proof crlf_toks as H. revert H. generalize (fm_toks segs) (fm_toks segs') (fm_marks segs).
  intros a b ms H. revert ms. induction H as [|x y r r' (Hs & Hw) _ IH]; intros [|m ms]; cbn [combine map]; try constructor; [|apply IH].
  cbn [fst snd]. split; [exact Hs|]. rewrite Hw. apply fmt_of_ws_crlf_any.
Qed.

Lemma crlf_final alnum cfg : ws_sim (fm_final alnum cfg segs) (fm_final alnum cfg segs').
Proof. rewrite !fm_final_is_half, crlf_lines. apply fmt_half_ws, crlf_l0. Qed.

Lemma crlf_wrap_err alnum cfg : snd (fm_wrap alnum cfg segs') = snd (fm_wrap alnum cfg segs).
Proof.
  unfold fm_wrap, fm_l4, fm_l3, fm_l2, fm_l1. rewrite crlf_lines.
  apply (proj2 (proj2 (olf_model_ws _ _ _ _ _ _ (eof_newline_lines_ws _ _ _ (ws_sim_map _ _ _ (comment_tok_ws alnum) (ws_sim_map _ _ _ lowercase_tok_ws (token_spacing_ws _ _ crlf_l0))))))).
Qed.
End Crlf.

(* ------------------------------------------------------------------ *)
(* C09, clause 3 *)
Theorem format_crlf_input alnum cfg s segs :
  lex_segments s = Some segs -> lex_crlf_commutes s segs ->
  (forall m, In m (fm_marks segs) -> m = false) ->
  format_model alnum cfg (lf_to_crlf s) = format_model alnum cfg s.
Proof.
  intros Hl Hc Hm. rewrite !format_model_eq, Hl, Hc. rewrite crlf_parse.
  destruct (r_err (fm_parse segs)); [reflexivity|]. rewrite crlf_fm_tys.
  destruct (expand_all_chk _ _); [|reflexivity]. rewrite crlf_wrap_err.
  destruct (snd (fm_wrap alnum cfg segs)); [reflexivity|]. f_equal.
  unfold fm_out, reconstruct. apply recon_ws; [apply crlf_final|].
  (* nothing is ignored *)
  apply Forall_forall. intros q Hq. apply In_nth_error in Hq. destruct Hq as (j & Hj).
  destruct (fm_stages_rel alnum cfg segs) as [L H].
  assert (Hlt : (j < length (fm_l0 segs))%nat) by (rewrite <- L; apply nth_error_Some; intros Hx; pose proof (eq_trans (eq_sym Hj) Hx) as Hy; discriminate Hy).
  destruct (nth_error (fm_l0 segs) j) as [p0|] eqn:E0; [|apply nth_error_None in E0; lia].
  destruct (H j p0 E0) as (q' & Hq' & _ & I & _). pose proof (eq_trans (eq_sym Hj) Hq') as Eq. injection Eq as <-. rewrite I.
  unfold fm_l0 in E0. rewrite nth_error_map in E0. destruct (nth_error (combine (fm_toks segs) (fm_marks segs)) j) as [[tk m]|] eqn:Ec; [|discriminate E0].
  cbn in E0. injection E0 as <-. cbn [snd]. apply nth_error_In in Ec. apply in_combine_r in Ec. rewrite (Hm m Ec). reflexivity.
Qed.

(* the lexer link, decidable per input *)
Definition seg_eqb (a b : seg) : bool :=
  bytes_eqb (seg_ws a) (seg_ws b) && bytes_eqb (seg_content a) (seg_content b) && RawTokenType_eqb (seg_ty a) (seg_ty b).
Fixpoint segs_eqb (a b : list seg) : bool :=
  match a, b with [], [] => true | x :: a', y :: b' => seg_eqb x y && segs_eqb a' b' | _, _ => false end.
Definition lex_crlf_commutesb (s : bytes) (segs : list seg) : bool :=
  match lex_segments (lf_to_crlf s) with Some segs2 => segs_eqb segs2 (map crlf_seg segs) | None => false end.

Lemma segs_eqb_eq : forall a b, segs_eqb a b = true -> a = b.
Proof.
  induction a as [|[[w c] t] a IH]; intros [|[[w' c'] t'] b] H; cbn in H; try discriminate; [reflexivity|].
  apply andb_true_iff in H. destruct H as [H Hr]. unfold seg_eqb, seg_ws, seg_content, seg_ty in H. cbn [fst snd] in H.
  apply andb_true_iff in H. destruct H as [H Ht]. apply andb_true_iff in H. destruct H as [Hw Hc].
  apply bytes_eqb_eq in Hw, Hc. apply RawTokenType_eqb_eq in Ht. subst. f_equal. apply IH, Hr.
Qed.

Lemma lex_crlf_commutesb_ok s segs : lex_crlf_commutesb s segs = true -> lex_crlf_commutes s segs.
Proof. unfold lex_crlf_commutesb, lex_crlf_commutes. destruct (lex_segments (lf_to_crlf s)) as [s2|]; [|discriminate]. intros H. f_equal. apply segs_eqb_eq, H. Qed.

(* "begin\n  Foo(1);//c\nend." *)
Example format_crlf_input_example :
  let s := [98;101;103;105;110; 10; 32;32; 70;111;111; 40; 49; 41; 59; 47;47;99; 10; 101;110;100; 46]%N in
  let cfg := mkCfg 120 false true false 2 2 true in
  match lex_segments s with
  | Some segs => lex_crlf_commutesb s segs = true /\ forallb negb (fm_marks segs) = true
  | None => False
  end
  /\ format_model (fun _ => false) cfg (lf_to_crlf s) = format_model (fun _ => false) cfg s
  /\ format_model (fun _ => false) cfg s
     = inl [98;101;103;105;110; 13;10; 32;32; 70;111;111; 40; 49; 41; 59; 32; 47;47; 32; 99; 13;10; 101;110;100; 46; 13;10]%N.
Proof. vm_compute. repeat split; reflexivity. Qed.

Print Assumptions format_crlf_input.
