(* Proofs/MeasureApplyProofs.v — from the search's decisions to the geometry of the output.
   WrapApply.v says what the decisions do to the counters, Measure.v what get_token_line_length
   computes for a decision: composed, for ANY plan (any search), the column the reconstructor reaches
   after a decided token is the wrapper's formula applied to the LAST decision taken for that token,
   with the spaces TokenSpacing asked for. *)
From PasfmtVerif Require Import Model.Measure Proofs.WrapApplyProofs Proofs.MeasureProofs.

(* the last decision of a plan for token i *)
Fixpoint last_decision (plan : list (nat * decision)) (i : nat) : option decision :=
  match plan with
  | [] => None
  | (k, d) :: r => match last_decision r i with
                   | Some d' => Some d'
                   | None => if Nat.eqb k i then Some d else None
                   end
  end.

Lemma last_decision_none plan i : last_decision plan i = None -> ~ In i (map fst plan).
Proof.
  induction plan as [|[k d] r IH]; cbn; [tauto|].
  destruct (last_decision r i); [discriminate|]. destruct (Nat.eqb k i) eqn:E; [discriminate|].
  intros _ [H|H]; [apply Nat.eqb_neq in E; contradiction|exact (IH eq_refl H)].
Qed.

(* the plan leaves on token i the counters of its last decision, applied to counters that still carry
   the token's original spaces and ignored flag *)
Lemma apply_plan_last plan : forall (l : list ftoken) i tok f d,
  nth_error l i = Some (tok, f) -> last_decision plan i = Some d ->
  exists f', nth_error (apply_plan plan l) i = Some (tok, apply_decision f' d)
             /\ f_sp f' = f_sp f /\ f_ignored f' = f_ignored f.
Proof.
  unfold apply_plan. induction plan as [|[k d0] r IH]; intros l i tok f d Hn Hl; [discriminate|].
  cbn [fold_left fst snd]. cbn [last_decision] in Hl.
  destruct (last_decision r i) as [d'|] eqn:Er.
  - injection Hl as ->.
    (* a later decision exists: whatever this step does, the induction applies *)
    destruct (Nat.eq_dec i k) as [->|Hne].
    + assert (Hn' : nth_error (upd_ftok k (fun f0 => apply_decision f0 d0) l) k = Some (tok, apply_decision f d0)).
      { rewrite upd_ftok_nth, Nat.eqb_refl. rewrite Hn. reflexivity. }
      destruct (IH _ k tok (apply_decision f d0) d Hn' Er) as (f' & H1 & H2 & H3).
      exists f'. split; [exact H1|]. split; [rewrite H2; apply apply_decision_sp|rewrite H3; destruct d0; reflexivity].
    + assert (Hn' : nth_error (upd_ftok k (fun f0 => apply_decision f0 d0) l) i = Some (tok, f)).
      { rewrite upd_ftok_nth. apply Nat.eqb_neq in Hne. rewrite Hne. exact Hn. }
      exact (IH _ i tok f d Hn' Er).
  - destruct (Nat.eqb k i) eqn:E; [|discriminate]. injection Hl as ->. apply Nat.eqb_eq in E. subst k.
    exists f. split; [|split; reflexivity].
    change (nth_error (apply_plan r (upd_ftok i (fun f0 => apply_decision f0 d) l)) i = Some (tok, apply_decision f d)).
    rewrite apply_plan_notin by (apply last_decision_none; exact Er).
    rewrite upd_ftok_nth, Nat.eqb_refl, Hn. reflexivity.
Qed.

Lemma zero_line_starts_nth (l : list ftoken) i tok f :
  nth_error l i = Some (tok, f) -> nth_error (zero_line_starts l) i = Some (tok, zero_start1 f).
Proof.
  intros H. unfold zero_line_starts. rewrite nth_error_map, H. cbn. unfold zero_start1.
  destruct (0 <? f_nl f); reflexivity.
Qed.

(* the first phase of the wrapper (no multi-line string changed, or the string stage is off): for any plan,
   a decided token ends at the column get_token_line_length gives for its last decision *)
Theorem decided_token_end_column rs plan (l : list ftoken) i tok f d col :
  nth_error l i = Some (tok, f) -> last_decision plan i = Some d ->
  rs_measurable rs = true ->
  exists f', nth_error (zero_line_starts (apply_plan plan l)) i = Some (tok, zero_start1 (apply_decision f' d))
    /\ f_sp f' = f_sp f
    /\ (tok_measurable (tok, zero_start1 (apply_decision f' d)) = true ->
        rendered_col rs false col (tok, zero_start1 (apply_decision f' d)) = token_line_length rs col d tok (f_sp f)).
Proof.
  intros Hn Hl Hrs. destruct (apply_plan_last plan l i tok f d Hn Hl) as (f' & H1 & H2 & H3).
  exists f'. split; [apply zero_line_starts_nth; exact H1|]. split; [exact H2|].
  intros Hm. rewrite <- H2. apply measure_is_rendered_col; assumption.
Qed.

(* with the string stage switched off the effect IS that first phase *)
Corollary olf_effect_end_column rs visits plan1 plan2 (l : list ftoken) i tok f d col :
  nth_error l i = Some (tok, f) -> last_decision plan1 i = Some d ->
  rs_measurable rs = true ->
  exists p, nth_error (olf_effect rs false visits plan1 plan2 l) i = Some p /\ fst p = tok
    /\ (tok_measurable p = true -> rendered_col rs false col p = token_line_length rs col d tok (f_sp f)).
Proof.
  intros Hn Hl Hrs. destruct (decided_token_end_column rs plan1 l i tok f d col Hn Hl Hrs) as (f' & H1 & H2 & H3).
  exists (tok, zero_start1 (apply_decision f' d)). unfold olf_effect. split; [exact H1|]. split; [reflexivity|exact H3].
Qed.

Example last_decision_example :
  last_decision [(1%nat, DContinue); (2%nat, DBreak false 1 0); (1%nat, DBreak true 0 2)] 1 = Some (DBreak true 0 2).
Proof. reflexivity. Qed.
