(* Proofs about Model/DirectiveTree.v (core/src/defaults/parser/directive_tree.rs) *)
From PasfmtVerif Require Import Model.DirectiveTree.
From Coq Require Import Arith Sorted.
Local Open Scope nat_scope.

(* ================================================================== *)
(* 1. Induction over the nested mutual type tree/section               *)

Section TreeInd.
  Variables (P : tree -> Prop) (Q : section -> Prop).
  Hypothesis HT : forall ss, Forall Q ss -> P (Tree ss).
  Hypothesis HF : forall e a b, Q (Flat e a b).
  Hypothesis HN : forall bs, Forall P bs -> Q (Nested bs).

  Fixpoint tree_ind2 (t : tree) : P t :=
    match t with
    | Tree ss =>
      HT ss ((fix go (l : list section) : Forall Q l :=
                match l with
                | [] => Forall_nil Q
                | s :: r => Forall_cons s (section_ind2 s) (go r)
                end) ss)
    end
  with section_ind2 (s : section) : Q s :=
    match s with
    | Flat e a b => HF e a b
    | Nested bs =>
      HN bs ((fix go (l : list tree) : Forall P l :=
                match l with
                | [] => Forall_nil P
                | t :: r => Forall_cons t (tree_ind2 t) (go r)
                end) bs)
    end.

  Lemma tree_section_ind : (forall t, P t) /\ (forall s, Q s).
  Proof. split; [exact tree_ind2|exact section_ind2]. Qed.
End TreeInd.

(* unfolding equations (all by computation) *)
Lemma flat_list_Tree ss : flat_list (Tree ss) = flat_map flat_list_section ss.
Proof. reflexivity. Qed.
Lemma flat_list_Nested bs : flat_list_section (Nested bs) = flat_map flat_list bs.
Proof. reflexivity. Qed.
Lemma explored_Tree ss : explored (Tree ss) = forallb explored_section ss.
Proof. reflexivity. Qed.
Lemma explored_Nested bs : explored_section (Nested bs) = forallb explored bs.
Proof. reflexivity. Qed.
Lemma pass_tree_Tree ss :
  pass_tree (Tree ss) = let (ss', p) := pass_all pass_section ss in (Tree ss', p).
Proof. reflexivity. Qed.
Lemma pass_section_Nested bs :
  pass_section (Nested bs) =
  let (bs', p) := pass_find_or_last pass_tree (fun g => negb (explored g)) bs in (Nested bs', p).
Proof. reflexivity. Qed.

(* ================================================================== *)
(* 2. Depth-first list of Flat sections: counting, one-pass relation   *)

(* number of unexplored entries *)
Fixpoint unexp_l (fl : list flat_entry) : nat :=
  match fl with
  | [] => 0
  | x :: r => (if fst x then 0 else 1) + unexp_l r
  end.

Definition unexp (t : tree) : nat := unexp_l (flat_list t).

Lemma unexp_l_app (a b : list flat_entry) : unexp_l (a ++ b) = unexp_l a + unexp_l b.
Proof. induction a as [|x a IH]; cbn [app unexp_l]; [reflexivity|]. rewrite IH. lia. Qed.

Lemma unexp_l_le_length (fl : list flat_entry) : unexp_l fl <= length fl.
Proof. induction fl as [|x r IH]; cbn [unexp_l length]; [lia|]. destruct (fst x); lia. Qed.

Lemma unexp_l_zero_iff (fl : list flat_entry) : unexp_l fl = 0 <-> forallb fst fl = true.
Proof.
  induction fl as [|x r IH]; cbn [unexp_l forallb]; [tauto|].
  destruct (fst x); cbn [andb]; [exact IH|]. split; [lia|discriminate].
Qed.

Lemma unexp_l_all_false (fl : list flat_entry) : Forall (fun x => fst x = false) fl -> unexp_l fl = length fl.
Proof.
  induction 1 as [|x r Hx _ IH]; cbn [unexp_l length]; [reflexivity|]. rewrite Hx, IH. reflexivity.
Qed.

Lemma forallb_flat_map {A B} (g : B -> bool) (fl : A -> list B) (h : A -> bool) l :
  Forall (fun a => h a = forallb g (fl a)) l -> forallb h l = forallb g (flat_map fl l).
Proof.
  induction 1 as [|a r Ha _ IH]; cbn [forallb flat_map]; [reflexivity|].
  rewrite forallb_app, Ha, IH. reflexivity.
Qed.

Lemma explored_flat_list_both :
  (forall t, explored t = forallb fst (flat_list t)) /\
  (forall s, explored_section s = forallb fst (flat_list_section s)).
Proof.
  apply tree_section_ind.
  - intros ss H. rewrite explored_Tree, flat_list_Tree. apply forallb_flat_map, H.
  - intros e a b. cbn. destruct e; reflexivity.
  - intros bs H. rewrite explored_Nested, flat_list_Nested. apply forallb_flat_map, H.
Qed.

Lemma explored_flat_list t : explored t = forallb fst (flat_list t).
Proof. apply explored_flat_list_both. Qed.

Lemma explored_unexp t : explored t = true <-> unexp t = 0.
Proof. unfold unexp. rewrite explored_flat_list, unexp_l_zero_iff. tauto. Qed.

(* One pass, seen on the depth-first list: every entry is either taken (its range is emitted, its
   flag becomes true) or skipped (unchanged). *)
Inductive step : list flat_entry -> list flat_entry -> list nat -> Prop :=
  | step_nil : step [] [] []
  | step_take b a e fl fl' p :
      step fl fl' p -> step ((b, (a, e)) :: fl) ((true, (a, e)) :: fl') (range_list a e ++ p)
  | step_skip x fl fl' p : step fl fl' p -> step (x :: fl) (x :: fl') p.

Lemma step_refl fl : step fl fl [].
Proof. induction fl as [|x r IH]; [constructor|apply step_skip, IH]. Qed.

Lemma step_app a a' p b b' q : step a a' p -> step b b' q -> step (a ++ b) (a' ++ b') (p ++ q).
Proof.
  intros Ha Hb. induction Ha as [|f s e fl fl' p' _ IH|x fl fl' p' _ IH]; cbn [app].
  - exact Hb.
  - rewrite <- app_assoc. apply step_take, IH.
  - apply step_skip, IH.
Qed.

(* what one pass does to an element, in terms of its depth-first list *)
Definition good {A} (fl : A -> list flat_entry) (a a' : A) (p : list nat) : Prop :=
  step (fl a) (fl a') p /\
  unexp_l (fl a') <= unexp_l (fl a) /\
  (unexp_l (fl a) <> 0 -> unexp_l (fl a') < unexp_l (fl a)).

Lemma pass_all_good {A} (fl : A -> list flat_entry) (f : A -> A * list nat) l :
  Forall (fun a => forall a' p, f a = (a', p) -> good fl a a' p) l ->
  forall l' p, pass_all f l = (l', p) -> good (flat_map fl) l l' p.
Proof.
  induction 1 as [|a r Ha _ IH]; intros l' p E; cbn [pass_all] in E.
  - injection E as <- <-. unfold good. cbn. split; [constructor|lia].
  - destruct (f a) as [a' p1] eqn:Ea. destruct (pass_all f r) as [r' p2] eqn:Er.
    injection E as <- <-.
    destruct (Ha _ _ eq_refl) as (S1 & L1 & D1). destruct (IH _ _ eq_refl) as (S2 & L2 & D2).
    unfold good. cbn [flat_map]. rewrite !unexp_l_app. split; [apply step_app; assumption|]. lia.
Qed.

Lemma pass_find_or_last_good {A} (fl : A -> list flat_entry) (f : A -> A * list nat)
      (pred : A -> bool) l :
  (forall a, pred a = true <-> unexp_l (fl a) <> 0) ->
  Forall (fun a => forall a' p, f a = (a', p) -> good fl a a' p) l ->
  forall l' p, pass_find_or_last f pred l = (l', p) -> good (flat_map fl) l l' p.
Proof.
  intros Hpred. induction 1 as [|a r Ha _ IH]; intros l' p E; cbn [pass_find_or_last] in E.
  - injection E as <- <-. unfold good. cbn. split; [constructor|lia].
  - destruct (pred a) eqn:Ep.
    + destruct (f a) as [a' p1] eqn:Ea. injection E as <- <-.
      destruct (Ha _ _ eq_refl) as (S1 & L1 & D1).
      apply Hpred in Ep. specialize (D1 Ep).
      unfold good. cbn [flat_map]. rewrite !unexp_l_app. split; [|lia].
      rewrite <- (app_nil_r p1). apply step_app; [exact S1|apply step_refl].
    + assert (Hz : unexp_l (fl a) = 0).
      { destruct (Nat.eq_dec (unexp_l (fl a)) 0) as [Hz|Hz]; [exact Hz|].
        apply Hpred in Hz. congruence. }
      destruct r as [|b r].
      * destruct (f a) as [a' p1] eqn:Ea. injection E as <- <-.
        destruct (Ha _ _ eq_refl) as (S1 & L1 & D1).
        unfold good. cbn [flat_map]. rewrite !app_nil_r. split; [exact S1|]. lia.
      * destruct (pass_find_or_last f pred (b :: r)) as [r' p2] eqn:Er. injection E as <- <-.
        destruct (IH _ _ eq_refl) as (S2 & L2 & D2).
        unfold good. cbn [flat_map] in *. rewrite !unexp_l_app in *. split; [|lia].
        change p2 with ([] ++ p2). apply step_app; [apply step_refl|exact S2].
Qed.

Lemma pass_good_both :
  (forall t t' p, pass_tree t = (t', p) -> good flat_list t t' p) /\
  (forall s s' p, pass_section s = (s', p) -> good flat_list_section s s' p).
Proof.
  apply tree_section_ind.
  - intros ss H t' p E. rewrite pass_tree_Tree in E.
    destruct (pass_all pass_section ss) as [ss' p'] eqn:Es. injection E as <- <-.
    exact (pass_all_good flat_list_section pass_section ss H _ _ Es).
  - intros e a b s' p E. cbn in E. injection E as <- <-. unfold good. cbn.
    split; [|destruct e; lia].
    rewrite <- (app_nil_r (range_list a b)). apply step_take, step_nil.
  - intros bs H s' p E. rewrite pass_section_Nested in E.
    destruct (pass_find_or_last pass_tree (fun g => negb (explored g)) bs) as [bs' p'] eqn:Es.
    injection E as <- <-.
    refine (pass_find_or_last_good flat_list pass_tree _ bs _ H _ _ Es).
    intros a. rewrite negb_true_iff. pose proof (explored_unexp a) as Hu. unfold unexp in Hu.
    destruct (explored a); split; intros; try congruence; try tauto.
    intros Hz. apply Hu in Hz. discriminate.
Qed.

Lemma pass_tree_good t t' p : pass_tree t = (t', p) -> good flat_list t t' p.
Proof. apply pass_good_both. Qed.

Lemma pass_tree_step t t' p : pass_tree t = (t', p) -> step (flat_list t) (flat_list t') p.
Proof. intros E. apply (pass_tree_good _ _ _ E). Qed.

(* KEY LEMMA: each pass explores at least one previously unexplored Flat section, unless there was
   none left. *)
Lemma pass_tree_progress t t' p :
  pass_tree t = (t', p) -> unexp t' <= unexp t /\ (unexp t <> 0 -> unexp t' < unexp t).
Proof. intros E. apply (pass_tree_good _ _ _ E). Qed.

Example pass_tree_progress_nonvacuous :
  let t := Tree [Nested [Tree [Flat true 0 1]; Tree [Flat false 2 3]]] in
  pass_tree t = (Tree [Nested [Tree [Flat true 0 1]; Tree [Flat true 2 3]]], [2]) /\ unexp t = 1.
Proof. split; reflexivity. Qed.

(* ================================================================== *)
(* 3. explored flags only go from false to true; shape and ranges are never changed by a pass *)

(* the tree with every explored flag reset *)
Fixpoint erase (t : tree) : tree :=
  match t with Tree ss => Tree (map erase_section ss) end
with erase_section (s : section) : section :=
  match s with
  | Flat _ a b => Flat false a b
  | Nested bs => Nested (map erase bs)
  end.

Lemma pass_all_erase {A B} (er : A -> B) (f : A -> A * list nat) l :
  Forall (fun a => forall a' p, f a = (a', p) -> er a' = er a) l ->
  forall l' p, pass_all f l = (l', p) -> map er l' = map er l.
Proof.
  induction 1 as [|a r Ha _ IH]; intros l' p E; cbn [pass_all] in E.
  - injection E as <- <-. reflexivity.
  - destruct (f a) as [a' p1] eqn:Ea. destruct (pass_all f r) as [r' p2] eqn:Er.
    injection E as <- <-. cbn [map]. rewrite (Ha _ _ eq_refl), (IH _ _ eq_refl). reflexivity.
Qed.

Lemma pass_find_or_last_erase {A B} (er : A -> B) (f : A -> A * list nat) pred l :
  Forall (fun a => forall a' p, f a = (a', p) -> er a' = er a) l ->
  forall l' p, pass_find_or_last f pred l = (l', p) -> map er l' = map er l.
Proof.
  induction 1 as [|a r Ha _ IH]; intros l' p E; cbn [pass_find_or_last] in E.
  - injection E as <- <-. reflexivity.
  - destruct (pred a).
    + destruct (f a) as [a' p1] eqn:Ea. injection E as <- <-. cbn [map].
      rewrite (Ha _ _ eq_refl). reflexivity.
    + destruct r as [|b r].
      * destruct (f a) as [a' p1] eqn:Ea. injection E as <- <-. cbn [map].
        rewrite (Ha _ _ eq_refl). reflexivity.
      * destruct (pass_find_or_last f pred (b :: r)) as [r' p2] eqn:Er. injection E as <- <-.
        cbn [map] in *. rewrite (IH _ _ eq_refl). reflexivity.
Qed.

Lemma pass_erase_both :
  (forall t t' p, pass_tree t = (t', p) -> erase t' = erase t) /\
  (forall s s' p, pass_section s = (s', p) -> erase_section s' = erase_section s).
Proof.
  apply tree_section_ind.
  - intros ss H t' p E. rewrite pass_tree_Tree in E.
    destruct (pass_all pass_section ss) as [ss' p'] eqn:Es. injection E as <- <-.
    cbn [erase]. f_equal. exact (pass_all_erase erase_section pass_section ss H _ _ Es).
  - intros e a b s' p E. cbn in E. injection E as <- <-. reflexivity.
  - intros bs H s' p E. rewrite pass_section_Nested in E.
    destruct (pass_find_or_last pass_tree (fun g => negb (explored g)) bs) as [bs' p'] eqn:Es.
    injection E as <- <-. cbn [erase_section]. f_equal.
    exact (pass_find_or_last_erase erase pass_tree _ bs H _ _ Es).
Qed.

Definition flags_le (a b : flat_entry) : Prop := snd a = snd b /\ (fst a = true -> fst b = true).

Lemma step_monotone fl fl' p : step fl fl' p -> Forall2 flags_le fl fl'.
Proof.
  induction 1 as [|b a e fl fl' p _ IH|x fl fl' p _ IH]; constructor; try assumption;
    split; cbn; auto.
Qed.

(* THEOREM explored_monotone: a pass leaves the tree shape and all ranges untouched, and the
   explored flag of every Flat section (taken in depth-first order) can only go from false to true. *)
Theorem explored_monotone t t' p :
  pass_tree t = (t', p) ->
  erase t' = erase t /\ Forall2 flags_le (flat_list t) (flat_list t').
Proof.
  intros E. split; [exact (proj1 pass_erase_both _ _ _ E)|].
  eapply step_monotone, pass_tree_step, E.
Qed.

Corollary explored_stays t t' p : pass_tree t = (t', p) -> explored t = true -> explored t' = true.
Proof.
  intros E H. apply explored_unexp. apply explored_unexp in H.
  pose proof (pass_tree_progress _ _ _ E). lia.
Qed.

Example explored_monotone_nonvacuous :
  pass_tree (Tree [Flat false 0 2; Nested [Tree [Flat true 3 4]; Tree [Flat false 5 6]]]) =
  (Tree [Flat true 0 2; Nested [Tree [Flat true 3 4]; Tree [Flat true 5 6]]], [0; 1; 5]).
Proof. reflexivity. Qed.

(* ================================================================== *)
(* 4. PassIter: number of passes *)

Lemma passes_opt_S t f :
  passes_opt t (S f) =
  let (t', p) := pass_tree t in
  if explored t' then Some [p]
  else match passes_opt t' f with Some ps => Some (p :: ps) | None => None end.
Proof. reflexivity. Qed.

Lemma passes_opt_length f : forall t,
  Nat.max 1 (unexp t) <= f ->
  exists ps, passes_opt t f = Some ps /\ 1 <= length ps <= Nat.max 1 (unexp t).
Proof.
  induction f as [|f IH]; intros t Hf; [lia|].
  rewrite passes_opt_S. destruct (pass_tree t) as [t' p] eqn:E.
  destruct (pass_tree_progress _ _ _ E) as [Hle Hlt].
  destruct (explored t') eqn:Ex.
  - exists [p]. cbn [length]. split; [reflexivity|lia].
  - assert (Hne : unexp t' <> 0).
    { intros Hz. apply explored_unexp in Hz. congruence. }
    destruct (IH t') as (ps & Eps & Hlen); [lia|].
    rewrite Eps. exists (p :: ps). cbn [length]. split; [reflexivity|lia].
Qed.

Lemma passes_opt_inv t f ps :
  passes_opt t (S f) = Some ps ->
  exists t' p, pass_tree t = (t', p) /\
    ((explored t' = true /\ ps = [p]) \/
     (explored t' = false /\ exists ps', passes_opt t' f = Some ps' /\ ps = p :: ps')).
Proof.
  rewrite passes_opt_S. destruct (pass_tree t) as [t' p] eqn:E. intros H.
  exists t', p. split; [reflexivity|]. destruct (explored t') eqn:Ex.
  - left. injection H as <-. auto.
  - right. split; [reflexivity|]. destruct (passes_opt t' f) as [ps'|]; [|discriminate].
    injection H as <-. exists ps'. auto.
Qed.

(* every range that is still unexplored ends up inside one of the remaining passes *)
Lemma step_in fl fl' p : step fl fl' p ->
  forall b r, In (b, r) fl -> In (b, r) fl' \/ (forall x, fst r <= x < snd r -> In x p).
Proof.
  induction 1 as [|b0 a e fl fl' p _ IH|y fl fl' p _ IH]; intros b r Hin.
  - destruct Hin.
  - destruct Hin as [Heq|Hin].
    + right. injection Heq as -> <-. cbn [fst snd]. intros x Hx. apply in_or_app. left.
      unfold range_list. apply in_seq. lia.
    + destruct (IH _ _ Hin) as [H1|H1]; [left; right; exact H1|].
      right. intros x Hx. apply in_or_app. right. apply H1, Hx.
  - destruct Hin as [Heq|Hin]; [left; left; exact Heq|].
    destruct (IH _ _ Hin) as [H1|H1]; [left; right; exact H1|right; exact H1].
Qed.

Lemma passes_opt_cover f : forall t ps,
  passes_opt t f = Some ps ->
  forall r, In (false, r) (flat_list t) ->
  forall x, fst r <= x < snd r -> exists p, In p ps /\ In x p.
Proof.
  induction f as [|f IH]; intros t ps E r Hin x Hx; [discriminate|].
  destruct (passes_opt_inv _ _ _ E) as (t' & p & Ep & Hcase).
  destruct (step_in _ _ _ (pass_tree_step _ _ _ Ep) _ _ Hin) as [Hin'|Hp].
  - destruct Hcase as [[Ex ->]|[Ex (ps' & Eps' & ->)]].
    + rewrite explored_flat_list, forallb_forall in Ex. specialize (Ex _ Hin'). discriminate.
    + destruct (IH _ _ Eps' _ Hin' _ Hx) as (q & Hq & Hxq). exists q. split; [right; exact Hq|exact Hxq].
  - exists p. split; [|apply Hp, Hx].
    destruct Hcase as [[_ ->]|[_ (ps' & _ & ->)]]; left; reflexivity.
Qed.

(* ================================================================== *)
(* 5. The parser: totality and the number of Flat sections (index-free part) *)

Definition is_cd (ty : RawTokenType) : bool :=
  match cd_kind ty with Some _ => true | None => false end.

(* d = number of conditional-directive tokens *)
Definition ndir (l : list RawTokenType) : nat := length (filter is_cd l).

Fixpoint ndirs (toks : list itok) : nat :=
  match toks with
  | [] => 0
  | x :: r => (if is_cd (snd x) then 1 else 0) + ndirs r
  end.

Lemma ndirs_enumerate l : forall i, ndirs (enumerate_from i l) = ndir l.
Proof.
  unfold ndir. induction l as [|ty l IH]; intros i; cbn [enumerate_from ndirs filter snd]; [reflexivity|].
  rewrite IH. destruct (is_cd ty); reflexivity.
Qed.

Lemma enumerate_from_length l : forall i, length (enumerate_from i l) = length l.
Proof. induction l as [|ty l IH]; intros i; cbn [enumerate_from length]; [reflexivity|]. rewrite IH. reflexivity. Qed.

Lemma parse_flat_go_basic toks : forall st rg rg' cdk r,
  parse_flat_go st rg toks = (rg', cdk, r) ->
  match cdk with
  | Some _ => length r < length toks /\ ndirs toks = S (ndirs r)
  | None => r = [] /\ ndirs toks = 0
  end.
Proof.
  induction toks as [|[idx ty] toks IH]; intros st rg rg' cdk r E; cbn [parse_flat_go] in E.
  - injection E as <- <- <-. split; reflexivity.
  - cbn [ndirs snd length]. unfold is_cd. destruct (cd_kind ty) as [k|] eqn:Ek.
    + injection E as <- <- <-. split; lia.
    + apply IH in E. destruct cdk as [c|].
      * destruct E as [E1 E2]. split; lia.
      * destruct E as [-> E2]. split; [reflexivity|lia].
Qed.

Lemma parse_flat_basic toks flat cdk r :
  parse_flat toks = (flat, cdk, r) ->
  (exists a b, flat = Flat false a b) /\
  match cdk with
  | Some _ => length r < length toks /\ ndirs toks = S (ndirs r)
  | None => r = [] /\ ndirs toks = 0
  end.
Proof.
  unfold parse_flat. destruct (parse_flat_go None (0, 0) toks) as [[rg c] r'] eqn:E.
  intros H. injection H as <- <- <-. split; [eauto|]. exact (parse_flat_go_basic _ _ _ _ _ _ E).
Qed.

Lemma parse_total_aux f :
  (forall top toks, 2 * length toks + 1 <= f ->
     exists secs cdk r, parse_sections f top toks = Some (secs, cdk, r) /\
       length r <= length toks /\ (cdk <> None -> length r < length toks)) /\
  (forall toks, 2 * length toks + 2 <= f ->
     exists bs r, parse_branches f toks = Some (bs, r) /\ length r <= length toks).
Proof.
  induction f as [|f [IHs IHb]]; [split; intros; lia|]. split.
  - intros top toks Hf. cbn [parse_sections].
    destruct (parse_flat toks) as [[flat cdk] toks1] eqn:Ef.
    destruct (parse_flat_basic _ _ _ _ Ef) as [_ Hb].
    destruct cdk as [k|].
    + destruct Hb as [Hlen _]. destruct (ConditionalDirectiveKind_is_if k).
      * destruct (IHb toks1) as (bs & toks2 & -> & Hl2); [lia|].
        destruct (IHs top toks2) as (rest & c & toks3 & -> & Hl3 & Hs3); [lia|].
        eexists _, _, _. split; [reflexivity|]. split; [lia|intros _; lia].
      * destruct top.
        -- destruct (IHs true toks1) as (rest & c & toks3 & -> & Hl3 & Hs3); [lia|].
           eexists _, _, _. split; [reflexivity|]. split; [lia|intros _; lia].
        -- eexists _, _, _. split; [reflexivity|]. split; [lia|intros _; lia].
    + destruct Hb as [-> _]. eexists _, _, _. split; [reflexivity|].
      split; [cbn [length]; lia|intros H; congruence].
  - intros toks Hf. cbn [parse_branches].
    destruct (IHs false toks) as (secs & cdk & toks1 & -> & Hl1 & Hs1); [lia|].
    destruct (match cdk with Some k => ConditionalDirectiveKind_is_else k | None => false end) eqn:Ec.
    + assert (Hlt : length toks1 < length toks).
      { apply Hs1. destruct cdk; [discriminate|discriminate]. }
      destruct (IHb toks1) as (rest & toks2 & -> & Hl2); [lia|].
      eexists _, _. split; [reflexivity|lia].
    + eexists _, _. split; [reflexivity|lia].
Qed.

(* THEOREM parse_total: the fuel handed to the parser never runs out. *)
Theorem parse_total l : exists t, parse_opt l = Some t /\ parse l = t.
Proof.
  unfold parse, parse_opt, parse_next, parse_fuel.
  destruct (proj1 (parse_total_aux (2 * length l + 1)) true (enumerate_from 0 l))
    as (secs & cdk & r & -> & _).
  - rewrite enumerate_from_length. lia.
  - exists (Tree secs). split; reflexivity.
Qed.

Lemma parse_count_aux f :
  (forall top toks secs cdk r, parse_sections f top toks = Some (secs, cdk, r) ->
     Forall (fun x => fst x = false) (flat_map flat_list_section secs) /\
     1 <= length (flat_map flat_list_section secs) /\
     length (flat_map flat_list_section secs) + 2 * ndirs r
       <= 2 * ndirs toks + match cdk with Some _ => 0 | None => 1 end) /\
  (forall toks bs r, parse_branches f toks = Some (bs, r) ->
     Forall (fun x => fst x = false) (flat_map flat_list bs) /\
     length (flat_map flat_list bs) + 2 * ndirs r <= 2 * ndirs toks + 1).
Proof.
  induction f as [|f [IHs IHb]]; [split; intros; discriminate|]. split.
  - intros top toks secs cdk r E. cbn [parse_sections] in E.
    destruct (parse_flat toks) as [[flat c0] toks1] eqn:Ef.
    destruct (parse_flat_basic _ _ _ _ Ef) as [(a & b & ->) Hb].
    destruct c0 as [k|].
    + destruct Hb as [_ Hn]. destruct (ConditionalDirectiveKind_is_if k).
      * destruct (parse_branches f toks1) as [[bs toks2]|] eqn:Eb; [|discriminate].
        destruct (parse_sections f top toks2) as [[[rest c] toks3]|] eqn:Es; [|discriminate].
        injection E as <- <- <-.
        destruct (IHb _ _ _ Eb) as (F1 & C1). destruct (IHs _ _ _ _ _ Es) as (F2 & N2 & C2).
        cbn [flat_map flat_list_section app length]. rewrite !app_length.
        split; [constructor; [reflexivity|apply Forall_app; split; assumption]|].
        cbn [length]. destruct c; lia.
      * destruct top.
        -- destruct (parse_sections f true toks1) as [[[rest c] toks3]|] eqn:Es; [|discriminate].
           injection E as <- <- <-. destruct (IHs _ _ _ _ _ Es) as (F2 & N2 & C2).
           cbn [flat_map flat_list_section app].
           split; [constructor; [reflexivity|assumption]|]. cbn [length]. destruct c; lia.
        -- injection E as <- <- <-. cbn [flat_map flat_list_section app length].
           split; [repeat constructor|]. lia.
    + destruct Hb as [-> Hn]. injection E as <- <- <-. cbn [flat_map flat_list_section app length ndirs].
      split; [repeat constructor|]. lia.
  - intros toks bs r E. cbn [parse_branches] in E.
    destruct (parse_sections f false toks) as [[[secs cdk] toks1]|] eqn:Es; [|discriminate].
    destruct (IHs _ _ _ _ _ Es) as (F1 & N1 & C1).
    destruct (match cdk with Some k => ConditionalDirectiveKind_is_else k | None => false end) eqn:Ec.
    + destruct cdk as [k|]; [|discriminate].
      destruct (parse_branches f toks1) as [[rest toks2]|] eqn:Eb; [|discriminate].
      injection E as <- <-. destruct (IHb _ _ _ Eb) as (F2 & C2).
      cbn [flat_map]. rewrite flat_list_Tree, app_length.
      split; [apply Forall_app; split; assumption|lia].
    + injection E as <- <-. cbn [flat_map]. rewrite flat_list_Tree, app_nil_r.
      split; [assumption|]. destruct cdk; lia.
Qed.

Lemma parse_count l t :
  parse_opt l = Some t ->
  Forall (fun x => fst x = false) (flat_list t) /\ 1 <= nflat t <= 2 * ndir l + 1.
Proof.
  unfold parse_opt, parse_next, nflat.
  destruct (parse_sections (parse_fuel l) true (enumerate_from 0 l)) as [[[secs cdk] r]|] eqn:E;
    [|discriminate].
  intros H. injection H as <-.
  destruct (proj1 (parse_count_aux _) _ _ _ _ _ E) as (F & N & C).
  rewrite ndirs_enumerate in C. rewrite flat_list_Tree. split; [exact F|]. destruct cdk; lia.
Qed.

(* the fuel of all_passes suffices *)
Lemma all_passes_total l :
  passes_opt (parse l) (passes_fuel (parse l)) = Some (all_passes l) /\
  1 <= length (all_passes l) <= Nat.max 1 (unexp (parse l)).
Proof.
  unfold all_passes, passes.
  destruct (passes_opt_length (passes_fuel (parse l)) (parse l)) as (ps & -> & Hlen).
  - unfold passes_fuel, nflat, unexp. pose proof (unexp_l_le_length (flat_list (parse l))). lia.
  - split; [reflexivity|exact Hlen].
Qed.

(* THEOREM passes_terminate_linear: at least one pass, at most one pass per Flat section of the
   parsed tree, and at most 2*d+1 Flat sections for d conditional-directive tokens.  Hence the
   number of passes is linear in the input, whatever the nesting/sequencing of directives. *)
Theorem passes_terminate_linear l :
  1 <= length (all_passes l) /\
  length (all_passes l) <= nflat (parse l) /\
  nflat (parse l) <= 2 * ndir l + 1.
Proof.
  destruct (parse_total l) as (t & Ho & Ht). rewrite Ht.
  destruct (parse_count _ _ Ho) as (F & N1 & N2).
  destruct (all_passes_total l) as [_ Hlen]. rewrite Ht in Hlen.
  unfold unexp in Hlen. rewrite (unexp_l_all_false _ F) in Hlen. unfold nflat in *. rewrite Nat.max_r in Hlen by lia. lia.
Qed.

(* the bound 2*d+1 on the number of Flat sections is attained (3 unterminated ifs) *)
Example nflat_bound_tight :
  let l := [RTT_ConditionalDirective CDK_If; RTT_ConditionalDirective CDK_If;
            RTT_ConditionalDirective CDK_If] in
  nflat (parse l) = 2 * ndir l + 1.
Proof. reflexivity. Qed.

(* ================================================================== *)
(* 6. Index bookkeeping: the Flat sections tile the input *)

(* strictly increasing, all elements >= lo *)
Fixpoint inc_from (lo : nat) (p : list nat) : Prop :=
  match p with
  | [] => True
  | x :: r => lo <= x /\ inc_from (S x) r
  end.

Lemma inc_from_weaken p : forall lo lo', lo <= lo' -> inc_from lo' p -> inc_from lo p.
Proof. destruct p as [|x r]; cbn [inc_from]; [trivial|]. intros lo lo' Hle [H1 H2]. split; [lia|exact H2]. Qed.

Lemma inc_from_seq_app k : forall i p, inc_from (i + k) p -> inc_from i (seq i k ++ p).
Proof.
  induction k as [|k IH]; intros i p H; cbn [seq app].
  - rewrite Nat.add_0_r in H. exact H.
  - cbn [inc_from]. split; [lia|]. apply IH. replace (S i + k) with (i + S k) by lia. exact H.
Qed.

Lemma inc_from_sorted p : forall lo, inc_from lo p -> StronglySorted lt p /\ Forall (le lo) p.
Proof.
  induction p as [|x r IH]; intros lo H; cbn [inc_from] in H.
  - split; constructor.
  - destruct H as [H1 H2]. destruct (IH _ H2) as [S1 F1]. split.
    + constructor; [exact S1|]. eapply Forall_impl; [|exact F1]. cbn. intros y Hy. lia.
    + constructor; [exact H1|]. eapply Forall_impl; [|exact F1]. cbn. intros y Hy. lia.
Qed.

Lemma step_nil_inv fl2 p : step [] fl2 p -> fl2 = [] /\ p = [].
Proof. intros H. inversion H. split; reflexivity. Qed.

Lemma step_cons_inv x fl fl2 p :
  step (x :: fl) fl2 p ->
  exists fl' p', step fl fl' p' /\
    ((fl2 = (true, snd x) :: fl' /\ p = range_list (fst (snd x)) (snd (snd x)) ++ p') \/
     (fl2 = x :: fl' /\ p = p')).
Proof.
  intros H. inversion H as [|b a e fl0 fl0' p0 Hs|x0 fl0 fl0' p0 Hs]; subst.
  - exists fl0', p0. split; [exact Hs|]. left. cbn [fst snd]. split; reflexivity.
  - exists fl0', p. split; [exact Hs|]. right. split; reflexivity.
Qed.

Section Indexed.
  Variable l0 : list RawTokenType.
  Notation n := (length l0).

  (* x is the index of a token that is not a conditional directive *)
  Definition nondir (x : nat) : Prop := exists ty, nth_error l0 x = Some ty /\ cd_kind ty = None.
  Definition dir_at (x : nat) : Prop :=
    exists ty k, nth_error l0 x = Some ty /\ cd_kind ty = Some k.

  (* iterator state: next index i, remaining token types l = skipn i l0 *)
  Definition ok (i : nat) (l : list RawTokenType) : Prop :=
    (forall m, nth_error l m = nth_error l0 (i + m)) /\ i + length l = n.

  Lemma nondir_lt x : nondir x -> x < n.
  Proof. intros (ty & H & _). apply nth_error_Some. congruence. Qed.

  Lemma dir_at_lt x : dir_at x -> x < n.
  Proof. intros (ty & k & H & _). apply nth_error_Some. congruence. Qed.

  Lemma nondir_dir_at x : nondir x -> dir_at x -> False.
  Proof. intros (ty & H1 & H2) (ty' & k & H3 & H4). congruence. Qed.

  Lemma ok_tail i ty l : ok i (ty :: l) -> ok (S i) l /\ nth_error l0 i = Some ty.
  Proof.
    intros [Hn Hl]. cbn [length] in Hl. split; [split; [|lia]|].
    - intros m. specialize (Hn (S m)). cbn [nth_error] in Hn. rewrite Hn. f_equal. lia.
    - specialize (Hn 0). cbn [nth_error] in Hn. rewrite Nat.add_0_r in Hn. symmetry. exact Hn.
  Qed.

  Lemma ok_end : ok n [].
  Proof.
    split; [|cbn [length]; lia]. intros m. destruct m; cbn [nth_error]; symmetry; apply nth_error_None; lia.
  Qed.

  Lemma parse_flat_go_spec l : forall i st rg, ok i l ->
    exists k j l' cdk,
      parse_flat_go st rg (enumerate_from i l) =
        (if k =? 0 then rg else (match st with Some s => s | None => i end, i + k),
         cdk, enumerate_from j l') /\
      ok j l' /\ i + k <= n /\ (forall x, i <= x < i + k -> nondir x) /\
      match cdk with
      | Some _ => dir_at (i + k) /\ j = i + k + 1
      | None => i + k = n /\ j = n
      end.
  Proof.
    induction l as [|ty l IH]; intros i st rg Hok.
    - exists 0, n, [], None. destruct Hok as [_ Hl]. cbn [length] in Hl. cbn.
      split; [reflexivity|]. split; [apply ok_end|]. split; [lia|]. split; [intros x Hx; lia|lia].
    - destruct (ok_tail _ _ _ Hok) as [Hok' Hty]. cbn [enumerate_from parse_flat_go].
      destruct (cd_kind ty) as [k0|] eqn:Ek.
      + exists 0, (S i), l, (Some k0). cbn [Nat.eqb].
        split; [reflexivity|]. split; [exact Hok'|].
        destruct Hok as [_ Hl]. cbn [length] in Hl.
        split; [lia|]. split; [intros x Hx; lia|]. split; [|lia].
        exists ty, k0. rewrite Nat.add_0_r. split; assumption.
      + set (s0 := match st with Some s => s | None => i end).
        destruct (IH (S i) (Some s0) (s0, i + 1) Hok') as (k & j & l' & cdk & E & Hokj & Hle & Hnd & Hc).
        exists (S k), j, l', cdk. rewrite E. cbn [Nat.eqb].
        split.
        { f_equal. f_equal. destruct k; cbn [Nat.eqb]; f_equal; lia. }
        split; [exact Hokj|]. split; [lia|]. split.
        { intros x Hx. destruct (Nat.eq_dec x i) as [->|Hne].
          - exists ty. split; assumption.
          - apply Hnd. lia. }
        replace (i + S k) with (S i + k) by lia. exact Hc.
  Qed.

  Lemma parse_flat_spec i l : ok i l ->
    exists k j l' cdk a b,
      parse_flat (enumerate_from i l) = (Flat false a b, cdk, enumerate_from j l') /\
      ok j l' /\ i + k <= n /\ (forall x, i <= x < i + k -> nondir x) /\
      (a, b) = (if k =? 0 then (0, 0) else (i, i + k)) /\
      match cdk with
      | Some _ => dir_at (i + k) /\ j = i + k + 1
      | None => i + k = n /\ j = n
      end.
  Proof.
    intros Hok. destruct (parse_flat_go_spec l i None (0, 0) Hok) as (k & j & l' & cdk & E & H).
    unfold parse_flat. rewrite E.
    exists k, j, l', cdk, (fst (if k =? 0 then (0, 0) else (i, i + k))),
      (snd (if k =? 0 then (0, 0) else (i, i + k))).
    split; [reflexivity|]. destruct H as (H1 & H2 & H3 & H4).
    repeat (split; [assumption|]). split; [|exact H4]. destruct (k =? 0); reflexivity.
  Qed.

  (* tiles i fl j: the ranges of fl, in order, are exactly the maximal runs of non-directive
     tokens in [i, j), separated by single directive tokens; runs may be empty (range 0..0), and
     once the input is exhausted only empty runs follow. *)
  Inductive tiles : nat -> list flat_entry -> nat -> Prop :=
    | tiles_nil i : tiles i [] i
    | tiles_cons i k j' b rg fl j :
        i + k <= n ->
        (forall x, i <= x < i + k -> nondir x) ->
        (i + k = n /\ j' = n) \/ (dir_at (i + k) /\ j' = i + k + 1) ->
        rg = (if k =? 0 then (0, 0) else (i, i + k)) ->
        tiles j' fl j ->
        tiles i ((b, rg) :: fl) j.

  Lemma tiles_app i a m : tiles i a m -> forall b j, tiles m b j -> tiles i (a ++ b) j.
  Proof.
    induction 1 as [i|i k j' b0 rg fl m H1 H2 H3 H4 _ IH]; intros b j Hb; cbn [app]; [exact Hb|].
    eapply tiles_cons; eauto.
  Qed.

  Lemma tiles_bounds i fl j : tiles i fl j -> i <= n -> i <= j <= n.
  Proof.
    induction 1 as [i|i k j' b0 rg fl m H1 H2 H3 H4 _ IH]; intros Hi; [lia|].
    destruct H3 as [[H3 ->]|[H3 ->]].
    - specialize (IH (le_n _)). lia.
    - apply dir_at_lt in H3. specialize (IH ltac:(lia)). lia.
  Qed.

  Lemma parse_tiles_aux f :
    (forall top i l secs cdk r, ok i l ->
       parse_sections f top (enumerate_from i l) = Some (secs, cdk, r) ->
       exists j l', r = enumerate_from j l' /\ ok j l' /\
         tiles i (flat_map flat_list_section secs) j /\
         (cdk = None -> j = n) /\ (top = true -> cdk = None)) /\
    (forall i l bs r, ok i l ->
       parse_branches f (enumerate_from i l) = Some (bs, r) ->
       exists j l', r = enumerate_from j l' /\ ok j l' /\ tiles i (flat_map flat_list bs) j).
  Proof.
    induction f as [|f [IHs IHb]]; [split; intros; discriminate|]. split.
    - intros top i l secs cdk r Hok E. cbn [parse_sections] in E.
      destruct (parse_flat_spec i l Hok)
        as (k & j1 & l1 & c0 & a & b & Epf & Hok1 & Hle & Hnd & Hrg & Hc0).
      rewrite Epf in E. cbv beta iota in E.
      assert (Htile : forall fl j, tiles j1 fl j -> tiles i ((false, (a, b)) :: fl) j).
      { intros fl j Ht. eapply tiles_cons; [exact Hle|exact Hnd| |exact Hrg|exact Ht].
        destruct c0; [right|left]; exact Hc0. }
      destruct c0 as [k0|].
      + destruct (ConditionalDirectiveKind_is_if k0).
        * destruct (parse_branches f (enumerate_from j1 l1)) as [[bs toks2]|] eqn:Eb; [|discriminate].
          destruct (IHb _ _ _ _ Hok1 Eb) as (j2 & l2 & -> & Hok2 & T2).
          destruct (parse_sections f top (enumerate_from j2 l2)) as [[[rest c] toks3]|] eqn:Es;
            [|discriminate].
          destruct (IHs _ _ _ _ _ _ Hok2 Es) as (j3 & l3 & -> & Hok3 & T3 & Hn3 & Htop3).
          injection E as <- <- <-. exists j3, l3. split; [reflexivity|]. split; [exact Hok3|].
          split; [|split; assumption]. cbn [flat_map flat_list_section app].
          apply Htile. eapply tiles_app; eassumption.
        * destruct top.
          -- destruct (parse_sections f true (enumerate_from j1 l1)) as [[[rest c] toks3]|] eqn:Es;
               [|discriminate].
             destruct (IHs _ _ _ _ _ _ Hok1 Es) as (j3 & l3 & -> & Hok3 & T3 & Hn3 & Htop3).
             injection E as <- <- <-. exists j3, l3. split; [reflexivity|]. split; [exact Hok3|].
             split; [|split; assumption]. cbn [flat_map flat_list_section app].
             apply Htile. exact T3.
          -- injection E as <- <- <-. exists j1, l1. split; [reflexivity|]. split; [exact Hok1|].
             split; [|split; discriminate]. cbn [flat_map flat_list_section app].
             apply Htile. constructor.
      + injection E as <- <- <-. exists j1, l1. split; [reflexivity|]. split; [exact Hok1|].
        split; [|split; [intros _; apply Hc0|reflexivity]]. cbn [flat_map flat_list_section app].
        apply Htile. constructor.
    - intros i l bs r Hok E. cbn [parse_branches] in E.
      destruct (parse_sections f false (enumerate_from i l)) as [[[secs cdk] toks1]|] eqn:Es;
        [|discriminate].
      destruct (IHs _ _ _ _ _ _ Hok Es) as (j1 & l1 & -> & Hok1 & T1 & _).
      destruct (match cdk with Some k => ConditionalDirectiveKind_is_else k | None => false end).
      + destruct (parse_branches f (enumerate_from j1 l1)) as [[rest toks2]|] eqn:Eb; [|discriminate].
        destruct (IHb _ _ _ _ Hok1 Eb) as (j2 & l2 & -> & Hok2 & T2).
        injection E as <- <-. exists j2, l2. split; [reflexivity|]. split; [exact Hok2|].
        cbn [flat_map]. rewrite flat_list_Tree. eapply tiles_app; eassumption.
      + injection E as <- <-. exists j1, l1. split; [reflexivity|]. split; [exact Hok1|].
        cbn [flat_map]. rewrite flat_list_Tree, app_nil_r. exact T1.
  Qed.

  Lemma ok_start : ok 0 l0.
  Proof. split; [intros m; reflexivity|reflexivity]. Qed.

  Lemma parse_tiles t : parse_opt l0 = Some t -> tiles 0 (flat_list t) n.
  Proof.
    unfold parse_opt, parse_next.
    destruct (parse_sections (parse_fuel l0) true (enumerate_from 0 l0)) as [[[secs cdk] r]|] eqn:E;
      [|discriminate].
    intros H. injection H as <-.
    destruct (proj1 (parse_tiles_aux _) _ _ _ _ _ _ ok_start E) as (j & l' & _ & _ & T & Hn & Htop).
    rewrite <- (Hn (Htop eq_refl)). rewrite flat_list_Tree. exact T.
  Qed.

  (* one pass over a tiling: the tiling survives (only flags change), and the pass is strictly
     increasing, starts at or after i, and contains only non-directive indices *)
  Lemma tiles_step i fl j : tiles i fl j -> i <= n ->
    forall fl' p, step fl fl' p -> tiles i fl' j /\ inc_from i p /\ Forall nondir p.
  Proof.
    induction 1 as [i|i k j' b0 rg fl j H1 H2 H3 H4 Ht IH]; intros Hi fl' p Hs.
    - apply step_nil_inv in Hs. destruct Hs as [-> ->]. split; [constructor|]. split; constructor.
    - assert (Hj' : i + k <= j' <= n).
      { destruct H3 as [[H3 ->]|[H3 ->]]; [lia|]. apply dir_at_lt in H3. lia. }
      apply step_cons_inv in Hs. destruct Hs as (fl1 & p1 & Hs1 & Hcase).
      destruct (IH ltac:(lia) _ _ Hs1) as (T1 & I1 & F1).
      destruct Hcase as [[-> ->]|[-> ->]]; cbn [fst snd].
      + split; [eapply tiles_cons; eauto|].
        destruct k as [|k]; cbn [Nat.eqb] in H4; subst rg; cbn [fst snd]; unfold range_list.
        * cbn [Nat.sub seq app]. split; [|exact F1]. eapply inc_from_weaken; [|exact I1]. lia.
        * replace (i + S k - i) with (S k) by lia. split.
          -- apply inc_from_seq_app. eapply inc_from_weaken; [|exact I1]. lia.
          -- apply Forall_app. split; [|exact F1]. apply Forall_forall. intros x Hx.
             apply in_seq in Hx. apply H2. lia.
      + split; [eapply tiles_cons; eauto|]. split; [|exact F1].
        eapply inc_from_weaken; [|exact I1]. lia.
  Qed.

  (* every non-directive index of [i, j) lies in one of the ranges *)
  Lemma tiles_cover i fl j : tiles i fl j -> i <= n ->
    forall x, i <= x < j -> nondir x -> exists b r, In (b, r) fl /\ fst r <= x < snd r.
  Proof.
    induction 1 as [i|i k j' b0 rg fl j H1 H2 H3 H4 Ht IH]; intros Hi x Hx Hnd; [lia|].
    assert (Hj' : i + k <= j' <= n).
    { destruct H3 as [[H3 ->]|[H3 ->]]; [lia|]. apply dir_at_lt in H3. lia. }
    pose proof (tiles_bounds _ _ _ Ht ltac:(lia)) as Hb.
    destruct (Nat.lt_ge_cases x (i + k)) as [Hlt|Hge].
    - exists b0, rg. split; [left; reflexivity|].
      destruct k as [|k]; [lia|]. cbn [Nat.eqb] in H4. subst rg. cbn [fst snd]. lia.
    - assert (Hx' : j' <= x).
      { destruct H3 as [[H3 ->]|[H3 ->]]; [lia|].
        destruct (Nat.eq_dec x (i + k)) as [->|Hne]; [|lia].
        exfalso. eapply nondir_dir_at; eassumption. }
      destruct (IH ltac:(lia) x ltac:(lia) Hnd) as (b & r & Hin & Hr).
      exists b, r. split; [right; exact Hin|exact Hr].
  Qed.

  Lemma passes_opt_sorted f : forall t ps i j,
    passes_opt t f = Some ps -> tiles i (flat_list t) j -> i <= n ->
    forall p, In p ps -> inc_from i p /\ Forall nondir p.
  Proof.
    induction f as [|f IH]; intros t ps i j E T Hi p Hp; [discriminate|].
    destruct (passes_opt_inv _ _ _ E) as (t' & p0 & Ep & Hcase).
    destruct (tiles_step _ _ _ T Hi _ _ (pass_tree_step _ _ _ Ep)) as (T' & I0 & F0).
    destruct Hcase as [[_ ->]|[_ (ps' & Eps' & ->)]].
    - destruct Hp as [<-|[]]. split; assumption.
    - destruct Hp as [<-|Hp]; [split; assumption|]. exact (IH _ _ _ _ Eps' T' Hi _ Hp).
  Qed.
End Indexed.

(* ================================================================== *)
(* 7. Main theorems about all_passes *)

(* THEOREM pass_sorted: every pass is strictly increasing, stays below the input length and
   contains no index of a conditional-directive token (nondir l x: token x exists and is not a
   conditional directive). *)
Theorem pass_sorted l p :
  In p (all_passes l) ->
  StronglySorted lt p /\ Forall (fun x => x < length l) p /\ Forall (nondir l) p.
Proof.
  intros Hp. destruct (parse_total l) as (t & Ho & Ht).
  destruct (all_passes_total l) as [E _]. rewrite Ht in E.
  destruct (passes_opt_sorted l _ _ _ 0 _ E (parse_tiles l t Ho) (Nat.le_0_l _) p Hp) as [I F].
  split; [exact (proj1 (inc_from_sorted _ _ I))|]. split; [|exact F].
  eapply Forall_impl; [|exact F]. intros x Hx. exact (nondir_lt l x Hx).
Qed.

(* THEOREM passes_cover: every token that is not a conditional directive occurs in some pass. *)
Theorem passes_cover l x :
  nondir l x -> exists p, In p (all_passes l) /\ In x p.
Proof.
  intros Hx. destruct (parse_total l) as (t & Ho & Ht).
  destruct (all_passes_total l) as [E _]. rewrite Ht in E.
  destruct (parse_count _ _ Ho) as [Ffalse _].
  pose proof (nondir_lt l x Hx) as Hlt.
  destruct (tiles_cover l _ _ _ (parse_tiles l t Ho) (Nat.le_0_l _) x ltac:(lia) Hx)
    as (b & r & Hin & Hr).
  assert (Hb : b = false).
  { rewrite Forall_forall in Ffalse. exact (Ffalse _ Hin). }
  subst b. exact (passes_opt_cover _ _ _ E _ Hin _ Hr).
Qed.

Example passes_cover_nonvacuous :
  nondir [RTT_ConditionalDirective CDK_Endif; RTT_Identifier] 1.
Proof. exists RTT_Identifier. split; reflexivity. Qed.

Lemma parse_flat_go_nodir l : Forall (fun ty => cd_kind ty = None) l -> forall i st rg,
  parse_flat_go st rg (enumerate_from i l) =
  (match l with
   | [] => rg
   | _ :: _ => (match st with Some s => s | None => i end, i + length l)
   end, None, []).
Proof.
  induction 1 as [|ty l Hty _ IH]; intros i st rg; cbn [enumerate_from parse_flat_go]; [reflexivity|].
  rewrite Hty, IH. f_equal. f_equal. destruct l as [|ty' l']; cbn [length]; f_equal; lia.
Qed.

(* THEOREM no_directives_single_identity_pass *)
Theorem no_directives_single_identity_pass l :
  Forall (fun ty => cd_kind ty = None) l -> all_passes l = [seq 0 (length l)].
Proof.
  intros H. unfold all_passes, parse, parse_opt, parse_next, parse_fuel.
  replace (2 * length l + 1) with (S (2 * length l)) by lia.
  cbn [parse_sections]. unfold parse_flat. rewrite (parse_flat_go_nodir l H).
  destruct l as [|ty l']; [reflexivity|]. cbv beta iota. cbn [fst snd Nat.add].
  unfold passes, passes_fuel, nflat. cbn [flat_list flat_map flat_list_section app length].
  rewrite passes_opt_S, pass_tree_Tree. cbn [pass_all pass_section]. rewrite explored_Tree.
  cbn [forallb explored_section andb]. unfold range_list. rewrite Nat.sub_0_r, app_nil_r. reflexivity.
Qed.

Example no_directives_nonvacuous :
  all_passes [RTT_Identifier; RTT_Eof; RTT_Unknown] = [[0; 1; 2]] /\ all_passes [] = [[]].
Proof. split; reflexivity. Qed.

(* ================================================================== *)
(* 8. Concrete runs: the doc-comment example, malformed inputs, and the Rust unit tests
      (`token_views` in directive_tree.rs), with each non-directive token abstracted to X *)

Definition X := RTT_Identifier.
Definition IF := RTT_ConditionalDirective CDK_Ifdef.
Definition ELSEIF := RTT_ConditionalDirective CDK_Elseif.
Definition ELSE := RTT_ConditionalDirective CDK_Else.
Definition END := RTT_ConditionalDirective CDK_Endif.

(* A; {$ifdef FOO} B; {$ifdef BAR} C; {$endif} {$elseif FOO} D; E; {$endif} F; *)
Definition doc_example := [X; X; IF; X; X; IF; X; X; END; ELSEIF; X; X; X; X; END; X; X].

Example doc_example_tree :
  parse doc_example =
  Tree [Flat false 0 2;
        Nested [Tree [Flat false 3 5; Nested [Tree [Flat false 6 8]]; Flat false 0 0];
                Tree [Flat false 10 14]];
        Flat false 15 17].
Proof. reflexivity. Qed.

Example doc_example_passes :
  all_passes doc_example = [[0; 1; 3; 4; 6; 7; 15; 16]; [0; 1; 10; 11; 12; 13; 15; 16]].
Proof. reflexivity. Qed.

(* malformed: unmatched {$endif} / {$else} at top level are skipped *)
Example unmatched_top_level :
  parse [END; X; ELSE; X] = Tree [Flat false 0 0; Flat false 1 2; Flat false 3 4] /\
  all_passes [END; X; ELSE; X] = [[1; 3]].
Proof. split; reflexivity. Qed.

(* malformed: unterminated {$ifdef *)
Example unterminated_if :
  parse [X; IF; X] = Tree [Flat false 0 1; Nested [Tree [Flat false 2 3]]; Flat false 0 0] /\
  all_passes [X; IF; X] = [[0; 2]].
Proof. split; reflexivity. Qed.

(* Rust test if_around_all: {IF}foo(a, b, c);{END}  (8 tokens between the directives) *)
Example rust_if_around_all :
  all_passes ([IF] ++ repeat X 8 ++ [END]) = [[1; 2; 3; 4; 5; 6; 7; 8]].
Proof. reflexivity. Qed.

(* Rust test if_else_else_internal: foo({IF}a{ELSEIF}b{ELSEIF}c{END}); *)
Example rust_if_else_else_internal :
  all_passes [X; X; IF; X; ELSEIF; X; ELSEIF; X; END; X; X] =
  [[0; 1; 3; 9; 10]; [0; 1; 5; 9; 10]; [0; 1; 7; 9; 10]].
Proof. reflexivity. Qed.

(* Rust test max_branch: foo({IF}a{ELSEIF}b{END}, {IF}d{ELSEIF}e{ELSEIF}f{END});
   expected foo(a,d); foo(b,e); foo(b,f); *)
Example rust_max_branch :
  all_passes [X; X; IF; X; ELSEIF; X; END; X; IF; X; ELSEIF; X; ELSEIF; X; END; X; X] =
  [[0; 1; 3; 7; 9; 15; 16]; [0; 1; 5; 7; 11; 15; 16]; [0; 1; 5; 7; 13; 15; 16]].
Proof. reflexivity. Qed.

(* Rust test first_branch_explored_only_once:
   {IF}{IF}{ELSE}a{END}{END}{IF}b{ELSE}c{END}   expected "b", "ac" *)
Example rust_first_branch_explored_only_once :
  all_passes [IF; IF; ELSE; X; END; END; IF; X; ELSE; X; END] = [[7]; [3; 9]].
Proof. reflexivity. Qed.

(* Rust test unmatched_end:
   {END}{ELSE}{IF}a{ELSE}b{END}{END}{ELSE}{END}{IF}c{ELSE}d{END}{END}   expected "ac", "bd" *)
Example rust_unmatched_end :
  all_passes [END; ELSE; IF; X; ELSE; X; END; END; ELSE; END; IF; X; ELSE; X; END; END] =
  [[3; 11]; [5; 13]].
Proof. reflexivity. Qed.

(* Rust test manual_elseif, cut down to 4 levels: {IF}a{ELSE}{IF}b{ELSE}{IF}c{ELSE}d{END}{END}{END}
   one pass per leaf, i.e. linear, not exponential *)
Example rust_manual_elseif_4 :
  all_passes [IF; X; ELSE; IF; X; ELSE; IF; X; ELSE; X; END; END; END] = [[1]; [4]; [7]; [9]].
Proof. reflexivity. Qed.

Print Assumptions parse_total.
Print Assumptions passes_terminate_linear.
Print Assumptions pass_sorted.
Print Assumptions passes_cover.
Print Assumptions no_directives_single_identity_pass.
Print Assumptions explored_monotone.

(* Rust test max_branch_nested:
   foo( {IF} {IF}a{ELSEIF}b{END}, {IF}d{ELSEIF}e{ELSEIF}f{END}, {END}
        {IF} {IF}g{ELSEIF}h{END}, {IF}i{ELSEIF}j{ELSEIF}k{END}
        {ELSEIF} {IF}l{ELSEIF}m{END}, {IF}n{ELSEIF}o{ELSEIF}p{END} {END});
   expected foo(a,d,g,i); foo(b,e,h,j); foo(b,f,h,k); foo(b,f,l,n); foo(b,f,m,o); foo(b,f,m,p); *)
Example rust_max_branch_nested :
  all_passes
    [X; X; IF; IF; X; ELSEIF; X; END; X; IF; X; ELSEIF; X; ELSEIF; X; END; X; END;
     IF; IF; X; ELSEIF; X; END; X; IF; X; ELSEIF; X; ELSEIF; X; END;
     ELSEIF; IF; X; ELSEIF; X; END; X; IF; X; ELSEIF; X; ELSEIF; X; END; END; X; X] =
  [[0; 1; 4; 8; 10; 16; 20; 24; 26; 47; 48];
   [0; 1; 6; 8; 12; 16; 22; 24; 28; 47; 48];
   [0; 1; 6; 8; 14; 16; 22; 24; 30; 47; 48];
   [0; 1; 6; 8; 14; 16; 34; 38; 40; 47; 48];
   [0; 1; 6; 8; 14; 16; 36; 38; 42; 47; 48];
   [0; 1; 6; 8; 14; 16; 36; 38; 44; 47; 48]].
Proof. vm_compute. reflexivity. Qed.

(* non-vacuity of pass_sorted / passes_terminate_linear on the doc example: 2 passes, 6 Flat
   sections, 5 directives *)
Example pass_sorted_nonvacuous : In [0; 1; 10; 11; 12; 13; 15; 16] (all_passes doc_example).
Proof. right. left. reflexivity. Qed.

Example passes_terminate_linear_doc :
  length (all_passes doc_example) = 2 /\ nflat (parse doc_example) = 6 /\ ndir doc_example = 5.
Proof. repeat split; reflexivity. Qed.
