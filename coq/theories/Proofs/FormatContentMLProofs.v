(* Proofs/FormatContentMLProofs.v — C01 for the composed model, EVERY valid UTF-8 input (format_preserves_nonblank).

   FormatContentProofs.v covers the runs in which the wrapper's string stage does not rewrite anything.  Here the stage itself is
   shown to be an admissible FWrap step of the C01 chain (PipelineProofs.wrap_tok) on the vector the composed run hands to it:
     - a token is rewritten AT MOST ONCE by the stage, although a token shared by two logical lines is visited twice: the second
       visit finds rewrite_ml_token = None (MLStringProofs.token_idempotent) — olf_effect_one_rewrite;
     - that one rewrite keeps the non-blank bytes (WrapStepProofs.rewrite_is_wrap_step), because the literal starts and ends with
       a quote (FormatMLProofs.lex_ml_token_shape) and no line of it ends inside a U+3000 (FormatMLProofs.valid_lines_complete);
     - LowercaseKeywords and CommentFormatter do not touch a token typed TextLiteral(MultiLine), and the parser and the generics
       pass keep that type exactly (retype_ok_fixed, generics_only_chevrons). *)
From Coq Require Import Lia.
From PasfmtVerif Require Import Proofs.LexerProofs Proofs.LexerSpecProofs Proofs.FormatMLProofs.
From PasfmtVerif Require Import Model.Format Model.Pipeline Proofs.FormatProofs Proofs.FormatWrapProofs Proofs.FormatIgnoredProofs
  Proofs.FormatContentProofs Proofs.WrapApplyProofs Proofs.WrapStepProofs Proofs.MLStringProofs Proofs.ReconstructProofs
  Proofs.RewritersProofs Proofs.PipelineProofs Proofs.EndToEnd Proofs.SpacingProofs Proofs.GenericsProofs
  Proofs.ParserGrammarTypesProofs Proofs.ToggleProofs Proofs.FormatRescanProofs.
Local Open Scope nat_scope.

(* ------------------------------------------------------------------ *)
(* what the string stage needs of a multi-line literal it may rewrite *)
Definition ml_ready (p : ftoken) : Prop :=
  is_ml_string (t_ty (fst p)) = true -> f_ignored (snd p) = false ->
  lines_complete (t_content (fst p)) /\ (exists r, t_content (fst p) = 39%N :: r) /\ ends_quote (t_content (fst p)).

(* one step of the stage on one token *)
Definition ml_step (rs : rsettings) (q q' : ftoken) : Prop :=
  q' = q \/
  (f_ignored (snd q) = false /\ is_ml_string (t_ty (fst q)) = true /\
   exists c, rewrite_ml_token rs (f_ind (snd q)) (f_cont (snd q)) (t_content (fst q)) = Some c /\ q' = (set_content (fst q) c, snd q)).

(* the whole stage on one token: untouched, or rewritten once from its ORIGINAL text *)
Definition one_rewrite (rs : rsettings) (p q : ftoken) : Prop :=
  q = p \/
  (f_ignored (snd p) = false /\ is_ml_string (t_ty (fst p)) = true /\
   exists c, rewrite_ml_token rs (f_ind (snd p)) (f_cont (snd p)) (t_content (fst p)) = Some c /\ q = (set_content (fst p) c, snd p)).

Lemma ml_visit_step rs acc i : pointwise (ml_step rs) (fst acc) (fst (ml_visit rs acc i)).
Proof.
  assert (Hrefl : forall l, pointwise (ml_step rs) l l) by (intros l; apply pointwise_refl; intros p; left; reflexivity).
  unfold ml_visit. destruct (nth_error (fst acc) i) as [[tok f]|] eqn:E; [|apply Hrefl].
  destruct (f_ignored f) eqn:Ei; [apply Hrefl|]. destruct (is_ml_string (t_ty tok)) eqn:Em; [|apply Hrefl].
  destruct (rewrite_ml_token rs (f_ind f) (f_cont f) (t_content tok)) as [c|] eqn:Er; [|apply Hrefl].
  destruct (bytes_eqb c (t_content tok)); [apply Hrefl|]. cbn [fst].
  apply pointwise_upd_ftok_tok; [intros p; left; reflexivity|].
  intros p Hp. rewrite E in Hp. injection Hp as <-. right. cbn [fst snd]. repeat split; try assumption. exists c. split; [exact Er|reflexivity].
Qed.

Lemma one_rewrite_step rs p q q' :
  rs_ok rs -> ml_ready p -> one_rewrite rs p q -> ml_step rs q q' -> one_rewrite rs p q'.
Proof.
  intros Hrs Hr [->|(Hi & Hm & c & Hc & ->)] [->|(Hi' & Hm' & c' & Hc' & ->)]; try (left; reflexivity).
  - right. repeat split; try assumption. exists c'. split; [exact Hc'|reflexivity].
  - right. repeat split; try assumption. exists c. split; [exact Hc|reflexivity].
  - (* a second rewrite of an already rewritten literal: impossible *)
    exfalso. cbn [fst snd set_content t_content] in Hc'.
    destruct (Hr Hm Hi) as (_ & _ & Hq).
    rewrite (token_idempotent rs _ _ _ c Hrs Hq Hc) in Hc'. discriminate Hc'.
Qed.

Lemma pointwise_comp (R S T : ftoken -> ftoken -> Prop) a b c :
  (forall j x y z, nth_error a j = Some x -> R x y -> S y z -> T x z) -> pointwise R a b -> pointwise S b c -> pointwise T a c.
Proof.
  intros H [L1 H1] [L2 H2]. split; [congruence|]. intros j x Hx.
  destruct (H1 j x Hx) as (y & Hy & Rxy). destruct (H2 j y Hy) as (z & Hz & Syz). exists z. split; [exact Hz|exact (H j x y z Hx Rxy Syz)].
Qed.

Lemma ml_fold_one_rewrite rs a : rs_ok rs -> (forall j p, nth_error a j = Some p -> ml_ready p) ->
  forall visits acc, pointwise (one_rewrite rs) a (fst acc) -> pointwise (one_rewrite rs) a (fst (fold_left (ml_visit rs) visits acc)).
Proof.
  intros Hrs Hready. induction visits as [|i vs IH]; intros acc Hacc; cbn [fold_left]; [exact Hacc|].
  apply IH. eapply pointwise_comp; [|exact Hacc|apply ml_visit_step].
  intros j x y z Hx Hxy Hyz. exact (one_rewrite_step rs x y z Hrs (Hready j x Hx) Hxy Hyz).
Qed.

(* ------------------------------------------------------------------ *)
(* wrap_tok: closure properties *)
Lemma wrap_tok_refl p : wrap_tok p p.
Proof. left. split; reflexivity. Qed.

Lemma wrap_tok_trans x y z : wrap_tok x y -> wrap_tok y z -> wrap_tok x z.
Proof.
  intros [[A1 A2]|(A1 & A2 & A3 & A4 & A5 & A6 & A7)] [[B1 B2]|(B1 & B2 & B3 & B4 & B5 & B6 & B7)].
  - left. split; congruence.
  - right. rewrite A1 in *. repeat split; try congruence.
  - right. repeat split; try congruence; rewrite B1; assumption.
  - right. repeat split; try congruence.
Qed.

Lemma same_tok_wrap p q : same_tok p q -> wrap_tok p q.
Proof. intros [A B]. left. split; assumption. Qed.

Lemma one_rewrite_wrap rs p q : rs_ok rs -> ml_ready p -> one_rewrite rs p q -> wrap_tok p q.
Proof.
  intros Hrs Hr [->|(Hi & Hm & c & Hc & ->)]; [apply wrap_tok_refl|].
  destruct p as [tok f]. cbn [fst snd] in *. destruct (Hr Hm Hi) as (Hlc & Hq & _).
  exact (rewrite_is_wrap_step rs (f_ind f) (f_cont f) tok f f c Hm Hi eq_refl (rs_ok_blank rs Hrs) Hlc Hq Hc).
Qed.

(* ------------------------------------------------------------------ *)
(* the wrapper's effect is an admissible FWrap step on a vector whose multi-line literals are ready *)
Lemma ml_ready_same p q : same_tok p q -> ml_ready p -> ml_ready q.
Proof. intros [A B] H. unfold ml_ready. rewrite A, B. exact H. Qed.

Theorem olf_effect_wrap_tok rs fm visits plan1 plan2 l :
  rs_ok rs -> (forall j p, nth_error l j = Some p -> ml_ready p) ->
  pointwise wrap_tok l (olf_effect rs fm visits plan1 plan2 l).
Proof.
  intros Hrs Hready. unfold olf_effect.
  set (a := zero_line_starts (apply_plan plan1 l)).
  assert (Hcnt : forall plan x, pointwise same_tok x (apply_plan plan x))
    by (intros plan x; apply (apply_plan_pointwise same_tok same_tok_refl same_tok_trans); intros tok f nl ind cont sp; split; reflexivity).
  assert (Ha : pointwise same_tok l a).
  { eapply pointwise_trans; [exact same_tok_trans|apply Hcnt|].
    apply (zero_line_starts_pointwise same_tok same_tok_refl). intros tok f nl ind cont sp. split; reflexivity. }
  assert (Hla : pointwise wrap_tok l a).
  { destruct Ha as [L H]. split; [exact L|]. intros j p Hp. destruct (H j p Hp) as (q & Hq & S). exists q. split; [exact Hq|apply same_tok_wrap, S]. }
  destruct fm; [|exact Hla].
  assert (Hra : forall j p, nth_error a j = Some p -> ml_ready p).
  { intros j q Hq. assert (Hj : j < length l) by (rewrite <- (proj1 Ha); apply nth_error_Some; congruence).
    destruct (nth_error l j) as [p|] eqn:Ep; [|apply nth_error_None in Ep; lia].
    destruct (proj2 Ha j p Ep) as (q' & Hq' & S). rewrite Hq in Hq'. injection Hq' as <-. exact (ml_ready_same p q S (Hready j p Ep)). }
  pose proof (ml_fold_one_rewrite rs a Hrs Hra visits (a, false) (pointwise_refl _ a (fun p => or_introl eq_refl))) as Hb.
  unfold ml_stage. destruct (fold_left (ml_visit rs) visits (a, false)) as [b reflowed]. cbn [fst] in Hb.
  assert (Hab : pointwise wrap_tok a b).
  { destruct Hb as [L H]. split; [exact L|]. intros j p Hp. destruct (H j p Hp) as (q & Hq & O). exists q. split; [exact Hq|].
    exact (one_rewrite_wrap rs p q Hrs (Hra j p Hp) O). }
  assert (Hlb : pointwise wrap_tok l b) by (eapply pointwise_trans; [exact wrap_tok_trans|exact Hla|exact Hab]).
  destruct reflowed; [|exact Hlb].
  eapply pointwise_trans; [exact wrap_tok_trans|exact Hlb|].
  assert (Hs : pointwise same_tok b (respace (map (fun p : ftoken => f_sp (snd p)) l) (apply_plan plan2 b))).
  { eapply pointwise_trans; [exact same_tok_trans|apply Hcnt|].
    apply (respace_pointwise same_tok same_tok_refl). intros tok f nl ind cont sp. split; reflexivity. }
  destruct Hs as [L H]. split; [exact L|]. intros j p Hp. destruct (H j p Hp) as (q & Hq & S). exists q. split; [exact Hq|apply same_tok_wrap, S].
Qed.

Corollary olf_model_wrap_tok rs W fm lines l :
  rs_ok rs -> (forall j p, nth_error l j = Some p -> ml_ready p) ->
  pointwise wrap_tok l (fst (fst (olf_model rs W fm lines l))).
Proof. intros Hrs Hr. destruct (olf_model_is_effect rs W fm lines l) as (p1 & p2 & ->). apply olf_effect_wrap_tok; assumption. Qed.

(* ------------------------------------------------------------------ *)
(* the vector the composed run hands to the wrapper is ready, for valid UTF-8 input *)
Lemma ml_tok_untouched alnum tok f : is_ml_string (t_ty tok) = true -> fst (comment_tok alnum (lowercase_tok (tok, f))) = tok.
Proof.
  intros Hm. unfold is_ml_string in Hm. destruct (t_ty tok) eqn:Et; try discriminate Hm.
  unfold lowercase_tok. destruct (f_ignored f) eqn:I.
  - unfold comment_tok. rewrite I. reflexivity.
  - rewrite Et. cbn [is_keyword andb]. unfold comment_tok. rewrite I, Et. reflexivity.
Qed.

(* the parser and the generics pass keep the type of a text literal exactly *)
Lemma fm_toks_ml_type segs i sg tok :
  nth_error segs i = Some sg -> nth_error (fm_toks segs) i = Some tok -> is_ml_string (t_ty tok) = true ->
  is_mlty (snd sg) = true.
Proof.
  intros Hs Ht Hm.
  assert (Hty : nth_error (map seg_ty segs) i = Some (seg_ty sg)) by (rewrite nth_error_map, Hs; reflexivity).
  destruct (parse_file_retype_nth (map seg_ty segs) (map seg_wsnl segs) (all_passes (map seg_ty segs)) i _ Hty) as (t' & Ht' & Hr).
  assert (H0 : nth_error (fm_toks0 segs) i = Some (token_of_seg sg t')).
  { unfold fm_toks0, tokens_of, fm_parse, parse_file_model. rewrite nth_error_map, (combine_nth_error _ _ _ _ _ Hs Ht'). reflexivity. }
  unfold fm_toks, Format.retype in Ht. rewrite nth_error_map in Ht.
  destruct (nth_error (combine (fm_toks0 segs) (generics_consolidate (map t_ty (fm_toks0 segs)))) i) as [[tk ty]|] eqn:Ec; [|discriminate].
  cbn in Ht. injection Ht as <-. cbn [t_ty set_ty] in Hm.
  assert (Ea : nth_error (fm_toks0 segs) i = Some tk /\ nth_error (generics_consolidate (map t_ty (fm_toks0 segs))) i = Some ty).
  { clear -Ec. revert Ec. generalize (fm_toks0 segs) (generics_consolidate (map t_ty (fm_toks0 segs))). intros a b. revert a b.
    induction i as [|i IH]; intros [|x a] [|y b] E; cbn in *; try discriminate; [injection E as <- <-; split; reflexivity|exact (IH a b E)]. }
  destruct Ea as [Ea Eb]. rewrite H0 in Ea. injection Ea as <-.
  assert (Hsrc : nth_error (map t_ty (fm_toks0 segs)) i = Some (tt_of_raw t')) by (rewrite nth_error_map, H0; reflexivity).
  (* generics: unchanged unless a chevron *)
  assert (Eq : ty = tt_of_raw t').
  { destruct (TokenType_eqb (tt_of_raw t') ty) eqn:E; [apply TokenType_eqb_eq in E; congruence|].
    assert (Hne : tt_of_raw t' <> ty) by (intros Heq; rewrite Heq, TokenType_eqb_refl in E; discriminate).
    destruct (generics_only_chevrons _ i _ ty Hsrc Eb Hne) as [(k & _ & ->)|(k & _ & ->)]; discriminate Hm. }
  subst ty. unfold Format.seg_ty in *.
  destruct t'; cbn in Hm; try discriminate Hm.
  pose proof (retype_ok_class _ _ Hr) as Hcl. pose proof (retype_ok_fixed _ _ Hr) as Hfix.
  destruct (snd sg); cbn in Hcl; try discriminate Hcl. cbn in Hfix. injection Hfix as Hk. subst.
  match goal with |- is_mlty (RTT_TextLiteral ?k) = true => destruct k; try discriminate Hm; reflexivity end.
Qed.

Theorem fm_l4_ready alnum s segs :
  valid_utf8 s = true -> lex_segments s = Some segs ->
  forall j p, nth_error (fm_l4 alnum segs) j = Some p -> ml_ready p.
Proof.
  intros Hv Hl j p Hp Hm Hi.
  (* trace the token back to fm_l0 *)
  assert (Hrel : pointwise same_tok (fm_l3 alnum segs) (fm_l4 alnum segs)).
  { unfold fm_l4. generalize (fm_lines segs) (fm_l3 alnum segs). clear. intros lines. unfold eof_newline_lines.
    induction lines as [|ln r IH]; intros l; cbn [fold_left]; [apply pointwise_refl, same_tok_refl|].
    eapply pointwise_trans; [exact same_tok_trans| |apply IH].
    unfold bid. destruct (ll_type ln); try (apply pointwise_refl, same_tok_refl).
    destruct (FormatRescanProofs.eof_newline_once_fst l) as [L H]. split; [exact L|]. intros j p Hp. destruct (H j p Hp) as (q & Hq & A & B).
    exists q. split; [exact Hq|split; assumption]. }
  assert (Hj : j < length (fm_l3 alnum segs)) by (rewrite <- (proj1 Hrel); apply nth_error_Some; congruence).
  destruct (nth_error (fm_l3 alnum segs) j) as [p3|] eqn:E3; [|apply nth_error_None in E3; lia].
  destruct (proj2 Hrel j p3 E3) as (p' & Hp' & S34). rewrite Hp in Hp'. injection Hp' as <-. destruct S34 as [F34 I34].
  unfold fm_l3, fm_l2, fm_l1, comment_formatter, lowercase_keywords in E3. rewrite !nth_error_map in E3.
  destruct (nth_error (token_spacing (fm_l0 segs)) j) as [p1|] eqn:E1; [|discriminate]. cbn in E3. injection E3 as <-.
  assert (Hj0 : j < length (fm_l0 segs)) by (rewrite <- (proj1 (FormatRescanProofs.spacing_fst (fm_l0 segs))); apply nth_error_Some; congruence).
  destruct (nth_error (fm_l0 segs) j) as [p0|] eqn:E0; [|apply nth_error_None in E0; lia].
  destruct (proj2 (FormatRescanProofs.spacing_fst (fm_l0 segs)) j p0 E0) as (p1' & Hp1 & F1 & I1). rewrite E1 in Hp1. injection Hp1 as <-.
  destruct p1 as [tok1 f1]. cbn [fst snd] in *.
  (* the type through lower / comment *)
  assert (Hty : t_ty (fst p) = t_ty tok1).
  { rewrite F34. destruct (comment_tok_stage alnum (lowercase_tok (tok1, f1))) as (A & _). destruct (lowercase_tok_stage (tok1, f1)) as (B & _).
    rewrite A, B. reflexivity. }
  rewrite Hty in Hm. rewrite F34, (ml_tok_untouched alnum tok1 f1 Hm). rewrite F1.
  (* p0 = (tok, fmt) of fm_l0: the lexer's text *)
  unfold fm_l0 in E0. rewrite nth_error_map in E0.
  destruct (nth_error (combine (fm_toks segs) (fm_marks segs)) j) as [[tok m]|] eqn:Ec; [|discriminate]. cbn in E0. injection E0 as <-.
  cbn [fst] in *. subst tok1.
  assert (Ea : nth_error (fm_toks segs) j = Some tok).
  { clear -Ec. revert Ec. generalize (fm_toks segs) (fm_marks segs). intros a b. revert a b.
    induction j as [|j IH]; intros [|x a] [|y b] E; cbn in *; try discriminate; [injection E as <- _; reflexivity|exact (IH a b E)]. }
  assert (Hjs : j < length segs) by (rewrite <- fm_toks_length; apply nth_error_Some; congruence).
  destruct (nth_error segs j) as [sg|] eqn:Es; [|apply nth_error_None in Es; lia].
  destruct (fm_toks_nth segs j sg Es) as (tok' & Ht' & _ & Hc). rewrite Ea in Ht'. injection Ht' as <-.
  pose proof (fm_toks_ml_type segs j sg tok Es Ea Hm) as Hml.
  pose proof (lex_ml_token_shape s segs Hl) as Hshape. rewrite Forall_forall in Hshape.
  destruct (Hshape sg (nth_error_In _ _ Es) Hml) as [Hq1 Hq2].
  rewrite Hc. unfold Format.seg_content. split; [|split; assumption].
  apply valid_lines_complete.
  unfold lex_segments in Hl. destruct (lex s) as [toks|] eqn:E; [|discriminate]. injection Hl as <-.
  destruct sg as [[ws c] ty]. exact (proj2 (lex_segments_valid_utf8 s toks ws c ty E Hv (nth_error_In _ _ Es))).
Qed.

(* ------------------------------------------------------------------ *)
(* C01, end to end, every valid UTF-8 input *)
Theorem fm_chain_full alnum cfg s segs :
  valid_utf8 s = true -> lex_segments s = Some segs ->
  chain [FCounters; FLower; FComment; FCounters; FWrap] (fm_l0 segs) (fm_final alnum cfg segs).
Proof.
  intros Hv Hl.
  (* the first four steps as in FormatContentProofs.fm_chain, which does not look at the last *)
  assert (H4 : chain [FCounters; FLower; FComment; FCounters] (fm_l0 segs) (fm_l4 alnum segs)).
  { apply (chain_cons FCounters _ (fm_l0 segs) (fm_l1 segs)).
    { cbn [step]. unfold fm_l1. pose proof (spacing_only_sp (fm_l0 segs)) as H.
      assert (G : forall a b, Forall2 same_but_sp a b -> Forall2 counters_only b a).
      { induction 1 as [|q p a b (Hf & n & Hs) _ IH]; constructor; [|exact IH]. split; [exact Hf|]. rewrite Hs. destruct (snd p); reflexivity. }
      apply G, H. }
    apply (chain_cons FLower _ (fm_l1 segs) (fm_l2 segs)); [reflexivity|].
    apply (chain_cons FComment _ (fm_l2 segs) (fm_l3 alnum segs)); [exists alnum; reflexivity|].
    apply (chain_cons FCounters _ (fm_l3 alnum segs) (fm_l4 alnum segs)); [|apply chain_nil].
    cbn [step]. apply pointwise_Forall2. unfold fm_l4. generalize (fm_lines segs) (fm_l3 alnum segs). clear. intros lines. unfold eof_newline_lines.
    assert (K : forall l, pointwise same_tok l (fold_left (fun l0 ln => if ll_type ln IS LLT_Eof then eof_newline_once l0 else l0) lines l)).
    { induction lines as [|ln r IH]; intros l; cbn [fold_left]; [apply pointwise_refl, same_tok_refl|].
      eapply pointwise_trans; [exact same_tok_trans| |apply IH].
      unfold bid. destruct (ll_type ln); try (apply pointwise_refl, same_tok_refl).
      destruct (FormatRescanProofs.eof_newline_once_fst l) as [L H]. split; [exact L|]. intros j p Hp. destruct (H j p Hp) as (q & Hq & A & B).
      exists q. split; [exact Hq|split; assumption]. }
    intros l. destruct (K l) as [L H]. split; [exact L|]. intros j p Hp. destruct (H j p Hp) as (q & Hq & S). exists q. split; [exact Hq|apply same_tok_counters, S]. }
  (* append the wrapper *)
  assert (Happ : forall ks a b c, chain ks a b -> step FWrap b c -> chain (ks ++ [FWrap]) a c).
  { induction 1 as [x|k ks0 x y z Hs Hc IH]; intros Hw; cbn [app]; [eapply chain_cons; [exact Hw|apply chain_nil]|].
    eapply chain_cons; [exact Hs|apply IH, Hw]. }
  apply (Happ [FCounters; FLower; FComment; FCounters] _ _ _ H4). cbn [step]. apply pointwise_Forall2.
  unfold fm_final, fm_wrap. apply olf_model_wrap_tok; [apply rs_of_config_ok|exact (fm_l4_ready alnum s segs Hv Hl)].
Qed.

Theorem format_preserves_nonblank alnum cfg s out :
  valid_utf8 s = true ->
  format_model alnum cfg s = inl out ->
  fold_case (strip out) = fold_case (strip s).
Proof.
  intros Hv H. apply format_model_spec in H. destruct H as (segs & Hl & _ & _ & _ & ->).
  pose proof (fm_chain_full alnum cfg s segs Hv Hl) as Hc.
  unfold lex_segments in Hl. destruct (lex s) as [toks|] eqn:E; [|discriminate]. injection Hl as <-.
  unfold fm_out. eapply format_preserves_nonblank; [exact Hv|exact E|apply fm_l0_carries|exact Hc|apply rs_of_config_wf].
Qed.

(* non-vacuity: a multi-line literal that IS re-indented (string stage on); the non-blank bytes are the same *)
Example format_preserves_nonblank_ml_example :
  let s := [120; 58;61; 39;39;39;10; 32;32;32;32;32;32;97;10; 39;39;39; 59]%N in      (* x:='''\n      a\n'''; *)
  let cfg := mkCfg 120 false true false 2 2 false in
  valid_utf8 s = true
  /\ format_model (fun _ => false) cfg s
     = inl [120; 32; 58;61; 10; 32;32;32;32; 39;39;39;10; 32;32;32;32; 32;32;32;32;32;32;97;10; 32;32;32;32; 39;39;39; 59; 10]%N.
Proof. vm_compute. split; reflexivity. Qed.

Print Assumptions format_preserves_nonblank.
