(* Proofs/WrapFitsProofs.v — the penalty of a solution accounts for every overflow:
     pen_sound:  penalty >= sum over the decisions of [2^20 + 3 * (length - max)  if the token CONTINUES a line and its
                 measured last_line_length exceeds max_line_length] + the penalties of the child solutions of every
                 token but the first, recursively (solve_pen_sound);
     hence       penalty < 2^20  ->  no continuing token, at any child depth below a non-first token, is measured
                 beyond max_line_length (pen_sound_fits).  No bound on the number of breaks is needed: break
                 penalties only add.
   Two exceptions are refuted by witnesses: a token that STARTS a line pays no overflow penalty however long it is
   (break_overflow_is_free), and the child solutions of a line's FIRST token are not counted in the penalty
   (first_token_children_not_counted). *)
From PasfmtVerif Require Import Model.WrapSearch Model.WrapFormat Proofs.WrapSearchProofs.
From Coq Require Import Lia.

Definition over (W : wsettings) (t : tdec) : N :=
  match td_dec t with
  | WContinue => if w_max W <? td_lll t then 1048576 + (td_lll t - w_max W) * 3 else 0
  | WBreak _ => 0
  end.

Fixpoint kids_pen (kids : list (nat * solution)) : N :=
  match kids with [] => 0 | ks :: r => sol_pen (snd ks) + kids_pen r end.

Fixpoint dsum (W : wsettings) (l : list tdec) : N :=
  match l with [] => 0 | t :: r => over W t + kids_pen (td_kids t) + dsum W r end.

(* decs in token order *)
Definition pen_bound (W : wsettings) (decs : list tdec) (pen : N) : Prop :=
  match decs with [] => True | d0 :: rest => over W d0 + dsum W rest <= pen end.

Inductive pen_sound (W : wsettings) : solution -> Prop :=
  | PS i c decs pen len :
      pen_bound W decs pen ->
      (forall t k s', In t (tl decs) -> In (k, s') (td_kids t) -> pen_sound W s') ->
      pen_sound W (Sol i c decs pen len).

(* the conclusion *)
Inductive fits_deep (W : wsettings) : solution -> Prop :=
  | FD s :
      (forall t, In t (sol_decs s) -> td_dec t = WContinue -> td_lll t <= w_max W) ->
      (forall t k s', In t (tl (sol_decs s)) -> In (k, s') (td_kids t) -> fits_deep W s') ->
      fits_deep W s.

Lemma fold_kids_pen kids : forall x, fold_left (fun a (ks : nat * solution) => a + sol_pen (snd ks)) kids x = x + kids_pen kids.
Proof. induction kids as [|ks r IH]; intros x; cbn [fold_left kids_pen]; [lia|]. rewrite IH. lia. Qed.

Lemma dsum_app W a b : dsum W (a ++ b) = dsum W a + dsum W b.
Proof. induction a as [|t r IH]; cbn [app dsum]; [lia|]. rewrite IH. lia. Qed.

Lemma dsum_rev W l : dsum W (rev l) = dsum W l.
Proof. induction l as [|t r IH]; [reflexivity|]. cbn [rev]. rewrite dsum_app, IH. cbn [dsum]. lia. Qed.

Lemma dsum_in W t l : In t l -> over W t + kids_pen (td_kids t) <= dsum W l.
Proof. induction l as [|x r IH]; intros []; cbn [dsum]; [subst; lia|]. specialize (IH H). lia. Qed.

Lemma kids_pen_in k s kids : In (k, s) kids -> sol_pen s <= kids_pen kids.
Proof. induction kids as [|x r IH]; intros []; cbn [kids_pen]; [subst; cbn; lia|]. specialize (IH H). lia. Qed.

Lemma over_small W t : over W t < 1048576 -> td_dec t = WContinue -> td_lll t <= w_max W.
Proof.
  unfold over. intros H E. rewrite E in H. destruct (w_max W <? td_lll t) eqn:L; [lia|]. apply N.ltb_ge in L. exact L.
Qed.

(* a solution cheaper than one overflow has no continuing token beyond max_line_length *)
Theorem pen_sound_fits W s : pen_sound W s -> sol_pen s < 1048576 -> fits_deep W s.
Proof.
  induction 1 as [i c decs pen len Hb Hk IH]. cbn [sol_pen]. intros Hp. constructor; cbn [sol_decs].
  - intros t Ht Hc. apply over_small; [|exact Hc]. destruct decs as [|d0 rest]; [destruct Ht|]. cbn [pen_bound] in Hb.
    destruct Ht as [<-|Ht]; [lia|]. pose proof (dsum_in W t rest Ht). lia.
  - intros t k s' Ht Hs. apply (IH t k s' Ht Hs). destruct decs as [|d0 rest]; [destruct Ht|]. cbn [tl pen_bound] in *.
    pose proof (dsum_in W t rest Ht). pose proof (kids_pen_in k s' _ Hs). lia.
Qed.

(* conversely: a continuing token measured beyond the limit costs at least 2^20 *)
Theorem overflow_costs W s t : pen_sound W s -> In t (sol_decs s) -> td_dec t = WContinue -> w_max W < td_lll t -> 1048576 <= sol_pen s.
Proof.
  intros H Ht Hc Hl. destruct (N.lt_ge_cases (sol_pen s) 1048576) as [Hlt|Hge]; [|exact Hge].
  destruct (pen_sound_fits W s H Hlt) as [s0 Hf _]. specialize (Hf t Ht Hc). lia.
Qed.

Section Fits.
Variable W : wsettings.
Variable lvs : list lview.
Variable fmain : nat.

Definition kids_ps (kids : list (nat * solution)) : Prop := forall k s', In (k, s') kids -> pen_sound W s'.
Definition cache_ps (st : sst) : Prop := forall key v, In (key, v) (ss_cache st) -> kids_ps v.
(* n_decs newest first: l ++ [d0] *)
Definition node_ps (nd : node) : Prop :=
  exists l d0, n_decs nd = l ++ [d0] /\ over W d0 + dsum W l <= n_pen nd /\ (forall t, In t l -> kids_ps (td_kids t)).
Definition onode_ps (i : option node) : Prop := match i with Some ind => node_ps ind | None => True end.

Lemma kids_ps_nil : kids_ps [].
Proof. intros k s' []. Qed.

Lemma cache_find_ps key : forall c v, (forall k' v', In (k', v') c -> kids_ps v') -> cache_find key c = Some v -> kids_ps v.
Proof.
  induction c as [|[k' v'] r IH]; intros v Hc E; cbn [cache_find] in E; [discriminate|].
  destruct (ckey_eqb key k').
  - injection E as <-. apply (Hc k'). left; reflexivity.
  - apply IH; [|exact E]. intros k2 v2 H. apply (Hc k2). right; exact H.
Qed.

Variable child_solve : sst -> lview -> N * N -> first_decision -> sst * option solution.
Hypothesis Hchild : forall st lv' ws fd, cache_ps st ->
  cache_ps (fst (child_solve st lv' ws fd)) /\ (forall s, snd (child_solve st lv' ws fd) = Some s -> pen_sound W s).

Lemma solve_children_ps opt base deind : forall kids st first lll acc,
  cache_ps st -> kids_ps acc ->
  cache_ps (fst (solve_children lvs child_solve st opt base deind kids first lll acc))
  /\ (forall l, snd (solve_children lvs child_solve st opt base deind kids first lll acc) = Some l -> kids_ps l).
Proof.
  induction kids as [|k rest IH]; intros st first lll acc Hst Hacc; cbn [solve_children].
  - cbn [fst snd]. split; [exact Hst|]. intros l E. injection E as <-. intros k s' H. apply in_rev in H. exact (Hacc k s' H).
  - destruct (nth_error lvs k) as [lv'|] eqn:Ek; [|cbn; split; [exact Hst|discriminate]].
    match goal with |- context [child_solve st lv' ?ws ?fd] => destruct (Hchild st lv' ws fd Hst) as (Hc1 & Hc2); destruct (child_solve st lv' ws fd) as [st1 r] end.
    cbn [fst snd] in *. destruct r as [s|]; [|cbn; split; [exact Hc1|discriminate]].
    apply IH; [exact Hc1|]. intros k2 s2 [H|H]; [|exact (Hacc k2 s2 H)]. injection H as <- <-. apply Hc2; reflexivity.
Qed.

Lemma child_lines_solutions_ps st line_idx r gtoks tok_li ws decs d nli tll pc :
  cache_ps st ->
  cache_ps (fst (child_lines_solutions W lvs child_solve st line_idx r gtoks tok_li ws decs d nli tll pc))
  /\ Forall kids_ps (snd (child_lines_solutions W lvs child_solve st line_idx r gtoks tok_li ws decs d nli tll pc)).
Proof.
  intros Hst. unfold child_lines_solutions.
  destruct (tr_kids r) as [lc|]; [|cbn; split; [exact Hst|constructor; [exact kids_ps_nil|constructor]]].
  destruct (match lch_lines lc with k :: _ => nth_error lvs k | [] => None end) as [first_child|];
    [|cbn; split; [exact Hst|constructor; [exact kids_ps_nil|constructor]]].
  match goal with |- context [fold_left ?F ?opts (st, [])] =>
    assert (Hfold : forall options acc, cache_ps (fst acc) -> Forall kids_ps (snd acc) ->
                      cache_ps (fst (fold_left F options acc)) /\ Forall kids_ps (snd (fold_left F options acc)));
    [|apply Hfold; [exact Hst|constructor]] end.
  induction options as [|opt options IH]; intros [st0 sols] H1 H2; cbn [fold_left]; [split; assumption|].
  cbn [fst snd] in H1, H2. apply IH.
  - destruct (cache_find _ (ss_cache st0)) as [s|]; [exact H1|].
    destruct opt as [|ii cc xx|ii cc xx];
      match goal with |- context [solve_children lvs child_solve st0 ?o ?b ?dd ?ks ?f ?l ?a] =>
        destruct (solve_children_ps o b dd ks st0 f l a H1 kids_ps_nil) as (Hs1 & Hs2);
        destruct (solve_children lvs child_solve st0 o b dd ks f l a) as [st1 res] end;
      cbn [fst snd] in *; destruct res as [s|]; cbn [fst]; try exact Hs1;
      intros key v [H|H]; [injection H as _ <-; apply Hs2; reflexivity|exact (Hs1 key v H)|injection H as _ <-; apply Hs2; reflexivity|exact (Hs1 key v H)|injection H as _ <-; apply Hs2; reflexivity|exact (Hs1 key v H)].
  - destruct (cache_find _ (ss_cache st0)) as [s|] eqn:Ec.
    + cbn [snd]. apply Forall_app; split; [exact H2|]. constructor; [|constructor]. eapply cache_find_ps; [exact H1|exact Ec].
    + destruct opt as [|ii cc xx|ii cc xx];
        match goal with |- context [solve_children lvs child_solve st0 ?o ?b ?dd ?ks ?f ?l ?a] =>
          destruct (solve_children_ps o b dd ks st0 f l a H1 kids_ps_nil) as (Hs1 & Hs2);
          destruct (solve_children lvs child_solve st0 o b dd ks f l a) as [st1 res] end;
        cbn [fst snd] in *; destruct res as [s|]; cbn [snd]; try exact H2;
        apply Forall_app; split; try exact H2; constructor; [apply Hs2; reflexivity|constructor|apply Hs2; reflexivity|constructor|apply Hs2; reflexivity|constructor].
Qed.

Variable lv : lview.
Notation potential' := (potential W lvs child_solve lv).
Notation both' := (both W lvs child_solve lv).
Notation walk_step' := (walk_step W lvs child_solve lv).
Notation walk' := (walk W lvs child_solve lv).

Lemma decision_penalty_over r li (b : bool) tll kids cc :
  over W (TDec (if b then WBreak cc else WContinue) tll kids) <= decision_penalty W (lv_type lv) r li b tll.
Proof. unfold over, decision_penalty. cbn [td_dec td_lll]. destruct b; [lia|]. destruct (w_max W <? tll); lia. Qed.

Lemma potential_ps st nd b : cache_ps st -> node_ps nd ->
  cache_ps (fst (potential' st nd b)) /\ Forall node_ps (snd (potential' st nd b)).
Proof.
  intros Hst (l & d0 & Hd & Hp & Hk). unfold potential. destruct (n_rest nd) as [|r rest]; [cbn; split; [exact Hst|constructor]|].
  match goal with |- context [child_lines_solutions W lvs child_solve st ?a ?b ?c ?d ?e ?f ?g ?h ?i ?j] =>
    destruct (child_lines_solutions_ps st a b c d e f g h i j Hst) as (H1 & H2);
    destruct (child_lines_solutions W lvs child_solve st a b c d e f g h i j) as [st' sols] end.
  cbn [fst snd] in *. split; [exact H1|].
  apply Forall_forall. intros n Hn. apply in_map_iff in Hn. destruct Hn as (kids & <- & Hin).
  rewrite Forall_forall in H2. specialize (H2 kids Hin).
  eexists (_ :: l), d0. cbn [n_decs n_pen]. split; [rewrite Hd; reflexivity|]. split.
  - rewrite fold_kids_pen. cbn [dsum td_kids]. rewrite <- Hd.
    match goal with |- context [decision_penalty W ?lt r ?li b ?tll] =>
      pose proof (decision_penalty_over r li b tll kids (get_continuation_count (tr_stk r) (update_contexts lt (tr_win r) (tr_ty r) (tr_stk r) li b (n_data nd)) li)) as Hdp end.
    lia.
  - intros t [<-|Ht]; [cbn [td_kids]; exact H2|exact (Hk t Ht)].
Qed.

Lemma both_ps st ind : cache_ps st -> node_ps ind ->
  cache_ps (fst (both' st ind)) /\ Forall node_ps (snd (both' st ind)).
Proof.
  intros Hst Hind. unfold both.
  destruct (potential_ps st ind true Hst Hind) as (A1 & A2). destruct (potential' st ind true) as [st1 a]. cbn [fst snd] in *.
  destruct (potential_ps st1 ind false A1 Hind) as (B1 & B2). destruct (potential' st1 ind false) as [st2 b]. cbn [fst snd] in *.
  split; [exact B1|apply Forall_app; split; assumption].
Qed.

Definition res_ps (r : walk_res) : Prop :=
  match r with W_push n => node_ps n | W_extend l => Forall node_ps l | W_dead | W_fuel => True end.
Definition step_ps (s : wstep) : Prop :=
  match s with
  | WS_stop r => res_ps r
  | WS_forward n i => node_ps n /\ onode_ps i
  | WS_restart n => node_ps n
  end.

Lemma finish_ps succ : Forall node_ps succ -> step_ps (finish succ).
Proof. intros H. unfold finish. destruct succ as [|n [|m l]]; cbn; try exact H. inversion H; assumption. Qed.

Lemma kept_ps li sols : Forall node_ps sols -> forall best acc, Forall node_ps acc ->
  Forall node_ps (snd (fold_left (fun (acc : list N * list node) (n : node) =>
                                    if n_pen n <? best_at (fst acc) li then (upd_at li (fun _ => n_pen n) (fst acc), snd acc ++ [n]) else acc)
                                 sols (best, acc))).
Proof.
  induction 1 as [|n l Hn Hl IH]; intros best acc Hacc; cbn [fold_left]; [exact Hacc|].
  cbn [fst snd]. destruct (n_pen n <? best_at best li).
  - apply IH. apply Forall_app; split; [exact Hacc|constructor; [exact Hn|constructor]].
  - apply IH. exact Hacc.
Qed.

Lemma walk_step_ps nd indiff best st :
  cache_ps st -> node_ps nd -> onode_ps indiff ->
  cache_ps (snd (walk_step' nd indiff best st)) /\ step_ps (fst (fst (walk_step' nd indiff best st))).
Proof.
  intros Hst Hnd Hind. unfold walk_step.
  destruct (if w_max W <? last_line_length_of nd then indiff else None) as [ind|] eqn:Eover.
  { assert (Hi : node_ps ind) by (destruct (w_max W <? last_line_length_of nd); [subst indiff; exact Hind|discriminate]).
    destruct (both_ps st ind Hst Hi) as (B1 & B2). destruct (both' st ind) as [st' succ]. cbn [fst snd] in *.
    split; [exact B1|apply finish_ps; exact B2]. }
  destruct (n_rest nd) as [|r rest] eqn:Hrest; [cbn; split; [exact Hst|exact Hnd]|].
  assert (Hafter : forall succ indiff' st', cache_ps st' -> Forall node_ps succ -> onode_ps indiff' ->
            let res := match succ with
                       | [n] => (WS_forward n indiff', best, st')
                       | _ => match indiff' with
                              | Some ind => let (st'', more) := both' st' ind in (finish (succ ++ more), best, st'')
                              | None => (finish succ, best, st')
                              end
                       end in
            cache_ps (snd res) /\ step_ps (fst (fst res))).
  { intros succ indiff' st' Hc Hs Hi.
    assert (Hgen : let res := match indiff' with
                              | Some ind => let (st'', more) := both' st' ind in (finish (succ ++ more), best, st'')
                              | None => (finish succ, best, st')
                              end in cache_ps (snd res) /\ step_ps (fst (fst res))).
    { destruct indiff' as [ind|]; [|cbn; split; [exact Hc|apply finish_ps; exact Hs]].
      destruct (both_ps st' ind Hc Hi) as (B1 & B2). destruct (both' st' ind) as [st'' more]. cbn [fst snd] in *.
      split; [exact B1|apply finish_ps; apply Forall_app; split; assumption]. }
    destruct succ as [|n [|m l]]; try exact Hgen. cbn. split; [exact Hc|split; [inversion Hs; assumption|exact Hi]]. }
  destruct (get_formatting_requirement (lv_type lv) (tr_win r) (tr_ty r) (tr_inv r) (tr_stk r) (n_data nd) (n_nli nd)).
  - destruct (potential_ps st nd false Hst Hnd) as (P1 & P2). destruct (potential' st nd false) as [st' succ]. cbn [fst snd] in *.
    apply Hafter; [exact P1|exact P2|]. destruct indiff as [ind|]; [exact Hind|exact Hnd].
  - destruct indiff as [ind|]; [|cbn; split; [exact Hst|exact I]].
    destruct (both_ps st ind Hst Hind) as (B1 & B2). destruct (both' st ind) as [st' succ]. cbn [fst snd] in *.
    split; [exact B1|apply finish_ps; exact B2].
  - destruct (potential_ps st nd true Hst Hnd) as (P1 & P2). destruct (potential' st nd true) as [st' sols]. cbn [fst snd] in *.
    pose proof (kept_ps (N.to_nat (n_nli nd)) sols P2 best [] (Forall_nil _)) as Hk.
    destruct (fold_left _ sols (best, [])) as [best' kept]. cbn [fst snd] in *.
    split; [exact P1|apply finish_ps; exact Hk].
  - destruct (potential_ps st nd false Hst Hnd) as (P1 & P2). destruct (potential' st nd false) as [st' succ]. cbn [fst snd] in *.
    apply Hafter; [exact P1|exact P2|exact Hind].
Qed.

Lemma walk_ps : forall f1 f2 nd indiff best st,
  cache_ps st -> node_ps nd -> onode_ps indiff ->
  cache_ps (snd (walk' f1 f2 nd indiff best st)) /\ res_ps (fst (fst (walk' f1 f2 nd indiff best st))).
Proof.
  induction f1 as [|f1 IH1]; induction f2 as [|f2 IH2]; intros nd indiff best st Hst Hnd Hind; try (cbn; split; [exact Hst|exact I]).
  - cbn [walk]. destruct (walk_step_ps nd indiff best st Hst Hnd Hind) as (S1 & S2).
    destruct (walk_step' nd indiff best st) as [[s best'] st']. cbn [fst snd] in *.
    destruct s as [r|n i|n]; cbn [fst snd]; [split; assumption| |split; [exact S1|exact I]]. destruct S2 as (Hn & Hi). apply IH2; assumption.
  - cbn [walk]. destruct (walk_step_ps nd indiff best st Hst Hnd Hind) as (S1 & S2).
    destruct (walk_step' nd indiff best st) as [[s best'] st']. cbn [fst snd] in *.
    destruct s as [r|n i|n]; cbn [fst snd]; [split; assumption| |].
    + destruct S2 as (Hn & Hi). apply IH2; assumption.
    + apply IH1; [exact S1|exact S2|exact I].
Qed.

Lemma solution_of_node_ps nd : node_ps nd -> pen_sound W (solution_of_node nd).
Proof.
  intros (l & d0 & Hd & Hp & Hk). unfold solution_of_node. rewrite Hd, rev_app_distr. cbn [rev app].
  constructor.
  - cbn [pen_bound]. rewrite dsum_rev. exact Hp.
  - cbn [tl]. intros t k s' Ht Hs. apply in_rev in Ht. exact (Hk t Ht k s' Hs).
Qed.

Lemma main_loop_ps : forall fuel h iter best st,
  cache_ps st -> heap_all node_ps h ->
  cache_ps (fst (main_loop W lvs child_solve lv fuel h iter best st))
  /\ (forall s, snd (main_loop W lvs child_solve lv fuel h iter best st) = SR_ok s -> pen_sound W s).
Proof.
  induction fuel as [|f IH]; intros h iter best st Hst Hh; cbn [main_loop]; [cbn; split; [exact Hst|discriminate]|].
  destruct (heap_pop h) as [[nd h']|] eqn:Epop; [|cbn; split; [exact Hst|discriminate]].
  destruct (heap_pop_all node_ps h nd h' Hh Epop) as (Hnd & Hh').
  destruct (w_iter W <? iter); [cbn; split; [exact Hst|discriminate]|].
  destruct (n_rest nd) as [|r rest] eqn:Hrest.
  - cbn [fst snd]. split; [exact Hst|]. intros s E. injection E as <-. apply solution_of_node_ps; exact Hnd.
  - destruct (best_at best (N.to_nat (N.pred (n_nli nd))) <? n_pen nd); [apply IH; assumption|].
    destruct (walk_ps (S (length (r :: rest))) (S (length (r :: rest))) nd None best st Hst Hnd I) as (W1 & W2).
    destruct (walk' (S (length (r :: rest))) (S (length (r :: rest))) nd None best st) as [[res best'] st''].
    cbn [fst snd] in *. destruct res as [n|l| |].
    + apply IH; [exact W1|apply heap_push_all; assumption].
    + apply IH; [exact W1|apply heap_extend_all; assumption].
    + apply IH; assumption.
    + cbn. split; [exact W1|discriminate].
Qed.

Lemma find_optimal_solution_ps st ws first :
  cache_ps st ->
  cache_ps (fst (find_optimal_solution W lvs fmain child_solve lv st ws first))
  /\ (forall s, snd (find_optimal_solution W lvs fmain child_solve lv st ws first) = SR_ok s -> pen_sound W s).
Proof.
  intros Hst. unfold find_optimal_solution. destruct (lv_recs lv) as [|r rest].
  - cbn. split; [exact Hst|]. intros s E. injection E as <-. constructor; [exact I|intros t k s' []].
  - destruct (match first with FD_Break => _ | FD_Continue line_length can_break => _ end) as [[is_break lll] bcb].
    destruct (_ && negb is_break); [cbn; split; [exact Hst|discriminate]|].
    match goal with |- context [child_lines_solutions W lvs child_solve st ?a ?b ?c ?d ?e ?f ?g ?h ?i ?j] =>
      destruct (child_lines_solutions_ps st a b c d e f g h i j Hst) as (H1 & H2);
      destruct (child_lines_solutions W lvs child_solve st a b c d e f g h i j) as [st1 sols] end.
    cbn [fst snd] in *. apply main_loop_ps; [exact H1|].
    apply heap_extend_all; [exact I|].
    apply Forall_forall. intros n Hn. apply in_map_iff in Hn. destruct Hn as (k & <- & _).
    eexists [], _. cbn [n_decs n_pen app dsum]. split; [reflexivity|]. split; [|intros t []].
    pose proof (decision_penalty_over r 0 is_break lll (match last_opt' sols with Some k0 => k0 | None => [] end) 0) as Hdp. lia.
Qed.
End Fits.

(* every solution `solve` returns, and everything it caches, accounts for its overflows *)
Theorem solve_pen_sound W lvs fmain : forall depth st lv ws first,
  cache_ps W st ->
  cache_ps W (fst (solve W lvs fmain depth st lv ws first))
  /\ (forall s, snd (solve W lvs fmain depth st lv ws first) = Some s -> pen_sound W s).
Proof.
  induction depth as [|k IH]; intros st lv ws first Hst; cbn [solve]; [cbn; split; [exact Hst|discriminate]|].
  destruct (find_optimal_solution_ps W lvs fmain (solve W lvs fmain k) (fun st0 lv' ws0 fd H => IH st0 lv' ws0 fd H) lv st ws first Hst) as (F1 & F2).
  destruct (find_optimal_solution W lvs fmain (solve W lvs fmain k) lv st ws first) as [st1 res]. cbn [fst snd] in *.
  split; [exact F1|]. intros s E. destruct res as [s1| | |]; try discriminate. injection E as <-. apply F2; reflexivity.
Qed.

Lemma cache_ps_init W : cache_ps W sst_init.
Proof. intros key v []. Qed.

(* the property-level statement: a solution cheaper than one overflow fits *)
Corollary solve_fits W lvs fmain depth lv ws first st' s :
  solve W lvs fmain depth sst_init lv ws first = (st', Some s) -> sol_pen s < 1048576 -> fits_deep W s.
Proof.
  intros E Hp. apply pen_sound_fits; [|exact Hp].
  destruct (solve_pen_sound W lvs fmain depth sst_init lv ws first (cache_ps_init W)) as (_ & H). apply H. rewrite E. reflexivity.
Qed.

(* ------------------------------------------------------------------ *)
(* the two exceptions, by witnesses *)
Definition cont_over (W : wsettings) (s : solution) : bool :=
  existsb (fun t => match td_dec t with WContinue => w_max W <? td_lll t | WBreak _ => false end) (sol_decs s).

(* (a) a token that starts a line pays no overflow penalty: `X; LongIdentifier...(50);` at width 10 *)
Definition exa_infos : list tokinfo :=
  [mkTI TT_Identifier 0 1 None; mkTI (TT_Op OK_Semicolon) 0 1 None; mkTI TT_Identifier 1 50 None; mkTI (TT_Op OK_Semicolon) 0 1 None; mkTI TT_Eof 0 0 None].
Definition exa_lines : list lline :=
  [mkLine LLT_Unknown 0 None [0; 1]%nat; mkLine LLT_Unknown 0 None [2; 3]%nat; mkLine LLT_Eof 0 None [4]%nat].
Definition exa_W : wsettings := mkWS 10 200 false 2 4.

Example break_overflow_is_free :
  match nth_error (mk_lviews exa_infos exa_lines) 1 with
  | Some lv => match solve exa_W (mk_lviews exa_infos exa_lines) (main_fuel exa_W) 4 sst_init lv (0, 0) FD_Break with
               | (_, Some s) => sol_pen s = 1048702 /\ map td_lll (sol_decs s) = [50; 51] /\ map td_dec (sol_decs s) = [WBreak 0; WContinue]
               | _ => False
               end
  | None => False
  end.
Proof. vm_compute. repeat split; reflexivity. Qed.

(* with the `;` removed the whole penalty is the break's 3 although the line is 50 wide at width 10 *)
Example break_overflow_is_free' :
  let infos := [mkTI TT_Identifier 0 1 None; mkTI TT_Identifier 1 50 None; mkTI TT_Eof 0 0 None] in
  let lines := [mkLine LLT_Unknown 0 None [0]%nat; mkLine LLT_Unknown 0 None [1]%nat; mkLine LLT_Eof 0 None [2]%nat] in
  match nth_error (mk_lviews infos lines) 1 with
  | Some lv => match solve exa_W (mk_lviews infos lines) (main_fuel exa_W) 4 sst_init lv (0, 0) FD_Break with
               | (_, Some s) => sol_pen s = 3 /\ map td_lll (sol_decs s) = [50] /\ cont_over exa_W s = false
               | _ => False
               end
  | None => False
  end.
Proof. vm_compute. repeat split; reflexivity. Qed.

(* (b) the child solutions of a line's first token are not counted: `case A of : B...(40); end;` at width 20
   (an ill-formed case arm whose line is the lone `:`; its child line `B...;` overflows at its `;`) *)
Definition exb_infos : list tokinfo :=
  [mkTI (TT_Keyword KK_Case) 0 4 None; mkTI TT_Identifier 1 1 None; mkTI (TT_Keyword KK_Of) 1 2 None; mkTI (TT_Op OK_Colon) 1 1 None;
   mkTI TT_Identifier 1 40 None; mkTI (TT_Op OK_Semicolon) 0 1 None; mkTI (TT_Keyword KK_End) 1 3 None; mkTI (TT_Op OK_Semicolon) 0 1 None;
   mkTI TT_Eof 0 0 None].
Definition exb_lines : list lline :=
  [mkLine LLT_CaseHeader 0 None [0; 1; 2]%nat; mkLine LLT_CaseArm 1 None [3]%nat; mkLine LLT_Unknown 0 None [6; 7]%nat;
   mkLine LLT_Unknown 1 (Some (1, 3)%nat) [4; 5]%nat; mkLine LLT_Eof 0 None [8]%nat].
Definition exb_W : wsettings := mkWS 20 200 false 2 4.

Example first_token_children_not_counted :
  match nth_error (mk_lviews exb_infos exb_lines) 1 with
  | Some lv => match solve exb_W (mk_lviews exb_infos exb_lines) (main_fuel exb_W) 6 sst_init lv (1, 0) FD_Break with
               | (_, Some s) => sol_pen s = 3 /\
                                match sol_decs s with
                                | [t] => match td_kids t with
                                         | [(_, s')] => cont_over exb_W s' = true /\ 1048576 <= sol_pen s'
                                         | _ => False
                                         end
                                | _ => False
                                end
               | _ => False
               end
  | None => False
  end.
Proof. vm_compute. repeat split; try reflexivity. discriminate. Qed.

Print Assumptions solve_fits.
Print Assumptions overflow_costs.
