(* Proofs/FormatFragmentProofs.v — the end-of-file theorem without a hypothesis about the parse, on the fragment of Model/Fragment.v.

   fragment_eof_lines_ok: if the lexer's tokens of an input have the raw kinds `render_prog ss` of a well-formed (`wf ss`) fragment
   program (whatever their texts and blanks; the parser re-types some of them: the tokens handed on are `map fin (render_prog ss)`), the
   lines the wrapper gets are exactly `expected_prog ss` (no directive: the ConditionalDirectiveConsolidator is the identity; no
   `package` keyword: DeindentPackageDirectives is the identity; no comment, no asm line: nothing is ignored,
   nothing is voided), and they satisfy FormatEofProofs.eof_lines_ok.
   The argument is made once for any token list of the fragment's kinds whose parse is known (Section Frag) and instantiated for a
   program `begin stmts end.` (render_prog) and for a unit with var/const sections in front of it (render_unit: fragment_unit_eof_lines_ok,
   format_fragment_unit_ends_with_one_newline, format_fragment_unit_total).
   format_fragment_ends_with_one_newline: hence format_model's output on such an input is the text of the other tokens followed by
   exactly one configured line ending — unconditionally on the fragment (FragmentProofs.fragment_parse_file gives the parse). *)
From Coq Require Import Lia Sorted.
From PasfmtVerif Require Import Model.Format Model.Fragment Model.Canon Proofs.FormatProofs Proofs.FormatTotalProofs Proofs.FormatIgnoredProofs
  Proofs.FormatLayoutProofs Proofs.FormatEofProofs Proofs.FormatRelayoutProofs Proofs.FragmentProofs Proofs.FragmentUnitProofs Proofs.ParserKernelProofs Proofs.ParserGrammarProofs
  Proofs.ParserGrammarWsnlProofs Proofs.GenericsProofs Proofs.LineConsolidatorsProofs Proofs.ToggleProofs Proofs.WrapDepthProofs.
Local Open Scope nat_scope.

(* ------------------------------------------------------------------ *)
(* facts about the fragment's token kinds and expected lines *)
Lemma plain_not_asm t : plain t -> not_asm t.
Proof. unfold plain, not_asm. destruct t; try tauto; match goal with k : KeywordKind |- _ => destruct k; tauto end. Qed.

Lemma plain_no_asm T : Forall plain T -> no_asm T.
Proof. intros H. eapply Forall_impl; [|exact H]. apply plain_not_asm. Qed.

Definition tt_plain (t : TokenType) : Prop := is_comment t = false /\ is_cond_directive t = false /\ t <> TT_Keyword KK_Package.

Lemma plain_tt t : plain t -> tt_plain (tt_of_raw t).
Proof.
  unfold plain, tt_plain. destruct t; cbn; try tauto; try (intros _; repeat split; (reflexivity || discriminate));
    repeat match goal with k : KeywordKind |- _ => destruct k | k : OperatorKind |- _ => destruct k end; cbn; try tauto; intros _; repeat split; (reflexivity || discriminate).
Qed.

Lemma pexpected_no_asm_line : forall ss par d k li, Forall (fun l => ll_type l <> LLT_AsmInstruction) (pexpected par d k li ss).
Proof.
  apply (stmts_mut (fun c => forall par d k li sm, Forall (fun l => ll_type l <> LLT_AsmInstruction) (sexpected par d k li sm c))
                   (fun ss => forall par d k li, Forall (fun l => ll_type l <> LLT_AsmInstruction) (pexpected par d k li ss))
                   (fun a => forall par d k li pend, (forall i, Forall (fun l => ll_type l <> LLT_AsmInstruction) (pend i)) ->
                             Forall (fun l => ll_type l <> LLT_AsmInstruction) (arms_pre par d k li a pend)
                             /\ forall i, Forall (fun l => ll_type l <> LLT_AsmInstruction) (arms_pend k li a pend i))
                   (fun h => forall par d k li, Forall (fun l => ll_type l <> LLT_AsmInstruction) (hexpected par d k li h)));
    cbn [sexpected pexpected arms_pre arms_pend hexpected]; cbv zeta; intros; rewrite ?arms_lines_eq.
  all: try match goal with IHa : forall par d k li pend, _ -> _ /\ _ |- Forall _ (_ :: arms_pre ?par ?d ?k ?li ?a ?pend ++ _) =>
             destruct (IHa par d k li pend (fun _ => Forall_nil _)) as [A1 A2] end.
  all: try match goal with IHa : forall par d k li pend, _ -> _ /\ _, Hp : forall i, Forall _ (?pend i) |- _ /\ _ =>
             split; [apply Forall_cons; [discriminate|]; apply Forall_app; split; [apply Hp|]; apply IHa; intros | apply IHa; intros] end.
  all: try (split; [apply Forall_nil|assumption]).
  all: repeat (first [ apply Forall_nil | (apply Forall_cons; [discriminate|]) | (apply Forall_app; split) | solve [auto] ]).
Qed.

Lemma expected_prog_no_asm_line ss : Forall (fun l => ll_type l <> LLT_AsmInstruction) (expected_prog ss).
Proof.
  unfold expected_prog. rewrite finalize_eq. apply Forall_map. apply Forall_forall. intros l Hin. apply filter_In in Hin. destruct Hin as [Hin _].
  rewrite remap_type. revert l Hin. apply Forall_forall. unfold pexpected_prog. cbv zeta. constructor; [discriminate|].
  apply Forall_app. split; [apply pexpected_no_asm_line|]. repeat (constructor; [discriminate|]). constructor.
Qed.

(* no token is in two lines *)
Lemma concat_filter_nonempty pl : concat (map ll_toks (filter nonempty_line pl)) = concat (map ll_toks pl).
Proof.
  induction pl as [|l r IH]; [reflexivity|]. cbn [filter]. unfold nonempty_line at 1. destruct (ll_toks l) eqn:E; cbn [map concat]; rewrite ?E, IH; reflexivity.
Qed.

Lemma expected_prog_nodup ss : wf ss = true -> NoDup (concat (map ll_toks (expected_prog ss))).
Proof.
  intros Hwf.
  unfold expected_prog. rewrite finalize_eq, map_map.
  rewrite (map_ext (fun l => ll_toks (remap (pexpected_prog ss) l)) ll_toks) by (intros l; apply remap_toks).
  rewrite concat_filter_nonempty.
  destruct (fragment_parse_pass ss Hwf) as (_ & _ & _ & el & Hel & Hpl).
  pose proof (parse_pass_lines_wf (seq 0 (length (render_prog ss))) [] (render_prog ss) [] (increasing_seq 0 _)) as (_ & Hnd & _).
  rewrite Hpl, map_app, concat_app in Hnd. cbn [map concat] in Hnd. rewrite Hel, !app_nil_r in Hnd. exact Hnd.
Qed.

(* the same for a unit: sections, then the main block *)
Lemma decl_lines_no_asm ds : forall k, Forall (fun l => ll_type l <> LLT_AsmInstruction) (decl_lines k ds).
Proof.
  assert (Mb : forall j k, Forall (fun l => ll_type l <> LLT_AsmInstruction) (member_lines k j)).
  { induction j as [|j IH]; intros k; cbn [member_lines]; constructor; [discriminate|apply IH]. }
  induction ds as [|dc r IH]; intros k; cbn [decl_lines]; [constructor|]. constructor; [discriminate|]. apply Forall_app. split; [apply Mb|apply IH].
Qed.

Lemma expected_unit_no_asm_line ds ss : Forall (fun l => ll_type l <> LLT_AsmInstruction) (expected_unit ds ss).
Proof.
  unfold expected_unit. rewrite finalize_eq. apply Forall_map. apply Forall_forall. intros l Hin. apply filter_In in Hin. destruct Hin as [Hin _].
  rewrite remap_type. revert l Hin. apply Forall_forall. unfold pexpected_unit, main_lines. cbv zeta. apply Forall_app. split; [apply decl_lines_no_asm|].
  constructor; [discriminate|]. apply Forall_app. split; [apply pexpected_no_asm_line|]. repeat (constructor; [discriminate|]). constructor.
Qed.

Lemma expected_unit_nodup ds ss : wf ss = true -> NoDup (concat (map ll_toks (expected_unit ds ss))).
Proof.
  intros Hwf. unfold expected_unit. rewrite finalize_eq, map_map.
  rewrite (map_ext (fun l => ll_toks (remap (pexpected_unit ds ss) l)) ll_toks) by (intros l; apply remap_toks).
  rewrite concat_filter_nonempty.
  destruct (fragment_unit_parse_pass ds ss Hwf) as (_ & _ & _ & el & Hel & Hpl).
  pose proof (parse_pass_lines_wf (seq 0 (length (render_unit ds ss))) [] (render_unit ds ss) [] (increasing_seq 0 _)) as (_ & Hnd & _).
  rewrite Hpl, map_app, concat_app in Hnd. cbn [map concat] in Hnd. rewrite Hel, !app_nil_r in Hnd. exact Hnd.
Qed.

(* ------------------------------------------------------------------ *)
(* the argument, for any token list T of plain kinds whose parse is known: lines E, the last one the Eof line [e] *)
Section Frag.
Variable T : list RawTokenType.
Variable E : list lline.
Variable e : nat.
Variable segs : list seg.
Hypothesis HT : Forall plain T.
Hypothesis Hparse : r_err (parse_file_model T []) = None /\ r_lines (parse_file_model T []) = E /\ r_toks (parse_file_model T []) = map fin T.
Hypothesis HEasm : Forall (fun l => ll_type l <> LLT_AsmInstruction) E.
Hypothesis HEnd : NoDup (concat (map ll_toks E)).
Hypothesis HEeof : exists pre, E = pre ++ [mkLine LLT_Eof 0%N None [e]].
Hypothesis HTlen : length T = S e.
Hypothesis HEpar : parents_ok E = true.
Hypothesis Hty : map seg_ty segs = T.

Lemma frag_parse : fm_parse segs = parse_file_model T [].
Proof. unfold fm_parse. rewrite Hty. apply parse_file_model_wsnl_irrelevant, plain_no_asm, HT. Qed.

Lemma frag_len : length segs = S e.
Proof. rewrite <- (map_length seg_ty), Hty. exact HTlen. Qed.

Lemma frag_toks0_tys : map t_ty (fm_toks0 segs) = map tt_of_raw (map fin T).
Proof.
  unfold fm_toks0, tokens_of. rewrite frag_parse. destruct Hparse as (_ & _ & ->).
  rewrite <- Hty. clear. rewrite map_map. induction segs as [|sg r IH]; [reflexivity|]. cbn [map combine fst snd]. f_equal. exact IH.
Qed.

Lemma frag_tys_plain : Forall tt_plain (fm_tys segs).
Proof.
  unfold fm_tys, fm_toks, Format.retype.
  assert (Hsrc : Forall tt_plain (map t_ty (fm_toks0 segs))).
  { rewrite frag_toks0_tys. apply Forall_map, Forall_map. eapply Forall_impl; [|exact HT]. intros t Ht. apply plain_tt, fin_plain, Ht. }
  pose proof (generics_chev (map t_ty (fm_toks0 segs))) as Hc. pose proof (generics_length (map t_ty (fm_toks0 segs))) as Hl.
  set (g := generics_consolidate (map t_ty (fm_toks0 segs))) in *.
  assert (Hg : Forall tt_plain g).
  { clear Hl. induction Hc as [|a b l l' Hab _ IH]; [constructor|]. inversion Hsrc as [|? ? Ha Hr]; subst. constructor; [|apply IH, Hr].
    destruct Hab as [->|[(k & -> & ->)|(k & -> & ->)]]; [exact Ha|repeat split; (reflexivity || discriminate)|repeat split; (reflexivity || discriminate)]. }
  rewrite map_length in Hl. revert Hl Hg. generalize (fm_toks0 segs) g. clear.
  induction l as [|x l IH]; intros [|y g] Hl Hg; cbn in *; try discriminate; [constructor|]. inversion Hg; subst. constructor; [assumption|apply IH; [congruence|assumption]].
Qed.

Lemma frag_no_cond : existsb is_cond_directive (fm_tys segs) = false.
Proof.
  pose proof frag_tys_plain as H. induction H as [|t r (_ & Hc & _) _ IH]; [reflexivity|]. cbn [existsb]. rewrite Hc, IH. reflexivity.
Qed.

Lemma frag_lines0 : fm_lines0 segs = E.
Proof.
  unfold fm_lines0, fm_lines_cd, conddir_consolidate_std. rewrite (conddir_gen_nodir_id _ _ _ frag_no_cond).
  rewrite frag_parse. destruct Hparse as (_ & -> & _).
  apply (proj2 (proj2 (proj2 (proj2 (proj2 (deindent_only_levels _ _)))))).
  unfold first_real_ty. intros Hf. apply find_some in Hf. destruct Hf as [Hin _].
  pose proof frag_tys_plain as Hp. rewrite Forall_forall in Hp. exact (proj2 (proj2 (Hp _ Hin)) eq_refl).
Qed.

(* nothing is ignored *)
Lemma frag_toks_not_comment : Forall (fun tok => is_comment (t_ty tok) = false) (fm_toks segs).
Proof.
  pose proof frag_tys_plain as H. unfold fm_tys in H. revert H. generalize (fm_toks segs).
  induction l as [|t r IH]; intros H; [constructor|]. inversion H as [|? ? (Hc & _) Hr]; subst. constructor; [exact Hc|apply IH, Hr].
Qed.

Lemma toggle_marks_no_comment : forall toks, Forall (fun tok => is_comment (t_ty tok) = false) toks -> forall m, In m (toggle_marks false toks) -> m = false.
Proof.
  induction 1 as [|t r Ht _ IH]; intros m Hm; [destruct Hm|]. cbn [toggle_marks] in Hm. rewrite Ht in Hm. cbn in Hm.
  destruct Hm as [<-|Hm]; [reflexivity|exact (IH m Hm)].
Qed.

Lemma asm_base_no_asm_line toks lines : Forall (fun l => fst l <> LLT_AsmInstruction) lines -> forall m, In m (asm_base toks lines) -> m = false.
Proof.
  intros H m Hm. unfold asm_base in Hm. apply in_map_iff in Hm. destruct Hm as (i & <- & _). unfold asm_marked.
  induction H as [|[ty tks] r Hn _ IH]; [reflexivity|]. cbn [existsb fst snd]. rewrite IH, orb_false_r. cbn [fst] in Hn. destruct ty; try reflexivity. contradiction.
Qed.

Lemma frag_marks : forall m, In m (fm_marks segs) -> m = false.
Proof.
  unfold fm_marks. rewrite frag_lines0.
  assert (Ha : forall m, In m (asm_marks (fm_toks segs) (map line_view E)) -> m = false).
  { apply asm_marks_none, asm_base_no_asm_line. apply Forall_map. eapply Forall_impl; [|exact HEasm]. intros l H. exact H. }
  pose proof (toggle_marks_no_comment _ frag_toks_not_comment) as Ht.
  intros m Hm. unfold or_marks in Hm. apply in_map_iff in Hm. destruct Hm as ([x y] & <- & Hxy). cbn [fst snd].
  pose proof (in_combine_l _ _ _ _ Hxy) as Hx. pose proof (in_combine_r _ _ _ _ Hxy) as Hy. rewrite (Ha y Hy), orb_false_r.
  apply in_map_iff in Hx. destruct Hx as ([a b] & <- & Hab). cbn [fst snd].
  pose proof (in_combine_l _ _ _ _ Hab) as Ha0. pose proof (in_combine_r _ _ _ _ Hab) as Hb. rewrite (Ht b Hb), orb_false_r.
  apply in_map_iff in Ha0. destruct Ha0 as (t & <- & _). reflexivity.
Qed.

Lemma frag_lines : fm_lines segs = E.
Proof.
  unfold fm_lines, void_llines. destruct (existsb (fun b => b) (fm_marks segs)) eqn:Ex; [|apply frag_lines0].
  apply existsb_exists in Ex. destruct Ex as (m & Hm & ->). discriminate (frag_marks true Hm).
Qed.

(* the hypothesis of the end-of-file theorem *)
Lemma frag_eof_lines_ok : eof_lines_ok segs.
Proof.
  unfold eof_lines_ok. rewrite frag_lines, frag_len. replace (S e - 1) with e by lia.
  destruct HEeof as (pre & Hl).
  pose proof HEnd as Hnd. rewrite Hl, map_app, concat_app in Hnd. cbn [map concat ll_toks] in Hnd. rewrite app_nil_r in Hnd.
  assert (Hnotpre : forall l, In l pre -> ~ In e (ll_toks l)).
  { intros l Hin He. apply NoDup_remove_2 in Hnd. rewrite app_nil_r in Hnd. apply Hnd. apply in_concat. exists (ll_toks l). split; [apply in_map, Hin|exact He]. }
  pose proof HEpar as Hpo. rewrite Hl in Hpo.
  split; [|split].
  - rewrite Hl. intros k ln Hk He.
    destruct (PeanoNat.Nat.lt_ge_cases k (length pre)) as [Hlt|Hge].
    + rewrite nth_error_app1 in Hk by exact Hlt. exfalso. exact (Hnotpre ln (nth_error_In _ _ Hk) He).
    + rewrite nth_error_app2 in Hk by exact Hge. destruct (k - length pre) as [|j] eqn:Ej; cbn in Hk; [|destruct j; discriminate Hk].
      injection Hk as <-. cbn [ll_toks ll_parent ll_type]. split; [reflexivity|]. split; [reflexivity|]. split; [reflexivity|].
      intros l' pl pt Hin Hp Hpl. assert (Hk' : k = length pre) by lia. subst pl k.
      apply In_nth_error in Hin. destruct Hin as (j & Hj).
      pose proof (parents_ok_from_spec _ _ 0 Hpo j l' (length pre) pt Hj Hp) as Hlt. cbn [Nat.add] in Hlt.
      assert (Hjl : j < length (pre ++ [mkLine LLT_Eof 0%N None [e]])) by (apply nth_error_Some; congruence). rewrite app_length in Hjl. cbn [length] in Hjl. lia.
  - rewrite Hl, existsb_app. cbn. apply orb_true_r.
  - assert (Hlen : e < length (fm_marks segs)) by (rewrite fm_marks_length, frag_len; lia).
    destruct (nth_error (fm_marks segs) e) as [m|] eqn:Em; [|apply nth_error_None in Em; lia].
    f_equal. exact (frag_marks m (nth_error_In _ _ Em)).
Qed.
End Frag.

(* the instances: a program `begin stmts end.`, and a unit `var/const sections, begin stmts end.` *)
Theorem fragment_eof_lines_ok ss segs : wf ss = true -> map seg_ty segs = render_prog ss -> eof_lines_ok segs.
Proof.
  intros Hwf Hty. destruct (fragment_single_eof_line ss Hwf) as (pre & Hl & _ & _ & Hlen).
  pose proof (fragment_parse_file ss Hwf) as Hp. cbv zeta in Hp. rewrite (proj1 (proj2 Hp)) in Hl.
  apply (frag_eof_lines_ok (render_prog ss) (expected_prog ss) (S (S (S (length (render ss))))) segs (render_prog_plain ss) Hp
           (expected_prog_no_asm_line ss) (expected_prog_nodup ss Hwf) (ex_intro _ pre Hl) Hlen); [|exact Hty].
  rewrite <- (proj1 (proj2 Hp)). apply fragment_parents_ok, Hwf.
Qed.

Theorem fragment_unit_eof_lines_ok ds ss segs : wf ss = true -> map seg_ty segs = render_unit ds ss -> eof_lines_ok segs.
Proof.
  intros Hwf Hty. destruct (fragment_unit_single_eof_line ds ss Hwf) as (pre & Hl & _ & _ & Hlen).
  pose proof (fragment_unit_parse_file ds ss Hwf) as Hp. cbv zeta in Hp. rewrite (proj1 (proj2 Hp)) in Hl.
  apply (frag_eof_lines_ok (render_unit ds ss) (expected_unit ds ss) _ segs (render_unit_plain ds ss) Hp
           (expected_unit_no_asm_line ds ss) (expected_unit_nodup ds ss Hwf) (ex_intro _ pre Hl) Hlen); [|exact Hty].
  rewrite <- (proj1 (proj2 Hp)). apply fragment_unit_parents_ok, Hwf.
Qed.

(* C14/C08 on the fragment: no hypothesis about the parse *)
Theorem format_fragment_ends_with_one_newline alnum cfg s out segs ss :
  wf ss = true -> format_model alnum cfg s = inl out -> lex_segments s = Some segs -> map seg_ty segs = render_prog ss ->
  out = recon (cfg_rs cfg) false (removelast (fm_final alnum cfg segs)) ++ rs_newline (cfg_rs cfg).
Proof. intros Hwf H Hl Hty. exact (format_ends_with_one_newline alnum cfg s out segs H Hl (fragment_eof_lines_ok ss segs Hwf Hty)). Qed.

Theorem format_fragment_unit_ends_with_one_newline alnum cfg s out segs ds ss :
  wf ss = true -> format_model alnum cfg s = inl out -> lex_segments s = Some segs -> map seg_ty segs = render_unit ds ss ->
  out = recon (cfg_rs cfg) false (removelast (fm_final alnum cfg segs)) ++ rs_newline (cfg_rs cfg).
Proof. intros Hwf H Hl Hty. exact (format_ends_with_one_newline alnum cfg s out segs H Hl (fragment_unit_eof_lines_ok ds ss segs Hwf Hty)). Qed.

(* ... and on the fragment the composed model never fails: the parser model's result is known *)
Theorem format_fragment_total alnum cfg s segs ss :
  wf ss = true -> lex_segments s = Some segs -> map seg_ty segs = render_prog ss -> format_model alnum cfg s = inl (fm_out alnum cfg segs).
Proof.
  intros Hwf Hl Hty. apply (format_total_if_parsed alnum cfg s segs Hl). unfold fm_parse_ok.
  rewrite (frag_parse (render_prog ss) segs (render_prog_plain ss) Hty). exact (proj1 (fragment_parse_file ss Hwf)).
Qed.

Theorem format_fragment_unit_total alnum cfg s segs ds ss :
  wf ss = true -> lex_segments s = Some segs -> map seg_ty segs = render_unit ds ss -> format_model alnum cfg s = inl (fm_out alnum cfg segs).
Proof.
  intros Hwf Hl Hty. apply (format_total_if_parsed alnum cfg s segs Hl). unfold fm_parse_ok.
  rewrite (frag_parse (render_unit ds ss) segs (render_unit_plain ds ss) Hty). exact (proj1 (fragment_unit_parse_file ds ss Hwf)).
Qed.

(* non-vacuity: "begin if a then b:=c; x; end." lexes to a fragment program with a child line *)
Example format_fragment_example :
  let s := [98;101;103;105;110; 32; 105;102; 32; 97; 32; 116;104;101;110; 32; 98; 58;61; 99; 59; 32; 120; 59; 32; 101;110;100; 46]%N in
  match lex_segments s with
  | Some segs => map seg_ty segs = render_prog (SCons (TIf TAssign) (SCons TSimple SNil)) /\ wf (SCons (TIf TAssign) (SCons TSimple SNil)) = true
  | None => False
  end.
Proof. vm_compute. split; reflexivity. Qed.

(* "var x: y; begin z; end." is a unit of the fragment: one var section with one member, then the main block *)
Example format_fragment_unit_example :
  let s := [118;97;114; 32; 120; 58; 32; 121; 59; 32; 98;101;103;105;110; 32; 122; 59; 32; 101;110;100; 46]%N in
  match lex_segments s with
  | Some segs => map seg_ty segs = render_unit [DVar 1] (SCons TSimple SNil)
                 /\ format_model (fun _ => false) (mkCfg 120 false true false 2 2 false) s = inl (fm_out (fun _ => false) (mkCfg 120 false true false 2 2 false) segs)
  | None => False
  end.
Proof.
  intros s. destruct (lex_segments s) as [segs|] eqn:El; [|vm_compute in El; discriminate].
  assert (Hty : map seg_ty segs = render_unit [DVar 1] (SCons TSimple SNil)) by (vm_compute in El; injection El as <-; reflexivity).
  split; [exact Hty|]. exact (format_fragment_unit_total _ _ s segs [DVar 1] (SCons TSimple SNil) eq_refl El Hty).
Qed.

Print Assumptions fragment_eof_lines_ok.
Print Assumptions format_fragment_ends_with_one_newline.
Print Assumptions format_fragment_unit_ends_with_one_newline.
Print Assumptions format_fragment_unit_total.
