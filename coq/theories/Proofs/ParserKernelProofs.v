(* The C14 invariants of the parser's line-state kernel, for EVERY sequence of primitive events
   (hence for every grammar, every input): lines strictly increasing, every token pushed at most
   once, and — when the pass is consumed to its end — every non-skipped token is in some line. *)
From Coq Require Import Sorted Permutation.
From PasfmtVerif Require Import Model.ParserKernel.

Definition increasing (l : list nat) : Prop := StronglySorted lt l.

(* every token already placed comes from pass[0..pi) *)
Definition placed_below (pass : list nat) (s : kstate) : Prop :=
  forall t, In t (concat (k_lines s)) -> exists i, (i < k_pi s)%nat /\ nth_error pass i = Some t.

Definition refs_ok (s : kstate) : Prop :=
  Forall (fun r => (r < length (k_lines s))%nat) (k_cur s) /\ (k_last s < length (k_lines s))%nat /\ k_cur s <> [].

Record Inv (pass : list nat) (s : kstate) : Prop := {
  inv_sorted : Forall increasing (k_lines s);
  inv_nodup : NoDup (concat (k_lines s));
  inv_below : placed_below pass s;
  inv_refs : refs_ok s }.

Lemma sorted_nth_lt pass : increasing pass -> forall i j a b, (i < j)%nat ->
  nth_error pass i = Some a -> nth_error pass j = Some b -> (a < b)%nat.
Proof.
  induction 1 as [|x l Hl IH Hx]; intros i j a b Hij Ha Hb; [destruct i; discriminate|].
  destruct i as [|i]; destruct j as [|j]; try lia; cbn in *.
  - injection Ha as <-. rewrite Forall_forall in Hx. apply Hx. eapply nth_error_In; eassumption.
  - eapply IH; [|eassumption|eassumption]. lia.
Qed.

Lemma increasing_snoc l t : increasing l -> (forall x, In x l -> (x < t)%nat) -> increasing (l ++ [t]).
Proof.
  induction 1 as [|a l Hl IH Ha]; intros H; cbn; [repeat constructor|].
  constructor.
  - apply IH. intros x Hx. apply H. right. exact Hx.
  - apply Forall_app. split; [exact Ha|constructor; [apply H; left; reflexivity|constructor]].
Qed.

Lemma concat_upd_nth_snoc (lines : list (list nat)) i t :
  (i < length lines)%nat -> Permutation (concat (upd_nth i (fun l => l ++ [t]) lines)) (t :: concat lines).
Proof.
  revert i. induction lines as [|a r IH]; intros i Hi; [cbn in Hi; lia|].
  destruct i as [|i]; cbn [upd_nth concat].
  - rewrite <- app_assoc. cbn. apply Permutation_sym, Permutation_middle.
  - cbn in Hi. specialize (IH i ltac:(lia)).
    eapply Permutation_trans; [apply Permutation_app_head, IH|]. apply Permutation_sym, Permutation_middle.
Qed.

Lemma upd_nth_length {A} i (f : A -> A) l : length (upd_nth i f l) = length l.
Proof. revert i; induction l as [|a t IH]; intros [|i]; cbn; auto. Qed.

Lemma Forall_upd_nth {A} (P : A -> Prop) i f (l : list A) :
  Forall P l -> (forall a, nth_error l i = Some a -> P a -> P (f a)) -> Forall P (upd_nth i f l).
Proof.
  revert i. induction l as [|a t IH]; intros i Hl Hf; [destruct i; constructor|].
  inversion Hl as [|? ? Ha Ht]; subst. destruct i as [|i]; cbn [upd_nth]; constructor.
  - apply (Hf a eq_refl Ha).
  - exact Ht.
  - exact Ha.
  - apply IH; [exact Ht|]. intros b Hb. apply Hf. exact Hb.
Qed.

Lemma concat_snoc_nil (l : list (list nat)) : concat (l ++ [[]]) = concat l.
Proof. rewrite concat_app. cbn. apply app_nil_r. Qed.

Lemma pop_keep_incl l : forall x, In x (pop_keep l) -> In x l.
Proof. destruct l as [|a [|b t]]; cbn; auto. Qed.

Lemma pop_keep_nonempty l : l <> [] -> pop_keep l <> [].
Proof. intros H. destruct l as [|a [|b t]]; [exact H| |]; cbv [pop_keep]; intros E; discriminate E. Qed.

Lemma Inv_init pass : Inv pass k_init.
Proof.
  constructor; cbn.
  - repeat constructor.
  - constructor.
  - intros t [].
  - repeat split; [constructor; [cbn; lia|constructor]|cbn; lia|discriminate].
Qed.

Ltac klia := cbn [k_pi k_lines k_cur k_last] in *; lia.

Lemma Inv_step pass s e : increasing pass -> Inv pass s -> Inv pass (k_step pass s e).
Proof.
  intros Hp [Hs Hn Hb (Hr1 & Hr2 & Hr3)].
  assert (Htop : (k_top s < length (k_lines s))%nat).
  { unfold k_top. destruct (k_cur s) as [|a r]; [congruence|]. inversion Hr1; subst; assumption. }
  destruct e; cbn [k_step].
  - (* T *)
    destruct (nth_error pass (k_pi s)) as [t|] eqn:E.
    + assert (Hnew : forall x, In x (concat (k_lines s)) -> (x < t)%nat).
      { intros x Hx. destruct (Hb x Hx) as (i & Hi & Hx'). eapply sorted_nth_lt; eassumption. }
      pose proof (concat_upd_nth_snoc (k_lines s) (k_top s) t Htop) as Hperm.
      constructor; unfold placed_below; cbn [k_lines k_cur k_pi k_last].
      * apply Forall_upd_nth; [exact Hs|]. intros a Ha Hia. apply increasing_snoc; [exact Hia|].
        intros x Hx. apply Hnew. apply in_concat. exists a. split; [eapply nth_error_In; eassumption|exact Hx].
      * eapply Permutation_NoDup; [apply Permutation_sym, Hperm|]. constructor; [|exact Hn].
        intros Hin. specialize (Hnew t Hin). lia.
      * intros x Hx. eapply Permutation_in in Hx; [|exact Hperm]. destruct Hx as [<-|Hx].
        -- exists (k_pi s). split; [klia|exact E].
        -- destruct (Hb x Hx) as (i & Hi & Hx'). exists i. split; [klia|exact Hx'].
      * unfold refs_ok. cbn [k_lines k_cur k_last]. rewrite upd_nth_length. repeat split; assumption.
    + constructor; unfold placed_below; cbn [k_lines k_cur k_pi k_last]; auto.
      * intros x Hx. destruct (Hb x Hx) as (i & Hi & Hx'). exists i. split; [klia|exact Hx'].
      * repeat split; assumption.
  - (* S *)
    constructor; unfold placed_below; cbn [k_lines k_cur k_pi k_last]; auto.
    + intros x Hx. destruct (Hb x Hx) as (i & Hi & Hx'). exists i. split; [klia|exact Hx'].
    + repeat split; assumption.
  - (* L *)
    constructor; unfold placed_below; cbn [k_lines k_cur k_pi k_last].
    + apply Forall_app. split; [exact Hs|repeat constructor].
    + rewrite concat_snoc_nil. exact Hn.
    + intros x Hx. rewrite concat_snoc_nil in Hx. apply Hb, Hx.
    + unfold refs_ok. cbn [k_lines k_cur k_last]. rewrite app_length. cbn [length]. repeat split.
      * destruct (k_cur s) as [|a r]; [congruence|]. inversion Hr1; subst. constructor; [lia|].
        eapply Forall_impl; [|eassumption]. cbn. intros; lia.
      * lia.
      * destruct (k_cur s); discriminate.
  - (* C *)
    constructor; unfold placed_below; cbn [k_lines k_cur k_pi k_last].
    + apply Forall_app. split; [exact Hs|repeat constructor].
    + rewrite concat_snoc_nil. exact Hn.
    + intros x Hx. rewrite concat_snoc_nil in Hx. apply Hb, Hx.
    + unfold refs_ok. cbn [k_lines k_cur k_last]. rewrite app_length. cbn [length]. repeat split.
      * constructor; [lia|]. eapply Forall_impl; [|eassumption]. cbn. intros; lia.
      * lia.
      * discriminate.
  - (* c *)
    constructor; unfold placed_below; cbn [k_lines k_cur k_pi k_last]; auto. repeat split; auto.
    + apply Forall_forall. intros x Hx. rewrite Forall_forall in Hr1. apply Hr1, pop_keep_incl, Hx.
    + apply pop_keep_nonempty, Hr3.
  - (* R *)
    constructor; unfold placed_below; cbn [k_lines k_cur k_pi k_last]; auto. repeat split; auto; [constructor; assumption|discriminate].
  - (* r *)
    constructor; unfold placed_below; cbn [k_lines k_cur k_pi k_last]; auto. repeat split; auto.
    + apply Forall_forall. intros x Hx. rewrite Forall_forall in Hr1. apply Hr1, pop_keep_incl, Hx.
    + apply pop_keep_nonempty, Hr3.
Qed.

Lemma Inv_fold pass evs s : increasing pass -> Inv pass s -> Inv pass (fold_left (k_step pass) evs s).
Proof. intros Hp. revert s. induction evs as [|e r IH]; intros s H; cbn; [exact H|]. apply IH, Inv_step; assumption. Qed.

(* every program of primitives keeps every line strictly increasing and never places a token twice *)
Theorem kernel_lines_wf pass evs :
  increasing pass ->
  Forall increasing (k_lines (k_run pass evs)) /\ NoDup (concat (k_lines (k_run pass evs)))
  /\ incl (concat (k_lines (k_run pass evs))) pass.
Proof.
  intros Hp. destruct (Inv_fold pass evs k_init Hp (Inv_init pass)) as [H1 H2 H3 _].
  split; [exact H1|]. split; [exact H2|].
  intros t Ht. destruct (H3 t Ht) as (i & _ & Hi). eapply nth_error_In, Hi.
Qed.

(* coverage: a pass position is either placed into a line or was skipped *)
Definition covered (pass : list nat) (s : kstate) (skips : list nat) : Prop :=
  forall i t, (i < k_pi s)%nat -> nth_error pass i = Some t -> In t (concat (k_lines s)) \/ In i skips.

(* generalised run, to do induction from the right *)
Lemma cover_fold pass : forall evs s skips0,
  refs_ok s -> covered pass s skips0 ->
  let s' := fold_left (k_step pass) evs s in
  refs_ok s' /\ covered pass s' (skips0 ++ k_skips evs (k_pi s)).
Proof.
  induction evs as [|e r IH]; intros s skips0 Hr Hc; cbn [fold_left k_skips].
  - rewrite app_nil_r. split; assumption.
  - assert (Htop : (k_top s < length (k_lines s))%nat).
    { destruct Hr as (Hr1 & _ & Hr3). unfold k_top. destruct (k_cur s) as [|a q]; [congruence|]. inversion Hr1; subst; assumption. }
    assert (Hstep : refs_ok (k_step pass s e) /\
                    covered pass (k_step pass s e) (skips0 ++ match e with KS => [k_pi s] | _ => [] end)).
    { destruct Hr as (Hr1 & Hr2 & Hr3). destruct e; cbn [k_step].
      - destruct (nth_error pass (k_pi s)) as [t|] eqn:E.
        + split.
          * unfold refs_ok. cbn [k_lines k_cur k_last]. rewrite upd_nth_length. repeat split; assumption.
          * rewrite app_nil_r. intros i x Hi Hx. cbn [k_pi k_lines] in *.
            pose proof (concat_upd_nth_snoc (k_lines s) (k_top s) t Htop) as Hperm.
            destruct (Nat.eq_dec i (k_pi s)) as [->|Hne].
            -- left. rewrite E in Hx. injection Hx as <-. eapply Permutation_in; [apply Permutation_sym, Hperm|left; reflexivity].
            -- destruct (Hc i x ltac:(lia) Hx) as [H|H]; [left|right; exact H].
               eapply Permutation_in; [apply Permutation_sym, Hperm|right; exact H].
        + split; [repeat split; assumption|]. rewrite app_nil_r. intros i x Hi Hx. cbn [k_pi k_lines] in *.
          destruct (Nat.eq_dec i (k_pi s)) as [->|Hne]; [congruence|]. apply (Hc i x); [lia|exact Hx].
      - split; [repeat split; assumption|]. intros i x Hi Hx. cbn [k_pi k_lines] in *.
        destruct (Nat.eq_dec i (k_pi s)) as [->|Hne]; [right; apply in_or_app; right; left; reflexivity|].
        destruct (Hc i x ltac:(lia) Hx) as [H|H]; [left; exact H|right; apply in_or_app; left; exact H].
      - split.
        + unfold refs_ok. cbn [k_lines k_cur k_last]. rewrite app_length. cbn [length]. repeat split.
          * destruct (k_cur s) as [|a q]; [congruence|]. inversion Hr1; subst. constructor; [lia|].
            eapply Forall_impl; [|eassumption]. cbn. intros; lia.
          * lia.
          * destruct (k_cur s); discriminate.
        + rewrite app_nil_r. intros i x Hi Hx. cbn [k_pi k_lines] in *. rewrite concat_snoc_nil. apply (Hc i x Hi Hx).
      - split.
        + unfold refs_ok. cbn [k_lines k_cur k_last]. rewrite app_length. cbn [length]. repeat split.
          * constructor; [lia|]. eapply Forall_impl; [|eassumption]. cbn. intros; lia.
          * lia.
          * discriminate.
        + rewrite app_nil_r. intros i x Hi Hx. cbn [k_pi k_lines] in *. rewrite concat_snoc_nil. apply (Hc i x Hi Hx).
      - split; [|rewrite app_nil_r; exact Hc]. repeat split; auto.
        + apply Forall_forall. intros x Hx. rewrite Forall_forall in Hr1. apply Hr1, pop_keep_incl, Hx.
        + apply pop_keep_nonempty, Hr3.
      - split; [|rewrite app_nil_r; exact Hc]. repeat split; auto; [constructor; assumption|discriminate].
      - split; [|rewrite app_nil_r; exact Hc]. repeat split; auto.
        + apply Forall_forall. intros x Hx. rewrite Forall_forall in Hr1. apply Hr1, pop_keep_incl, Hx.
        + apply pop_keep_nonempty, Hr3. }
    destruct Hstep as [Hr' Hc'].
    specialize (IH (k_step pass s e) _ Hr' Hc'). cbn zeta in IH. destruct IH as [IH1 IH2].
    split; [exact IH1|].
    destruct e; cbn [k_step k_pi] in IH2 |- *; try (rewrite app_nil_r in IH2; exact IH2).
    + destruct (nth_error pass (k_pi s)); cbn [k_pi] in IH2; rewrite app_nil_r in IH2; exact IH2.
    + rewrite <- app_assoc in IH2. exact IH2.
Qed.

(* If the pass was consumed to its end, every token of the pass is in some line, except those at
   positions where skip_token ran *)
Theorem kernel_cover pass evs :
  (length pass <= k_pi (k_run pass evs))%nat ->
  forall i t, nth_error pass i = Some t ->
  In t (concat (k_lines (k_run pass evs))) \/ In i (k_skips evs 0).
Proof.
  intros Hend i t Ht.
  destruct (cover_fold pass evs k_init [] (inv_refs _ _ (Inv_init pass)) ltac:(intros ? ? H; cbn in H; lia)) as [_ Hc].
  cbn [app] in Hc. apply (Hc i t); [|exact Ht].
  assert (i < length pass)%nat by (apply nth_error_Some; congruence). unfold k_run in Hend. lia.
Qed.

(* consolidation keeps every non-empty line (by value) and adds nothing else *)
Lemma nat_list_eqb_eq a b : nat_list_eqb a b = true <-> a = b.
Proof.
  revert b. induction a as [|x a IH]; intros [|y b]; cbn; try (split; congruence).
  rewrite andb_true_iff, Nat.eqb_eq, IH. split; [intros [-> ->]; reflexivity|intros H; injection H as -> ->; auto].
Qed.

Lemma consolidate_pass_spec acc pl :
  forall l, In l (consolidate_pass acc pl) <-> In l acc \/ (In l pl /\ l <> []).
Proof.
  unfold consolidate_pass. revert acc. induction pl as [|a r IH]; intros acc l; cbn [fold_left].
  - split; [auto|intros [H|[[] _]]; exact H].
  - rewrite IH. destruct a as [|x a'].
    + split; [intros [H|[H1 H2]]; [left; exact H|right; split; [right; exact H1|exact H2]]|].
      intros [H|[[H|H] Hne]]; [left; exact H|congruence|right; split; assumption].
    + destruct (existsb (nat_list_eqb (x :: a')) acc) eqn:E.
      * apply existsb_exists in E. destruct E as (b & Hb & Eb). apply nat_list_eqb_eq in Eb. subst b.
        split; [intros [H|[H1 H2]]; [left; exact H|right; split; [right; exact H1|exact H2]]|].
        intros [H|[[H|H] Hne]]; [left; exact H|left; subst l; exact Hb|right; split; assumption].
      * split.
        -- intros [H|[H1 H2]].
           ++ apply in_app_or in H. destruct H as [H|[H|[]]]; [left; exact H|right; split; [left; exact H|subst l; discriminate]].
           ++ right. split; [right; exact H1|exact H2].
        -- intros [H|[[H|H] Hne]].
           ++ left. apply in_or_app. left. exact H.
           ++ left. apply in_or_app. right. left. exact H.
           ++ right. split; assumption.
Qed.

Example kernel_example :
  k_lines (k_run [0; 1; 2; 3; 4]%nat [KT; KT; KL; KC; KT; Kc; KT; KL; KT; KL])
  = [[0; 1]; [3]; [2]; [4]; []]%nat.
Proof. reflexivity. Qed.
