(* Proofs/FormatWrapProofs.v — the bridge between the two models of the line wrapper:
   the SEARCH model's token vector (Model/WrapFormat.v: olf_model) is the EFFECT model (Model/WrapApply.v:
   olf_effect) applied to the decisions the search logged.  Every theorem of WrapApplyProofs.v that holds "for any
   two decision lists" therefore holds for olf_model (olf_model_untouched, ..._ignored, ..._length below), and with it
   for the wrapper stage of format_model. *)
From Coq Require Import Lia.
From PasfmtVerif Require Import Model.WrapFormat Proofs.WrapApplyProofs.
Local Open Scope nat_scope.

(* ml_visit: the vector does not depend on the flag; the flag only rises *)
Lemma ml_visit_flag rs l f i :
  ml_visit rs (l, f) i = (fst (ml_visit rs (l, false) i), f || snd (ml_visit rs (l, false) i)).
Proof.
  unfold ml_visit. cbn [fst].
  destruct (nth_error l i) as [[tok fm]|]; [|rewrite orb_false_r; reflexivity].
  destruct (f_ignored fm); [rewrite orb_false_r; reflexivity|].
  destruct (is_ml_string (t_ty tok)); [|rewrite orb_false_r; reflexivity].
  destruct (rewrite_ml_token rs (f_ind fm) (f_cont fm) (t_content tok)) as [c|]; [|rewrite orb_false_r; reflexivity].
  destruct (bytes_eqb c (t_content tok)); [rewrite orb_false_r; reflexivity|].
  cbn [fst snd]. rewrite orb_true_r. reflexivity.
Qed.

Lemma ml_fold_flag rs : forall vs l f,
  fold_left (ml_visit rs) vs (l, f) =
  (fst (fold_left (ml_visit rs) vs (l, false)), f || snd (fold_left (ml_visit rs) vs (l, false))).
Proof.
  induction vs as [|i vs IH]; intros l f; cbn [fold_left]; [cbn; rewrite orb_false_r; reflexivity|].
  rewrite (ml_visit_flag rs l f i). destruct (ml_visit rs (l, false) i) as [l1 f1]. cbn [fst snd].
  rewrite (IH l1 (f || f1)), (IH l1 f1). cbn [fst snd]. rewrite orb_assoc. reflexivity.
Qed.

(* the per-line loop of the search model against the single loop of the effect model *)
Lemma ml_lines_spec rs all : forall rest i l acc,
  exists extra,
    ml_lines rs all rest i l acc =
      (fst (fold_left (ml_visit rs) (concat (map ll_toks rest)) (l, false)), extra ++ acc)
    /\ (extra = [] <-> snd (fold_left (ml_visit rs) (concat (map ll_toks rest)) (l, false)) = false).
Proof.
  induction rest as [|ln r IH]; intros i l acc; cbn [ml_lines map concat].
  - exists []. split; [reflexivity|]. cbn. split; reflexivity.
  - rewrite fold_left_app.
    destruct (fold_left (ml_visit rs) (ll_toks ln) (l, false)) as [l1 ch] eqn:E1.
    destruct (IH (S i) l1 (if ch then top_ancestor (S (length all)) all i :: acc else acc)) as (extra & E & Hx).
    rewrite (ml_fold_flag rs (concat (map ll_toks r)) l1 ch). cbn [fst snd].
    destruct ch.
    + exists (extra ++ [top_ancestor (S (length all)) all i]). rewrite E. split.
      * rewrite <- app_assoc. reflexivity.
      * cbn [orb]. split; [intros H; apply app_eq_nil in H; destruct H as [_ H]; discriminate H|intros H; discriminate H].
    + exists extra. rewrite E. split; [reflexivity|]. cbn [orb]. exact Hx.
Qed.

Lemma insert_unique_nonempty x l : insert_unique x l <> [].
Proof. destruct l as [|y r]; cbn [insert_unique]; [discriminate|]. destruct (Nat.eqb x y); [discriminate|]. destruct (Nat.ltb x y); discriminate. Qed.

Lemma fold_insert_unique_nonempty : forall refl acc, acc <> [] -> fold_left (fun a x => insert_unique x a) refl acc <> [].
Proof. induction refl as [|x r IH]; intros acc H; cbn [fold_left]; [exact H|]. apply IH, insert_unique_nonempty. Qed.

Lemma fold_insert_unique_nil refl : fold_left (fun a x => insert_unique x a) refl [] = [] <-> refl = [].
Proof.
  destruct refl as [|x r]; cbn [fold_left]; [split; reflexivity|]. split; [|discriminate].
  intros H. exfalso. exact (fold_insert_unique_nonempty r _ (insert_unique_nonempty x []) H).
Qed.

(* THE BRIDGE *)
Theorem olf_model_is_effect rs W fm lines l :
  exists plan1 plan2,
    fst (fst (olf_model rs W fm lines l)) = olf_effect rs fm (concat (map ll_toks lines)) plan1 plan2 l.
Proof.
  unfold olf_model, olf_effect.
  set (st1 := wrap_phase1 W (map tokinfo_of l) lines).
  set (plan1 := plan_of_events (rev (ss_log st1))).
  set (a := zero_line_starts (apply_plan plan1 l)).
  destruct fm; [|exists plan1, []; reflexivity].
  destruct (ml_lines_spec rs lines lines 0 a []) as (extra & E & Hx). rewrite app_nil_r in E. rewrite E.
  destruct (fold_left (ml_visit rs) (concat (map ll_toks lines)) (a, false)) as [b reflowed] eqn:Ef. cbn [fst snd] in *.
  destruct (fold_left (fun acc x => insert_unique x acc) extra []) as [|x0 r0] eqn:Er.
  - apply (proj1 (fold_insert_unique_nil extra)) in Er. apply (proj1 Hx) in Er. subst reflowed.
    exists plan1, []. fold a. unfold ml_stage. rewrite Ef. reflexivity.
  - assert (Hne : extra <> []) by (intros ->; discriminate).
    assert (reflowed = true) by (destruct reflowed; [reflexivity|exfalso; apply Hne, (proj2 Hx); reflexivity]). subst reflowed.
    eexists plan1, _. fold a. unfold ml_stage. rewrite Ef. cbn [fst]. reflexivity.
Qed.

(* what follows for the search model, whatever it decides *)
Theorem olf_model_untouched rs W fm lines l :
  pointwise untouched l (fst (fst (olf_model rs W fm lines l))).
Proof. destruct (olf_model_is_effect rs W fm lines l) as (p1 & p2 & ->). apply olf_effect_untouched. Qed.

Corollary olf_model_length rs W fm lines l : length (fst (fst (olf_model rs W fm lines l))) = length l.
Proof. exact (proj1 (olf_model_untouched rs W fm lines l)). Qed.

Corollary olf_model_ignored rs W fm lines l j p :
  nth_error l j = Some p -> f_ignored (snd p) = true ->
  exists q, nth_error (fst (fst (olf_model rs W fm lines l))) j = Some q /\ fst q = fst p /\ f_ignored (snd q) = true.
Proof. destruct (olf_model_is_effect rs W fm lines l) as (p1 & p2 & ->). apply olf_effect_ignored_text. Qed.

Corollary olf_model_ml_text rs W fm lines l :
  pointwise (fun p q => ml_rewrites rs (t_content (fst p)) (t_content (fst q))) l (fst (fst (olf_model rs W fm lines l))).
Proof. destruct (olf_model_is_effect rs W fm lines l) as (p1 & p2 & ->). apply olf_effect_ml_text. Qed.

Print Assumptions olf_model_is_effect.
