(* Proofs/ParserGrammarEofProofs.v — the Eof line of a pass: if the top-level loop of `parse` returns
   exactly in front of the last token of the pass, and that token is the Eof token, and the pass ends
   without error, then the pass has a line that holds exactly that token and has type LLT_Eof (and, by
   the kernel theorem, no other line holds it). *)
From PasfmtVerif Require Import Model.ParserGrammar Proofs.ParserKernelProofs Proofs.ParserGrammarProofs
  Proofs.ParserGrammarTypesProofs Proofs.ParserGrammarConsumedProofs Proofs.ParserGrammarCoverProofs.
Local Open Scope nat_scope.

Lemma nth_upd_nth_same {A} (f : A -> A) d : forall l i, i < length l -> nth i (upd_nth i f l) d = f (nth i l d).
Proof. induction l as [|a l IH]; intros [|i] H; cbn in *; try lia; [reflexivity|apply IH; lia]. Qed.
Lemma nth_upd_nth_type i f (l : list lmeta) r :
  (forall m, lm_type (f m) = lm_type m) -> lm_type (nth r (upd_nth i f l) lm0) = lm_type (nth r l lm0).
Proof.
  intros Hf. revert i r. induction l as [|a l IH]; intros [|i] [|r]; cbn; try reflexivity; [apply Hf|apply IH].
Qed.
Lemma in_combine_nth {A B} (l1 : list A) (l2 : list B) r a b :
  nth_error l1 r = Some a -> nth_error l2 r = Some b -> In (a, b) (combine l1 l2).
Proof.
  revert l2 r. induction l1 as [|x l1 IH]; intros [|y l2] [|r] H1 H2; cbn in *; try discriminate.
  - injection H1 as ->. injection H2 as ->. left. reflexivity.
  - right. eapply IH; eassumption.
Qed.

Section Eof.
Variable pass : list nat.
Variable wsnl : list bool.
Notation pstate := (pstate pass).

Lemma cur_tt_none_RS (s s' : pstate) : RS pass s s' -> pidx pass s' = pidx pass s -> cur_tt pass s = None -> cur_tt pass s' = None.
Proof.
  intros [Hr _] Hp Hc. unfold cur_tt, idx0, cur_index in *. rewrite Hp.
  destruct (nth_error pass (pidx pass s)) as [i|]; [|reflexivity].
  unfold tt_at in *. destruct (nth_error (ps_toks pass s) i) as [t|] eqn:Et.
  - destruct (retypes_nth _ _ _ _ Hr Et) as (t' & Et' & Hrt). rewrite Et'.
    destruct t; cbn [bind] in Hc; try (rewrite Et in Hc; discriminate).
    apply retype_ok_fixed in Hrt. cbn in Hrt. subst t'. reflexivity.
  - assert (Hn : nth_error (ps_toks pass s') i = None).
    { apply nth_error_None. apply nth_error_None in Et. rewrite <- (retypes_length _ _ Hr). exact Et. }
    rewrite Hn. reflexivity.
Qed.

Lemma metas_p_set_meta i f s : has_err pass s = false -> metas pass (p_set_meta pass i f s) = upd_nth i f (metas pass s).
Proof.
  intros E. unfold p_set_meta, guard. rewrite E. unfold metas. cbn [ps_core set_core].
  destruct (ps_core pass s) as [p H]. reflexivity.
Qed.
Lemma kst_p_set_meta i f s : kst pass (p_set_meta pass i f s) = kst pass s.
Proof. unfold p_set_meta, guard. destruct (has_err pass s); [reflexivity|]. unfold kst. cbn. apply kst_set_meta. Qed.
Lemma err_p_set_meta i f s : ps_err pass (p_set_meta pass i f s) = ps_err pass s.
Proof. unfold p_set_meta, guard. destruct (has_err pass s); reflexivity. Qed.
Lemma metas_type_p_set_meta i f s r : (forall m, lm_type (f m) = lm_type m) ->
  lm_type (nth r (metas pass (p_set_meta pass i f s)) lm0) = lm_type (nth r (metas pass s) lm0).
Proof.
  intros Hf. destruct (has_err pass s) eqn:E; [unfold p_set_meta, guard; rewrite E; reflexivity|].
  rewrite metas_p_set_meta by exact E. apply nth_upd_nth_type, Hf.
Qed.
Lemma metas_emit e m (c : kcore pass) : kc_meta pass (emit pass e m c) = if appends e then kc_meta pass c ++ [m] else kc_meta pass c.
Proof. destruct c as [p H]. reflexivity. Qed.

Lemma core_set_tok i t s : ps_core pass (set_tok pass i t s) = ps_core pass s.
Proof. unfold set_tok, guard. destruct (has_err pass s); reflexivity. Qed.
Lemma core_portability_go : forall li s, ps_core pass (portability_go pass li s) = ps_core pass s.
Proof.
  assert (P : forall s n, ps_core pass match tt_at pass s n with
              | Some (RTT_IdentifierOrKeyword ((KK_Deprecated | KK_Experimental | KK_Platform | KK_Library) as d)) =>
                  set_tok pass n (RTT_Keyword d) s
              | _ => s end = ps_core pass s).
  { intros s n. destruct (tt_at pass s n) as [[o| |k|k|k|k|k| |k| |]|]; try reflexivity. destruct k; try reflexivity; apply core_set_tok. }
  induction li as [|p IH]; intros s; cbn [portability_go].
  - destruct (nth_error (cur_toks pass s) 0); [|reflexivity].
    repeat match goal with |- ps_core pass (if ?b then _ else _) = _ => destruct b; [reflexivity|] end. apply P.
  - destruct (nth_error (cur_toks pass s) (S p)); [|reflexivity].
    repeat match goal with |- ps_core pass (if ?b then _ else _) = _ => destruct b; [reflexivity|] end.
    rewrite IH. apply P.
Qed.
Lemma core_portability s : ps_core pass (consolidate_portability_directives pass s) = ps_core pass s.
Proof.
  unfold consolidate_portability_directives. destruct (negb _); [reflexivity|].
  destruct (length (cur_toks pass s)); [unfold fail; destruct (has_err pass s); reflexivity|]. cbv zeta.
  destruct (o_semicolon _); [|apply core_portability_go]. destruct (skip_trailing_comments pass s n); [reflexivity|apply core_portability_go].
Qed.
Lemma inline_none s f : cur_tt pass s = None -> inline_comments_go pass (S f) s = s.
Proof.
  intros H. cbn [inline_comments_go]. destruct (has_err pass s); [reflexivity|].
  destruct (cur_index pass s); [|reflexivity]. rewrite H. reflexivity.
Qed.
Lemma has_err_p_emit e m s : has_err pass (p_emit pass e m s) = has_err pass s.
Proof. unfold p_emit, guard. destruct (has_err pass s) eqn:E; [exact E|]. unfold has_err in *. cbn. exact E. Qed.
Lemma has_err_p_set_meta i f s : has_err pass (p_set_meta pass i f s) = has_err pass s.
Proof. unfold has_err. rewrite err_p_set_meta. reflexivity. Qed.
Lemma fold_set_meta_facts (g : nat -> lmeta -> lmeta) : (forall r m, lm_type (g r m) = lm_type m) ->
  forall l s, let s' := fold_left (fun s r => p_set_meta pass r (g r) s) l s in
  kst pass s' = kst pass s /\ has_err pass s' = has_err pass s /\ length (metas pass s') = length (metas pass s)
  /\ forall r, lm_type (nth r (metas pass s') lm0) = lm_type (nth r (metas pass s) lm0).
Proof.
  intros Hg. induction l as [|a l IH]; intros s; cbn [fold_left]; [auto|].
  destruct (IH (p_set_meta pass a (g a) s)) as (A & B & C & D). cbv zeta in *.
  rewrite A, B, C, kst_p_set_meta, has_err_p_set_meta. repeat split; auto.
  - rewrite !state_meta_length, kst_p_set_meta. reflexivity.
  - intros r. rewrite D. apply metas_type_p_set_meta, Hg.
Qed.

(* finish_logical_line on a non-empty line when no token is current (no inline comment to swallow) *)
Lemma finish_nonempty s :
  has_err pass s = false -> at_start pass s = false -> cur_tt pass s = None ->
  has_err pass (finish_logical_line pass s) = false ->
  kst pass (finish_logical_line pass s) = k_step pass (kst pass s) KL
  /\ forall r, r < length (metas pass s) ->
       lm_type (nth r (metas pass (finish_logical_line pass s)) lm0) = lm_type (nth r (metas pass s) lm0).
Proof.
  intros E Ea Hc E'. unfold finish_logical_line, guard in *. rewrite E, Ea in *.
  set (s1 := consolidate_portability_directives pass s) in *.
  assert (C1 : ps_core pass s1 = ps_core pass s) by apply core_portability.
  assert (K1 : kst pass s1 = kst pass s) by (unfold kst; rewrite C1; reflexivity).
  assert (M1 : metas pass s1 = metas pass s) by (unfold metas; rewrite C1; reflexivity).
  assert (Hc1 : cur_tt pass s1 = None).
  { apply (cur_tt_none_RS s s1); [apply consolidate_portability_directives_RS|unfold pidx; rewrite K1; reflexivity|exact Hc]. }
  replace (remaining pass s1 + 2) with (S (remaining pass s1 + 1)) in * by lia.
  rewrite (inline_none s1 _ Hc1) in *.
  destruct (get_context_level pass s1) as [parent lvl].
  set (Y := if ps_cur_unfinished pass s1 then s1 else _) in *.
  assert (FY : kst pass Y = kst pass s1 /\ has_err pass Y = has_err pass s1 /\ length (metas pass Y) = length (metas pass s1)
               /\ forall r, lm_type (nth r (metas pass Y) lm0) = lm_type (nth r (metas pass s1) lm0)).
  { subst Y. destruct (ps_cur_unfinished pass s1); [auto|].
    exact (fold_set_meta_facts (fun _ m => mkLM (lm_parent m) lvl (lm_type m)) (fun _ _ => eq_refl) (ps_unfinished pass s1) s1). }
  destruct FY as (KY & EY & LY & TY).
  set (Z := set_unfinished pass (ps_unfinished pass Y) false Y) in *.
  set (W := p_set_meta pass (cur_ref pass Z) (fun m => mkLM parent lvl (lm_type m)) Z) in *.
  assert (KW : kst pass W = kst pass s) by (subst W; rewrite kst_p_set_meta; subst Z; unfold kst in *; cbn; rewrite <- K1; exact KY).
  assert (EW : has_err pass W = false) by (rewrite has_err_p_emit in E'; exact E').
  assert (TW : forall r, lm_type (nth r (metas pass W) lm0) = lm_type (nth r (metas pass s) lm0)).
  { intros r. subst W. rewrite metas_type_p_set_meta by reflexivity. subst Z. rewrite <- M1, <- TY. reflexivity. }
  assert (LW : length (metas pass W) = length (metas pass s)) by (rewrite !state_meta_length, KW; reflexivity).
  split.
  - rewrite (kst_p_emit pass KL _ W EW), KW. reflexivity.
  - intros r Hr. unfold p_emit, guard. rewrite EW. unfold metas at 1. cbn [ps_core set_core]. rewrite metas_emit. cbn [appends].
    fold (metas pass W). rewrite app_nth1 by lia. apply TW.
Qed.

Lemma finish_empty s : has_err pass s = false -> at_start pass s = true ->
  kst pass (finish_logical_line pass s) = kst pass s.
Proof. intros E Ea. unfold finish_logical_line, guard. rewrite E, Ea. apply kst_p_set_meta. Qed.

Lemma cur_tt_past_end (s : pstate) : length pass <= pidx pass s -> cur_tt pass s = None.
Proof.
  intros H. unfold cur_tt, idx0, cur_index. assert (X : nth_error pass (pidx pass s) = None) by (apply nth_error_None; exact H).
  rewrite X. reflexivity.
Qed.

(* next_token in front of the last token of the pass, which is not a comment: exactly one step *)
Lemma next_token_single s e :
  has_err pass s = false -> cur_index pass s = Some e -> cur_tt pass s = None -> S (pidx pass s) = length pass ->
  kst pass (next_token pass s) = k_step pass (kst pass s) KT /\ has_err pass (next_token pass s) = false
  /\ metas pass (next_token pass s) = metas pass s /\ ps_toks pass (next_token pass s) = ps_toks pass s.
Proof.
  intros E Hi Hc Hl. unfold next_token. replace (remaining pass s + 2) with (S (remaining pass s + 1)) by lia.
  cbn [next_token_go]. rewrite E. unfold next_token_body. rewrite Hi, Hc. unfold track_levels. rewrite Hc.
  assert (K : kst pass (p_emit pass KT lm0 s) = k_step pass (kst pass s) KT) by (apply kst_p_emit, E).
  assert (P : cur_tt pass (p_emit pass KT lm0 s) = None).
  { apply cur_tt_past_end. unfold pidx. rewrite K. rewrite k_pi_KT. fold (pidx pass s). lia. }
  rewrite P. cbn [is_inline_comment]. split; [exact K|]. split; [rewrite has_err_p_emit; exact E|].
  unfold p_emit, guard. rewrite E. split; [|reflexivity]. unfold metas. cbn [ps_core set_core]. rewrite metas_emit. reflexivity.
Qed.

Theorem parse_pass_eof_line toks attr e :
  let s1 := top_exit pass wsnl toks attr in
  ps_err pass (parse_pass pass wsnl toks attr) = None ->
  nth_error pass (pidx pass s1) = Some e -> S (pidx pass s1) = length pass -> tt_at pass s1 e = Some RTT_Eof ->
  exists l, In l (pass_lines pass (parse_pass pass wsnl toks attr)) /\ ll_toks l = [e] /\ ll_type l = LLT_Eof.
Proof.
  intros s1 Herr Hi Hl Ht. rewrite parse_pass_unfold in *. fold s1 in Herr |- *.
  set (s2 := finish_logical_line pass s1) in *. set (s3 := next_token pass s2) in *.
  set (s4 := set_line_type pass LLT_Eof s3) in *. set (s5 := finish_logical_line pass s4) in *.
  pose proof (finish_logical_line_good pass s1) as G1. pose proof (next_token_good pass s2) as G2.
  pose proof (same_good pass _ _ (same_set_line_type pass LLT_Eof s3)) as G3.
  pose proof (finish_logical_line_good pass s4) as G4.
  assert (E5 : has_err pass s5 = false) by (unfold has_err; rewrite Herr; reflexivity).
  assert (E4 : has_err pass s4 = false).
  { destruct (has_err pass s4) eqn:E; [|reflexivity]. fold s5 in G4. rewrite (proj1 G4 E) in E5. congruence. }
  assert (E3 : has_err pass s3 = false).
  { destruct (has_err pass s3) eqn:E; [|reflexivity]. fold s4 in G3. rewrite (proj1 G3 E) in E4. congruence. }
  assert (E2 : has_err pass s2 = false).
  { destruct (has_err pass s2) eqn:E; [|reflexivity]. fold s3 in G2. rewrite (proj1 G2 E) in E3. congruence. }
  assert (E1 : has_err pass s1 = false).
  { destruct (has_err pass s1) eqn:E; [|reflexivity]. fold s2 in G1. rewrite (proj1 G1 E) in E2. congruence. }
  assert (C1 : cur_tt pass s1 = None).
  { unfold cur_tt, idx0, cur_index. rewrite Hi, Ht. reflexivity. }
  (* s2: the current line is empty, nothing consumed *)
  assert (K2 : (kst pass s2 = kst pass s1 \/ kst pass s2 = k_step pass (kst pass s1) KL) /\ at_start pass s2 = true).
  { destruct (at_start pass s1) eqn:Ea.
    - pose proof (finish_empty s1 E1 Ea) as K. fold s2 in K. split; [left; exact K|]. unfold at_start, cur_toks, cur_ref in *. rewrite K. exact Ea.
    - destruct (finish_nonempty s1 E1 Ea C1 E2) as [K _]. fold s2 in K. split; [right; exact K|].
      unfold at_start, cur_toks, cur_ref. rewrite K. cbn [k_step k_lines k_top k_cur].
      destruct (k_cur (kst pass s1)); cbn [hd]; (rewrite app_nth2; [rewrite Nat.sub_diag; reflexivity|apply Nat.le_refl]). }
  destruct K2 as [K2 A2].
  assert (P2 : pidx pass s2 = pidx pass s1) by (unfold pidx; destruct K2 as [-> | ->]; reflexivity).
  assert (C2 : cur_tt pass s2 = None) by (apply (cur_tt_none_RS s1 s2); [apply finish_logical_line_RS|exact P2|exact C1]).
  assert (I2 : cur_index pass s2 = Some e) by (unfold cur_index; rewrite P2; exact Hi).
  destruct (next_token_single s2 e E2 I2 C2 ltac:(rewrite P2; exact Hl)) as (K3 & _ & M3 & _). fold s3 in K3, M3.
  (* s3: the current line is [e] *)
  pose proof (kst_top_lt pass s2) as T2.
  assert (R3 : cur_ref pass s3 = cur_ref pass s2).
  { unfold cur_ref. rewrite K3. unfold cur_index in I2. cbn [k_step]. fold (pidx pass s2). rewrite I2. reflexivity. }
  assert (L3 : k_lines (kst pass s3) = upd_nth (cur_ref pass s2) (fun l => l ++ [e]) (k_lines (kst pass s2))).
  { rewrite K3. unfold cur_index in I2. cbn [k_step]. fold (pidx pass s2). rewrite I2. reflexivity. }
  assert (T3 : cur_toks pass s3 = [e]).
  { unfold cur_toks. rewrite R3, L3, nth_upd_nth_same by exact T2. unfold at_start, cur_toks in A2.
    destruct (nth (cur_ref pass s2) (k_lines (kst pass s2)) []); [reflexivity|discriminate]. }
  (* s4: its type is Eof *)
  assert (K4 : kst pass s4 = kst pass s3) by apply kst_p_set_meta.
  set (r := cur_ref pass s3) in *.
  assert (Hr : r < length (metas pass s3)).
  { rewrite state_meta_length. subst r. rewrite R3, L3, upd_nth_len. exact T2. }
  assert (M4 : metas pass s4 = upd_nth r (fun m => mkLM (lm_parent m) (lm_level m) LLT_Eof) (metas pass s3)) by (apply metas_p_set_meta, E3).
  assert (Ty4 : lm_type (nth r (metas pass s4) lm0) = LLT_Eof) by (rewrite M4, nth_upd_nth_same by exact Hr; reflexivity).
  assert (A4 : at_start pass s4 = false).
  { unfold at_start, cur_toks, cur_ref. rewrite K4. fold (cur_ref pass s3). fold (cur_toks pass s3). rewrite T3. reflexivity. }
  assert (C4 : cur_tt pass s4 = None).
  { apply cur_tt_past_end. unfold pidx. rewrite K4, K3, k_pi_KT. fold (pidx pass s2). lia. }
  destruct (finish_nonempty s4 E4 A4 C4 E5) as [K5 Ty5]. fold s5 in K5, Ty5.
  assert (L4 : length (metas pass s4) = length (metas pass s3)) by (rewrite M4; apply upd_nth_len).
  (* the line r of the result *)
  assert (N5 : nth_error (k_lines (kst pass s5)) r = Some [e]).
  { rewrite K5. cbn [k_step k_lines]. rewrite K4. rewrite nth_error_app1 by (rewrite <- state_meta_length; exact Hr).
    rewrite (nth_error_nth' _ [] ) by (rewrite <- state_meta_length; exact Hr). f_equal.
    fold (cur_toks pass s3) in *. unfold cur_toks in T3. exact T3. }
  assert (Hr5 : r < length (metas pass s5)).
  { rewrite state_meta_length, K5. cbn [k_step k_lines]. rewrite app_length, K4, <- state_meta_length. lia. }
  exists (mkLine (lm_type (nth r (metas pass s5) lm0)) (lm_level (nth r (metas pass s5) lm0)) (lm_parent (nth r (metas pass s5) lm0)) [e]).
  split; [|split; [reflexivity|cbn [ll_type]; rewrite Ty5 by (rewrite L4; exact Hr); exact Ty4]].
  unfold pass_lines. apply in_map_iff. exists ([e], nth r (metas pass s5) lm0). split; [reflexivity|].
  eapply in_combine_nth; [exact N5|]. apply nth_error_nth'. exact Hr5.
Qed.
End Eof.

Lemma nodup_app_disj {A} (l1 l2 : list A) x : NoDup (l1 ++ l2) -> In x l1 -> In x l2 -> False.
Proof.
  induction l1 as [|a l1 IH]; intros H H1 H2; [contradiction|]. cbn in H. inversion H as [|? ? Hn Hd]; subst.
  destruct H1 as [->|H1]; [apply Hn, in_or_app; right; exact H2|exact (IH Hd H1 H2)].
Qed.
Lemma nodup_concat_unique {A} (ls : list (list A)) a b x :
  NoDup (concat ls) -> In a ls -> In b ls -> In x a -> In x b -> a = b.
Proof.
  induction ls as [|c r IH]; intros H Ha Hb Hxa Hxb; [contradiction|]. cbn in H.
  assert (Hr : NoDup (concat r)) by (clear - H; induction c; [exact H|inversion H; auto]).
  destruct Ha as [<-|Ha], Hb as [<-|Hb]; [reflexivity| | |exact (IH Hr Ha Hb Hxa Hxb)].
  - exfalso. apply (nodup_app_disj _ _ x H Hxa). apply in_concat. exists b. split; assumption.
  - exfalso. apply (nodup_app_disj _ _ x H Hxb). apply in_concat. exists a. split; assumption.
Qed.
(* ... and it is the only line that holds the Eof token *)
Corollary parse_pass_eof_line_unique pass wsnl toks attr e :
  increasing pass ->
  let s1 := top_exit pass wsnl toks attr in
  ps_err pass (parse_pass pass wsnl toks attr) = None ->
  nth_error pass (pidx pass s1) = Some e -> S (pidx pass s1) = length pass -> tt_at pass s1 e = Some RTT_Eof ->
  forall l', In l' (pass_lines pass (parse_pass pass wsnl toks attr)) -> In e (ll_toks l') -> ll_toks l' = [e].
Proof.
  intros Hinc s1 Herr Hi Hl Ht l' Hl' He.
  destruct (parse_pass_eof_line pass wsnl toks attr e Herr Hi Hl Ht) as (l & Hin & Et & _).
  destruct (parse_pass_lines_wf pass wsnl toks attr Hinc) as (_ & Hnd & _).
  rewrite <- Et. eapply (nodup_concat_unique _ _ _ e Hnd).
  - apply in_map, Hl'.
  - apply in_map, Hin.
  - exact He.
  - rewrite Et. left. reflexivity.
Qed.

Example parse_pass_eof_line_example :
  let pass := [0; 1; 2; 3; 4] in
  let toks := [RTT_Identifier; RTT_Op OK_Assign; RTT_Identifier; RTT_Op OK_Semicolon; RTT_Eof] in
  let s1 := top_exit pass [] toks [] in
  ps_err pass (parse_pass pass [] toks []) = None /\ nth_error pass (pidx pass s1) = Some 4 /\ S (pidx pass s1) = length pass
  /\ tt_at pass s1 4 = Some RTT_Eof.
Proof. vm_compute. repeat split. Qed.
