(* Proofs/LexerKindsProofs.v — the Individual / Inline flag of a comment's raw kind in a scan: a comment is Individual exactly when the
   blanks in front of it contain a LF or it is the first token (lexed_comment_flags), stated with LexerRelayoutProofs.retype: the kind
   of every token is a fixpoint of `retype (its blanks contain LF || it is token 0)`. *)
From PasfmtVerif Require Import Model.Lexer Proofs.LexerProofs Proofs.LexerSpecProofs Proofs.LexerRelayoutProofs.
From Coq Require Import Arith Lia.

Fixpoint flags_ok (first : bool) (segs : list seg) : Prop :=
  match segs with
  | [] => True
  | (ws, _, ty) :: r => retype (contains_byte 10 ws || first) ty = ty /\ flags_ok false r
  end.

Lemma lex_steps_flags : forall st toks l, lex_steps st toks l -> flags_ok (ls_first st) (segments toks l).
Proof.
  induction 1 as [st ws Hws|st ws b t n ty a toks Hws Hst Htok Hn Hrest IH].
  - cbn [segments flags_ok]. split; [reflexivity|exact I].
  - assert (Es : segments ((length ws, S n, ty) :: toks) (ws ++ b :: t) = (ws, b :: firstn n t, ty) :: segments toks (skipn n t)).
    { cbn [segments]. rewrite firstn_app_exact, skipn_app_exact. cbn [firstn]. f_equal.
      rewrite skipn_app. rewrite skipn_all2 by lia. cbn [app]. replace (length ws + S n - length ws)%nat with (S n) by lia. reflexivity. }
    rewrite Es. cbn [flags_ok]. split; [exact (lex_token_retype_same _ _ _ _ _ _ _ Htok)|exact IH].
Qed.

Lemma flags_ok_nth : forall segs first i ws c ty, flags_ok first segs -> nth_error segs i = Some (ws, c, ty) ->
  retype (contains_byte 10 ws || (if Nat.eqb i 0 then first else false)) ty = ty.
Proof.
  induction segs as [|[[w0 c0] t0] r IH]; intros first [|i] ws c ty H Hn; cbn in Hn; try discriminate.
  - injection Hn as -> -> ->. exact (proj1 H).
  - destruct H as [_ H]. pose proof (IH false i ws c ty H Hn) as E. destruct (Nat.eqb i 0); cbn [Nat.eqb]; exact E.
Qed.

(* in the scan of a text, the kind of token i is the kind its blanks give it *)
Theorem lexed_comment_flags s segs i ws c ty :
  lex_segments s = Some segs -> nth_error segs i = Some (ws, c, ty) ->
  retype (contains_byte 10 ws || Nat.eqb i 0) ty = ty.
Proof.
  unfold lex_segments. destruct (lex s) as [toks|] eqn:E; [|discriminate]. cbn [option_map]. intros H Hn. injection H as <-.
  pose proof (lex_steps_flags _ _ _ (lex_steps_sound s toks E)) as F. cbn [init_state ls_first] in F.
  pose proof (flags_ok_nth _ true i ws c ty F Hn) as R. destruct (Nat.eqb i 0); exact R.
Qed.

(* retype forgets the flag it overwrites *)
Lemma retype_retype a b ty : retype a (retype b ty) = retype a ty.
Proof. destruct ty as [| | | | | | | |k| |]; try reflexivity. destruct k, a, b; reflexivity. Qed.

Print Assumptions lexed_comment_flags.
