(* Proofs/GenericsProofs.v — properties of Model/Generics.v
   (core/src/rules/generics_consolidator.rs, DistinguishGenericTypeParamsConsolidator::consolidate) *)
From PasfmtVerif Require Import Model.Generics.
Local Open Scope nat_scope.

(* ================================================================== *)
(* 1. set_nth *)

Lemma set_nth_length i v l : length (set_nth i v l) = length l.
Proof.
  revert i. induction l as [|x r IH]; intros i; [reflexivity|].
  destruct i as [|i]; cbn [set_nth length]; [reflexivity|]. rewrite IH. reflexivity.
Qed.

Lemma nth_error_set_nth i v l j :
  nth_error (set_nth i v l) j =
  if i =? j then match nth_error l j with Some _ => Some v | None => None end
  else nth_error l j.
Proof.
  revert i j. induction l as [|x r IH]; intros i j.
  - cbn [set_nth]. destruct (i =? j); destruct j; reflexivity.
  - destruct i as [|i], j as [|j]; cbn [set_nth nth_error Nat.eqb]; try reflexivity. apply IH.
Qed.

Lemma nth_error_lt_length (l : list TokenType) i x : nth_error l i = Some x -> i < length l.
Proof. intros H. apply nth_error_Some. rewrite H. discriminate. Qed.

Lemma list_ext (l1 l2 : list TokenType) :
  (forall i, nth_error l1 i = nth_error l2 i) -> l1 = l2.
Proof.
  revert l2. induction l1 as [|x r IH]; intros l2 H.
  - destruct l2 as [|y s]; [reflexivity|]. specialize (H 0). discriminate.
  - destruct l2 as [|y s]; [specialize (H 0); discriminate|].
    pose proof (H 0) as H0. cbn in H0. injection H0 as ->. f_equal.
    apply IH. intros i. exact (H (S i)).
Qed.

(* ================================================================== *)
(* 2. the only change a token can undergo *)

(* b is a, or a is a chevron and b is the same chevron with kind Generic *)
Definition chev_step (a b : TokenType) : Prop :=
  b = a
  \/ (exists k, a = TT_Op (OK_LessThan k) /\ b = TT_Op (OK_LessThan ChK_Generic))
  \/ (exists k, a = TT_Op (OK_GreaterThan k) /\ b = TT_Op (OK_GreaterThan ChK_Generic)).

Lemma chev_step_refl a : chev_step a a.
Proof. left. reflexivity. Qed.

Lemma chev_step_trans a b c : chev_step a b -> chev_step b c -> chev_step a c.
Proof.
  intros [->|[[k [-> ->]]|[k [-> ->]]]] H; [exact H| |].
  - destruct H as [->|[[k' [_ ->]]|[k' [E _]]]]; [| |discriminate];
      right; left; exists k; split; reflexivity.
  - destruct H as [->|[[k' [E _]]|[k' [_ ->]]]]; [|discriminate|];
      right; right; exists k; split; reflexivity.
Qed.

Lemma Forall2_refl_chev l : Forall2 chev_step l l.
Proof. induction l; constructor; [apply chev_step_refl|assumption]. Qed.

Lemma Forall2_trans_chev l1 : forall l2 l3,
  Forall2 chev_step l1 l2 -> Forall2 chev_step l2 l3 -> Forall2 chev_step l1 l3.
Proof.
  induction l1 as [|a l1 IH]; intros l2 l3 H12 H23; inversion H12; subst; inversion H23; subst;
    constructor; [eapply chev_step_trans; eassumption|eapply IH; eassumption].
Qed.

Lemma Forall2_chev_length l1 l2 : Forall2 chev_step l1 l2 -> length l1 = length l2.
Proof. induction 1; cbn; congruence. Qed.

Lemma Forall2_chev_nth l1 l2 : Forall2 chev_step l1 l2 ->
  forall i a b, nth_error l1 i = Some a -> nth_error l2 i = Some b -> chev_step a b.
Proof.
  induction 1 as [|x y l1 l2 Hxy _ IH]; intros i a b Ha Hb.
  - destruct i; discriminate.
  - destruct i as [|i]; cbn in Ha, Hb; [congruence|eapply IH; eassumption].
Qed.

Lemma set_nth_chev l : forall i a v,
  nth_error l i = Some a -> chev_step a v -> Forall2 chev_step l (set_nth i v l).
Proof.
  induction l as [|x r IH]; intros i a v Ha Hs; [constructor|].
  destruct i as [|i]; cbn [set_nth]; cbn in Ha.
  - injection Ha as ->. constructor; [exact Hs|apply Forall2_refl_chev].
  - constructor; [apply chev_step_refl|eapply IH; eassumption].
Qed.

Lemma is_less_than_chev l1 l2 i :
  Forall2 chev_step l1 l2 ->
  is_less_than (nth_error l1 i) = true -> is_less_than (nth_error l2 i) = true.
Proof.
  intros H. revert i. induction H as [|x y l1 l2 Hxy _ IH]; intros i Hi.
  - destruct i; discriminate.
  - destruct i as [|i]; [|apply IH; exact Hi]. cbn in *.
    destruct Hxy as [->|[[k [-> ->]]|[k [-> ->]]]]; [exact Hi|reflexivity|discriminate].
Qed.

(* ================================================================== *)
(* 3. facts about the arm classifier *)

Lemma arm_of_none p bc : arm_of None p bc = A_Break.
Proof. reflexivity. Qed.

Lemma arm_of_some_or_break t p bc : arm_of t p bc <> A_Break -> exists ty, t = Some ty.
Proof. destruct t as [ty|]; [intros _; eexists; reflexivity|intros H; elim H; reflexivity]. Qed.

Ltac arm_cases t :=
  destruct t as [[op| |kw|tk|nk|cdk| |ck| |]|];
  [destruct op as [ | | | | | | | |ek| |chk| |chk| | | | | |cak| | | ] | | destruct kw | | | | | | | | ].

Lemma arm_of_lt t p bc : arm_of t p bc = A_Lt -> is_less_than t = true.
Proof.
  arm_cases t; cbn [arm_of is_less_than]; intros H; try reflexivity; try discriminate;
    repeat match type of H with context [if ?c then _ else _] => destruct c end; discriminate.
Qed.

Lemma arm_of_gt t p bc : arm_of t p bc = A_Gt -> exists k, t = Some (TT_Op (OK_GreaterThan k)).
Proof.
  arm_cases t; cbn [arm_of]; intros H; try discriminate;
    try (eexists; reflexivity);
    repeat match type of H with context [if ?c then _ else _] => destruct c end; discriminate.
Qed.

(* ================================================================== *)
(* 4. the inner loop: no panic, enough fuel, only chevrons change *)

Definition stack_ok (toks : list TokenType) (st : list (nat * nat)) : Prop :=
  Forall (fun p => is_less_than (nth_error toks (fst p)) = true) st.

Lemma stack_ok_chev l1 l2 st : Forall2 chev_step l1 l2 -> stack_ok l1 st -> stack_ok l2 st.
Proof.
  intros H Hs. unfold stack_ok in *. rewrite Forall_forall in *. intros p Hp.
  eapply is_less_than_chev; [exact H|apply Hs; exact Hp].
Qed.

Lemma rbrack_pop_forall (P : nat * nat -> Prop) st : forall bc,
  Forall P st -> Forall P (fst (rbrack_pop st bc)).
Proof.
  induction st as [|q r IH]; intros bc H; cbn [rbrack_pop]; [constructor|].
  destruct (snd q <? bc); cbn [fst]; [exact H|]. apply IH. inversion H; assumption.
Qed.

(* brack_count -= 1 is guarded: no underflow *)
Lemma rbrack_pop_no_underflow st : forall bc,
  snd (rbrack_pop st bc) = bc \/ (1 <= bc /\ snd (rbrack_pop st bc) = bc - 1).
Proof.
  induction st as [|q r IH]; intros bc; cbn [rbrack_pop]; [left; reflexivity|].
  destruct (snd q <? bc) eqn:E; [|apply IH].
  right. apply Nat.ltb_lt in E. split; [lia|reflexivity].
Qed.

Lemma is_less_than_lt toks i : is_less_than (nth_error toks i) = true -> i < length toks.
Proof.
  destruct (nth_error toks i) as [x|] eqn:E; [intros _; eapply nth_error_lt_length; exact E|discriminate].
Qed.

Lemma inner_ok : forall fuel toks st c p bc ni,
  stack_ok toks st -> ni <= length toks -> length toks < fuel + ni ->
  exists toks' ni',
    generics_inner fuel toks st c p bc ni = I_Done toks' ni'
    /\ Forall2 chev_step toks toks' /\ ni <= ni' /\ ni' <= length toks.
Proof.
  induction fuel as [|f IH]; intros toks st c p bc ni Hst Hni Hf.
  - destruct st as [|top rest]; cbn [generics_inner].
    + exists toks, ni. repeat split; [apply Forall2_refl_chev|lia|exact Hni].
    + lia.
  - destruct st as [|top rest]; cbn [generics_inner].
    + exists toks, ni. repeat split; [apply Forall2_refl_chev|lia|exact Hni].
    + destruct (arm_of (nth_error toks ni) p bc) eqn:Earm;
        try (assert (Hsome : exists ty, nth_error toks ni = Some ty)
               by (apply (arm_of_some_or_break _ p bc); rewrite Earm; discriminate);
             destruct Hsome as [ty Hty]; pose proof (nth_error_lt_length _ _ _ Hty) as Hlt).
      * (* A_Lt *)
        destruct (IH toks ((ni, bc) :: top :: rest) c (pws_next (nth_error toks ni) p) bc (S ni))
          as (t' & n' & E & R & L1 & L2); [|lia|lia|].
        { constructor; [|exact Hst]. cbn [fst]. eapply arm_of_lt. exact Earm. }
        exists t', n'. repeat split; [exact E|exact R|lia|exact L2].
      * (* A_Comma *)
        destruct (IH toks (top :: rest) true (pws_next (nth_error toks ni) p) bc (S ni))
          as (t' & n' & E & R & L1 & L2); [exact Hst|lia|lia|].
        exists t', n'. repeat split; [exact E|exact R|lia|exact L2].
      * (* A_Plain *)
        destruct (IH toks (top :: rest) c (pws_next (nth_error toks ni) p) bc (S ni))
          as (t' & n' & E & R & L1 & L2); [exact Hst|lia|lia|].
        exists t', n'. repeat split; [exact E|exact R|lia|exact L2].
      * (* A_Gt *)
        destruct (c && gt_blocked (nth_error toks (S ni))).
        { exists toks, ni. repeat split; [apply Forall2_refl_chev|lia|exact Hni]. }
        inversion Hst as [|? ? Htop Hrest]; subst.
        pose proof (is_less_than_lt _ _ Htop) as Hoi.
        apply Nat.ltb_lt in Hoi. apply Nat.ltb_lt in Hlt. rewrite Hoi, Hlt. cbn [andb].
        apply Nat.ltb_lt in Hlt.
        assert (R1 : Forall2 chev_step toks (set_nth (fst top) LT_G toks)).
        { destruct (nth_error toks (fst top)) as [a|] eqn:Ea; [|discriminate].
          eapply set_nth_chev; [exact Ea|].
          destruct a as [op| | | | | | | | |]; try discriminate. destruct op; try discriminate.
          right; left. eexists; split; reflexivity. }
        assert (R2 : Forall2 chev_step (set_nth (fst top) LT_G toks)
                       (set_nth ni GT_G (set_nth (fst top) LT_G toks))).
        { destruct (arm_of_gt _ _ _ Earm) as [k Hk].
          assert (Hk' : exists k', nth_error (set_nth (fst top) LT_G toks) ni
                                   = Some (TT_Op (OK_GreaterThan k'))).
          { rewrite nth_error_set_nth. destruct (fst top =? ni) eqn:Eq; [|exists k; exact Hk].
            apply Nat.eqb_eq in Eq. rewrite Eq, Hk in Htop. discriminate. }
          destruct Hk' as [k' Hk'].
          eapply set_nth_chev; [exact Hk'|]. right; right. eexists; split; reflexivity. }
        pose proof (Forall2_trans_chev _ _ _ R1 R2) as R12.
        destruct (IH (set_nth ni GT_G (set_nth (fst top) LT_G toks)) rest c
                     (pws_next (nth_error toks ni) p) (snd top) (S ni))
          as (t' & n' & E & R & L1 & L2).
        { eapply stack_ok_chev; [exact R12|exact Hrest]. }
        { rewrite !set_nth_length. lia. }
        { rewrite !set_nth_length. lia. }
        rewrite !set_nth_length in L2.
        exists t', n'. repeat split; [exact E|eapply Forall2_trans_chev; eassumption|lia|exact L2].
      * (* A_LBrack *)
        destruct (IH toks (top :: rest) c (pws_next (nth_error toks ni) p) (S bc) (S ni))
          as (t' & n' & E & R & L1 & L2); [exact Hst|lia|lia|].
        exists t', n'. repeat split; [exact E|exact R|lia|exact L2].
      * (* A_RBrack *)
        destruct (IH toks (fst (rbrack_pop (top :: rest) bc)) c (pws_next (nth_error toks ni) p)
                     (snd (rbrack_pop (top :: rest) bc)) (S ni))
          as (t' & n' & E & R & L1 & L2); [apply rbrack_pop_forall; exact Hst|lia|lia|].
        exists t', n'. repeat split; [exact E|exact R|lia|exact L2].
      * (* A_InBrack *)
        destruct (IH toks (top :: rest) c (pws_next (nth_error toks ni) p) bc (S ni))
          as (t' & n' & E & R & L1 & L2); [exact Hst|lia|lia|].
        exists t', n'. repeat split; [exact E|exact R|lia|exact L2].
      * (* A_Break *)
        exists toks, ni. repeat split; [apply Forall2_refl_chev|lia|exact Hni].
Qed.

(* ================================================================== *)
(* 5. the outer loop *)

Lemma outer_ok : forall fuel toks ti,
  length toks < fuel + ti ->
  exists r, generics_outer fuel toks ti = G_Ok r /\ Forall2 chev_step toks r.
Proof.
  induction fuel as [|f IH]; intros toks ti Hf.
  - cbn [generics_outer]. destruct (length toks <=? ti) eqn:E.
    + exists toks. split; [reflexivity|apply Forall2_refl_chev].
    + apply Nat.leb_gt in E. lia.
  - cbn [generics_outer]. destruct (length toks <=? ti) eqn:E.
    + exists toks. split; [reflexivity|apply Forall2_refl_chev].
    + apply Nat.leb_gt in E.
      destruct (is_less_than (nth_error toks ti)) eqn:Elt.
      * destruct (inner_ok (S (length toks)) toks [(ti, 0)] false false 0 (S ti))
          as (t' & n' & Ei & R & L1 & L2); [|lia|lia|].
        { constructor; [exact Elt|constructor]. }
        rewrite Ei. pose proof (Forall2_chev_length _ _ R) as Hlen.
        destruct (IH t' n') as (r & Er & Rr); [lia|].
        exists r. split; [exact Er|eapply Forall2_trans_chev; eassumption].
      * destruct (IH toks (S ti)) as (r & Er & Rr); [lia|].
        exists r. split; [exact Er|exact Rr].
Qed.

(* fuel is never exhausted and the Rust never panics (no `unwrap` on an empty stack, no index out of
   range) *)
Theorem generics_total l : exists r, generics_run l = G_Ok r.
Proof.
  destruct (outer_ok (S (length l)) l 0) as (r & E & _); [lia|]. exists r. exact E.
Qed.

Theorem generics_run_consolidate l : generics_run l = G_Ok (generics_consolidate l).
Proof. unfold generics_consolidate. destruct (generics_total l) as [r ->]. reflexivity. Qed.

Theorem generics_chev l : Forall2 chev_step l (generics_consolidate l).
Proof.
  destruct (outer_ok (S (length l)) l 0) as (r & E & R); [lia|].
  unfold generics_consolidate, generics_run. rewrite E. exact R.
Qed.

Theorem generics_length l : length (generics_consolidate l) = length l.
Proof. symmetry. apply Forall2_chev_length, generics_chev. Qed.

(* position i changes only if it held `<` or `>` (of either kind), and then it holds the same
   operator with kind Generic *)
Theorem generics_only_chevrons l i a b :
  nth_error l i = Some a -> nth_error (generics_consolidate l) i = Some b ->
  a <> b ->
  (exists k, a = TT_Op (OK_LessThan k) /\ b = TT_Op (OK_LessThan ChK_Generic))
  \/ (exists k, a = TT_Op (OK_GreaterThan k) /\ b = TT_Op (OK_GreaterThan ChK_Generic)).
Proof.
  intros Ha Hb Hne.
  destruct (Forall2_chev_nth _ _ (generics_chev l) i a b Ha Hb) as [E|[H|H]];
    [elim Hne; symmetry; exact E|left; exact H|right; exact H].
Qed.

Definition is_chevron (t : TokenType) : bool :=
  match t with TT_Op (OK_LessThan _ | OK_GreaterThan _) => true | _ => false end.

(* every token that is not a chevron is left alone *)
Corollary generics_non_chevron_fixed l i a :
  nth_error l i = Some a -> is_chevron a = false ->
  nth_error (generics_consolidate l) i = Some a.
Proof.
  intros Ha Hc.
  destruct (nth_error (generics_consolidate l) i) as [b|] eqn:Hb.
  - destruct (Forall2_chev_nth _ _ (generics_chev l) i a b Ha Hb) as [->|[[k [-> _]]|[k [-> _]]]];
      [reflexivity|discriminate|discriminate].
  - apply nth_error_None in Hb. rewrite generics_length in Hb.
    apply nth_error_lt_length in Ha. lia.
Qed.

(* a chevron that is already Generic stays Generic: the pass never un-marks *)
Corollary generics_generic_fixed l i a :
  nth_error l i = Some a -> (a = LT_G \/ a = GT_G) ->
  nth_error (generics_consolidate l) i = Some a.
Proof.
  intros Ha Hg.
  destruct (nth_error (generics_consolidate l) i) as [b|] eqn:Hb.
  - destruct (Forall2_chev_nth _ _ (generics_chev l) i a b Ha Hb) as [->|[[k [-> ->]]|[k [-> ->]]]];
      [reflexivity| |]; destruct Hg as [Hg|Hg]; try discriminate; rewrite Hg; reflexivity.
  - apply nth_error_None in Hb. rewrite generics_length in Hb.
    apply nth_error_lt_length in Ha. lia.
Qed.

(* ================================================================== *)
(* 6. the control flow never looks at the chevron KIND: lockstep on lists equal up to kinds *)

Definition erase (t : TokenType) : TokenType :=
  match t with
  | TT_Op (OK_LessThan _) => TT_Op (OK_LessThan ChK_Comp)
  | TT_Op (OK_GreaterThan _) => TT_Op (OK_GreaterThan ChK_Comp)
  | _ => t
  end.

Lemma arm_of_erase t p bc : arm_of (option_map erase t) p bc = arm_of t p bc.
Proof. arm_cases t; reflexivity. Qed.

Lemma gt_blocked_erase t : gt_blocked (option_map erase t) = gt_blocked t.
Proof. arm_cases t; reflexivity. Qed.

Lemma pws_next_erase t p : pws_next (option_map erase t) p = pws_next t p.
Proof. arm_cases t; reflexivity. Qed.

Lemma is_less_than_erase t : is_less_than (option_map erase t) = is_less_than t.
Proof. arm_cases t; reflexivity. Qed.

Lemma chev_step_erase a b : chev_step a b -> erase a = erase b.
Proof. intros [->|[[k [-> ->]]|[k [-> ->]]]]; reflexivity. Qed.

Lemma Forall2_chev_erase l1 l2 : Forall2 chev_step l1 l2 -> map erase l1 = map erase l2.
Proof. induction 1 as [|x y l1 l2 Hxy _ IH]; cbn [map]; [reflexivity|]. rewrite IH, (chev_step_erase _ _ Hxy). reflexivity. Qed.

Lemma map_erase_set_nth l : forall i v, map erase (set_nth i v l) = set_nth i (erase v) (map erase l).
Proof.
  induction l as [|x r IH]; intros i v; [reflexivity|].
  destruct i as [|i]; cbn [set_nth map]; [reflexivity|]. rewrite IH. reflexivity.
Qed.

Lemma erase_read t1 t2 i :
  map erase t1 = map erase t2 ->
  option_map erase (nth_error t1 i) = option_map erase (nth_error t2 i).
Proof. intros H. rewrite <- !nth_error_map, H. reflexivity. Qed.

(* a log of absolute writes tokens[i] = v, oldest first *)
Fixpoint apply_w (W : list (nat * TokenType)) (l : list TokenType) : list TokenType :=
  match W with
  | [] => l
  | w :: W' => apply_w W' (set_nth (fst w) (snd w) l)
  end.

Lemma apply_w_app W1 W2 l : apply_w (W1 ++ W2) l = apply_w W2 (apply_w W1 l).
Proof. revert l. induction W1 as [|w W1 IH]; intros l; cbn [app apply_w]; [reflexivity|apply IH]. Qed.

(* the two runs take the same decisions, stop at the same index and perform the same writes *)
Definition sim_ires (t1 t2 : list TokenType) (x y : ires) : Prop :=
  match x, y with
  | I_Done r1 n1, I_Done r2 n2 => n1 = n2 /\ exists W, r1 = apply_w W t1 /\ r2 = apply_w W t2
  | I_Fuel, I_Fuel => True
  | I_Panic, I_Panic => True
  | _, _ => False
  end.

Lemma sim_ires_done t1 t2 n : sim_ires t1 t2 (I_Done t1 n) (I_Done t2 n).
Proof. split; [reflexivity|]. exists []. split; reflexivity. Qed.

Lemma inner_lockstep : forall fuel t1 t2 st c p bc ni,
  map erase t1 = map erase t2 ->
  sim_ires t1 t2 (generics_inner fuel t1 st c p bc ni) (generics_inner fuel t2 st c p bc ni).
Proof.
  induction fuel as [|f IH]; intros t1 t2 st c p bc ni He.
  - destruct st; cbn [generics_inner]; [apply sim_ires_done|exact I].
  - destruct st as [|top rest]; cbn [generics_inner]; [apply sim_ires_done|].
    pose proof (erase_read t1 t2 ni He) as Hr.
    pose proof (erase_read t1 t2 (S ni) He) as Hr1.
    assert (Hlen : length t1 = length t2) by (rewrite <- (map_length erase t1), He; apply map_length).
    rewrite <- (arm_of_erase (nth_error t1 ni)), <- (pws_next_erase (nth_error t1 ni)),
            <- (gt_blocked_erase (nth_error t1 (S ni))), Hr, Hr1,
            arm_of_erase, pws_next_erase, gt_blocked_erase, Hlen.
    destruct (arm_of (nth_error t2 ni) p bc); try (apply IH; exact He); try apply sim_ires_done.
    destruct (c && gt_blocked (nth_error t2 (S ni))); [apply sim_ires_done|].
    destruct ((fst top <? length t2) && (ni <? length t2)); [|exact I].
    specialize (IH (set_nth ni GT_G (set_nth (fst top) LT_G t1))
                   (set_nth ni GT_G (set_nth (fst top) LT_G t2))
                   rest c (pws_next (nth_error t2 ni) p) (snd top) (S ni)).
    rewrite !map_erase_set_nth, He in IH. specialize (IH eq_refl).
    unfold sim_ires in *.
    destruct (generics_inner f (set_nth ni GT_G (set_nth (fst top) LT_G t1)) rest c
                (pws_next (nth_error t2 ni) p) (snd top) (S ni)) as [r1 n1| |];
    destruct (generics_inner f (set_nth ni GT_G (set_nth (fst top) LT_G t2)) rest c
                (pws_next (nth_error t2 ni) p) (snd top) (S ni)) as [r2 n2| |];
      try exact IH.
    destruct IH as [En [W [E1 E2]]]. split; [exact En|].
    exists ((fst top, LT_G) :: (ni, GT_G) :: W). cbn [apply_w fst snd]. split; assumption.
Qed.

Definition sim_gres (t1 t2 : list TokenType) (x y : gres) : Prop :=
  match x, y with
  | G_Ok r1, G_Ok r2 => exists W, r1 = apply_w W t1 /\ r2 = apply_w W t2
  | G_Fuel, G_Fuel => True
  | G_Panic, G_Panic => True
  | _, _ => False
  end.

Lemma apply_w_erase W : forall t1 t2,
  map erase t1 = map erase t2 -> map erase (apply_w W t1) = map erase (apply_w W t2).
Proof.
  induction W as [|w W IH]; intros t1 t2 He; cbn [apply_w]; [exact He|].
  apply IH. rewrite !map_erase_set_nth, He. reflexivity.
Qed.

Lemma outer_lockstep : forall fuel t1 t2 ti,
  map erase t1 = map erase t2 ->
  sim_gres t1 t2 (generics_outer fuel t1 ti) (generics_outer fuel t2 ti).
Proof.
  induction fuel as [|f IH]; intros t1 t2 ti He;
    assert (Hlen : length t1 = length t2) by (rewrite <- (map_length erase t1), He; apply map_length);
    cbn [generics_outer]; rewrite Hlen.
  - destruct (length t2 <=? ti); [exists []; split; reflexivity|exact I].
  - destruct (length t2 <=? ti); [exists []; split; reflexivity|].
    rewrite <- (is_less_than_erase (nth_error t1 ti)), (erase_read t1 t2 ti He), is_less_than_erase.
    destruct (is_less_than (nth_error t2 ti)); [|apply IH; exact He].
    pose proof (inner_lockstep (S (length t2)) t1 t2 [(ti, 0)] false false 0 (S ti) He) as Hi.
    unfold sim_ires in Hi.
    destruct (generics_inner (S (length t2)) t1 [(ti, 0)] false false 0 (S ti)) as [r1 n1| |];
    destruct (generics_inner (S (length t2)) t2 [(ti, 0)] false false 0 (S ti)) as [r2 n2| |];
      try contradiction; try exact I.
    destruct Hi as [<- [W [-> ->]]].
    specialize (IH (apply_w W t1) (apply_w W t2) n1 (apply_w_erase W _ _ He)).
    unfold sim_gres in *.
    destruct (generics_outer f (apply_w W t1) n1) as [s1| |];
    destruct (generics_outer f (apply_w W t2) n1) as [s2| |]; try exact IH.
    destruct IH as [W' [-> ->]]. exists (W ++ W'). rewrite !apply_w_app. split; reflexivity.
Qed.

(* replaying a write log on its own result changes nothing *)
Fixpoint last_write (W : list (nat * TokenType)) (i : nat) : option TokenType :=
  match W with
  | [] => None
  | w :: W' =>
      match last_write W' i with
      | Some v => Some v
      | None => if fst w =? i then Some (snd w) else None
      end
  end.

Lemma nth_error_apply_w W : forall l i,
  nth_error (apply_w W l) i =
  match nth_error l i with
  | None => None
  | Some a => Some (match last_write W i with Some v => v | None => a end)
  end.
Proof.
  induction W as [|w W IH]; intros l i; cbn [apply_w last_write].
  - destruct (nth_error l i); reflexivity.
  - rewrite IH, nth_error_set_nth.
    destruct (fst w =? i); destruct (nth_error l i); destruct (last_write W i); reflexivity.
Qed.

Lemma apply_w_idem W l : apply_w W (apply_w W l) = apply_w W l.
Proof.
  apply list_ext. intros i. rewrite !nth_error_apply_w.
  destruct (nth_error l i); [|reflexivity]. destruct (last_write W i); reflexivity.
Qed.

(* lists that differ only in chevron kinds are processed identically: same writes *)
Theorem generics_kind_blind l1 l2 :
  map erase l1 = map erase l2 ->
  exists W, generics_consolidate l1 = apply_w W l1 /\ generics_consolidate l2 = apply_w W l2.
Proof.
  intros He. pose proof (outer_lockstep (S (length l2)) l1 l2 0 He) as H.
  assert (Hlen : length l1 = length l2) by (rewrite <- (map_length erase l1), He; apply map_length).
  assert (E1 : generics_outer (S (length l2)) l1 0 = G_Ok (generics_consolidate l1))
    by (rewrite <- Hlen; apply generics_run_consolidate).
  assert (E2 : generics_outer (S (length l2)) l2 0 = G_Ok (generics_consolidate l2))
    by apply generics_run_consolidate.
  rewrite E1, E2 in H. exact H.
Qed.

(* running the consolidator on its own output changes nothing *)
Theorem generics_idempotent l :
  generics_consolidate (generics_consolidate l) = generics_consolidate l.
Proof.
  destruct (generics_kind_blind l (generics_consolidate l)) as [W [E1 E2]].
  - apply Forall2_chev_erase, generics_chev.
  - rewrite E2, E1. apply apply_w_idem.
Qed.

(* the result does not depend on the chevron kinds of the input either: pre-marked input gives the
   same marks plus the ones already there *)
Corollary generics_erase l : map erase (generics_consolidate l) = map erase l.
Proof. symmetry. apply Forall2_chev_erase, generics_chev. Qed.

(* ================================================================== *)
(* 7. balance: on input without Generic chevrons (what the lexer and parser produce) every write
      pair marks one fresh `<` and one fresh `>` *)

Definition is_generic (t : TokenType) : bool :=
  match t with TT_Op (OK_LessThan ChK_Generic | OK_GreaterThan ChK_Generic) => true | _ => false end.

Definition LT_C : TokenType := TT_Op (OK_LessThan ChK_Comp).
Definition GT_C : TokenType := TT_Op (OK_GreaterThan ChK_Comp).

Definition count_ty (x : TokenType) (l : list TokenType) : nat :=
  length (filter (TokenType_eqb x) l).

Definition b2n (b : bool) : nat := if b then 1 else 0.

Lemma count_set_nth x l : forall i a v,
  nth_error l i = Some a ->
  count_ty x (set_nth i v l) + b2n (TokenType_eqb x a) = count_ty x l + b2n (TokenType_eqb x v).
Proof.
  unfold count_ty. induction l as [|y r IH]; intros i a v Ha; [destruct i; discriminate|].
  destruct i as [|i]; cbn [set_nth filter]; cbn in Ha.
  - injection Ha as ->. destruct (TokenType_eqb x v), (TokenType_eqb x a); cbn [length b2n]; lia.
  - specialize (IH i a v Ha). destruct (TokenType_eqb x y); cbn [length]; lia.
Qed.

(* strictly descending stack of open indices, all below n *)
Fixpoint desc (n : nat) (st : list (nat * nat)) : Prop :=
  match st with
  | [] => True
  | p :: r => fst p < n /\ desc (fst p) r
  end.

Lemma desc_weaken st : forall n m, n <= m -> desc n st -> desc m st.
Proof. destruct st as [|p r]; intros n m Hnm H; cbn [desc] in *; [exact I|]. destruct H. split; [lia|assumption]. Qed.

Lemma desc_forall st : forall n, desc n st -> Forall (fun p => fst p < n) st.
Proof.
  induction st as [|p r IH]; intros n H; [constructor|]. cbn [desc] in H. destruct H as [H1 H2].
  constructor; [exact H1|]. specialize (IH _ H2). rewrite Forall_forall in *. intros q Hq.
  specialize (IH q Hq). lia.
Qed.

Lemma rbrack_pop_desc st : forall n bc, desc n st -> desc n (fst (rbrack_pop st bc)).
Proof.
  induction st as [|q r IH]; intros n bc H; cbn [rbrack_pop]; [exact I|].
  destruct (snd q <? bc); cbn [fst]; [exact H|]. cbn [desc] in H. destruct H as [H1 H2].
  apply IH. eapply desc_weaken; [|exact H2]. lia.
Qed.

Definition holds_ltc (toks : list TokenType) (p : nat * nat) : Prop :=
  nth_error toks (fst p) = Some LT_C.

(* no Generic chevron at index >= n *)
Definition tail_clean (toks : list TokenType) (n : nat) : Prop :=
  forall j a, n <= j -> nth_error toks j = Some a -> is_generic a = false.

Lemma tail_clean_weaken toks n m : n <= m -> tail_clean toks n -> tail_clean toks m.
Proof. intros Hnm H j a Hj. apply H. lia. Qed.

Lemma inner_balanced : forall fuel toks st c p bc ni toks' ni',
  desc ni st -> Forall (holds_ltc toks) st -> tail_clean toks ni ->
  generics_inner fuel toks st c p bc ni = I_Done toks' ni' ->
  count_ty LT_G toks' + count_ty GT_G toks = count_ty GT_G toks' + count_ty LT_G toks
  /\ tail_clean toks' ni'.
Proof.
  induction fuel as [|f IH]; intros toks st c p bc ni toks' ni' Hd Hh Hc E.
  - destruct st; cbn [generics_inner] in E; [|discriminate].
    injection E as <- <-. split; [lia|exact Hc].
  - destruct st as [|top rest]; cbn [generics_inner] in E.
    { injection E as <- <-. split; [lia|exact Hc]. }
    destruct (arm_of (nth_error toks ni) p bc) eqn:Earm.
    + (* A_Lt *)
      apply (IH _ _ _ _ _ _ _ _) in E; [exact E| | |eapply tail_clean_weaken; [|exact Hc]; lia].
      * cbn [desc fst]. split; [lia|exact Hd].
      * constructor; [|exact Hh]. unfold holds_ltc. cbn [fst].
        pose proof (arm_of_lt _ _ _ Earm) as Hlt.
        destruct (nth_error toks ni) as [a|] eqn:Ea; [|discriminate].
        pose proof (Hc ni a (le_n _) Ea) as Hg.
        destruct a as [op| | | | | | | | |]; try discriminate. destruct op as [ | | | | | | | | | |k| | | | | | | | | | | ]; try discriminate.
        destruct k; [discriminate|reflexivity].
    + apply (IH _ _ _ _ _ _ _ _) in E; [exact E| |exact Hh|eapply tail_clean_weaken; [|exact Hc]; lia].
      eapply desc_weaken; [|exact Hd]. lia.
    + apply (IH _ _ _ _ _ _ _ _) in E; [exact E| |exact Hh|eapply tail_clean_weaken; [|exact Hc]; lia].
      eapply desc_weaken; [|exact Hd]. lia.
    + (* A_Gt *)
      destruct (c && gt_blocked (nth_error toks (S ni))).
      { injection E as <- <-. split; [lia|exact Hc]. }
      destruct ((fst top <? length toks) && (ni <? length toks)); [|discriminate].
      cbn [desc] in Hd. destruct Hd as [Htop Hd].
      inversion Hh as [|? ? Hhtop Hhrest]; subst. unfold holds_ltc in Hhtop.
      destruct (arm_of_gt _ _ _ Earm) as [k Hk].
      assert (Hkc : k = ChK_Comp).
      { pose proof (Hc ni _ (le_n _) Hk) as Hg. destruct k; [discriminate|reflexivity]. }
      subst k.
      set (t1 := set_nth (fst top) LT_G toks) in *.
      set (t2 := set_nth ni GT_G t1) in *.
      assert (Hk1 : nth_error t1 ni = Some GT_C).
      { unfold t1. rewrite nth_error_set_nth. destruct (fst top =? ni) eqn:Eq; [|exact Hk].
        apply Nat.eqb_eq in Eq. lia. }
      pose proof (count_set_nth LT_G toks _ _ LT_G Hhtop) as C1.
      pose proof (count_set_nth GT_G toks _ _ LT_G Hhtop) as C2.
      pose proof (count_set_nth LT_G t1 _ _ GT_G Hk1) as C3.
      pose proof (count_set_nth GT_G t1 _ _ GT_G Hk1) as C4.
      fold t1 in C1, C2. fold t2 in C3, C4.
      change (TokenType_eqb LT_G LT_C) with false in C1.
      change (TokenType_eqb LT_G LT_G) with true in C1.
      change (TokenType_eqb GT_G LT_C) with false in C2.
      change (TokenType_eqb GT_G LT_G) with false in C2.
      change (TokenType_eqb LT_G GT_C) with false in C3.
      change (TokenType_eqb LT_G GT_G) with false in C3.
      change (TokenType_eqb GT_G GT_C) with false in C4.
      change (TokenType_eqb GT_G GT_G) with true in C4.
      cbn [b2n] in C1, C2, C3, C4.
      apply (IH _ _ _ _ _ _ _ _) in E.
      * destruct E as [E1 E2]. split; [lia|exact E2].
      * eapply desc_weaken; [|exact Hd]. lia.
      * pose proof (desc_forall _ _ Hd) as Hlt. rewrite Forall_forall in *.
        intros q Hq. unfold holds_ltc, t2, t1. rewrite !nth_error_set_nth.
        specialize (Hlt q Hq). specialize (Hhrest q Hq). unfold holds_ltc in Hhrest.
        destruct (ni =? fst q) eqn:E1; [apply Nat.eqb_eq in E1; lia|].
        destruct (fst top =? fst q) eqn:E2; [apply Nat.eqb_eq in E2; lia|]. exact Hhrest.
      * intros j a Hj Ha. unfold t2, t1 in Ha. rewrite !nth_error_set_nth in Ha.
        destruct (ni =? j) eqn:E1; [apply Nat.eqb_eq in E1; lia|].
        destruct (fst top =? j) eqn:E2; [apply Nat.eqb_eq in E2; lia|].
        apply (Hc j a); [lia|exact Ha].
    + apply (IH _ _ _ _ _ _ _ _) in E; [exact E| |exact Hh|eapply tail_clean_weaken; [|exact Hc]; lia].
      eapply desc_weaken; [|exact Hd]. lia.
    + (* A_RBrack *)
      apply (IH _ _ _ _ _ _ _ _) in E; [exact E| | |eapply tail_clean_weaken; [|exact Hc]; lia].
      * apply rbrack_pop_desc. eapply desc_weaken; [|exact Hd]. lia.
      * apply rbrack_pop_forall. exact Hh.
    + apply (IH _ _ _ _ _ _ _ _) in E; [exact E| |exact Hh|eapply tail_clean_weaken; [|exact Hc]; lia].
      eapply desc_weaken; [|exact Hd]. lia.
    + injection E as <- <-. split; [lia|exact Hc].
Qed.

Lemma outer_balanced : forall fuel toks ti r,
  tail_clean toks ti -> generics_outer fuel toks ti = G_Ok r ->
  count_ty LT_G r + count_ty GT_G toks = count_ty GT_G r + count_ty LT_G toks.
Proof.
  induction fuel as [|f IH]; intros toks ti r Hc E; cbn [generics_outer] in E.
  - destruct (length toks <=? ti); [|discriminate]. injection E as <-. lia.
  - destruct (length toks <=? ti); [injection E as <-; lia|].
    destruct (is_less_than (nth_error toks ti)) eqn:Elt.
    + destruct (generics_inner (S (length toks)) toks [(ti, 0)] false false 0 (S ti))
        as [t' n'| |] eqn:Ei; try discriminate.
      apply inner_balanced in Ei.
      * destruct Ei as [B1 C1]. specialize (IH t' n' r C1 E). lia.
      * cbn [desc fst]. split; [lia|exact I].
      * constructor; [|constructor]. unfold holds_ltc. cbn [fst].
        destruct (nth_error toks ti) as [a|] eqn:Ea; [|discriminate].
        pose proof (Hc ti a (le_n _) Ea) as Hg.
        destruct a as [op| | | | | | | | |]; try discriminate.
        destruct op as [ | | | | | | | | | |k| | | | | | | | | | | ]; try discriminate.
        destruct k; [discriminate|reflexivity].
      * eapply tail_clean_weaken; [|exact Hc]. lia.
    + apply (IH toks (S ti) r); [|exact E]. eapply tail_clean_weaken; [|exact Hc]. lia.
Qed.

Definition no_generic (l : list TokenType) : bool := forallb (fun t => negb (is_generic t)) l.

Lemma count_ty_zero x l : (forall a, In a l -> TokenType_eqb x a = false) -> count_ty x l = 0.
Proof.
  unfold count_ty. induction l as [|y r IH]; intros H; [reflexivity|]. cbn [filter].
  rewrite (H y (or_introl eq_refl)). apply IH. intros a Ha. apply H. right. exact Ha.
Qed.

(* if the input has no Generic chevron, the output has as many Generic `<` as Generic `>` *)
Theorem generics_balanced l :
  no_generic l = true ->
  count_ty LT_G (generics_consolidate l) = count_ty GT_G (generics_consolidate l).
Proof.
  intros Hn. unfold no_generic in Hn. rewrite forallb_forall in Hn.
  pose proof (generics_run_consolidate l) as E. unfold generics_run in E.
  apply outer_balanced in E.
  - assert (Z1 : count_ty LT_G l = 0).
    { apply count_ty_zero. intros a Ha. specialize (Hn a Ha).
      destruct (TokenType_eqb LT_G a) eqn:Eq; [|reflexivity].
      apply TokenType_eqb_eq in Eq. subst a. discriminate. }
    assert (Z2 : count_ty GT_G l = 0).
    { apply count_ty_zero. intros a Ha. specialize (Hn a Ha).
      destruct (TokenType_eqb GT_G a) eqn:Eq; [|reflexivity].
      apply TokenType_eqb_eq in Eq. subst a. discriminate. }
    lia.
  - intros j a _ Ha. apply nth_error_In in Ha. specialize (Hn a Ha).
    apply negb_true_iff in Hn. exact Hn.
Qed.

(* without the hypothesis the counts can differ: a pre-marked `<` closed by an unmarked `>` *)
Theorem generics_balanced_unconditional_refuted :
  exists l, count_ty LT_G (generics_consolidate l) - count_ty LT_G l
            <> count_ty GT_G (generics_consolidate l) - count_ty GT_G l.
Proof. exists [TT_Identifier; LT_G; TT_Identifier; GT_C]. vm_compute. discriminate. Qed.

(* ================================================================== *)
(* 8. examples (token types as the parser delivers them; checked against the harness binary) *)

Definition ID : TokenType := TT_Identifier.
Definition COMMA : TokenType := TT_Op OK_Comma.
Definition STRING : TokenType := TT_Keyword KK_String.
Definition NUM : TokenType := TT_NumberLiteral NK_Decimal.
Definition LP : TokenType := TT_Op OK_LParen.
Definition RP : TokenType := TT_Op OK_RParen.
Definition LB : TokenType := TT_Op OK_LBrack.
Definition RB : TokenType := TT_Op OK_RBrack.

(* TList<Integer> *)
Example ex_tlist :
  generics_consolidate [ID; LT_C; ID; GT_C] = [ID; LT_G; ID; GT_G].
Proof. reflexivity. Qed.

(* TDictionary<string, TFoo> *)
Example ex_tdictionary :
  generics_consolidate [ID; LT_C; STRING; COMMA; ID; GT_C] = [ID; LT_G; STRING; COMMA; ID; GT_G].
Proof. reflexivity. Qed.

(* Foo(X < Y, U > V) — two comparisons *)
Example ex_two_comparisons :
  generics_consolidate [ID; LP; ID; LT_C; ID; COMMA; ID; GT_C; ID; RP]
  = [ID; LP; ID; LT_C; ID; COMMA; ID; GT_C; ID; RP].
Proof. reflexivity. Qed.

(* A<string[10]> *)
Example ex_short_string :
  generics_consolidate [ID; LT_C; STRING; LB; NUM; RB; GT_C] = [ID; LT_G; STRING; LB; NUM; RB; GT_G].
Proof. reflexivity. Qed.

(* if a < b then *)
Example ex_comparison :
  generics_consolidate [TT_Keyword KK_If; ID; LT_C; ID; TT_Keyword KK_Then]
  = [TT_Keyword KK_If; ID; LT_C; ID; TT_Keyword KK_Then].
Proof. reflexivity. Qed.

(* TFoo<TBar<Integer>> *)
Example ex_nested :
  generics_consolidate [ID; LT_C; ID; LT_C; ID; GT_C; GT_C] = [ID; LT_G; ID; LT_G; ID; GT_G; GT_G].
Proof. reflexivity. Qed.

(* A<B, C<D>; — the outer `<` is never closed, the inner pair is still marked *)
Example ex_unterminated :
  generics_consolidate [ID; LT_C; ID; COMMA; ID; LT_C; ID; GT_C; TT_Op OK_Semicolon; TT_Eof]
  = [ID; LT_C; ID; COMMA; ID; LT_G; ID; GT_G; TT_Op OK_Semicolon; TT_Eof].
Proof. reflexivity. Qed.

(* A<string[B<C]> — the `]` discards the inner `<` (the while-let loop pops it) *)
Example ex_rbrack_pops :
  generics_consolidate [ID; LT_C; STRING; LB; ID; LT_C; ID; RB; GT_C]
  = [ID; LT_G; STRING; LB; ID; LT_C; ID; RB; GT_G].
Proof. reflexivity. Qed.

(* A<B<string[2]]>> — at the stray `]` brack_count is 0 again: `_ => break`, nothing is marked *)
Example ex_stray_rbrack :
  generics_consolidate [ID; LT_C; ID; LT_C; STRING; LB; NUM; RB; RB; GT_C; GT_C]
  = [ID; LT_C; ID; LT_C; STRING; LB; NUM; RB; RB; GT_C; GT_C].
Proof. reflexivity. Qed.

(* FINDING: the look-ahead after `>` inspects the very next token, comments included.
   Foo(X < Y, U > V) is two comparisons, Foo(X < Y, U > {c} V) is typed as a generic argument list
   (the binary then prints `Foo(X<Y, U> {c} V)`). *)
Example ex_comment_defeats_lookahead :
  generics_consolidate [ID; LP; ID; LT_C; ID; COMMA; ID; GT_C; TT_Comment CoK_InlineBlock; ID; RP]
  = [ID; LP; ID; LT_G; ID; COMMA; ID; GT_G; TT_Comment CoK_InlineBlock; ID; RP].
Proof. reflexivity. Qed.

(* non-vacuity of the hypotheses used above *)
Example ex_only_chevrons_hyp :
  nth_error [ID; LT_C; ID; GT_C] 1 = Some LT_C
  /\ nth_error (generics_consolidate [ID; LT_C; ID; GT_C]) 1 = Some LT_G /\ LT_C <> LT_G.
Proof. repeat split; try reflexivity. discriminate. Qed.

Example ex_balanced_hyp :
  no_generic [ID; LT_C; ID; LT_C; ID; GT_C; GT_C] = true
  /\ count_ty LT_G (generics_consolidate [ID; LT_C; ID; LT_C; ID; GT_C; GT_C]) = 2.
Proof. split; reflexivity. Qed.

Example ex_kind_blind_hyp :
  map erase [ID; LT_G; ID; GT_C] = map erase [ID; LT_C; ID; GT_G].
Proof. reflexivity. Qed.

Example ex_fixed_hyp :
  nth_error [ID; LT_C; ID; GT_C] 0 = Some ID /\ is_chevron ID = false.
Proof. split; reflexivity. Qed.

Print Assumptions generics_total.
Print Assumptions generics_length.
Print Assumptions generics_only_chevrons.
Print Assumptions generics_idempotent.
Print Assumptions generics_kind_blind.
Print Assumptions generics_balanced.

Example ex_generic_fixed_hyp :
  nth_error [ID; LT_G; ID; TT_Op OK_Semicolon] 1 = Some LT_G
  /\ nth_error (generics_consolidate [ID; LT_G; ID; TT_Op OK_Semicolon]) 1 = Some LT_G.
Proof. split; reflexivity. Qed.
