(* Proofs/WrapPhasesProofs.v — the child_line_cache stays sound across the two phases: the views of phase 2 differ
   from those of phase 1 only in lengths (token types, lines and therefore invariants are the same), and sol_deep
   reads the views only through the invariants (sol_deep_transfer, cache_ok_transfer, mk_lviews_equiv,
   phase2_events_ok). *)
From PasfmtVerif Require Import Model.WrapSearch Model.WrapFormat Proofs.WrapSearchProofs Proofs.WrapSearchDeepProofs Proofs.WrapEventsProofs.
From Coq Require Import Lia.

Definition rec_key (r : trec) := (tr_gidx r, tr_inv r).
Definition view_equiv (a b : lview) : Prop := map rec_key (lv_recs a) = map rec_key (lv_recs b).
Definition views_equiv (l1 l2 : list lview) : Prop := Forall2 view_equiv l1 l2.

Lemma Forall2_map_key (R : option DecisionRequirement -> tdec -> Prop) : forall rs1 rs2 ds,
  map rec_key rs1 = map rec_key rs2 -> Forall2 (fun r t => R (tr_inv r) t) rs1 ds -> Forall2 (fun r t => R (tr_inv r) t) rs2 ds.
Proof.
  induction rs1 as [|a r1 IH]; intros [|b r2] ds E H; try discriminate; [exact H|].
  simpl in E. inversion E as [[Eg Ei E2]]. inversion H as [|? t ? ds' H1 H2]; subst. constructor; [|apply IH; assumption].
  rewrite <- Ei. exact H1.
Qed.

Lemma sol_top_transfer lv1 lv2 s : view_equiv lv1 lv2 -> sol_top lv1 s -> sol_top lv2 s.
Proof.
  unfold view_equiv. intros E (first & H). exists first.
  destruct (lv_recs lv1) as [|r1 rest1] eqn:E1; destruct (lv_recs lv2) as [|r2 rest2] eqn:E2; try discriminate; [exact H|].
  destruct H as (H1 & H2). pose proof E as E'. simpl in E'. inversion E' as [[Eg Einv Er]].
  split.
  - rewrite E2. rewrite E1 in H1. eapply (Forall2_map_key (fun i t => dec_respects i (td_dec t))); [exact E|exact H1].
  - first [exact H2 | rewrite <- Einv; exact H2 | rewrite Einv; exact H2].
Qed.

Lemma views_equiv_nth l1 l2 : views_equiv l1 l2 -> forall k lv1, nth_error l1 k = Some lv1 ->
  exists lv2, nth_error l2 k = Some lv2 /\ view_equiv lv1 lv2.
Proof.
  induction 1 as [|a b r1 r2 Hab H IH]; intros k lv1 E; [destruct k; discriminate|].
  destruct k as [|k]; cbn [nth_error] in *; [injection E as <-; exists b; split; [reflexivity|exact Hab]|exact (IH k lv1 E)].
Qed.

Theorem sol_deep_transfer lvs1 lvs2 : views_equiv lvs1 lvs2 ->
  forall lv1 s, sol_deep lvs1 lv1 s -> forall lv2, view_equiv lv1 lv2 -> sol_deep lvs2 lv2 s.
Proof.
  intros Heq. apply (sol_deep_ind' lvs1 (fun lv1 s => forall lv2, view_equiv lv1 lv2 -> sol_deep lvs2 lv2 s)).
  intros lv1 s Htop Hkids lv2 Hv. constructor; [eapply sol_top_transfer; eassumption|].
  intros t k s' Ht Hk. destruct (Hkids t k s' Ht Hk) as (lv1' & Hn & _ & HP).
  destruct (views_equiv_nth lvs1 lvs2 Heq k lv1' Hn) as (lv2' & Hn2 & Hv2). exists lv2'. split; [exact Hn2|exact (HP lv2' Hv2)].
Qed.

Theorem cache_ok_transfer lvs1 lvs2 st : views_equiv lvs1 lvs2 -> cache_ok lvs1 st -> cache_ok lvs2 st.
Proof.
  intros Heq Hc key v Hin k s' Hk. destruct (Hc key v Hin k s' Hk) as (lv1' & Hn & Hd).
  destruct (views_equiv_nth lvs1 lvs2 Heq k lv1' Hn) as (lv2' & Hn2 & Hv2). exists lv2'. split; [exact Hn2|].
  exact (sol_deep_transfer lvs1 lvs2 Heq lv1' s' Hd lv2' Hv2).
Qed.

Lemma ev_ok_transfer lvs1 lvs2 e : views_equiv lvs1 lvs2 -> ev_ok lvs1 e -> ev_ok lvs2 e.
Proof.
  intros Heq. destruct e as [| t d lll f |]; cbn [ev_ok]; try (intros; exact I).
  intros (lv & r & Hlv & Hr & Hg & Hresp). apply In_nth_error in Hlv. destruct Hlv as (k & Hk).
  destruct (views_equiv_nth lvs1 lvs2 Heq k lv Hk) as (lv2 & Hn2 & Hv2). unfold view_equiv in Hv2.
  assert (Hkey : In (rec_key r) (map rec_key (lv_recs lv2))) by (rewrite <- Hv2; apply in_map; exact Hr).
  apply in_map_iff in Hkey. destruct Hkey as (r2 & Hk2 & Hr2). unfold rec_key in Hk2. injection Hk2 as Hg2 Hi2.
  exists lv2, r2. repeat split; [eapply nth_error_In; exact Hn2|exact Hr2|congruence|rewrite Hi2; exact Hresp].
Qed.

(* the views of two token-info lists with the same token types are equivalent *)
Lemma mk_recs_equiv tt1 tt2 kids1 kids2 li :
  (forall g, option_map ti_ty (ti_get tt1 g) = option_map ti_ty (ti_get tt2 g)) ->
  forall toks prevtok win1 win2 st1 st2,
  map rec_key (mk_recs tt1 toks prevtok win1 st1 kids1 li) = map rec_key (mk_recs tt2 toks prevtok win2 st2 kids2 li).
Proof.
  intros Hty. induction toks as [|g rest IH]; intros prevtok win1 win2 st1 st2; [reflexivity|].
  cbn [mk_recs map]. f_equal; [|apply IH]. unfold rec_key. cbn [tr_gidx tr_inv]. rewrite !Hty. reflexivity.
Qed.

Theorem mk_lviews_equiv infos1 infos2 lines :
  map ti_ty infos1 = map ti_ty infos2 -> views_equiv (mk_lviews infos1 lines) (mk_lviews infos2 lines).
Proof.
  intros Hty. unfold mk_lviews.
  assert (Hg : forall g, option_map ti_ty (ti_get (ti_build infos1 0 PLeaf) g) = option_map ti_ty (ti_get (ti_build infos2 0 PLeaf) g)).
  { intros g. rewrite !ti_get_infos, <- !nth_error_map, Hty. reflexivity. }
  generalize (get_line_children (map iline_of lines)) 0%nat. intros kids.
  induction (map iline_of lines) as [|l r IH]; intros i; [constructor|]. cbn [mk_lviews_from]. constructor; [|apply IH].
  unfold view_equiv. cbn [mk_lview lv_recs]. apply mk_recs_equiv. exact Hg.
Qed.

(* phase 2 run on the state phase 1 left (cache included): its decision events respect the invariants as well *)
Theorem phase2_events_ok W infos1 infos2 lines reflow :
  map ti_ty infos1 = map ti_ty infos2 ->
  Forall (ev_ok (mk_lviews infos2 lines)) (Dlog (wrap_phase2 W infos2 lines reflow (sst_log (Ev_Phase 2) (sst_log (Ev_Phase 1) (wrap_phase1 W infos1 lines))))).
Proof.
  intros Hty. pose proof (mk_lviews_equiv infos1 infos2 lines Hty) as Heq.
  pose proof (wrap_phase_events_ok W infos1 lines lv_top sst_init (conj (cache_ok_init _) (Forall_nil _))) as (H1 & H2).
  apply (wrap_phase_events_ok W infos2 lines). split.
  - apply (cache_ok_transfer _ _ _ Heq). intros key v H. exact (H1 key v H).
  - unfold Dlog. cbn [sst_log ss_log filter is_D]. apply Forall_forall. intros e He.
    apply (ev_ok_transfer _ _ e Heq). unfold Dlog, wrap_phase1 in H2. rewrite Forall_forall in H2. exact (H2 e He).
Qed.

Print Assumptions phase2_events_ok.
