(* Proofs/FormatProofs.v — the composed model (Model/Format.v):
     1. the order in which format_model applies the stages is the order of the GENERATED stage list
        (pipeline_kinds, by computation: a re-ordered, extended or shortened make_formatter breaks it);
     2. format_model as a closed expression in the stage models (format_model_spec): the named intermediate
        values fm_* below are what the later files (FormatTotalProofs, FormatIgnoredProofs, ...) reason about;
     3. format_trace (what the driver compares stage by stage) ends in format_model's result. *)
From Coq Require Import Lia.
From PasfmtVerif Require Import Model.Format Proofs.GenericsProofs.

(* ------------------------------------------------------------------ *)
(* 1. the stage order *)
Lemma pipeline_kinds : classify_all pipeline = Some make_formatter_kinds.
Proof. vm_compute. reflexivity. Qed.

(* the generated list, stage by stage: builder method, registered type, and the kind the model gives it *)
Lemma pipeline_stage_order :
  map (fun s => (st_method s, classify s)) pipeline =
  [ (SLexer, Some K_Lexer); (SParser, Some K_Parser); (STokenConsolidator, Some K_Generics);
    (SLinesConsolidator, Some K_CondDir); (SLinesConsolidator, Some K_Deindent);
    (STokenIgnorer, Some K_Toggler); (STokenIgnorer, Some K_IgnoreAsm);
    (SFileFormatter, Some K_Spacing); (SFileFormatter, Some K_Lower); (SFileFormatter, Some K_Comment);
    (SLineFormatter, Some K_EofNewline); (SFileFormatter, Some K_Wrap); (SReconstructor, Some K_Recon) ].
Proof. vm_compute. reflexivity. Qed.

Theorem format_model_chain alnum cfg s : format_model alnum cfg s = format_chain alnum cfg s.
Proof. unfold format_model, format_chain. rewrite pipeline_kinds. reflexivity. Qed.

(* a stage list in another order is NOT this chain: e.g. the wrapper in front of TokenSpacing is a different function *)
Example reordered_chain_differs :
  let ks := [K_Lexer; K_Parser; K_Generics; K_CondDir; K_Deindent; K_Toggler; K_IgnoreAsm;
             K_Wrap; K_Spacing; K_Lower; K_Comment; K_EofNewline; K_Recon] in
  let cfg := mkCfg 120 false true false 2 2 false in
  let s := [65; 59; 10; 32; 32; 66; 59] in    (* "A;\n  B;" *)
  format_kinds (fun _ => false) cfg ks s = inl [65; 59; 10; 32; 66; 59; 10]         (* "A;\n B;\n" *)
  /\ format_chain (fun _ => false) cfg s = inl [65; 59; 10; 66; 59; 10].            (* "A;\nB;\n"  *)
Proof. vm_compute. split; reflexivity. Qed.

(* ------------------------------------------------------------------ *)
(* 3. the trace *)
Definition last_state (ts : list fstate) (st : fstate) : fstate := last ts st.

Lemma last_cons {A} (a d : A) l : last (a :: l) d = last l a.
Proof. revert a d; induction l as [|b l IH]; intros a d; [reflexivity|]. change (last (a :: b :: l) d) with (last (b :: l) d). rewrite (IH b d), (IH b a). reflexivity. Qed.

Lemma trace_run alnum cfg : forall ks st,
  run_kinds alnum cfg ks st =
  match trace_kinds alnum cfg ks st with
  | (ts, None) => inl (last_state ts st)
  | (_, Some e) => inr e
  end.
Proof.
  induction ks as [|k r IH]; intros st; cbn [run_kinds trace_kinds]; [reflexivity|].
  destruct (apply_kstage alnum cfg k st) as [st'|e]; [|reflexivity].
  rewrite IH. destruct (trace_kinds alnum cfg r st') as [ts [e|]]; [reflexivity|].
  unfold last_state. rewrite last_cons. reflexivity.
Qed.

Lemma trace_length alnum cfg : forall ks st ts,
  trace_kinds alnum cfg ks st = (ts, None) -> length ts = length ks.
Proof.
  induction ks as [|k r IH]; intros st ts; cbn [trace_kinds]; [intros [= <-]; reflexivity|].
  destruct (apply_kstage alnum cfg k st) as [st'|e]; [|discriminate].
  destruct (trace_kinds alnum cfg r st') as [ts' [e|]] eqn:E; [discriminate|]. intros [= <-]. cbn [length]. rewrite (IH st' ts' E). reflexivity.
Qed.

(* the driver's comparison: when every state of the trace agreed with the dumps and the last one is S_out o,
   format_model returned o *)
Theorem format_trace_final alnum cfg s ts o :
  format_trace alnum cfg s = (ts, None) -> last_state ts (S_input s) = S_out o -> format_model alnum cfg s = inl o.
Proof.
  intros Ht Hl. rewrite format_model_chain. unfold format_chain, format_kinds, format_trace in *.
  rewrite trace_run, Ht, Hl. reflexivity.
Qed.

Theorem format_trace_error alnum cfg s ts e :
  format_trace alnum cfg s = (ts, Some e) -> format_model alnum cfg s = inr e.
Proof.
  intros Ht. rewrite format_model_chain. unfold format_chain, format_kinds, format_trace in *.
  rewrite trace_run, Ht. reflexivity.
Qed.

(* ------------------------------------------------------------------ *)
(* 2. the composition written out *)
(* the named intermediate values fm_* and the three side conditions are defined in Model/Format.v *)

Lemma chain_after_lex alnum cfg segs :
  run_kinds alnum cfg (tl make_formatter_kinds) (S_raw segs) =
  match r_err (fm_parse segs) with
  | Some e => inr (FE_parse e)
  | None =>
      match expand_all_chk (fm_tys segs) (r_lines (fm_parse segs)) with
      | None => inr FE_conddir_underflow
      | Some _ => if snd (fm_wrap alnum cfg segs) then inr FE_wrap_fuel else inl (S_out (fm_out alnum cfg segs))
      end
  end.
Proof.
  unfold fm_out, fm_final, fm_wrap, fm_l4, fm_l3, fm_l2, fm_l1, fm_l0, fm_lines, fm_marks, fm_lines0, fm_lines_cd, fm_tys, fm_toks, fm_toks0, fm_parse.
  cbn [make_formatter_kinds tl run_kinds apply_kstage].
  match goal with |- context [r_err ?r] => destruct (r_err r) as [e|] end; [reflexivity|].
  cbn [run_kinds apply_kstage]. rewrite generics_run_consolidate. cbn [run_kinds apply_kstage].
  match goal with |- context [expand_all_chk ?a ?b] => destruct (expand_all_chk a b) as [x|] end; [|reflexivity].
  cbn [run_kinds apply_kstage to_fmt enter_fmt].
  match goal with |- context [olf_model ?a ?b ?c ?d ?e] => destruct (olf_model a b c d e) as [[l' evs] err] end.
  cbn [fst snd]. destruct err; reflexivity.
Qed.

Theorem format_model_eq alnum cfg s :
  format_model alnum cfg s =
  match lex_segments s with
  | None => inr FE_lex_fuel
  | Some segs =>
      match r_err (fm_parse segs) with
      | Some e => inr (FE_parse e)
      | None =>
          match expand_all_chk (fm_tys segs) (r_lines (fm_parse segs)) with
          | None => inr FE_conddir_underflow
          | Some _ => if snd (fm_wrap alnum cfg segs) then inr FE_wrap_fuel else inl (fm_out alnum cfg segs)
          end
      end
  end.
Proof.
  rewrite format_model_chain. unfold format_chain, format_kinds.
  change make_formatter_kinds with (K_Lexer :: tl make_formatter_kinds).
  cbn [run_kinds apply_kstage]. destruct (lex_segments s) as [segs|]; [|reflexivity].
  rewrite chain_after_lex.
  destruct (r_err (fm_parse segs)); [reflexivity|].
  destruct (expand_all_chk _ _); [|reflexivity].
  destruct (snd (fm_wrap alnum cfg segs)); reflexivity.
Qed.

Theorem format_model_spec alnum cfg s out :
  format_model alnum cfg s = inl out <->
  exists segs, lex_segments s = Some segs /\ fm_parse_ok segs /\ fm_conddir_ok segs /\ fm_wrap_ok alnum cfg segs
               /\ out = fm_out alnum cfg segs.
Proof.
  rewrite format_model_eq. unfold fm_parse_ok, fm_conddir_ok, fm_wrap_ok. split.
  - destruct (lex_segments s) as [segs|]; [|discriminate]. intros H. exists segs.
    destruct (r_err (fm_parse segs)); [discriminate|].
    destruct (expand_all_chk _ _); [|discriminate].
    destruct (snd (fm_wrap alnum cfg segs)); [discriminate|]. injection H as <-.
    repeat split; try reflexivity. discriminate.
  - intros (segs & -> & H1 & H2 & H3 & ->). rewrite H1, H3.
    destruct (expand_all_chk _ _); [reflexivity|contradiction].
Qed.

(* which error: exactly the stage whose explicit error value was hit *)
Theorem format_model_error alnum cfg s e :
  format_model alnum cfg s = inr e ->
  e = FE_lex_fuel \/ (exists pe, e = FE_parse pe) \/ e = FE_conddir_underflow \/ e = FE_wrap_fuel.
Proof.
  rewrite format_model_eq. destruct (lex_segments s) as [segs|]; [|intros [= <-]; auto].
  destruct (r_err (fm_parse segs)) as [pe|]; [intros [= <-]; right; left; eauto|].
  destruct (expand_all_chk _ _); [|intros [= <-]; auto].
  destruct (snd (fm_wrap alnum cfg segs)); [intros [= <-]; auto|discriminate].
Qed.

(* non-vacuity: a concrete program goes through, and the result is the expected text *)
Example format_model_example :
  let s := [66;69;71;73;78; 32;32; 120; 58;61; 49; 59; 32; 69;78;68; 46] in           (* "BEGIN  x:=1; END." *)
  format_model (fun _ => false) (mkCfg 120 false true false 2 2 false) s
  = inl [98;101;103;105;110; 10; 32;32; 120; 32; 58;61; 32; 49; 59; 10; 101;110;100; 46; 10].   (* "begin\n  x := 1;\nend.\n" *)
Proof. vm_compute. reflexivity. Qed.

Print Assumptions format_model_spec.
Print Assumptions format_trace_final.
