(* Proofs/FragmentStructProofs.v — parse_statement on `record` / `class` when the next token starts the body
   (a field, a visibility keyword or `end`): none of the optional parts (abstract/sealed, helper, parents) is
   there and the body is read.  A lemma about the model alone; it is in a file of its own because unfolding
   st_struct_type costs the kernel about twenty seconds (its nested lets are duplicated in every branch of the
   compiled matches). *)
From PasfmtVerif Require Import Model.Fragment Model.ParserGrammar.
Local Open Scope nat_scope.
Definition is_body_start (t : RawTokenType) : Prop := t = tI \/ t = tEnd \/ t = tPrivate \/ t = tPublic.
Lemma let_eq {A B} (a : A) (f : A -> B) (c : B) : (forall x, x = a -> f x = c) -> (let s := a in f s) = c.
Proof. intros H. exact (H a eq_refl). Qed.
Ltac peel := lazymatch goal with |- (let s := ?a in @?f s) = ?c => apply (let_eq a f c) end.
Section X.
Variable pass : list nat.
Lemma sst1 (s : pstate pass) t3 : cur_tt pass s = Some t3 -> is_body_start t3 ->
  match cur_kk pass s with
  | Some (KK_Abstract | KK_Sealed) => next_token pass (if o_colon (next_tt pass s) then s else consolidate_current_keyword pass s)
  | _ => s end = s.
Proof. intros C1 Ht3. unfold cur_kk. rewrite C1. destruct Ht3 as [->|[->|[->| ->]]]; reflexivity. Qed.
Lemma sst2 (X Y : pstate pass) (s : pstate pass) t3 : cur_tt pass s = Some t3 -> is_body_start t3 ->
  (if match cur_kk pass s, next_tt pass s with
     | Some KK_Helper, Some (RTT_Keyword KK_For | RTT_Op OK_LParen) => true
     | _, _ => false end
  then X
  else if o_lparen (cur_tt pass s) then Y else s) = s.
Proof. intros C1 Ht3. unfold cur_kk. rewrite !C1. destruct Ht3 as [->|[->|[->| ->]]]; reflexivity. Qed.
Lemma sst3 (X : pstate pass) (s : pstate pass) t3 : cur_tt pass s = Some t3 -> is_body_start t3 ->
  match cur_tt pass s with
  | Some (RTT_Keyword KK_Of) => next_token pass s
  | Some (RTT_Op OK_Semicolon) => s
  | _ => X
  end = X.
Proof. intros C1 Ht3. rewrite C1. destruct Ht3 as [->|[->|[->| ->]]]; reflexivity. Qed.
Lemma st_struct_type_plain R (s : pstate pass) t3 : cur_tt pass (next_token pass s) = Some t3 -> is_body_start t3 ->
  st_struct_type pass R s = st_struct_type_body pass R (next_token pass s).
Proof.
  intros C1 Ht3. cbv delta [st_struct_type]. cbv beta.
  peel. intros s1 ->.
  peel. intros s2 ->. rewrite (sst1 _ _ C1 Ht3).
  peel. intros s3 ->. rewrite (sst2 _ _ _ _ C1 Ht3).
  exact (sst3 _ _ _ C1 Ht3).
Qed.
End X.
