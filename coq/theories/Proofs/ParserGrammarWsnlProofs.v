(* Proofs/ParserGrammarWsnlProofs.v — E (for C06): the per-token flags "the leading whitespace holds a
   line break" (`wsnl`) are read only by parse_asm_instructions, which is reached only in front of an
   `asm` keyword.  If no token of the file has keyword kind Asm, parse_file does not depend on wsnl. *)
From PasfmtVerif Require Import Model.ParserGrammar Proofs.ParserKernelProofs Proofs.ParserGrammarProofs
  Proofs.ParserGrammarTypesProofs.
Local Open Scope nat_scope.

Definition not_asm (t : RawTokenType) : Prop :=
  match t with RTT_Keyword KK_Asm | RTT_IdentifierOrKeyword KK_Asm => False | _ => True end.
Definition no_asm (l : list RawTokenType) : Prop := Forall not_asm l.
Lemma retype1_not_asm a b : retype1 a b -> not_asm a -> not_asm b.
Proof. destruct 1; cbn; auto. Qed.
Lemma retype_ok_not_asm a b : retype_ok a b -> not_asm a -> not_asm b.
Proof. induction 1 as [|a b c _ IH H]; intros Ha; [exact Ha|]. eapply retype1_not_asm; [exact H|apply IH, Ha]. Qed.
Lemma retypes_no_asm l l' : retypes l l' -> no_asm l -> no_asm l'.
Proof.
  induction 1 as [|a b l l' Hab _ IH]; intros H; [constructor|].
  constructor; [eapply retype_ok_not_asm; [exact Hab|exact (Forall_inv H)]|apply IH, (Forall_inv_tail H)].
Qed.
Lemma no_asm_upd_nth i t l : not_asm t -> no_asm l -> no_asm (upd_nth i (fun _ => t) l).
Proof.
  intros Ht. revert i. induction l as [|a l IH]; intros [|i] H; cbn; try exact H.
  - constructor; [exact Ht|exact (Forall_inv_tail H)].
  - constructor; [exact (Forall_inv H)|apply IH, (Forall_inv_tail H)].
Qed.

(* the calls that may read wsnl directly *)
Definition safe (c : call) : Prop :=
  match c with C_asm_block => False | C_with_ctx _ A_asm => False | _ => True end.

Section Wsnl.
Variable pass : list nat.
Notation pstate := (pstate pass).
Definition noasm (s : pstate) : Prop := no_asm (ps_toks pass s).
(* the judgement: same state on both sides, without asm tokens *)
Definition J (a b : pstate) : Prop := a = b /\ noasm b.

Lemma noasm_RS s s' : RS pass s s' -> noasm s -> noasm s'.
Proof. intros [H _]. apply retypes_no_asm, H. Qed.
Lemma noasm_cur s t : noasm s -> cur_tt pass s = Some t -> not_asm t.
Proof.
  intros Hn Hc. destruct (cur_tt_pos pass s t Hc) as (i & _ & Hi). unfold tt_at in Hi.
  exact (proj1 (Forall_forall _ _) Hn t (nth_error_In _ _ Hi)).
Qed.
Lemma noasm_cur_asm s : noasm s -> cur_tt pass s = Some (RTT_Keyword KK_Asm) -> False.
Proof. intros Hn Hc. exact (noasm_cur s _ Hn Hc). Qed.
Lemma noasm_set_current_token_type t s : not_asm t -> noasm s -> noasm (set_current_token_type pass t s).
Proof.
  intros Ht Hn. unfold set_current_token_type, upd_cur. destruct (idx0 pass s); [|exact Hn].
  destruct (tt_at pass s n); cbn [bind]; [|exact Hn]. unfold set_tok, guard. destruct (has_err pass s); [exact Hn|].
  unfold noasm. cbn. apply no_asm_upd_nth; assumption.
Qed.
Lemma noasm_skip_token s : noasm s -> noasm (skip_token pass s).
Proof. intros Hn. unfold skip_token, p_emit, guard. destruct (has_err pass s); exact Hn. Qed.

Lemma J_step (f : pstate -> pstate) e1 e2 : (forall x, noasm x -> noasm (f x)) -> J e1 e2 -> J (f e1) (f e2).
Proof. intros H [-> Hn]. split; [reflexivity|apply H, Hn]. Qed.

Lemma J_let (v1 v2 : pstate) (B1 B2 : pstate -> pstate) :
  J v1 v2 -> (forall z, noasm z -> J (B1 z) (B2 z)) -> J (let x := v1 in B1 x) (let y := v2 in B2 y).
Proof. intros [-> Hn] H. cbv zeta. apply H, Hn. Qed.

Section ArmsJ.
Variable w w' : list bool.
Variable R1 R2 : call -> pstate -> pstate.
Hypothesis HR : forall c x, safe c -> noasm x -> R1 c x = R2 c x.
Hypothesis HN : forall c x, noasm x -> noasm (R2 c x).
Lemma J_R c e1 e2 : safe c -> J e1 e2 -> J (R1 c e1) (R2 c e2).
Proof. intros Hs [-> Hn]. split; [apply HR; assumption|apply HN, Hn]. Qed.

Create HintDb rsdb2.
#[local] Hint Resolve KT_ne KL_ne KC_ne Kc_ne KR_ne Kr_ne p_emit_RS consolidate_current_ident_RS consolidate_current_keyword_RS
  set_current_decl_kind_RS caret_RS consolidate_prev_keyword_RS consolidate_class_op_in_RS fix_next_eq_RS
  consolidate_portability_directives_RS set_line_type_RS p_set_meta_RS push_ctx_RS pop_ctx_RS update_statuses_RS fail_RS
  set_unfinished_RS next_token_RS finish_logical_line_RS make_unfinished_line_RS skip_pair_RS simple_op_until_RS take_until_RS
  parse_expression_RS param_window_RS parse_parameter_list_RS parse_routine_header_RS keyword_consolidator_RS
  parse_exports_op_RS enum_op_RS import_op_RS property_op_RS parse_property_declaration_RS add_asm_instruction_line_RS
  take_separators_on_last_line_RS comment_arm_RS program_head_arm_RS : rsdb2.
Create HintDb jdb.
Ltac naleaf :=
  lazymatch goal with
  | |- noasm (set_current_token_type _ _ _) => apply noasm_set_current_token_type; [exact I|assumption]
  | |- noasm (skip_token _ _) => apply noasm_skip_token; assumption
  | Hx : noasm ?x |- noasm _ => eapply noasm_RS; [|exact Hx]; solve [auto with rsdb2]
  end.
Ltac asm_absurd :=
  exfalso; subst;
  match goal with
  | Hn : noasm ?z, E : cur_tt pass ?z = Some (RTT_Keyword KK_Asm) |- _ => exact (noasm_cur_asm z Hn E)
  end.
Ltac jgo :=
  lazymatch goal with
  | Hn : noasm ?s |- J ?s ?s => exact (conj eq_refl Hn)
  | |- J (let x := ?v1 in @?b1 x) (let y := ?v2 in @?b2 y) =>
      lazymatch type of v1 with
      | ParserGrammar.pstate _ =>
          let Hn := fresh "Hn" in let z := fresh "z" in
          refine (J_let v1 v2 b1 b2 _ _); [jgo|intros z Hn; cbv beta; jgo]
      | _ => change (J (b1 v1) (b2 v2)); cbv beta; jgo
      end
  | |- J (if ?c then _ else _) (if ?c then _ else _) => destruct c eqn:?; jgo
  | |- J (match ?x with _ => _ end) (match ?x with _ => _ end) => destruct x eqn:?; jgo
  | |- J (R1 C_asm_block _) _ => asm_absurd
  | |- J (R1 ?c ?e1) (R2 ?c ?e2) => apply J_R; [exact I|jgo]
  | |- J (?f ?e1) (?f ?e2) => apply (J_step f); [intros; naleaf|jgo]
  | |- J _ _ => solve [auto with jdb]
  end.
Ltac jgp :=
  lazymatch goal with
  | Hn : noasm ?s |- J ?s ?s => exact (conj eq_refl Hn)
  | |- J (let x := ?v1 in @?b1 x) (let y := ?v2 in @?b2 y) =>
      lazymatch type of v1 with
      | ParserGrammar.pstate _ =>
          let Hn := fresh "Hn" in let z := fresh "z" in
          refine (J_let v1 v2 b1 b2 _ _); [jgp|intros z Hn; cbv beta; jgp]
      | _ => change (J (b1 v1) (b2 v2)); cbv beta; jgp
      end
  | |- J (if ?c then _ else _) (if ?c then _ else _) => destruct c; jgp
  | |- J (match ?x with _ => _ end) (match ?x with _ => _ end) => destruct x; jgp
  | |- J (R1 C_asm_block _) _ => asm_absurd
  | |- J (R1 ?c ?e1) (R2 ?c ?e2) => apply J_R; [exact I|jgp]
  | |- J (?f ?e1) (?f ?e2) => apply (J_step f); [intros; naleaf|jgp]
  | |- J _ _ => solve [auto with jdb]
  end.
Ltac arm D := intros Hn0; cbv delta [D s_loop s_other t_loop t_other label_or_other stmt_block] beta; jgp.
Ltac arme D := intros Hn0; cbv delta [D s_loop s_other t_loop t_other label_or_other stmt_block] beta; jgo.
Lemma arm_with_ctx_J cx a s : a <> A_asm -> noasm s -> J (arm_with_ctx pass w R1 cx a s) (arm_with_ctx pass w' R2 cx a s).
Proof.
  intros Ha. destruct a; try (exfalso; apply Ha; reflexivity); arm arm_with_ctx.
Qed.
#[local] Hint Resolve arm_with_ctx_J : jdb.
Lemma arm_block_J cx s : noasm s -> J (arm_block pass R1 cx s) (arm_block pass R2 cx s).
Proof.
  arm arm_block.
Qed.
#[local] Hint Resolve arm_block_J : jdb.
Lemma arm_stmt_block_J cx k s : noasm s -> J (arm_stmt_block pass R1 cx k s) (arm_stmt_block pass R2 cx k s).
Proof.
  arm arm_stmt_block.
Qed.
#[local] Hint Resolve arm_stmt_block_J : jdb.
Lemma arm_stmt_list_J t op p s : noasm s -> J (arm_stmt_list pass R1 t op p s) (arm_stmt_list pass R2 t op p s).
Proof.
  arm arm_stmt_list.
Qed.
#[local] Hint Resolve arm_stmt_list_J : jdb.
Lemma arm_line_section_J cx s : noasm s -> J (arm_line_section pass R1 cx s) (arm_line_section pass R2 cx s).
Proof.
  arm arm_line_section.
Qed.
#[local] Hint Resolve arm_line_section_J : jdb.
Lemma arm_comment_lines_J s : noasm s -> J (arm_comment_lines pass R1 s) (arm_comment_lines pass R2 s).
Proof.
  arm arm_comment_lines.
Qed.
#[local] Hint Resolve arm_comment_lines_J : jdb.
Lemma sa_directive_J s : noasm s -> J (sa_directive pass R1 s) (sa_directive pass R2 s).
Proof.
  arm sa_directive.
Qed.
#[local] Hint Resolve sa_directive_J : jdb.
Lemma sa_comment_J s : noasm s -> J (sa_comment pass R1 s) (sa_comment pass R2 s).
Proof.
  arm sa_comment.
Qed.
#[local] Hint Resolve sa_comment_J : jdb.
Lemma sa_program_head_J k s : noasm s -> J (sa_program_head pass R1 k s) (sa_program_head pass R2 k s).
Proof.
  arm sa_program_head.
Qed.
#[local] Hint Resolve sa_program_head_J : jdb.
Lemma sa_lbrack_J s : noasm s -> J (sa_lbrack pass R1 s) (sa_lbrack pass R2 s).
Proof.
  arm sa_lbrack.
Qed.
#[local] Hint Resolve sa_lbrack_J : jdb.
Lemma sa_section_J k s : noasm s -> J (sa_section pass R1 k s) (sa_section pass R2 k s).
Proof.
  arm sa_section.
Qed.
#[local] Hint Resolve sa_section_J : jdb.
Lemma sa_begin_J s : noasm s -> J (sa_begin pass R1 s) (sa_begin pass R2 s).
Proof.
  arm sa_begin.
Qed.
#[local] Hint Resolve sa_begin_J : jdb.
Lemma sa_end_J s : noasm s -> J (sa_end pass R1 s) (sa_end pass R2 s).
Proof.
  arm sa_end.
Qed.
#[local] Hint Resolve sa_end_J : jdb.
Lemma sa_repeat_J s : noasm s -> J (sa_repeat pass R1 s) (sa_repeat pass R2 s).
Proof.
  arm sa_repeat.
Qed.
#[local] Hint Resolve sa_repeat_J : jdb.
Lemma sa_try_J s : noasm s -> J (sa_try pass R1 s) (sa_try pass R2 s).
Proof.
  arm sa_try.
Qed.
#[local] Hint Resolve sa_try_J : jdb.
Lemma sa_on_J s : noasm s -> J (sa_on pass R1 s) (sa_on pass R2 s).
Proof.
  arm sa_on.
Qed.
#[local] Hint Resolve sa_on_J : jdb.
Lemma sa_do_J is_for s : noasm s -> J (sa_do pass R1 is_for s) (sa_do pass R2 is_for s).
Proof.
  arm sa_do.
Qed.
#[local] Hint Resolve sa_do_J : jdb.
Lemma sa_if_J s : noasm s -> J (sa_if pass R1 s) (sa_if pass R2 s).
Proof.
  arm sa_if.
Qed.
#[local] Hint Resolve sa_if_J : jdb.
Lemma sa_else_J s : noasm s -> J (sa_else pass R1 s) (sa_else pass R2 s).
Proof.
  arm sa_else.
Qed.
#[local] Hint Resolve sa_else_J : jdb.
Lemma sa_case_J s : noasm s -> J (sa_case pass R1 s) (sa_case pass R2 s).
Proof.
  arm sa_case.
Qed.
#[local] Hint Resolve sa_case_J : jdb.
Lemma sa_uses_J s : noasm s -> J (sa_uses pass R1 s) (sa_uses pass R2 s).
Proof.
  arm sa_uses.
Qed.
#[local] Hint Resolve sa_uses_J : jdb.
Lemma sa_contains_J s : noasm s -> J (sa_contains pass R1 s) (sa_contains pass R2 s).
Proof.
  arm sa_contains.
Qed.
#[local] Hint Resolve sa_contains_J : jdb.
Lemma sa_exports_J s : noasm s -> J (sa_exports pass R1 s) (sa_exports pass R2 s).
Proof.
  arm sa_exports.
Qed.
#[local] Hint Resolve sa_exports_J : jdb.
Lemma sa_class_J s : noasm s -> J (sa_class pass R1 s) (sa_class pass R2 s).
Proof.
  arm sa_class.
Qed.
#[local] Hint Resolve sa_class_J : jdb.
Lemma sa_strict_J s : noasm s -> J (sa_strict pass R1 s) (sa_strict pass R2 s).
Proof.
  arm sa_strict.
Qed.
#[local] Hint Resolve sa_strict_J : jdb.
Lemma sa_visibility_J s : noasm s -> J (sa_visibility pass R1 s) (sa_visibility pass R2 s).
Proof.
  arm sa_visibility.
Qed.
#[local] Hint Resolve sa_visibility_J : jdb.
Lemma sa_decl_J k s : noasm s -> J (sa_decl pass R1 k s) (sa_decl pass R2 k s).
Proof.
  arm sa_decl.
Qed.
#[local] Hint Resolve sa_decl_J : jdb.
Lemma sa_property_J s : noasm s -> J (sa_property pass R1 s) (sa_property pass R2 s).
Proof.
  arm sa_property.
Qed.
#[local] Hint Resolve sa_property_J : jdb.
Lemma sa_routine_J s : noasm s -> J (sa_routine pass R1 s) (sa_routine pass R2 s).
Proof.
  arm sa_routine.
Qed.
#[local] Hint Resolve sa_routine_J : jdb.
Lemma sa_raise_J s : noasm s -> J (sa_raise pass R1 s) (sa_raise pass R2 s).
Proof.
  arm sa_raise.
Qed.
#[local] Hint Resolve sa_raise_J : jdb.
Lemma sa_other_J s : noasm s -> J (sa_other pass R1 s) (sa_other pass R2 s).
Proof.
  arm sa_other.
Qed.
#[local] Hint Resolve sa_other_J : jdb.
Lemma arm_structures_J s : noasm s -> J (arm_structures pass R1 s) (arm_structures pass R2 s).
Proof.
  intros Hn0. unfold arm_structures. destruct (cur_tt pass s) as [tk|] eqn:Ct; [|exact (conj eq_refl Hn0)].
  destruct (ending_ctx pass s); [apply (J_step (update_statuses pass n)); [intros; naleaf|exact (conj eq_refl Hn0)]|].
  destruct (sarm_of tk) eqn:Es; auto with jdb.
  exfalso. assert (tk = RTT_Keyword KK_Asm).
  { clear - Es. destruct tk as [o| |k|k| | | | | | |]; cbn in Es; try discriminate.
    - destruct o; discriminate.
    - destruct k; discriminate.
    - destruct k; cbn in Es; try discriminate; reflexivity. }
  subst tk. exact (noasm_cur_asm s Hn0 Ct).
Qed.
#[local] Hint Resolve arm_structures_J : jdb.
Lemma st_struct_type_body_J s : noasm s -> J (st_struct_type_body pass R1 s) (st_struct_type_body pass R2 s).
Proof.
  arm st_struct_type_body.
Qed.
#[local] Hint Resolve st_struct_type_body_J : jdb.
Lemma st_struct_type_J s : noasm s -> J (st_struct_type pass R1 s) (st_struct_type pass R2 s).
Proof.
  arm st_struct_type.
Qed.
#[local] Hint Resolve st_struct_type_J : jdb.
Lemma st_of_J s : noasm s -> J (st_of pass R1 s) (st_of pass R2 s).
Proof.
  arm st_of.
Qed.
#[local] Hint Resolve st_of_J : jdb.
Lemma st_var_J s : noasm s -> J (st_var pass R1 s) (st_var pass R2 s).
Proof.
  arm st_var.
Qed.
#[local] Hint Resolve st_var_J : jdb.
Lemma st_lparen_J s : noasm s -> J (st_lparen pass R1 s) (st_lparen pass R2 s).
Proof.
  arm st_lparen.
Qed.
#[local] Hint Resolve st_lparen_J : jdb.
Lemma st_semicolon_J s : noasm s -> J (st_semicolon pass s) (st_semicolon pass s).
Proof.
  arm st_semicolon.
Qed.
#[local] Hint Resolve st_semicolon_J : jdb.
Lemma st_lt_J s : noasm s -> J (st_lt pass R1 s) (st_lt pass R2 s).
Proof.
  arm st_lt.
Qed.
#[local] Hint Resolve st_lt_J : jdb.
Lemma st_colon_J s : noasm s -> J (st_colon pass R1 s) (st_colon pass R2 s).
Proof.
  arm st_colon.
Qed.
#[local] Hint Resolve st_colon_J : jdb.
Lemma st_equal_J s : noasm s -> J (st_equal pass R1 s) (st_equal pass R2 s).
Proof.
  arm st_equal.
Qed.
#[local] Hint Resolve st_equal_J : jdb.
Lemma st_reference_J s : noasm s -> J (st_reference pass R1 s) (st_reference pass R2 s).
Proof.
  arm st_reference.
Qed.
#[local] Hint Resolve st_reference_J : jdb.
Lemma st_in_J s : noasm s -> J (st_in pass R1 s) (st_in pass R2 s).
Proof.
  arm st_in.
Qed.
#[local] Hint Resolve st_in_J : jdb.
Lemma st_to_J s : noasm s -> J (st_to pass R1 s) (st_to pass R2 s).
Proof.
  arm st_to.
Qed.
#[local] Hint Resolve st_to_J : jdb.
Lemma st_absolute_J s : noasm s -> J (st_absolute pass R1 s) (st_absolute pass R2 s).
Proof.
  arm st_absolute.
Qed.
#[local] Hint Resolve st_absolute_J : jdb.
Lemma st_assign_J s : noasm s -> J (st_assign pass R1 s) (st_assign pass R2 s).
Proof.
  arm st_assign.
Qed.
#[local] Hint Resolve st_assign_J : jdb.
Lemma st_routine_J s : noasm s -> J (st_routine pass R1 s) (st_routine pass R2 s).
Proof.
  arm st_routine.
Qed.
#[local] Hint Resolve st_routine_J : jdb.
Lemma st_begin_J s : noasm s -> J (st_begin pass R1 s) (st_begin pass R2 s).
Proof.
  arm st_begin.
Qed.
#[local] Hint Resolve st_begin_J : jdb.
Lemma st_label_cand_J s : noasm s -> J (st_label_cand pass R1 s) (st_label_cand pass R2 s).
Proof.
  arm st_label_cand.
Qed.
#[local] Hint Resolve st_label_cand_J : jdb.
Lemma st_other_J s : noasm s -> J (st_other pass R1 s) (st_other pass R2 s).
Proof.
  arm st_other.
Qed.
#[local] Hint Resolve st_other_J : jdb.
Lemma arm_statement_J s : noasm s -> J (arm_statement pass R1 s) (arm_statement pass R2 s).
Proof.
  intros Hn0. unfold arm_statement. destruct (cur_tt pass s) as [tk|] eqn:Ct; [|exact (conj eq_refl Hn0)].
  pose proof (noasm_RS _ _ (statement_prelude_RS pass s) Hn0) as P.
  destruct (statement_prelude pass s) as [s1 go]. cbn [fst] in P.
  destruct (negb go); [exact (conj eq_refl P)|]. destruct (starm_of tk); auto with jdb.
Qed.
#[local] Hint Resolve arm_statement_J : jdb.
Lemma arm_if_then_J s : noasm s -> J (arm_if_then pass R1 s) (arm_if_then pass R2 s).
Proof.
  arm arm_if_then.
Qed.
#[local] Hint Resolve arm_if_then_J : jdb.
Lemma arm_do_J is_for s : noasm s -> J (arm_do pass R1 is_for s) (arm_do pass R2 is_for s).
Proof.
  arm arm_do.
Qed.
#[local] Hint Resolve arm_do_J : jdb.
Lemma arm_case_statement_J s : noasm s -> J (arm_case_statement pass R1 s) (arm_case_statement pass R2 s).
Proof.
  arm arm_case_statement.
Qed.
#[local] Hint Resolve arm_case_statement_J : jdb.
Lemma arm_variant_record_J s : noasm s -> J (arm_variant_record pass R1 s) (arm_variant_record pass R2 s).
Proof.
  arm arm_variant_record.
Qed.
#[local] Hint Resolve arm_variant_record_J : jdb.
Lemma arm_case_arm_J parent s : noasm s -> J (arm_case_arm pass R1 parent s) (arm_case_arm pass R2 parent s).
Proof.
  arm arm_case_arm.
Qed.
#[local] Hint Resolve arm_case_arm_J : jdb.
Lemma arm_import_clause_J s : noasm s -> J (arm_import_clause pass R1 s) (arm_import_clause pass R2 s).
Proof.
  arm arm_import_clause.
Qed.
#[local] Hint Resolve arm_import_clause_J : jdb.
Lemma arm_parens_J s : noasm s -> J (arm_parens pass R1 s) (arm_parens pass R2 s).
Proof.
  arm arm_parens.
Qed.
#[local] Hint Resolve arm_parens_J : jdb.
Lemma arm_parens_loop_J s : noasm s -> J (arm_parens_loop pass R1 s) (arm_parens_loop pass R2 s).
Proof.
  arm arm_parens_loop.
Qed.
#[local] Hint Resolve arm_parens_loop_J : jdb.
Lemma arm_variant_fields_J s : noasm s -> J (arm_variant_fields pass R1 s) (arm_variant_fields pass R2 s).
Proof.
  arm arm_variant_fields.
Qed.
#[local] Hint Resolve arm_variant_fields_J : jdb.
Lemma arm_anon_J s : noasm s -> J (arm_anon pass R1 s) (arm_anon pass R2 s).
Proof.
  arm arm_anon.
Qed.
#[local] Hint Resolve arm_anon_J : jdb.
Lemma arm_anon_loop_J parent s : noasm s -> J (arm_anon_loop pass R1 parent s) (arm_anon_loop pass R2 parent s).
Proof.
  arm arm_anon_loop.
Qed.
#[local] Hint Resolve arm_anon_loop_J : jdb.
Lemma arm_routine_J s : noasm s -> J (arm_routine pass R1 s) (arm_routine pass R2 s).
Proof.
  arme arm_routine.
Qed.
#[local] Hint Resolve arm_routine_J : jdb.
Lemma arm_begin_end_J lvl s : noasm s -> J (arm_begin_end pass R1 lvl s) (arm_begin_end pass R2 lvl s).
Proof.
  arm arm_begin_end.
Qed.
#[local] Hint Resolve arm_begin_end_J : jdb.
Lemma arm_top_J s : noasm s -> J (arm_top pass R1 s) (arm_top pass R2 s).
Proof.
  arm arm_top.
Qed.
#[local] Hint Resolve arm_top_J : jdb.
End ArmsJ.

Lemma safe_dec c : {safe c} + {~ safe c}.
Proof. destruct c; cbn; auto. destruct a; cbn; auto. Qed.

(* the grammar does not read wsnl on states without an asm token, except through the two asm calls *)
Theorem run_wsnl_irrelevant w w' : forall fuel c s, safe c -> noasm s -> run pass w fuel c s = run pass w' fuel c s.
Proof.
  induction fuel as [|f IH]; intros c s Hs Hn; [reflexivity|].
  assert (HN : forall c x, noasm x -> noasm (run pass w' f c x)).
  { intros c0 x Hx. eapply retypes_no_asm; [apply run_retype_ok|exact Hx]. }
  cbn [run]. destruct (has_err pass s); [reflexivity|].
  destruct c; cbn in Hs; try contradiction.
    + apply (arm_structures_J (run pass w f) (run pass w' f) IH HN); exact Hn.
    + apply (arm_statement_J (run pass w f) (run pass w' f) IH HN); exact Hn.
    + apply (arm_if_then_J (run pass w f) (run pass w' f) IH HN); exact Hn.
    + apply (arm_do_J (run pass w f) (run pass w' f) IH HN); exact Hn.
    + apply (arm_case_statement_J (run pass w f) (run pass w' f) IH HN); exact Hn.
    + apply (arm_variant_record_J (run pass w f) (run pass w' f) IH HN); exact Hn.
    + apply (arm_case_arm_J (run pass w f) (run pass w' f) IH HN); exact Hn.
    + apply (arm_comment_lines_J (run pass w f) (run pass w' f) IH HN); exact Hn.
    + apply (arm_import_clause_J (run pass w f) (run pass w' f) IH HN); exact Hn.
    + apply (arm_line_section_J (run pass w f) (run pass w' f) IH HN); exact Hn.
    + apply (arm_stmt_block_J (run pass w f) (run pass w' f) IH HN); exact Hn.
    + apply (arm_stmt_list_J (run pass w f) (run pass w' f) IH HN); exact Hn.
    + apply (arm_block_J (run pass w f) (run pass w' f) IH HN); exact Hn.
    + apply (arm_with_ctx_J w w' (run pass w f) (run pass w' f) IH HN); [intros ->; exact Hs|exact Hn].
    + apply (arm_parens_J (run pass w f) (run pass w' f) IH HN); exact Hn.
    + apply (arm_parens_loop_J (run pass w f) (run pass w' f) IH HN); exact Hn.
    + apply (arm_variant_fields_J (run pass w f) (run pass w' f) IH HN); exact Hn.
    + apply (arm_anon_J (run pass w f) (run pass w' f) IH HN); exact Hn.
    + apply (arm_anon_loop_J (run pass w f) (run pass w' f) IH HN); exact Hn.
    + apply (arm_routine_J (run pass w f) (run pass w' f) IH HN); exact Hn.
    + apply (arm_begin_end_J (run pass w f) (run pass w' f) IH HN); exact Hn.
    + apply (arm_top_J (run pass w f) (run pass w' f) IH HN); exact Hn.
Qed.
End Wsnl.

Theorem parse_pass_wsnl_irrelevant pass w w' toks attr :
  no_asm toks -> parse_pass pass w toks attr = parse_pass pass w' toks attr.
Proof. intros H. apply run_wsnl_irrelevant; [exact I|exact H]. Qed.

Lemma cement_no_asm pass : forall toks, no_asm toks -> no_asm (fold_left (fun ts p => upd_nth p cement ts) pass toks).
Proof. intros toks. apply retypes_no_asm, cement_retypes. Qed.

Theorem parse_passes_wsnl_irrelevant w w' : forall passes toks attr acc log,
  no_asm toks -> parse_passes w passes toks attr acc log = parse_passes w' passes toks attr acc log.
Proof.
  induction passes as [|pass rest IH]; intros toks attr acc log H; cbn [parse_passes]; [reflexivity|].
  rewrite (parse_pass_wsnl_irrelevant pass w w' toks attr H).
  destruct (ps_err pass (parse_pass pass w' toks attr)); [reflexivity|].
  apply IH. apply cement_no_asm. eapply retypes_no_asm; [apply parse_pass_retype_ok|exact H].
Qed.

(* E: without a token of keyword kind Asm the result of parse_file does not depend on the line-break flags *)
Theorem parse_file_wsnl_irrelevant toks w w' passes :
  no_asm toks -> parse_file_with toks w passes = parse_file_with toks w' passes.
Proof. intros H. apply parse_passes_wsnl_irrelevant, H. Qed.
Corollary parse_file_model_wsnl_irrelevant toks w w' :
  no_asm toks -> parse_file_model toks w = parse_file_model toks w'.
Proof. apply parse_file_wsnl_irrelevant. Qed.
(* in the wording of the request: no RTT_Keyword KK_Asm and no RTT_IdentifierOrKeyword KK_Asm (the lexer
   never produces the latter; it is excluded because re-typing could turn it into the former) *)
Corollary parse_file_wsnl_irrelevant' toks w w' passes :
  (forall t, In t toks -> t <> RTT_Keyword KK_Asm /\ t <> RTT_IdentifierOrKeyword KK_Asm) ->
  parse_file_with toks w passes = parse_file_with toks w' passes.
Proof.
  intros H. apply parse_file_wsnl_irrelevant. apply Forall_forall. intros t Ht. destruct (H t Ht) as [A B].
  destruct t as [| |k|k| | | | | | |]; cbn; auto; destruct k; cbn; auto; congruence.
Qed.

Example wsnl_irrelevant_example :
  let toks := [RTT_Keyword KK_Begin; RTT_Identifier; RTT_Op OK_Semicolon; RTT_Keyword KK_End; RTT_Eof] in
  no_asm toks /\ r_lines (parse_file_model toks [true; true; true; true; true]) = r_lines (parse_file_model toks []).
Proof. split; [repeat constructor|vm_compute; reflexivity]. Qed.
(* the hypothesis is needed: with an asm block the flags decide where instruction lines break *)
Example wsnl_matters_with_asm :
  let toks := [RTT_Keyword KK_Asm; RTT_Identifier; RTT_Identifier; RTT_Keyword KK_End; RTT_Eof] in
  map ll_toks (r_lines (parse_file_model toks [false; false; true; false; false]))
  <> map ll_toks (r_lines (parse_file_model toks [false; false; false; false; false])).
Proof. vm_compute. discriminate. Qed.
