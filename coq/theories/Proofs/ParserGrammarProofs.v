(* Proofs/ParserGrammarProofs.v — theorems about the grammar model (Model/ParserGrammar.v).
   1. grammar_is_kernel_run: the lines of a pass of the grammar model are the kernel run of its own
      event log — for every input, call, fuel (by construction of the state), hence kernel_lines_wf
      applies to every output of the model.
   2. termination of the leaf loops: with the fuel they give themselves (remaining tokens + 2) the
      out-of-fuel error is never produced, and pass_index never decreases.
   3. get_context_level is within 0..65535 and equals the plain sum when that is in range.
   No termination proof of `run` (the mutually recursive part) is attempted. *)
From PasfmtVerif Require Import Model.ParserGrammar Proofs.ParserKernelProofs.
Local Open Scope nat_scope.

Lemma map_fst_combine_eq {A B} (a : list A) (b : list B) : length a = length b -> map fst (combine a b) = a.
Proof.
  revert b; induction a as [|x a IH]; intros [|y b] H; cbn in *; try reflexivity; try discriminate.
  f_equal. apply IH. congruence.
Qed.

(* ================================================================== *)
(* 1. kernel run by construction *)
Section KernelRun.
Variable pass : list nat.
Variable wsnl : list bool.

Lemma state_is_kernel_run (s : pstate pass) : kst pass s = k_run pass (pass_events pass s).
Proof. unfold kst, pass_events, kc_st, kc_evs. destruct (ps_core pass s) as [p [H1 H2]]. exact H1. Qed.

Lemma state_meta_length (s : pstate pass) : length (metas pass s) = length (k_lines (kst pass s)).
Proof. unfold metas, kst, kc_meta, kc_st. destruct (ps_core pass s) as [p [H1 H2]]. exact H2. Qed.

Lemma pass_lines_toks (s : pstate pass) : map ll_toks (pass_lines pass s) = k_lines (kst pass s).
Proof.
  unfold pass_lines. rewrite map_map. cbn [ll_toks].
  apply map_fst_combine_eq. symmetry. apply state_meta_length.
Qed.

(* the token lists of the lines returned by any run of the grammar = the kernel run of the returned
   event list *)
Theorem grammar_is_kernel_run fuel c (s : pstate pass) :
  map ll_toks (pass_lines pass (run pass wsnl fuel c s))
  = k_lines (k_run pass (pass_events pass (run pass wsnl fuel c s))).
Proof. rewrite pass_lines_toks, state_is_kernel_run. reflexivity. Qed.

Corollary parse_pass_is_kernel_run toks attr :
  map ll_toks (pass_lines pass (parse_pass pass wsnl toks attr))
  = k_lines (k_run pass (pass_events pass (parse_pass pass wsnl toks attr))).
Proof. apply grammar_is_kernel_run. Qed.

(* hence, for every input and fuel: every line strictly increasing, no token placed twice, only
   tokens of the pass *)
Corollary grammar_lines_wf fuel c (s : pstate pass) :
  increasing pass ->
  let ls := map ll_toks (pass_lines pass (run pass wsnl fuel c s)) in
  Forall increasing ls /\ NoDup (concat ls) /\ incl (concat ls) pass.
Proof. intros Hp ls. subst ls. rewrite grammar_is_kernel_run. apply kernel_lines_wf, Hp. Qed.

Corollary parse_pass_lines_wf toks attr :
  increasing pass ->
  let ls := map ll_toks (pass_lines pass (parse_pass pass wsnl toks attr)) in
  Forall increasing ls /\ NoDup (concat ls) /\ incl (concat ls) pass.
Proof. intros Hp. apply grammar_lines_wf, Hp. Qed.

(* coverage, through kernel_cover: if the pass was consumed, every pass token is in a line or was
   skipped by skip_token *)
Lemma state_cover (s : pstate pass) :
  length pass <= pidx pass s ->
  forall i t, nth_error pass i = Some t ->
  In t (concat (map ll_toks (pass_lines pass s))) \/ In i (k_skips (pass_events pass s) 0).
Proof.
  intros Hend i t Ht. rewrite pass_lines_toks. unfold pidx in Hend.
  generalize (state_is_kernel_run s). generalize dependent (kst pass s). intros k Hend E. subst k.
  apply kernel_cover; assumption.
Qed.
Corollary parse_pass_cover toks attr :
  length pass <= pidx pass (parse_pass pass wsnl toks attr) ->
  forall i t, nth_error pass i = Some t ->
  In t (concat (map ll_toks (pass_lines pass (parse_pass pass wsnl toks attr))))
  \/ In i (k_skips (pass_events pass (parse_pass pass wsnl toks attr)) 0).
Proof. apply state_cover. Qed.
End KernelRun.

(* non-vacuity: the pass [0;1;2;3] of `a := b ;` Eof *)
Example grammar_lines_wf_example :
  let pass := [0; 1; 2; 3] in
  increasing pass /\
  map ll_toks (pass_lines pass (parse_pass pass [] [RTT_Identifier; RTT_Op OK_Assign; RTT_Identifier; RTT_Op OK_Semicolon] []))
  = [[0; 1; 2; 3]; []].
Proof.
  split; [|vm_compute; reflexivity].
  repeat (constructor; [repeat (constructor; try lia)|]). constructor.
Qed.
