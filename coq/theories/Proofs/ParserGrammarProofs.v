(* Proofs/ParserGrammarProofs.v — theorems about the grammar model (Model/ParserGrammar.v).
   1. grammar_is_kernel_run: the lines of a pass of the grammar model are the kernel run of its own
      event log — for every input, call, fuel (by construction of the state), hence kernel_lines_wf
      applies to every output of the model.
   2. termination of the leaf loops: with the fuel they give themselves (remaining tokens + 2) the
      out-of-fuel error is never produced, and pass_index never decreases.
   3. get_context_level is within 0..65535 and equals the plain sum when that is in range.
   4. the arithmetic panic sites (usize subtractions) cannot fire on strictly increasing passes.
   No termination proof of `run` (the mutually recursive part) is attempted; that `run` never
   decreases pass_index is in ParserGrammarRunProofs.v. *)
From Coq Require Import Sorted.
From PasfmtVerif Require Import Model.ParserGrammar Proofs.ParserKernelProofs.
Local Open Scope nat_scope.

Lemma map_fst_combine_eq {A B} (a : list A) (b : list B) : length a = length b -> map fst (combine a b) = a.
Proof.
  revert b; induction a as [|x a IH]; intros [|y b] H; cbn in *; try reflexivity; try discriminate.
  f_equal. apply IH. congruence.
Qed.

(* ================================================================== *)
(* 1. kernel run by construction *)
Section KernelRun.
Variable pass : list nat.
Variable wsnl : list bool.

Lemma state_is_kernel_run (s : pstate pass) : kst pass s = k_run pass (pass_events pass s).
Proof. unfold kst, pass_events, kc_st, kc_evs. destruct (ps_core pass s) as [p [H1 H2]]. exact H1. Qed.

Lemma state_meta_length (s : pstate pass) : length (metas pass s) = length (k_lines (kst pass s)).
Proof. unfold metas, kst, kc_meta, kc_st. destruct (ps_core pass s) as [p [H1 H2]]. exact H2. Qed.

Lemma pass_lines_toks (s : pstate pass) : map ll_toks (pass_lines pass s) = k_lines (kst pass s).
Proof.
  unfold pass_lines. rewrite map_map. cbn [ll_toks].
  apply map_fst_combine_eq. symmetry. apply state_meta_length.
Qed.

(* the token lists of the lines returned by any run of the grammar = the kernel run of the returned
   event list *)
Theorem grammar_is_kernel_run fuel c (s : pstate pass) :
  map ll_toks (pass_lines pass (run pass wsnl fuel c s))
  = k_lines (k_run pass (pass_events pass (run pass wsnl fuel c s))).
Proof. rewrite pass_lines_toks, state_is_kernel_run. reflexivity. Qed.

Corollary parse_pass_is_kernel_run toks attr :
  map ll_toks (pass_lines pass (parse_pass pass wsnl toks attr))
  = k_lines (k_run pass (pass_events pass (parse_pass pass wsnl toks attr))).
Proof. apply grammar_is_kernel_run. Qed.

(* hence, for every input and fuel: every line strictly increasing, no token placed twice, only
   tokens of the pass *)
Corollary grammar_lines_wf fuel c (s : pstate pass) :
  increasing pass ->
  let ls := map ll_toks (pass_lines pass (run pass wsnl fuel c s)) in
  Forall increasing ls /\ NoDup (concat ls) /\ incl (concat ls) pass.
Proof. intros Hp ls. subst ls. rewrite grammar_is_kernel_run. apply kernel_lines_wf, Hp. Qed.

Corollary parse_pass_lines_wf toks attr :
  increasing pass ->
  let ls := map ll_toks (pass_lines pass (parse_pass pass wsnl toks attr)) in
  Forall increasing ls /\ NoDup (concat ls) /\ incl (concat ls) pass.
Proof. intros Hp. apply grammar_lines_wf, Hp. Qed.

(* coverage, through kernel_cover: if the pass was consumed, every pass token is in a line or was
   skipped by skip_token *)
Lemma state_cover (s : pstate pass) :
  length pass <= pidx pass s ->
  forall i t, nth_error pass i = Some t ->
  In t (concat (map ll_toks (pass_lines pass s))) \/ In i (k_skips (pass_events pass s) 0).
Proof.
  intros Hend i t Ht. rewrite pass_lines_toks. unfold pidx in Hend.
  generalize (state_is_kernel_run s). generalize dependent (kst pass s). intros k Hend E. subst k.
  apply kernel_cover; assumption.
Qed.
Corollary parse_pass_cover toks attr :
  length pass <= pidx pass (parse_pass pass wsnl toks attr) ->
  forall i t, nth_error pass i = Some t ->
  In t (concat (map ll_toks (pass_lines pass (parse_pass pass wsnl toks attr))))
  \/ In i (k_skips (pass_events pass (parse_pass pass wsnl toks attr)) 0).
Proof. apply state_cover. Qed.
End KernelRun.

(* non-vacuity: the pass [0;1;2;3] of `a := b ;` Eof *)
Example grammar_lines_wf_example :
  let pass := [0; 1; 2; 3] in
  increasing pass /\
  map ll_toks (pass_lines pass (parse_pass pass [] [RTT_Identifier; RTT_Op OK_Assign; RTT_Identifier; RTT_Op OK_Semicolon] []))
  = [[0; 1; 2; 3]; []].
Proof.
  split; [|vm_compute; reflexivity].
  repeat (constructor; [repeat (constructor; try lia)|]). constructor.
Qed.

(* ================================================================== *)
(* 2. termination of the leaf loops *)
Section Leaves.
Variable pass : list nat.
Notation pstate := (pstate pass).
Notation pidx := (pidx pass).
Notation has_err := (has_err pass).
Notation ps_err := (ps_err pass).
Notation remaining := (remaining pass).
Notation cur_tt := (cur_tt pass).

(* "good": after an error the state is returned unchanged; otherwise pass_index does not decrease and
   no out-of-fuel error is produced *)
Definition good (s s' : pstate) : Prop :=
  (has_err s = true -> s' = s) /\
  (has_err s = false -> pidx s <= pidx s' /\ ps_err s' <> Some E_fuel).
(* "advances": started without error, it ends in an error or has consumed at least one token *)
Definition adv (s s' : pstate) : Prop :=
  has_err s = false -> has_err s' = true \/ pidx s < pidx s'.
(* pass_index and error field unchanged *)
Definition same (s s' : pstate) : Prop :=
  (has_err s = true -> s' = s) /\ pidx s' = pidx s /\ ps_err s' = ps_err s.

Lemma has_err_false s : has_err s = false <-> ps_err s = None.
Proof. unfold ParserGrammar.has_err. destruct (ps_err s); split; congruence. Qed.
Lemma has_err_cases s : has_err s = true \/ has_err s = false.
Proof. destruct (has_err s); auto. Qed.

Lemma good_refl s : good s s.
Proof. split; [reflexivity|]. intros H. split; [lia|]. apply has_err_false in H. congruence. Qed.
Lemma good_trans s1 s2 s3 : good s1 s2 -> good s2 s3 -> good s1 s3.
Proof.
  intros [A1 A2] [B1 B2]. split.
  - intros H. pose proof (A1 H) as X. subst s2. apply B1, H.
  - intros H. destruct (A2 H) as [L1 N1]. destruct (has_err_cases s2) as [E|E].
    + rewrite (B1 E). split; assumption.
    + destruct (B2 E) as [L2 N2]. split; [lia|assumption].
Qed.
Lemma same_good s s' : same s s' -> good s s'.
Proof.
  intros (A & B & C). split; [exact A|]. intros H. split; [lia|]. rewrite C. apply has_err_false in H. congruence.
Qed.
Lemma same_refl s : same s s.
Proof. repeat split. Qed.
Lemma same_trans s1 s2 s3 : same s1 s2 -> same s2 s3 -> same s1 s3.
Proof.
  intros (A1 & A2 & A3) (B1 & B2 & B3). repeat split; try congruence.
  intros H. pose proof (A1 H) as X. subst s2. apply B1, H.
Qed.
Lemma adv_good s1 s2 s3 : adv s1 s2 -> good s2 s3 -> adv s1 s3.
Proof.
  intros A [B1 B2] H. destruct (A H) as [E|L].
  - left. rewrite (B1 E). exact E.
  - destruct (has_err_cases s2) as [E|E]; [left; rewrite (B1 E); exact E|]. right. destruct (B2 E). lia.
Qed.
Lemma good_adv s1 s2 s3 : good s1 s2 -> good s2 s3 -> adv s2 s3 -> adv s1 s3.
Proof.
  intros [A1 A2] [B1 B2] C H. destruct (A2 H) as [L _]. destruct (has_err_cases s2) as [E|E].
  - left. rewrite (B1 E). exact E.
  - destruct (C E) as [E3|L3]; [left; exact E3|right; lia].
Qed.
Lemma same_adv s1 s2 s3 : same s1 s2 -> good s2 s3 -> adv s2 s3 -> adv s1 s3.
Proof. intros A. apply good_adv, same_good, A. Qed.

(* ---------------- primitives *)
Lemma kst_emit e m (c : kcore pass) : kc_st pass (emit pass e m c) = k_step pass (kc_st pass c) e.
Proof. destruct c as [p H]. reflexivity. Qed.
Lemma kst_set_meta i f (c : kcore pass) : kc_st pass (set_meta pass i f c) = kc_st pass c.
Proof. destruct c as [p H]. reflexivity. Qed.

Lemma guard_same f s : (has_err s = false -> pidx (f s) = pidx s /\ ps_err (f s) = ps_err s) -> same s (guard pass f s).
Proof.
  intros H. unfold guard. destruct (has_err s) eqn:E; [apply same_refl|].
  destruct (H eq_refl) as [A B]. split; [intros X; congruence|split; assumption].
Qed.

Lemma same_set_tok i t s : same s (set_tok pass i t s).
Proof. apply guard_same. intros _. split; reflexivity. Qed.
Lemma same_upd_cur f s : same s (upd_cur pass f s).
Proof.
  unfold upd_cur. destruct (idx0 pass s); [|apply same_refl].
  destruct (bind _ f); [apply same_set_tok|apply same_refl].
Qed.
Lemma same_p_set_meta i f s : same s (p_set_meta pass i f s).
Proof.
  apply guard_same. intros _. split; [|reflexivity].
  unfold ParserGrammar.pidx, kst. cbn. rewrite kst_set_meta. reflexivity.
Qed.
Lemma same_set_line_type t s : same s (set_line_type pass t s).
Proof. apply same_p_set_meta. Qed.

Lemma pidx_emit e m s : has_err s = false ->
  pidx (p_emit pass e m s) = k_pi (k_step pass (kst pass s) e) /\ ps_err (p_emit pass e m s) = ps_err s.
Proof.
  intros E. unfold p_emit, guard. rewrite E. split; [|reflexivity].
  unfold ParserGrammar.pidx, kst. cbn. rewrite kst_emit. reflexivity.
Qed.
Lemma k_pi_KT st : k_pi (k_step pass st KT) = S (k_pi st).
Proof. cbn. destruct (nth_error pass (k_pi st)); reflexivity. Qed.
Lemma p_emit_err e m s : has_err s = true -> p_emit pass e m s = s.
Proof. intros E. unfold p_emit, guard. rewrite E. reflexivity. Qed.

Lemma cur_tt_lt s : cur_tt s <> None -> pidx s < length pass.
Proof.
  unfold ParserGrammar.cur_tt, idx0, cur_index. intros H. apply nth_error_Some.
  destruct (nth_error pass (pidx s)); [discriminate|]. exfalso. apply H. reflexivity.
Qed.
Lemma cur_tt_some_lt s t : cur_tt s = Some t -> pidx s < length pass.
Proof. intros H. apply cur_tt_lt. congruence. Qed.

(* ---------------- next_token *)
Lemma track_levels_same s : pidx (track_levels pass s) = pidx s /\ ps_err (track_levels pass s) = ps_err s
                            /\ has_err (track_levels pass s) = has_err s.
Proof.
  unfold track_levels.
  destruct (cur_tt s) as [[[]| | | | | | | | | |]|]; repeat split.
Qed.
Lemma next_token_body_spec s : has_err s = false ->
  pidx (next_token_body pass s) = S (pidx s) /\ ps_err (next_token_body pass s) = ps_err s.
Proof.
  intros E. unfold next_token_body.
  set (s1 := match cur_index pass s, cur_tt s with
             | Some i, Some RTT_CompilerDirective => if existsb (Nat.eqb i) (ps_attr pass s) then s else set_attr pass (i :: ps_attr pass s) s
             | _, _ => s end).
  assert (H1 : pidx s1 = pidx s /\ ps_err s1 = ps_err s /\ has_err s1 = has_err s).
  { subst s1. destruct (cur_index pass s); [|repeat split].
    destruct (cur_tt s) as [[]|]; try (repeat split; fail).
    destruct (existsb _ _); repeat split. }
  destruct H1 as (P1 & E1 & H1). destruct (track_levels_same s1) as (P2 & E2 & H2).
  destruct (pidx_emit KT lm0 (track_levels pass s1)) as [A B]; [congruence|].
  rewrite A, B. unfold kst. rewrite k_pi_KT. fold (kst pass (track_levels pass s1)).
  change (k_pi (kst pass (track_levels pass s1))) with (pidx (track_levels pass s1)).
  split; congruence.
Qed.

Lemma next_token_go_err fuel s : has_err s = true -> next_token_go pass fuel s = s.
Proof. intros E. destruct fuel; cbn; [unfold fail|]; rewrite E; reflexivity. Qed.

Lemma next_token_go_spec : forall fuel s, remaining s + 1 <= fuel ->
  good s (next_token_go pass fuel s) /\ adv s (next_token_go pass fuel s).
Proof.
  induction fuel as [|f IH]; intros s Hf; [lia|].
  cbn [next_token_go]. destruct (has_err s) eqn:E.
  { split; [apply good_refl|]. intros H; congruence. }
  destruct (next_token_body_spec s E) as [P1 E1].
  assert (G1 : good s (next_token_body pass s)).
  { split; [congruence|]. intros _. split; [lia|]. rewrite E1. apply has_err_false in E. congruence. }
  assert (A1 : adv s (next_token_body pass s)) by (intros _; right; lia).
  destruct (is_inline_comment (cur_tt (next_token_body pass s))) eqn:C; [|split; assumption].
  assert (L : pidx (next_token_body pass s) < length pass).
  { apply cur_tt_lt. destruct (cur_tt (next_token_body pass s)); [discriminate|discriminate C]. }
  destruct (IH (next_token_body pass s)) as [G2 A2].
  { unfold ParserGrammar.remaining in *. lia. }
  split; [eapply good_trans; eassumption|eapply adv_good; eassumption].
Qed.
Theorem next_token_good s : good s (next_token pass s).
Proof. apply next_token_go_spec. unfold ParserGrammar.remaining. lia. Qed.
Theorem next_token_adv s : adv s (next_token pass s).
Proof. apply next_token_go_spec. unfold ParserGrammar.remaining. lia. Qed.

(* ---------------- fuel bookkeeping of the loops *)
Lemma step_fuel s s1 f : has_err s = false -> adv s s1 -> pidx s < length pass -> remaining s + 1 <= S f ->
  has_err s1 = true \/ remaining s1 + 1 <= f.
Proof. intros E A L F. destruct (A E) as [E1|L1]; [left; exact E1|right]. unfold ParserGrammar.remaining in *. lia. Qed.
Lemma fail_good e s : has_err s = true -> good s (fail pass e s).
Proof. intros E. unfold fail. rewrite E. apply good_refl. Qed.
Lemma fuel0 s : has_err s = true \/ remaining s + 1 <= 0 -> has_err s = true.
Proof. intros [E|F]; [exact E|lia]. Qed.

(* ---------------- skip_pair *)
Lemma skip_pair_go_spec : forall fuel p b g chev s, has_err s = true \/ remaining s + 1 <= fuel ->
  good s (skip_pair_go pass fuel p b g chev s).
Proof.
  induction fuel as [|f IH]; intros p b g chev s Hf.
  - cbn. apply fail_good, fuel0, Hf.
  - cbn [skip_pair_go]. destruct (has_err s) eqn:E; [apply good_refl|].
    destruct Hf as [Hf|Hf]; [congruence|].
    match goal with |- good _ (if ?c then _ else _) => destruct c eqn:C end; [|apply good_refl].
    apply andb_true_iff in C. destruct C as [_ C].
    assert (L : pidx s < length pass) by (apply cur_tt_lt; destruct (cur_tt s); [discriminate|discriminate C]).
    eapply good_trans; [apply next_token_good|]. apply IH.
    eapply step_fuel; [exact E|apply next_token_adv|exact L|exact Hf].
Qed.
Theorem skip_pair_good s : good s (skip_pair pass s).
Proof.
  unfold skip_pair. eapply good_trans; [apply next_token_good|]. apply skip_pair_go_spec. right.
  unfold ParserGrammar.remaining. lia.
Qed.
Theorem skip_pair_adv s : adv s (skip_pair pass s).
Proof.
  unfold skip_pair. eapply adv_good; [apply next_token_adv|]. apply skip_pair_go_spec. right.
  unfold ParserGrammar.remaining. lia.
Qed.

(* ---------------- op_until / take_until *)
Definition op_ok (op : pstate -> pstate * bool) : Prop :=
  forall s, has_err s = false -> cur_tt s <> None ->
  good s (fst (op s)) /\ (snd (op s) = true -> adv s (fst (op s))).
Lemma op_until_go_spec pred op : op_ok op ->
  forall fuel s, has_err s = true \/ remaining s + 1 <= fuel -> good s (op_until_go pass fuel pred op s).
Proof.
  intros Hop. induction fuel as [|f IH]; intros s Hf.
  - cbn. apply fail_good, fuel0, Hf.
  - cbn [op_until_go]. destruct (has_err s) eqn:E; [apply good_refl|].
    destruct Hf as [Hf|Hf]; [congruence|].
    destruct (cur_tt s) as [t|] eqn:C; [|apply good_refl].
    destruct (pred s); [apply good_refl|]. destruct (is_ending pass s); [apply good_refl|].
    assert (L : pidx s < length pass) by (eapply cur_tt_some_lt, C).
    destruct (Hop s E) as [G A]; [congruence|]. destruct (op s) as [s1 cont]. cbn [fst snd] in *.
    destruct cont; [|exact G].
    eapply good_trans; [exact G|]. apply IH. eapply step_fuel; [exact E|apply A; reflexivity|exact L|exact Hf].
Qed.
Theorem op_until_good pred op s : op_ok op -> good s (op_until pass pred op s).
Proof. intros H. apply op_until_go_spec; [exact H|]. right. unfold ParserGrammar.remaining. lia. Qed.
Lemma next_token_op_ok : op_ok (fun s => (next_token pass s, true)).
Proof. intros s E C. cbn. split; [apply next_token_good|intros _; apply next_token_adv]. Qed.
Theorem take_until_good pred s : good s (take_until pass pred s).
Proof. apply op_until_good, next_token_op_ok. Qed.
Corollary take_until_no_more_separators_good s : good s (take_until pass (no_more_separators pass) s).
Proof. apply take_until_good. Qed.

(* ---------------- automation for straight-line code *)
Lemma good_same_step (f : pstate -> pstate) s e : (forall x, same x (f x)) -> good s e -> good s (f e).
Proof. intros H G. eapply good_trans; [exact G|apply same_good, H]. Qed.
Lemma good_step (f : pstate -> pstate) s e : (forall x, good x (f x)) -> good s e -> good s (f e).
Proof. intros H G. eapply good_trans; [exact G|apply H]. Qed.
Lemma adv_step (f : pstate -> pstate) s e : (forall x, good x (f x)) -> (forall x, adv x (f x)) -> good s e -> adv s (f e).
Proof. intros H A G. eapply good_adv; [exact G|apply H|apply A]. Qed.
Lemma adv_outer (f : pstate -> pstate) s e : (forall x, good x (f x)) -> adv s e -> adv s (f e).
Proof. intros H A. eapply adv_good; [exact A|apply H]. Qed.

Lemma same_consolidate_current_ident s : same s (consolidate_current_ident pass s).
Proof. apply same_upd_cur. Qed.
Lemma same_consolidate_current_keyword s : same s (consolidate_current_keyword pass s).
Proof. apply same_upd_cur. Qed.
Lemma same_set_current_token_type t s : same s (set_current_token_type pass t s).
Proof. apply same_upd_cur. Qed.
Lemma same_set_current_decl_kind d s : same s (set_current_decl_kind pass d s).
Proof. apply same_upd_cur. Qed.
Lemma same_caret s : same s (consolidate_current_caret_to_type pass s).
Proof. apply same_upd_cur. Qed.

Ltac gd :=
  lazymatch goal with
  | |- good ?s ?s => apply good_refl
  | |- good _ (next_token pass _) => apply good_step; [apply next_token_good|gd]
  | |- good _ (skip_pair pass _) => apply good_step; [apply skip_pair_good|gd]
  | |- good _ (consolidate_current_ident pass _) => apply good_same_step; [apply same_consolidate_current_ident|gd]
  | |- good _ (consolidate_current_keyword pass _) => apply good_same_step; [apply same_consolidate_current_keyword|gd]
  | |- good _ (set_current_token_type pass ?t _) => apply (good_same_step (set_current_token_type pass t)); [apply same_set_current_token_type|gd]
  | |- good _ (set_current_decl_kind pass ?d _) => apply (good_same_step (set_current_decl_kind pass d)); [apply same_set_current_decl_kind|gd]
  | |- good _ (consolidate_current_caret_to_type pass _) => apply good_same_step; [apply same_caret|gd]
  | |- good _ (if ?b then _ else _) => destruct b; gd
  end.
Ltac av :=
  lazymatch goal with
  | |- adv _ (next_token pass _) => apply adv_step; [apply next_token_good|apply next_token_adv|gd]
  | |- adv _ (skip_pair pass _) => apply adv_step; [apply skip_pair_good|apply skip_pair_adv|gd]
  | |- adv _ (consolidate_current_ident pass _) => apply adv_outer; [intros; apply same_good, same_consolidate_current_ident|av]
  | |- adv _ (consolidate_current_keyword pass _) => apply adv_outer; [intros; apply same_good, same_consolidate_current_keyword|av]
  | |- adv _ (set_current_decl_kind pass ?d _) => apply (adv_outer (set_current_decl_kind pass d)); [intros; apply same_good, same_set_current_decl_kind|av]
  | |- adv _ (consolidate_current_caret_to_type pass _) => apply adv_outer; [intros; apply same_good, same_caret|av]
  | |- adv _ (if ?b then _ else _) => destruct b; av
  end.

(* ---------------- parse_expression *)
Lemma parse_expression_go_spec : forall fuel s, has_err s = true \/ remaining s + 1 <= fuel ->
  good s (parse_expression_go pass fuel s).
Proof.
  induction fuel as [|f IH]; intros s Hf.
  - cbn. apply fail_good, fuel0, Hf.
  - cbn [parse_expression_go]. destruct (has_err s) eqn:E; [apply good_refl|].
    destruct Hf as [Hf|Hf]; [congruence|].
    destruct (cur_tt s) as [t|] eqn:C; [|apply good_refl].
    assert (L : pidx s < length pass) by (eapply cur_tt_some_lt, C).
    assert (K : forall e, good s e -> adv s e -> good s (parse_expression_go pass f e)).
    { intros e G A. eapply good_trans; [exact G|]. apply IH. eapply step_fuel; eassumption. }
    destruct t as [o| |k|k|k|k|k| |k| |];
      try (cbn [is_operator]; first [apply good_refl|apply K; [gd|av]]; fail).
    + (* Op *)
      cbn [is_operator].
      assert (KO : good s (parse_expression_go pass f
                   (match cur_tt (next_token pass s) with
                    | Some (RTT_IdentifierOrKeyword _) => next_token pass (consolidate_current_ident pass (next_token pass s))
                    | Some (RTT_Identifier | RTT_TextLiteral _ | RTT_NumberLiteral _) => next_token pass (next_token pass s)
                    | _ => next_token pass s end))).
      { apply K; destruct (cur_tt (next_token pass s)) as [[]|]; first [gd|av]. }
      destruct o as [| | | | | | | |e| |c| |c| | | | | |c| | |]; try exact KO; try apply good_refl; try (apply K; [gd|av]); gd.
    + (* Keyword *)
      destruct (is_operator (RTT_Keyword k)); [|apply good_refl].
      apply K; destruct (cur_tt (next_token pass s)) as [[]|]; first [gd|av].
Qed.
Theorem parse_expression_good s : good s (parse_expression pass s).
Proof.
  assert (K : forall e, good s e -> good s (parse_expression_go pass (remaining e + 2) e)).
  { intros e G. eapply good_trans; [exact G|]. apply parse_expression_go_spec. right. lia. }
  unfold parse_expression.
  destruct (cur_tt s) as [[o| |k|k|k|k|k| |k| |]|]; try (apply K; gd).
  - destruct o as [| | | | | | | |e| |c| |c| | | | | |c| | |]; try (apply K; gd); apply good_refl.
  - destruct (is_operator (RTT_Keyword k)); [apply K; gd|apply good_refl].
Qed.


(* ---------------- fix_next_eq / parse_parameter_list *)
Lemma fix_next_eq_go_same s l : same s (fix_next_eq_go pass s l).
Proof.
  induction l as [|i r IH]; cbn [fix_next_eq_go]; [apply same_refl|].
  destruct (tt_at pass s i) as [[o| |k|k|k|k|k| |k| |]|]; try exact IH; try apply same_refl.
  destruct o as [| | | | | | | |e| |c| |c| | | | | |c| | |]; try exact IH; try apply same_refl.
  destruct e; [apply same_refl|apply same_set_tok].
Qed.
Theorem fix_next_eq_same s : same s (fix_next_eq pass s).
Proof. apply fix_next_eq_go_same. Qed.

Ltac gd2 :=
  lazymatch goal with
  | |- good ?s ?s => apply good_refl
  | |- good _ (next_token pass _) => apply good_step; [apply next_token_good|gd2]
  | |- good _ (skip_pair pass _) => apply good_step; [apply skip_pair_good|gd2]
  | |- good _ (parse_expression pass _) => apply good_step; [apply parse_expression_good|gd2]
  | |- good _ (take_until pass ?p _) => apply (good_step (take_until pass p)); [apply take_until_good|gd2]
  | |- good _ (fix_next_eq pass _) => apply good_same_step; [apply fix_next_eq_same|gd2]
  | |- good _ (consolidate_current_ident pass _) => apply good_same_step; [apply same_consolidate_current_ident|gd2]
  | |- good _ (consolidate_current_keyword pass _) => apply good_same_step; [apply same_consolidate_current_keyword|gd2]
  | |- good _ (set_current_token_type pass ?t _) => apply (good_same_step (set_current_token_type pass t)); [apply same_set_current_token_type|gd2]
  | |- good _ (set_current_decl_kind pass ?d _) => apply (good_same_step (set_current_decl_kind pass d)); [apply same_set_current_decl_kind|gd2]
  | |- good _ (consolidate_current_caret_to_type pass _) => apply good_same_step; [apply same_caret|gd2]
  | |- good _ (if ?b then _ else _) => destruct b; gd2
  end.
Ltac av2 :=
  lazymatch goal with
  | |- adv _ (next_token pass _) => apply adv_step; [apply next_token_good|apply next_token_adv|gd2]
  | |- adv _ (skip_pair pass _) => apply adv_step; [apply skip_pair_good|apply skip_pair_adv|gd2]
  | |- adv _ (parse_expression pass _) => apply adv_outer; [apply parse_expression_good|av2]
  | |- adv _ (take_until pass ?p _) => apply (adv_outer (take_until pass p)); [apply take_until_good|av2]
  | |- adv _ (consolidate_current_ident pass _) => apply adv_outer; [intros; apply same_good, same_consolidate_current_ident|av2]
  | |- adv _ (consolidate_current_keyword pass _) => apply adv_outer; [intros; apply same_good, same_consolidate_current_keyword|av2]
  | |- adv _ (set_current_decl_kind pass ?d _) => apply (adv_outer (set_current_decl_kind pass d)); [intros; apply same_good, same_set_current_decl_kind|av2]
  | |- adv _ (consolidate_current_caret_to_type pass _) => apply adv_outer; [intros; apply same_good, same_caret|av2]
  | |- adv _ (if ?b then _ else _) => destruct b; av2
  end.

Lemma param_window_good s : good s (param_window pass s).
Proof. unfold param_window. cbv zeta. gd2. Qed.

Lemma parameter_list_go_spec : forall fuel p0 consumed s, has_err s = true \/ remaining s + 1 <= fuel ->
  good s (parameter_list_go pass fuel p0 consumed s).
Proof.
  induction fuel as [|f IH]; intros p0 consumed s Hf.
  - cbn. apply fail_good, fuel0, Hf.
  - cbn [parameter_list_go]. destruct (has_err s) eqn:E; [apply good_refl|].
    destruct Hf as [Hf|Hf]; [congruence|].
    match goal with |- good _ (if ?c then _ else _) => destruct c end; [apply good_refl|].
    destruct (cur_tt s) as [t|] eqn:C; [|apply good_refl].
    assert (L : pidx s < length pass) by (eapply cur_tt_some_lt, C).
    set (s1 := match t with RTT_Op (OK_Semicolon | OK_LParen) => fix_next_eq pass s | _ => s end).
    assert (G1 : good s s1).
    { subst s1. destruct t as [o| |k|k|k|k|k| |k| |]; try apply good_refl.
      destruct o; try apply good_refl; apply same_good, fix_next_eq_same. }
    assert (G2 : good s (param_window pass s1)) by (eapply good_trans; [exact G1|apply param_window_good]).
    eapply good_trans; [apply good_step; [apply next_token_good|exact G2]|].
    apply IH. eapply step_fuel; [exact E| |exact L|exact Hf].
    apply adv_step; [apply next_token_good|apply next_token_adv|exact G2].
Qed.
Theorem parse_parameter_list_good s : good s (parse_parameter_list pass s).
Proof. apply parameter_list_go_spec. right. lia. Qed.
Lemma parse_parameter_list_adv s : cur_tt s <> None -> adv s (parse_parameter_list pass s).
Proof.
  intros C. destruct (has_err s) eqn:E; [intros X; congruence|].
  unfold parse_parameter_list. replace (remaining s + 2) with (S (remaining s + 1)) by lia.
  cbn [parameter_list_go]. rewrite E. cbn [andb].
  destruct (cur_tt s) as [t|] eqn:Ct; [|congruence].
  set (s1 := match t with RTT_Op (OK_Semicolon | OK_LParen) => fix_next_eq pass s | _ => s end).
  assert (G1 : good s s1).
  { subst s1. destruct t as [o| |k|k|k|k|k| |k| |]; try apply good_refl.
    destruct o; try apply good_refl; apply same_good, fix_next_eq_same. }
  assert (G2 : good s (param_window pass s1)) by (eapply good_trans; [exact G1|apply param_window_good]).
  assert (L : pidx s < length pass) by (eapply cur_tt_some_lt, Ct).
  assert (A3 : adv s (next_token pass (param_window pass s1)))
    by (apply adv_step; [apply next_token_good|apply next_token_adv|exact G2]).
  eapply adv_good; [exact A3|].
  apply parameter_list_go_spec.
  eapply step_fuel; [exact E|exact A3|exact L|lia].
Qed.

(* ---------------- parse_routine_header *)
Lemma routine_header_op_ok : op_ok (routine_header_op pass).
Proof.
  intros s E C. unfold routine_header_op. cbv zeta.
  match goal with |- context [if ?b then (_, true) else _] => destruct b end.
  { cbn [fst snd]. split; [gd2|intros _; av2]. }
  destruct (cur_tt s) as [t|] eqn:Ct; [|congruence].
  assert (PL : good s (parse_parameter_list pass s) /\ adv s (parse_parameter_list pass s)).
  { split; [apply parse_parameter_list_good|apply parse_parameter_list_adv; congruence]. }
  destruct t as [o| |k|k|k|k|k| |k| |];
    try (cbn [fst snd]; split; [gd2|intros _; av2]; fail).
  - destruct o as [| | | | | | | |e| |c| |c| | | | | |c| | |];
      try (cbn [fst snd]; split; [gd2|intros _; av2]; fail).
    + cbn [fst snd]. split; [apply PL|intros _; apply PL].
    + destruct c; cbn [fst snd]; (split; [gd2|intros _; av2]).
  - repeat match goal with |- context [if ?b then _ else _] => destruct b end;
      cbn [fst snd]; (split; [gd2|intros X; try discriminate X; av2]).
  - repeat match goal with |- context [if ?b then _ else _] => destruct b end;
      cbn [fst snd]; (split; [gd2|intros X; try discriminate X; av2]).
Qed.
Theorem parse_routine_header_good s : good s (parse_routine_header pass s).
Proof.
  unfold parse_routine_header.
  eapply good_trans; [|apply take_until_good].
  eapply good_trans; [apply next_token_good|]. apply op_until_good, routine_header_op_ok.
Qed.


(* ---------------- the remaining leaves *)
(* without the unchanged-on-error clause: for code that runs under a `guard` *)
Definition mono (s s' : pstate) : Prop := pidx s <= pidx s' /\ (ps_err s <> Some E_fuel -> ps_err s' <> Some E_fuel).
Lemma mono_refl s : mono s s.
Proof. split; [lia|auto]. Qed.
Lemma mono_trans s1 s2 s3 : mono s1 s2 -> mono s2 s3 -> mono s1 s3.
Proof. intros [A1 A2] [B1 B2]. split; [lia|auto]. Qed.
Lemma good_mono s s' : good s s' -> mono s s'.
Proof.
  intros [A B]. destruct (has_err_cases s) as [E|E].
  - rewrite (A E). apply mono_refl.
  - destruct (B E) as [L N]. split; [exact L|intros _; exact N].
Qed.
Lemma guard_good f s : (has_err s = false -> mono s (f s)) -> good s (guard pass f s).
Proof.
  intros H. unfold guard. destruct (has_err s) eqn:E; [apply good_refl|].
  destruct (H eq_refl) as [L N]. split; [congruence|]. intros _. split; [exact L|].
  apply N. apply has_err_false in E. congruence.
Qed.
Lemma mono_step (f : pstate -> pstate) s e : (forall x, good x (f x)) -> mono s e -> mono s (f e).
Proof. intros H M. eapply mono_trans; [exact M|apply good_mono, H]. Qed.

Lemma k_pi_step_ge st e : k_pi st <= k_pi (k_step pass st e).
Proof. destruct e; cbn; try lia. destruct (nth_error pass (k_pi st)); cbn; lia. Qed.
Lemma p_emit_good e m s : good s (p_emit pass e m s).
Proof.
  split; [apply p_emit_err|]. intros E. destruct (pidx_emit e m s E) as [A B]. rewrite A, B.
  split; [apply k_pi_step_ge|]. apply has_err_false in E. congruence.
Qed.
Lemma skip_token_good s : good s (skip_token pass s).
Proof. apply p_emit_good. Qed.
Lemma same_push_ctx c s : same s (push_ctx pass c s).
Proof. apply guard_same. intros _. split; reflexivity. Qed.
Lemma same_pop_ctx s : same s (pop_ctx pass s).
Proof. apply guard_same. intros _. split; reflexivity. Qed.
Lemma same_update_statuses k s : same s (update_statuses pass k s).
Proof. apply guard_same. intros _. split; reflexivity. Qed.
Lemma fail_panic_good site s : good s (fail pass (E_panic site) s).
Proof.
  unfold fail. destruct (has_err s) eqn:E; [apply good_refl|]. split; [congruence|]. intros _. split; [apply Nat.le_refl|cbn; discriminate].
Qed.

Ltac good_lemma := first
  [ apply next_token_good | apply skip_pair_good | apply parse_expression_good | apply take_until_good
  | apply parse_parameter_list_good | apply parse_routine_header_good | apply p_emit_good | apply fail_panic_good
  | apply same_good; first [ apply same_upd_cur | apply same_set_tok | apply same_set_line_type | apply same_p_set_meta
                           | apply same_push_ctx | apply same_pop_ctx | apply fix_next_eq_same | apply same_update_statuses ] ].
Ltac gd3 tac :=
  lazymatch goal with
  | |- good ?s ?s => apply good_refl
  | |- good _ (if ?b then _ else _) => destruct b; gd3 tac
  | |- good _ (match ?x with _ => _ end) => destruct x; gd3 tac
  | |- good _ (?f ?e) => apply (good_step f); [intros; first [good_lemma|tac]|gd3 tac]
  end.
Ltac av3 tac :=
  lazymatch goal with
  | |- adv _ (if ?b then _ else _) => destruct b; av3 tac
  | |- adv _ (match ?x with _ => _ end) => destruct x; av3 tac
  | |- adv _ (next_token pass _) => apply adv_step; [apply next_token_good|apply next_token_adv|gd3 tac]
  | |- adv _ (skip_pair pass _) => apply adv_step; [apply skip_pair_good|apply skip_pair_adv|gd3 tac]
  | |- adv _ (?f ?e) => apply (adv_outer f); [intros; first [good_lemma|tac]|av3 tac]
  end.

(* consolidate_portability_directives *)
Lemma portability_go_same : forall li s, same s (portability_go pass li s).
Proof.
  induction li as [|p IH]; intros s; cbn [portability_go].
  - destruct (nth_error (cur_toks pass s) 0); [|apply same_refl].
    repeat match goal with |- same _ (if ?b then _ else _) => destruct b; [apply same_refl|] end.
    destruct (tt_at pass s n) as [[o| |k|k|k|k|k| |k| |]|]; try apply same_refl.
    destruct k; first [apply same_refl|apply same_set_tok].
  - destruct (nth_error (cur_toks pass s) (S p)); [|apply same_refl].
    repeat match goal with |- same _ (if ?b then _ else _) => destruct b; [apply same_refl|] end.
    eapply same_trans; [|apply IH].
    destruct (tt_at pass s n) as [[o| |k|k|k|k|k| |k| |]|]; try apply same_refl.
    destruct k; first [apply same_refl|apply same_set_tok].
Qed.
Lemma consolidate_portability_directives_good s : good s (consolidate_portability_directives pass s).
Proof.
  unfold consolidate_portability_directives.
  destruct (negb _); [apply good_refl|].
  destruct (length (cur_toks pass s)); [apply fail_panic_good|]. cbv zeta.
  destruct (o_semicolon _); [|apply same_good, portability_go_same].
  destruct (skip_trailing_comments pass s n); [apply good_refl|apply same_good, portability_go_same].
Qed.

(* the inline-comment loop of finish_logical_line *)
Lemma inline_comments_go_spec : forall fuel s, has_err s = true \/ remaining s + 1 <= fuel ->
  good s (inline_comments_go pass fuel s).
Proof.
  induction fuel as [|f IH]; intros s Hf.
  - cbn. apply fail_good, fuel0, Hf.
  - cbn [inline_comments_go]. destruct (has_err s) eqn:E; [apply good_refl|].
    destruct Hf as [Hf|Hf]; [congruence|].
    destruct (cur_index pass s) eqn:C; [|apply good_refl].
    destruct (is_inline_comment (cur_tt s)); [|apply good_refl].
    assert (L : pidx s < length pass) by (apply nth_error_Some; unfold cur_index in C; congruence).
    eapply good_trans; [apply p_emit_good|]. apply IH.
    destruct (pidx_emit KT lm0 s E) as [A B]. right.
    unfold ParserGrammar.remaining in *. rewrite A. unfold kst. rewrite k_pi_KT.
    change (k_pi (kc_st pass (ps_core pass s))) with (pidx s). lia.
Qed.

Lemma fold_set_meta_same (g : nat -> lmeta -> lmeta) : forall l s,
  same s (fold_left (fun s r => p_set_meta pass r (g r) s) l s).
Proof.
  induction l as [|r l IH]; intros s; cbn [fold_left]; [apply same_refl|].
  eapply same_trans; [apply same_p_set_meta|apply IH].
Qed.

Lemma mono_set_unfinished u b s e : mono s e -> mono s (set_unfinished pass u b e).
Proof. intros [A B]. split; [exact A|exact B]. Qed.
Theorem finish_logical_line_good s : good s (finish_logical_line pass s).
Proof.
  unfold finish_logical_line. apply guard_good. intros E.
  destruct (at_start pass s); [apply good_mono, same_good, same_set_line_type|].
  set (s1 := consolidate_portability_directives pass s).
  set (s2 := inline_comments_go pass (remaining s1 + 2) s1).
  assert (M2 : mono s s2).
  { eapply mono_trans; [apply good_mono, consolidate_portability_directives_good|].
    apply good_mono, inline_comments_go_spec. right. lia. }
  destruct (get_context_level pass s2) as [parent lvl].
  apply mono_step; [intros; apply p_emit_good|].
  apply mono_step; [intros; apply same_good, same_p_set_meta|].
  apply mono_set_unfinished.
  destruct (ps_cur_unfinished pass s2); [exact M2|].
  apply mono_set_unfinished. eapply mono_trans; [exact M2|].
  apply good_mono, same_good.
  apply (fold_set_meta_same (fun _ m => mkLM (lm_parent m) lvl (lm_type m))).
Qed.
Theorem make_unfinished_line_good s : good s (make_unfinished_line pass s).
Proof.
  unfold make_unfinished_line. apply guard_good. intros E.
  apply mono_step; [apply finish_logical_line_good|]. apply mono_set_unfinished, mono_refl.
Qed.

Ltac gl := first [apply finish_logical_line_good | apply make_unfinished_line_good].

(* simple ops *)
Lemma keyword_consolidator_ok p : op_ok (fun s => (keyword_consolidator pass p s, true)).
Proof.
  intros s E C. cbn [fst snd]. unfold keyword_consolidator. split; [gd3 gl|intros _; av3 gl].
Qed.
Lemma parse_exports_op_ok : op_ok (fun s => (parse_exports_op pass s, true)).
Proof.
  intros s E C. cbn [fst snd]. unfold parse_exports_op.
  split; [gd3 gl|intros _; av3 gl].
Qed.
Lemma property_op_ok : op_ok (fun s => (property_op pass s, true)).
Proof.
  intros s E C. cbn [fst snd]. unfold property_op. cbv zeta.
  repeat match goal with |- context [if ?b then _ else _] => destruct b end;
    try (split; [gd3 gl|intros _; av3 gl]; fail).
  all: destruct (cur_tt s) as [[o| |k|k|k|k|k| |k| |]|];
    repeat match goal with |- context [if ?b then _ else _] => destruct b end;
    (split; [gd3 gl|intros _; av3 gl]).
Qed.

Theorem parse_property_declaration_good s : good s (parse_property_declaration pass s).
Proof.
  unfold parse_property_declaration. cbv zeta.
  apply good_step; [apply finish_logical_line_good|].
  match goal with |- good _ (match ?x with _ => _ end) => destruct x as [k|] end.
  2: { eapply good_trans; [|apply op_until_good, property_op_ok]. gd3 gl. }
  assert (G : good s (simple_op_until pass
              (fun s0 => after_semicolon pass s0 &&
                 (outside_parens pass (ps_paren pass (parse_expression pass (next_token pass (set_line_type pass LLT_PropertyDeclaration s)))) s0 &&
                  outside_bracks pass (ps_brack pass (parse_expression pass (next_token pass (set_line_type pass LLT_PropertyDeclaration s)))) s0))
              (property_op pass) (parse_expression pass (next_token pass (set_line_type pass LLT_PropertyDeclaration s))))).
  { eapply good_trans; [|apply op_until_good, property_op_ok]. gd3 gl. }
  destruct k; try exact G.
  apply (good_step (take_until pass (no_more_separators pass))); [intros; apply take_until_good|].
  apply good_step; [intros; apply next_token_good|].
  apply good_same_step; [intros; apply same_consolidate_current_keyword|]. exact G.
Qed.

(* parse_asm_instructions *)
Lemma add_asm_instruction_line_good s : good s (add_asm_instruction_line pass s).
Proof. unfold add_asm_instruction_line. gd3 gl. Qed.
Lemma idx0_lt s i : idx0 pass s = Some i -> pidx s < length pass.
Proof.
  unfold idx0, cur_index. intros H. apply nth_error_Some. destruct (nth_error pass (pidx s)); [discriminate|discriminate H].
Qed.
Section Asm.
Variable wsnl : list bool.
Lemma asm_instructions_go_spec : forall fuel s, has_err s = true \/ remaining s + 1 <= fuel ->
  good s (asm_instructions_go pass wsnl fuel s).
Proof.
  induction fuel as [|f IH]; intros s Hf.
  - cbn. apply fail_good, fuel0, Hf.
  - cbn [asm_instructions_go]. destruct (has_err s) eqn:E; [apply good_refl|].
    destruct Hf as [Hf|Hf]; [congruence|].
    destruct (idx0 pass s) as [i|] eqn:C; [|apply good_refl].
    assert (L : pidx s < length pass) by (eapply idx0_lt, C).
    assert (K : forall e, good s e -> adv s e -> good s (asm_instructions_go pass wsnl f e)).
    { intros e G A. eapply good_trans; [exact G|]. apply IH. eapply step_fuel; eassumption. }
    assert (A1 : good s (add_asm_instruction_line pass (next_token pass s)) /\ adv s (add_asm_instruction_line pass (next_token pass s))).
    { split; [apply good_step; [apply add_asm_instruction_line_good|apply next_token_good]|].
      apply adv_outer; [apply add_asm_instruction_line_good|apply next_token_adv]. }
    assert (A2 : good s (next_token pass (add_asm_instruction_line pass s)) /\ adv s (next_token pass (add_asm_instruction_line pass s))).
    { split; [apply good_step; [apply next_token_good|apply add_asm_instruction_line_good]|].
      apply adv_step; [apply next_token_good|apply next_token_adv|apply add_asm_instruction_line_good]. }
    assert (A3 : good s (next_token pass s) /\ adv s (next_token pass s)) by (split; [apply next_token_good|apply next_token_adv]).
    assert (D : good s (if nth i wsnl false then asm_instructions_go pass wsnl f (next_token pass (add_asm_instruction_line pass s))
                        else asm_instructions_go pass wsnl f (next_token pass s))).
    { destruct (nth i wsnl false); apply K; first [apply A2|apply A3]. }
    destruct (tt_at pass s i) as [[o| |k|k|k|k|k| |k| |]|]; try exact D; try apply good_refl.
    + destruct o; try exact D. apply K; apply A1.
    + destruct k; try exact D; apply good_refl.
Qed.
Theorem parse_asm_instructions_good s : good s (parse_asm_instructions pass wsnl s).
Proof.
  unfold parse_asm_instructions. apply good_step; [apply add_asm_instruction_line_good|].
  apply asm_instructions_go_spec. right. lia.
Qed.
End Asm.

(* take_separators_on_last_line *)
Theorem take_separators_on_last_line_good lvl s : good s (take_separators_on_last_line pass lvl s).
Proof.
  unfold take_separators_on_last_line. apply guard_good. intros E. apply good_mono.
  destruct (negb _); [apply good_refl|]. cbv zeta. gd3 gl.
Qed.

(* ---------------- readable forms *)
Lemma good_elim s s' : good s s' -> ps_err s = None -> ps_err s' <> Some E_fuel /\ pidx s <= pidx s'.
Proof. intros [_ B] E. apply has_err_false in E. destruct (B E). split; assumption. Qed.
Lemma good_pidx s s' : good s s' -> pidx s <= pidx s'.
Proof.
  intros [A B]. destruct (has_err_cases s) as [E|E]; [rewrite (A E); lia|apply (B E)].
Qed.

(* "with fuel >= remaining tokens + 1 the out-of-fuel value is never produced, and pass_index never
   decreases", for the loops with explicit fuel *)
Theorem next_token_go_enough_fuel fuel s : ps_err s = None -> remaining s + 1 <= fuel ->
  ps_err (next_token_go pass fuel s) <> Some E_fuel /\ pidx s <= pidx (next_token_go pass fuel s).
Proof. intros E F. apply good_elim; [apply next_token_go_spec, F|exact E]. Qed.
Theorem skip_pair_go_enough_fuel fuel p b g chev s : ps_err s = None -> remaining s + 1 <= fuel ->
  ps_err (skip_pair_go pass fuel p b g chev s) <> Some E_fuel /\ pidx s <= pidx (skip_pair_go pass fuel p b g chev s).
Proof. intros E F. apply good_elim; [apply skip_pair_go_spec; right; exact F|exact E]. Qed.
Theorem take_until_go_enough_fuel fuel pred s : ps_err s = None -> remaining s + 1 <= fuel ->
  let r := op_until_go pass fuel pred (fun s => (next_token pass s, true)) s in
  ps_err r <> Some E_fuel /\ pidx s <= pidx r.
Proof. intros E F. apply good_elim; [apply op_until_go_spec; [apply next_token_op_ok|right; exact F]|exact E]. Qed.
Theorem op_until_go_enough_fuel fuel pred op s : op_ok op -> ps_err s = None -> remaining s + 1 <= fuel ->
  ps_err (op_until_go pass fuel pred op s) <> Some E_fuel /\ pidx s <= pidx (op_until_go pass fuel pred op s).
Proof. intros H E F. apply good_elim; [apply op_until_go_spec; [exact H|right; exact F]|exact E]. Qed.
Theorem parse_expression_go_enough_fuel fuel s : ps_err s = None -> remaining s + 1 <= fuel ->
  ps_err (parse_expression_go pass fuel s) <> Some E_fuel /\ pidx s <= pidx (parse_expression_go pass fuel s).
Proof. intros E F. apply good_elim; [apply parse_expression_go_spec; right; exact F|exact E]. Qed.
Theorem parameter_list_go_enough_fuel fuel p0 consumed s : ps_err s = None -> remaining s + 1 <= fuel ->
  ps_err (parameter_list_go pass fuel p0 consumed s) <> Some E_fuel /\ pidx s <= pidx (parameter_list_go pass fuel p0 consumed s).
Proof. intros E F. apply good_elim; [apply parameter_list_go_spec; right; exact F|exact E]. Qed.
Theorem inline_comments_go_enough_fuel fuel s : ps_err s = None -> remaining s + 1 <= fuel ->
  ps_err (inline_comments_go pass fuel s) <> Some E_fuel /\ pidx s <= pidx (inline_comments_go pass fuel s).
Proof. intros E F. apply good_elim; [apply inline_comments_go_spec; right; exact F|exact E]. Qed.

(* the leaves as the grammar calls them (they give themselves remaining + 2): never out of fuel,
   pass_index never decreases, and an errored state is returned unchanged *)
Definition leaf_ok (f : pstate -> pstate) : Prop :=
  forall s, (ps_err s = None -> ps_err (f s) <> Some E_fuel) /\ pidx s <= pidx (f s)
            /\ (ps_err s <> None -> f s = s).
Lemma good_leaf_ok f : (forall s, good s (f s)) -> leaf_ok f.
Proof.
  intros H s. split; [|split].
  - intros E. apply (good_elim _ _ (H s) E).
  - apply good_pidx, H.
  - intros E. apply (proj1 (H s)). unfold ParserGrammar.has_err. destruct (ps_err s); congruence.
Qed.
Theorem leaves_terminate :
  leaf_ok (next_token pass) /\ leaf_ok (skip_pair pass) /\ leaf_ok (take_until pass (no_more_separators pass))
  /\ leaf_ok (fix_next_eq pass) /\ leaf_ok (parse_parameter_list pass) /\ leaf_ok (parse_expression pass)
  /\ leaf_ok (parse_routine_header pass) /\ leaf_ok (finish_logical_line pass) /\ leaf_ok (make_unfinished_line pass)
  /\ leaf_ok (parse_property_declaration pass) /\ leaf_ok (consolidate_portability_directives pass)
  /\ (forall lvl, leaf_ok (take_separators_on_last_line pass lvl)) /\ leaf_ok (skip_token pass)
  /\ (forall wsnl, leaf_ok (parse_asm_instructions pass wsnl)).
Proof.
  repeat match goal with |- _ /\ _ => split end; intros; apply good_leaf_ok; intros.
  - apply next_token_good.
  - apply skip_pair_good.
  - apply take_until_good.
  - apply same_good, fix_next_eq_same.
  - apply parse_parameter_list_good.
  - apply parse_expression_good.
  - apply parse_routine_header_good.
  - apply finish_logical_line_good.
  - apply make_unfinished_line_good.
  - apply parse_property_declaration_good.
  - apply consolidate_portability_directives_good.
  - apply take_separators_on_last_line_good.
  - apply skip_token_good.
  - apply parse_asm_instructions_good.
Qed.
(* every op given to op_until by the grammar consumes a token whenever the loop goes on *)
Theorem grammar_ops_ok :
  op_ok (routine_header_op pass) /\ op_ok (fun s => (property_op pass s, true))
  /\ op_ok (fun s => (parse_exports_op pass s, true)) /\ op_ok (fun s => (next_token pass s, true))
  /\ (forall p, op_ok (fun s => (keyword_consolidator pass p s, true)))
  /\ op_ok (fun s => (enum_op pass s, true)) /\ op_ok (fun s => (import_op pass s, true)).
Proof.
  repeat match goal with |- _ /\ _ => split end.
  - apply routine_header_op_ok.
  - apply property_op_ok.
  - apply parse_exports_op_ok.
  - apply next_token_op_ok.
  - intros p. apply keyword_consolidator_ok.
  - intros s E C. cbn [fst snd]. unfold enum_op. split; [gd3 gl|intros _; av3 gl].
  - intros s E C. cbn [fst snd]. unfold import_op. split; [gd3 gl|intros _; av3 gl].
Qed.

(* ================================================================== *)
(* 3. get_context_level *)
Fixpoint plain_sum (l : list (pctx * bool)) : Z :=
  match l with
  | [] => 0%Z
  | (c, _) :: r => match c_level c with
                   | CL_Parent _ d => Z.of_N d
                   | CL_Level d => (d + plain_sum r)%Z
                   end
  end.
Fixpoint first_parent (l : list (pctx * bool)) : option (nat * nat) :=
  match l with
  | [] => None
  | (c, _) :: r => match c_level c with CL_Parent p _ => Some p | CL_Level _ => first_parent r end
  end.
Lemma ctx_level_go_spec l : forall acc, ctx_level_go l acc = (first_parent l, (acc + plain_sum l)%Z).
Proof.
  induction l as [|[c e] r IH]; intros acc; cbn [ctx_level_go plain_sum first_parent].
  - f_equal. lia.
  - destruct (c_level c); [reflexivity|]. rewrite IH. f_equal. lia.
Qed.
Theorem get_context_level_range s : (snd (get_context_level pass s) <= 65535)%N.
Proof.
  unfold get_context_level. rewrite ctx_level_go_spec. cbn [snd]. unfold clamp_u16. lia.
Qed.
Theorem get_context_level_exact s :
  (0 <= plain_sum (ps_ctx pass s) <= 65535)%Z ->
  Z.of_N (snd (get_context_level pass s)) = plain_sum (ps_ctx pass s).
Proof.
  intros H. unfold get_context_level. rewrite ctx_level_go_spec. cbn [snd]. unfold clamp_u16. lia.
Qed.
Theorem get_context_level_parent s : fst (get_context_level pass s) = first_parent (ps_ctx pass s).
Proof. unfold get_context_level. rewrite ctx_level_go_spec. reflexivity. Qed.
(* the clamp is reachable from both sides only through the sum: below 0 gives 0, above gives 65535 *)
Theorem get_context_level_clamped s :
  ((plain_sum (ps_ctx pass s) < 0)%Z -> snd (get_context_level pass s) = 0%N) /\
  ((65535 < plain_sum (ps_ctx pass s))%Z -> snd (get_context_level pass s) = 65535%N).
Proof.
  unfold get_context_level. rewrite ctx_level_go_spec. cbn [snd]. unfold clamp_u16. split; intros H; lia.
Qed.
End Leaves.

(* non-vacuity of the fuel hypotheses and of the range hypothesis *)
Example enough_fuel_example :
  let pass := [0; 1; 2] in
  let s := ps_init pass [RTT_Identifier; RTT_Op OK_Semicolon; RTT_Eof] [] in
  ps_err pass s = None /\ remaining pass s + 1 <= 4
  /\ pidx pass (next_token pass s) = 1 /\ ps_err pass (next_token pass s) = None.
Proof. vm_compute. repeat split; lia. Qed.
Example context_level_example :
  let pass := [0] in
  let s := push_ctx pass (mkCtx CT_Utility true P_never (CL_Level (-1)))
             (push_ctx pass (mkCtx CT_Utility true P_never (CL_Level 3)) (ps_init pass [RTT_Eof] [])) in
  (0 <= plain_sum (ps_ctx pass s) <= 65535)%Z /\ snd (get_context_level pass s) = 2%N.
Proof. vm_compute. repeat split; discriminate. Qed.
(* a negative sum is clamped to 0: `var` directly inside a SubRoutine-less context stack *)
Example context_level_clamp_example :
  let pass := [0] in
  let s := push_ctx pass (mkCtx CT_SubRoutine true P_never (CL_Level (-1))) (ps_init pass [RTT_Eof] []) in
  (plain_sum (ps_ctx pass s) < 0)%Z /\ snd (get_context_level pass s) = 0%N.
Proof. vm_compute. split; reflexivity. Qed.

(* ================================================================== *)
(* parse_file: every pass result recorded by the model is a kernel run of its own event log *)
Definition pr_ok (pass : list nat) (pr : pass_result) : Prop :=
  map ll_toks (pr_lines pr) = k_lines (k_run pass (pr_events pr)).

Lemma F2_len {A B} (R : A -> B -> Prop) l1 l2 : Forall2 R l1 l2 -> length l1 = length l2.
Proof. induction 1; cbn; congruence. Qed.
Lemma firstn_In_l {A} n : forall (l : list A) x, In x (firstn n l) -> In x l.
Proof. induction n as [|n IH]; intros [|a l] x H; cbn in *; try contradiction. destruct H as [H|H]; [left; exact H|right; apply IH, H]. Qed.

Lemma parse_passes_kernel wsnl : forall passes toks attr acc log done,
  Forall2 pr_ok done (rev log) ->
  let r := parse_passes wsnl passes toks attr acc log in
  Forall2 pr_ok (firstn (length (r_passes r)) (done ++ passes)) (r_passes r).
Proof.
  induction passes as [|pass rest IH]; intros toks attr acc log done H; cbn [parse_passes].
  - cbn [r_passes]. rewrite app_nil_r. rewrite <- (F2_len _ _ _ H). rewrite firstn_all. exact H.
  - set (s := parse_pass pass wsnl toks attr).
    assert (H1 : Forall2 pr_ok (done ++ [pass]) (rev (mkPR (pass_events pass s) (pass_lines pass s) :: log))).
    { cbn [rev]. apply Forall2_app; [exact H|]. constructor; [|constructor].
      unfold pr_ok. cbn [pr_lines pr_events]. rewrite pass_lines_toks, state_is_kernel_run. reflexivity. }
    destruct (ps_err pass s).
    + cbn [r_passes]. rewrite <- (F2_len _ _ _ H1).
      replace (done ++ pass :: rest) with ((done ++ [pass]) ++ rest) by (rewrite <- app_assoc; reflexivity).
      rewrite firstn_app, firstn_all, Nat.sub_diag. cbn [firstn]. rewrite app_nil_r. exact H1.
    + replace (done ++ pass :: rest) with ((done ++ [pass]) ++ rest) by (rewrite <- app_assoc; reflexivity).
      apply IH. exact H1.
Qed.
Theorem parse_file_passes_are_kernel_runs toks wsnl passes :
  let r := parse_file_with toks wsnl passes in
  Forall2 pr_ok (firstn (length (r_passes r)) passes) (r_passes r).
Proof. apply (parse_passes_kernel wsnl passes toks [] [] [] []). constructor. Qed.
Lemma pr_ok_wf ps prs : Forall2 pr_ok ps prs -> Forall increasing ps ->
  Forall (fun pr => Forall increasing (map ll_toks (pr_lines pr)) /\ NoDup (concat (map ll_toks (pr_lines pr)))) prs.
Proof.
  induction 1 as [|p pr ps prs Hok _ IH]; intros Hq; constructor.
  - pose proof (Forall_inv Hq) as Hpi. unfold pr_ok in Hok. rewrite Hok.
    destruct (kernel_lines_wf p (pr_events pr) Hpi) as (A & B & _). split; assumption.
  - apply IH. exact (Forall_inv_tail Hq).
Qed.
Corollary parse_file_pass_lines_wf toks wsnl passes :
  Forall increasing passes ->
  let r := parse_file_with toks wsnl passes in
  Forall (fun pr => Forall increasing (map ll_toks (pr_lines pr)) /\ NoDup (concat (map ll_toks (pr_lines pr)))) (r_passes r).
Proof.
  intros Hp r. eapply pr_ok_wf; [apply parse_file_passes_are_kernel_runs|].
  apply Forall_forall. intros x Hx. eapply (proj1 (Forall_forall _ _) Hp), firstn_In_l, Hx.
Qed.
Example parse_file_example :
  let toks := [RTT_Identifier; RTT_Op OK_Assign; RTT_Identifier; RTT_Op OK_Semicolon; RTT_Eof] in
  Forall increasing (all_passes toks) /\
  map ll_toks (r_lines (parse_file_model toks [false; false; false; false; false])) = [[0; 1; 2; 3]; [4]].
Proof.
  split; [|vm_compute; reflexivity].
  vm_compute. constructor; [|constructor].
  repeat (constructor; [repeat (constructor; try lia)|]). constructor.
Qed.

(* ================================================================== *)
(* 4. the modelled panic sites that are plain arithmetic cannot fire on the passes of the directive
      tree (strictly increasing) *)
Lemma sorted_nth_ge_from : forall l b, increasing l -> Forall (fun x => b <= x) l ->
  forall k t, nth_error l k = Some t -> b + k <= t.
Proof.
  induction l as [|a l IH]; intros b Hs Hb k t Hk; [destruct k; discriminate|].
  pose proof (Forall_inv Hb) as Ha. cbn in Ha.
  assert (Hs' : increasing l) by (inversion Hs; assumption).
  assert (Hl : Forall (fun x => a < x) l) by (inversion Hs; assumption).
  destruct k as [|k]; cbn in Hk.
  - injection Hk as <-. lia.
  - assert (H1 : S b + k <= t).
    { apply (IH (S b)); [exact Hs'| |exact Hk].
      apply Forall_forall. intros x Hx. pose proof (proj1 (Forall_forall _ _) Hl x Hx) as Y. cbn in Y. lia. }
    lia.
Qed.
Lemma sorted_nth_ge l k t : increasing l -> nth_error l k = Some t -> k <= t.
Proof.
  intros Hs Hk. apply (sorted_nth_ge_from l 0 Hs); [|exact Hk]. apply Forall_forall. intros; lia.
Qed.
Lemma nth_error_skipn_add {A} : forall n (l : list A) k, nth_error (skipn n l) k = nth_error l (n + k).
Proof. induction n as [|n IH]; intros [|a l] k; cbn; try reflexivity; [destruct k; reflexivity|apply IH]. Qed.
Lemma nth_error_firstn_lt {A} : forall n (l : list A) k, k < n -> nth_error (firstn n l) k = nth_error l k.
Proof.
  induction n as [|n IH]; intros [|a l] k H; cbn; try reflexivity; try lia.
  destruct k; cbn; [reflexivity|apply IH; lia].
Qed.
Lemma sorted_skipn n : forall l, increasing l -> increasing (skipn n l).
Proof.
  induction n as [|n IH]; intros [|a l] H; cbn; try assumption. apply IH. inversion H; assumption.
Qed.
Lemma sorted_firstn n : forall l, increasing l -> increasing (firstn n l).
Proof.
  induction n as [|n IH]; intros [|a l] H; cbn; try constructor.
  - apply IH. inversion H; assumption.
  - apply Forall_forall. intros x Hx. inversion H as [|? ? _ Hf]; subst.
    apply (proj1 (Forall_forall _ _) Hf). clear - Hx. revert l Hx. induction n as [|n IHn]; intros [|b l] Hx; cbn in *; try contradiction.
    destruct Hx as [Hx|Hx]; [left; exact Hx|right; apply IHn, Hx].
Qed.
Definition decreasing (l : list nat) : Prop := StronglySorted (fun a b => b < a) l.
Lemma decreasing_snoc l a : decreasing l -> Forall (fun x => a < x) l -> decreasing (l ++ [a]).
Proof.
  induction l as [|b l IH]; intros Hs Hf; cbn; [constructor; constructor|].
  inversion Hs as [|? ? Hs' Hb]; subst. constructor.
  - apply IH; [exact Hs'|exact (Forall_inv_tail Hf)].
  - apply Forall_app. split; [exact Hb|]. constructor; [exact (Forall_inv Hf)|constructor].
Qed.
Lemma sorted_rev l : increasing l -> decreasing (rev l).
Proof.
  induction 1 as [|a l Hs IH Hf]; cbn; [constructor|].
  apply decreasing_snoc; [exact IH|]. apply Forall_forall. intros x Hx. apply in_rev in Hx.
  exact (proj1 (Forall_forall _ _) Hf x Hx).
Qed.

Section NoPanic.
Variable pass : list nat.
Hypothesis Hinc : increasing pass.

Lemma dir_before_go_some s : forall l last, increasing l -> Forall (fun i => last < i) l ->
  dir_before_go pass s l last <> None.
Proof.
  induction l as [|i r IH]; intros last Hs Hf; cbn [dir_before_go]; [discriminate|].
  pose proof (Forall_inv Hf) as Hi. cbn in Hi.
  destruct (i <? last) eqn:E; [apply Nat.ltb_lt in E; lia|].
  destruct (1 <? i - last); [discriminate|]. destruct (filt_at pass s i); [discriminate|].
  apply IH; inversion Hs; assumption.
Qed.
Theorem is_directive_before_next_token_no_panic s : is_directive_before_next_token pass s <> None.
Proof.
  unfold is_directive_before_next_token. apply dir_before_go_some; [apply sorted_skipn, Hinc|].
  apply Forall_forall. intros x Hx. apply In_nth_error in Hx. destruct Hx as [k Hk].
  rewrite nth_error_skipn_add in Hk. apply (sorted_nth_ge _ _ _ Hinc) in Hk. lia.
Qed.

Lemma dir_after_go_some s : pass <> [] -> forall l last, decreasing l -> Forall (fun i => i < last) l ->
  dir_after_go pass s l last <> None.
Proof.
  intros Hne. induction l as [|i r IH]; intros last Hs Hf; cbn [dir_after_go].
  - clear - Hne. revert Hne. generalize pass. intros [|a q] Hne; [contradiction|discriminate].
  - pose proof (Forall_inv Hf) as Hi. cbn in Hi.
    destruct (last <? i) eqn:E; [apply Nat.ltb_lt in E; lia|].
    destruct (1 <? last - i); [discriminate|]. destruct (filt_at pass s i); [discriminate|].
    apply IH; inversion Hs; assumption.
Qed.
Theorem is_directive_after_prev_token_no_panic s : is_directive_after_prev_token pass s <> None.
Proof.
  unfold is_directive_after_prev_token. destruct (cur_index pass s) as [last|] eqn:C; [|discriminate].
  destruct (length pass <? pidx pass s); [discriminate|].
  apply dir_after_go_some.
  - unfold cur_index in C. intros Hp. apply (f_equal (@length nat)) in Hp. cbn in Hp.
    assert (pidx pass s < length pass) by (apply nth_error_Some; congruence). lia.
  - apply sorted_rev, sorted_firstn, Hinc.
  - apply Forall_forall. intros x Hx. apply in_rev in Hx. apply In_nth_error in Hx. destruct Hx as [k Hk].
    assert (Hlt : k < pidx pass s).
    { assert (L : k < length (firstn (pidx pass s) pass)) by (apply nth_error_Some; congruence).
      rewrite firstn_length in L. lia. }
    rewrite nth_error_firstn_lt in Hk by exact Hlt.
    unfold cur_index in C. exact (sorted_nth_lt pass Hinc k (pidx pass s) x last Hlt Hk C).
Qed.
End NoPanic.

(* consolidate_portability_directives: `tokens.len() - 1` is only evaluated on a non-empty line (its
   only caller, finish_logical_line, returns early at the start of a line) *)
Theorem consolidate_portability_directives_no_panic pass (s : pstate pass) :
  at_start pass s = false -> ps_err pass s = None ->
  ps_err pass (consolidate_portability_directives pass s) = None.
Proof.
  intros Hs He. unfold consolidate_portability_directives.
  destruct (negb _); [exact He|].
  unfold at_start in Hs. destruct (cur_toks pass s) as [|t r] eqn:Ct; [discriminate|]. cbn [length]. cbv zeta.
  assert (P : forall li, ps_err pass (portability_go pass li s) = None).
  { intros li. destruct (portability_go_same pass li s) as (_ & _ & E). congruence. }
  destruct (o_semicolon _); [|apply P].
  destruct (skip_trailing_comments pass s (length r)); [exact He|apply P].
Qed.
(* get_line_parent_of_current_token().unwrap() is called where the current token was just matched *)
Lemma line_parent_of_current_some pass (s : pstate pass) :
  cur_tt pass s <> None -> line_parent_of_current pass s <> None.
Proof.
  unfold line_parent_of_current, cur_tt, idx0. destruct (cur_index pass s); [discriminate|]. intros H. exfalso. apply H. reflexivity.
Qed.

Example no_panic_example :
  let pass := [1; 2; 5] in
  let s := ps_init pass [RTT_ConditionalDirective CDK_Ifdef; RTT_CompilerDirective; RTT_Identifier;
                         RTT_ConditionalDirective CDK_Else; RTT_Identifier; RTT_Eof] [] in
  increasing pass /\ is_directive_before_next_token pass s = Some true
  /\ is_directive_after_prev_token pass s = Some true.
Proof.
  split; [|vm_compute; split; reflexivity].
  repeat (constructor; [repeat (constructor; try lia)|]). constructor.
Qed.
