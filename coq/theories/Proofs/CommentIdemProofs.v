(* Proofs/CommentIdemProofs.v — the comment / compiler-directive rewriter (comment_contents.rs) is a
   fixpoint of itself (part of C03, idempotence of formatting).

   Main results (all for an ARBITRARY `alnum : bytes -> bool`):
     format_line_comment_changes / format_compiler_directive_changes   "Some" really means changed
     format_line_comment_idempotent          (valid UTF-8; since the repair of F40 also ..._any: every byte string)
     format_compiler_directive_idempotent    (every byte string)
     comment_tok_idem / comment_formatter_idem   the stage applied twice = applied once
   The UTF-8 hypothesis is the boolean `valid_utf8` of Model/Lexer.v.  It is used in exactly one
   place: a `//` separator line (>= 10 equal non-alphanumeric characters) followed by blanks.  There
   `all_chunks_eq` cuts the comment into chunks of `utf8_len (lead byte)` bytes; on an ill-formed string
   such a chunk can END in a byte <= 0x20 that is a blank for trim_blank_end but not for
   trim_ascii_end (e.g. C2 0B), the trim removes the tail of the last chunk, the comment stops being a
   separator, and the second pass inserts a space.  A Rust `&str` is always valid UTF-8. *)
From PasfmtVerif Require Import Model.Rewriters Model.Lexer Proofs.RewritersProofs Proofs.LexerProofs.
From Coq Require Import Arith.

(* ------------------------------------------------------------------ *)
(* drop_blank_rev / trim_blank_end: where the trimming stops *)

(* the head of r is not a (reversed) blank: drop_blank_rev returns r itself *)
Definition stopb (r : bytes) : bool :=
  match r with
  | [] => true
  | z :: t =>
      negb (z <=? 32)
      && negb (match t with y :: x :: _ => (z =? 128) && (y =? 128) && (x =? 227) | _ => false end)
  end.

Lemma dbr_stop r : stopb r = true -> drop_blank_rev r = r.
Proof.
  destruct r as [|z t]; [reflexivity|]. cbn [stopb drop_blank_rev]. intros H.
  apply andb_true_iff in H. destruct H as [Hz Ht]. apply negb_true_iff in Hz, Ht. rewrite Hz.
  destruct t as [|y [|x rest]]; try reflexivity. rewrite Ht. reflexivity.
Qed.

(* induction principle following the recursion of drop_blank_rev *)
Lemma dbr_ind (P : bytes -> Prop) :
  (forall z t, (z <=? 32) = true -> P t -> P (z :: t)) ->
  (forall rest, P rest -> P (128 :: 128 :: 227 :: rest)) ->
  (forall r, stopb r = true -> P r) ->
  forall r, P r.
Proof.
  intros Hblank Htriple Hstop r.
  remember (length r) as n eqn:Hn. revert r Hn. induction n as [n IH] using lt_wf_ind. intros r Hn.
  destruct r as [|z t]; [apply Hstop; reflexivity|].
  destruct (z <=? 32) eqn:Ez.
  { apply Hblank; [exact Ez|]. apply (IH (length t)); [subst n; cbn [length]; lia|reflexivity]. }
  destruct t as [|y [|x rest]]; try (apply Hstop; cbn [stopb]; rewrite Ez; reflexivity).
  destruct ((z =? 128) && (y =? 128) && (x =? 227)) eqn:E3.
  - apply andb_true_iff in E3. destruct E3 as [E3 Ex]. apply andb_true_iff in E3. destruct E3 as [Ezz Ey].
    apply N.eqb_eq in Ezz, Ey, Ex. subst z y x.
    apply Htriple. apply (IH (length rest)); [subst n; cbn [length]; lia|reflexivity].
  - apply Hstop. cbn [stopb]. rewrite Ez, E3. reflexivity.
Qed.

Lemma dbr_blank z t : (z <=? 32) = true -> drop_blank_rev (z :: t) = drop_blank_rev t.
Proof. intros H. cbn [drop_blank_rev]. rewrite H. reflexivity. Qed.

Lemma dbr_triple rest : drop_blank_rev (128 :: 128 :: 227 :: rest) = drop_blank_rev rest.
Proof. reflexivity. Qed.

Lemma dbr_stopb r : stopb (drop_blank_rev r) = true.
Proof.
  induction r as [z t Hz IH|rest IH|r Hr] using dbr_ind.
  - rewrite dbr_blank by exact Hz. exact IH.
  - rewrite dbr_triple. exact IH.
  - rewrite dbr_stop by exact Hr. exact Hr.
Qed.

Lemma dbr_idem r : drop_blank_rev (drop_blank_rev r) = drop_blank_rev r.
Proof. apply dbr_stop, dbr_stopb. Qed.

(* everything was blank: what follows (towards the front) is trimmed as if it were alone *)
Lemma dbr_app_nil r s : drop_blank_rev r = [] -> drop_blank_rev (r ++ s) = drop_blank_rev s.
Proof.
  induction r as [z t Hz IH|rest IH|r Hr] using dbr_ind; intros H.
  - rewrite dbr_blank in H by exact Hz. rewrite <- app_comm_cons, dbr_blank by exact Hz. apply IH, H.
  - rewrite dbr_triple in H. cbn [app]. rewrite dbr_triple. apply IH, H.
  - rewrite dbr_stop in H by exact Hr. subst r. reflexivity.
Qed.

(* the byte that follows cannot complete a reversed E3 80 80 *)
Definition safe_head (s : bytes) : Prop := match s with [] => True | a :: _ => a <> 128 /\ a <> 227 end.

Lemma stopb_app r s : r <> [] -> stopb r = true -> safe_head s -> stopb (r ++ s) = true.
Proof.
  intros Hne Hr Hs. destruct r as [|z t]; [congruence|]. cbn [stopb app] in *.
  apply andb_true_iff in Hr. destruct Hr as [Hz Ht]. rewrite Hz. cbn [andb].
  destruct t as [|y [|x rest]].
  - destruct s as [|a [|a2 s2]]; try reflexivity. cbn [app]. destruct Hs as [Ha _].
    apply N.eqb_neq in Ha. rewrite Ha, andb_false_r. reflexivity.
  - destruct s as [|a s2]; [reflexivity|]. cbn [app]. destruct Hs as [_ Ha].
    apply N.eqb_neq in Ha. rewrite Ha, andb_false_r. reflexivity.
  - exact Ht.
Qed.

Lemma dbr_app_keep r s : drop_blank_rev r <> [] -> safe_head s -> drop_blank_rev (r ++ s) = drop_blank_rev r ++ s.
Proof.
  intros H Hs. induction r as [z t Hz IH|rest IH|r Hr] using dbr_ind.
  - rewrite (dbr_blank z t Hz) in H |- *. rewrite <- app_comm_cons, dbr_blank by exact Hz. apply IH, H.
  - rewrite (dbr_triple rest) in H |- *. cbn [app]. rewrite dbr_triple. apply IH, H.
  - rewrite (dbr_stop r Hr) in H |- *. apply dbr_stop, stopb_app; assumption.
Qed.

(* --- the same facts on trim_blank_end --- *)
Lemma tbe_idem l : trim_blank_end (trim_blank_end l) = trim_blank_end l.
Proof. unfold trim_blank_end. rewrite rev_involutive, dbr_idem. reflexivity. Qed.

Lemma tbe_nil_iff l : trim_blank_end l = [] <-> drop_blank_rev (rev l) = [].
Proof.
  unfold trim_blank_end. split; intros H.
  - rewrite <- (rev_involutive (drop_blank_rev (rev l))), H. reflexivity.
  - rewrite H. reflexivity.
Qed.

Lemma tbe_app_nil x y : trim_blank_end y = [] -> trim_blank_end (x ++ y) = trim_blank_end x.
Proof.
  intros H. apply tbe_nil_iff in H. unfold trim_blank_end. rewrite rev_app_distr, dbr_app_nil by exact H.
  reflexivity.
Qed.

Lemma tbe_app_keep x a y :
  a <> 128 -> a <> 227 -> trim_blank_end y <> [] ->
  trim_blank_end (x ++ a :: y) = x ++ a :: trim_blank_end y.
Proof.
  intros H1 H2 H. unfold trim_blank_end. rewrite rev_app_distr. cbn [rev]. rewrite <- app_assoc. cbn [app].
  rewrite dbr_app_keep.
  - rewrite rev_app_distr. cbn [rev]. rewrite rev_involutive, <- app_assoc. reflexivity.
  - intros E. apply H. apply tbe_nil_iff. exact E.
  - cbn [safe_head]. split; assumption.
Qed.

Lemma tbe_snoc_keep x a : 32 < a -> a <> 128 -> trim_blank_end (x ++ [a]) = x ++ [a].
Proof.
  intros H1 H2. unfold trim_blank_end. rewrite rev_app_distr. cbn [rev app].
  rewrite dbr_stop.
  - cbn [rev]. rewrite rev_involutive. reflexivity.
  - cbn [stopb]. assert (E1 : (a <=? 32) = false) by (apply N.leb_gt; exact H1).
    assert (E2 : (a =? 128) = false) by (apply N.eqb_neq; exact H2).
    rewrite E1, E2. destruct (rev x) as [|y [|x0 r]]; reflexivity.
Qed.

Lemma tbe_snoc_blank x a : a <= 32 -> trim_blank_end (x ++ [a]) = trim_blank_end x.
Proof.
  intros H. unfold trim_blank_end. rewrite rev_app_distr. cbn [rev app].
  rewrite dbr_blank by (apply N.leb_le; exact H). reflexivity.
Qed.

Lemma tbe_fixed l : length (trim_blank_end l) = length l -> trim_blank_end l = l.
Proof.
  intros H. destruct (trim_blank_end_spec l) as (suf & H1 & _).
  assert (Hs : length suf = 0%nat) by (rewrite H1 in H at 2; rewrite app_length in H; lia).
  destruct suf; [|discriminate]. rewrite app_nil_r in H1. symmetry. exact H1.
Qed.

Lemma tbe_ascii_blank suf : Forall (fun b => b <= 32) suf -> trim_blank_end suf = [].
Proof.
  intros H. apply tbe_nil_iff. apply Forall_rev in H. induction H as [|z t Hz Ht IH]; [reflexivity|].
  rewrite dbr_blank by (apply N.leb_le; exact Hz). exact IH.
Qed.

Lemma tbe_stop l : stopb (rev l) = true -> trim_blank_end l = l.
Proof. intros H. unfold trim_blank_end. rewrite dbr_stop by exact H. apply rev_involutive. Qed.

Lemma stopb_cons1 z t : 32 < z -> z <> 128 -> stopb (z :: t) = true.
Proof.
  intros H1 H2. cbn [stopb]. apply N.leb_gt in H1. apply N.eqb_neq in H2. rewrite H1, H2.
  destruct t as [|y [|x r]]; reflexivity.
Qed.

Lemma stopb_cons2 z y t : 32 < z -> y <> 128 -> stopb (z :: y :: t) = true.
Proof.
  intros H1 H2. cbn [stopb]. apply N.leb_gt in H1. apply N.eqb_neq in H2. rewrite H1, H2, andb_false_r.
  destruct t as [|x r]; reflexivity.
Qed.

Lemma stopb_cons3 z y x t : 32 < z -> ~ (z = 128 /\ y = 128 /\ x = 227) -> stopb (z :: y :: x :: t) = true.
Proof.
  intros H1 H2. cbn [stopb]. apply N.leb_gt in H1. rewrite H1. cbn [negb andb]. apply negb_true_iff.
  destruct ((z =? 128) && (y =? 128) && (x =? 227)) eqn:E; [|reflexivity].
  apply andb_true_iff in E. destruct E as [E Ex]. apply andb_true_iff in E. destruct E as [Ez Ey].
  apply N.eqb_eq in Ez, Ey, Ex. exfalso. apply H2. repeat split; assumption.
Qed.

(* ------------------------------------------------------------------ *)
(* all_chunks_eq: the list is a repetition of the chunk *)

Lemma ace_step k ch a t :
  all_chunks_eq (S k) ch (a :: t) = true ->
  exists r, a :: t = ch ++ r /\ ch <> [] /\ all_chunks_eq k ch r = true.
Proof.
  cbn [all_chunks_eq]. intros H.
  apply andb_true_iff in H. destruct H as [H Hr]. apply andb_true_iff in H. destruct H as [Hp Hn].
  apply is_prefix_spec in Hp. destruct Hp as [r Hp]. exists r. split; [exact Hp|]. split.
  - intros ->. discriminate.
  - rewrite Hp in Hr. rewrite skipn_app, skipn_all, Nat.sub_diag in Hr. exact Hr.
Qed.

Lemma ace_trim_nil n : forall ch l, all_chunks_eq n ch l = true -> trim_blank_end ch = [] -> trim_blank_end l = [].
Proof.
  induction n as [|k IH]; intros ch l H Hch.
  - destruct l as [|a t]; [reflexivity|discriminate].
  - destruct l as [|a t]; [reflexivity|].
    destruct (ace_step _ _ _ _ H) as (r & Hl & _ & Hr). rewrite Hl.
    rewrite tbe_app_nil by (eapply IH; eassumption). exact Hch.
Qed.

Lemma ace_ends n : forall ch l, all_chunks_eq n ch l = true -> l <> [] -> exists l0, l = l0 ++ ch.
Proof.
  induction n as [|k IH]; intros ch l H Hne.
  - destruct l as [|a t]; [congruence|discriminate].
  - destruct l as [|a t]; [congruence|].
    destruct (ace_step _ _ _ _ H) as (r & Hl & _ & Hr). rewrite Hl.
    destruct r as [|a' t'].
    + exists []. rewrite app_nil_r. reflexivity.
    + destruct (IH ch (a' :: t') Hr ltac:(discriminate)) as [l0 Hl0].
      exists (ch ++ l0). rewrite Hl0, app_assoc. reflexivity.
Qed.

Lemma is_cont_range b : is_cont b = true -> 128 <= b <= 191.
Proof. unfold is_cont. intros H. apply andb_true_iff in H. destruct H as [H1 H2]. apply N.leb_le in H1, H2. lia. Qed.

(* On valid UTF-8 a repetition of one character is either entirely blank or ends in a non-blank. *)
Lemma valid_repetition_trim cc :
  valid_utf8 cc = true -> all_chunks_eq (length cc) (first_char cc) cc = true ->
  trim_blank_end cc = [] \/ trim_blank_end cc = cc.
Proof.
  intros Hv Hace. destruct cc as [|b t]; [left; reflexivity|].
  destruct (ace_ends _ _ _ Hace ltac:(discriminate)) as [l0 Hl0].
  assert (Hstop : forall ch, first_char (b :: t) = ch -> stopb (rev ch ++ rev l0) = true ->
                             trim_blank_end (b :: t) = b :: t).
  { intros ch Hch Hs. rewrite Hl0 at 1 2. rewrite Hch. apply tbe_stop. rewrite rev_app_distr. exact Hs. }
  assert (Hnil : forall ch, first_char (b :: t) = ch -> trim_blank_end ch = [] -> trim_blank_end (b :: t) = []).
  { intros ch Hch Hn. rewrite Hch in Hace. eapply ace_trim_nil; eassumption. }
  cbn [first_char] in Hstop, Hnil. unfold utf8_len in Hstop, Hnil.
  destruct (valid_inv _ _ Hv) as [[Hb _]|[(b1 & t1 & -> & Hb & Hb1 & _)|[(b1 & b2 & t2 & -> & Hb & Hb1 & Hb2 & _)|
                                  (b1 & b2 & b3 & t3 & -> & Hb & Hb1 & Hb2 & Hb3 & _)]]].
  - assert (E : (b <? 128) = true) by (apply N.ltb_lt; exact Hb). rewrite E in Hstop, Hnil.
    cbn [firstn] in Hstop, Hnil.
    destruct (b <=? 32) eqn:E32.
    + left. apply (Hnil _ eq_refl). apply (tbe_snoc_blank [] b). apply N.leb_le. exact E32.
    + right. apply (Hstop _ eq_refl). cbn [rev app]. apply N.leb_gt in E32. apply stopb_cons1; lia.
  - apply is_cont_range in Hb1.
    assert (E1 : (b <? 128) = false) by (apply N.ltb_ge; lia).
    assert (E2 : (b <? 224) = true) by (apply N.ltb_lt; lia).
    rewrite E1, E2 in Hstop. cbn [firstn] in Hstop.
    right. apply (Hstop _ eq_refl). cbn [rev app]. apply stopb_cons2; lia.
  - apply is_cont_range in Hb1, Hb2.
    assert (E1 : (b <? 128) = false) by (apply N.ltb_ge; lia).
    assert (E2 : (b <? 224) = false) by (apply N.ltb_ge; lia).
    assert (E3 : (b <? 240) = true) by (apply N.ltb_lt; lia).
    rewrite E1, E2, E3 in Hstop, Hnil. cbn [firstn] in Hstop, Hnil.
    destruct ((b =? 227) && (b1 =? 128) && (b2 =? 128)) eqn:E.
    + left. apply andb_true_iff in E. destruct E as [E Ex]. apply andb_true_iff in E. destruct E as [Ez Ey].
      apply N.eqb_eq in Ez, Ey, Ex. subst b b1 b2. apply (Hnil _ eq_refl). reflexivity.
    + right. apply (Hstop _ eq_refl). cbn [rev app]. apply stopb_cons3; [lia|].
      intros (A1 & A2 & A3). subst b b1 b2. discriminate.
  - apply is_cont_range in Hb1, Hb2, Hb3.
    assert (E1 : (b <? 128) = false) by (apply N.ltb_ge; lia).
    assert (E2 : (b <? 224) = false) by (apply N.ltb_ge; lia).
    assert (E3 : (b <? 240) = false) by (apply N.ltb_ge; lia).
    rewrite E1, E2, E3 in Hstop. cbn [firstn] in Hstop.
    right. apply (Hstop _ eq_refl). cbn [rev app]. apply stopb_cons3; [lia|].
    intros (_ & _ & A3). lia.
Qed.

(* ------------------------------------------------------------------ *)
(* format_line_comment *)

Definition slashes (P : bytes) : Prop := P = [47; 47] \/ P = [47; 47; 47].

(* when only `//` was stripped the comment does not start with a third slash *)
Definition head_ok (P comment : bytes) : Prop := P = [47; 47] -> flc_comment comment = comment.

Section LineComment.
  Variable alnum : bytes -> bool.

  (* format_line_comment once the slashes P have been split off *)
  Definition flc_core (P comment : bytes) : option bytes :=
    let new1 := flc_new1 alnum (P ++ comment) comment in
    if Nat.eqb (length (trim_blank_end (P ++ comment))) (length (P ++ comment)) then new1
    else Some (trim_blank_end (match new1 with Some s => s | None => P ++ comment end)).

  Lemma flc_compose P comment :
    slashes P -> head_ok P comment -> format_line_comment alnum (P ++ comment) = flc_core P comment.
  Proof.
    intros [->| ->] Hh.
    - unfold format_line_comment, flc_core. change (strip_prefix [47; 47] ([47; 47] ++ comment)) with (Some comment).
      cbv beta iota. rewrite (Hh eq_refl). reflexivity.
    - reflexivity.
  Qed.

  Lemma flc_decomp c :
    format_line_comment alnum c = None \/
    exists P comment, slashes P /\ head_ok P comment /\ c = P ++ comment.
  Proof.
    unfold format_line_comment. destruct (strip_prefix [47; 47] c) as [comment0|] eqn:E; [right|left; reflexivity].
    apply strip_prefix_some in E. subst c.
    destruct comment0 as [|b r].
    - exists [47; 47], []. split; [left; reflexivity|]. split; [intros _; reflexivity|reflexivity].
    - destruct (b =? 47) eqn:Eb.
      + apply N.eqb_eq in Eb. subst b. exists [47; 47; 47], r.
        split; [right; reflexivity|]. split; [intros H; discriminate|reflexivity].
      + exists [47; 47], (b :: r). split; [left; reflexivity|]. split; [|reflexivity].
        intros _. cbn [flc_comment]. rewrite Eb. reflexivity.
  Qed.

  Lemma slashes_trim P : slashes P -> trim_blank_end P = P.
  Proof. intros [->| ->]; reflexivity. Qed.

  Lemma tbe_P_comment P comment :
    slashes P ->
    trim_blank_end (P ++ comment) =
    match trim_blank_end comment with [] => P | _ :: _ => P ++ trim_blank_end comment end.
  Proof.
    intros HP. destruct (trim_blank_end comment) as [|x ty] eqn:E.
    - rewrite tbe_app_nil by exact E. apply slashes_trim, HP.
    - rewrite <- E. assert (Hne : trim_blank_end comment <> []) by (rewrite E; discriminate).
      destruct HP as [->| ->].
      + apply (tbe_app_keep [47] 47 comment); [lia|lia|exact Hne].
      + apply (tbe_app_keep [47; 47] 47 comment); [lia|lia|exact Hne].
  Qed.

  Lemma tbe_P_sp_comment P comment :
    slashes P ->
    trim_blank_end (P ++ 32 :: comment) =
    match trim_blank_end comment with [] => P | _ :: _ => P ++ 32 :: trim_blank_end comment end.
  Proof.
    intros HP. destruct (trim_blank_end comment) as [|x ty] eqn:E.
    - change (P ++ 32 :: comment) with (P ++ [32] ++ comment). rewrite app_assoc.
      rewrite tbe_app_nil by exact E. rewrite tbe_snoc_blank by lia. apply slashes_trim, HP.
    - rewrite <- E. apply tbe_app_keep; [lia|lia|rewrite E; discriminate].
  Qed.

  (* second pass on a comment that already has its space *)
  Lemma flc_spaced P t :
    slashes P -> trim_blank_end (P ++ 32 :: t) = P ++ 32 :: t -> format_line_comment alnum (P ++ 32 :: t) = None.
  Proof.
    intros HP Ht. rewrite flc_compose; [|exact HP|intros _; reflexivity].
    unfold flc_core. rewrite Ht, Nat.eqb_refl. reflexivity.
  Qed.

  Lemma flc_bare P : slashes P -> format_line_comment alnum P = None.
  Proof. intros [->| ->]; reflexivity. Qed.

  (* "Some" means changed *)
  Lemma flc_core_changes P comment c' : flc_core P comment = Some c' -> c' <> P ++ comment.
  Proof.
    unfold flc_core.
    destruct (Nat.eqb (length (trim_blank_end (P ++ comment))) (length (P ++ comment))) eqn:E.
    - intros H. apply flc_new1_spec in H. subst c'. intros Heq.
      apply (f_equal (@length N)) in Heq. rewrite !app_length in Heq. cbn [length] in Heq. lia.
    - intros H. injection H as <-. intros Heq. apply Nat.eqb_neq in E. apply E.
      rewrite <- Heq at 1. rewrite tbe_idem. rewrite Heq. reflexivity.
  Qed.

  (* the only place where well-formedness matters: a separator line stays one when its blanks go *)
  Definition sep_stable (comment : bytes) : Prop :=
    comment_is_separator alnum comment = true -> trim_blank_end comment <> [] ->
    comment_is_separator alnum (trim_blank_end comment) = true.

  Lemma flc_core_idem P comment c' :
    slashes P -> head_ok P comment -> sep_stable comment ->
    flc_core P comment = Some c' -> format_line_comment alnum c' = None.
  Proof.
    intros HP Hh Hsep. unfold flc_core.
    pose proof (tbe_P_comment P comment HP) as T1. pose proof (tbe_P_sp_comment P comment HP) as T2.
    assert (Hnew : forall s, flc_new1 alnum (P ++ comment) comment = Some s -> s = P ++ 32 :: comment).
    { intros s H. apply flc_new1_spec in H. exact H. }
    destruct (trim_blank_end comment) as [|x ty] eqn:Ety.
    { (* the comment is entirely blank: everything is trimmed back to the slashes *)
      rewrite T1. destruct (Nat.eqb (length P) (length (P ++ comment))) eqn:El.
      - apply Nat.eqb_eq in El. rewrite app_length in El. destruct comment; [|cbn [length] in El; lia].
        cbn [flc_new1]. discriminate.
      - intros H. injection H as <-.
        destruct (flc_new1 alnum (P ++ comment) comment) as [s|] eqn:En.
        + rewrite (Hnew s eq_refl), T2. apply flc_bare, HP.
        + rewrite T1. apply flc_bare, HP. }
    rewrite <- Ety in T1, T2. assert (Hne : trim_blank_end comment <> []) by (rewrite Ety; discriminate).
    destruct (trim_blank_end_spec comment) as (suf & Hc & _).
    destruct (Nat.eqb (length (trim_blank_end (P ++ comment))) (length (P ++ comment))) eqn:El.
    { (* nothing to trim: only the space is inserted *)
      apply Nat.eqb_eq, tbe_fixed in El. rewrite T1 in El. apply app_inv_head in El.
      intros H. rewrite (Hnew _ H). apply flc_spaced; [exact HP|]. rewrite T2, El. reflexivity. }
    intros H. injection H as <-.
    destruct (flc_new1 alnum (P ++ comment) comment) as [s|] eqn:En.
    { rewrite (Hnew s eq_refl), T2. apply flc_spaced; [exact HP|].
      rewrite (tbe_P_sp_comment P (trim_blank_end comment) HP), tbe_idem, Ety. reflexivity. }
    (* no space inserted (leading whitespace, or a separator): the trimmed comment is handled alike *)
    rewrite T1.
    assert (Hh' : head_ok P (trim_blank_end comment)).
    { intros HP2. specialize (Hh HP2). rewrite Ety. rewrite Hc, Ety in Hh. cbn [app flc_comment] in Hh |- *.
      destruct (x =? 47); [|reflexivity]. exfalso.
      apply (f_equal (@length N)) in Hh. cbn [length] in Hh. lia. }
    rewrite flc_compose by assumption. unfold flc_core.
    rewrite (tbe_P_comment P (trim_blank_end comment) HP), tbe_idem, Ety, <- Ety, Nat.eqb_refl.
    unfold sep_stable in Hsep. rewrite Ety in Hc.
    destruct comment as [|x' rest]; [discriminate Hc|]. cbn [app] in Hc. injection Hc as Hx Hrest. subst x'.
    unfold flc_new1 in En |- *. rewrite Ety.
    destruct (negb (is_ascii_ws x)); [|reflexivity]. cbn [andb] in En |- *.
    destruct (comment_is_separator alnum (x :: rest)) eqn:Es; [|discriminate En].
    rewrite <- Ety. rewrite (Hsep eq_refl Hne). reflexivity.
  Qed.

  (* since the repair of F40 the separator test trims the lexer's blanks itself, so it is stable under that trim for EVERY
     byte string (the UTF-8 hypothesis is kept in the statement for its callers, it is no longer used) *)
  Lemma valid_sep_stable comment : valid_utf8 comment = true -> sep_stable comment.
  Proof.
    intros _ Hsep _. unfold comment_is_separator in *. rewrite tbe_idem. exact Hsep.
  Qed.

  Lemma valid_tail47 l : valid_utf8 (47 :: l) = true -> valid_utf8 l = true.
  Proof. intros H. rewrite valid_utf8_unfold in H. exact H. Qed.

  (* --- the theorems on format_line_comment --- *)

  (* 4. `Some` really means changed: every byte string *)
  Theorem format_line_comment_changes c c' : format_line_comment alnum c = Some c' -> c' <> c.
  Proof.
    intros H. destruct (flc_decomp c) as [E|(P & comment & HP & Hh & ->)]; [congruence|].
    rewrite flc_compose in H by assumption. apply flc_core_changes, H.
  Qed.

  (* 1. general form: no encoding hypothesis, only stability of the separator test under the trim *)
  Theorem format_line_comment_idempotent_gen c c' :
    (forall P comment, slashes P -> c = P ++ comment -> sep_stable comment) ->
    format_line_comment alnum c = Some c' -> format_line_comment alnum c' = None.
  Proof.
    intros Hs H. destruct (flc_decomp c) as [E|(P & comment & HP & Hh & Hc)]; [congruence|].
    subst c. rewrite flc_compose in H by assumption.
    eapply flc_core_idem; [exact HP|exact Hh| |exact H]. eapply Hs; [exact HP|reflexivity].
  Qed.

  (* 1. on valid UTF-8 (every Rust &str) *)
  Theorem format_line_comment_idempotent c c' :
    valid_utf8 c = true -> format_line_comment alnum c = Some c' -> format_line_comment alnum c' = None.
  Proof.
    intros Hv. apply format_line_comment_idempotent_gen. intros P comment HP ->.
    apply valid_sep_stable. destruct HP as [->| ->]; cbn [app] in Hv; repeat apply valid_tail47 in Hv; exact Hv.
  Qed.

  (* comments that are not separator lines need no hypothesis at all *)
  Corollary format_line_comment_idempotent_nosep c c' :
    (forall P comment, slashes P -> c = P ++ comment -> comment_is_separator alnum comment = false) ->
    format_line_comment alnum c = Some c' -> format_line_comment alnum c' = None.
  Proof.
    intros Hn. apply format_line_comment_idempotent_gen. intros P comment HP Hc Hsep.
    rewrite (Hn P comment HP Hc) in Hsep. discriminate.
  Qed.
End LineComment.

(* ------------------------------------------------------------------ *)
(* format_compiler_directive *)

(* upper-casing keeps every byte class the directive scanner looks at *)
Lemma to_upper_is_alpha b : is_alpha (to_upper b) = is_alpha b.
Proof.
  unfold to_upper. destruct (is_lower b) eqn:E; [|reflexivity].
  unfold is_alpha. rewrite E, orb_true_r. unfold is_lower in E. apply andb_true_iff in E.
  destruct E as [E1 E2]. apply N.leb_le in E1, E2. unfold is_upper.
  assert (H1 : (65 <=? b - 32) = true) by (apply N.leb_le; lia).
  assert (H2 : (b - 32 <=? 90) = true) by (apply N.leb_le; lia).
  rewrite H1, H2. reflexivity.
Qed.

Lemma to_upper_is_digit b : is_digit (to_upper b) = is_digit b.
Proof.
  unfold to_upper. destruct (is_lower b) eqn:E; [|reflexivity].
  unfold is_lower in E. apply andb_true_iff in E. destruct E as [E1 E2]. apply N.leb_le in E1, E2.
  unfold is_digit. transitivity false; [|symmetry]; apply andb_false_iff; right; apply N.leb_gt; lia.
Qed.

Lemma to_upper_eqb b k : k < 65 \/ 90 < k -> k < 97 \/ 122 < k -> (to_upper b =? k) = (b =? k).
Proof.
  intros K1 K2. unfold to_upper. destruct (is_lower b) eqn:E; [|reflexivity].
  unfold is_lower in E. apply andb_true_iff in E. destruct E as [E1 E2]. apply N.leb_le in E1, E2.
  transitivity false; [|symmetry]; apply N.eqb_neq; lia.
Qed.

Lemma to_upper_is_word_byte b : is_word_byte (to_upper b) = is_word_byte b.
Proof. unfold is_word_byte. rewrite to_upper_is_alpha, to_upper_is_digit, to_upper_eqb by lia. reflexivity. Qed.

Lemma existsb_is_lower_upper d : existsb is_lower (upper d) = false.
Proof.
  induction d as [|b t IH]; [reflexivity|]. cbn [upper map existsb]. fold (upper t). rewrite IH, orb_false_r.
  unfold to_upper. destruct (is_lower b) eqn:L; [|exact L].
  unfold is_lower in *. apply andb_true_iff in L. destruct L as [L1 L2]. apply N.leb_le in L1, L2.
  apply andb_false_iff. left. apply N.leb_gt. lia.
Qed.

Ltac dir_scan_cases b st sw :=
  destruct (match st with DBefore | DAfterComma => true | _ => false end && is_alpha b);
  [|destruct (match st with DAfterLetter => true | _ => false end && ((b =? 43) || (b =? 45)));
    [|destruct (match st with DAfterPlusMinus | DAfterDigit => true | _ => false end && (b =? 44));
      [|destruct (match st with DAfterLetter | DAfterDigit => true | _ => false end && is_digit b);
        [|destruct (match st with DAfterLetter | DAfterWord => true | _ => false end && is_word_byte b && negb sw);
          [|destruct (match st with DAfterLetter => true | _ => false end && (b =? 44));
            [|destruct (match st with DAfterComma | DAfterLetter => true | _ => false end)]]]]]].

Lemma dir_scan_bounds l : forall st sw len n,
  dir_scan st sw l len = Some n -> (len <= n <= len + length l)%nat.
Proof.
  induction l as [|b t IH]; intros st sw len n H.
  - cbn [dir_scan] in H. injection H as <-. cbn [length]. lia.
  - cbn [dir_scan] in H. cbn [length].
    dir_scan_cases b st sw; try discriminate H; try (apply IH in H; lia).
    injection H as <-. lia.
Qed.

(* upper-casing the scanned part does not move the end of the directive name *)
Lemma dir_scan_upper l : forall st sw len n,
  dir_scan st sw l len = Some n ->
  dir_scan st sw (upper (firstn (n - len) l) ++ skipn (n - len) l) len = Some n.
Proof.
  induction l as [|b t IH]; intros st sw len n H.
  - rewrite firstn_nil, skipn_nil. exact H.
  - pose proof H as H0. cbn [dir_scan] in H.
    assert (Hrec : forall st' sw', dir_scan st' sw' t (S len) = Some n ->
              upper (firstn (n - len) (b :: t)) ++ skipn (n - len) (b :: t)
              = to_upper b :: (upper (firstn (n - S len) t) ++ skipn (n - S len) t)
              /\ dir_scan st' sw' (upper (firstn (n - S len) t) ++ skipn (n - S len) t) (S len) = Some n).
    { intros st' sw' Hr. split; [|apply IH, Hr]. apply dir_scan_bounds in Hr.
      replace (n - len)%nat with (S (n - S len)) by lia. reflexivity. }
    assert (Hgoal : forall l', l' = to_upper b :: (upper (firstn (n - S len) t) ++ skipn (n - S len) t) ->
              dir_scan st sw l' len = dir_scan st sw (b :: upper (firstn (n - S len) t) ++ skipn (n - S len) t) len).
    { intros l' ->. cbn [dir_scan].
      rewrite to_upper_is_alpha, to_upper_is_digit, to_upper_is_word_byte, !to_upper_eqb by lia. reflexivity. }
    cbn [dir_scan] in Hgoal.
    dir_scan_cases b st sw; try discriminate H;
      try (destruct (Hrec _ _ H) as [E1 E2]; rewrite (Hgoal _ E1); exact E2).
    injection H as <-. rewrite Nat.sub_diag. exact H0.
Qed.

Definition dir_strip (c : bytes) : option bytes :=
  match strip_prefix [123; 36] c with
  | Some s => Some s
  | None => strip_prefix [40; 42; 36] c
  end.

Lemma fcd_unfold c :
  format_compiler_directive c =
  match dir_strip c with
  | None => None
  | Some stripped =>
      match dir_scan DBefore false stripped 0 with
      | None => None
      | Some dlen =>
          let directive := firstn dlen stripped in
          if existsb is_lower directive then
            Some (firstn (length c - length stripped) c ++ upper directive ++ skipn dlen stripped)
          else None
      end
  end.
Proof. reflexivity. Qed.

(* the prefix found the first time is found again, whatever follows it *)
Lemma dir_strip_some c s :
  dir_strip c = Some s -> exists pfx, c = pfx ++ s /\ forall s', dir_strip (pfx ++ s') = Some s'.
Proof.
  unfold dir_strip. destruct (strip_prefix [123; 36] c) as [s0|] eqn:E1.
  - intros H. injection H as <-. apply strip_prefix_some in E1. exists [123; 36]. split; [exact E1|reflexivity].
  - intros E2. apply strip_prefix_some in E2. exists [40; 42; 36]. split; [exact E2|reflexivity].
Qed.

(* the shape of a rewritten directive *)
Lemma fcd_shape c c' :
  format_compiler_directive c = Some c' ->
  exists pfx d rest,
    c = pfx ++ d ++ rest /\ c' = pfx ++ upper d ++ rest /\ existsb is_lower d = true /\
    (forall s', dir_strip (pfx ++ s') = Some s') /\
    dir_scan DBefore false (upper d ++ rest) 0 = Some (length d).
Proof.
  rewrite fcd_unfold. destruct (dir_strip c) as [stripped|] eqn:Es; [|discriminate].
  destruct (dir_strip_some _ _ Es) as (pfx & Hc & Hpfx).
  destruct (dir_scan DBefore false stripped 0) as [dlen|] eqn:Ed; [|discriminate].
  cbv zeta. destruct (existsb is_lower (firstn dlen stripped)) eqn:El; [|discriminate].
  intros H. injection H as <-.
  pose proof (dir_scan_bounds _ _ _ _ _ Ed) as Hb. pose proof (dir_scan_upper _ _ _ _ _ Ed) as Hu.
  rewrite Nat.sub_0_r in Hu.
  exists pfx, (firstn dlen stripped), (skipn dlen stripped).
  split; [rewrite firstn_skipn; exact Hc|]. split; [rewrite Hc, RewritersProofs.firstn_app_exact; reflexivity|].
  split; [exact El|]. split; [exact Hpfx|].
  rewrite firstn_length_le by lia. exact Hu.
Qed.

Lemma firstn_upper_app d rest : firstn (length d) (upper d ++ rest) = upper d.
Proof.
  induction d as [|b t IH]; [reflexivity|]. cbn [length upper map app firstn]. f_equal. exact IH.
Qed.

(* 2. the directive rewriter is idempotent: every byte string *)
Theorem format_compiler_directive_idempotent c c' :
  format_compiler_directive c = Some c' -> format_compiler_directive c' = None.
Proof.
  intros H. destruct (fcd_shape _ _ H) as (pfx & d & rest & _ & -> & _ & Hpfx & Hscan).
  rewrite fcd_unfold, Hpfx, Hscan. cbv zeta.
  pose proof (firstn_upper_app d rest) as E.
  rewrite E, existsb_is_lower_upper. reflexivity.
Qed.

(* 4. `Some` really means changed *)
Theorem format_compiler_directive_changes c c' : format_compiler_directive c = Some c' -> c' <> c.
Proof.
  intros H. destruct (fcd_shape _ _ H) as (pfx & d & rest & -> & -> & El & _ & _). intros Heq.
  apply app_inv_head in Heq.
  assert (E : upper d = d) by (apply app_inv_tail in Heq; exact Heq).
  rewrite <- E, existsb_is_lower_upper in El. discriminate.
Qed.

(* ------------------------------------------------------------------ *)
(* the stage: comment_tok / comment_formatter *)

Definition is_line_comment_ty (ty : TokenType) : bool :=
  match ty with TT_Comment CoK_InlineLine | TT_Comment CoK_IndividualLine => true | _ => false end.

(* what the stage needs to know about a token: a `//` comment it may touch is well-formed text
   (the lexer cuts a valid string at character boundaries: C13_pieces_valid_utf8) *)
Definition tok_utf8_ok (p : ftoken) : Prop :=
  f_ignored (snd p) = false -> is_line_comment_ty (t_ty (fst p)) = true ->
  valid_utf8 (t_content (fst p)) = true.

Section Stage.
  Variable alnum : bytes -> bool.

  (* the per-type dispatch of CommentFormatter::format *)
  Definition comment_rewrite (ty : TokenType) (c : bytes) : option bytes :=
    match ty with
    | TT_CompilerDirective | TT_ConditionalDirective _ => format_compiler_directive c
    | TT_Comment CoK_InlineLine | TT_Comment CoK_IndividualLine => format_line_comment alnum c
    | _ => None
    end.

  Lemma comment_tok_unfold tok f :
    comment_tok alnum (tok, f) =
    if f_ignored f then (tok, f)
    else match comment_rewrite (t_ty tok) (t_content tok) with
         | Some c => (set_content tok c, f)
         | None => (tok, f)
         end.
  Proof. reflexivity. Qed.

  Lemma comment_rewrite_idem ty c c' :
    (is_line_comment_ty ty = true -> valid_utf8 c = true) ->
    comment_rewrite ty c = Some c' -> comment_rewrite ty c' = None.
  Proof.
    intros Hv. destruct ty as [| | | | |k| |k| |]; cbn [comment_rewrite]; try discriminate.
    - apply format_compiler_directive_idempotent.
    - apply format_compiler_directive_idempotent.
    - destruct k; try discriminate; apply format_line_comment_idempotent, Hv; reflexivity.
  Qed.

  Lemma comment_rewrite_changes ty c c' : comment_rewrite ty c = Some c' -> c' <> c.
  Proof.
    destruct ty as [| | | | |k| |k| |]; cbn [comment_rewrite]; try discriminate.
    - apply format_compiler_directive_changes.
    - apply format_compiler_directive_changes.
    - destruct k; try discriminate; apply format_line_comment_changes.
  Qed.

  (* the stage keeps token types and formatting data (so the second pass dispatches alike) *)
  Lemma comment_tok_meta p : same_meta p (comment_tok alnum p).
  Proof.
    destruct p as [tok f]. rewrite comment_tok_unfold. unfold same_meta.
    destruct (f_ignored f); [split; reflexivity|].
    destruct (comment_rewrite (t_ty tok) (t_content tok)); split; reflexivity.
  Qed.

  Lemma comment_tok_idem p : tok_utf8_ok p -> comment_tok alnum (comment_tok alnum p) = comment_tok alnum p.
  Proof.
    destruct p as [tok f]. unfold tok_utf8_ok. cbn [fst snd]. intros Hok.
    rewrite (comment_tok_unfold tok f). destruct (f_ignored f) eqn:I.
    - rewrite comment_tok_unfold, I. reflexivity.
    - destruct (comment_rewrite (t_ty tok) (t_content tok)) as [c'|] eqn:R.
      + rewrite comment_tok_unfold, I. cbn [set_content t_ty t_content].
        rewrite (comment_rewrite_idem _ _ _ (Hok eq_refl) R). reflexivity.
      + rewrite comment_tok_unfold, I, R. reflexivity.
  Qed.

  (* 3. the stage applied twice is the stage applied once *)
  Theorem comment_formatter_idem l :
    Forall tok_utf8_ok l -> comment_formatter alnum (comment_formatter alnum l) = comment_formatter alnum l.
  Proof.
    intros H. unfold comment_formatter. rewrite map_map.
    induction H as [|p t Hp Ht IH]; [reflexivity|]. cbn [map]. rewrite comment_tok_idem by exact Hp.
    f_equal. exact IH.
  Qed.

  Corollary comment_formatter_idem_valid l :
    Forall (fun p : ftoken => valid_utf8 (t_content (fst p)) = true) l ->
    comment_formatter alnum (comment_formatter alnum l) = comment_formatter alnum l.
  Proof.
    intros H. apply comment_formatter_idem. eapply Forall_impl; [|exact H].
    intros p Hp _ _. exact Hp.
  Qed.

  (* ignored tokens are never touched, so they need nothing *)
  Lemma tok_utf8_ok_ignored p : f_ignored (snd p) = true -> tok_utf8_ok p.
  Proof. intros H H'. congruence. Qed.
End Stage.

(* ------------------------------------------------------------------ *)
(* examples and refutations *)

(* an instance of char::is_alphanumeric good enough for ASCII examples *)
Definition al0 (ch : bytes) : bool := match ch with b :: _ => is_alnum b | [] => false end.

Definition twice_lc (a : bytes -> bool) (c : bytes) : option (bytes * option bytes) :=
  match format_line_comment a c with Some c' => Some (c', format_line_comment a c') | None => None end.
Definition twice_dir (c : bytes) : option (bytes * option bytes) :=
  match format_compiler_directive c with Some c' => Some (c', format_compiler_directive c') | None => None end.

(* `//x` -> `// x` *)
Example ex_lc_x : twice_lc al0 [47; 47; 120] = Some ([47; 47; 32; 120], None).
Proof. vm_compute. reflexivity. Qed.
(* `///doc  ` -> `/// doc` *)
Example ex_lc_doc : twice_lc al0 [47; 47; 47; 100; 111; 99; 32; 32] = Some ([47; 47; 47; 32; 100; 111; 99], None).
Proof. vm_compute. reflexivity. Qed.
(* `//----------  ` (ten dashes) is a separator: only trimmed *)
Example ex_lc_sep : twice_lc al0 ([47; 47] ++ repeat 45 10 ++ [32; 32]) = Some ([47; 47] ++ repeat 45 10, None).
Proof. vm_compute. reflexivity. Qed.
(* ... unless the caller's alnum says `-` is alphanumeric: the theorems hold for any alnum *)
Example ex_lc_sep_alnum :
  twice_lc (fun _ => true) ([47; 47] ++ repeat 45 10 ++ [32; 32]) = Some ([47; 47; 32] ++ repeat 45 10, None).
Proof. vm_compute. reflexivity. Qed.
(* `//--------- ` (nine dashes + blank) is NOT a separator: space inserted and trimmed *)
Example ex_lc_nine : twice_lc al0 ([47; 47] ++ repeat 45 9 ++ [32]) = Some ([47; 47; 32] ++ repeat 45 9, None).
Proof. vm_compute. reflexivity. Qed.
(* `//` + ten VT: a separator made of a blank that trim_ascii_end keeps; trimmed to `//` *)
Example ex_lc_vt : twice_lc al0 ([47; 47] ++ repeat 11 10) = Some ([47; 47], None).
Proof. vm_compute. reflexivity. Qed.
(* nine VT: not a separator, `// ` + VTs is built and then trimmed to `//` *)
Example ex_lc_vt9 : twice_lc al0 ([47; 47] ++ repeat 11 9) = Some ([47; 47], None).
Proof. vm_compute. reflexivity. Qed.
(* `//` + U+3000 x 4 (12 bytes): separator of ideographic spaces, trimmed to `//` *)
Example ex_lc_u3000 : twice_lc al0 ([47; 47] ++ repeat_app 4 [227; 128; 128]) = Some ([47; 47], None).
Proof. vm_compute. reflexivity. Qed.
(* `///` + U+3000 x 3 + `x` + U+3000: trailing blank removed, inner ones kept *)
Example ex_lc_doc_u3000 :
  twice_lc al0 ([47; 47; 47] ++ repeat_app 3 [227; 128; 128] ++ [120] ++ [227; 128; 128])
  = Some ([47; 47; 47; 32] ++ repeat_app 3 [227; 128; 128] ++ [120], None).
Proof. vm_compute. reflexivity. Qed.
(* a separator of a two-byte character (U+00A0 x 5) followed by a space *)
Example ex_lc_nbsp :
  twice_lc al0 ([47; 47] ++ repeat_app 5 [194; 160] ++ [32]) = Some ([47; 47] ++ repeat_app 5 [194; 160], None).
Proof. vm_compute. reflexivity. Qed.
(* untouched inputs *)
Example ex_lc_none :
  format_line_comment al0 [47; 47] = None /\ format_line_comment al0 [47; 47; 32; 120] = None /\
  format_line_comment al0 ([47; 47] ++ repeat 45 10) = None /\ format_line_comment al0 [47; 120] = None.
Proof. vm_compute. repeat split; reflexivity. Qed.

(* the hypotheses of the theorems are satisfiable on these inputs (non-vacuity) *)
Example ex_lc_idem_instance :
  format_line_comment al0 [47; 47; 47; 32; 100; 111; 99] = None.
Proof.
  apply (format_line_comment_idempotent al0 [47; 47; 47; 100; 111; 99; 32; 32]); vm_compute; reflexivity.
Qed.
Example ex_lc_changes_instance : [47; 47; 32; 120] <> [47; 47; 120].
Proof. apply (format_line_comment_changes al0). vm_compute. reflexivity. Qed.

(* `{$ifdef foo}` -> `{$IFDEF foo}` *)
Example ex_dir_ifdef :
  twice_dir [123; 36; 105; 102; 100; 101; 102; 32; 102; 111; 111; 125]
  = Some ([123; 36; 73; 70; 68; 69; 70; 32; 102; 111; 111; 125], None).
Proof. vm_compute. reflexivity. Qed.
(* `{$r+,q-}` -> `{$R+,Q-}` *)
Example ex_dir_switch : twice_dir [123; 36; 114; 43; 44; 113; 45; 125] = Some ([123; 36; 82; 43; 44; 81; 45; 125], None).
Proof. vm_compute. reflexivity. Qed.
(* `(*$mode delphi*)` -> `(*$MODE delphi*)` *)
Example ex_dir_paren :
  twice_dir [40; 42; 36; 109; 111; 100; 101; 32; 100; 101; 108; 112; 104; 105; 42; 41]
  = Some ([40; 42; 36; 77; 79; 68; 69; 32; 100; 101; 108; 112; 104; 105; 42; 41], None).
Proof. vm_compute. reflexivity. Qed.
(* untouched: already upper case; `{$r,}` (the scanner returns early); a plain comment *)
Example ex_dir_none :
  format_compiler_directive [123; 36; 73; 70; 68; 69; 70; 32; 102; 111; 111; 125] = None /\
  format_compiler_directive [123; 36; 114; 44; 125] = None /\
  format_compiler_directive [123; 120; 125] = None.
Proof. vm_compute. repeat split; reflexivity. Qed.
Example ex_dir_idem_instance : format_compiler_directive [123; 36; 82; 43; 44; 81; 45; 125] = None.
Proof. apply (format_compiler_directive_idempotent [123; 36; 114; 43; 44; 113; 45; 125]). vm_compute. reflexivity. Qed.
Example ex_dir_changes_instance : [123; 36; 82; 43; 44; 81; 45; 125] <> [123; 36; 114; 43; 44; 113; 45; 125].
Proof. apply format_compiler_directive_changes. vm_compute. reflexivity. Qed.

(* a token list for the stage: `//x`, an ignored `//y`, `{$ifdef foo}`, `///doc  `, an identifier *)
Definition ex_fmt (ign : bool) : fmt := mkFmt ign 0 0 0 0.
Definition ex_tokens : list ftoken :=
  [ (mkToken [32] [47; 47; 120] (TT_Comment CoK_IndividualLine), ex_fmt false);
    (mkToken [] [47; 47; 121] (TT_Comment CoK_InlineLine), ex_fmt true);
    (mkToken [] [123; 36; 105; 102; 100; 101; 102; 32; 102; 111; 111; 125] (TT_ConditionalDirective CDK_Ifdef), ex_fmt false);
    (mkToken [] [47; 47; 47; 100; 111; 99; 32; 32] (TT_Comment CoK_InlineLine), ex_fmt false);
    (mkToken [] [47; 47; 120] TT_Identifier, ex_fmt false) ].

Example ex_tokens_ok : Forall tok_utf8_ok ex_tokens.
Proof. repeat constructor; intros _ _; vm_compute; reflexivity. Qed.

Example ex_stage :
  map (fun p : ftoken => t_content (fst p)) (comment_formatter al0 ex_tokens)
  = [ [47; 47; 32; 120]; [47; 47; 121]; [123; 36; 73; 70; 68; 69; 70; 32; 102; 111; 111; 125];
      [47; 47; 47; 32; 100; 111; 99]; [47; 47; 120] ]
  /\ comment_formatter al0 (comment_formatter al0 ex_tokens) = comment_formatter al0 ex_tokens.
Proof. split; [vm_compute; reflexivity|apply comment_formatter_idem, ex_tokens_ok]. Qed.

(* --- since the repair of F40 the encoding hypothesis is no longer needed --- *)
(* `//` + (C2 0B) x 5 (ill-formed): before the repair the separator test trimmed ASCII whitespace only, the final 0B was a blank
   for trim_blank_end alone, the first pass cut the last chunk in two and the second pass inserted a space.  Now both trims
   are the same one and the rewriter is idempotent on every byte string. *)
Definition bad_comment : bytes := [47; 47] ++ repeat_app 5 [194; 11].

Theorem format_line_comment_idempotent_any alnum c c' :
  format_line_comment alnum c = Some c' -> format_line_comment alnum c' = None.
Proof.
  apply format_line_comment_idempotent_gen. intros P comment _ _ Hsep _.
  unfold comment_is_separator in *. rewrite tbe_idem. exact Hsep.
Qed.

Example format_line_comment_former_witness :
  exists c', format_line_comment al0 bad_comment = Some c' /\ format_line_comment al0 c' = None.
Proof. eexists. split; vm_compute; reflexivity. Qed.

Print Assumptions format_line_comment_idempotent.
Print Assumptions format_line_comment_idempotent_gen.
Print Assumptions format_line_comment_changes.
Print Assumptions format_compiler_directive_idempotent.
Print Assumptions format_compiler_directive_changes.
Print Assumptions comment_tok_idem.
Print Assumptions comment_formatter_idem.
Print Assumptions comment_formatter_idem_valid.
Print Assumptions format_line_comment_idempotent_any.

