(* Proofs/WrapWidthIndependence.v — the theorem behind C10 on the search model:
   when max_line_length bounds what the search can measure (Proofs/WrapUnconstrainedProofs.v: cpre), the decisions the
   search returns — break / continue and the continuation count of every break, of the line and of its child lines at
   any depth, with the penalty — do not depend on the lengths of the two indentation strings, nor on any other length
   (spaces, token lengths, multi-line lengths): solve_width_independent.  The states may hold any cache entries that
   earlier searches of the same run produced (both phases, F6 included): the conclusion re-establishes the
   invariants, so the statement composes over the lines of a file and over the two phases. *)
From PasfmtVerif Require Import Proofs.WrapWidthFree Proofs.WrapSearchProofs Proofs.WrapDepthProofs Proofs.WrapSimProofs Proofs.WrapUnconstrainedProofs.
From Coq Require Import Lia.

(* what a run must satisfy: its constants bound its views *)
Record run_bounds (W : wsettings) (lvs : list lview) (m SW LV IB CB : N) (span : nat -> N) : Prop := {
  rb_rec : forall i lv r, nth_error lvs i = Some lv -> In r (lv_recs lv) ->
             tr_sp r + tr_len r <= m /\ (forall x, tr_ml r = Some x -> x <= m) /\ stack_weight (tr_stk r) <= SW;
  rb_lvl : forall i lv, nth_error lvs i = Some lv -> lv_level lv <= LV;
  rb_span : forall i lv, nth_error lvs i = Some lv -> psum span (lv_recs lv) <= span i;
  rb_wf : views_wf lvs;
  rb_fun : forall k lv, nth_error lvs k = Some lv -> view_fun lv }.

Theorem solve_width_independent
    WA WB lvsA lvsB fm mA SWA LVA IBA CBA spanA mB SWB LVB IBB CBB spanB :
  w_iter WA = w_iter WB -> w_bbb WA = w_bbb WB -> Forall2 view_sim lvsA lvsB ->
  run_bounds WA lvsA mA SWA LVA IBA CBA spanA -> run_bounds WB lvsB mB SWB LVB IBB CBB spanB ->
  forall i lvA lvB k stA stB ws fdA fdB,
    nth_error lvsA i = Some lvA -> nth_error lvsB i = Some lvB -> (length lvsA - i < k)%nat -> fd_sim fdA fdB ->
    sound WA lvsA fm stA -> cache_bd WA lvsA mA IBA CBA spanA stA ->
    sound WB lvsB fm stB -> cache_bd WB lvsB mB IBB CBB spanB stB ->
    cpre WA mA SWA LVA IBA CBA spanA k i ws fdA -> cpre WB mB SWB LVB IBB CBB spanB k i ws fdB ->
    option_map erase (snd (solve WA lvsA fm k stA lvA ws fdA)) = option_map erase (snd (solve WB lvsB fm k stB lvB ws fdB))
    /\ sound WA lvsA fm (fst (solve WA lvsA fm k stA lvA ws fdA)) /\ cache_bd WA lvsA mA IBA CBA spanA (fst (solve WA lvsA fm k stA lvA ws fdA))
    /\ sound WB lvsB fm (fst (solve WB lvsB fm k stB lvB ws fdB)) /\ cache_bd WB lvsB mB IBB CBB spanB (fst (solve WB lvsB fm k stB lvB ws fdB)).
Proof.
  intros Hiter Hbbb Hviews [A1 A2 A3 A4 A5] [B1 B2 B3 B4 B5] i lvA lvB k stA stB ws fdA fdB HiA HiB Hk Hfd HsA HcA HsB HcB HpA HpB.
  destruct (solve_unc WA lvsA fm mA SWA LVA IBA CBA spanA A1 A2 A3 A4 A5 k stA lvA i ws fdA HiA HcA HpA) as (EA & CA & _).
  destruct (solve_unc WB lvsB fm mB SWB LVB IBB CBB spanB B1 B2 B3 B4 B5 k stB lvB i ws fdB HiB HcB HpB) as (EB & CB' & _).
  destruct (solve_inf_sim WA WB lvsA lvsB fm Hiter Hbbb Hviews A4 B4 A5 B5 i lvA lvB k k stA stB ws fdA fdB HiA HiB Hk Hk HsA HsB Hfd) as (S1 & S2 & S3).
  rewrite EA, EB. split; [exact S3|]. split; [exact S1|]. split; [rewrite <- EA; exact CA|]. split; [exact S2|rewrite <- EB; exact CB'].
Qed.


(* ------------------------------------------------------------------ *)
(* an executable check of the three numeric clauses of run_bounds, for span given as a list *)
Definition rec_check (m SW : N) (r : trec) : bool :=
  (tr_sp r + tr_len r <=? m) && match tr_ml r with Some x => x <=? m | None => true end && (stack_weight (tr_stk r) <=? SW).

Definition view_check (m SW LV : N) (span : nat -> N) (ilv : nat * lview) : bool :=
  (lv_level (snd ilv) <=? LV) && forallb (rec_check m SW) (lv_recs (snd ilv)) && (psum span (lv_recs (snd ilv)) <=? span (fst ilv)).

Definition bounds_check (lvs : list lview) (m SW LV : N) (spanl : list N) : bool :=
  forallb (view_check m SW LV (fun k => nth k spanl 0)) (combine (seq 0 (length lvs)) lvs).

Lemma combine_seq_nth {A} (l : list A) : forall s i x, nth_error l i = Some x -> In ((s + i)%nat, x) (combine (seq s (length l)) l).
Proof.
  induction l as [|a r IH]; intros s i x H; [destruct i; discriminate|]. cbn [length seq combine]. destruct i as [|i]; cbn [nth_error] in H.
  - injection H as <-. left. f_equal. lia.
  - right. replace (s + S i)%nat with (S s + i)%nat by lia. apply IH. exact H.
Qed.

Lemma bounds_check_ok lvs m SW LV spanl : bounds_check lvs m SW LV spanl = true ->
  (forall i lv r, nth_error lvs i = Some lv -> In r (lv_recs lv) ->
     tr_sp r + tr_len r <= m /\ (forall x, tr_ml r = Some x -> x <= m) /\ stack_weight (tr_stk r) <= SW)
  /\ (forall i lv, nth_error lvs i = Some lv -> lv_level lv <= LV)
  /\ (forall i lv, nth_error lvs i = Some lv -> psum (fun k => nth k spanl 0) (lv_recs lv) <= nth i spanl 0).
Proof.
  unfold bounds_check. intros H. rewrite forallb_forall in H.
  assert (Hv : forall i lv, nth_error lvs i = Some lv -> view_check m SW LV (fun k => nth k spanl 0) (i, lv) = true)
    by (intros i lv Hi; apply H; exact (combine_seq_nth lvs 0 i lv Hi)).
  repeat split.
  - specialize (Hv i lv H0). unfold view_check in Hv. cbn [fst snd] in Hv. apply andb_true_iff in Hv. destruct Hv as (Hv & _). apply andb_true_iff in Hv. destruct Hv as (_ & Hv).
    rewrite forallb_forall in Hv. specialize (Hv r H1). unfold rec_check in Hv. apply andb_true_iff in Hv. destruct Hv as (Hv & _). apply andb_true_iff in Hv. destruct Hv as (Hv & _). apply N.leb_le. exact Hv.
  - intros x Hx. specialize (Hv i lv H0). unfold view_check in Hv. cbn [fst snd] in Hv. apply andb_true_iff in Hv. destruct Hv as (Hv & _). apply andb_true_iff in Hv. destruct Hv as (_ & Hv).
    rewrite forallb_forall in Hv. specialize (Hv r H1). unfold rec_check in Hv. apply andb_true_iff in Hv. destruct Hv as (Hv & _). apply andb_true_iff in Hv. destruct Hv as (_ & Hv). rewrite Hx in Hv. apply N.leb_le. exact Hv.
  - specialize (Hv i lv H0). unfold view_check in Hv. cbn [fst snd] in Hv. apply andb_true_iff in Hv. destruct Hv as (Hv & _). apply andb_true_iff in Hv. destruct Hv as (_ & Hv).
    rewrite forallb_forall in Hv. specialize (Hv r H1). unfold rec_check in Hv. apply andb_true_iff in Hv. destruct Hv as (_ & Hv). apply N.leb_le. exact Hv.
  - intros i lv Hi. specialize (Hv i lv Hi). unfold view_check in Hv. cbn [fst snd] in Hv. apply andb_true_iff in Hv. destruct Hv as (Hv & _). apply andb_true_iff in Hv. destruct Hv as (Hv & _). apply N.leb_le. exact Hv.
  - intros i lv Hi. specialize (Hv i lv Hi). unfold view_check in Hv. cbn [fst snd] in Hv. apply andb_true_iff in Hv. destruct Hv as (_ & Hv). apply N.leb_le. exact Hv.
Qed.

(* a span list: computed from the last line backwards (children are later lines) *)
Fixpoint span_list (lvs : list lview) (i : nat) : list N :=
  match lvs with
  | [] => []
  | lv :: rest => let sr := span_list rest (S i) in psum (fun k => nth (k - S i) sr 0) (lv_recs lv) :: sr
  end.

(* run_bounds for the model's own views, from the executable check *)
Theorem run_bounds_of_check W infos lines m SW LV IB CB spanl :
  parents_ok lines = true -> bounds_check (mk_lviews infos lines) m SW LV spanl = true ->
  run_bounds W (mk_lviews infos lines) m SW LV IB CB (fun k => nth k spanl 0).
Proof.
  intros Hp Hc. destruct (bounds_check_ok _ _ _ _ _ Hc) as (H1 & H2 & H3).
  constructor; [exact H1|exact H2|exact H3|exact (mk_lviews_wf infos lines Hp)|exact (mk_lviews_fun infos lines)].
Qed.

Print Assumptions solve_width_independent.

(* ------------------------------------------------------------------ *)
(* non-vacuity: the variant-record input of Proofs/WrapOptimalityProofs.v (a line with a child line) at
   max_line_length 10^9, indentation 2 / continuation 4 against indentation 8 / continuation 3 *)
From PasfmtVerif Require Import Proofs.WrapOptimalityProofs.

Definition wi_WA : wsettings := mkWS 1000000000 200 false 2 4.
Definition wi_WB : wsettings := mkWS 1000000000 200 false 8 3.
Definition wi_lvs := mk_lviews f30_infos f30_lines.
Definition wi_spanl : list N := span_list wi_lvs 0.

Example wi_bounds_A : run_bounds wi_WA wi_lvs 20 40 5 100 1000 (fun k => nth k wi_spanl 0).
Proof. apply run_bounds_of_check; vm_compute; reflexivity. Qed.
Example wi_bounds_B : run_bounds wi_WB wi_lvs 20 40 5 100 1000 (fun k => nth k wi_spanl 0).
Proof. apply run_bounds_of_check; vm_compute; reflexivity. Qed.

Example width_independent_f30 :
  match nth_error wi_lvs 3 with
  | Some lv => option_map erase (snd (solve wi_WA wi_lvs (main_fuel wi_WA) 8 sst_init lv (2, 0) FD_Break))
               = option_map erase (snd (solve wi_WB wi_lvs (main_fuel wi_WB) 8 sst_init lv (2, 0) FD_Break))
  | None => False
  end.
Proof.
  destruct (nth_error wi_lvs 3) as [lv|] eqn:E; [|vm_compute in E; discriminate].
  refine (proj1 (solve_width_independent wi_WA wi_WB wi_lvs wi_lvs (main_fuel wi_WA) 20 40 5 100 1000 _ 20 40 5 100 1000 _
                   eq_refl eq_refl (mk_lviews_view_sim f30_infos f30_infos f30_lines eq_refl) wi_bounds_A wi_bounds_B
                   3 lv lv 8 sst_init sst_init (2, 0) FD_Break FD_Break E E _ I
                   (sound_init _ _ _) (cache_bd_init _ _ _ _ _ _) (sound_init _ _ _) (cache_bd_init _ _ _ _ _ _) _ _)).
  - vm_compute. lia.
  - split; [split; vm_compute; intros H; discriminate|]. vm_compute. intros H; discriminate.
  - split; [split; vm_compute; intros H; discriminate|]. vm_compute. intros H; discriminate.
Qed.

(* the two runs do differ in what they measure: only the erased solutions agree *)
Example width_independent_f30_lengths_differ :
  match nth_error wi_lvs 3 with
  | Some lv => match snd (solve wi_WA wi_lvs (main_fuel wi_WA) 8 sst_init lv (2, 0) FD_Break),
                     snd (solve wi_WB wi_lvs (main_fuel wi_WB) 8 sst_init lv (2, 0) FD_Break) with
               | Some a, Some b => sol_len a <> sol_len b /\ sol_pen a = sol_pen b
               | _, _ => False
               end
  | None => False
  end.
Proof. vm_compute. split; [discriminate|reflexivity]. Qed.
