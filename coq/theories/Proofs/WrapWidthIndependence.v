(* Proofs/WrapWidthIndependence.v — the theorem behind C10 on the search model:
   when max_line_length bounds what the search can measure (Proofs/WrapUnconstrainedProofs.v: cpre), the decisions the
   search returns — break / continue and the continuation count of every break, of the line and of its child lines at
   any depth, with the penalty — do not depend on the lengths of the two indentation strings, nor on any other length
   (spaces, token lengths, multi-line lengths): solve_width_independent.  The states may hold any cache entries that
   earlier searches of the same run produced (both phases, F6 included): the conclusion re-establishes the
   invariants, so the statement composes over the lines of a file and over the two phases. *)
From PasfmtVerif Require Import Proofs.WrapWidthFree Proofs.WrapSearchProofs Proofs.WrapDepthProofs Proofs.WrapSimProofs Proofs.WrapUnconstrainedProofs.
From Coq Require Import Lia.

(* what a run must satisfy: its constants bound its views *)
Record run_bounds (W : wsettings) (lvs : list lview) (m SW LV IB CB : N) (span : nat -> N) : Prop := {
  rb_rec : forall i lv r, nth_error lvs i = Some lv -> In r (lv_recs lv) ->
             tr_sp r + tr_len r <= m /\ (forall x, tr_ml r = Some x -> x <= m) /\ stack_weight (tr_stk r) <= SW;
  rb_lvl : forall i lv, nth_error lvs i = Some lv -> lv_level lv <= LV;
  rb_span : forall i lv, nth_error lvs i = Some lv -> psum span (lv_recs lv) <= span i;
  rb_wf : views_wf lvs;
  rb_fun : forall k lv, nth_error lvs k = Some lv -> view_fun lv }.

Theorem solve_width_independent
    WA WB lvsA lvsB fm mA SWA LVA IBA CBA spanA mB SWB LVB IBB CBB spanB :
  w_iter WA = w_iter WB -> w_bbb WA = w_bbb WB -> Forall2 view_sim lvsA lvsB ->
  run_bounds WA lvsA mA SWA LVA IBA CBA spanA -> run_bounds WB lvsB mB SWB LVB IBB CBB spanB ->
  forall i lvA lvB k stA stB ws fdA fdB,
    nth_error lvsA i = Some lvA -> nth_error lvsB i = Some lvB -> (length lvsA - i < k)%nat -> fd_sim fdA fdB ->
    sound WA lvsA fm stA -> cache_bd WA lvsA mA IBA CBA spanA stA ->
    sound WB lvsB fm stB -> cache_bd WB lvsB mB IBB CBB spanB stB ->
    cpre WA mA SWA LVA IBA CBA spanA k i ws fdA -> cpre WB mB SWB LVB IBB CBB spanB k i ws fdB ->
    option_map erase (snd (solve WA lvsA fm k stA lvA ws fdA)) = option_map erase (snd (solve WB lvsB fm k stB lvB ws fdB))
    /\ sound WA lvsA fm (fst (solve WA lvsA fm k stA lvA ws fdA)) /\ cache_bd WA lvsA mA IBA CBA spanA (fst (solve WA lvsA fm k stA lvA ws fdA))
    /\ sound WB lvsB fm (fst (solve WB lvsB fm k stB lvB ws fdB)) /\ cache_bd WB lvsB mB IBB CBB spanB (fst (solve WB lvsB fm k stB lvB ws fdB)).
Proof.
  intros Hiter Hbbb Hviews [A1 A2 A3 A4 A5] [B1 B2 B3 B4 B5] i lvA lvB k stA stB ws fdA fdB HiA HiB Hk Hfd HsA HcA HsB HcB HpA HpB.
  destruct (solve_unc WA lvsA fm mA SWA LVA IBA CBA spanA A1 A2 A3 A4 A5 k stA lvA i ws fdA HiA HcA HpA) as (EA & CA & _).
  destruct (solve_unc WB lvsB fm mB SWB LVB IBB CBB spanB B1 B2 B3 B4 B5 k stB lvB i ws fdB HiB HcB HpB) as (EB & CB' & _).
  destruct (solve_inf_sim WA WB lvsA lvsB fm Hiter Hbbb Hviews A4 B4 A5 B5 i lvA lvB k k stA stB ws fdA fdB HiA HiB Hk Hk HsA HsB Hfd) as (S1 & S2 & S3).
  rewrite EA, EB. split; [exact S3|]. split; [exact S1|]. split; [rewrite <- EA; exact CA|]. split; [exact S2|rewrite <- EB; exact CB'].
Qed.

Print Assumptions solve_width_independent.
